/-
JSON front end for the export model (`Model/Export.lean`): driver commands prefixed `export`.

`exportsql`: same input as `sql` (`stmts`, `metadata`, `default_schema`, `silent`, `upper`, `rev_star`) plus an optional
  `"order": {"table": {"nodes": [id…], "edges": [[source, target]…]}, "column": {…}}` — the order in which the
  implementation iterated `graph.nodes` / `graph.edges` of each view.  networkx fixes neither (a subgraph view that keeps
  fewer than half of the nodes iterates a Python set), and io.py's output depends on it (order of the entries, which
  column's owner names a shared parent entry), so the harness hands the observed order back and the model's view is
  permuted accordingly before `toCytoscape` runs (a node hint may be `[id, k]`: the k‑th still unused model node printing
  `id`, needed only when several nodes print alike); ids that the model does not have are ignored, model nodes that the hint
  does not mention stay behind in their own order (the comparison then fails, as it should).
  Output: `{"sql": […], "out": {"error": e} | {"table": {"elems": […], "wf": b, "print_injective": b}, "column": {…},
  "summary": text, "sections": {source, target, intermediate}, "nstmts": n}}` with `elems` in exactly the JSON shape
  `to_cytoscape` returns.
`exportfull`: the implementation's OWN combined graph, dumped by `harness/implgraph.py::graph_json` (`{"graph": {"nodes": [{n, tags,
  payload}…], "edges": [{u, v, type, index}…]}, "nstmts": n, "order": …}`) → the same `out` object as `exportsql`: the model's
  views, both exports, role lists and summary text computed from that graph.  This is the correspondence that ties
  `Model/Export.lean` (+ the views and role predicates of `Model/Assemble.lean`) to the code on EVERY real result, corpus
  included, independently of how well the walk models the analysis of the statement.
`exportgraph`: `{"nodes": [[node, payload|null]…], "edges": [[u, v]…], "compound": bool}` → `{"elems": […]}` for a graph
  given directly (direct correspondence with `io.to_cytoscape` on hand‑made graphs, no SQL involved).
-/
import Lean.Data.Json
import SqlLineage.Model.Export
import SqlLineage.IO.Sql

namespace SqlLineage.IO.Export
open Lean SqlLineage SqlLineage.Export

def elemToJson : Elem → Json
  | .node i => Json.mkObj [("data", Json.mkObj [("id", .str i)])]
  | .cnode i p cs t => Json.mkObj [("data", Json.mkObj [
      ("id", .str i), ("parent", .str p),
      ("parent_candidates", .arr (cs.map (fun c => Json.mkObj [("name", .str c.1), ("type", .str c.2)])).toArray),
      ("type", .str t)])]
  | .parent i t => Json.mkObj [("data", Json.mkObj [("id", .str i), ("type", .str t)])]
  | .edge i s t => Json.mkObj [("data", Json.mkObj [("id", .str i), ("source", .str s), ("target", .str t)])]

/-- remove the `k`‑th (0‑based) element satisfying `p` -/
def extractNth {α : Type} (p : α → Bool) : Nat → List α → Option (α × List α)
  | _, [] => none
  | k, x :: r =>
    if p x then
      match k with
      | 0 => some (x, r)
      | k' + 1 => (extractNth p k' r).map (fun yr => (yr.1, x :: yr.2))
    else (extractNth p k r).map (fun yr => (yr.1, x :: yr.2))

/-- permute `l` so that its keys follow `hint`: each hint `(key, k)` takes the `k`‑th still unused element with that key
    (`k = 0` unless several elements print alike — D24 — and the harness has to say which one came first); leftovers keep
    their order -/
def reorderBy {α : Type} (key : α → String) : List (String × Nat) → List α → List α
  | [], rest => rest
  | h :: hs, rest =>
    match extractNth (fun x => key x == h.1) h.2 rest with
    | some (x, rest') => x :: reorderBy key hs rest'
    | none => reorderBy key hs rest

def edgeKey (g : LGraph) (e : Node × Node) : String := printedNode g e.1 ++ "\u0001" ++ printedNode g e.2

/-- the view with `graph.nodes` / `graph.edges` iterating in the hinted order -/
def reorderView (g : LGraph) (nodes : Option (List (String × Nat))) (edges : Option (List (String × String))) : LGraph :=
  let g1 : LGraph := match nodes with
    | some h => { g with nodes := reorderBy (printedNode g) h g.nodes }
    | none => g
  match edges with
  | some h => { g1 with edges := reorderBy (edgeKey g) (h.map (fun p => (p.1 ++ "\u0001" ++ p.2, 0))) g1.edges }
  | none => g1

def decidePrintInjective (g : LGraph) (c : Bool) : Bool :=
  nodupb ((items g c).map (printItem g))

def hintOf (j : Json) (level : String) : Option (List (String × Nat)) × Option (List (String × String)) :=
  match (j.getObjVal? "order").toOption.bind (fun o => (o.getObjVal? level).toOption) with
  | none => (none, none)
  | some o =>
    let ns := match (o.getObjVal? "nodes").toOption with
      | some (.arr a) => some (a.toList.filterMap (fun x => match x with
          | .str s => some (s, 0)
          | .arr #[.str s, k] => some (s, (k.getNat?).toOption.getD 0)
          | _ => none))
      | _ => none
    let es := match (o.getObjVal? "edges").toOption with
      | some (.arr a) => some (a.toList.filterMap (fun x => match x with
          | .arr #[.str s, .str t] => some (s, t) | _ => none))
      | _ => none
    (ns, es)

def levelJson (G : LGraph) (l : Level) (hint : Option (List (String × Nat)) × Option (List (String × String))) : Json :=
  let v := reorderView (view G l) hint.1 hint.2
  let c := (l == .column)
  Json.mkObj [
    ("elems", .arr ((toCytoscape v c).map elemToJson).toArray),
    ("wf", .bool (edgesWFb v && nodupb v.nodes)),
    ("print_injective", .bool (decidePrintInjective v c))]

def jstrs (l : List String) : Json := .arr (l.map Json.str).toArray

def outJson (G : LGraph) (nStmts : Nat) (j : Json) : Json :=
  let s := summaryOf nStmts G
  Json.mkObj [
    ("table", levelJson G .table (hintOf j "table")),
    ("column", levelJson G .column (hintOf j "column")),
    ("summary", .str s.text),
    ("sections", Json.mkObj [("source", jstrs s.source), ("target", jstrs s.target),
      ("intermediate", jstrs s.intermediate)]),
    ("nstmts", .num ⟨nStmts, 0⟩),
    ("graph_wf", .bool (edgesWFb G && nodupb G.nodes))]

def handleExportSql (j : Json) : Except String Json := do
  let ssJ ← j.getObjValAs? (Array Json) "stmts"
  let ss ← ssJ.toList.mapM IO.Sql.stmtOf
  let c := IO.Sql.configOf j
  let md ← IO.Sql.metaOf j
  let rendered := ss.map (Render.stmt c.ro)
  let out := match Runner.eval c md ss with
    | .error e => Json.mkObj [("error", .str (IO.Graph.errToString e))]
    | .ok (G, _) => outJson G ss.length j
  pure <| Json.mkObj [("sql", jstrs rendered), ("out", out)]

def tagOfName (s : String) : Option Tag := IO.Graph.allTags.find? (fun t => IO.Graph.tagName t == s)

def etypeOfName (s : String) : EType :=
  match [EType.lineage, .rename, .hasColumn, .hasAlias].find? (fun t => IO.Graph.etypeName t == s) with
  | some t => t
  | none => .lineage

/-- payload of a hand‑made node: `{"raw": r, "parents": [[ds, printed]…]}` | `{"alias": a}` | null -/
def payloadOf : Json → Except String (Option Payload)
  | .null => pure none
  | j =>
    match (j.getObjVal? "alias").toOption with
    | some (.str a) => pure (some (.sub a))
    | _ => do
      let raw ← j.getObjValAs? String "raw"
      let ps ← j.getObjValAs? (Array Json) "parents"
      let ps ← ps.toList.mapM (fun p => match p with
        | .arr #[d, .str n] => do pure ((← IO.Graph.dsOfJson d), n)
        | _ => throw "bad parent")
      pure (some (.col ⟨raw, ps⟩))

def handleExportGraph (j : Json) : Except String Json := do
  let nsJ ← j.getObjValAs? (Array Json) "nodes"
  let esJ ← j.getObjValAs? (Array Json) "edges"
  let compound := (j.getObjValAs? Bool "compound").toOption.getD false
  let nodes ← nsJ.toList.mapM (fun x => match x with
    | .arr #[n, p] => do pure ((← IO.Graph.nodeOfJson n), (← payloadOf p))
    | _ => throw "bad node entry")
  let edges ← esJ.toList.mapM (fun x => match x with
    | .arr #[u, v] => do pure ((← IO.Graph.nodeOfJson u), (← IO.Graph.nodeOfJson v))
    | _ => throw "bad edge entry")
  let g0 : LGraph := nodes.foldl (fun g np => g.addNode np.1 np.2) Graph.empty
  -- `add_edge` on present nodes only records the edge (absent endpoints would be added, as networkx does)
  let g : LGraph := edges.foldl (fun g e => g.addEdge e.1 e.2 .lineage) g0
  pure <| Json.mkObj [
    ("elems", .arr ((toCytoscape g compound).map elemToJson).toArray),
    ("wf", .bool (edgesWFb g && nodupb g.nodes)),
    ("print_injective", .bool (decidePrintInjective g compound))]

/-- rebuild an `LGraph` from `implgraph.graph_json`: nodes in iteration order with their tags and key objects, then edges -/
def graphOfDump (gj : Json) : Except String LGraph := do
  let nsJ ← gj.getObjValAs? (Array Json) "nodes"
  let esJ ← gj.getObjValAs? (Array Json) "edges"
  let mut g : LGraph := Graph.empty
  for x in nsJ.toList do
    let n ← IO.Graph.nodeOfJson (← x.getObjVal? "n")
    let pay ← payloadOf ((x.getObjVal? "payload").toOption.getD .null)
    g := g.addNode n pay
    match (x.getObjVal? "tags").toOption with
    | some (.obj m) =>
      for (k, v) in m.toList do
        match tagOfName k, v with
        | some t, .bool b => g := g.setTag n t b
        | _, _ => pure ()
    | _ => pure ()
  for x in esJ.toList do
    let u ← IO.Graph.nodeOfJson (← x.getObjVal? "u")
    let v ← IO.Graph.nodeOfJson (← x.getObjVal? "v")
    let ty := match (x.getObjVal? "type").toOption with | some (.str t) => etypeOfName t | _ => .lineage
    let idx := match (x.getObjVal? "index").toOption with | some i => (i.getNat?).toOption | none => none
    g := g.addEdge u v ty idx
  pure g

def handleExportFull (j : Json) : Except String Json := do
  let G ← graphOfDump (← j.getObjVal? "graph")
  let n := (j.getObjValAs? Nat "nstmts").toOption.getD 0
  pure <| Json.mkObj [("out", outJson G n j)]

end SqlLineage.IO.Export
