/- JSON front end for the C04 driver command `chain` (model's metadata session after each statement). -/
import Lean.Data.Json
import SqlLineage.Model.Chain
import SqlLineage.IO.Sql

namespace SqlLineage.IO.Chain
open Lean SqlLineage Ast

def entryJson (e : String × List String) : Json :=
  Json.mkObj [("table", .str e.1), ("columns", IO.Sql.jstrs e.2)]

/-- `{"cmd":"chain","stmts":[…],"metadata":{…}, …same options as "sql"}` →
    `{"sql":[…], "steps":[{"registered": null | {table, columns}, "session":[{table, columns}…]}…], "error": null | "…",
      "out": {"result": …} | {"error": …}}` -/
def handleChain (j : Json) : Except String Json := do
  let ssJ ← j.getObjValAs? (Array Json) "stmts"
  let ss ← ssJ.toList.mapM IO.Sql.stmtOf
  let c := IO.Sql.configOf j
  let md ← IO.Sql.metaOf j
  let (steps, err) := SqlLineage.Chain.trace c ⟨md, []⟩ ss
  let stepsJ := steps.map (fun st => Json.mkObj [
    ("registered", match st.registered with | some e => entryJson e | none => .null),
    ("session", .arr ((SqlLineage.Chain.sessionDict st.after.session).map entryJson).toArray)])
  let out := match Runner.eval c md ss with
    | .error e => Json.mkObj [("error", .str (IO.Graph.errToString e))]
    | .ok (g, _) => Json.mkObj [("result", IO.Sql.resultJson g)]
  pure <| Json.mkObj [
    ("sql", IO.Sql.jstrs (ss.map (Render.stmt c.ro))),
    ("steps", .arr stepsJ.toArray),
    ("error", match err with | some e => .str (IO.Graph.errToString e) | none => .null),
    ("out", out)]

end SqlLineage.IO.Chain
