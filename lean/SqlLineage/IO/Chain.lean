/- JSON front end for the C04 driver command `chain` (model's metadata session after each statement). -/
import Lean.Data.Json
import SqlLineage.Model.Chain
import SqlLineage.IO.Sql

namespace SqlLineage.IO.Chain
open Lean SqlLineage Ast

def entryJson (e : String × List String) : Json :=
  Json.mkObj [("table", .str e.1), ("columns", IO.Sql.jstrs e.2)]

/-- `{"cmd":"chain","stmts":[…],"metadata":{…}, …same options as "sql"}` →
    `{"sql":[…], "steps":[{"registered": null | {table, columns}, "session":[{table, columns}…]}…], "error": null | "…",
      "out": {"result": …} | {"error": …}}` -/
def handleChain (j : Json) : Except String Json := do
  let ssJ ← j.getObjValAs? (Array Json) "stmts"
  let ss ← ssJ.toList.mapM IO.Sql.stmtOf
  let c := IO.Sql.configOf j
  let md ← IO.Sql.metaOf j
  let (steps, err) := SqlLineage.Chain.trace c ⟨md, []⟩ ss
  let stepsJ := steps.map (fun st => Json.mkObj [
    ("registered", match st.registered with | some e => entryJson e | none => .null),
    ("session", .arr ((SqlLineage.Chain.sessionDict st.after.session).map entryJson).toArray)])
  let out := match Runner.eval c md ss with
    | .error e => Json.mkObj [("error", .str (IO.Graph.errToString e))]
    | .ok (g, _) => Json.mkObj [("result", IO.Sql.resultJson g)]
  pure <| Json.mkObj [
    ("sql", IO.Sql.jstrs (ss.map (Render.stmt c.ro))),
    ("steps", .arr stepsJ.toArray),
    ("error", match err with | some e => .str (IO.Graph.errToString e) | none => .null),
    ("out", out)]

def etypeOf : String → EType
  | "rename" => .rename | "has_column" => .hasColumn | "has_alias" => .hasAlias | _ => .lineage

/-- `{"cmd":"chainpaths","nodes":[<node JSON as in IO/Graph>…],"edges":[[i,j,"lineage"|"has_column"|…]…],
      "excl_end":true,"excl_sub":false}` — the graph of an IMPLEMENTATION result, nodes in `g.nodes` order, edges by node index in
    `g.edges` order → `Paths.columnLineage` of that graph as lists of node indices, its roots and leaves, and whether two of the
    given nodes have the same model key (then the model cannot represent the graph faithfully).  Ties `Model/Paths.lean` to
    `get_column_lineage` + `networkx.all_simple_paths` independently of the extractors. -/
def handleChainPaths (j : Json) : Except String Json := do
  let nodesJ ← j.getObjValAs? (Array Json) "nodes"
  let nodes ← nodesJ.toList.mapM IO.Graph.nodeOfJson
  let edgesJ ← j.getObjValAs? (Array Json) "edges"
  let edges ← edgesJ.toList.mapM (fun e => match e with
    | .arr #[a, b, .str t] => do
      let a ← a.getNat?; let b ← b.getNat?
      match nodes[a]?, nodes[b]? with
      | some u, some v => pure (u, v, etypeOf t)
      | _, _ => throw "edge index out of range"
    | _ => throw s!"bad edge {e.compress}")
  let exclEnd := (j.getObjValAs? Bool "excl_end").toOption.getD true
  let exclSub := (j.getObjValAs? Bool "excl_sub").toOption.getD false
  let g0 : LGraph := nodes.foldl (fun g n => g.addNode n) Graph.empty
  let g : LGraph := edges.foldl (fun g e => g.addEdge e.1 e.2.1 e.2.2) g0
  let idx : Node → Nat := fun n => nodes.idxOf n
  let jn (l : List Node) : Json := .arr (l.map (fun n => Json.num ⟨idx n, 0⟩)).toArray
  pure <| Json.mkObj [
    ("paths", .arr ((Paths.columnLineage g exclEnd exclSub).map jn).toArray),
    ("dup", .bool (nodes.eraseDups.length != nodes.length)),
    ("n_nodes", .num ⟨g.nodes.length, 0⟩), ("n_edges", .num ⟨g.edges.length, 0⟩)]

end SqlLineage.IO.Chain
