/- JSON front end of the path-containment model (C17) for the line-protocol driver. -/
import Lean.Data.Json
import SqlLineage.Model.PathSec
import SqlLineage.Gen.Const

namespace SqlLineage.IO.PathSec
open Lean SqlLineage.PathSec

def strOf (l : List Char) : String := String.ofList l

/-- `{"f": id, "sql": bool}` is a file, `{"d": [[name, node], ..]}` a directory -/
partial def nodeOfJson (j : Json) : Except String Node := do
  match j.getObjVal? "d" with
  | .ok (.arr kids) =>
    let ch ← kids.toList.mapM (fun k => do
      match k with
      | .arr #[.str name, sub] => pure (name.toList, ← nodeOfJson sub)
      | _ => throw s!"bad directory entry {k.compress}")
    pure (.dir ch)
  | _ =>
    let id ← j.getObjValAs? Nat "f"
    let sql := (j.getObjValAs? Bool "sql").toOption.getD false
    pure (.file id sql)

def worldOfJson (j : Json) : Except String World := do
  let fs ← nodeOfJson (← j.getObjVal? "fs")
  let s (k : String) : Except String Str := do pure (← j.getObjValAs? String k).toList
  pure {
    fs := fs, cwd := ← s "cwd", rootPath := ← s "root", defaultDir := ← s "defaultDir", pkgDir := ← s "pkgDir",
    -- the harness points the app at a scratch static folder; without an override the regenerated constant is used
    staticName := ((j.getObjValAs? String "static").toOption.getD Gen.Const.staticFolder).toList }

def optStr (j : Json) (k : String) : Except String (Option Str) :=
  match j.getObjVal? k with
  | .ok (.str s) => pure (some s.toList)
  | .ok .null => pure none
  | .ok v => throw s!"payload member {k} must be a string: {v.compress}"
  | .error _ => pure none

def methodOf : String → Method
  | "GET" => .GET
  | "POST" => .POST
  | "OPTIONS" => .OPTIONS
  | _ => .other

/-- `[method, path_info]` or `[method, path_info, {"f":..,"d":..,"e":..}]` -/
def requestOfJson : Json → Except String Request
  | .arr #[.str m, .str p] => pure { method := methodOf m, pathInfo := p.toList }
  | .arr #[.str m, .str p, pl] => do
    pure { method := methodOf m, pathInfo := p.toList,
           payload := { f := ← optStr pl "f", d := ← optStr pl "d", e := ← optStr pl "e" } }
  | j => throw s!"bad request {j.compress}"

def respToJson : Resp → Json
  | .fileContent id => .arr #[.str "file", .num ⟨id, 0⟩]
  | .analysis id => .arr #[.str "analysis", .num ⟨id, 0⟩]
  | .analysisError id => .arr #[.str "analysisError", .num ⟨id, 0⟩]
  | .listing shown es => .arr #[.str "listing", .str (strOf shown),
      .arr (es.map (fun e => Json.arr #[.str (strOf e.1), .bool e.2])).toArray]
  | .fromPayload => .arr #[.str "fromPayload"]
  | .options => .arr #[.str "options"]
  | .forbidden403 => .arr #[.str "403"]
  | .notFound404 => .arr #[.str "404"]
  | .notAllowed405 => .arr #[.str "405"]
  | .crash e => .arr #[.str "crash", .str e]

def absStr (segs : List Seg) : String := strOf (PurePath.str { root := 1, tail := segs })

def chooseCheck (j : Json) : Except String (World → Payload → Bool) :=
  match (j.getObjValAs? String "check").toOption.getD "fixed" with
  | "fixed" => pure allowedFixed
  | "orig" => pure allowedOrig
  | c => throw s!"unknown check {c}"

/-- answer for one request: `[response, status, accessed (pathlib string) | null, resolved | null, inside the
    relevant root | null]` -/
def answer (allowed : World → Payload → Bool) (w : World) (rq : Request) : Json :=
  let r := respondWith allowed w rq
  let acc := accessed w rq
  let rootSegs := match rq.method with
    | .GET => w.resolved w.static
    | _ => w.resolved w.root
  Json.arr #[
    respToJson r,
    .num ⟨r.status, 0⟩,
    match acc with | some a => .str (strOf a.str) | none => .null,
    match acc with | some a => .str (absStr (w.resolved a)) | none => .null,
    match acc with | some a => .bool (rootSegs.isPrefixOf (w.resolved a)) | none => .null]

/-- `{"cmd":"pathbatch","world":{..},"check":"fixed"|"orig","reqs":[req,..]}` → `{"answers":[..]}` -/
def handleBatch (j : Json) : Except String Json := do
  let w ← worldOfJson (← j.getObjVal? "world")
  let allowed ← chooseCheck j
  let reqs ← j.getObjValAs? (Array Json) "reqs"
  let out ← reqs.mapM (fun rj => do pure (answer allowed w (← requestOfJson rj)))
  pure <| Json.mkObj [("answers", .arr out)]

/-- `{"cmd":"path","world":{..},"check":..,"req":req}` → one answer with every intermediate value spelled out -/
def handleOne (j : Json) : Except String Json := do
  let w ← worldOfJson (← j.getObjVal? "world")
  let allowed ← chooseCheck j
  let rq ← requestOfJson (← j.getObjVal? "req")
  let r := respondWith allowed w rq
  let chk := checkedPaths rq.payload
  pure <| Json.mkObj [
    ("answer", answer allowed w rq),
    ("served", .bool (served r)),
    ("fixedBody", match r.fixedBody with | some b => .str b | none => .null),
    ("root_resolved", .str (absStr (w.resolved w.root))),
    ("static_resolved", .str (absStr (w.resolved w.static))),
    ("checked", .arr (chk.map (fun p => Json.arr #[.str (strOf p.str), .str (absStr (w.resolved p)),
        .bool (w.inRoot p), .bool (w.inRootOrig p)])).toArray)]

/-- `{"cmd":"pathlib","cwd":"/x/y","paths":[s,..]}` → per string what pathlib computes: `str(Path(s))`,
    `str(Path(s).parent)`, `str(Path(s).absolute())`, and the lexical resolution of the absolute path -/
def handlePathlib (j : Json) : Except String Json := do
  let cwd ← j.getObjValAs? String "cwd"
  let ps ← j.getObjValAs? (Array String) "paths"
  let w : World := { fs := .dir [], cwd := cwd.toList, rootPath := [], defaultDir := [], pkgDir := [], staticName := [] }
  pure <| Json.mkObj [("answers", .arr (ps.map (fun s =>
    let p := parse s.toList
    Json.arr #[.str (strOf p.str), .str (strOf p.parent.str), .str (strOf (w.absolute p).str),
               .str (absStr (w.resolved p)), .bool (hasSub dotdot s.toList), .str (strOf (stripSlash s.toList))])))]

end SqlLineage.IO.PathSec
