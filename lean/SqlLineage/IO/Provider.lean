/- JSON front end of the provider / runner model for the line-protocol driver (commands `prov*`). -/
import Lean.Data.Json
import SqlLineage.Model.Provider

namespace SqlLineage.IO.Provider
open Lean SqlLineage.Provider

def strList (j : Json) : Except String (List String) := do
  let a ← j.getArr?
  a.toList.mapM (fun x => x.getStr?)

def natOf (j : Json) : Except String Nat := do
  let n ← j.getNum?
  if n.exponent != 0 || n.mantissa < 0 then throw s!"not a natural number: {j.compress}"
  pure n.mantissa.toNat

def natJ (n : Nat) : Json := .num ⟨(n : Int), 0⟩
def colsJ (c : Cols) : Json := .arr (c.map Json.str).toArray

def tableMapOfJson (j : Json) : Except String TableMap := do
  let a ← j.getArr?
  a.toList.mapM (fun x => match x with
    | .arr #[.str k, v] => do pure (k, ← strList v)
    | _ => throw s!"bad map entry {x.compress}")

def tableMapToJson (m : TableMap) : Json :=
  .arr (m.map (fun kv => Json.arr #[.str kv.1, colsJ kv.2])).toArray

def providerOfJson (j : Json) : Except String Provider := do
  let kind ← match (← j.getObjValAs? String "kind") with
    | "dict" => pure Kind.dict
    | "other" => pure Kind.other
    | x => throw s!"bad provider kind {x}"
  let base ← tableMapOfJson (← j.getObjVal? "base")
  let session ← match j.getObjVal? "session" with
    | .ok s => tableMapOfJson s
    | .error _ => pure []
  pure ⟨kind, base, session⟩

def errOfJson : Json → Except String Err
  | .str "invalidSyntax" => pure .invalidSyntax
  | .str "unsupported" => pure .unsupported
  | .str "provider" => pure .provider
  | .arr #[.str "other", .str t] => pure (.other t)
  | j => throw s!"bad error {j.compress}"

def errToJson : Err → Json
  | .invalidSyntax => .str "invalidSyntax"
  | .unsupported => .str "unsupported"
  | .provider => .str "provider"
  | .other t => .arr #[.str "other", .str t]

def optOf (f : Json → Except String α) (j : Json) (key : String) : Except String (Option α) :=
  match j.getObjVal? key with
  | .ok .null => pure none
  | .ok v => do pure (some (← f v))
  | .error _ => pure none

def partOfJson : Json → Except String Part
  | .arr #[.str "lit", c] => do pure (.lit (← strList c))
  | .arr #[.str "ans", i] => do pure (.ans (← natOf i))
  | j => throw s!"bad part {j.compress}"

def writeOfJson : Json → Except String WriteDesc
  | .arr #[.str "table", .str t, .arr parts] => do pure (.table t (← parts.toList.mapM partOfJson))
  | .arr #[.str "nonTable", .str x] => pure (.nonTable x)
  | j => throw s!"bad write {j.compress}"

def stmtOfJson (j : Json) : Except String StmtDesc := do
  let lookups ← match j.getObjVal? "lookups" with
    | .ok v => strList v
    | .error _ => pure []
  pure { lookups := lookups, raises := ← optOf errOfJson j "raises", write := ← optOf writeOfJson j "write" }

def scriptOfJson (j : Json) : Except String ScriptDesc := do
  let st ← j.getObjValAs? (Array Json) "stmts"
  let al ← match j.getObjVal? "assembleLookups" with
    | .ok v => strList v
    | .error _ => pure []
  pure { stmts := ← st.toList.mapM stmtOfJson, assembleLookups := al }

def faultsOfJson (j : Json) : Except String Faults := do
  let at_ ← optOf (fun v => match v with
    | .arr #[k, e] => do pure ((← natOf k), (← errOfJson e))
    | _ => throw s!"bad analyzeAt {v.compress}") j "analyzeAt"
  let lf ← match j.getObjVal? "lookupFails" with
    | .ok v => do (← v.getArr?).toList.mapM natOf
    | .error _ => pure []
  pure { split := ← optOf errOfJson j "split", analyzeAt := at_, lookupFails := lf,
         assemble := ← optOf errOfJson j "assemble" }

def eventToJson : Event → Json
  | .analyze i => .arr #[.str "analyze", natJ i]
  | .lookupSession t c => .arr #[.str "lookupSession", .str t, colsJ c]
  | .lookupBase t c => .arr #[.str "lookupBase", .str t, colsJ c]
  | .lookupRaised t => .arr #[.str "lookupRaised", .str t]
  | .register t c => .arr #[.str "register", .str t, colsJ c]
  | .deregister => .arr #[.str "deregister"]

def seenToJson (s : Seen) : Json :=
  .arr (s.map (fun o => match o with | none => Json.null | some c => colsJ c)).toArray

def resultToJson : Except Err DescResult → Json
  | .ok (per, asm) => .arr #[.str "ok", .arr (per.map seenToJson).toArray, seenToJson asm]
  | .error e => .arr #[.str "error", errToJson e]

def runOfJson (j : Json) : Except String (ScriptDesc × Faults) := do
  let s ← scriptOfJson (← j.getObjVal? "script")
  let f ← match j.getObjVal? "faults" with
    | .ok v => faultsOfJson v
    | .error _ => pure {}
  pure (s, f)

/-- `{"cmd":"provhist","provider":{kind,base,session?},"runs":[{"script":…,"faults":…},…],"probe":[names]}`
    → per run: result, events, the provider's session after the run, its answers to `probe` after the run -/
def handleHist (j : Json) : Except String Json := do
  let p ← providerOfJson (← j.getObjVal? "provider")
  let runsJ ← j.getObjValAs? (Array Json) "runs"
  let runs ← runsJ.toList.mapM runOfJson
  let probe ← match j.getObjVal? "probe" with
    | .ok v => strList v
    | .error _ => pure []
  let rec go (p : Provider) : List (ScriptDesc × Faults) → List Json
    | [] => []
    | (s, f) :: rest =>
      let r := runScript p s.toScript f
      Json.mkObj [
        ("result", resultToJson r.2.result),
        ("events", .arr (r.2.events.map eventToJson).toArray),
        ("session", tableMapToJson r.1.session),
        ("probe", .arr (probe.map (fun t => Json.arr #[.str t, colsJ (r.1.getTableColumns t)])).toArray)] :: go r.1 rest
  pure <| Json.mkObj [("truthy", .bool p.truthy), ("runs", .arr (go p runs).toArray)]

/-- `{"cmd":"provthreads","providers":[provider,…],"threads":[{"pid":i,"script":…,"faults":…},…],"sched":[tid,…]}`
    → per thread: finished?, result; per provider: session after the schedule.  Provider accesses are the steps. -/
def handleThreads (j : Json) : Except String Json := do
  let psJ ← j.getObjValAs? (Array Json) "providers"
  let ps ← psJ.toList.mapM providerOfJson
  let thJ ← j.getObjValAs? (Array Json) "threads"
  let ths ← thJ.toList.mapM (fun t => do
    let pid ← natOf (← t.getObjVal? "pid")
    let (s, f) ← runOfJson t
    pure ({ pid := pid, fails := f.fails, nBase := 0, tree := runTree s.toScript f } : Thread (Except Err DescResult)))
  let sched ← (← j.getObjValAs? (Array Json) "sched").toList.mapM natOf
  if sched.any (· ≥ ths.length) then throw "schedule names an unknown thread"
  if ths.any (·.pid ≥ ps.length) then throw "thread names an unknown provider"
  let w : World := fun i => ps.getD i defaultProvider
  let idle : Thread (Except Err DescResult) := ⟨0, fun _ => false, 0, .ret (.error (.other "no such thread"))⟩
  let r := wrun w (fun i => ths.getD i idle) sched
  pure <| Json.mkObj [
    ("threads", .arr ((List.range ths.length).map (fun i =>
      match (r.2 i).tree.result? with
      | some res => Json.mkObj [("finished", .bool true), ("result", resultToJson res)]
      | none => Json.mkObj [("finished", .bool false)])).toArray),
    ("sessions", .arr ((List.range ps.length).map (fun i => tableMapToJson (r.1 i).session)).toArray)]

/-- thread `i` steps until it has emitted one event or is finished.  Steps without an event (gated-off lookups) change
    nothing but the thread's own remaining program, so folding them into the next visible step is an interleaving of
    `wrun` like any other. -/
def quantum : Nat → World → (Nat → Thread α) → Nat → World × (Nat → Thread α) × List Event
  | 0, w, ths, _ => (w, ths, [])
  | fuel + 1, w, ths, i =>
    let th := ths i
    match th.tree.result? with
    | some _ => (w, ths, [])
    | none =>
      let ev := (th.tree.step th.fails ⟨w th.pid, th.nBase⟩).2.2
      let r := wstep w ths i
      if ev.isEmpty then quantum fuel r.1 r.2 i else (r.1, r.2, ev)

/-- `{"cmd":"provsched","providers":[…],"threads":[{"pid","script","faults"},…],"sched":[tid,…]}` — the schedule is in
    units of visible events (what the harness' access scheduler can control on the real code).
    → per schedule entry: the event performed (or null if the thread had finished) and every provider's session after
      it; per thread: finished?, result -/
def handleSched (j : Json) : Except String Json := do
  let psJ ← j.getObjValAs? (Array Json) "providers"
  let ps ← psJ.toList.mapM providerOfJson
  let thJ ← j.getObjValAs? (Array Json) "threads"
  let ths ← thJ.toList.mapM (fun t => do
    let pid ← natOf (← t.getObjVal? "pid")
    let (s, f) ← runOfJson t
    pure ({ pid := pid, fails := f.fails, nBase := 0, tree := runTree s.toScript f } : Thread (Except Err DescResult)))
  let sched ← (← j.getObjValAs? (Array Json) "sched").toList.mapM natOf
  if sched.any (· ≥ ths.length) then throw "schedule names an unknown thread"
  if ths.any (·.pid ≥ ps.length) then throw "thread names an unknown provider"
  let w0 : World := fun i => ps.getD i defaultProvider
  let idle : Thread (Except Err DescResult) := ⟨0, fun _ => false, 0, .ret (.error (.other "no such thread"))⟩
  let sessions (w : World) : Json := .arr ((List.range ps.length).map (fun i => tableMapToJson (w i).session)).toArray
  let rec go (w : World) (t : Nat → Thread (Except Err DescResult)) : List Nat → List Json → World × (Nat → Thread (Except Err DescResult)) × List Json
    | [], acc => (w, t, acc.reverse)
    | i :: rest, acc =>
      let r := quantum 100000 w t i
      let evJ := match r.2.2 with
        | e :: _ => eventToJson e
        | [] => Json.null
      go r.1 r.2.1 rest (Json.arr #[natJ i, evJ, sessions r.1] :: acc)
  let r := go w0 (fun i => ths.getD i idle) sched []
  pure <| Json.mkObj [
    ("steps", .arr r.2.2.toArray),
    ("threads", .arr ((List.range ths.length).map (fun i =>
      match (r.2.1 i).tree.result? with
      | some res => Json.mkObj [("finished", .bool true), ("result", resultToJson res)]
      | none => Json.mkObj [("finished", .bool false)])).toArray),
    ("sessions", sessions r.1)]

end SqlLineage.IO.Provider
