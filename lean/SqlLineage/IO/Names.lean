/- JSON front end of the identifier / naming model for the line-protocol driver (cmds `ident*`, `names*`). -/
import Lean.Data.Json
import SqlLineage.Model.Ident
import SqlLineage.Model.Names

namespace SqlLineage.IO.Names
open Lean SqlLineage.Ident SqlLineage.Names

/-- `Names.Name` (= `List Char`); spelled out because `Lean.Name` is open here too -/
abbrev N := List Char

def jstr (n : N) : Json := .str (String.ofList n)

def optStr (j : Json) (k : String) : Except String (Option N) :=
  match j.getObjVal? k with
  | .ok (.str s) => pure (some s.toList)
  | .ok .null => pure none
  | .ok _ => throw s!"{k}: string or null expected"
  | .error _ => pure none

def strList (j : Json) (k : String) : Except String (List N) := do
  let a ← j.getObjValAs? (Array Json) k
  a.toList.mapM fun x => match x with
    | .str s => pure s.toList
    | _ => throw s!"{k}: list of strings expected"

def schemaJson (s : Schema) : Json :=
  Json.mkObj [("raw", jstr s.rawName), ("str", jstr s.str), ("known", .bool s.isKnown)]

def tableJson (r : Except NameErr (Table × Bool)) : Json :=
  match r with
  | .error .lineage => Json.mkObj [("err", .str "lineage")]
  | .ok (t, w) => Json.mkObj [("schema", jstr t.schema.str), ("raw", jstr t.rawName), ("alias", jstr t.alias),
      ("str", jstr t.str), ("warned", .bool w)]

def parentJson (p : Parent) : Json :=
  match p with
  | .path x => .arr #[.str "Path", jstr x.str]
  | .table x => .arr #[.str "Table", jstr x.str]
  | .subquery x => .arr #[.str "SubQuery", jstr x.str, jstr x.queryRaw]

def insertSorted (p : Parent) : List Parent → List Parent
  | [] => [p]
  | q :: r => if String.ofList p.str < String.ofList q.str then p :: q :: r else q :: insertSorted p r

/-- `parent_candidates` = parents sorted by printed name -/
def columnJson (c : Column) : Json :=
  Json.mkObj [("raw", jstr c.rawName), ("str", jstr c.str),
    ("src", .arr (c.sourceColumns.map (fun (n, q) => Json.arr #[jstr n, match q with | some q => jstr q | none => .null])).toArray),
    ("parents", .arr ((c.parents.foldr insertSorted []).map parentJson).toArray)]

/-- the import-time `Schema()` of `Table.__init__`'s default argument: built with the configured default that was in
    force when `sqllineage.core.models` was imported (field "import_cfg", default "") -/
def cfgOf (j : Json) : Except String N := do pure ((← optStr j "cfg").getD [])

/-- since the repair of D17 (`Table.__init__` resolves `Schema()` at call time) the default is the configured default in
    force (field "cfg"); a request can still pin the unrepaired behaviour with "import_cfg" -/
def importDefaultOf (j : Json) : Except String Schema := do
  let ic := (← optStr j "import_cfg").getD (← cfgOf j)
  pure (Schema.mk? none ic)

/-- `{"cmd":"ident","s":…}` → `{"escape":…}` -/
def handleIdent (j : Json) : Except String Json := do
  let s ← j.getObjValAs? String "s"
  pure <| Json.mkObj [("escape", .str (escapeS s))]

/-- one string through every constructor:
    `{"cmd":"namesBatch","ss":[…],"cfg":…,"schema_arg":null|str}` → per string
    `{escape, schema, table, column, path}`; `Table(s)` gets the import-time default schema unless `schema_arg` is given
    (then `Table(s, Schema(schema_arg))`). -/
def handleBatch (j : Json) : Except String Json := do
  let ss ← strList j "ss"
  let cfg ← cfgOf j
  let imp ← importDefaultOf j
  let sarg ← optStr j "schema_arg"
  -- "import_cfg" given: the unrepaired `Table.__init__` (default argument evaluated at import); otherwise the repaired one
  let pinned := (← optStr j "import_cfg").isSome
  let schemaArg : Option Schema := match sarg with
    | some a => some (Schema.mk? (some a) cfg)
    | none => if pinned then some imp else none
  pure <| .arr (ss.map fun s =>
    Json.mkObj [
      ("escape", jstr (escape s)),
      ("schema", schemaJson (Schema.mk? (some s) cfg)),
      ("table", tableJson (Table.mkOpt s schemaArg cfg)),
      ("column", columnJson (Column.mk s)),
      ("path", jstr (Path.mk s).str)]).toArray

/-- `{"cmd":"namesOf","parts":[…],"cfg":…,"alias":null|str}` → `SqlFluffTable.of` -/
def handleOf (j : Json) : Except String Json := do
  let parts ← strList j "parts"
  pure (tableJson (Table.ofParts parts (← cfgOf j) (← optStr j "alias")))

def parentOfJson (cfg : N) (imp : Schema) : Json → Except String Parent
  | .arr #[.str "table", .str n] =>
    match Table.mk n.toList imp cfg with
    | .ok (t, _) => pure (.table t)
    | .error _ => throw "parent table does not build"
  | .arr #[.str "tableOf", .arr parts, al] => do
    let ps ← parts.toList.mapM fun x => match x with | .str s => pure s.toList | _ => throw "parts"
    let alias := match al with | .str a => some a.toList | _ => none
    match Table.ofParts ps cfg alias with
    | .ok (t, _) => pure (.table t)
    | .error _ => throw "parent table does not build"
  | .arr #[.str "path", .str u] => pure (.path (Path.mk u.toList))
  | .arr #[.str "subquery", .str raw, .str al] => pure (.subquery (SubQuery.mk (fun _ => 0) raw.toList (some al.toList)))
  | j => throw s!"bad parent {j.compress}"

def srcTupleOfJson : Json → Except String (N × Option N)
  | .arr #[.str n, .str q] => pure (n.toList, some q.toList)
  | .arr #[.str n, .null] => pure (n.toList, none)
  | j => throw s!"bad source tuple {j.compress}"

/-- `{"cmd":"namesSrc","name":…,"source_columns":null|[[n,q|null],…],"alias_map":[[key,parent],…],"cfg":…}` →
    `Column(name, source_columns=…).to_source_columns(alias_map)` as a list of columns (caller sorts) or `{"err":…}`.
    With `"tables":[[parts…],…]` instead of `alias_map` the mapping is `aliasMapOf` of the tables built by `of`. -/
def handleSrc (j : Json) : Except String Json := do
  let name ← j.getObjValAs? String "name"
  let cfg ← cfgOf j
  let imp ← importDefaultOf j
  let srcs ← match j.getObjVal? "source_columns" with
    | .ok (.arr a) => do pure (some (← a.toList.mapM srcTupleOfJson))
    | _ => pure none
  let amap ← match j.getObjVal? "alias_map" with
    | .ok (.arr a) => a.toList.mapM fun x => match x with
        | .arr #[.str k, p] => do pure (k.toList, ← parentOfJson cfg imp p)
        | _ => throw "bad alias_map entry"
    | _ => do
      let ts ← j.getObjValAs? (Array Json) "tables"
      let tabs ← ts.toList.mapM fun x => do
        match ← parentOfJson cfg imp x with
        | .table t => pure t
        | _ => throw "tables: table expected"
      pure (aliasMapOf tabs)
  let col := Column.mk name.toList srcs
  match col.toSourceColumns amap imp cfg with
  | .error .lineage => pure (Json.mkObj [("err", .str "lineage")])
  | .ok cs => pure (Json.mkObj [("target", columnJson col), ("sources", .arr (cs.map columnJson).toArray)])

/-- `{"cmd":"namesSites","s":σ}` → the name the spelling gets at each creation site -/
def handleSites (j : Json) : Except String Json := do
  let s ← j.getObjValAs? String "s"
  let σ := s.toList
  pure <| Json.mkObj [
    ("col_target", jstr (colTargetName σ)),
    ("col_source", jstr (colSourceName σ)),
    ("qualifier_key", match qualifierKey σ with | some q => jstr q | none => .null),
    ("col_scalar_subquery", jstr (colScalarSubqueryName σ))]

/-- an entity described by its constructor call (what the harness builds on the Python side too) -/
inductive Ent
  | schema (s : Schema) | table (t : Table) | path (p : Path) | subquery (q : SubQuery) | column (c : Column)

def entOfJson (cfg : N) (imp : Schema) : Json → Except String (Option Ent)
  | .arr #[.str "Schema", .str s] => pure (some (.schema (Schema.mk? (some s.toList) cfg)))
  | .arr #[.str "Table", .str s] =>
    match Table.mk s.toList imp cfg with
    | .ok (t, _) => pure (some (.table t))
    | .error _ => pure none
  | .arr #[.str "Path", .str s] => pure (some (.path (Path.mk s.toList)))
  | .arr #[.str "SubQuery", .str raw, .str al] => pure (some (.subquery (SubQuery.mk (fun _ => 0) raw.toList (some al.toList))))
  | .arr #[.str "Column", .str s, .arr ps] => do
    let parents ← ps.toList.mapM (parentOfJson cfg imp)
    pure (some (.column (parents.foldl Column.addParent (Column.mk s.toList))))
  | j => throw s!"bad entity {j.compress}"

/-- Python `a == b` between two entities (different classes never compare equal) -/
def Ent.eq : Ent → Ent → Bool
  | .schema a, .schema b => a.eq b
  | .table a, .table b => a.eq b
  | .path a, .path b => a.eq b
  | .subquery a, .subquery b => a.eq b
  | .column a, .column b => a.eq b
  | _, _ => false

def Ent.str : Ent → N
  | .schema a => a.str | .table a => a.str | .path a => a.str | .subquery a => a.str | .column a => a.str

/-- `{"cmd":"namesEq","ents":[e,…]}` → `{"str":[…|null],"eq":[[i,j],…]}`: printed names and every pair i<=j that
    compares equal in the model (entities whose constructor raises are `null` and never equal) -/
def handleEq (j : Json) : Except String Json := do
  let cfg ← cfgOf j
  let imp ← importDefaultOf j
  let es ← (← j.getObjValAs? (Array Json) "ents").toList.mapM (entOfJson cfg imp)
  let idx := (List.range es.length).zip es
  let pairs := idx.flatMap fun (i, a) => idx.filterMap fun (k, b) =>
    if i ≤ k then
      match a, b with
      | some a, some b => if a.eq b then some (Json.arr #[.num ⟨(i : Int), 0⟩, .num ⟨(k : Int), 0⟩]) else none
      | _, _ => none
    else none
  pure <| Json.mkObj [
    ("str", .arr (es.map fun e => match e with | some e => jstr e.str | none => .null).toArray),
    ("eq", .arr pairs.toArray)]

end SqlLineage.IO.Names
