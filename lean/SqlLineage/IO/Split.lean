/- JSON front end of the splitter model for the line-protocol driver (commands prefixed `split`). -/
import Lean.Data.Json
import SqlLineage.Model.Split

namespace SqlLineage.IO.Split
open Lean SqlLineage.Split

def str (cs : List Char) : Json := .str (String.ofList cs)

def tokToJson : Tok → Json
  | .ch c => .arr #[.str "c", .str (String.singleton c)]
  | .semi => .arr #[.str ";"]
  | .quoted q b => .arr #[.str "q", .str (String.singleton q), str b]
  | .line op b nl => .arr #[.str "l", str op.text, str b, .bool nl]
  | .block b => .arr #[.str "b", str b]
  | .junk r => .arr #[.str "junk", str r]

/-- consecutive `ch` tokens are printed as one `["c", text]` chunk -/
def toksToJson (ts : List Tok) : Json :=
  let rec goT (acc : List Char) : List Tok → List Json
    | [] => if acc.isEmpty then [] else [Json.arr #[.str "c", str acc.reverse]]
    | .ch c :: r => goT (c :: acc) r
    | t :: r => (if acc.isEmpty then [] else [Json.arr #[.str "c", str acc.reverse]]) ++ tokToJson t :: goT [] r
  .arr (goT [] ts).toArray

/-- token forms: `["c", text]` (one `ch` per character), `[";"]`, `["q", quote, body]`, `["l", "--"|"# ", body, nl]`,
    `["b", body]`, and `["raw", text]` = the model's own lexing of `text` -/
def toksOfJson1 : Json → Except String (List Tok)
  | .arr #[.str "c", .str t] => pure (t.toList.map Tok.ch)
  | .arr #[.str ";"] => pure [.semi]
  | .arr #[.str "q", .str q, .str b] =>
    match q.toList with
    | [c] => pure [.quoted c b.toList]
    | _ => throw "quote must be one character"
  | .arr #[.str "l", .str op, .str b, .bool nl] =>
    if op = "--" then pure [.line .dash b.toList nl]
    else if op = "# " then pure [.line .hash b.toList nl]
    else throw s!"bad comment opener {op}"
  | .arr #[.str "b", .str b] => pure [.block b.toList]
  | .arr #[.str "raw", .str t] => pure (lex t.toList)
  | j => throw s!"bad token {j.compress}"

def toksOfJson (j : Json) : Except String (List Tok) := do
  match j with
  | .arr a => pure (← a.toList.mapM toksOfJson1).flatten
  | _ => throw "token list expected"

/-- first clause of `level0` that fails ("" if none) -/
def level0Why (ts : List Tok) : String :=
  if !(render ts).all charOk then "char"
  else if !ts.all (fun t => match t with | .junk _ => false | _ => true) then "unterminated"
  else if !adjAll ts then "comment-behind-operator-or-word"
  else if !ts.all notHint then "hint-comment"
  else if !(words ts).all (fun w => !badWord w) then "tracked-keyword"
  else if !parenOk 0 0 ts then "open-parenthesis-at-semicolon"
  else ""

def strs (l : List (List Char)) : Json := .arr (l.map str).toArray

/-- `{"cmd":"splitlex","s":text}` → tokens, wf, level0 -/
def handleLex (j : Json) : Except String Json := do
  let s ← j.getObjValAs? String "s"
  let ts := lex s.toList
  pure <| Json.mkObj [("toks", toksToJson ts), ("wf", .bool (wf ts)), ("level0", .bool (level0 ts)),
    ("why", .str (level0Why ts)), ("roundtrip", .bool (render ts = s.toList)),
    ("semis", .num ⟨((ts.filter isSemi).length : Int), 0⟩),
    ("hasCode", .bool (ts.any isSubst))]

/-- `{"cmd":"split","s":text}` → the model's `helpers.split`, `runnerSplit`, `statements()`, all raw pieces -/
def handleSplit (j : Json) : Except String Json := do
  let s ← j.getObjValAs? String "s"
  let cs := s.toList
  let ts := lex cs
  pure <| Json.mkObj [
    ("split", strs (split cs)),
    ("pieces", strs ((pieces ts).map render)),
    ("runnerSplit", strs (runnerSplit cs)),
    ("statements", strs (statements cs)),
    ("level0", .bool (level0 ts)), ("why", .str (level0Why ts)),
    ("level0stripped", .bool (level0 (lex (strip cs))))]

/-- `{"cmd":"splitscript","lead":toks,"items":[[stmtToks, sepToks],…]}` → the rendered script, whether the hypotheses of
    `Props.C05.split_render` hold for it, the statements' essences (the expected answer), and the model's answer -/
def handleScript (j : Json) : Except String Json := do
  let lead ← toksOfJson (← j.getObjVal? "lead")
  let itemsJ ← j.getObjValAs? (Array Json) "items"
  let items ← itemsJ.toList.mapM (fun it => do
    match it with
    | .arr #[a, b] => pure ((← toksOfJson a), (← toksOfJson b))
    | _ => throw "item = [stmt, sep]")
  let all := scriptToks lead items
  let script := render all
  let hyp := scriptHyp lead items
  pure <| Json.mkObj [
    ("script", str script),
    ("parts", Json.mkObj [("lead", str (render lead)),
      ("items", .arr (items.map (fun p => Json.arr #[str (render p.1), str (render p.2)])).toArray)]),
    ("hyp", .bool hyp), ("wf", .bool (wf all)), ("level0", .bool (level0 all)), ("why", .str (level0Why all)),
    ("relex", .bool (lex script = all)),
    ("expected", strs (items.map (fun p => render (essence p.1)))),
    ("split", strs (split script)),
    ("essences", strs ((splitT (lex script)).map (fun p => render (essence p)))),
    ("runnerSplit", strs (runnerSplit script)),
    ("statements", strs (statements script))]

end SqlLineage.IO.Split
