/- JSON front end for graphs, abstract statements and the assembler. -/
import Lean.Data.Json
import SqlLineage.Model.AStmt

namespace SqlLineage.IO.Graph
open Lean SqlLineage

def dsToJson : DS → Json
  | .table s n => .arr #[.str "t", .str s, .str n]
  | .path u => .arr #[.str "p", .str u]
  | .subq r => .arr #[.str "q", .str r]

def nodeToJson : Node → Json
  | .ds d => dsToJson d
  | .col p par => .arr #[.str "c", .str p, match par with | some d => dsToJson d | none => .null]
  | .str s => .arr #[.str "s", .str s]

def dsOfJson : Json → Except String DS
  | .arr #[.str "t", .str s, .str n] => pure (.table s n)
  | .arr #[.str "p", .str u] => pure (.path u)
  | .arr #[.str "q", .str r] => pure (.subq r)
  | j => throw s!"bad ds {j.compress}"

def nodeOfJson : Json → Except String Node
  | .arr #[.str "c", .str p, .null] => pure (.col p none)
  | .arr #[.str "c", .str p, d] => do pure (.col p (some (← dsOfJson d)))
  | .arr #[.str "s", .str s] => pure (.str s)
  | j => do pure (.ds (← dsOfJson j))

def tagName : Tag → String
  | .read => "read" | .write => "write" | .cte => "cte" | .drop => "drop"
  | .sourceOnly => "source_only" | .targetOnly => "target_only" | .selfloop => "selfloop"

def allTags : List Tag := [.read, .write, .cte, .drop, .sourceOnly, .targetOnly, .selfloop]

def etypeName : EType → String
  | .lineage => "lineage" | .rename => "rename" | .hasColumn => "has_column" | .hasAlias => "has_alias"

def columnToJson (c : Column) : Json :=
  Json.mkObj [("raw", .str c.raw),
    ("parents", .arr (c.parents.map (fun p => Json.arr #[dsToJson p.1, .str p.2])).toArray)]

/-- full dump in the graph's own orders (the harness sorts where the property does not legislate order) -/
def graphToJson (g : LGraph) : Json :=
  Json.mkObj [
    ("nodes", .arr (g.nodes.map (fun n => Json.mkObj [
      ("n", nodeToJson n),
      ("tags", Json.mkObj (allTags.filterMap (fun t => (g.tag n t).map (fun b => (tagName t, Json.bool b))))),
      ("payload", match g.payload n with | some (.col c) => columnToJson c | some (.sub a) => Json.mkObj [("alias", .str a)] | none => .null)])).toArray),
    ("edges", .arr (g.edgesOrdered.map (fun e => Json.mkObj [
      ("u", nodeToJson e.1), ("v", nodeToJson e.2),
      ("type", match g.ety e.1 e.2 with | some t => .str (etypeName t) | none => .null),
      ("index", match g.idx e.1 e.2 with | some k => .num ⟨k, 0⟩ | none => .null)])).toArray)]

def errToString : Err → String
  | .invalidSyntax => "invalidSyntax" | .unsupported => "unsupported" | .lineage => "lineage"
  | .config => "config" | .provider => "provider" | .internal s => "internal:" ++ s

def rolesToJson (g : LGraph) : Json :=
  Json.mkObj [
    ("source", .arr ((Assemble.sourceTables g).map nodeToJson).toArray),
    ("target", .arr ((Assemble.targetTables g).map nodeToJson).toArray),
    ("intermediate", .arr ((Assemble.intermediateTables g).map nodeToJson).toArray),
    ("table_edges", .arr ((Assemble.tableGraph g).edgesOrdered.map (fun e => Json.arr #[nodeToJson e.1, nodeToJson e.2])).toArray)]

open AStmt in
def astmtOfJson : Json → Except String AStmt
  | .arr #[.str "rw", .arr rs, w] => do
    let rs ← rs.toList.mapM (fun j => match j with | .str s => pure s | _ => throw "bad read")
    let w ← match w with | .null => pure none | .str s => pure (some s) | _ => throw "bad write"
    pure (.rw rs w)
  | .arr #[.str "drop", .str t] => pure (.drop t)
  | .arr #[.str "rename", .arr ps] => do
    let ps ← ps.toList.mapM (fun j => match j with
      | .arr #[.str a, .str b] => pure (a, b) | _ => throw "bad pair")
    pure (.rename ps)
  | j => throw s!"bad astmt {j.compress}"

def permutations : List α → List (List α)
  | [] => [[]]
  | x :: xs => (permutations xs).flatMap (fun p => (List.range (p.length + 1)).map (fun i => p.take i ++ [x] ++ p.drop i))

def outcomeToJson (full : Bool) : Except Err LGraph → Json
  | .error e => Json.mkObj [("error", .str (errToString e))]
  | .ok g => if full then Json.mkObj [("graph", graphToJson g), ("roles", rolesToJson g)]
             else Json.mkObj [("roles", rolesToJson g),
               ("nodes", .arr (g.nodes.map (fun n => Json.mkObj [("n", nodeToJson n),
                  ("tags", Json.mkObj (allTags.filterMap (fun t => (g.tag n t).map (fun b => (tagName t, Json.bool b)))))])).toArray)]

/-- `{"cmd":"asm","stmts":[..],"full":bool}` → the outcome for every order in which the rename pairs of a statement
    can be iterated (one outcome when no statement has more than one pair) -/
def handleAsm (j : Json) : Except String Json := do
  let ssJ ← j.getObjValAs? (Array Json) "stmts"
  let ss ← ssJ.toList.mapM astmtOfJson
  let full := (j.getObjValAs? Bool "full").toOption.getD false
  let hs := ss.map AStmt.holderOf
  let maxPairs := (ss.map (fun s => match s with | .rename ps => ps.length | _ => 0)).foldl max 0
  -- order functions: a permutation index applied to every multi‑pair rename (enough for ≤ 1 such statement per history;
  -- with several, all statements use the same index — the harness enumerates indices)
  let nperm := (permutations (List.range maxPairs)).length
  let outs := (List.range (max nperm 1)).map (fun k =>
    let ord : List (Node × Node) → List (Node × Node) := fun l =>
      match (permutations l)[k]? with | some p => p | none => l
    Assemble.buildWith ord Assemble.Prov.none hs)
  pure <| Json.mkObj [("outcomes", .arr (outs.map (outcomeToJson full)).toArray)]

end SqlLineage.IO.Graph
