/- JSON front end of the shape correspondence (C09): statement JSON ↦ rendered SQL, dispatch type, the normalised tree shape
   the typed AST stands for (nested arrays `["type", kid, …]`), the C01 deviation classes and the C09 agreement classes. -/
import Lean.Data.Json
import SqlLineage.Model.Shape
import SqlLineage.Spec.Agreement
import SqlLineage.IO.Sql

namespace SqlLineage.IO.Shape
open Lean SqlLineage

partial def shapeJson : SqlLineage.Shape.Shape → Json
  | .node t ks => Json.arr ((Json.str t :: ks.map shapeJson).toArray)

/-- `{"cmd":"shape","stmts":[stmt…],"upper":bool}` → `{"out":[{"sql","type","shape"|null,"deviations","classes"}…]}` -/
def handleShape (j : Json) : Except String Json := do
  let ssJ ← j.getObjValAs? (Array Json) "stmts"
  let ss ← ssJ.toList.mapM IO.Sql.stmtOf
  let ro : Render.Opts := { upper := (j.getObjValAs? Bool "upper").toOption.getD false }
  let out := ss.map (fun s => Json.mkObj [
    ("sql", .str (Render.stmt ro s)),
    ("type", .str (Walk.stmtType s)),
    ("shape", match Shape.shapeFile s with | some sh => shapeJson sh | none => Json.null),
    ("deviations", IO.Sql.jstrs (Spec.deviations s)),
    ("classes", IO.Sql.jstrs (Spec.Agreement.classes s))])
  let pairs (l : List (String × String)) : Json := .arr (l.map (fun p => Json.arr #[.str p.1, .str p.2])).toArray
  pure <| Json.mkObj [("out", .arr out.toArray), ("stmt_type_aliases", pairs Shape.stmtTypeAliases),
    ("stmt_type_unclaimed", pairs Shape.stmtTypeUnclaimed)]

end SqlLineage.IO.Shape
