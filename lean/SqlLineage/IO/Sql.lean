/- JSON front end for the typed AST, the renderer, the walk and the runner. -/
import Lean.Data.Json
import SqlLineage.Model.Runner
import SqlLineage.IO.Graph
import SqlLineage.Spec.Tables
import SqlLineage.Spec.Columns

namespace SqlLineage.IO.Sql
open Lean SqlLineage Ast

def strs (j : Json) : Except String (List String) := do
  match j with
  | .arr a => a.toList.mapM (fun x => match x with | .str s => pure s | _ => throw "expected string")
  | _ => throw s!"expected list of strings, got {j.compress}"

def optStr : Json → Except String (Option String)
  | .null => pure none
  | .str s => pure (some s)
  | j => throw s!"expected string or null, got {j.compress}"

def bool : Json → Except String Bool
  | .bool b => pure b
  | j => throw s!"expected bool, got {j.compress}"

mutual
partial def exprOf : Json → Except String Expr
  | .arr #[.str "col", qs, .str n] => do pure (.col (← strs qs) n)
  | .arr #[.str "star", qs] => do pure (.star (← strs qs))
  | .arr #[.str "lit", .str t] => pure (.lit t)
  | .arr #[.str "func", .str n, d, .arr args, ov] => do
    let over ← match ov with
      | .null => pure none
      | .arr #[.arr p, .arr o] => do pure (some (Over.mk (← p.toList.mapM exprOf) (← o.toList.mapM exprOf)))
      | j => throw s!"bad over {j.compress}"
    pure (.func n (← bool d) (← args.toList.mapM exprOf) over)
  | .arr #[.str "cast", e, .str ty] => do pure (.cast (← exprOf e) ty)
  | .arr #[.str "case", .arr ws, els] => do
    let ws ← ws.toList.mapM (fun w => match w with
      | .arr #[c, r] => do pure (When.mk (← exprOf c) (← exprOf r))
      | j => throw s!"bad when {j.compress}")
    let els ← match els with | .null => pure none | e => do pure (some (← exprOf e))
    pure (.case ws els)
  | .arr #[.str "bin", .str op, a, b] => do pure (.bin op (← exprOf a) (← exprOf b))
  | .arr #[.str "paren", e] => do pure (.paren (← exprOf e))
  | .arr #[.str "subq", q] => do pure (.subq (← queryOf q))
  | .arr #[.str "in", e, n, q] => do pure (.inSubq (← exprOf e) (← bool n) (← queryOf q))
  | .arr #[.str "exists", n, q] => do pure (.exist (← bool n) (← queryOf q))
  | j => throw s!"bad expr {j.compress}"
partial def optExprOf : Json → Except String (Option Expr)
  | .null => pure none
  | j => do pure (some (← exprOf j))
partial def itemOf : Json → Except String Item
  | .arr #[e, a, k] => do pure (.mk (← exprOf e) (← optStr a) (← bool k))
  | j => throw s!"bad item {j.compress}"
partial def queryOf : Json → Except String Query
  | .arr #[.str "select", d, .arr its, .arr frm, wh, .arr grp, hav] => do
    pure (.select (← bool d) (← its.toList.mapM itemOf) (← frm.toList.mapM fromExprOf) (← optExprOf wh)
      (← grp.toList.mapM exprOf) (← optExprOf hav))
  | .arr #[.str "setop", b, .arr rest] => do
    let rest ← rest.toList.mapM (fun x => match x with
      | .arr #[.str op, br] => do pure (OpBranch.mk op (← branchOf br))
      | j => throw s!"bad opbranch {j.compress}")
    pure (.setop (← branchOf b) rest)
  | .arr #[.str "with", .arr cs, body] => do
    let cs ← cs.toList.mapM (fun x => match x with
      | .arr #[.str n, q] => do pure (Cte.mk n (← queryOf q))
      | j => throw s!"bad cte {j.compress}")
    pure (.withq cs (← queryOf body))
  | j => throw s!"bad query {j.compress}"
partial def branchOf : Json → Except String Branch
  | .arr #[q, b] => do pure (.mk (← queryOf q) (← bool b))
  | j => throw s!"bad branch {j.compress}"
partial def fromElemOf : Json → Except String FromElem
  | .arr #[.str "table", ps, a, k] => do pure (.table (← strs ps) (← optStr a) (← bool k))
  | .arr #[.str "derived", q, a, k] => do pure (.derived (← queryOf q) (← optStr a) (← bool k))
  | j => throw s!"bad from element {j.compress}"
partial def joinOf : Json → Except String Join
  | .arr #[.str kind, e, on, us] => do pure (.mk kind (← fromElemOf e) (← optExprOf on) (← strs us))
  | j => throw s!"bad join {j.compress}"
partial def fromExprOf : Json → Except String FromExpr
  | .arr #[b, .arr js] => do pure (.mk (← fromElemOf b) (← js.toList.mapM joinOf))
  | j => throw s!"bad from expression {j.compress}"
end

def optStrs : Json → Except String (Option (List String))
  | .null => pure none
  | j => do pure (some (← strs j))

def stmtOf : Json → Except String Stmt
  | .arr #[.str "query", q, b] => do pure (.query (← queryOf q) (← bool b))
  | .arr #[.str "insert", .str kind, tk, tgt, cols, q, b] => do
    let k ← match kind with | "into" => pure InsertKind.insertInto | "overwrite" => pure .insertOverwrite | x => throw s!"bad insert kind {x}"
    pure (.insert k (← bool tk) (← strs tgt) (← optStrs cols) (← queryOf q) (← bool b))
  | .arr #[.str "insert_values", tgt, cols, .arr rows] => do
    let rows ← rows.toList.mapM (fun r => match r with | .arr es => es.toList.mapM exprOf | _ => throw "bad row")
    pure (.insertValues (← strs tgt) (← optStrs cols) rows)
  | .arr #[.str "ctas", tgt, orr, ine, q, b] => do pure (.ctas (← strs tgt) (← bool orr) (← bool ine) (← queryOf q) (← bool b))
  | .arr #[.str "create_view", tgt, orr, cols, q] => do pure (.createView (← strs tgt) (← bool orr) (← optStrs cols) (← queryOf q))
  | .arr #[.str "create_table", tgt, ine, .arr cols] => do
    let cols ← cols.toList.mapM (fun c => match c with | .arr #[.str n, .str t] => pure (n, t) | _ => throw "bad column def")
    pure (.createTable (← strs tgt) (← bool ine) cols)
  | .arr #[.str "create_table_like", tgt, src] => do pure (.createTableLike (← strs tgt) (← strs src))
  | .arr #[.str "update", tgt, al, .arr sets, .arr frm, wh] => do
    let sets ← sets.toList.mapM (fun x => match x with
      | .arr #[t, e] => do pure (SetClause.mk (← strs t) (← exprOf e)) | _ => throw "bad set clause")
    pure (.update (← strs tgt) (← optStr al) sets (← frm.toList.mapM fromExprOf) (← optExprOf wh))
  | .arr #[.str "merge", tgt, ta, src, on, .arr ups, .arr ins] => do
    let src ← match src with
      | .arr #[.str "table", ps, a] => do pure (MergeSource.table (← strs ps) (← optStr a))
      | .arr #[.str "derived", q, a] => do pure (MergeSource.derived (← queryOf q) (← optStr a))
      | _ => throw "bad merge source"
    let ups ← ups.toList.mapM (fun u => match u with
      | .arr sets => sets.toList.mapM (fun x => match x with
          | .arr #[t, e] => do pure (SetClause.mk (← strs t) (← exprOf e)) | _ => throw "bad set clause")
      | _ => throw "bad update clause")
    let ins ← ins.toList.mapM (fun i => match i with
      | .arr #[.arr cols, .arr vals] => do pure (MergeInsert.mk (← cols.toList.mapM strs) (← vals.toList.mapM exprOf))
      | _ => throw "bad insert clause")
    pure (.merge (← strs tgt) (← optStr ta) src (← exprOf on) ups ins)
  | .arr #[.str "copy", tgt, .str path] => do pure (.copy (← strs tgt) path)
  | .arr #[.str "drop", v, ie, tgt] => do pure (.drop (← bool v) (← bool ie) (← strs tgt))
  | .arr #[.str "alter_rename", x, y] => do pure (.alterRename (← strs x) (← strs y))
  | .arr #[.str "rename_table", .arr ps] => do
    let ps ← ps.toList.mapM (fun p => match p with | .arr #[a, b] => do pure ((← strs a), (← strs b)) | _ => throw "bad pair")
    pure (.renameTable ps)
  | .arr #[.str "noop", .str k, .str sql] => pure (.noop k sql)
  | .arr #[.str "unsupported", .str sql] => pure (.unsupported sql)
  | j => throw s!"bad statement {j.compress}"

/-! ### results -/

def printedNode (g : LGraph) : Node → String
  | .ds d => Holder.printedDS g d
  | .col p _ => p
  | .str s => s

def isort (l : List String) : List String :=
  l.foldl (fun acc x =>
    let rec ins : List String → List String
      | [] => [x]
      | y :: r => if x < y then x :: y :: r else y :: ins r
    ins acc) []

def jstrs (l : List String) : Json := .arr (l.map Json.str).toArray

/-- `to_cytoscape` (io.py) on the table / column views, as sets (ids, edges, parents) -/
def cytoTable (g : LGraph) : Json :=
  let tg := Assemble.tableGraph g
  Json.mkObj [
    ("nodes", jstrs (tg.nodes.map (printedNode g))),
    ("edges", .arr (tg.edgesOrdered.map (fun e => Json.arr #[.str (printedNode g e.1), .str (printedNode g e.2)])).toArray)]

def cytoColumn (g : LGraph) : Json :=
  let cg := Assemble.columnGraph g
  let parentName : Node → String := fun n =>
    match Holder.colOf g n with
    | some c => (match c.parent? with | some p => p.2 | none => "<unknown>")
    | none => "<unknown>"
  let parentType : Node → String := fun n =>
    match Holder.colOf g n with
    | some c => (match c.parent? with
        | some (.table _ _, _) => "Table" | some (.subq _, _) => "SubQuery" | some (.path _, _) => "Path"
        | none => "Table or SubQuery")
    | none => "Table or SubQuery"
  Json.mkObj [
    ("nodes", .arr (cg.nodes.map (fun n => Json.mkObj [
      ("id", .str (printedNode g n)), ("parent", .str (parentName n)),
      ("parent_candidates", .arr ((Assemble.cands g n).map (fun p => Json.arr #[.str p.2,
         .str (match p.1 with | .table _ _ => "Table" | .subq _ => "SubQuery" | .path _ => "Path")])).toArray)])).toArray),
    -- `parents_dict` is keyed by the parent OBJECT (identity by eq/hash), one entry per distinct owner; its name is the
    -- printed name of the LAST column's owner object with that identity (dict comprehension: later wins)
    ("parents", .arr ((((cg.nodes.map (fun n => Paths.colParent n)).eraseDups).map (fun po =>
        match (cg.nodes.filter (fun n => Paths.colParent n == po)).getLast? with
        | some n => Json.arr #[.str (parentName n), .str (parentType n)]
        | none => Json.arr #[])).toArray)),
    ("edges", .arr (cg.edgesOrdered.map (fun e => Json.arr #[.str (printedNode g e.1), .str (printedNode g e.2)])).toArray)]

def resultJson (g : LGraph) : Json :=
  Json.mkObj [
    ("source", jstrs (isort ((Assemble.sourceTables g).map (printedNode g)))),
    ("target", jstrs (isort ((Assemble.targetTables g).map (printedNode g)))),
    ("intermediate", jstrs (isort ((Assemble.intermediateTables g).map (printedNode g)))),
    ("paths", .arr ((Paths.columnLineage g).map (fun p => jstrs (p.map (printedNode g)))).toArray),
    ("cyto_table", cytoTable g),
    ("cyto_column", cytoColumn g)]

def metaOf (j : Json) : Except String (List (String × List String)) := do
  match (j.getObjVal? "metadata").toOption with
  | none => pure []
  | some .null => pure []
  | some (.obj m) => m.toList.mapM (fun (k, v) => do pure (k, ← strs v))
  | some _ => throw "metadata must be an object"

/-- `import_default` is the schema of the fallback `Table(qualifier)` (model parameter `importDefault`).  Since the repair of D17
    (`Table.__init__` resolves `Schema()` when it is called) it is the call‑time default schema unless the request says
    otherwise (a request can still pin it, to evaluate the unrepaired behaviour). -/
def configOf (j : Json) : Runner.Config :=
  let cfg := (j.getObjValAs? String "default_schema").toOption.getD ""
  { cfgDefault := cfg,
    importDefault := (j.getObjValAs? String "import_default").toOption.getD
      (Walk.defaultSchema { cfgDefault := cfg }),
    silent := (j.getObjValAs? Bool "silent").toOption.getD false,
    ro := { upper := (j.getObjValAs? Bool "upper").toOption.getD false },
    revStar := (j.getObjValAs? Nat "rev_star").toOption.getD 0 }

/-- `{"cmd":"sql","stmts":[stmt…],"metadata":{..},"default_schema":"","silent":false,"upper":false,"holders":false}` →
    rendered statements, per‑statement read/write (and optionally full holder graphs), combined result or error -/
def handleSql (j : Json) : Except String Json := do
  let ssJ ← j.getObjValAs? (Array Json) "stmts"
  let ss ← ssJ.toList.mapM stmtOf
  let c := configOf j
  let md ← metaOf j
  let wantHolders := (j.getObjValAs? Bool "holders").toOption.getD false
  let rendered := ss.map (Render.stmt c.ro)
  let out := match Runner.eval c md ss with
    | .error e => Json.mkObj [("error", .str (IO.Graph.errToString e))]
    | .ok (g, hs) =>
      Json.mkObj ([("result", resultJson g),
        ("stmts", .arr (hs.map (fun h => Json.mkObj [
          ("read", jstrs (isort ((Assemble.stmtRead h).map (printedNode h)))),
          ("write", jstrs (isort ((Assemble.stmtWrite h).map (printedNode h)))),
          ("drop", jstrs (isort ((Assemble.stmtDrop h).map (printedNode h)))),
          ("rename", .arr ((Assemble.stmtRename h).map (fun e => jstrs [printedNode h e.1, printedNode h e.2])).toArray)])).toArray)] ++
        (if wantHolders then [("holders", Json.arr (hs.map IO.Graph.graphToJson).toArray), ("graph", IO.Graph.graphToJson g)] else []))
  let env : Walk.Env := ⟨c.cfgDefault, c.importDefault, Holder.ProvView.none, c.ro, 0⟩
  let spec := ss.map (fun s => Json.mkObj [
    ("reads", jstrs (isort (Spec.reads env s))), ("writes", jstrs (isort (Spec.writes env s))),
    ("deviations", jstrs (Spec.deviations s)),
    ("colflow", match Spec.colflow env s with
      | some ps => .arr (ps.map (fun p => Json.arr #[.str p.1, .str p.2])).toArray
      | none => .null)])
  pure <| Json.mkObj [("sql", jstrs rendered), ("types", jstrs (ss.map Walk.stmtType)), ("out", out), ("spec", .arr spec.toArray)]

/-- `{"cmd":"render","stmts":[..],"upper":bool}` -/
def handleRender (j : Json) : Except String Json := do
  let ssJ ← j.getObjValAs? (Array Json) "stmts"
  let ss ← ssJ.toList.mapM stmtOf
  let c := configOf j
  pure <| Json.mkObj [("sql", jstrs (ss.map (Render.stmt c.ro)))]

/-- `{"cmd":"dispatch"}` → the generated dispatch tables as the model sees them -/
def handleDispatch (_ : Json) : Except String Json :=
  pure <| Json.mkObj [
    ("noop", jstrs Gen.Dispatch.supportedNoopExtractor),
    ("supported", .arr (Gen.Dispatch.supported.map (fun e => Json.arr #[.str e.1, jstrs e.2])).toArray)]

end SqlLineage.IO.Sql
