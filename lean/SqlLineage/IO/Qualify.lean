/- JSON front end for C13 / C14: explicit qualification (`Model/Qualify.lean`) and the runner with the repaired
   create/insert extractor (`Model/InsertCols.lean`). -/
import Lean.Data.Json
import SqlLineage.IO.Sql
import SqlLineage.Model.Qualify
import SqlLineage.Model.InsertCols

namespace SqlLineage.IO.Qualify
open Lean SqlLineage Ast
open SqlLineage.IO.Sql

/-- the `out` object of the `sql` command, for either runner -/
def outJson (fixed : Bool) (c : Runner.Config) (md : List (String × List String)) (ss : List Stmt) : Json :=
  match (if fixed then InsertCols.evalFixed c md ss else Runner.eval c md ss) with
  | .error e => Json.mkObj [("error", .str (IO.Graph.errToString e))]
  | .ok (g, hs) =>
    Json.mkObj [("result", resultJson g),
      ("stmts", .arr (hs.map (fun h => Json.mkObj [
        ("read", jstrs (isort ((Assemble.stmtRead h).map (printedNode h)))),
        ("write", jstrs (isort ((Assemble.stmtWrite h).map (printedNode h)))),
        ("drop", jstrs (isort ((Assemble.stmtDrop h).map (printedNode h)))),
        ("rename", .arr ((Assemble.stmtRename h).map (fun e => jstrs [printedNode h e.1, printedNode h e.2])).toArray)])).toArray)]

def specJson (c : Runner.Config) (ss : List Stmt) : Json :=
  let env : Walk.Env := ⟨c.cfgDefault, c.importDefault, Holder.ProvView.none, c.ro, 0⟩
  .arr (ss.map (fun s => Json.mkObj [
    ("reads", jstrs (isort (Spec.reads env s))), ("writes", jstrs (isort (Spec.writes env s))),
    ("deviations", jstrs (Spec.deviations s))])).toArray

/-- `{"cmd":"sqlfx", …}` — the `sql` command with the repaired create/insert extractor (fix D8) -/
def handleSqlFixed (j : Json) : Except String Json := do
  let ssJ ← j.getObjValAs? (Array Json) "stmts"
  let ss ← ssJ.toList.mapM stmtOf
  let c := configOf j
  let md ← metaOf j
  pure <| Json.mkObj [("sql", jstrs (ss.map (Render.stmt c.ro))), ("types", jstrs (ss.map Walk.stmtType)),
    ("out", outJson true c md ss), ("spec", specJson c ss)]

/-- `{"cmd":"qualify","stmts":[…],"schema":S,"fixed":bool, + the options of "sql"}` →
    `sql`: the statements as written, `qsql`: every bare base‑table name written `S.name` (`Qualify.qualifyStmt`),
    `out`: model result of the statements under `default_schema` (as given in the request),
    `qout`: model result of the QUALIFIED statements under no default (`import_default` as in the request),
    `spec` / `qspec`: the table specification on both sides -/
def handleQualify (j : Json) : Except String Json := do
  let ssJ ← j.getObjValAs? (Array Json) "stmts"
  let ss ← ssJ.toList.mapM stmtOf
  let S ← j.getObjValAs? String "schema"
  let c := configOf j
  let md ← metaOf j
  let fixed := (j.getObjValAs? Bool "fixed").toOption.getD true
  let qs := ss.map (Qualify.qualifyStmt S)
  let c0 : Runner.Config := { c with cfgDefault := "" }
  pure <| Json.mkObj [
    ("sql", jstrs (ss.map (Render.stmt c.ro))), ("qsql", jstrs (qs.map (Render.stmt c.ro))),
    ("out", outJson fixed c md ss), ("qout", outJson fixed c0 md qs),
    ("spec", specJson c ss), ("qspec", specJson c0 qs)]

end SqlLineage.IO.Qualify
