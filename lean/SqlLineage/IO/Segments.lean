/- JSON front end for the segment model, the identifier normalisation and the `;`-piece filter (C07 direct correspondences). -/
import Lean.Data.Json
import SqlLineage.Model.Segments
import SqlLineage.Model.Ident

namespace SqlLineage.IO.Segments
open Lean SqlLineage.Segments

/-- `{"t": type, "r": raw, "w": bool, "c": bool, "m": bool, "k": [children]}` -/
partial def segOf (j : Json) : Except String Seg := do
  let t ← j.getObjValAs? String "t"
  let r ← j.getObjValAs? String "r"
  let w ← j.getObjValAs? Bool "w"
  let c ← j.getObjValAs? Bool "c"
  let m ← j.getObjValAs? Bool "m"
  let ks ← j.getObjValAs? (Array Json) "k"
  let kids ← ks.toList.mapM segOf
  pure (.mk t r w c m kids)

/-- concatenated raw text of a segment (leaves carry it) -/
partial def fullRaw (s : Seg) : String :=
  if s.children.isEmpty then s.raw else String.join (s.children.map fullRaw)

/-- `{"cmd":"seglist","seg":<segment>,"check_bracketed":bool}` → `[[type, raw], …]` of `list_child_segments` -/
def handleSegList (j : Json) : Except String Json := do
  let s ← segOf (← j.getObjVal? "seg")
  let cb := (j.getObjValAs? Bool "check_bracketed").toOption.getD true
  let out := listChildSegments s cb
  let parts := tableParts s
  let partsRaw := tablePartsRaw s
  pure <| Json.mkObj [
    ("out", .arr (out.map (fun x => Json.arr #[.str x.type, .str (fullRaw x)])).toArray),
    ("negligible", .arr (s.children.map (fun x => Json.bool (isNegligible x))).toArray),
    ("table_parts", Json.arr #[.arr (parts.1.map Json.str).toArray, .str parts.2]),
    ("table_parts_raw", Json.arr #[.arr (partsRaw.1.map Json.str).toArray, .str partsRaw.2])]

/-- `{"cmd":"identbatch","names":[…]}` → `escape_identifier_name` of each -/
def handleIdentBatch (j : Json) : Except String Json := do
  let ns ← j.getObjValAs? (Array String) "names"
  pure <| Json.mkObj [("out", .arr (ns.map (fun n => Json.str (SqlLineage.Ident.escapeS n))))]

def tokOf : Json → Except String Tok
  | .arr #[.str "code", .str t] => pure (.code t)
  | .arr #[.str "semi", _] => pure .semi
  | .arr #[.str "blank", .str t] => pure (.blank t)
  | .arr #[.str "newline", _] => pure .newline
  | .arr #[.str "line_comment", .str t] => pure (.lineComment t)
  | .arr #[.str "block_comment", .str t] => pure (.blockComment t)
  | j => throw s!"bad token {j.compress}"

/-- `{"cmd":"splitkeep","tokens":[[kind, text], …]}` → texts of the statements `helpers.split` returns -/
def handleSplitKeep (j : Json) : Except String Json := do
  let ts ← j.getObjValAs? (Array Json) "tokens"
  let toks ← ts.toList.mapM tokOf
  pure <| Json.mkObj [("out", .arr ((splitModel toks).map (fun p => Json.str (pieceText p))).toArray)]

end SqlLineage.IO.Segments
