/- JSON front end of the config model for the line-protocol driver. -/
import Lean.Data.Json
import SqlLineage.Model.Config
import SqlLineage.Gen.Config

namespace SqlLineage.IO.Config
open Lean SqlLineage.Config

def valOfJson : Json → Except String Val
  | .arr #[.str "s", .str x] => pure (.s x)
  | .arr #[.str "b", .bool x] => pure (.b x)
  | .arr #[.str "i", .num n] => if n.exponent == 0 then pure (.i n.mantissa) else throw "non-integer"
  | j => throw s!"bad value {j.compress}"

def valToJson : Val → Json
  | .s x => .arr #[.str "s", .str x]
  | .b x => .arr #[.str "b", .bool x]
  | .i n => .arr #[.str "i", .num ⟨n, 0⟩]

def outToJson : Out → Json
  | .unit => .arr #[.str "unit"]
  | .val v => .arr #[.str "val", valToJson v]
  | .cfgErr w => .arr #[.str "cfgErr", .str w]
  | .attrErr => .arr #[.str "attrErr"]

def kvOfJson : Json → Except String (String × Val)
  | .arr #[.str k, v] => do pure (k, ← valOfJson v)
  | j => throw s!"bad kv {j.compress}"

def opOfJson : Json → Except String Op
  | .arr #[.str "call", .arr kvs] => do pure (.call (← kvs.toList.mapM kvOfJson))
  | .arr #[.str "enter"] => pure .enter
  | .arr #[.str "exit"] => pure .exit
  | .arr #[.str "read", .str k] => pure (.read k)
  | .arr #[.str "assign", .str k] => pure (.assign k)
  | j => throw s!"bad op {j.compress}"

def mopOfJson : Json → Except String MOp
  | .arr #[.str "ensure"] => pure .ensure
  | .arr #[.str "store", .str k, v] => do pure (.store k (← valOfJson v))
  | .arr #[.str "ctxAdd"] => pure .ctxAdd
  | .arr #[.str "popCfg"] => pure .popCfg
  | .arr #[.str "ctxRemove"] => pure .ctxRemove
  | .arr #[.str "nop"] => pure .nop
  | j => throw s!"bad mop {j.compress}"

def mopToJson : MOp → Json
  | .ensure => .arr #[.str "ensure"]
  | .store k v => .arr #[.str "store", .str k, valToJson v]
  | .ctxAdd => .arr #[.str "ctxAdd"]
  | .popCfg => .arr #[.str "popCfg"]
  | .ctxRemove => .arr #[.str "ctxRemove"]
  | .nop => .arr #[.str "nop"]

def tidOp (f : Json → Except String α) : Json → Except String (Nat × α)
  | .arr #[.num n, j] => do
    if n.exponent != 0 || n.mantissa < 0 then throw "bad tid"
    pure (n.mantissa.toNat, ← f j)
  | j => throw s!"bad step {j.compress}"

def insertSorted (p : String × Val) : List (String × Val) → List (String × Val)
  | [] => [p]
  | q :: r => if p.1 < q.1 then p :: q :: r else q :: insertSorted p r

def localToJson (l : Local) : Json :=
  Json.mkObj [
    ("cfg", match l.cfg with
      | none => .null
      | some o => .arr ((o.foldr insertSorted []).map (fun kv => Json.arr #[.str kv.1, valToJson kv.2])).toArray),
    ("ctx", .bool l.ctx)]

def envOfJson (j : Json) : Except String Env := do
  let envObj := (j.getObjVal? "env").toOption.getD (Json.mkObj [])
  let pairs : List (String × String) ← match envObj with
    | .obj m => m.toList.mapM (fun (k, v) => do
        match v with
        | .str x => pure (k, x)
        | _ => throw "env value must be a string")
    | _ => throw "env must be an object"
  pure (Gen.Config.env (fun k => (pairs.find? (·.1 = k)).map (·.2)))

def tidsOf (tr : List (Nat × α)) : List Nat := (tr.map (·.1)).eraseDups

/-- `{"cmd":"cfg","env":{..},"trace":[[tid,op],..]}` → outputs per step + final local state per thread -/
def handleCfg (j : Json) : Except String Json := do
  let e ← envOfJson j
  let trJ ← j.getObjValAs? (Array Json) "trace"
  let tr ← trJ.toList.mapM (tidOp opOfJson)
  let (s, outs) := run e State.init tr
  pure <| Json.mkObj [
    ("outs", .arr (outs.map (fun ((t : Nat), o) => Json.arr #[.num ⟨(t : Int), 0⟩, outToJson o])).toArray),
    ("final", .arr ((tidsOf tr).map (fun (t : Nat) => Json.arr #[.num ⟨(t : Int), 0⟩, localToJson (s.loc t)])).toArray)]

/-- `{"cmd":"cfgmicro","env":{..},"trace":[[tid,mop],..]}` → final local state per thread -/
def handleMicro (j : Json) : Except String Json := do
  let e ← envOfJson j
  let trJ ← j.getObjValAs? (Array Json) "trace"
  let tr ← trJ.toList.mapM (tidOp mopOfJson)
  let s := mrun e State.init tr
  pure <| Json.mkObj [
    ("final", .arr ((tidsOf tr).map (fun (t : Nat) => Json.arr #[.num ⟨(t : Int), 0⟩, localToJson (s.loc t)])).toArray)]

/-- `{"cmd":"cfgexpand","env":{..},"ops":[op,..]}` → micro program of a thread program run from a clean state,
    as a list of lists (one per operation) -/
def handleExpand (j : Json) : Except String Json := do
  let e ← envOfJson j
  let opsJ ← j.getObjValAs? (Array Json) "ops"
  let ops ← opsJ.toList.mapM opOfJson
  let rec go (l : Local) : List Op → List (List MOp)
    | [] => []
    | op :: r => expand e l op :: go (lstep e l op).1 r
  -- a `store` is printed with the value it writes (after coercion), which is what a tap on the dict observes
  let shown (m : MOp) : MOp := match m with
    | .store k v => (match e.ty? k with | some t => .store k (parseValue e.truthy v t) | none => m)
    | m => m
  pure <| Json.mkObj [("micro", .arr ((go Local.init ops).map (fun ms => Json.arr (ms.map (mopToJson ∘ shown)).toArray)).toArray)]

/-- `{"cmd":"cfgparse","value":v,"type":"bool"|"str"}` -/
def handleParse (j : Json) : Except String Json := do
  let v ← valOfJson (← j.getObjVal? "value")
  let t ← match (← j.getObjValAs? String "type") with
    | "bool" => pure Ty.bool | "str" => pure Ty.str | x => throw s!"bad type {x}"
  pure <| Json.mkObj [("value", valToJson (parseValue Gen.Config.truthy v t))]

/-- the key table as the model sees it (so the harness never hard-codes it) -/
def handleTable (_ : Json) : Except String Json :=
  pure <| Json.mkObj [
    ("table", .arr (Gen.Config.table.map (fun (k, t, d) =>
      Json.arr #[.str k, .str (match t with | .str => "str" | .bool => "bool"), valToJson d])).toArray),
    ("truthy", .arr (Gen.Config.truthy.map Json.str).toArray)]

end SqlLineage.IO.Config
