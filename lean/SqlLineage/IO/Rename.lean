/- JSON front end of `Model/Rename.lean` (property C08): driver commands `rename` and `renamenames`, and the AST → JSON
   encoder (inverse of the decoders of `IO/Sql.lean`). -/
import Lean.Data.Json
import SqlLineage.IO.Sql
import SqlLineage.Model.Rename

namespace SqlLineage.IO.Rename
open Lean SqlLineage Ast SqlLineage.IO.Sql

def jstrsL (l : List String) : Json := .arr (l.map Json.str).toArray
def jopt : Option String → Json
  | none => .null
  | some s => .str s
def jarr (l : List Json) : Json := .arr l.toArray

mutual
partial def exprJ : Expr → Json
  | .col qs n => jarr [.str "col", jstrsL qs, .str n]
  | .star qs => jarr [.str "star", jstrsL qs]
  | .lit t => jarr [.str "lit", .str t]
  | .func n d args over =>
    jarr [.str "func", .str n, .bool d, jarr (args.map exprJ),
      match over with | none => .null | some (.mk p o) => jarr [jarr (p.map exprJ), jarr (o.map exprJ)]]
  | .cast e ty => jarr [.str "cast", exprJ e, .str ty]
  | .case ws els =>
    jarr [.str "case", jarr (ws.map (fun w => match w with | .mk c r => jarr [exprJ c, exprJ r])),
      match els with | none => .null | some e => exprJ e]
  | .bin op a b => jarr [.str "bin", .str op, exprJ a, exprJ b]
  | .paren e => jarr [.str "paren", exprJ e]
  | .subq q => jarr [.str "subq", queryJ q]
  | .inSubq e n q => jarr [.str "in", exprJ e, .bool n, queryJ q]
  | .exist n q => jarr [.str "exists", .bool n, queryJ q]
partial def optExprJ : Option Expr → Json
  | none => .null
  | some e => exprJ e
partial def itemJ : Item → Json
  | .mk e a k => jarr [exprJ e, jopt a, .bool k]
partial def queryJ : Query → Json
  | .select d its frm wh grp hav =>
    jarr [.str "select", .bool d, jarr (its.map itemJ), jarr (frm.map fromExprJ), optExprJ wh, jarr (grp.map exprJ), optExprJ hav]
  | .setop b rest =>
    jarr [.str "setop", branchJ b, jarr (rest.map (fun x => match x with | .mk op br => jarr [.str op, branchJ br]))]
  | .withq cs body =>
    jarr [.str "with", jarr (cs.map (fun x => match x with | .mk n q => jarr [.str n, queryJ q])), queryJ body]
partial def branchJ : Branch → Json
  | .mk q b => jarr [queryJ q, .bool b]
partial def fromElemJ : FromElem → Json
  | .table ps a k => jarr [.str "table", jstrsL ps, jopt a, .bool k]
  | .derived q a k => jarr [.str "derived", queryJ q, jopt a, .bool k]
partial def joinJ : Join → Json
  | .mk kind e on us => jarr [.str kind, fromElemJ e, optExprJ on, jstrsL us]
partial def fromExprJ : FromExpr → Json
  | .mk b js => jarr [fromElemJ b, jarr (js.map joinJ)]
end

def optStrsJ : Option (List String) → Json
  | none => .null
  | some l => jstrsL l

/-- inverse of `IO.Sql.stmtOf` for the statement kinds the generators produce; others are not re‑encoded -/
def stmtJ : Stmt → Except String Json
  | .query q b => pure (jarr [.str "query", queryJ q, .bool b])
  | .insert k tk tgt cols q b =>
    pure (jarr [.str "insert", .str (match k with | .insertInto => "into" | .insertOverwrite => "overwrite"), .bool tk, jstrsL tgt,
      optStrsJ cols, queryJ q, .bool b])
  | .insertValues tgt cols rows => pure (jarr [.str "insert_values", jstrsL tgt, optStrsJ cols, jarr (rows.map (fun r => jarr (r.map exprJ)))])
  | .ctas tgt o i q b => pure (jarr [.str "ctas", jstrsL tgt, .bool o, .bool i, queryJ q, .bool b])
  | .createView tgt o cols q => pure (jarr [.str "create_view", jstrsL tgt, .bool o, optStrsJ cols, queryJ q])
  | .createTable tgt i cols => pure (jarr [.str "create_table", jstrsL tgt, .bool i, jarr (cols.map (fun c => jarr [.str c.1, .str c.2]))])
  | .createTableLike tgt src => pure (jarr [.str "create_table_like", jstrsL tgt, jstrsL src])
  | .drop v ie tgt => pure (jarr [.str "drop", .bool v, .bool ie, jstrsL tgt])
  | .alterRename x y => pure (jarr [.str "alter_rename", jstrsL x, jstrsL y])
  | .renameTable ps => pure (jarr [.str "rename_table", jarr (ps.map (fun p => jarr [jstrsL p.1, jstrsL p.2]))])
  | .noop k sql => pure (jarr [.str "noop", .str k, .str sql])
  | .unsupported sql => pure (jarr [.str "unsupported", .str sql])
  | _ => throw "statement kind has no JSON form"

def substOf (j : Json) : Except String Rename.Subst := do
  match j with
  | .arr a => a.toList.mapM (fun x => match x with
      | .arr #[.str k, .str v] => pure (Rename.norm k, v)
      | y => throw s!"bad substitution entry {y.compress}")
  | .null => pure []
  | _ => throw "subst must be a list of [old, new]"

def dedup (l : List String) : List String := l.eraseDups

/-- `{"cmd":"rename","stmt":<stmt JSON>,"op":"rename"|"add"|"drop"|"toggle","subst":[[old,new]…],"names":[alias…],"upper":bool}`
    → `{"stmt":<renamed stmt JSON>,"sql":rendered renamed,"orig_sql":rendered original,"ok":verdict of the operation's side
    condition (rename: FreshInj; add: addOk; drop: dropOk; toggle: true),"loose":freshInjLoose,"d7":d7Class,"d7_shape":d7Shape of either statement,"changed":bool}`.
    Old names are normalised here, so the caller may pass spellings. -/
def handleRename (j : Json) : Except String Json := do
  let sJ ← j.getObjVal? "stmt"
  let s ← stmtOf sJ
  let op := (j.getObjValAs? String "op").toOption.getD "rename"
  let ρ ← substOf ((j.getObjVal? "subst").toOption.getD .null)
  let ns ← match (j.getObjVal? "names").toOption with | some x => strs x | none => pure []
  let d := ns.map Rename.norm
  let ro : Render.Opts := { upper := (j.getObjValAs? Bool "upper").toOption.getD false }
  let (s', ok, loose, d7) ← match op with
    | "rename" => pure (Rename.renameStmt ρ s, Rename.freshInj ρ s, Rename.freshInjLoose ρ s, Rename.d7Class ρ s)
    | "add" => pure (Rename.addAlias ρ s, Rename.addOk ρ s, Rename.addOk ρ s, false)
    | "drop" => pure (Rename.dropAlias d s, Rename.dropOk d s, Rename.dropOk d s, false)
    | "toggle" => pure (Rename.toggleAs s, true, true, false)
    | x => throw s!"unknown op {x}"
  let sJ' ← stmtJ s'
  let orig := Render.stmt ro s
  let sql := Render.stmt ro s'
  pure <| Json.mkObj [("stmt", sJ'), ("sql", .str sql), ("orig_sql", .str orig), ("ok", .bool ok), ("loose", .bool loose),
    ("d7", .bool d7), ("d7_shape", .bool (Rename.d7Shape s || Rename.d7Shape s')), ("changed", .bool (sql != orig))]

/-- `{"cmd":"renamenames","stmt":<stmt JSON>}` → the names of the statement by kind (normalised, duplicate‑free) -/
def handleNames (j : Json) : Except String Json := do
  let s ← stmtOf (← j.getObjVal? "stmt")
  let n := Rename.names s
  let aliasedTables := n.filterMap (fun x => match x.1 with | .aliased a => some a | _ => none)
  pure <| Json.mkObj [
    ("ctes", jstrsL (dedup (Rename.ofKind .cte n))), ("aliases", jstrsL (dedup (Rename.ofKind .alias n))),
    ("table_aliases", jstrsL (dedup aliasedTables)),
    ("base", jstrsL (dedup (Rename.ofKind .bare n))), ("quals", jstrsL (dedup (Rename.ofKind .qual n))),
    ("unaliased", jstrsL (dedup (Rename.ofKind .unaliased n))), ("singles", jstrsL (dedup (Rename.ofKind .single n)))]

/-- `{"cmd":"renamerender","stmt":…,"upper":bool}` → `{"stmt": re‑encoded, "sql": rendered}` (round trip of the encoder) -/
def handleRoundTrip (j : Json) : Except String Json := do
  let s ← stmtOf (← j.getObjVal? "stmt")
  let ro : Render.Opts := { upper := (j.getObjValAs? Bool "upper").toOption.getD false }
  pure <| Json.mkObj [("stmt", ← stmtJ s), ("sql", .str (Render.stmt ro s))]

end SqlLineage.IO.Rename
