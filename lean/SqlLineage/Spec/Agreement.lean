/-
C09 — syntactic classes of core statements on which ONE analyzer is known to disagree with the others
(known_findings.json, property C09).  Each class is a decidable predicate on the typed AST; the harness asks the driver
for `classes s` and accepts a disagreement of analyzer A only on a statement that lies in a class listed for A.  A
disagreement on a statement outside every class listed for that analyzer is a violation.

The predicates are deliberately SYNTACTIC OVER‑APPROXIMATIONS of the defects (they may contain statements on which the
analyzers happen to agree; they never need the analyzers' output).  The legacy analyzer is a token walker over sqlparse's
grouping, so its blind spots are described by where a construct sits in the text, not by a model of sqlparse.

sqlfluff dialects (class ↦ dialect in `harness/c09.py: CLASS_ANALYZERS`):
  K1  an `IN (subquery)` occurs anywhere                 clickhouse parses it as `tuple(bracketed(expression(select)))`
  (K2 — CREATE VIEW under exasol, target `view_reference` — and K3 — CREATE TABLE … AS under impala,
   `create_table_as_select_statement` — were repaired in the code and are no classes any more)
  K4  a select item `… CASE … END alias` without AS       oracle reads the alias as part of the CASE expression

legacy (`dialect="non-validating"`) analyzer:
  L1  a FROM list with ≥ 2 comma‑separated entries one of which has a JOIN (the table after the comma is lost)
  L2  a WHERE condition has a subquery anywhere but as an operand of IN / EXISTS / a comparison at the top AND/OR level
      (inside parentheses, arithmetic, a function or CASE; `where (select …)` alone — there it is the sqlfluff side that
      loses the subquery)
  L3  a select item contains a subquery at a position other than: the whole item, a direct argument of a (nested)
      function call without OVER, a direct operand of a CASE WHEN comparison / IN / EXISTS or a THEN result — or the
      subquery's body contains a derived table
  L4  CREATE TABLE IF NOT EXISTS … AS (the target is lost)
  L5  a window function with ≥ 2 arguments (AttributeError in `utils.get_parameters` with sqlparse 0.6)
  L6  INSERT INTO t (query) with the query in parentheses
  L8  a set operation whose FIRST branch is parenthesised, anywhere but as the whole statement
plus every C01 class `Spec.deviations` reports (there the sqlfluff analyzer itself deviates from the specification and the
legacy analyzer need not deviate the same way: D2, D2w, D3, D4, D5, D7).
-/
import SqlLineage.Spec.Tables

namespace SqlLineage.Spec.Agreement
open SqlLineage Ast Spec

mutual
/-- a derived table occurs somewhere inside (at any depth, nested queries included) -/
def drvE : Expr → Bool
  | .col _ _ | .star _ | .lit _ => false
  | .func _ _ args over => drvEs args || (match over with | some (.mk p o) => drvEs p || drvEs o | none => false)
  | .cast e _ => drvE e
  | .case ws els => drvW ws || (match els with | some e => drvE e | none => false)
  | .bin _ a b => drvE a || drvE b
  | .paren e => drvE e
  | .subq q => drvQ q
  | .inSubq e _ q => drvE e || drvQ q
  | .exist _ q => drvQ q
def drvEs : List Expr → Bool
  | [] => false
  | e :: r => drvE e || drvEs r
def drvW : List When → Bool
  | [] => false
  | .mk c r :: rest => drvE c || drvE r || drvW rest
def drvI : List Item → Bool
  | [] => false
  | .mk e _ _ :: r => drvE e || drvI r
def drvQ : Query → Bool
  | .select _ its frm wh grp hav =>
    drvI its || drvF frm || (match wh with | some e => drvE e | none => false) || drvEs grp ||
      (match hav with | some e => drvE e | none => false)
  | .setop (.mk q _) rest => drvQ q || drvOB rest
  | .withq cs body => drvC cs || drvQ body
def drvOB : List OpBranch → Bool
  | [] => false
  | .mk _ (.mk q _) :: r => drvQ q || drvOB r
def drvC : List Cte → Bool
  | [] => false
  | .mk _ q :: r => drvQ q || drvC r
def drvEl : FromElem → Bool
  | .table _ _ _ => false
  | .derived _ _ _ => true
def drvJ : List Join → Bool
  | [] => false
  | .mk _ e on _ :: r => drvEl e || (match on with | some c => drvE c | none => false) || drvJ r
def drvF : List FromExpr → Bool
  | [] => false
  | .mk b js :: r => drvEl b || drvJ js || drvF r
end

def isCmp (op : String) : Bool := ["=", ">", "<", ">=", "<=", "<>", "!="].contains op

/-- subquery‑free, or exactly one scalar subquery over plain tables -/
def easyOperand : Expr → Bool
  | .subq q => !drvQ q
  | e => nSub e == 0

def easyCond : Expr → Bool
  | .inSubq x _ q => nSub x == 0 && !drvQ q
  | .exist _ q => !drvQ q
  | .bin op a b => if isCmp op then easyOperand a && easyOperand b else nSub (.bin op a b) == 0
  | e => nSub e == 0

def easyWhens : List When → Bool
  | [] => true
  | .mk c r :: rest => easyCond c && easyOperand r && easyWhens rest

mutual
/-- positions of a select item at which the legacy analyzer looks for subqueries (L3 is the complement) -/
def easyItem : Expr → Bool
  | .subq q => !drvQ q
  | .func _ _ args none => easyArgs args
  | .func n d args (some ov) => nSub (.func n d args (some ov)) == 0
  | .case ws els => easyWhens ws && (match els with | some e => nSub e == 0 | none => true)
  | e => nSub e == 0
def easyArgs : List Expr → Bool
  | [] => true
  | a :: r => (easyOperand a || (match a with | .func .. => easyItem a | _ => false)) && easyArgs r
end

/-- positions of a WHERE condition at which the legacy analyzer (and the sqlfluff extractors) look for subqueries: operands of
    IN / EXISTS / a comparison, joined by AND / OR at the top of the condition (L2 is the complement) -/
def whereEasy : Expr → Bool
  | .bin op a b =>
    if op.toLower == "and" || op.toLower == "or" then whereEasy a && whereEasy b
    else if isCmp op then (nSub a == 0 || (match a with | .subq _ => true | _ => false)) &&
      (nSub b == 0 || (match b with | .subq _ => true | _ => false))
    else nSub (.bin op a b) == 0
  | .inSubq x _ _ => nSub x == 0
  | .exist _ _ => true
  | e => nSub e == 0

/-- `… CASE … END alias`: the expression's last token is END -/
def endsWithCase : Expr → Bool
  | .case _ _ => true
  | .bin _ _ b => endsWithCase b
  | _ => false

mutual
/-- classes raised inside an expression -/
def clsE : Expr → List String
  | .col _ _ | .star _ | .lit _ => []
  | .func _ _ args over =>
    (match over with
      | some (.mk p o) => (if args.length ≥ 2 then ["L5"] else []) ++ clsEs p ++ clsEs o
      | none => []) ++ clsEs args
  | .cast e _ => clsE e
  | .case ws els => clsW ws ++ (match els with | some e => clsE e | none => [])
  | .bin _ a b => clsE a ++ clsE b
  | .paren e => clsE e
  | .subq q => clsQ false q
  | .inSubq e _ q => ["K1"] ++ clsE e ++ clsQ false q
  | .exist _ q => clsQ false q
def clsEs : List Expr → List String
  | [] => []
  | e :: r => clsE e ++ clsEs r
def clsW : List When → List String
  | [] => []
  | .mk c r :: rest => clsE c ++ clsE r ++ clsW rest
def clsI : List Item → List String
  | [] => []
  | .mk e alias asKw :: r =>
    (if easyItem e then [] else ["L3"]) ++
    (if alias.isSome && !asKw && endsWithCase e then ["K4"] else []) ++
    clsE e ++ clsI r
/-- `top`: this query is the whole statement (`Stmt.query q false`) -/
def clsQ (top : Bool) : Query → List String
  | .select _ its frm wh grp hav =>
    (if frm.length > 1 && frm.any (fun fe => match fe with | .mk _ js => !js.isEmpty) then ["L1"] else []) ++
    clsI its ++ clsF frm ++ (match wh with | some e => (if whereEasy e then [] else ["L2"]) ++ clsE e | none => []) ++ clsEs grp ++
    (match hav with | some e => clsE e | none => [])
  | .setop (.mk q br) rest => (if br && !top then ["L8"] else []) ++ clsQ false q ++ clsOB rest
  | .withq cs body => clsC cs ++ clsQ false body
def clsOB : List OpBranch → List String
  | [] => []
  | .mk _ (.mk q _) :: r => clsQ false q ++ clsOB r
def clsC : List Cte → List String
  | [] => []
  | .mk _ q :: r => clsQ false q ++ clsC r
def clsEl : FromElem → List String
  | .table _ _ _ => []
  | .derived q _ _ => clsQ false q
def clsJ : List Join → List String
  | [] => []
  | .mk _ e on _ :: r => clsEl e ++ (match on with | some c => clsE c | none => []) ++ clsJ r
def clsF : List FromExpr → List String
  | [] => []
  | .mk b js :: r => clsEl b ++ clsJ js ++ clsF r
end

/-- the C09 classes a statement lies in (duplicate‑free; the C01 classes of `Spec.deviations` are reported separately) -/
def classes : Stmt → List String
  | .query q br => (clsQ (!br) q).eraseDups
  | .insert _ _ _ _ q br => ((if br then ["L6"] else []) ++ clsQ false q).eraseDups
  | .ctas _ _ ine q _ => ((if ine then ["L4"] else []) ++ clsQ false q).eraseDups
  | .createView _ _ _ q => (clsQ false q).eraseDups
  | _ => []

end SqlLineage.Spec.Agreement
