/-
Specification of single‑statement TABLE lineage (property C01; DESIGN Appendix B): the base tables a statement reads at
any nesting depth, with standard non‑recursive WITH scoping, and the table it writes.  Purely denotational: no graph, no
extractor.  Names are normalised by the same `mkTable` as everywhere (normalisation itself is the subject of C16).

`Frag01` is the syntactic fragment on which the walk is (to be) proved equal to this specification; each clause is the
negation of a deviation class of DESIGN §6 and has a name that the harness reports.
-/
import SqlLineage.Model.Walk

namespace SqlLineage.Spec
open SqlLineage Ast Walk Holder

/-- printed name of the table a reference denotes -/
def tableName (env : Env) (parts : List String) : String := (mkTable env parts none).printed

def insertU (x : String) (l : List String) : List String := if l.contains x then l else l ++ [x]
def unionU (a b : List String) : List String := b.foldl (fun acc x => insertU x acc) a

mutual
/-- tables read by the subqueries of an expression -/
def rdExpr (env : Env) (cte : List String) : Expr → List String
  | .col _ _ | .star _ | .lit _ => []
  | .func _ _ args over => unionU (rdExprs env cte args) (match over with | some (.mk p o) => unionU (rdExprs env cte p) (rdExprs env cte o) | none => [])
  | .cast e _ => rdExpr env cte e
  | .case ws els => unionU (rdWhens env cte ws) (match els with | some e => rdExpr env cte e | none => [])
  | .bin _ a b => unionU (rdExpr env cte a) (rdExpr env cte b)
  | .paren e => rdExpr env cte e
  | .subq q => rdQuery env cte q
  | .inSubq e _ q => unionU (rdExpr env cte e) (rdQuery env cte q)
  | .exist _ q => rdQuery env cte q
def rdExprs (env : Env) (cte : List String) : List Expr → List String
  | [] => []
  | e :: r => unionU (rdExpr env cte e) (rdExprs env cte r)
def rdOpt (env : Env) (cte : List String) : Option Expr → List String
  | none => []
  | some e => rdExpr env cte e
def rdWhens (env : Env) (cte : List String) : List When → List String
  | [] => []
  | .mk c r :: rest => unionU (unionU (rdExpr env cte c) (rdExpr env cte r)) (rdWhens env cte rest)
def rdItems (env : Env) (cte : List String) : List Item → List String
  | [] => []
  | .mk e _ _ :: r => unionU (rdExpr env cte e) (rdItems env cte r)
/-- tables read by a query; `cte` = normalised CTE names visible here -/
def rdQuery (env : Env) (cte : List String) : Query → List String
  | .select _ its frm wh grp hav =>
    unionU (unionU (unionU (unionU (rdFromExprs env cte frm) (rdItems env cte its)) (rdOpt env cte wh)) (rdExprs env cte grp))
      (rdOpt env cte hav)
  | .setop first rest => unionU (rdBranch env cte first) (rdOpBranches env cte rest)
  | .withq cs body => let r := rdCtes env cte cs; unionU r.1 (rdQuery env r.2 body)
def rdBranch (env : Env) (cte : List String) : Branch → List String
  | .mk q _ => rdQuery env cte q
def rdOpBranches (env : Env) (cte : List String) : List OpBranch → List String
  | [] => []
  | .mk _ b :: r => unionU (rdBranch env cte b) (rdOpBranches env cte r)
/-- WITH c₁ … cₙ body: cᵢ sees the enclosing names and c₁ … cᵢ₋₁; the body sees all.  Returns the reads of the CTE bodies
    and the scope the body is read in. -/
def rdCtes (env : Env) (cte : List String) : List Cte → List String × List String
  | [] => ([], cte)
  | .mk name q :: r =>
    let rest := rdCtes env (cte ++ [Ident.escapeS name]) r
    (unionU (rdQuery env cte q) rest.1, rest.2)
def rdElem (env : Env) (cte : List String) : FromElem → List String
  | .table parts _ _ =>
    match parts with
    | [n] => if cte.contains (Ident.escapeS n) then [] else [tableName env parts]
    | _ => [tableName env parts]
  | .derived q _ _ => rdQuery env cte q
def rdJoins (env : Env) (cte : List String) : List Join → List String
  | [] => []
  | .mk _ e on _ :: r => unionU (unionU (rdElem env cte e) (rdOpt env cte on)) (rdJoins env cte r)
def rdFromExpr (env : Env) (cte : List String) : FromExpr → List String
  | .mk base js => unionU (rdElem env cte base) (rdJoins env cte js)
def rdFromExprs (env : Env) (cte : List String) : List FromExpr → List String
  | [] => []
  | f :: r => unionU (rdFromExpr env cte f) (rdFromExprs env cte r)
end

/-- tables a statement reads -/
def reads (env : Env) : Stmt → List String
  | .query q _ => rdQuery env [] q
  | .insert _ _ _ _ q _ => rdQuery env [] q
  | .ctas _ _ _ q _ => rdQuery env [] q
  | .createView _ _ _ q => rdQuery env [] q
  | .createTableLike _ src => [tableName env src]
  | .update _ _ sets frm wh =>
    unionU (unionU (rdFromExprs env [] frm) (rdExprs env [] (sets.map (·.src)))) (rdOpt env [] wh)
  | .merge _ _ src on ups ins =>
    unionU (unionU (match src with
        | .table parts _ => [tableName env parts]
        | .derived q _ => rdQuery env [] q) (rdExpr env [] on))
      (unionU (rdExprs env [] (ups.flatten.map (·.src))) (rdExprs env [] (ins.flatMap (·.vals))))
  | .copy _ path => [Ident.escapeS path]
  | _ => []

/-- the table a statement writes -/
def writes (env : Env) : Stmt → List String
  | .insert _ _ tgt _ _ _ => [tableName env tgt]
  | .insertValues tgt _ _ => [tableName env tgt]
  | .ctas tgt _ _ _ _ => [tableName env tgt]
  | .createView tgt _ _ _ => [tableName env tgt]
  | .createTable tgt _ _ => [tableName env tgt]
  | .createTableLike tgt _ => [tableName env tgt]
  | .update tgt _ _ _ _ => [tableName env tgt]
  | .merge tgt _ _ _ _ _ => [tableName env tgt]
  | .copy tgt _ => [tableName env tgt]
  | _ => []

/-! ### the fragment: counting subquery occurrences the walk discovers vs all of them -/

mutual
/-- number of subquery brackets in an expression, not descending into the subqueries -/
def nSub : Expr → Nat
  | .col _ _ | .star _ | .lit _ => 0
  | .func _ _ args over => nSubL args + (match over with | some (.mk p o) => nSubL p + nSubL o | none => 0)
  | .cast e _ => nSub e
  | .case ws els => nSubW ws + (match els with | some e => nSub e | none => 0)
  | .bin _ a b => nSub a + nSub b
  | .paren e => nSub e
  | .subq _ => 1
  | .inSubq e _ _ => nSub e + 1
  | .exist _ _ => 1
def nSubL : List Expr → Nat
  | [] => 0
  | e :: r => nSub e + nSubL r
def nSubW : List When → Nat
  | [] => 0
  | .mk c r :: rest => nSub c + nSub r + nSubW rest
end

/-- subqueries that are direct flat children of an `expression` (what `sqDirect` with `inner := false` finds) -/
def nDirect : Expr → Nat
  | .bin _ a b => nDirect a + nDirect b
  | .subq _ => 1
  | .inSubq _ _ _ => 1
  | .exist _ _ => 1
  | _ => 0

/-- a parenthesised operand of WHERE is resolved to ONE innermost bracket: fine iff it holds exactly one subquery and the
    first‑bracket chain reaches it -/
def chainFinds : Expr → Bool
  | .bin _ a b => chainFinds a || (nSub a == 0 && chainFinds b)
  | .subq _ => true
  | .inSubq e _ _ => nSub e == 0
  | .exist _ _ => true
  | .paren e => chainFinds e
  | _ => false

/-- what `sqDirect` with `inner := true` (WHERE) finds -/
def nDirectWhere : Expr → Nat
  | .bin _ a b => nDirectWhere a + nDirectWhere b
  | .subq _ => 1
  | .inSubq _ _ _ => 1
  | .exist _ _ => 1
  | .paren e => if chainFinds e then 1 else 0
  | _ => 0

def firstCaseWhens : Expr → Option (List When)
  | .bin _ a b => match firstCaseWhens a with | some w => some w | none => firstCaseWhens b
  | .case ws _ => some ws
  | _ => none

def nWhensDirect : List When → Nat
  | [] => 0
  | .mk c r :: rest => nDirect c + nDirect r + nWhensDirect rest

/-- subqueries of a select item that the walk discovers (`sqItems`) -/
def nItemFound : Expr → Nat
  | .func n d args over => nSub (.func n d args over)
  | .cast e t => nSub (.cast e t)
  | .col _ _ | .star _ | .lit _ => 0
  | e => match firstCaseWhens e with | some ws => nWhensDirect ws | none => 0

def hasSingle (n : String) : List String → Bool := fun l => l.contains (Ident.escapeS n)

mutual
/-- names of the deviation classes a query falls in (empty = inside the fragment).
    `vis`: CTE names visible by standard scoping; `all`: every CTE name defined anywhere in the statement. -/
def devExpr (vis all : List String) : Expr → List String
  | .col _ _ | .star _ | .lit _ => []
  | .func _ _ args over => devExprs vis all args ++ (match over with | some (.mk p o) => devExprs vis all p ++ devExprs vis all o | none => [])
  | .cast e _ => devExpr vis all e
  | .case ws els => devWhens vis all ws ++ (match els with | some e => devExpr vis all e | none => [])
  | .bin _ a b => devExpr vis all a ++ devExpr vis all b
  | .paren e => devExpr vis all e
  | .subq q => devQuery vis all q
  | .inSubq e _ q => devExpr vis all e ++ devQuery vis all q
  | .exist _ q => devQuery vis all q
def devExprs (vis all : List String) : List Expr → List String
  | [] => []
  | e :: r => devExpr vis all e ++ devExprs vis all r
def devOpt (vis all : List String) : Option Expr → List String
  | none => []
  | some e => devExpr vis all e
def devWhens (vis all : List String) : List When → List String
  | [] => []
  | .mk c r :: rest => devExpr vis all c ++ devExpr vis all r ++ devWhens vis all rest
def devItems (vis all : List String) : List Item → List String
  | [] => []
  | .mk e _ _ :: r =>
    (if nItemFound e == nSub e then [] else ["D2"]) ++ devExpr vis all e ++ devItems vis all r
def devQuery (vis all : List String) : Query → List String
  | .select _ its frm wh grp hav =>
    devItems vis all its ++ devFromExprs vis all frm ++
    (match wh with | some e => (if nDirectWhere e == nSub e then [] else ["D2w"]) ++ devExpr vis all e | none => []) ++
    (if nSubL grp == 0 then [] else ["D3"]) ++ devExprs vis all grp ++
    (match hav with | some e => (if nSub e == 0 then [] else ["D3"]) ++ devExpr vis all e | none => [])
  | .setop first rest => devBranch vis all first ++ devOpBranches vis all rest
  | .withq cs body => let r := devCtes vis all cs; r.1 ++ devQuery r.2 all body
def devBranch (vis all : List String) : Branch → List String
  | .mk q _ => (match q with | .select .. => [] | _ => ["D7s"]) ++ devQuery vis all q
def devOpBranches (vis all : List String) : List OpBranch → List String
  | [] => []
  | .mk _ b :: r => devBranch vis all b ++ devOpBranches vis all r
def devCtes (vis all : List String) : List Cte → List String × List String
  | [] => ([], vis)
  | .mk name q :: r =>
    let rest := devCtes (vis ++ [Ident.escapeS name]) all r
    (devQuery vis all q ++ rest.1, rest.2)
def devElem (vis all : List String) : FromElem → List String
  | .table parts _ _ =>
    match parts with
    | [n] => if all.contains (Ident.escapeS n) && !vis.contains (Ident.escapeS n) then ["D5"] else []
    | _ => []
  | .derived q _ _ => devQuery vis all q
def devJoins (vis all : List String) : List Join → List String
  | [] => []
  | .mk _ e on _ :: r =>
    devElem vis all e ++ (match on with | some c => (if nSub c == 0 then [] else ["D4"]) ++ devExpr vis all c | none => []) ++
      devJoins vis all r
def devFromExpr (vis all : List String) : FromExpr → List String
  | .mk base js => devElem vis all base ++ devJoins vis all js
def devFromExprs (vis all : List String) : List FromExpr → List String
  | [] => []
  | f :: r => devFromExpr vis all f ++ devFromExprs vis all r
end

mutual
/-- every CTE name defined anywhere in the query (normalised) -/
def cteNamesE : Expr → List String
  | .col _ _ | .star _ | .lit _ => []
  | .func _ _ args over => cteNamesEs args ++ (match over with | some (.mk p o) => cteNamesEs p ++ cteNamesEs o | none => [])
  | .cast e _ => cteNamesE e
  | .case ws els => cteNamesW ws ++ (match els with | some e => cteNamesE e | none => [])
  | .bin _ a b => cteNamesE a ++ cteNamesE b
  | .paren e => cteNamesE e
  | .subq q => cteNamesQ q
  | .inSubq e _ q => cteNamesE e ++ cteNamesQ q
  | .exist _ q => cteNamesQ q
def cteNamesEs : List Expr → List String
  | [] => []
  | e :: r => cteNamesE e ++ cteNamesEs r
def cteNamesW : List When → List String
  | [] => []
  | .mk c r :: rest => cteNamesE c ++ cteNamesE r ++ cteNamesW rest
def cteNamesI : List Item → List String
  | [] => []
  | .mk e _ _ :: r => cteNamesE e ++ cteNamesI r
def cteNamesQ : Query → List String
  | .select _ its frm wh grp hav =>
    cteNamesI its ++ cteNamesF frm ++ (match wh with | some e => cteNamesE e | none => []) ++ cteNamesEs grp ++
      (match hav with | some e => cteNamesE e | none => [])
  | .setop (.mk q _) rest => cteNamesQ q ++ cteNamesOB rest
  | .withq cs body => cteNamesC cs ++ cteNamesQ body
def cteNamesOB : List OpBranch → List String
  | [] => []
  | .mk _ (.mk q _) :: r => cteNamesQ q ++ cteNamesOB r
def cteNamesC : List Cte → List String
  | [] => []
  | .mk n q :: r => Ident.escapeS n :: cteNamesQ q ++ cteNamesC r
def cteNamesEl : FromElem → List String
  | .table _ _ _ => []
  | .derived q _ _ => cteNamesQ q
def cteNamesJ : List Join → List String
  | [] => []
  | .mk _ e on _ :: r => cteNamesEl e ++ (match on with | some c => cteNamesE c | none => []) ++ cteNamesJ r
def cteNamesF : List FromExpr → List String
  | [] => []
  | .mk b js :: r => cteNamesEl b ++ cteNamesJ js ++ cteNamesF r
end

def stmtQuery? : Stmt → Option Query
  | .query q _ => some q
  | .insert _ _ _ _ q _ => some q
  | .ctas _ _ _ q _ => some q
  | .createView _ _ _ q => some q
  | _ => none

/-- deviation classes of a statement (duplicate‑free); `[]` ⇔ the statement is in `Frag01` -/
def deviations (s : Stmt) : List String :=
  match stmtQuery? s with
  | some q => (devQuery [] (cteNamesQ q) q).eraseDups
  | none =>
    match s with
    | .update _ _ sets frm wh =>
      -- UpdateExtractor looks at FROM only: subqueries in SET expressions and in WHERE are not visited (class D8u)
      ((if nSubL (sets.map (·.src)) == 0 && (match wh with | some e => nSub e == 0 | none => true) then [] else ["D8u"]) ++
        devFromExprs [] (cteNamesF frm) frm).eraseDups
    | .merge _ _ src on ups ins =>
      ((if nSub on == 0 && nSubL (ups.flatten.map (·.src)) == 0 && nSubL (ins.flatMap (·.vals)) == 0 then [] else ["D8u"]) ++
        (match src with | .derived q _ => devQuery [] (cteNamesQ q) q | .table _ _ => [])).eraseDups
    | _ => []

def Frag01 (s : Stmt) : Prop := deviations s = []
instance (s : Stmt) : Decidable (Frag01 s) := by unfold Frag01; infer_instance

end SqlLineage.Spec
