/-
Specification the splitter theorems of C05 are stated against: cut a token list at every top-level `;`.
(Denotational; does not look at the splitter model's state machine.)
-/
import SqlLineage.Model.Split

namespace SqlLineage.Spec.Split
open SqlLineage.Split

/-- the specification: cut at every `;` (the `;` is dropped).  `acc` = current segment, reversed. -/
def segs : List Tok → List Tok → List (List Tok)
  | acc, [] => [acc.reverse]
  | acc, t :: r => if isSemi t then acc.reverse :: segs [] r else segs (t :: acc) r

def nonEmpty (e : List Tok) : Bool := !e.isEmpty

/-- the statements of a token list: its `;`‑delimited segments, each up to comments and outer blanks (`essence`), those
    with nothing left dropped -/
def specSplit (ts : List Tok) : List (List Tok) := ((segs [] ts).map essence).filter nonEmpty

end SqlLineage.Spec.Split
