/-
Specification of single‑statement COLUMN dataflow (property C02; DESIGN Appendix B), independent of the extractor
model: scope resolution with alias shadowing, the naming rule, positional set operations, tracing through derived
tables and CTEs with standard WITH scoping.  Purely denotational: no graph, no holder.

`colflow env s = some pairs`  — the end‑to‑end (source column, target column) pairs the property prescribes, as printed names;
`none`                        — the statement is outside the sub‑grammar this specification legislates (`Frag02`): stars,
                                 subqueries inside select items, the recorded deviation classes D6 (source‑less first‑branch
                                 item of a set operation) and D7 (alias equal to another relation's bare name), an unqualified
                                 name that is also referenced with a qualifier (the assembler's "evidence" heuristic), duplicate
                                 output names, un‑aliased expression items at a position that names a target column.
-/
import SqlLineage.Model.Walk
import SqlLineage.Spec.Tables

namespace SqlLineage.Spec
open SqlLineage Ast Walk

/-- where a value ultimately comes from -/
inductive Src
  | base (table : String) (col : String)      -- a base‑table column, table printed "schema.name"
  | unresolved (col : String)                 -- unqualified, several candidates, nothing disambiguates
  | dangling (rel : String) (col : String)    -- a column a derived table / CTE does not define (path starts at `rel.col`)
  deriving DecidableEq, Repr, Inhabited

def Src.printed : Src → String
  | .base t c => t ++ "." ++ c
  | .unresolved c => c
  | .dangling r c => r ++ "." ++ c

/-- output columns of a query: name and origins, by position -/
abbrev Outs := List (String × List Src)

/-- a relation of a FROM scope: the qualifiers it answers to, and what it is -/
structure Rel where
  answers : List String
  bare : Option String          -- bare table name of an un‑aliased or aliased base table (for the D7 test)
  table : Option String         -- printed name when it is a base table
  alias : String                -- printed name of a derived table / CTE reference
  outs : Outs                   -- its output columns when it is a derived table / CTE
  deriving Inhabited

def unionS (a b : List Src) : List Src := b.foldl (fun acc x => if acc.contains x then acc else acc ++ [x]) a

def lookupOuts (o : Outs) (c : String) : Option (List Src) := (o.find? (·.1 == c)).map (·.2)

/-- a derived table / CTE column without any source (a literal): what a reference to it should report is not legislated
    (the code reports the subquery column itself as a source) -/
def sourceless (o : Outs) (c : String) : Bool := lookupOuts o c == some []

/-- resolve one reference in a scope; `none` = not legislated -/
def resolveRef (scope : List Rel) (qual : Option String) (c : String) : Option (List Src) :=
  match qual with
  | some q =>
    match scope.filter (fun r => r.answers.contains q) with
    | [r] =>
      (match r.table with
        | some t => some [.base t c]
        | none => if sourceless r.outs c then none
                  else some (match lookupOuts r.outs c with | some s => s | none => [.dangling r.alias c]))
    | _ => none                  -- unknown or ambiguous qualifier: not legislated
  | none =>
    match scope with
    | [] => none
    | [r] =>
      (match r.table with
        | some t => some [.base t c]
        | none => if sourceless r.outs c then none
                  else some (match lookupOuts r.outs c with | some s => s | none => [.dangling r.alias c]))
    | many =>
      if many.any (fun r => r.table.isNone && sourceless r.outs c) then none else
      -- positive disambiguation only: derived tables / CTEs that define the name
      let defs := many.filter (fun r => r.table.isNone && (lookupOuts r.outs c).isSome)
      if defs.isEmpty then some [.unresolved c]
      else some (defs.foldl (fun acc r => unionS acc ((lookupOuts r.outs c).getD [])) [])

def resolveRefs (scope : List Rel) : List (String × Option String) → Option (List Src)
  | [] => some []
  | (c, q) :: r =>
    match resolveRef scope (q.map Ident.escapeS) (Ident.escapeS c), resolveRefs scope r with
    | some a, some b => some (unionS a b)
    | _, _ => none

/-- scopes that are not legislated: (D7 class) a qualifier one relation answers to equals the bare name of ANOTHER relation
    of the scope; the same qualifier twice; the same base table twice -/
def scopeClash (scope : List Rel) : Bool :=
  let idx := scope.zipIdx
  idx.any (fun r1 => idx.any (fun r2 =>
    r1.2 != r2.2 && (match r2.1.bare with | some b => r1.1.answers.contains b | none => false))) ||
  (let names := scope.flatMap (·.answers); names.eraseDups.length != names.length) ||
  (let ts := scope.filterMap (·.table); ts.eraseDups.length != ts.length) ||
  -- the same CTE referenced twice (one subquery node in the code)
  (let cs := (scope.filter (·.table.isNone)).map (·.alias); cs.eraseDups.length != cs.length)

mutual
/-- names of all QUALIFIED column references anywhere in an expression / query (subqueries, WHERE, ON included) -/
def qnExpr : Expr → List String
  | .col qs c => if qs.isEmpty then [] else [Ident.escapeS c]
  | .star _ | .lit _ => []
  | .func _ _ args over => qnExprs args ++ (match over with | some (.mk p o) => qnExprs p ++ qnExprs o | none => [])
  | .cast e _ => qnExpr e
  | .case ws els => qnWhens ws ++ (match els with | some e => qnExpr e | none => [])
  | .bin _ a b => qnExpr a ++ qnExpr b
  | .paren e => qnExpr e
  | .subq q => qnQuery q
  | .inSubq e _ q => qnExpr e ++ qnQuery q
  | .exist _ q => qnQuery q
def qnExprs : List Expr → List String
  | [] => []
  | e :: r => qnExpr e ++ qnExprs r
def qnWhens : List When → List String
  | [] => []
  | .mk c r :: rest => qnExpr c ++ qnExpr r ++ qnWhens rest
def qnItems : List Item → List String
  | [] => []
  | .mk e _ _ :: r => qnExpr e ++ qnItems r
def qnQuery : Query → List String
  | .select _ its frm wh grp hav =>
    qnItems its ++ qnFroms frm ++ (match wh with | some e => qnExpr e | none => []) ++ qnExprs grp ++
      (match hav with | some e => qnExpr e | none => [])
  | .setop (.mk q _) rest => qnQuery q ++ qnOpBranches rest
  | .withq cs body => qnCtes cs ++ qnQuery body
def qnOpBranches : List OpBranch → List String
  | [] => []
  | .mk _ (.mk q _) :: r => qnQuery q ++ qnOpBranches r
def qnCtes : List Cte → List String
  | [] => []
  | .mk _ q :: r => qnQuery q ++ qnCtes r
def qnElem : FromElem → List String
  | .table _ _ _ => []
  | .derived q _ _ => qnQuery q
def qnJoins : List Join → List String
  | [] => []
  | .mk _ e on _ :: r => qnElem e ++ (match on with | some c => qnExpr c | none => []) ++ qnJoins r
def qnFroms : List FromExpr → List String
  | [] => []
  | .mk b js :: r => qnElem b ++ qnJoins js ++ qnFroms r
end

def itemName (env : Env) : Item → Option String
  | .mk _ (some a) _ => some (Ident.escapeS a)
  | .mk (.col _ c) none _ => some (Ident.escapeS c)
  | .mk _ none _ => none

def itemExpr : Item → Expr
  | .mk e _ _ => e

mutual
/-- outputs of a query; `cte`: visible CTEs with their outputs -/
def outQuery (env : Env) (qn : List String) (cte : List (String × Outs)) : Query → Option Outs
  | .select _ its frm _ _ _ =>
    match scopeOf env qn cte frm with
    | none => none
    | some scope =>
      if scopeClash scope then none
      else
        -- the assembler's evidence heuristic: an unqualified name also used with a qualifier is not legislated
        let allrefs := its.flatMap (fun it => refs (itemExpr it))
        if scope.length > 1 && allrefs.any (fun r => r.2.isNone && qn.contains (Ident.escapeS r.1)) then none
        else if its.any (fun it => hasSubq (itemExpr it)) then none
        else if allrefs.any (fun r => r.1 == "*") then none
        else
          its.foldr (fun it acc =>
            match acc, resolveRefs scope (refs (itemExpr it)) with
            | some l, some s => some (((itemName env it).getD "", s) :: l)     -- "" = display name not legislated
            | _, _ => none) (some [])
  | .setop first rest =>
    match outBranch env qn cte first with
    | none => none
    | some o1 =>
      if o1.any (fun p => p.2.isEmpty) then none           -- D6 class
      else outOpBranches env qn cte o1 rest
  | .withq cs body =>
    match outCtes env qn cte cs with
    | none => none
    | some cte' => outQuery env qn cte' body
def outBranch (env : Env) (qn : List String) (cte : List (String × Outs)) : Branch → Option Outs
  | .mk q _ => outQuery env qn cte q
def outOpBranches (env : Env) (qn : List String) (cte : List (String × Outs)) (acc : Outs) : List OpBranch → Option Outs
  | [] => some acc
  | .mk _ b :: r =>
    match outBranch env qn cte b with
    | none => none
    | some o =>
      if o.length != acc.length then none
      else outOpBranches env qn cte ((acc.zip o).map (fun p => (p.1.1, unionS p.1.2 p.2.2))) r
def outCtes (env : Env) (qn : List String) (cte : List (String × Outs)) : List Cte → Option (List (String × Outs))
  | [] => some cte
  | .mk name q :: r =>
    match outQuery env qn cte q with
    | none => none
    | some o => outCtes env qn (cte ++ [(Ident.escapeS name, o)]) r
def relOf (env : Env) (qn : List String) (cte : List (String × Outs)) : FromElem → Option Rel
  | .table parts alias _ =>
    match parts with
    | [n] =>
      (match (cte.reverse.find? (·.1 == Ident.escapeS n)) with
        | some (_, o) =>
          let a := Ident.escapeS (alias.getD n)
          some ⟨[a], none, none, Ident.escapeS n, o⟩      -- a CTE reference prints as the CTE name
        | none =>
          let t := tableName env parts
          (match alias with
            | some a => some ⟨[Ident.escapeS a], some (Ident.escapeS n), some t, "", []⟩
            | none => some ⟨[Ident.escapeS n, t], some (Ident.escapeS n), some t, "", []⟩))
    | _ =>
      let t := tableName env parts
      let n := Ident.escapeS (parts.getLast?.getD "")
      (match alias with
        | some a => some ⟨[Ident.escapeS a], some n, some t, "", []⟩
        | none => some ⟨[n, t], some n, some t, "", []⟩)
  | .derived q alias _ =>
    match outQuery env qn cte q, alias with
    | some o, some a => some ⟨[Ident.escapeS a], none, none, Ident.escapeS a, o⟩
    | _, _ => none
def relsOfJoins (env : Env) (qn : List String) (cte : List (String × Outs)) : List Join → Option (List Rel)
  | [] => some []
  | .mk _ e _ _ :: r =>
    match relOf env qn cte e, relsOfJoins env qn cte r with
    | some a, some b => some (a :: b)
    | _, _ => none
def scopeOf (env : Env) (qn : List String) (cte : List (String × Outs)) : List FromExpr → Option (List Rel)
  | [] => some []
  | .mk base js :: r =>
    match relOf env qn cte base, relsOfJoins env qn cte js, scopeOf env qn cte r with
    | some a, some b, some c => some (a :: b ++ c)
    | _, _, _ => none
end

/-- the prescribed end‑to‑end pairs of a data‑moving statement, or `none` outside the legislated sub‑grammar -/
def colflow (env : Env) : Stmt → Option (List (String × String))
  | s =>
    let go := fun (tgt : List String) (cols : Option (List String)) (q : Query) =>
      match outQuery env (qnQuery q) [] q with
      | none => none
      | some outs =>
        let t := tableName env tgt
        -- a statement that reads its own target is not legislated (the target's columns then count as evidence for
        -- unqualified names in the assembler's late resolution)
        if (rdQuery env [] q).contains t then none else
        let names : Option (List String) :=
          match cols with
          | some cs => if cs.length == outs.length then some (cs.map Ident.escapeS) else none
          | none => if outs.any (·.1 == "") then none else some (outs.map (·.1))
        match names with
        | none => none
        | some ns =>
          if ns.eraseDups.length != ns.length then none
          else some ((ns.zip outs).flatMap (fun p => p.2.2.map (fun src => (src.printed, t ++ "." ++ p.1)))).eraseDups
    match s with
    | .insert _ _ tgt cols q _ => go tgt cols q
    | .ctas tgt _ _ q _ => go tgt none q
    | .createView tgt _ cols q => go tgt cols q
    | _ => none

end SqlLineage.Spec
