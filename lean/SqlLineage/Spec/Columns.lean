/-
Specification of single‑statement COLUMN dataflow (property C02; DESIGN Appendix B), independent of the extractor
model: scope resolution with alias shadowing, the naming rule, positional set operations, tracing through derived
tables and CTEs with standard WITH scoping.  Purely denotational: no graph, no holder.

`colflow env s = some pairs`  — the end‑to‑end (source column, target column) pairs the property prescribes, as printed names;
`none`                        — the statement is outside the sub‑grammar this specification legislates (`Frag02`): stars,
                                 subqueries inside select items, the recorded deviation classes D6 (source‑less first‑branch
                                 item of a set operation) and D7 (alias equal to another relation's bare name), an unqualified
                                 name that is also referenced with a qualifier (the assembler's "evidence" heuristic), duplicate
                                 output names, un‑aliased expression items at a position that names a target column.
-/
import SqlLineage.Model.Walk
import SqlLineage.Spec.Tables

namespace SqlLineage.Spec
open SqlLineage Ast Walk

/-- where a value ultimately comes from -/
inductive Src
  | base (table : String) (col : String)      -- a base‑table column, table printed "schema.name"
  | unresolved (col : String)                 -- unqualified, several candidates, nothing disambiguates
  | dangling (rel : String) (col : String)    -- a column a derived table / CTE does not define (path starts at `rel.col`)
  deriving DecidableEq, Repr, Inhabited

def Src.printed : Src → String
  | .base t c => t ++ "." ++ c
  | .unresolved c => c
  | .dangling r c => r ++ "." ++ c

/-- output columns of a query: name and origins, by position -/
abbrev Outs := List (String × List Src)

/-- a relation of a FROM scope: the qualifiers it answers to, and what it is -/
structure Rel where
  answers : List String
  bare : Option String          -- bare table name of an un‑aliased or aliased base table (for the D7 test)
  table : Option String         -- printed name when it is a base table
  alias : String                -- printed name of a derived table / CTE reference
  outs : Outs                   -- its output columns when it is a derived table / CTE
  deriving Inhabited

def unionS (a b : List Src) : List Src := b.foldl (fun acc x => if acc.contains x then acc else acc ++ [x]) a

def lookupOuts (o : Outs) (c : String) : Option (List Src) := (o.find? (·.1 == c)).map (·.2)

/-- resolve one reference in a scope; `none` = not legislated -/
def resolveRef (scope : List Rel) (qual : Option String) (c : String) : Option (List Src) :=
  match qual with
  | some q =>
    match scope.filter (fun r => r.answers.contains q) with
    | [r] =>
      (match r.table with
        | some t => some [.base t c]
        | none => some (match lookupOuts r.outs c with | some s => s | none => [.dangling r.alias c]))
    | _ => none                  -- unknown or ambiguous qualifier: not legislated
  | none =>
    match scope with
    | [] => none
    | [r] =>
      (match r.table with
        | some t => some [.base t c]
        | none => some (match lookupOuts r.outs c with | some s => s | none => [.dangling r.alias c]))
    | many =>
      -- positive disambiguation only: derived tables / CTEs that define the name
      let defs := many.filter (fun r => r.table.isNone && (lookupOuts r.outs c).isSome)
      if defs.isEmpty then some [.unresolved c]
      else some (defs.foldl (fun acc r => unionS acc ((lookupOuts r.outs c).getD [])) [])

def resolveRefs (scope : List Rel) : List (String × Option String) → Option (List Src)
  | [] => some []
  | (c, q) :: r =>
    match resolveRef scope (q.map Ident.escapeS) (Ident.escapeS c), resolveRefs scope r with
    | some a, some b => some (unionS a b)
    | _, _ => none

/-- D7 class: an alias (or name) of one relation equals the bare name of ANOTHER relation of the scope -/
def scopeClash (scope : List Rel) : Bool :=
  scope.any (fun r1 => scope.any (fun r2 =>
    (r1.table != r2.table || r1.alias != r2.alias) &&
    (match r2.bare with | some b => r1.answers.contains b && r1.bare != some b | none => false))) ||
  -- the same relation name twice
  (let names := scope.flatMap (·.answers); names.eraseDups.length != names.length)

def itemName (env : Env) : Item → Option String
  | .mk _ (some a) _ => some (Ident.escapeS a)
  | .mk (.col _ c) none _ => some (Ident.escapeS c)
  | .mk _ none _ => none

def itemExpr : Item → Expr
  | .mk e _ _ => e

mutual
/-- outputs of a query; `cte`: visible CTEs with their outputs -/
def outQuery (env : Env) (cte : List (String × Outs)) : Query → Option Outs
  | .select _ its frm _ _ _ =>
    match scopeOf env cte frm with
    | none => none
    | some scope =>
      if scopeClash scope then none
      else
        -- the assembler's evidence heuristic: an unqualified name also used with a qualifier is not legislated
        let allrefs := its.flatMap (fun it => refs (itemExpr it))
        let qualifiedNames := (allrefs.filter (·.2.isSome)).map (·.1)
        if allrefs.any (fun r => r.2.isNone && qualifiedNames.contains r.1) then none
        else if its.any (fun it => hasSubq (itemExpr it)) then none
        else if allrefs.any (fun r => r.1 == "*") then none
        else
          its.foldr (fun it acc =>
            match acc, resolveRefs scope (refs (itemExpr it)) with
            | some l, some s => some (((itemName env it).getD "", s) :: l)     -- "" = display name not legislated
            | _, _ => none) (some [])
  | .setop first rest =>
    match outBranch env cte first with
    | none => none
    | some o1 =>
      if o1.any (fun p => p.2.isEmpty) then none           -- D6 class
      else outOpBranches env cte o1 rest
  | .withq cs body =>
    match outCtes env cte cs with
    | none => none
    | some cte' => outQuery env cte' body
def outBranch (env : Env) (cte : List (String × Outs)) : Branch → Option Outs
  | .mk q _ => outQuery env cte q
def outOpBranches (env : Env) (cte : List (String × Outs)) (acc : Outs) : List OpBranch → Option Outs
  | [] => some acc
  | .mk _ b :: r =>
    match outBranch env cte b with
    | none => none
    | some o =>
      if o.length != acc.length then none
      else outOpBranches env cte ((acc.zip o).map (fun p => (p.1.1, unionS p.1.2 p.2.2))) r
def outCtes (env : Env) (cte : List (String × Outs)) : List Cte → Option (List (String × Outs))
  | [] => some cte
  | .mk name q :: r =>
    match outQuery env cte q with
    | none => none
    | some o => outCtes env (cte ++ [(Ident.escapeS name, o)]) r
def relOf (env : Env) (cte : List (String × Outs)) : FromElem → Option Rel
  | .table parts alias _ =>
    match parts with
    | [n] =>
      (match (cte.reverse.find? (·.1 == Ident.escapeS n)) with
        | some (_, o) =>
          let a := Ident.escapeS (alias.getD n)
          some ⟨[a], none, none, Ident.escapeS n, o⟩      -- a CTE reference prints as the CTE name
        | none =>
          let t := tableName env parts
          (match alias with
            | some a => some ⟨[Ident.escapeS a], some (Ident.escapeS n), some t, "", []⟩
            | none => some ⟨[Ident.escapeS n, t], some (Ident.escapeS n), some t, "", []⟩))
    | _ =>
      let t := tableName env parts
      let n := Ident.escapeS (parts.getLast?.getD "")
      (match alias with
        | some a => some ⟨[Ident.escapeS a], some n, some t, "", []⟩
        | none => some ⟨[n, t], some n, some t, "", []⟩)
  | .derived q alias _ =>
    match outQuery env cte q, alias with
    | some o, some a => some ⟨[Ident.escapeS a], none, none, Ident.escapeS a, o⟩
    | _, _ => none
def relsOfJoins (env : Env) (cte : List (String × Outs)) : List Join → Option (List Rel)
  | [] => some []
  | .mk _ e _ _ :: r =>
    match relOf env cte e, relsOfJoins env cte r with
    | some a, some b => some (a :: b)
    | _, _ => none
def scopeOf (env : Env) (cte : List (String × Outs)) : List FromExpr → Option (List Rel)
  | [] => some []
  | .mk base js :: r =>
    match relOf env cte base, relsOfJoins env cte js, scopeOf env cte r with
    | some a, some b, some c => some (a :: b ++ c)
    | _, _, _ => none
end

/-- the prescribed end‑to‑end pairs of a data‑moving statement, or `none` outside the legislated sub‑grammar -/
def colflow (env : Env) : Stmt → Option (List (String × String))
  | s =>
    let go := fun (tgt : List String) (cols : Option (List String)) (q : Query) =>
      match outQuery env [] q with
      | none => none
      | some outs =>
        let t := tableName env tgt
        let names : Option (List String) :=
          match cols with
          | some cs => if cs.length == outs.length then some (cs.map Ident.escapeS) else none
          | none => if outs.any (·.1 == "") then none else some (outs.map (·.1))
        match names with
        | none => none
        | some ns =>
          if ns.eraseDups.length != ns.length then none
          else some ((ns.zip outs).flatMap (fun p => p.2.2.map (fun src => (src.printed, t ++ "." ++ p.1)))).eraseDups
    match s with
    | .insert _ _ tgt cols q _ => go tgt cols q
    | .ctas tgt _ _ q _ => go tgt none q
    | .createView tgt _ cols q => go tgt cols q
    | _ => none

end SqlLineage.Spec
