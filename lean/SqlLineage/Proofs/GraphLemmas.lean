/-
Extensional lemmas about the graph model: membership of nodes / edges and the value of tags after each operation.
All reasoning about holders and the assembler goes through these.
-/
import SqlLineage.Model.Graph

namespace SqlLineage.Graph
variable {ν π : Type} [DecidableEq ν]

@[simp] theorem hasNode_iff (g : Graph ν π) (n : ν) : g.hasNode n = true ↔ n ∈ g.nodes := by
  simp [hasNode]

@[simp] theorem hasEdge_iff (g : Graph ν π) (u v : ν) : g.hasEdge u v = true ↔ (u, v) ∈ g.edges := by
  simp [hasEdge]

theorem hasNode_false_iff (g : Graph ν π) (n : ν) : g.hasNode n = false ↔ n ∉ g.nodes := by
  simp [hasNode]

theorem tag_of_not_mem (g : Graph ν π) (n : ν) (t : Tag) (h : n ∉ g.nodes) : g.tag n t = none := by
  simp [tag, hasNode, h]

theorem tag_of_mem (g : Graph ν π) (n : ν) (t : Tag) (h : n ∈ g.nodes) : g.tag n t = g.ntag n t := by
  simp [tag, hasNode, h]

@[simp] theorem empty_nodes : (empty : Graph ν π).nodes = [] := rfl
@[simp] theorem empty_edges : (empty : Graph ν π).edges = [] := rfl
@[simp] theorem tag_empty (n : ν) (t : Tag) : (empty : Graph ν π).tag n t = none := by simp [tag, hasNode, empty]

/-! ### addNode -/

theorem mem_nodes_addNode (g : Graph ν π) (n m : ν) (p : Option π) :
    m ∈ (g.addNode n p).nodes ↔ m ∈ g.nodes ∨ m = n := by
  unfold addNode
  by_cases h : g.hasNode n = true
  · simp only [h, if_true]
    constructor
    · exact Or.inl
    · rintro (h' | h')
      · exact h'
      · subst h'; exact (hasNode_iff g m).mp h
  · simp [h]

@[simp] theorem edges_addNode (g : Graph ν π) (n : ν) (p : Option π) : (g.addNode n p).edges = g.edges := by
  unfold addNode; split <;> rfl

@[simp] theorem tag_addNode (g : Graph ν π) (n m : ν) (p : Option π) (t : Tag) :
    (g.addNode n p).tag m t = g.tag m t := by
  unfold addNode
  by_cases h : g.hasNode n = true
  · simp [h]
  · have hn : n ∉ g.nodes := by simpa [hasNode] using h
    simp only [h, if_false, Bool.false_eq_true]
    by_cases hm : m = n
    · subst hm; simp [tag, hasNode, hn]
    · simp [tag, hasNode, hm]

/-! ### setTag / setTags -/

theorem mem_nodes_setTag (g : Graph ν π) (n m : ν) (t : Tag) (b : Bool) (p : Option π) :
    m ∈ (g.setTag n t b p).nodes ↔ m ∈ g.nodes ∨ m = n := by
  simp [setTag, mem_nodes_addNode]

@[simp] theorem edges_setTag (g : Graph ν π) (n : ν) (t : Tag) (b : Bool) (p : Option π) :
    (g.setTag n t b p).edges = g.edges := by simp [setTag]

theorem tag_setTag (g : Graph ν π) (n m : ν) (t t' : Tag) (b : Bool) (p : Option π) :
    (g.setTag n t b p).tag m t' = if m = n ∧ t' = t then some b else g.tag m t' := by
  have hmem : n ∈ (g.addNode n p).nodes := (mem_nodes_addNode g n n p).mpr (Or.inr rfl)
  by_cases h : m = n ∧ t' = t
  · obtain ⟨rfl, rfl⟩ := h
    simp [setTag, tag, hasNode, hmem]
  · rw [if_neg h]
    have := tag_addNode g n m p t'
    simp only [tag, hasNode, setTag] at this ⊢
    simp only [h, if_false]
    exact this

@[simp] theorem nodes_setTags (g : Graph ν π) (ns : List ν) (t : Tag) (b : Bool) :
    (g.setTags ns t b).nodes = g.nodes := rfl

@[simp] theorem edges_setTags (g : Graph ν π) (ns : List ν) (t : Tag) (b : Bool) :
    (g.setTags ns t b).edges = g.edges := rfl

theorem tag_setTags (g : Graph ν π) (ns : List ν) (m : ν) (t t' : Tag) (b : Bool) :
    (g.setTags ns t b).tag m t' = if m ∈ ns ∧ m ∈ g.nodes ∧ t' = t then some b else g.tag m t' := by
  by_cases hm : m ∈ g.nodes
  · by_cases h : m ∈ ns ∧ t' = t
    · simp [setTags, tag, hasNode, hm, h.1, h.2]
    · have : ¬(m ∈ ns ∧ m ∈ g.nodes ∧ t' = t) := fun ⟨a, _, c⟩ => h ⟨a, c⟩
      rw [if_neg this]
      simp only [setTags, tag, hasNode, List.contains_iff_mem, hm, decide_true, if_true, true_and]
      rw [if_neg h]
  · have : ¬(m ∈ ns ∧ m ∈ g.nodes ∧ t' = t) := fun ⟨_, b, _⟩ => hm b
    rw [if_neg this]
    simp [setTags, tag, hasNode, hm]

/-! ### addEdge -/

theorem mem_nodes_addEdge (g : Graph ν π) (u v m : ν) (ty : EType) (i : Option Nat) (pu pv : Option π) :
    m ∈ (g.addEdge u v ty i pu pv).nodes ↔ m ∈ g.nodes ∨ m = u ∨ m = v := by
  unfold addEdge
  simp only
  split <;> simp [mem_nodes_addNode, or_assoc]

theorem mem_edges_addEdge (g : Graph ν π) (u v : ν) (e : ν × ν) (ty : EType) (i : Option Nat) (pu pv : Option π) :
    e ∈ (g.addEdge u v ty i pu pv).edges ↔ e ∈ g.edges ∨ e = (u, v) := by
  unfold addEdge
  simp only
  split
  · rename_i h
    simp only [edges_addNode]
    constructor
    · exact Or.inl
    · rintro (h' | h')
      · exact h'
      · subst h'; simpa [hasEdge] using h
  · simp

@[simp] theorem tag_addEdge (g : Graph ν π) (u v m : ν) (ty : EType) (i : Option Nat) (pu pv : Option π) (t : Tag) :
    (g.addEdge u v ty i pu pv).tag m t = g.tag m t := by
  have h : ((g.addNode u pu).addNode v pv).tag m t = g.tag m t := by
    rw [tag_addNode, tag_addNode]
  unfold addEdge
  simp only
  split <;> (simp only [tag, hasNode] at h ⊢; exact h)

/-! ### compose -/

theorem mem_nodes_compose (g h : Graph ν π) (n : ν) :
    n ∈ (g.compose h).nodes ↔ n ∈ g.nodes ∨ n ∈ h.nodes := by
  simp only [compose, List.mem_append, List.mem_filter]
  constructor
  · rintro (a | ⟨a, _⟩)
    · exact Or.inl a
    · exact Or.inr a
  · rintro (a | a)
    · exact Or.inl a
    · by_cases hg : n ∈ g.nodes
      · exact Or.inl hg
      · exact Or.inr ⟨a, by simp [hasNode, hg]⟩

theorem mem_edges_compose (g h : Graph ν π) (e : ν × ν) :
    e ∈ (g.compose h).edges ↔ e ∈ g.edges ∨ e ∈ h.edges := by
  simp only [compose, List.mem_append, List.mem_filter]
  constructor
  · rintro (a | ⟨a, _⟩)
    · exact Or.inl a
    · exact Or.inr a
  · rintro (a | a)
    · exact Or.inl a
    · by_cases hg : e ∈ g.edges
      · exact Or.inl hg
      · exact Or.inr ⟨a, by simp [hasEdge, hg]⟩

theorem tag_compose (g h : Graph ν π) (n : ν) (t : Tag) :
    (g.compose h).tag n t = match h.tag n t with | some b => some b | none => g.tag n t := by
  by_cases hn : n ∈ (g.compose h).nodes
  · rw [tag_of_mem _ _ _ hn]; rfl
  · rw [tag_of_not_mem _ _ _ hn]
    rw [mem_nodes_compose] at hn
    have h1 : n ∉ g.nodes := fun a => hn (Or.inl a)
    have h2 : n ∉ h.nodes := fun a => hn (Or.inr a)
    simp [tag_of_not_mem _ _ _ h1, tag_of_not_mem _ _ _ h2]

/-! ### removeNode -/

theorem mem_nodes_removeNode (g : Graph ν π) (n m : ν) :
    m ∈ (g.removeNode n).nodes ↔ m ∈ g.nodes ∧ m ≠ n := by
  simp [removeNode]

theorem mem_edges_removeNode (g : Graph ν π) (n : ν) (e : ν × ν) :
    e ∈ (g.removeNode n).edges ↔ e ∈ g.edges ∧ e.1 ≠ n ∧ e.2 ≠ n := by
  simp [removeNode]

theorem tag_removeNode_ne (g : Graph ν π) (n m : ν) (t : Tag) (h : m ≠ n) :
    (g.removeNode n).tag m t = g.tag m t := by
  simp [tag, hasNode, removeNode, h]

theorem tag_removeNode_self (g : Graph ν π) (n : ν) (t : Tag) : (g.removeNode n).tag n t = none := by
  simp [tag, hasNode, removeNode]

/-! ### degrees -/

theorem mem_outEdges (g : Graph ν π) (u v : ν) : v ∈ g.outEdges u ↔ (u, v) ∈ g.edges := by
  simp only [outEdges, List.mem_map, List.mem_filter, decide_eq_true_eq]
  constructor
  · rintro ⟨⟨a, b⟩, ⟨hmem, ha⟩, hb⟩
    simp only at ha hb; subst ha; subst hb; exact hmem
  · intro h; exact ⟨(u, v), ⟨h, rfl⟩, rfl⟩

theorem mem_inEdges (g : Graph ν π) (u v : ν) : u ∈ g.inEdges v ↔ (u, v) ∈ g.edges := by
  simp only [inEdges, List.mem_map, List.mem_filter, decide_eq_true_eq]
  constructor
  · rintro ⟨⟨a, b⟩, ⟨hmem, ha⟩, hb⟩
    simp only at ha hb; subst ha; subst hb; exact hmem
  · intro h; exact ⟨(u, v), ⟨h, rfl⟩, rfl⟩

theorem outDeg_pos_iff (g : Graph ν π) (u : ν) : 0 < g.outDeg u ↔ ∃ v, (u, v) ∈ g.edges := by
  simp only [outDeg, List.length_pos_iff_exists_mem, mem_outEdges]

theorem inDeg_pos_iff (g : Graph ν π) (v : ν) : 0 < g.inDeg v ↔ ∃ u, (u, v) ∈ g.edges := by
  simp only [inDeg, List.length_pos_iff_exists_mem, mem_inEdges]

theorem outDeg_eq_zero_iff (g : Graph ν π) (u : ν) : g.outDeg u = 0 ↔ ∀ v, (u, v) ∉ g.edges := by
  have := outDeg_pos_iff g u
  constructor
  · intro h v hv; exact absurd (this.mpr ⟨v, hv⟩) (by omega)
  · intro h
    rcases Nat.eq_zero_or_pos (g.outDeg u) with h0 | h0
    · exact h0
    · obtain ⟨v, hv⟩ := this.mp h0; exact absurd hv (h v)

theorem inDeg_eq_zero_iff (g : Graph ν π) (v : ν) : g.inDeg v = 0 ↔ ∀ u, (u, v) ∉ g.edges := by
  have := inDeg_pos_iff g v
  constructor
  · intro h u hu; exact absurd (this.mpr ⟨u, hu⟩) (by omega)
  · intro h
    rcases Nat.eq_zero_or_pos (g.inDeg v) with h0 | h0
    · exact h0
    · obtain ⟨u, hu⟩ := this.mp h0; exact absurd hu (h u)

theorem degree_eq_zero_iff (g : Graph ν π) (n : ν) :
    g.degree n = 0 ↔ ∀ e ∈ g.edges, e.1 ≠ n ∧ e.2 ≠ n := by
  simp only [degree, Nat.add_eq_zero_iff, inDeg_eq_zero_iff, outDeg_eq_zero_iff]
  constructor
  · rintro ⟨hin, hout⟩ ⟨a, b⟩ he
    refine ⟨?_, ?_⟩
    · rintro rfl; exact hout b he
    · rintro rfl; exact hin a he
  · intro h
    exact ⟨fun u hu => (h (u, n) hu).2 rfl, fun v hv => (h (n, v) hv).1 rfl⟩

/-! ### subgraph -/

omit [DecidableEq ν] in
theorem mem_nodes_subgraph (g : Graph ν π) (keep : ν → Bool) (n : ν) :
    n ∈ (g.subgraph keep).nodes ↔ n ∈ g.nodes ∧ keep n = true := by
  simp [subgraph]

omit [DecidableEq ν] in
theorem mem_edges_subgraph (g : Graph ν π) (keep : ν → Bool) (e : ν × ν) :
    e ∈ (g.subgraph keep).edges ↔ e ∈ g.edges ∧ keep e.1 = true ∧ keep e.2 = true := by
  simp [subgraph]

theorem mem_selfloopNodes (g : Graph ν π) (n : ν) :
    n ∈ g.selfloopNodes ↔ n ∈ g.nodes ∧ (n, n) ∈ g.edges := by
  simp [selfloopNodes]

/-! ### folds -/

theorem mem_nodes_foldl_addEdge (es : List (ν × ν)) (g : Graph ν π) (ty : EType) (m : ν) :
    m ∈ (es.foldl (fun g e => g.addEdge e.1 e.2 ty) g).nodes ↔
      m ∈ g.nodes ∨ ∃ e ∈ es, m = e.1 ∨ m = e.2 := by
  induction es generalizing g with
  | nil => simp
  | cons e r ih =>
    simp only [List.foldl_cons, ih, mem_nodes_addEdge, List.mem_cons, exists_eq_or_imp]
    constructor
    · rintro ((a | a | a) | a)
      · exact Or.inl a
      · exact Or.inr (Or.inl (Or.inl a))
      · exact Or.inr (Or.inl (Or.inr a))
      · exact Or.inr (Or.inr a)
    · rintro (a | (a | a) | a)
      · exact Or.inl (Or.inl a)
      · exact Or.inl (Or.inr (Or.inl a))
      · exact Or.inl (Or.inr (Or.inr a))
      · exact Or.inr a

theorem mem_edges_foldl_addEdge (es : List (ν × ν)) (g : Graph ν π) (ty : EType) (x : ν × ν) :
    x ∈ (es.foldl (fun g e => g.addEdge e.1 e.2 ty) g).edges ↔ x ∈ g.edges ∨ x ∈ es := by
  induction es generalizing g with
  | nil => simp
  | cons e r ih =>
    simp only [List.foldl_cons, ih, mem_edges_addEdge, List.mem_cons]
    constructor
    · rintro ((a | a) | a)
      · exact Or.inl a
      · exact Or.inr (Or.inl a)
      · exact Or.inr (Or.inr a)
    · rintro (a | a | a)
      · exact Or.inl (Or.inl a)
      · exact Or.inl (Or.inr a)
      · exact Or.inr a

theorem tag_foldl_addEdge (es : List (ν × ν)) (g : Graph ν π) (ty : EType) (m : ν) (t : Tag) :
    (es.foldl (fun g e => g.addEdge e.1 e.2 ty) g).tag m t = g.tag m t := by
  induction es generalizing g with
  | nil => rfl
  | cons e r ih => simp only [List.foldl_cons, ih, tag_addEdge]

end SqlLineage.Graph

namespace SqlLineage.Graph
variable {ν π : Type} [DecidableEq ν]

/-! ### edge types -/

@[simp] theorem etype_addNode (g : Graph ν π) (n : ν) (p : Option π) : (g.addNode n p).etype = g.etype := by
  unfold addNode; split <;> rfl

@[simp] theorem eidx_addNode (g : Graph ν π) (n : ν) (p : Option π) : (g.addNode n p).eidx = g.eidx := by
  unfold addNode; split <;> rfl

@[simp] theorem ety_addNode (g : Graph ν π) (n a b : ν) (p : Option π) : (g.addNode n p).ety a b = g.ety a b := by
  unfold addNode; split <;> rfl

@[simp] theorem ety_setTag (g : Graph ν π) (n a b : ν) (t : Tag) (x : Bool) (p : Option π) :
    (g.setTag n t x p).ety a b = g.ety a b := by
  have := ety_addNode g n a b p
  simp only [ety, hasEdge, setTag] at this ⊢
  exact this

theorem ety_addEdge (g : Graph ν π) (u v a b : ν) (ty : EType) (i : Option Nat) (pu pv : Option π) :
    (g.addEdge u v ty i pu pv).ety a b = if a = u ∧ b = v then some ty else g.ety a b := by
  have hmem := mem_edges_addEdge g u v (a, b) ty i pu pv
  by_cases h : a = u ∧ b = v
  · obtain ⟨rfl, rfl⟩ := h
    have : (a, b) ∈ (g.addEdge a b ty i pu pv).edges := hmem.mpr (Or.inr rfl)
    simp only [ety, hasEdge, List.contains_iff_mem, this, decide_true, if_true, and_self]
    unfold addEdge; simp only; split <;> simp
  · rw [if_neg h]
    have hne : (a, b) ≠ (u, v) := by
      intro hh; exact h (by simpa using hh)
    have hiff : (a, b) ∈ (g.addEdge u v ty i pu pv).edges ↔ (a, b) ∈ g.edges := by
      rw [hmem]; constructor
      · rintro (x | x); exact x; exact absurd x hne
      · exact Or.inl
    simp only [ety, hasEdge, List.contains_iff_mem]
    by_cases he : (a, b) ∈ g.edges
    · simp only [hiff.mpr he, he, decide_true, if_true]
      unfold addEdge; simp only; split <;> simp [h]
    · simp [he, mt hiff.mp he]

theorem mem_edgesOrdered (g : Graph ν π) (e : ν × ν) : e ∈ g.edgesOrdered → e ∈ g.edges := by
  simp only [edgesOrdered, List.mem_flatMap, List.mem_map]
  rintro ⟨u, _, v, hv, rfl⟩
  exact (mem_outEdges g u v).mp hv

theorem mem_edgesOrdered_iff (g : Graph ν π) (e : ν × ν) : e ∈ g.edgesOrdered ↔ e ∈ g.edges ∧ e.1 ∈ g.nodes := by
  simp only [edgesOrdered, List.mem_flatMap, List.mem_map]
  constructor
  · rintro ⟨u, hu, v, hv, rfl⟩
    exact ⟨(mem_outEdges g u v).mp hv, hu⟩
  · rintro ⟨he, hn⟩
    exact ⟨e.1, hn, e.2, (mem_outEdges g e.1 e.2).mpr he, rfl⟩

end SqlLineage.Graph

namespace SqlLineage.Graph
variable {ν π : Type} [DecidableEq ν]

/-! ### relabel (single pair) -/

/-- the renaming map of `relabel old new` -/
def rmap (old new : ν) (n : ν) : ν := if n = old then new else n

theorem mem_nodes_relabel (g : Graph ν π) (old new x : ν) (p : Option π) :
    x ∈ (g.relabel old new p).nodes ↔ ∃ n ∈ g.nodes, rmap old new n = x := by
  simp only [relabel, List.mem_eraseDups, List.mem_map, rmap]

theorem mem_edges_relabel (g : Graph ν π) (old new : ν) (e : ν × ν) (p : Option π) :
    e ∈ (g.relabel old new p).edges ↔ ∃ a b, (a, b) ∈ g.edgesOrdered ∧ e = (rmap old new a, rmap old new b) := by
  simp only [relabel, List.mem_eraseDups, List.mem_map, rmap]
  constructor
  · rintro ⟨⟨a, b⟩, h, rfl⟩; exact ⟨a, b, h, rfl⟩
  · rintro ⟨a, b, h, rfl⟩; exact ⟨(a, b), h, rfl⟩

/-- after `relabel old new` with `old ≠ new` the old node is gone -/
theorem old_not_mem_relabel (g : Graph ν π) (old new : ν) (p : Option π) (h : old ≠ new) :
    old ∉ (g.relabel old new p).nodes := by
  rw [mem_nodes_relabel]
  rintro ⟨n, _, hn⟩
  simp only [rmap] at hn
  by_cases hno : n = old
  · rw [if_pos hno] at hn; exact h hn.symm
  · rw [if_neg hno] at hn; exact hno hn

theorem mem_nodes_removeEdge (g g' : Graph ν π) (u v : ν) (h : g.removeEdge? u v = some g') (n : ν) :
    n ∈ g'.nodes ↔ n ∈ g.nodes := by
  unfold removeEdge? at h
  split at h
  · cases h; rfl
  · cases h

theorem mem_edges_removeEdge (g g' : Graph ν π) (u v : ν) (h : g.removeEdge? u v = some g') (e : ν × ν) :
    e ∈ g'.edges ↔ e ∈ g.edges ∧ e ≠ (u, v) := by
  unfold removeEdge? at h
  split at h
  · cases h; simp
  · cases h

theorem removeEdge_isSome (g : Graph ν π) (u v : ν) : (g.removeEdge? u v).isSome ↔ (u, v) ∈ g.edges := by
  unfold removeEdge?
  split
  · rename_i h; simpa using h
  · rename_i h; simpa using h

end SqlLineage.Graph
