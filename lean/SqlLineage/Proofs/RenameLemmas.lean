/-
Lemma library for C08 (renaming of statement‑local names, `Model/Rename.lean`): how the renaming engine commutes with the
table specification (`Spec.rd*`), with the CTE‑name collection (`Spec.cteNames*`), with the structural counters behind the
deviation classes (`nSub`, `nDirect`, `chainFinds`, …) and with the deviation classes themselves (`Spec.dev*`).  All are
mutual structural recursions over the typed AST, one theorem per function of the family they talk about.
The property theorems that use them are in `Props/C08.lean`.
-/
import SqlLineage.Model.Rename
import SqlLineage.Model.Stmt
import SqlLineage.Spec.Tables

namespace SqlLineage.Proofs.Rename
open SqlLineage Ast SqlLineage.Rename Spec

/-! ### helper lemmas -/

/-- no table's bare name is among the names `N` -/
def Ok (N : List String) (l : Names) : Prop := ∀ x ∈ l, x.1 = Kind.bare → x.2 ∉ N

theorem Ok_nil (N : List String) : Ok N [] := by intro x hx; cases hx

theorem Ok_append {N : List String} {a b : Names} : Ok N (a ++ b) ↔ Ok N a ∧ Ok N b := by
  unfold Ok
  constructor
  · intro h
    exact ⟨fun x hx => h x (List.mem_append_left _ hx), fun x hx => h x (List.mem_append_right _ hx)⟩
  · rintro ⟨h1, h2⟩ x hx
    rcases List.mem_append.mp hx with hx | hx
    · exact h1 x hx
    · exact h2 x hx

theorem Ok_cons {N : List String} {x : Kind × String} {b : Names} : Ok N (x :: b) ↔ (x.1 = Kind.bare → x.2 ∉ N) ∧ Ok N b := by
  unfold Ok
  constructor
  · intro h
    exact ⟨h x (List.mem_cons_self ..), fun y hy => h y (List.mem_cons_of_mem _ hy)⟩
  · rintro ⟨h1, h2⟩ y hy
    rcases List.mem_cons.mp hy with rfl | hy
    · exact h1
    · exact h2 y hy

theorem lookup_mem {ρ : Subst} {k v : String} (h : ρ.lookup k = some v) : (k, v) ∈ ρ := by
  induction ρ with
  | nil => simp [List.lookup] at h
  | cons p r ih =>
    obtain ⟨a, b⟩ := p
    simp only [List.lookup] at h
    split at h
    · next heq =>
      have : k = a := by simpa using heq
      cases h; subst this; exact List.mem_cons_self ..
    · exact List.mem_cons_of_mem _ (ih h)

theorem lookup_news {ρ : Subst} {k v : String} (h : ρ.lookup k = some v) : norm v ∈ news ρ := by
  unfold news
  exact List.mem_map.mpr ⟨(k, v), lookup_mem h, rfl⟩

theorem norm_app (ρ : Subst) (n : String) : norm (app ρ n) = appN ρ (norm n) := by
  unfold app appN
  cases ρ.lookup (norm n) <;> rfl

/-- a name that is not a new name and not visible stays invisible after renaming the scope -/
theorem not_vis_after (ρ : Subst) (cte : List String) (k : String) (hk : k ∉ cte) (hn : k ∉ news ρ) :
    k ∉ cte.map (appN ρ) := by
  intro hm
  obtain ⟨c, hc, he⟩ := List.mem_map.mp hm
  unfold appN at he
  cases hl : ρ.lookup c with
  | none => rw [hl] at he; simp only at he; subst he; exact hk hc
  | some v => rw [hl] at he; simp only at he; subst he; exact hn (lookup_news hl)

theorem lastOf_single (n : String) : lastOf [n] = n := by simp [lastOf]

/-- the table case: a reference resolved to a visible CTE follows the CTE's new name, any other reference is untouched and
    is not captured -/
theorem rd_table (env : Walk.Env) (c : Cfg) (cte : List String) (parts : List String) (alias a' : Option String)
    (asKw k' : Bool) (h : Ok (news c.ρ) (nmElem (.table parts alias asKw))) :
    rdElem env (cte.map (appN c.ρ)) (.table (renParts c cte parts) a' k') = rdElem env cte (.table parts alias asKw) := by
  match parts with
  | [] => simp [renParts, rdElem]
  | [n] =>
    have hb : norm n ∉ news c.ρ := by
      have := h (Kind.bare, norm (lastOf [n])) (by simp [nmElem]) rfl
      simpa [lastOf_single] using this
    by_cases hv : cte.contains (norm n) = true
    · have hm : norm n ∈ cte := List.contains_iff_mem.mp hv
      have hm' : appN c.ρ (norm n) ∈ cte.map (appN c.ρ) := List.mem_map_of_mem hm
      have h1 : (cte.map (appN c.ρ)).contains (Ident.escapeS (app c.ρ n)) = true := by
        apply List.contains_iff_mem.mpr
        have := norm_app c.ρ n
        unfold norm at this
        rw [this]; exact hm'
      have hv' : cte.contains (Ident.escapeS n) = true := hv
      have e1 : renParts c cte [n] = [app c.ρ n] := by
        show (if cte.contains (norm n) then [app c.ρ n] else [n]) = _
        rw [if_pos hv]
      have e2 : rdElem env (cte.map (appN c.ρ)) (.table [app c.ρ n] a' k') = [] := by
        show (if (cte.map (appN c.ρ)).contains (Ident.escapeS (app c.ρ n)) then [] else _) = _
        rw [if_pos h1]
      have e3 : rdElem env cte (.table [n] alias asKw) = [] := by
        show (if cte.contains (Ident.escapeS n) then [] else _) = _
        rw [if_pos hv']
      rw [e1, e2, e3]
    · have hv0 : cte.contains (norm n) = false := by simpa using hv
      have hm : norm n ∉ cte := fun hm => hv (List.contains_iff_mem.mpr hm)
      have hn := not_vis_after c.ρ cte (norm n) hm hb
      have h1 : ¬ ((cte.map (appN c.ρ)).contains (Ident.escapeS n) = true) :=
        fun hc => hn (List.contains_iff_mem.mp hc)
      have hv' : ¬ (cte.contains (Ident.escapeS n) = true) := hv
      have e1 : renParts c cte [n] = [n] := by
        show (if cte.contains (norm n) then [app c.ρ n] else [n]) = _
        rw [if_neg hv]
      have e2 : rdElem env (cte.map (appN c.ρ)) (.table [n] a' k') = [tableName env [n]] := by
        show (if (cte.map (appN c.ρ)).contains (Ident.escapeS n) then [] else _) = _
        rw [if_neg h1]
      have e3 : rdElem env cte (.table [n] alias asKw) = [tableName env [n]] := by
        show (if cte.contains (Ident.escapeS n) then [] else _) = _
        rw [if_neg hv']
      rw [e1, e2, e3]
  | a :: b :: r => simp [renParts, rdElem]

/-! ### table lineage by the specification is invariant (all statements) -/

mutual
theorem rd_expr (env : Walk.Env) (c : Cfg) (cte : List String) (σ : QEnv) :
    (e : Expr) → Ok (news c.ρ) (nmExpr e) → rdExpr env (cte.map (appN c.ρ)) (renExpr c cte σ e) = rdExpr env cte e
  | .col _ _, _ => by simp [renExpr, rdExpr]
  | .star _, _ => by simp [renExpr, rdExpr]
  | .lit _, _ => by simp [renExpr, rdExpr]
  | .func _ _ args none, h => by
    simp only [nmExpr, List.append_nil] at h
    simp only [renExpr, rdExpr, rd_exprs env c cte σ args h]
  | .func _ _ args (some (.mk p o)), h => by
    simp only [nmExpr, Ok_append] at h
    simp only [renExpr, rdExpr, rd_exprs env c cte σ args h.1, rd_exprs env c cte σ p h.2.1, rd_exprs env c cte σ o h.2.2]
  | .cast e _, h => by
    simp only [nmExpr] at h
    simp only [renExpr, rdExpr, rd_expr env c cte σ e h]
  | .case ws none, h => by
    simp only [nmExpr, List.append_nil] at h
    simp only [renExpr, rdExpr, rd_whens env c cte σ ws h]
  | .case ws (some e), h => by
    simp only [nmExpr, Ok_append] at h
    simp only [renExpr, rdExpr, rd_whens env c cte σ ws h.1, rd_expr env c cte σ e h.2]
  | .bin _ a b, h => by
    simp only [nmExpr, Ok_append] at h
    simp only [renExpr, rdExpr, rd_expr env c cte σ a h.1, rd_expr env c cte σ b h.2]
  | .paren e, h => by
    simp only [nmExpr] at h
    simp only [renExpr, rdExpr, rd_expr env c cte σ e h]
  | .subq q, h => by
    simp only [nmExpr] at h
    simp only [renExpr, rdExpr, rd_query env c cte σ q h]
  | .inSubq e _ q, h => by
    simp only [nmExpr, Ok_append] at h
    simp only [renExpr, rdExpr, rd_expr env c cte σ e h.1, rd_query env c cte σ q h.2]
  | .exist _ q, h => by
    simp only [nmExpr] at h
    simp only [renExpr, rdExpr, rd_query env c cte σ q h]
theorem rd_exprs (env : Walk.Env) (c : Cfg) (cte : List String) (σ : QEnv) :
    (l : List Expr) → Ok (news c.ρ) (nmExprs l) → rdExprs env (cte.map (appN c.ρ)) (renExprs c cte σ l) = rdExprs env cte l
  | [], _ => by simp [renExprs, rdExprs]
  | e :: r, h => by
    simp only [nmExprs, Ok_append] at h
    simp only [renExprs, rdExprs, rd_expr env c cte σ e h.1, rd_exprs env c cte σ r h.2]
theorem rd_opt (env : Walk.Env) (c : Cfg) (cte : List String) (σ : QEnv) :
    (o : Option Expr) → Ok (news c.ρ) (nmOpt o) → rdOpt env (cte.map (appN c.ρ)) (renOpt c cte σ o) = rdOpt env cte o
  | none, _ => by simp [renOpt, rdOpt]
  | some e, h => by
    simp only [nmOpt] at h
    simp only [renOpt, rdOpt, rd_expr env c cte σ e h]
theorem rd_whens (env : Walk.Env) (c : Cfg) (cte : List String) (σ : QEnv) :
    (l : List When) → Ok (news c.ρ) (nmWhens l) → rdWhens env (cte.map (appN c.ρ)) (renWhens c cte σ l) = rdWhens env cte l
  | [], _ => by simp [renWhens, rdWhens]
  | .mk cnd r :: rest, h => by
    simp only [nmWhens, Ok_append] at h
    simp only [renWhens, rdWhens, rd_expr env c cte σ cnd h.1.1, rd_expr env c cte σ r h.1.2, rd_whens env c cte σ rest h.2]
theorem rd_items (env : Walk.Env) (c : Cfg) (cte : List String) (σ : QEnv) :
    (l : List Item) → Ok (news c.ρ) (nmItems l) → rdItems env (cte.map (appN c.ρ)) (renItems c cte σ l) = rdItems env cte l
  | [], _ => by simp [renItems, rdItems]
  | .mk e _ _ :: r, h => by
    simp only [nmItems, Ok_append] at h
    simp only [renItems, rdItems, rd_expr env c cte σ e h.1, rd_items env c cte σ r h.2]
theorem rd_query (env : Walk.Env) (c : Cfg) (cte : List String) (σ : QEnv) :
    (q : Query) → Ok (news c.ρ) (nmQuery q) → rdQuery env (cte.map (appN c.ρ)) (renQuery c cte σ q) = rdQuery env cte q
  | .select _ its frm wh grp hav, h => by
    simp only [nmQuery, Ok_append] at h
    simp only [renQuery, rdQuery, rd_items env c cte _ its h.1.1.1.2, rd_fromExprs env c cte σ _ frm h.1.1.1.1,
      rd_opt env c cte _ wh h.1.1.2, rd_exprs env c cte _ grp h.1.2, rd_opt env c cte _ hav h.2]
  | .setop first rest, h => by
    simp only [nmQuery, Ok_append] at h
    simp only [renQuery, rdQuery, rd_branch env c cte σ first h.1, rd_opBranches env c cte σ rest h.2]
  | .withq cs body, h => by
    simp only [nmQuery, Ok_append] at h
    have hc := rd_ctes env c cte σ cs h.1
    simp only [renQuery, rdQuery]
    rw [hc.1, hc.2.1, hc.2.2, rd_query env c _ σ body h.2]
theorem rd_branch (env : Walk.Env) (c : Cfg) (cte : List String) (σ : QEnv) :
    (b : Branch) → Ok (news c.ρ) (nmBranch b) → rdBranch env (cte.map (appN c.ρ)) (renBranch c cte σ b) = rdBranch env cte b
  | .mk q _, h => by
    simp only [nmBranch] at h
    simp only [renBranch, rdBranch, rd_query env c cte σ q h]
theorem rd_opBranches (env : Walk.Env) (c : Cfg) (cte : List String) (σ : QEnv) :
    (l : List OpBranch) → Ok (news c.ρ) (nmOpBranches l) →
      rdOpBranches env (cte.map (appN c.ρ)) (renOpBranches c cte σ l) = rdOpBranches env cte l
  | [], _ => by simp [renOpBranches, rdOpBranches]
  | .mk _ b :: r, h => by
    simp only [nmOpBranches, Ok_append] at h
    simp only [renOpBranches, rdOpBranches, rd_branch env c cte σ b h.1, rd_opBranches env c cte σ r h.2]
/-- CTE scoping commutes with renaming: the reads of the bodies are unchanged, the scope handed to the body is the renamed
    scope, and the engine tracks the same (original) scope as the specification -/
theorem rd_ctes (env : Walk.Env) (c : Cfg) (cte : List String) (σ : QEnv) :
    (l : List Cte) → Ok (news c.ρ) (nmCtes l) →
      (rdCtes env (cte.map (appN c.ρ)) (renCtes c cte σ l).1).1 = (rdCtes env cte l).1 ∧
      (rdCtes env (cte.map (appN c.ρ)) (renCtes c cte σ l).1).2 = ((renCtes c cte σ l).2).map (appN c.ρ) ∧
      (rdCtes env cte l).2 = (renCtes c cte σ l).2
  | [], _ => by simp [renCtes, rdCtes]
  | .mk name q :: r, h => by
    simp only [nmCtes, Ok_cons, Ok_append] at h
    have ih := rd_ctes env c (cte ++ [norm name]) σ r h.2
    have hq := rd_query env c cte σ q h.1.2
    have hn : Ident.escapeS (app c.ρ name) = appN c.ρ (norm name) := norm_app c.ρ name
    have hs : cte.map (appN c.ρ) ++ [Ident.escapeS (app c.ρ name)] = (cte ++ [norm name]).map (appN c.ρ) := by
      rw [hn]; simp
    have hs' : cte ++ [Ident.escapeS name] = cte ++ [norm name] := rfl
    simp only [renCtes, rdCtes, hs, hs', hq, ih.1, ih.2.1, ih.2.2, and_self]
theorem rd_elem (env : Walk.Env) (c : Cfg) (cte : List String) (σ : QEnv) :
    (e : FromElem) → Ok (news c.ρ) (nmElem e) → rdElem env (cte.map (appN c.ρ)) (renElem c cte σ e) = rdElem env cte e
  | .table parts alias asKw, h => by
    simp only [renElem]
    exact rd_table env c cte parts alias _ asKw _ h
  | .derived q alias _, h => by
    simp only [nmElem, Ok_append] at h
    simp only [renElem, rdElem, rd_query env c cte σ q h.2]
theorem rd_joins (env : Walk.Env) (c : Cfg) (cte : List String) (σ σb : QEnv) :
    (l : List Join) → Ok (news c.ρ) (nmJoins l) → rdJoins env (cte.map (appN c.ρ)) (renJoins c cte σ σb l) = rdJoins env cte l
  | [], _ => by simp [renJoins, rdJoins]
  | .mk _ e on _ :: r, h => by
    simp only [nmJoins, Ok_append] at h
    simp only [renJoins, rdJoins, rd_elem env c cte σ e h.1.1, rd_opt env c cte σb on h.1.2, rd_joins env c cte σ σb r h.2]
theorem rd_fromExpr (env : Walk.Env) (c : Cfg) (cte : List String) (σ σb : QEnv) :
    (f : FromExpr) → Ok (news c.ρ) (nmFromExpr f) →
      rdFromExpr env (cte.map (appN c.ρ)) (renFromExpr c cte σ σb f) = rdFromExpr env cte f
  | .mk base js, h => by
    simp only [nmFromExpr, Ok_append] at h
    simp only [renFromExpr, rdFromExpr, rd_elem env c cte σ base h.1, rd_joins env c cte σ σb js h.2]
theorem rd_fromExprs (env : Walk.Env) (c : Cfg) (cte : List String) (σ σb : QEnv) :
    (l : List FromExpr) → Ok (news c.ρ) (nmFromExprs l) →
      rdFromExprs env (cte.map (appN c.ρ)) (renFromExprs c cte σ σb l) = rdFromExprs env cte l
  | [], _ => by simp [renFromExprs, rdFromExprs]
  | f :: r, h => by
    simp only [nmFromExprs, Ok_append] at h
    simp only [renFromExprs, rdFromExprs, rd_fromExpr env c cte σ σb f h.1, rd_fromExprs env c cte σ σb r h.2]
end

/-! ### the fragment `Frag01` is invariant: `Spec.deviations` -/

mutual
theorem nSub_ren (c : Cfg) (vis : List String) (σ : QEnv) : (e : Expr) → nSub (renExpr c vis σ e) = nSub e
  | .col _ _ => by simp [renExpr, nSub]
  | .star _ => by simp [renExpr, nSub]
  | .lit _ => by simp [renExpr, nSub]
  | .func _ _ args none => by simp only [renExpr, nSub, nSubL_ren c vis σ args]
  | .func _ _ args (some (.mk p o)) => by
    simp only [renExpr, nSub, nSubL_ren c vis σ args, nSubL_ren c vis σ p, nSubL_ren c vis σ o]
  | .cast e _ => by simp only [renExpr, nSub, nSub_ren c vis σ e]
  | .case ws none => by simp only [renExpr, nSub, nSubW_ren c vis σ ws]
  | .case ws (some e) => by simp only [renExpr, nSub, nSubW_ren c vis σ ws, nSub_ren c vis σ e]
  | .bin _ a b => by simp only [renExpr, nSub, nSub_ren c vis σ a, nSub_ren c vis σ b]
  | .paren e => by simp only [renExpr, nSub, nSub_ren c vis σ e]
  | .subq _ => by simp [renExpr, nSub]
  | .inSubq e _ _ => by simp only [renExpr, nSub, nSub_ren c vis σ e]
  | .exist _ _ => by simp [renExpr, nSub]
theorem nSubL_ren (c : Cfg) (vis : List String) (σ : QEnv) : (l : List Expr) → nSubL (renExprs c vis σ l) = nSubL l
  | [] => by simp [renExprs, nSubL]
  | e :: r => by simp only [renExprs, nSubL, nSub_ren c vis σ e, nSubL_ren c vis σ r]
theorem nSubW_ren (c : Cfg) (vis : List String) (σ : QEnv) : (l : List When) → nSubW (renWhens c vis σ l) = nSubW l
  | [] => by simp [renWhens, nSubW]
  | .mk cnd r :: rest => by
    simp only [renWhens, nSubW, nSub_ren c vis σ cnd, nSub_ren c vis σ r, nSubW_ren c vis σ rest]
end

theorem nDirect_ren (c : Cfg) (vis : List String) (σ : QEnv) : (e : Expr) → nDirect (renExpr c vis σ e) = nDirect e
  | .bin _ a b => by simp only [renExpr, nDirect, nDirect_ren c vis σ a, nDirect_ren c vis σ b]
  | .col _ _ | .star _ | .lit _ | .func _ _ _ none | .func _ _ _ (some (.mk _ _)) | .cast _ _ | .case _ none
  | .case _ (some _) | .paren _ | .subq _ | .inSubq _ _ _ | .exist _ _ => by simp [renExpr, nDirect]

theorem chainFinds_ren (c : Cfg) (vis : List String) (σ : QEnv) : (e : Expr) → chainFinds (renExpr c vis σ e) = chainFinds e
  | .bin _ a b => by
    simp only [renExpr, chainFinds, chainFinds_ren c vis σ a, chainFinds_ren c vis σ b, nSub_ren c vis σ a]
  | .paren e => by simp only [renExpr, chainFinds, chainFinds_ren c vis σ e]
  | .inSubq e _ _ => by simp only [renExpr, chainFinds, nSub_ren c vis σ e]
  | .col _ _ | .star _ | .lit _ | .func _ _ _ none | .func _ _ _ (some (.mk _ _)) | .cast _ _ | .case _ none
  | .case _ (some _) | .subq _ | .exist _ _ => by simp [renExpr, chainFinds]

theorem nDirectWhere_ren (c : Cfg) (vis : List String) (σ : QEnv) :
    (e : Expr) → nDirectWhere (renExpr c vis σ e) = nDirectWhere e
  | .bin _ a b => by simp only [renExpr, nDirectWhere, nDirectWhere_ren c vis σ a, nDirectWhere_ren c vis σ b]
  | .paren e => by simp only [renExpr, nDirectWhere, chainFinds_ren c vis σ e]
  | .col _ _ | .star _ | .lit _ | .func _ _ _ none | .func _ _ _ (some (.mk _ _)) | .cast _ _ | .case _ none
  | .case _ (some _) | .subq _ | .inSubq _ _ _ | .exist _ _ => by simp [renExpr, nDirectWhere]

theorem firstCaseWhens_ren (c : Cfg) (vis : List String) (σ : QEnv) :
    (e : Expr) → firstCaseWhens (renExpr c vis σ e) = (firstCaseWhens e).map (renWhens c vis σ)
  | .bin _ a b => by
    simp only [renExpr, firstCaseWhens, firstCaseWhens_ren c vis σ a, firstCaseWhens_ren c vis σ b]
    cases firstCaseWhens a <;> simp
  | .case ws none => by simp [renExpr, firstCaseWhens]
  | .case ws (some _) => by simp [renExpr, firstCaseWhens]
  | .col _ _ | .star _ | .lit _ | .func _ _ _ none | .func _ _ _ (some (.mk _ _)) | .cast _ _
  | .paren _ | .subq _ | .inSubq _ _ _ | .exist _ _ => by simp [renExpr, firstCaseWhens]

theorem nWhensDirect_ren (c : Cfg) (vis : List String) (σ : QEnv) :
    (l : List When) → nWhensDirect (renWhens c vis σ l) = nWhensDirect l
  | [] => by simp [renWhens, nWhensDirect]
  | .mk cnd r :: rest => by
    simp only [renWhens, nWhensDirect, nDirect_ren c vis σ cnd, nDirect_ren c vis σ r, nWhensDirect_ren c vis σ rest]

theorem nItemFound_ren (c : Cfg) (vis : List String) (σ : QEnv) (e : Expr) :
    nItemFound (renExpr c vis σ e) = nItemFound e := by
  have hfc := firstCaseWhens_ren c vis σ e
  have hs := nSub_ren c vis σ e
  cases e with
  | func n d args over =>
    rw [show nItemFound (.func n d args over) = nSub (.func n d args over) from rfl, ← hs]
    cases over with
    | none => simp only [renExpr, nItemFound]
    | some ov => cases ov; simp only [renExpr, nItemFound]
  | cast e ty => simp only [renExpr] at hs ⊢; simp only [nItemFound, hs]
  | col _ _ => simp [renExpr, nItemFound]
  | star _ => simp [renExpr, nItemFound]
  | lit _ => simp [renExpr, nItemFound]
  | case ws els =>
    cases els <;> (simp only [renExpr] at hfc ⊢; simp only [nItemFound, hfc]; simp [firstCaseWhens, nWhensDirect_ren])
  | bin op a b =>
    simp only [renExpr] at hfc ⊢
    simp only [nItemFound, hfc]
    cases firstCaseWhens (.bin op a b) <;> simp [nWhensDirect_ren]
  | paren e => simp [renExpr, nItemFound, firstCaseWhens]
  | subq q => simp [renExpr, nItemFound, firstCaseWhens]
  | inSubq e n q => simp [renExpr, nItemFound, firstCaseWhens]
  | exist n q => simp [renExpr, nItemFound, firstCaseWhens]

/-- every CTE name of the renamed query is the renamed CTE name of the original -/
theorem esc_app (ρ : Subst) (n : String) : Ident.escapeS (app ρ n) = appN ρ (Ident.escapeS n) := norm_app ρ n

mutual
theorem cn_expr (c : Cfg) (vis : List String) (σ : QEnv) :
    (e : Expr) → cteNamesE (renExpr c vis σ e) = (cteNamesE e).map (appN c.ρ)
  | .col _ _ => by simp [renExpr, cteNamesE]
  | .star _ => by simp [renExpr, cteNamesE]
  | .lit _ => by simp [renExpr, cteNamesE]
  | .func _ _ args none => by simp only [renExpr, cteNamesE, cn_exprs c vis σ args, List.append_nil]
  | .func _ _ args (some (.mk p o)) => by
    simp only [renExpr, cteNamesE, cn_exprs c vis σ args, cn_exprs c vis σ p, cn_exprs c vis σ o, List.map_append]
  | .cast e _ => by simp only [renExpr, cteNamesE, cn_expr c vis σ e]
  | .case ws none => by simp only [renExpr, cteNamesE, cn_whens c vis σ ws, List.append_nil]
  | .case ws (some e) => by simp only [renExpr, cteNamesE, cn_whens c vis σ ws, cn_expr c vis σ e, List.map_append]
  | .bin _ a b => by simp only [renExpr, cteNamesE, cn_expr c vis σ a, cn_expr c vis σ b, List.map_append]
  | .paren e => by simp only [renExpr, cteNamesE, cn_expr c vis σ e]
  | .subq q => by simp only [renExpr, cteNamesE, cn_query c vis σ q]
  | .inSubq e _ q => by simp only [renExpr, cteNamesE, cn_expr c vis σ e, cn_query c vis σ q, List.map_append]
  | .exist _ q => by simp only [renExpr, cteNamesE, cn_query c vis σ q]
theorem cn_exprs (c : Cfg) (vis : List String) (σ : QEnv) :
    (l : List Expr) → cteNamesEs (renExprs c vis σ l) = (cteNamesEs l).map (appN c.ρ)
  | [] => by simp [renExprs, cteNamesEs]
  | e :: r => by simp only [renExprs, cteNamesEs, cn_expr c vis σ e, cn_exprs c vis σ r, List.map_append]
theorem cn_whens (c : Cfg) (vis : List String) (σ : QEnv) :
    (l : List When) → cteNamesW (renWhens c vis σ l) = (cteNamesW l).map (appN c.ρ)
  | [] => by simp [renWhens, cteNamesW]
  | .mk cnd r :: rest => by
    simp only [renWhens, cteNamesW, cn_expr c vis σ cnd, cn_expr c vis σ r, cn_whens c vis σ rest, List.map_append]
theorem cn_items (c : Cfg) (vis : List String) (σ : QEnv) :
    (l : List Item) → cteNamesI (renItems c vis σ l) = (cteNamesI l).map (appN c.ρ)
  | [] => by simp [renItems, cteNamesI]
  | .mk e _ _ :: r => by simp only [renItems, cteNamesI, cn_expr c vis σ e, cn_items c vis σ r, List.map_append]
theorem cn_query (c : Cfg) (vis : List String) (σ : QEnv) :
    (q : Query) → cteNamesQ (renQuery c vis σ q) = (cteNamesQ q).map (appN c.ρ)
  | .select _ its frm none grp none => by
    simp only [renQuery, renOpt, cteNamesQ, cn_items c vis _ its, cn_from c vis σ _ frm, cn_exprs c vis _ grp, List.map_append,
      List.map_nil]
  | .select _ its frm (some w) grp none => by
    simp only [renQuery, renOpt, cteNamesQ, cn_items c vis _ its, cn_from c vis σ _ frm, cn_exprs c vis _ grp, cn_expr c vis _ w,
      List.map_append, List.map_nil]
  | .select _ its frm none grp (some hv) => by
    simp only [renQuery, renOpt, cteNamesQ, cn_items c vis _ its, cn_from c vis σ _ frm, cn_exprs c vis _ grp, cn_expr c vis _ hv,
      List.map_append, List.map_nil]
  | .select _ its frm (some w) grp (some hv) => by
    simp only [renQuery, renOpt, cteNamesQ, cn_items c vis _ its, cn_from c vis σ _ frm, cn_exprs c vis _ grp, cn_expr c vis _ w,
      cn_expr c vis _ hv, List.map_append, List.map_nil]
  | .setop (.mk q _) rest => by
    simp only [renQuery, renBranch, cteNamesQ, cn_query c vis σ q, cn_opBranches c vis σ rest, List.map_append]
  | .withq cs body => by
    simp only [renQuery, cteNamesQ, cn_ctes c vis σ cs, cn_query c _ σ body, List.map_append]
theorem cn_opBranches (c : Cfg) (vis : List String) (σ : QEnv) :
    (l : List OpBranch) → cteNamesOB (renOpBranches c vis σ l) = (cteNamesOB l).map (appN c.ρ)
  | [] => by simp [renOpBranches, cteNamesOB]
  | .mk _ (.mk q _) :: r => by
    simp only [renOpBranches, renBranch, cteNamesOB, cn_query c vis σ q, cn_opBranches c vis σ r, List.map_append]
theorem cn_ctes (c : Cfg) (vis : List String) (σ : QEnv) :
    (l : List Cte) → cteNamesC (renCtes c vis σ l).1 = (cteNamesC l).map (appN c.ρ)
  | [] => by simp [renCtes, cteNamesC]
  | .mk name q :: r => by
    simp only [renCtes, cteNamesC, cn_query c vis σ q, cn_ctes c _ σ r, List.map_append, List.map_cons, esc_app]
theorem cn_elem (c : Cfg) (vis : List String) (σ : QEnv) :
    (e : FromElem) → cteNamesEl (renElem c vis σ e) = (cteNamesEl e).map (appN c.ρ)
  | .table _ _ _ => by simp [renElem, cteNamesEl]
  | .derived q _ _ => by simp only [renElem, cteNamesEl, cn_query c vis σ q]
theorem cn_joins (c : Cfg) (vis : List String) (σ σb : QEnv) :
    (l : List Join) → cteNamesJ (renJoins c vis σ σb l) = (cteNamesJ l).map (appN c.ρ)
  | [] => by simp [renJoins, cteNamesJ]
  | .mk _ e none _ :: r => by
    simp only [renJoins, renOpt, cteNamesJ, cn_elem c vis σ e, cn_joins c vis σ σb r, List.map_append, List.map_nil]
  | .mk _ e (some on) _ :: r => by
    simp only [renJoins, renOpt, cteNamesJ, cn_elem c vis σ e, cn_expr c vis σb on, cn_joins c vis σ σb r, List.map_append]
theorem cn_from (c : Cfg) (vis : List String) (σ σb : QEnv) :
    (l : List FromExpr) → cteNamesF (renFromExprs c vis σ σb l) = (cteNamesF l).map (appN c.ρ)
  | [] => by simp [renFromExprs, cteNamesF]
  | .mk b js :: r => by
    simp only [renFromExprs, renFromExpr, cteNamesF, cn_elem c vis σ b, cn_joins c vis σ σb js, cn_from c vis σ σb r,
      List.map_append]
end

def NoD5 (l : List String) : Prop := "D5" ∉ l

theorem NoD5_append {a b : List String} : NoD5 (a ++ b) ↔ NoD5 a ∧ NoD5 b := by
  unfold NoD5; simp [List.mem_append, not_or]

/-- the table case of the deviation classes (only D5 looks at names) -/
theorem dev_table (c : Cfg) (vis all : List String) (parts : List String) (alias a' : Option String) (asKw k' : Bool)
    (h : Ok (news c.ρ) (nmElem (.table parts alias asKw))) (hd : NoD5 (devElem vis all (.table parts alias asKw))) :
    devElem (vis.map (appN c.ρ)) (all.map (appN c.ρ)) (.table (renParts c vis parts) a' k') =
      devElem vis all (.table parts alias asKw) := by
  match parts with
  | [] => simp [renParts, devElem]
  | [n] =>
    have hb : norm n ∉ news c.ρ := by
      have := h (Kind.bare, norm (lastOf [n])) (by simp [nmElem]) rfl
      simpa [lastOf_single] using this
    -- the original reference is not in class D5
    have hcond : ¬ ((all.contains (Ident.escapeS n) && !vis.contains (Ident.escapeS n)) = true) := by
      intro hc
      apply hd
      show "D5" ∈ (if (all.contains (Ident.escapeS n) && !vis.contains (Ident.escapeS n)) = true then ["D5"] else [])
      rw [if_pos hc]; exact List.mem_cons_self ..
    have e3 : devElem vis all (.table [n] alias asKw) = [] := by
      show (if (all.contains (Ident.escapeS n) && !vis.contains (Ident.escapeS n)) = true then ["D5"] else []) = []
      rw [if_neg hcond]
    by_cases hv : vis.contains (norm n) = true
    · have hm : norm n ∈ vis := List.contains_iff_mem.mp hv
      have h1 : (vis.map (appN c.ρ)).contains (Ident.escapeS (app c.ρ n)) = true := by
        apply List.contains_iff_mem.mpr
        rw [esc_app]; exact List.mem_map_of_mem hm
      have e1 : renParts c vis [n] = [app c.ρ n] := by
        show (if vis.contains (norm n) then [app c.ρ n] else [n]) = _
        rw [if_pos hv]
      have e2 : devElem (vis.map (appN c.ρ)) (all.map (appN c.ρ)) (.table [app c.ρ n] a' k') = [] := by
        show (if ((all.map (appN c.ρ)).contains (Ident.escapeS (app c.ρ n)) &&
          !(vis.map (appN c.ρ)).contains (Ident.escapeS (app c.ρ n))) = true then ["D5"] else []) = []
        rw [h1]; simp
      rw [e1, e2, e3]
    · have hv' : vis.contains (Ident.escapeS n) = false := by
        have : ¬ (vis.contains (Ident.escapeS n) = true) := hv
        simpa using this
      have hall : all.contains (Ident.escapeS n) = false := by
        cases ha : all.contains (Ident.escapeS n) with
        | false => rfl
        | true => exact absurd (by rw [ha, hv']; rfl) hcond
      have hm : norm n ∉ all := fun hm => by
        have := List.contains_iff_mem.mpr hm
        rw [show all.contains (norm n) = all.contains (Ident.escapeS n) from rfl, hall] at this
        cases this
      have hn := not_vis_after c.ρ all (norm n) hm hb
      have h1 : (all.map (appN c.ρ)).contains (Ident.escapeS n) = false := by
        cases hc : (all.map (appN c.ρ)).contains (Ident.escapeS n) with
        | false => rfl
        | true => exact absurd (List.contains_iff_mem.mp hc) hn
      have e1 : renParts c vis [n] = [n] := by
        show (if vis.contains (norm n) then [app c.ρ n] else [n]) = _
        rw [if_neg hv]
      have e2 : devElem (vis.map (appN c.ρ)) (all.map (appN c.ρ)) (.table [n] a' k') = [] := by
        show (if ((all.map (appN c.ρ)).contains (Ident.escapeS n) &&
          !(vis.map (appN c.ρ)).contains (Ident.escapeS n)) = true then ["D5"] else []) = []
        rw [h1]; simp
      rw [e1, e2, e3]
  | a :: b :: r => simp [renParts, devElem]

mutual
theorem dev_expr (c : Cfg) (vis all : List String) (σ : QEnv) :
    (e : Expr) → Ok (news c.ρ) (nmExpr e) → NoD5 (devExpr vis all e) →
      devExpr (vis.map (appN c.ρ)) (all.map (appN c.ρ)) (renExpr c vis σ e) = devExpr vis all e
  | .col _ _, _, _ => by simp [renExpr, devExpr]
  | .star _, _, _ => by simp [renExpr, devExpr]
  | .lit _, _, _ => by simp [renExpr, devExpr]
  | .func _ _ args none, h, hd => by
    simp only [nmExpr, List.append_nil] at h
    simp only [devExpr, List.append_nil] at hd
    simp only [renExpr, devExpr, dev_exprs c vis all σ args h hd]
  | .func _ _ args (some (.mk p o)), h, hd => by
    simp only [nmExpr, Ok_append] at h
    simp only [devExpr, NoD5_append] at hd
    simp only [renExpr, devExpr, dev_exprs c vis all σ args h.1 hd.1, dev_exprs c vis all σ p h.2.1 hd.2.1,
      dev_exprs c vis all σ o h.2.2 hd.2.2]
  | .cast e _, h, hd => by
    simp only [nmExpr] at h
    simp only [devExpr] at hd
    simp only [renExpr, devExpr, dev_expr c vis all σ e h hd]
  | .case ws none, h, hd => by
    simp only [nmExpr, List.append_nil] at h
    simp only [devExpr, List.append_nil] at hd
    simp only [renExpr, devExpr, dev_whens c vis all σ ws h hd]
  | .case ws (some e), h, hd => by
    simp only [nmExpr, Ok_append] at h
    simp only [devExpr, NoD5_append] at hd
    simp only [renExpr, devExpr, dev_whens c vis all σ ws h.1 hd.1, dev_expr c vis all σ e h.2 hd.2]
  | .bin _ a b, h, hd => by
    simp only [nmExpr, Ok_append] at h
    simp only [devExpr, NoD5_append] at hd
    simp only [renExpr, devExpr, dev_expr c vis all σ a h.1 hd.1, dev_expr c vis all σ b h.2 hd.2]
  | .paren e, h, hd => by
    simp only [nmExpr] at h
    simp only [devExpr] at hd
    simp only [renExpr, devExpr, dev_expr c vis all σ e h hd]
  | .subq q, h, hd => by
    simp only [nmExpr] at h
    simp only [devExpr] at hd
    simp only [renExpr, devExpr, dev_query c vis all σ q h hd]
  | .inSubq e _ q, h, hd => by
    simp only [nmExpr, Ok_append] at h
    simp only [devExpr, NoD5_append] at hd
    simp only [renExpr, devExpr, dev_expr c vis all σ e h.1 hd.1, dev_query c vis all σ q h.2 hd.2]
  | .exist _ q, h, hd => by
    simp only [nmExpr] at h
    simp only [devExpr] at hd
    simp only [renExpr, devExpr, dev_query c vis all σ q h hd]
theorem dev_exprs (c : Cfg) (vis all : List String) (σ : QEnv) :
    (l : List Expr) → Ok (news c.ρ) (nmExprs l) → NoD5 (devExprs vis all l) →
      devExprs (vis.map (appN c.ρ)) (all.map (appN c.ρ)) (renExprs c vis σ l) = devExprs vis all l
  | [], _, _ => by simp [renExprs, devExprs]
  | e :: r, h, hd => by
    simp only [nmExprs, Ok_append] at h
    simp only [devExprs, NoD5_append] at hd
    simp only [renExprs, devExprs, dev_expr c vis all σ e h.1 hd.1, dev_exprs c vis all σ r h.2 hd.2]
theorem dev_whens (c : Cfg) (vis all : List String) (σ : QEnv) :
    (l : List When) → Ok (news c.ρ) (nmWhens l) → NoD5 (devWhens vis all l) →
      devWhens (vis.map (appN c.ρ)) (all.map (appN c.ρ)) (renWhens c vis σ l) = devWhens vis all l
  | [], _, _ => by simp [renWhens, devWhens]
  | .mk cnd r :: rest, h, hd => by
    simp only [nmWhens, Ok_append] at h
    simp only [devWhens, NoD5_append] at hd
    simp only [renWhens, devWhens, dev_expr c vis all σ cnd h.1.1 hd.1.1, dev_expr c vis all σ r h.1.2 hd.1.2,
      dev_whens c vis all σ rest h.2 hd.2]
theorem dev_items (c : Cfg) (vis all : List String) (σ : QEnv) :
    (l : List Item) → Ok (news c.ρ) (nmItems l) → NoD5 (devItems vis all l) →
      devItems (vis.map (appN c.ρ)) (all.map (appN c.ρ)) (renItems c vis σ l) = devItems vis all l
  | [], _, _ => by simp [renItems, devItems]
  | .mk e _ _ :: r, h, hd => by
    simp only [nmItems, Ok_append] at h
    simp only [devItems, NoD5_append] at hd
    simp only [renItems, devItems, nItemFound_ren, nSub_ren, dev_expr c vis all σ e h.1 hd.1.2, dev_items c vis all σ r h.2 hd.2]
theorem dev_query (c : Cfg) (vis all : List String) (σ : QEnv) :
    (q : Query) → Ok (news c.ρ) (nmQuery q) → NoD5 (devQuery vis all q) →
      devQuery (vis.map (appN c.ρ)) (all.map (appN c.ρ)) (renQuery c vis σ q) = devQuery vis all q
  | .select _ its frm none grp none, h, hd => by
    simp only [nmQuery, nmOpt, Ok_append] at h
    simp only [devQuery, NoD5_append] at hd
    simp only [renQuery, renOpt, devQuery, nSubL_ren,
      dev_items c vis all _ its h.1.1.1.2 hd.1.1.1.1.1, dev_from c vis all σ _ frm h.1.1.1.1 hd.1.1.1.1.2,
      dev_exprs c vis all _ grp h.1.2 hd.1.2]
  | .select _ its frm (some w) grp none, h, hd => by
    simp only [nmQuery, nmOpt, Ok_append] at h
    simp only [devQuery, NoD5_append] at hd
    simp only [renQuery, renOpt, devQuery, nSubL_ren, nDirectWhere_ren, nSub_ren,
      dev_items c vis all _ its h.1.1.1.2 hd.1.1.1.1.1, dev_from c vis all σ _ frm h.1.1.1.1 hd.1.1.1.1.2,
      dev_exprs c vis all _ grp h.1.2 hd.1.2, dev_expr c vis all _ w h.1.1.2 hd.1.1.1.2.2]
  | .select _ its frm none grp (some hv), h, hd => by
    simp only [nmQuery, nmOpt, Ok_append] at h
    simp only [devQuery, NoD5_append] at hd
    simp only [renQuery, renOpt, devQuery, nSubL_ren, nSub_ren,
      dev_items c vis all _ its h.1.1.1.2 hd.1.1.1.1.1, dev_from c vis all σ _ frm h.1.1.1.1 hd.1.1.1.1.2,
      dev_exprs c vis all _ grp h.1.2 hd.1.2, dev_expr c vis all _ hv h.2 hd.2.2]
  | .select _ its frm (some w) grp (some hv), h, hd => by
    simp only [nmQuery, nmOpt, Ok_append] at h
    simp only [devQuery, NoD5_append] at hd
    simp only [renQuery, renOpt, devQuery, nSubL_ren, nDirectWhere_ren, nSub_ren,
      dev_items c vis all _ its h.1.1.1.2 hd.1.1.1.1.1, dev_from c vis all σ _ frm h.1.1.1.1 hd.1.1.1.1.2,
      dev_exprs c vis all _ grp h.1.2 hd.1.2, dev_expr c vis all _ w h.1.1.2 hd.1.1.1.2.2, dev_expr c vis all _ hv h.2 hd.2.2]
  | .setop first rest, h, hd => by
    simp only [nmQuery, Ok_append] at h
    simp only [devQuery, NoD5_append] at hd
    simp only [renQuery, devQuery, dev_branch c vis all σ first h.1 hd.1, dev_opBranches c vis all σ rest h.2 hd.2]
  | .withq cs body, h, hd => by
    simp only [nmQuery, Ok_append] at h
    simp only [devQuery, NoD5_append] at hd
    have hc := dev_ctes c vis all σ cs h.1 hd.1
    have hb := hd.2
    rw [hc.2.2] at hb
    simp only [renQuery, devQuery]
    rw [hc.1, hc.2.1, hc.2.2, dev_query c _ all σ body h.2 hb]
theorem dev_branch (c : Cfg) (vis all : List String) (σ : QEnv) :
    (b : Branch) → Ok (news c.ρ) (nmBranch b) → NoD5 (devBranch vis all b) →
      devBranch (vis.map (appN c.ρ)) (all.map (appN c.ρ)) (renBranch c vis σ b) = devBranch vis all b
  | .mk q _, h, hd => by
    simp only [nmBranch] at h
    simp only [devBranch, NoD5_append] at hd
    have ih := dev_query c vis all σ q h hd.2
    simp only [renBranch, devBranch, ih]
    cases q <;> simp [renQuery]
theorem dev_opBranches (c : Cfg) (vis all : List String) (σ : QEnv) :
    (l : List OpBranch) → Ok (news c.ρ) (nmOpBranches l) → NoD5 (devOpBranches vis all l) →
      devOpBranches (vis.map (appN c.ρ)) (all.map (appN c.ρ)) (renOpBranches c vis σ l) = devOpBranches vis all l
  | [], _, _ => by simp [renOpBranches, devOpBranches]
  | .mk _ b :: r, h, hd => by
    simp only [nmOpBranches, Ok_append] at h
    simp only [devOpBranches, NoD5_append] at hd
    simp only [renOpBranches, devOpBranches, dev_branch c vis all σ b h.1 hd.1, dev_opBranches c vis all σ r h.2 hd.2]
theorem dev_ctes (c : Cfg) (vis all : List String) (σ : QEnv) :
    (l : List Cte) → Ok (news c.ρ) (nmCtes l) → NoD5 (devCtes vis all l).1 →
      (devCtes (vis.map (appN c.ρ)) (all.map (appN c.ρ)) (renCtes c vis σ l).1).1 = (devCtes vis all l).1 ∧
      (devCtes (vis.map (appN c.ρ)) (all.map (appN c.ρ)) (renCtes c vis σ l).1).2 = ((renCtes c vis σ l).2).map (appN c.ρ) ∧
      (devCtes vis all l).2 = (renCtes c vis σ l).2
  | [], _, _ => by simp [renCtes, devCtes]
  | .mk name q :: r, h, hd => by
    simp only [nmCtes, Ok_cons, Ok_append] at h
    simp only [devCtes, NoD5_append] at hd
    have hs' : vis ++ [Ident.escapeS name] = vis ++ [norm name] := rfl
    rw [hs'] at hd
    have ih := dev_ctes c (vis ++ [norm name]) all σ r h.2 hd.2
    have hq := dev_query c vis all σ q h.1.2 hd.1
    have hs : vis.map (appN c.ρ) ++ [Ident.escapeS (app c.ρ name)] = (vis ++ [norm name]).map (appN c.ρ) := by
      rw [esc_app]; simp [norm]
    simp only [renCtes, devCtes, hs, hs', hq, ih.1, ih.2.1, ih.2.2, and_self]
theorem dev_elem (c : Cfg) (vis all : List String) (σ : QEnv) :
    (e : FromElem) → Ok (news c.ρ) (nmElem e) → NoD5 (devElem vis all e) →
      devElem (vis.map (appN c.ρ)) (all.map (appN c.ρ)) (renElem c vis σ e) = devElem vis all e
  | .table parts alias asKw, h, hd => by
    simp only [renElem]
    exact dev_table c vis all parts alias _ asKw _ h hd
  | .derived q alias _, h, hd => by
    simp only [nmElem, Ok_append] at h
    simp only [devElem] at hd
    simp only [renElem, devElem, dev_query c vis all σ q h.2 hd]
theorem dev_joins (c : Cfg) (vis all : List String) (σ σb : QEnv) :
    (l : List Join) → Ok (news c.ρ) (nmJoins l) → NoD5 (devJoins vis all l) →
      devJoins (vis.map (appN c.ρ)) (all.map (appN c.ρ)) (renJoins c vis σ σb l) = devJoins vis all l
  | [], _, _ => by simp [renJoins, devJoins]
  | .mk _ e none _ :: r, h, hd => by
    simp only [nmJoins, nmOpt, Ok_append] at h
    simp only [devJoins, NoD5_append] at hd
    simp only [renJoins, renOpt, devJoins, dev_elem c vis all σ e h.1.1 hd.1.1, dev_joins c vis all σ σb r h.2 hd.2]
  | .mk _ e (some on) _ :: r, h, hd => by
    simp only [nmJoins, nmOpt, Ok_append] at h
    simp only [devJoins, NoD5_append] at hd
    simp only [renJoins, renOpt, devJoins, nSub_ren, dev_elem c vis all σ e h.1.1 hd.1.1, dev_expr c vis all σb on h.1.2 hd.1.2.2,
      dev_joins c vis all σ σb r h.2 hd.2]
theorem dev_fromExpr (c : Cfg) (vis all : List String) (σ σb : QEnv) :
    (f : FromExpr) → Ok (news c.ρ) (nmFromExpr f) → NoD5 (devFromExpr vis all f) →
      devFromExpr (vis.map (appN c.ρ)) (all.map (appN c.ρ)) (renFromExpr c vis σ σb f) = devFromExpr vis all f
  | .mk base js, h, hd => by
    simp only [nmFromExpr, Ok_append] at h
    simp only [devFromExpr, NoD5_append] at hd
    simp only [renFromExpr, devFromExpr, dev_elem c vis all σ base h.1 hd.1, dev_joins c vis all σ σb js h.2 hd.2]
theorem dev_from (c : Cfg) (vis all : List String) (σ σb : QEnv) :
    (l : List FromExpr) → Ok (news c.ρ) (nmFromExprs l) → NoD5 (devFromExprs vis all l) →
      devFromExprs (vis.map (appN c.ρ)) (all.map (appN c.ρ)) (renFromExprs c vis σ σb l) = devFromExprs vis all l
  | [], _, _ => by simp [renFromExprs, devFromExprs]
  | f :: r, h, hd => by
    simp only [nmFromExprs, Ok_append] at h
    simp only [devFromExprs, NoD5_append] at hd
    simp only [renFromExprs, devFromExprs, dev_fromExpr c vis all σ σb f h.1 hd.1, dev_from c vis all σ σb r h.2 hd.2]
end


end SqlLineage.Proofs.Rename
