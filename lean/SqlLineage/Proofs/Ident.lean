/-
Vocabulary and helper lemmas for the identifier theorems of `Props/C16.lean`
(ASCII case facts about `Char`, `dropWhile`/`strip`, how `escape` computes on each class of spelling).
Core Lean only.
-/
import SqlLineage.Model.Ident

namespace SqlLineage.Ident

/-! ### vocabulary used in the statements -/

/-- no quote character (`` ` ``, `"`, `'` — the regenerated `quote_chars`) occurs in `s` -/
def NoQuote (s : List Char) : Prop := hasQuote Gen.Const.quoteChars s = false

/-- `s` starts with `[` and ends with `]` -/
def Bracketed (s : List Char) : Prop := bracketed s = true

/-- free of quote characters and of square brackets: what may stand between the quotes of a simply quoted name -/
def Clean (x : List Char) : Prop := ∀ c ∈ x, c ∉ Gen.Const.quoteChars ∧ c ≠ '[' ∧ c ≠ ']'

/-- every character is its own ASCII lower-case form -/
def IsLower (s : List Char) : Prop := ∀ c ∈ s, c.toLower = c

/-- `t` is `s` with the ASCII letter case of any positions changed -/
inductive SameUpToCase : List Char → List Char → Prop
  | nil : SameUpToCase [] []
  | cons {a b : Char} {s t : List Char} : a.toLower = b.toLower → SameUpToCase s t → SameUpToCase (a :: s) (b :: t)

/-- per-character ASCII case change: position `i` is upper-cased when `f i`, lower-cased otherwise -/
def recase (f : Nat → Bool) : List Char → List Char
  | [] => []
  | c :: cs => (if f 0 then c.toUpper else c.toLower) :: recase (fun i => f (i + 1)) cs

/-- normalising the normalised name again changes nothing -/
def Stable (s : List Char) : Prop := escape (escape s) = escape s

instance : Decidable (NoQuote s) := by unfold NoQuote; infer_instance
instance : Decidable (Bracketed s) := by unfold Bracketed; infer_instance
instance : Decidable (Stable s) := by unfold Stable; infer_instance
instance : Decidable (Clean x) := by unfold Clean; infer_instance
instance : Decidable (IsLower x) := by unfold IsLower; infer_instance

/-! ### ASCII case -/

theorem toLower_eq_self_iff {c : Char} : c.toLower = c ↔ c.isUpper = false := by
  simp only [Char.toLower, Char.isUpper]
  split <;> rename_i h <;> simpa [UInt32.le_iff_toNat_le, Char.ext_iff] using h

theorem toLower_idem (c : Char) : c.toLower.toLower = c.toLower := by
  simp only [Char.toLower]
  split
  · split
    · next h1 h2 =>
      simp only [UInt32.le_iff_toNat_le, UInt32.toNat_add, seval] at h1 h2
      omega
    · simp
  · rfl

theorem isLower_toLower_of_isUpper {c : Char} (h : c.isUpper = true) : c.toLower.isLower = true := by
  simp only [Char.toLower, Char.isUpper, Char.isLower, decide_eq_true_eq] at *
  split
  · simp only [UInt32.le_iff_toNat_le, UInt32.toNat_add, seval, Bool.and_eq_true, decide_eq_true_eq, ge_iff_le] at h ⊢
    omega
  · contradiction

theorem toLower_toUpper (c : Char) : c.toUpper.toLower = c.toLower := by
  simp only [Char.toLower, Char.toUpper]
  split
  · next h1 =>
    split
    · next h2 =>
      split
      · next h3 =>
        simp only [UInt32.le_iff_toNat_le, UInt32.toNat_add, seval, ge_iff_le] at h1 h2 h3
        omega
      · simp only [Char.ext_iff]
        simp only [UInt32.le_iff_toNat_le, UInt32.toNat_add, seval, ge_iff_le, ← UInt32.toNat_inj] at h1 h2 ⊢
        omega
    · next h2 =>
      simp only [UInt32.le_iff_toNat_le, UInt32.toNat_add, seval, ge_iff_le] at h1 h2
      omega
  · rfl

/-- a character that is not an ASCII letter is the lower-case form of itself only -/
theorem toLower_eq_iff_of_not_alpha {q c : Char} (hq : q.isAlpha = false) : c.toLower = q ↔ c = q := by
  have hq' : q.isUpper = false ∧ q.isLower = false := by simpa [Char.isAlpha] using hq
  constructor
  · intro e
    cases hu : c.isUpper
    · rw [toLower_eq_self_iff.mpr hu] at e; exact e
    · have := isLower_toLower_of_isUpper hu
      rw [e, hq'.2] at this; contradiction
  · intro e; subst e; exact toLower_eq_self_iff.mpr hq'.1

theorem eq_iff_of_toLower_eq {q a b : Char} (hq : q.isAlpha = false) (h : a.toLower = b.toLower) : a = q ↔ b = q := by
  rw [← toLower_eq_iff_of_not_alpha hq, ← toLower_eq_iff_of_not_alpha (c := b) hq, h]

/-- the quote characters the code strips are not letters (re-checked against the regenerated table) -/
theorem quoteChars_not_alpha : ∀ q ∈ Gen.Const.quoteChars, q.isAlpha = false := by decide

/-! ### `SameUpToCase` -/

theorem sameUpToCase_recase (f : Nat → Bool) (s : List Char) : SameUpToCase s (recase f s) := by
  induction s generalizing f with
  | nil => exact .nil
  | cons c cs ih =>
    refine .cons ?_ (ih _)
    split
    · exact (toLower_toUpper c).symm
    · exact (toLower_idem c).symm

theorem sameUpToCase_map_toLower (s : List Char) : SameUpToCase s (s.map Char.toLower) := by
  induction s with
  | nil => exact .nil
  | cons c cs ih => exact .cons (toLower_idem c).symm ih

theorem SameUpToCase.map_toLower {s t : List Char} (h : SameUpToCase s t) : t.map Char.toLower = s.map Char.toLower := by
  induction h with
  | nil => rfl
  | cons hab _ ih => simp [ih, hab]

theorem SameUpToCase.mem_iff {s t : List Char} (h : SameUpToCase s t) {q : Char} (hq : q.isAlpha = false) :
    q ∈ s ↔ q ∈ t := by
  induction h with
  | nil => simp
  | cons hab _ ih =>
    simp only [List.mem_cons, ih]
    constructor
    · rintro (e | e)
      · exact .inl ((eq_iff_of_toLower_eq hq hab).mp e.symm).symm
      · exact .inr e
    · rintro (e | e)
      · exact .inl ((eq_iff_of_toLower_eq hq hab).mpr e.symm).symm
      · exact .inr e

theorem SameUpToCase.head?_iff {s t : List Char} (h : SameUpToCase s t) {q : Char} (hq : q.isAlpha = false) :
    s.head? = some q ↔ t.head? = some q := by
  cases h with
  | nil => simp
  | cons hab _ => simpa using eq_iff_of_toLower_eq hq hab

theorem SameUpToCase.getLast?_iff {s t : List Char} (h : SameUpToCase s t) {q : Char} (hq : q.isAlpha = false) :
    s.getLast? = some q ↔ t.getLast? = some q := by
  induction h with
  | nil => simp
  | cons hab hr ih =>
    cases hr with
    | nil => simpa using eq_iff_of_toLower_eq hq hab
    | cons hab' hr' => simpa [List.getLast?_cons_cons] using ih

/-! ### quote test and bracket test -/

theorem noQuote_iff {s : List Char} : NoQuote s ↔ ∀ q ∈ Gen.Const.quoteChars, q ∉ s := by
  simp [NoQuote, hasQuote, List.any_eq_false]

theorem hasQuote_of_mem {s : List Char} {q : Char} (hq : q ∈ Gen.Const.quoteChars) (hs : q ∈ s) :
    hasQuote Gen.Const.quoteChars s = true := by
  simp only [hasQuote, List.any_eq_true]
  exact ⟨q, hq, by simpa using hs⟩

theorem bracketed_iff {s : List Char} : Bracketed s ↔ s.head? = some '[' ∧ s.getLast? = some ']' := by
  simp [Bracketed, bracketed]

theorem SameUpToCase.noQuote {s t : List Char} (h : SameUpToCase s t) (hs : NoQuote s) : NoQuote t := by
  rw [noQuote_iff] at *
  intro q hq hqt
  exact hs q hq ((h.mem_iff (quoteChars_not_alpha q hq)).mpr hqt)

theorem SameUpToCase.bracketed_iff {s t : List Char} (h : SameUpToCase s t) : Bracketed s ↔ Bracketed t := by
  rw [Ident.bracketed_iff, Ident.bracketed_iff, h.head?_iff (q := '[') (by decide), h.getLast?_iff (q := ']') (by decide)]

/-- an unquoted, un-bracketed name is lower-cased -/
theorem escape_of_plain {s : List Char} (h1 : NoQuote s) (h2 : ¬Bracketed s) : escape s = s.map Char.toLower := by
  have h2' : bracketed s = false := by simpa [Bracketed] using h2
  simp only [escape, escapeWith]
  rw [show hasQuote Gen.Const.quoteChars s = false from h1, h2']
  simp

/-! ### `strip` -/

/-- `strip` for an arbitrary character class -/
def stripP (p : Char → Bool) (l : List Char) : List Char := ((l.dropWhile p).reverse.dropWhile p).reverse

theorem stripSet_eq_stripP (cs l : List Char) : stripSet cs l = stripP (cs.contains ·) l := rfl

theorem dropWhile_cons_pos {p : Char → Bool} {a : Char} {l : List Char} (h : p a = true) :
    (a :: l).dropWhile p = l.dropWhile p := by rw [List.dropWhile_cons, if_pos h]

theorem dropWhile_cons_neg {p : Char → Bool} {a : Char} {l : List Char} (h : p a = false) :
    (a :: l).dropWhile p = a :: l := by rw [List.dropWhile_cons, if_neg (by simp [h])]

theorem dropWhile_of_all_false {p : Char → Bool} {l : List Char} (h : ∀ c ∈ l, p c = false) : l.dropWhile p = l := by
  cases l with
  | nil => rfl
  | cons c r => exact dropWhile_cons_neg (h c (by simp))

theorem getLast?_wrap (a b : Char) (x : List Char) : (a :: (x ++ [b])).getLast? = some b := by
  rw [← List.cons_append, List.getLast?_concat]

/-- nothing to strip when neither end is in the class -/
theorem stripP_of_ends {p : Char → Bool} {l : List Char} (h1 : ∀ c, l.head? = some c → p c = false)
    (h2 : ∀ c, l.getLast? = some c → p c = false) : stripP p l = l := by
  cases l with
  | nil => rfl
  | cons c r =>
    unfold stripP
    rw [dropWhile_cons_neg (h1 c rfl)]
    have hne : (c :: r).reverse ≠ [] := by simp
    obtain ⟨d, r', hr⟩ := List.exists_cons_of_ne_nil hne
    have hd : p d = false := by
      apply h2
      rw [← List.head?_reverse, hr]; rfl
    rw [hr, dropWhile_cons_neg hd, ← hr, List.reverse_reverse]

theorem stripP_of_all_false {p : Char → Bool} {l : List Char} (h : ∀ c ∈ l, p c = false) : stripP p l = l := by
  apply stripP_of_ends
  · intro c hc; exact h c (List.mem_of_mem_head? hc)
  · intro c hc; exact h c (List.mem_of_getLast? hc)

/-- `a x b` with `a`, `b` in the class and `x` free of it strips to `x` -/
theorem stripP_wrap {p : Char → Bool} {x : List Char} {a b : Char} (hx : ∀ c ∈ x, p c = false)
    (ha : p a = true) (hb : p b = true) : stripP p (a :: (x ++ [b])) = x := by
  unfold stripP
  rw [dropWhile_cons_pos ha]
  cases x with
  | nil =>
    rw [List.nil_append, dropWhile_cons_pos hb]; rfl
  | cons y ys =>
    have hy : p y = false := hx y (by simp)
    rw [List.cons_append, dropWhile_cons_neg hy]
    have e2 : (y :: (ys ++ [b])).reverse = b :: (y :: ys).reverse := by simp
    rw [e2, dropWhile_cons_pos hb,
      dropWhile_of_all_false (fun c hc => hx c (List.mem_reverse.mp hc)), List.reverse_reverse]

theorem mem_of_mem_stripSet {cs l : List Char} {c : Char} (h : c ∈ stripSet cs l) : c ∈ l := by
  unfold stripSet at h
  have h1 := (List.dropWhile_sublist _).mem (List.mem_reverse.mp h)
  exact (List.dropWhile_sublist _).mem (List.mem_reverse.mp h1)

/-- normalisation never introduces a character that was not there up to letter case; in particular no dot -/
theorem not_mem_escape_of_not_alpha {s : List Char} {q : Char} (hq : q.isAlpha = false) (h : q ∉ s) : q ∉ escape s := by
  intro hm
  simp only [escape, escapeWith] at hm
  split at hm
  · simp only [Gen.Const.quoteChars, List.foldl, stripChar] at hm
    exact h (mem_of_mem_stripSet (mem_of_mem_stripSet (mem_of_mem_stripSet hm)))
  · split at hm
    · exact h (mem_of_mem_stripSet hm)
    · obtain ⟨c, hc, e⟩ := List.mem_map.mp hm
      rw [(toLower_eq_iff_of_not_alpha hq).mp e] at hc
      exact h hc

/-! ### the three quote styles -/

/-- a `Clean` text contains none of the characters of a class made of quote characters and brackets -/
theorem clean_class {x : List Char} (hx : Clean x) (cs : List Char)
    (hcs : ∀ c ∈ cs, c ∈ Gen.Const.quoteChars ∨ c = '[' ∨ c = ']') : ∀ c ∈ x, cs.contains c = false := by
  intro c hc
  have := hx c hc
  cases hcc : cs.contains c with
  | false => rfl
  | true =>
    have hm : c ∈ cs := by simpa using hcc
    rcases hcs c hm with h | h | h
    · exact absurd h this.1
    · exact absurd h this.2.1
    · exact absurd h this.2.2

theorem escape_double_quoted {x : List Char} (hx : Clean x) : escape ('"' :: (x ++ ['"'])) = x := by
  have hq : hasQuote Gen.Const.quoteChars ('"' :: (x ++ ['"'])) = true :=
    hasQuote_of_mem (q := '"') (by decide) (by simp)
  unfold escape escapeWith
  rw [if_pos hq]
  simp only [Gen.Const.quoteChars, List.foldl, stripChar, stripSet_eq_stripP]
  rw [stripP_of_ends (p := (['`'].contains ·)) (l := '"' :: (x ++ ['"']))]
  · rw [stripP_wrap (clean_class hx ['"'] (by decide)) (by decide) (by decide)]
    exact stripP_of_all_false (clean_class hx ['\''] (by decide))
  · intro c hc
    have : c = '"' := by simpa using hc.symm
    subst this; decide
  · intro c hc
    rw [getLast?_wrap] at hc
    have : c = '"' := by simpa using hc.symm
    subst this; decide

theorem escape_backtick_quoted {x : List Char} (hx : Clean x) : escape ('`' :: (x ++ ['`'])) = x := by
  have hq : hasQuote Gen.Const.quoteChars ('`' :: (x ++ ['`'])) = true :=
    hasQuote_of_mem (q := '`') (by decide) (by simp)
  unfold escape escapeWith
  rw [if_pos hq]
  simp only [Gen.Const.quoteChars, List.foldl, stripChar, stripSet_eq_stripP]
  rw [stripP_wrap (clean_class hx ['`'] (by decide)) (by decide) (by decide)]
  rw [stripP_of_all_false (clean_class hx ['"'] (by decide))]
  exact stripP_of_all_false (clean_class hx ['\''] (by decide))

theorem clean_noQuote {x : List Char} (hx : Clean x) : NoQuote x := by
  rw [noQuote_iff]
  intro q hq hm
  exact (hx q hm).1 hq

theorem escape_bracket_quoted {x : List Char} (hx : Clean x) : escape ('[' :: (x ++ [']'])) = x := by
  have hnq : hasQuote Gen.Const.quoteChars ('[' :: (x ++ [']'])) = false := by
    have : NoQuote ('[' :: (x ++ [']'])) := by
      rw [noQuote_iff]
      intro q hq hm
      simp only [List.mem_cons, List.mem_append, List.not_mem_nil, or_false] at hm
      rcases hm with e | e | e
      · subst e; revert hq; decide
      · exact (hx q e).1 hq
      · subst e; revert hq; decide
    exact this
  have hb : bracketed ('[' :: (x ++ [']'])) = true := by
    simp [bracketed, getLast?_wrap]
  unfold escape escapeWith
  rw [if_neg (by simp [hnq]), if_pos hb, stripSet_eq_stripP]
  exact stripP_wrap (clean_class hx ['[', ']'] (by decide)) (by decide) (by decide)

/-! ### fixed points -/

theorem escape_fixed_of_plain_lower {t : List Char} (h1 : NoQuote t) (h2 : ¬Bracketed t) (h3 : IsLower t) :
    escape t = t := by
  rw [escape_of_plain h1 h2]
  conv => rhs; rw [← List.map_id t]
  exact List.map_congr_left (fun c hc => h3 c hc)

theorem stable_of_plain {s : List Char} (h1 : NoQuote s) (h2 : ¬Bracketed s) : Stable s := by
  have hs := sameUpToCase_map_toLower s
  unfold Stable
  rw [escape_of_plain h1 h2]
  apply escape_fixed_of_plain_lower (hs.noQuote h1)
  · exact fun hb => h2 (hs.bracketed_iff.mpr hb)
  · intro c hc
    obtain ⟨d, _, e⟩ := List.mem_map.mp hc
    rw [← e, toLower_idem]

theorem clean_not_bracketed {x : List Char} (hx : Clean x) : ¬Bracketed x := by
  rw [bracketed_iff]
  rintro ⟨h, _⟩
  exact (hx '[' (List.mem_of_mem_head? h)).2.1 rfl

end SqlLineage.Ident
