/-
The graph invariants of `Proofs/PathLemmas.lean` (`WF`: edge end points are nodes; `ColOut`: an edge leaving a column node is a
LINEAGE edge to a column node) are preserved by the assembler `Assemble.build` (model of `SQLLineageHolder._build_digraph`,
core/holders.py:373‑449): so the path theorems of `Props/C06.lean` apply to every combined graph the model builds from statement
holders that satisfy them.  `ColOut` is proved for scripts without RENAME statements (the relabelling step is not covered).
-/
import SqlLineage.Proofs.PathLemmas
import SqlLineage.Model.Assemble

namespace SqlLineage.Paths
open SqlLineage Graph Assemble

/-- a property of graphs that every primitive step of the assembler preserves -/
structure Stable (P : LGraph → Prop) : Prop where
  compose : ∀ g h, P g → P h → P (g.compose h)
  removeNode : ∀ g n, P g → P (g.removeNode n)
  removeEdge : ∀ g g' a b, g.removeEdge? a b = some g' → P g → P g'
  setTags : ∀ g ns t b, P g → P (g.setTags ns t b)

theorem stable_wf : Stable (WF (ν := Node) (π := Payload)) :=
  ⟨wf_compose, wf_removeNode, wf_removeEdge, wf_setTags⟩

theorem stable_colOut : Stable ColOut :=
  ⟨colOut_compose, colOut_removeNode, colOut_removeEdge, colOut_setTags⟩

theorem foldl_preserves {α : Type} (P : LGraph → Prop) (f : LGraph → α → LGraph) (hf : ∀ g a, P g → P (f g a)) :
    ∀ (l : List α) (g : LGraph), P g → P (l.foldl f g)
  | [], _, h => h
  | a :: l, g, h => foldl_preserves P f hf l (f g a) (hf g a h)

theorem dropStep_preserves (P : LGraph → Prop) (hs : Stable P) (g : LGraph) (ts : List Node) (h : P g) :
    P (dropStep g ts) := by
  unfold dropStep
  apply foldl_preserves P _ _ ts g h
  intro g t hg
  split
  · exact hs.removeNode g t hg
  · exact hg

theorem removeOrphans_preserves (P : LGraph → Prop) (hs : Stable P) (g : LGraph) (h : P g) : P (removeOrphans g) := by
  unfold removeOrphans
  exact foldl_preserves P _ (fun g n hg => hs.removeNode g n hg) _ g h

theorem tagSelfloops_preserves (P : LGraph → Prop) (hs : Stable P) (g : LGraph) (h : P g) : P (tagSelfloops g) :=
  hs.setTags g _ _ _ h

/-! ### the read/write branch -/

theorem mem_stmtRead_isDataset (h : LGraph) (n : Node) (hn : n ∈ stmtRead h) : n.isDataset = true := by
  simp only [stmtRead, List.mem_filter] at hn; exact hn.2

theorem mem_stmtWrite_isDataset (h : LGraph) (n : Node) (hn : n ∈ stmtWrite h) : n.isDataset = true := by
  simp only [stmtWrite, List.mem_filter] at hn; exact hn.2

theorem isCol_false_of_isDataset (n : Node) (h : n.isDataset = true) : n.isCol = false := by
  cases n <;> simp_all [Node.isDataset, Node.isCol]

theorem mem_product' (rs ws : List Node) (e : Node × Node) (he : e ∈ product rs ws) : e.1 ∈ rs ∧ e.2 ∈ ws := by
  simp only [product, List.mem_flatMap, List.mem_map] at he
  obtain ⟨r, hr, w, hw, rfl⟩ := he
  exact ⟨hr, hw⟩

theorem rwStep_wf (g : LGraph) (rd wr : List Node) (h : WF g) : WF (rwStep g rd wr) := by
  unfold rwStep
  split
  · exact wf_setTags _ _ _ _ h
  · split
    · exact wf_setTags _ _ _ _ h
    · exact foldl_preserves WF _ (fun g e hg => wf_addEdge _ _ _ _ _ _ _ hg) _ g h

/-- table‑level LINEAGE edges are added between dataset nodes only -/
theorem rwStep_colOut (g : LGraph) (rd wr : List Node) (hrd : ∀ n ∈ rd, n.isDataset = true) (h : ColOut g) :
    ColOut (rwStep g rd wr) := by
  unfold rwStep
  split
  · exact colOut_setTags _ _ _ _ h
  · split
    · exact colOut_setTags _ _ _ _ h
    · -- fold over the product, remembering that every pair starts at a dataset node
      have key : ∀ (l : List (Node × Node)) (g : LGraph), (∀ e ∈ l, e.1.isDataset = true) → ColOut g →
          ColOut (l.foldl (fun g e => g.addEdge e.1 e.2 .lineage) g) := by
        intro l
        induction l with
        | nil => intro g _ hg; exact hg
        | cons e r ih =>
          intro g hl hg
          apply ih
          · intro e' he'; exact hl e' (List.mem_cons_of_mem _ he')
          · apply colOut_addEdge _ _ _ _ _ _ _ hg
            intro hc
            have := isCol_false_of_isDataset e.1 (hl e (List.mem_cons_self ..))
            rw [this] at hc; cases hc
      apply key _ g _ h
      intro e he
      exact hrd e.1 (mem_product' rd wr e he).1

/-! ### RENAME (well‑formedness only) -/

theorem wf_removeEdges (g : LGraph) (ps : List (Node × Node)) (h : WF g) : WF (removeEdges g ps) := by
  intro e he
  exact h e (List.mem_filter.mp he).1

theorem renameOne_wf (g : LGraph) (p : Node × Node) (h : WF g) : WF (renameOne g p) := by
  unfold renameOne
  simp only
  split
  · exact wf_removeNode _ _ (wf_relabel g p.1 p.2 none h)
  · exact wf_relabel g p.1 p.2 none h

theorem renameStep_wf (ps : List (Node × Node)) (g : LGraph) (h : WF g) : WF (renameStep g ps) := by
  unfold renameStep
  have gen : ∀ (l : List (Node × Node)) (G : LGraph), WF G → WF (l.foldl renameOne G) := by
    intro l
    induction l with
    | nil => intro G hG; exact hG
    | cons p r ih => intro G hG; exact ih _ (renameOne_wf G p hG)
  exact gen ps _ (wf_removeEdges g ps h)

/-! ### the fold over statement holders -/

theorem foldStep_wf (ord : List (Node × Node) → List (Node × Node)) (g h g' : LGraph) (hg : WF g) (hh : WF h)
    (hr : foldStep ord g h = .ok g') : WF g' := by
  unfold foldStep at hr
  simp only at hr
  have hc := wf_compose g h hg hh
  split at hr
  · rw [← Except.ok.inj hr]; exact dropStep_preserves WF stable_wf _ _ hc
  · split at hr
    · rw [← Except.ok.inj hr]; exact renameStep_wf _ _ hc
    · rw [← Except.ok.inj hr]; exact rwStep_wf _ _ _ hc

theorem foldStep_colOut (ord : List (Node × Node) → List (Node × Node)) (g h g' : LGraph) (hg : ColOut g) (hh : ColOut h)
    (hnr : stmtRename h = []) (hr : foldStep ord g h = .ok g') : ColOut g' := by
  unfold foldStep at hr
  simp only [hnr] at hr
  have hc := colOut_compose g h hg hh
  split at hr
  · rw [← Except.ok.inj hr]; exact dropStep_preserves ColOut stable_colOut _ _ hc
  · simp only [List.isEmpty_nil, Bool.not_true, Bool.false_eq_true, if_false] at hr
    rw [← Except.ok.inj hr]
    exact rwStep_colOut _ _ _ (mem_stmtRead_isDataset h) hc

theorem foldAll_wf (ord : List (Node × Node) → List (Node × Node)) : ∀ (hs : List LGraph) (g g' : LGraph), WF g →
    (∀ h ∈ hs, WF h) → foldAll ord g hs = .ok g' → WF g'
  | [], g, g', hg, _, hr => by simp only [foldAll] at hr; rw [← Except.ok.inj hr]; exact hg
  | h :: r, g, g', hg, hhs, hr => by
    simp only [foldAll] at hr
    cases h1 : foldStep ord g h with
    | error e => rw [h1] at hr; cases hr
    | ok g1 =>
      rw [h1] at hr
      exact foldAll_wf ord r g1 g' (foldStep_wf ord g h g1 hg (hhs h (List.mem_cons_self ..)) h1)
        (fun x hx => hhs x (List.mem_cons_of_mem _ hx)) hr

theorem foldAll_colOut (ord : List (Node × Node) → List (Node × Node)) : ∀ (hs : List LGraph) (g g' : LGraph), ColOut g →
    (∀ h ∈ hs, ColOut h ∧ stmtRename h = []) → foldAll ord g hs = .ok g' → ColOut g'
  | [], g, g', hg, _, hr => by simp only [foldAll] at hr; rw [← Except.ok.inj hr]; exact hg
  | h :: r, g, g', hg, hhs, hr => by
    simp only [foldAll] at hr
    cases h1 : foldStep ord g h with
    | error e => rw [h1] at hr; cases hr
    | ok g1 =>
      rw [h1] at hr
      have hh := hhs h (List.mem_cons_self ..)
      exact foldAll_colOut ord r g1 g' (foldStep_colOut ord g h g1 hg hh.1 hh.2 h1)
        (fun x hx => hhs x (List.mem_cons_of_mem _ hx)) hr

/-! ### late resolution of multi‑candidate columns (holders.py:410‑444) -/

/-- the shape of one repair step: some source columns are wired to the target, then (if there were any) the unresolved edge goes -/
theorem resolveOne_shape (prov : Prov) (g : LGraph) (e : Node × Node) : ∃ srcs : List Column,
    resolveOne prov g e =
      (if srcs.isEmpty then .ok (srcs.foldl (fun g c => g.addEdge c.key e.2 .lineage none (some (.col c)) none) g)
       else match (srcs.foldl (fun g c => g.addEdge c.key e.2 .lineage none (some (.col c)) none) g).removeEdge? e.1 e.2 with
         | some g2 => .ok g2
         | none => .error (.internal "remove_edge")) :=
  ⟨_, rfl⟩

theorem resolveOne_preserves (P : LGraph → Prop) (hre : ∀ g g' a b, g.removeEdge? a b = some g' → P g → P g')
    (prov : Prov) (g g' : LGraph) (e : Node × Node)
    (hadd : ∀ (g : LGraph) (c : Column), P g → P (g.addEdge c.key e.2 .lineage none (some (.col c)) none))
    (h : P g) (hr : resolveOne prov g e = .ok g') : P g' := by
  obtain ⟨srcs, hs⟩ := resolveOne_shape prov g e
  rw [hs] at hr
  have h1 : P (srcs.foldl (fun g c => g.addEdge c.key e.2 .lineage none (some (.col c)) none) g) :=
    foldl_preserves P _ (fun g c hg => hadd g c hg) srcs g h
  split at hr
  · rw [← Except.ok.inj hr]; exact h1
  · split at hr
    · rename_i g2 hre'
      rw [← Except.ok.inj hr]
      exact hre _ _ _ _ hre' h1
    · cases hr

theorem resolveOne_wf (prov : Prov) (g g' : LGraph) (e : Node × Node) (h : WF g) (hr : resolveOne prov g e = .ok g') :
    WF g' :=
  resolveOne_preserves WF wf_removeEdge prov g g' e (fun _ _ hg => wf_addEdge _ _ _ _ _ _ _ hg) h hr

theorem resolveOne_colOut (prov : Prov) (g g' : LGraph) (e : Node × Node) (he : e.2.isCol = true) (h : ColOut g)
    (hr : resolveOne prov g e = .ok g') : ColOut g' :=
  resolveOne_preserves ColOut colOut_removeEdge prov g g' e
    (fun _ _ hg => colOut_addEdge _ _ _ _ _ _ _ hg (fun _ => ⟨he, rfl⟩)) h hr

theorem resolveAll_wf (prov : Prov) : ∀ (es : List (Node × Node)) (g g' : LGraph), WF g →
    resolveAll prov g es = .ok g' → WF g'
  | [], g, g', h, hr => by simp only [resolveAll] at hr; rw [← Except.ok.inj hr]; exact h
  | e :: r, g, g', h, hr => by
    simp only [resolveAll] at hr
    cases h1 : resolveOne prov g e with
    | error x => rw [h1] at hr; cases hr
    | ok g1 => rw [h1] at hr; exact resolveAll_wf prov r g1 g' (resolveOne_wf prov g g1 e h h1) hr

theorem resolveAll_colOut (prov : Prov) : ∀ (es : List (Node × Node)) (g g' : LGraph), (∀ e ∈ es, e.2.isCol = true) →
    ColOut g → resolveAll prov g es = .ok g' → ColOut g'
  | [], g, g', _, h, hr => by simp only [resolveAll] at hr; rw [← Except.ok.inj hr]; exact h
  | e :: r, g, g', hes, h, hr => by
    simp only [resolveAll] at hr
    cases h1 : resolveOne prov g e with
    | error x => rw [h1] at hr; cases hr
    | ok g1 =>
      rw [h1] at hr
      exact resolveAll_colOut prov r g1 g' (fun x hx => hes x (List.mem_cons_of_mem _ hx))
        (resolveOne_colOut prov g g1 e (hes e (List.mem_cons_self ..)) h h1) hr

/-- the targets of the edges awaiting repair are column nodes (they leave a column node of a `ColOut` graph) -/
theorem unresolved_targets_col (g : LGraph) (h : ColOut g) : ∀ e ∈ unresolved g, e.2.isCol = true := by
  intro e he
  simp only [unresolved, List.mem_filter, Bool.and_eq_true] at he
  exact (h e.1 e.2 (mem_edgesOrdered g e he.1) he.2.1).1

/-! ### `Assemble.build` -/

/-- every graph the assembler returns from well‑formed statement holders is well‑formed (RENAME included) -/
theorem buildWith_wf (ord : List (Node × Node) → List (Node × Node)) (prov : Prov) (hs : List LGraph) (g : LGraph)
    (hhs : ∀ h ∈ hs, WF h) (hr : buildWith ord prov hs = .ok g) : WF g := by
  unfold buildWith at hr
  cases h1 : foldAll ord Graph.empty hs with
  | error e => rw [h1] at hr; cases hr
  | ok g1 =>
    rw [h1] at hr
    simp only at hr
    have hw1 := foldAll_wf ord hs Graph.empty g1 wf_empty hhs h1
    have hw2 := tagSelfloops_preserves WF stable_wf g1 hw1
    cases h2 : resolveAll prov (tagSelfloops g1) (unresolved (tagSelfloops g1)) with
    | error e => rw [h2] at hr; cases hr
    | ok g2 =>
      rw [h2] at hr
      rw [← Except.ok.inj hr]
      exact removeOrphans_preserves WF stable_wf g2 (resolveAll_wf prov _ _ g2 hw2 h2)

/-- … and satisfies `ColOut` when the holders do and no statement is a RENAME -/
theorem buildWith_colOut (ord : List (Node × Node) → List (Node × Node)) (prov : Prov) (hs : List LGraph) (g : LGraph)
    (hhs : ∀ h ∈ hs, ColOut h ∧ stmtRename h = []) (hr : buildWith ord prov hs = .ok g) : ColOut g := by
  unfold buildWith at hr
  cases h1 : foldAll ord Graph.empty hs with
  | error e => rw [h1] at hr; cases hr
  | ok g1 =>
    rw [h1] at hr
    simp only at hr
    have hc1 := foldAll_colOut ord hs Graph.empty g1 colOut_empty hhs h1
    have hc2 := tagSelfloops_preserves ColOut stable_colOut g1 hc1
    cases h2 : resolveAll prov (tagSelfloops g1) (unresolved (tagSelfloops g1)) with
    | error e => rw [h2] at hr; cases hr
    | ok g2 =>
      rw [h2] at hr
      rw [← Except.ok.inj hr]
      exact removeOrphans_preserves ColOut stable_colOut g2
        (resolveAll_colOut prov _ _ g2 (unresolved_targets_col _ hc2) hc2 h2)

end SqlLineage.Paths
