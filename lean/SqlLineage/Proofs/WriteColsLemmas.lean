/-
Normal form of a holder while `add_write_column` runs on a target that owns nothing else, and what
`remove_nodes_from(write_columns)` leaves of it (used by `Props/C13.lean`: `insert_positions_from_target_meta`,
`explicit_list_wins`).
-/
import SqlLineage.Proofs.FrameLemmas
import SqlLineage.Model.InsertCols

namespace SqlLineage
open Graph Holder

namespace Graph
variable {ν π : Type} [DecidableEq ν]

theorem nodes_addNode (g : Graph ν π) (n : ν) (p : Option π) :
    (g.addNode n p).nodes = if n ∈ g.nodes then g.nodes else g.nodes ++ [n] := by
  unfold addNode
  by_cases h : n ∈ g.nodes
  · simp [hasNode, h]
  · simp [hasNode, h]

theorem nodes_addEdge (g : Graph ν π) (u v : ν) (ty : EType) (i : Option Nat) (pu pv : Option π) :
    (g.addEdge u v ty i pu pv).nodes = ((g.addNode u pu).addNode v pv).nodes := by
  unfold addEdge; simp only; split <;> rfl

theorem payload_addNode (g : Graph ν π) (n m : ν) (p : Option π) :
    (g.addNode n p).payload m = if m ∈ g.nodes then g.payload m else if m = n then p else none := by
  unfold addNode
  by_cases h : n ∈ g.nodes
  · simp only [hasNode, List.contains_iff_mem, h, if_true]
    by_cases hm : m ∈ g.nodes
    · simp [hm]
    · have : m ≠ n := fun e => hm (e ▸ h)
      simp [payload, hasNode, hm, this]
  · simp only [hasNode, List.contains_iff_mem, h, if_false]
    by_cases hm : m ∈ g.nodes
    · have : m ≠ n := fun e => h (e ▸ hm)
      simp [payload, hasNode, hm, this]
    · by_cases hmn : m = n
      · subst hmn; simp [payload, hasNode, hm]
      · simp [payload, hasNode, hm, hmn]

theorem payload_addEdge (g : Graph ν π) (u v m : ν) (ty : EType) (i : Option Nat) (pu pv : Option π) :
    (g.addEdge u v ty i pu pv).payload m = ((g.addNode u pu).addNode v pv).payload m := by
  unfold addEdge; simp only; split <;> rfl

theorem idx_addEdge (g : Graph ν π) (u v a b : ν) (ty : EType) (i : Option Nat) (pu pv : Option π) :
    (g.addEdge u v ty i pu pv).idx a b =
      if a = u ∧ b = v then (match i with | some k => some k | none => g.idx u v) else g.idx a b := by
  have hmem := mem_edges_addEdge g u v (a, b) ty i pu pv
  by_cases h : a = u ∧ b = v
  · obtain ⟨rfl, rfl⟩ := h
    have hin : (a, b) ∈ (g.addEdge a b ty i pu pv).edges := hmem.mpr (Or.inr rfl)
    simp only [idx, hasEdge, List.contains_iff_mem, hin, if_true, and_self]
    unfold addEdge; simp only
    by_cases he : (a, b) ∈ g.edges
    · have : ((g.addNode a pu).addNode b pv).hasEdge a b = true := by simpa [hasEdge] using he
      simp only [this, if_true, and_self]
      cases i <;> simp [he]
    · have : ((g.addNode a pu).addNode b pv).hasEdge a b = false := by simpa [hasEdge] using he
      simp only [this, Bool.false_eq_true, if_false, and_self, if_true]
      cases i <;> simp [he]
  · rw [if_neg h]
    have hne : (a, b) ≠ (u, v) := by intro hh; exact h (by simpa using hh)
    have hiff : (a, b) ∈ (g.addEdge u v ty i pu pv).edges ↔ (a, b) ∈ g.edges := by
      rw [hmem]; constructor
      · rintro (x | x); exact x; exact absurd x hne
      · exact Or.inl
    simp only [idx, hasEdge, List.contains_iff_mem]
    by_cases he : (a, b) ∈ g.edges
    · simp only [hiff.mpr he, he, if_true]
      unfold addEdge; simp only; split <;> simp [h]
    · simp [he, mt hiff.mp he]

end Graph

namespace WriteCols
open InsertCols

/-- shape of the holder after `add_write_column(*pre)` on a base graph `B` that consists of the target `T` alone:
    `T` followed by the columns' nodes, one HAS_COLUMN edge each, indices ascending and below `k`, key objects = the columns -/
structure WInv (B : LGraph) (T : DS) (pre : List Column) (k : Nat) (G : LGraph) : Prop where
  nodes : G.nodes = .ds T :: pre.map (·.key)
  edges : G.edges = (pre.map (·.key)).map (fun x => (Node.ds T, x))
  ety : ∀ x ∈ pre.map (·.key), G.ety (.ds T) x = some .hasColumn
  sorted : ((pre.map (·.key)).map (fun x => (G.idx (.ds T) x).getD 0)).Pairwise (· ≤ ·)
  bound : ∀ x ∈ pre.map (·.key), (G.idx (.ds T) x).getD 0 < k
  pay : ∀ c ∈ pre, G.payload c.key = some (.col c)
  tagT : ∀ t, G.tag (.ds T) t = B.tag (.ds T) t
  payT : G.payload (.ds T) = B.payload (.ds T)

theorem WInv.base (B : LGraph) (T : DS) (k : Nat) (hN : B.nodes = [.ds T]) (hE : B.edges = []) : WInv B T [] k B :=
  ⟨by simpa using hN, by simpa using hE, by simp, by simp, by simp, by simp, fun _ => rfl, rfl⟩

private theorem key_ne_ds (c : Column) (T : DS) : c.key ≠ Node.ds T := by intro e; cases e

theorem WInv.step {B : LGraph} {T : DS} {pre : List Column} {k : Nat} {G : LGraph} (h : WInv B T pre k G) (c : Column)
    (hc : c.key ∉ pre.map (·.key)) :
    WInv B T (pre ++ [c]) (k + 1) (G.addEdge (.ds T) c.key .hasColumn (some k) none (some (.col c))) := by
  have hTin : Node.ds T ∈ G.nodes := by rw [h.nodes]; simp
  have hcN : c.key ∉ G.nodes := by
    rw [h.nodes]; simp only [List.mem_cons, not_or]; exact ⟨key_ne_ds c T, hc⟩
  have hcE : (Node.ds T, c.key) ∉ G.edges := by
    rw [h.edges]; simp only [List.mem_map, not_exists, not_and]
    intro x hx e; cases e; exact hc (List.mem_map.mpr hx)
  have hidxOld : ∀ x ∈ pre.map (·.key),
      (G.addEdge (.ds T) c.key .hasColumn (some k) none (some (.col c))).idx (.ds T) x = G.idx (.ds T) x := by
    intro x hx
    rw [idx_addEdge, if_neg]
    rintro ⟨_, e⟩; subst e; exact hc hx
  have hidxNew : (G.addEdge (.ds T) c.key .hasColumn (some k) none (some (.col c))).idx (.ds T) c.key = some k := by
    rw [idx_addEdge, if_pos ⟨rfl, rfl⟩]
  refine ⟨?_, ?_, ?_, ?_, ?_, ?_, ?_, ?_⟩
  · have e1 : (G.addNode (.ds T) none).nodes = G.nodes := by rw [nodes_addNode, if_pos hTin]
    rw [nodes_addEdge, nodes_addNode, e1, if_neg hcN, h.nodes]; simp
  · rw [edges_addEdge, if_neg hcE, h.edges]; simp
  · intro x hx
    rw [ety_addEdge]
    by_cases e : x = c.key
    · simp [e]
    · have : x ∈ pre.map (·.key) := by
        simp only [List.map_append, List.mem_append, List.map_cons, List.map_nil, List.mem_singleton] at hx
        rcases hx with hx | hx
        · exact hx
        · exact absurd hx e
      rw [if_neg (fun x => e x.2)]; exact h.ety x this
  · simp only [List.map_append, List.map_cons, List.map_nil, List.pairwise_append, List.pairwise_cons, List.mem_nil_iff,
      false_imp_iff, implies_true, List.Pairwise.nil, and_true, List.mem_singleton, List.mem_map, forall_exists_index,
      and_imp, forall_apply_eq_imp_iff₂, true_and]
    refine ⟨?_, ?_⟩
    · have : (pre.map (·.key)).map (fun x => ((G.addEdge (.ds T) c.key .hasColumn (some k) none (some (.col c))).idx
          (.ds T) x).getD 0) = (pre.map (·.key)).map (fun x => (G.idx (.ds T) x).getD 0) := by
        apply List.map_congr_left
        intro x hx; rw [hidxOld x hx]
      simp only [List.map_map] at this
      simpa [List.map_map, this] using h.sorted
    · intro a ha b hb
      subst hb
      have hak : a.key ∈ pre.map (·.key) := List.mem_map.mpr ⟨a, ha, rfl⟩
      rw [hidxOld _ hak, hidxNew]
      exact Nat.le_of_lt (h.bound _ hak)
  · intro x hx
    simp only [List.map_append, List.mem_append, List.map_cons, List.map_nil, List.mem_singleton] at hx
    rcases hx with hx | hx
    · rw [hidxOld x hx]; exact Nat.lt_succ_of_lt (h.bound x hx)
    · subst hx; rw [hidxNew]; simp
  · intro c' hc'
    simp only [List.mem_append, List.mem_singleton] at hc'
    rw [payload_addEdge, payload_addNode, payload_addNode]
    rcases hc' with hc' | hc'
    · have : c'.key ∈ G.nodes := by rw [h.nodes]; exact List.mem_cons_of_mem _ (List.mem_map.mpr ⟨c', hc', rfl⟩)
      have h2 : c'.key ∈ (G.addNode (.ds T) none).nodes := (mem_nodes_addNode _ _ _ _).mpr (Or.inl this)
      rw [if_pos h2, if_pos this]; exact h.pay c' hc'
    · subst hc'
      have h2 : c'.key ∉ (G.addNode (.ds T) none).nodes := by
        rw [mem_nodes_addNode]; exact fun x => x.elim hcN (key_ne_ds c' T)
      rw [if_neg h2, if_pos rfl]
  · intro t; rw [tag_addEdge]; exact h.tagT t
  · rw [payload_addEdge, payload_addNode, payload_addNode]
    have h2 : Node.ds T ∈ (G.addNode (.ds T) none).nodes := (mem_nodes_addNode _ _ _ _).mpr (Or.inl hTin)
    rw [if_pos h2, if_pos hTin]; exact h.payT

/-- the loop of `add_write_column` from offset `k` -/
theorem WInv.fold {B : LGraph} {T : DS} (f : Column → Column) : ∀ (rest pre : List Column) (k : Nat) (G : LGraph),
    WInv B T pre k G → ((pre ++ rest.map f).map (·.key)).Nodup →
    WInv B T (pre ++ rest.map f) (k + rest.length)
      ((rest.zipIdx k).foldl (fun g ci => g.addEdge (.ds T) (f ci.1).key .hasColumn (some ci.2) none (some (.col (f ci.1)))) G)
  | [], pre, k, G, h, _ => by simpa using h
  | c :: r, pre, k, G, h, hnd => by
    have hc : (f c).key ∉ pre.map (·.key) := by
      simp only [List.map_cons, List.map_append, List.nodup_append, List.mem_cons, List.mem_map] at hnd
      intro hx
      obtain ⟨x, hx, hk⟩ := List.mem_map.mp hx
      exact hnd.2.2 _ ⟨x, hx, rfl⟩ _ (Or.inl rfl) hk
    have hs := h.step (f c) hc
    have := WInv.fold f r (pre ++ [f c]) (k + 1) _ hs (by simpa using hnd)
    simp only [List.zipIdx_cons, List.foldl_cons, List.map_cons, List.length_cons]
    have e1 : pre ++ f c :: r.map f = pre ++ [f c] ++ r.map f := by simp
    have e2 : k + (r.length + 1) = k + 1 + r.length := by omega
    rw [e1, e2]; exact this

/-! ### reading the normal form -/

private theorem tagSet_cols_nil (G : LGraph) (t : Tag) (cs : List Column) :
    ((cs.map (·.key)).filter (fun n => G.tag n t == some true)).filterMap dsOf = [] := by
  induction cs with
  | nil => rfl
  | cons c r ih =>
    simp only [List.map_cons, List.filter_cons]
    split
    · rw [List.filterMap_cons]; simp only [Column.key, dsOf]; exact ih
    · exact ih

theorem WInv.tagSet {B : LGraph} {T : DS} {pre : List Column} {k : Nat} {G : LGraph} (h : WInv B T pre k G) (t : Tag) :
    tagSet G t = if B.tag (.ds T) t == some true then [T] else [] := by
  unfold Holder.tagSet
  rw [h.nodes, List.filter_cons, h.tagT t]
  split
  · rw [List.filterMap_cons]; simp only [dsOf]; rw [tagSet_cols_nil]
  · exact tagSet_cols_nil G t pre

theorem insertByIdx_append (x : Node × Nat) : ∀ (acc : List (Node × Nat)), (∀ y ∈ acc, y.2 ≤ x.2) →
    insertByIdx x acc = acc ++ [x]
  | [], _ => rfl
  | y :: r, h => by
    have hy : ¬ x.2 < y.2 := Nat.not_lt.mpr (h y (by simp))
    simp only [insertByIdx, hy, if_false, List.cons_append]
    rw [insertByIdx_append x r (fun z hz => h z (by simp [hz]))]

theorem sortByIdx_sorted (l : List (Node × Nat)) (h : (l.map (·.2)).Pairwise (· ≤ ·)) : sortByIdx l = l := by
  have gen : ∀ (l acc : List (Node × Nat)), ((acc ++ l).map (·.2)).Pairwise (· ≤ ·) →
      l.foldl (fun acc x => insertByIdx x acc) acc = acc ++ l := by
    intro l
    induction l with
    | nil => intro acc _; simp
    | cons x r ih =>
      intro acc hp
      simp only [List.foldl_cons]
      have hx : ∀ y ∈ acc, y.2 ≤ x.2 := by
        intro y hy
        simp only [List.map_append, List.map_cons, List.pairwise_append, List.mem_map, List.mem_cons] at hp
        exact hp.2.2 y.2 ⟨y, hy, rfl⟩ x.2 (Or.inl rfl)
      rw [insertByIdx_append x acc hx, ih (acc ++ [x]) (by simpa using hp)]
      simp
  simpa [sortByIdx] using gen l [] (by simpa using h)

private theorem outEdges_star (a : Node) : ∀ ks : List Node,
    (((ks.map (fun x => (a, x))).filter (·.1 = a)).map (·.2)) = ks
  | [] => rfl
  | k :: r => by simp [List.filter_cons, outEdges_star a r]

private theorem filterMap_eq_self {α : Type} (f : α → Option α) : ∀ (l : List α), (∀ c ∈ l, f c = some c) → l.filterMap f = l
  | [], _ => rfl
  | c :: r, h => by
    rw [List.filterMap_cons, h c (by simp)]
    simp only
    rw [filterMap_eq_self f r (fun c' hc' => h c' (by simp [hc']))]

theorem WInv.targetTable {B : LGraph} {T : DS} {pre : List Column} {k : Nat} {G : LGraph} (h : WInv B T pre k G)
    (hW : B.tag (.ds T) .write = some true) (hR : B.tag (.ds T) .read ≠ some true) : targetTable? G = some T := by
  unfold targetTable? writeSet readSet
  rw [h.tagSet .write, h.tagSet .read, hW]
  have : (B.tag (.ds T) .read == some true) = false := by simpa using hR
  simp [this]

theorem WInv.writeColumns {B : LGraph} {T : DS} {pre : List Column} {k : Nat} {G : LGraph} (h : WInv B T pre k G)
    (hW : B.tag (.ds T) .write = some true) (hR : B.tag (.ds T) .read ≠ some true) :
    Holder.writeColumns G = pre.map (·.key) := by
  unfold Holder.writeColumns
  rw [h.targetTable hW hR]
  have hout : G.outEdges (.ds T) = pre.map (·.key) := by
    simp only [outEdges, h.edges]
    exact outEdges_star (.ds T) _
  simp only [hout]
  have hfil : (pre.map (·.key)).filter (fun c => G.ety (.ds T) c == some .hasColumn) = pre.map (·.key) := by
    rw [List.filter_eq_self]
    intro x hx; rw [h.ety x hx]; rfl
  have hs : (((pre.map (·.key)).map (fun c => (c, (G.idx (.ds T) c).getD 0))).map (·.2)).Pairwise (· ≤ ·) := by
    rw [List.map_map]; exact h.sorted
  rw [hfil, sortByIdx_sorted _ hs, List.map_map]
  exact List.map_id' _

theorem WInv.writeColObjs {B : LGraph} {T : DS} {pre : List Column} {k : Nat} {G : LGraph} (h : WInv B T pre k G)
    (hW : B.tag (.ds T) .write = some true) (hR : B.tag (.ds T) .read ≠ some true) :
    Walk.writeColObjs G = pre := by
  unfold Walk.writeColObjs
  rw [h.writeColumns hW hR, List.filterMap_map]
  have : ∀ c ∈ pre, ((colOf G) ∘ (·.key)) c = some c := by
    intro c hc
    simp only [Function.comp, colOf, h.pay c hc]
  exact filterMap_eq_self _ _ this

/-! ### `remove_nodes_from(write_columns)` -/

/-- the target and some column nodes hanging from it -/
structure Shape (T : DS) (ks : List Node) (G : LGraph) : Prop where
  nodes : G.nodes = .ds T :: ks
  edges : G.edges = ks.map (fun x => (Node.ds T, x))

private theorem shape_remove (T : DS) (k : Node) (ks : List Node) (G : LGraph) (h : Shape T (k :: ks) G)
    (hk : k ≠ .ds T) (hnd : k ∉ ks) :
    Shape T ks (if G.hasNode k then G.removeNode k else G) ∧
    (∀ t, (if G.hasNode k then G.removeNode k else G).tag (.ds T) t = G.tag (.ds T) t) ∧
    (if G.hasNode k then G.removeNode k else G).payload (.ds T) = G.payload (.ds T) := by
  have hin : G.hasNode k = true := by simp [hasNode, h.nodes]
  rw [if_pos hin]
  refine ⟨⟨?_, ?_⟩, fun t => tag_removeNode_ne G k _ t (fun e => hk e.symm), ?_⟩
  · simp only [removeNode, h.nodes, List.filter_cons]
    have h1 : decide (Node.ds T ≠ k) = true := by simpa using fun e : Node.ds T = k => hk e.symm
    have h2 : decide (k ≠ k) = false := by simp
    rw [h1, h2]
    simp only [if_true, Bool.false_eq_true, if_false, List.cons.injEq, true_and]
    rw [List.filter_eq_self]
    intro x hx; simpa using fun e : x = k => hnd (e ▸ hx)
  · simp only [removeNode, h.edges, List.map_cons, List.filter_cons]
    have h2 : decide ((Node.ds T, k).1 ≠ k ∧ (Node.ds T, k).2 ≠ k) = false := by simp
    rw [h2]
    simp only [Bool.false_eq_true, if_false]
    rw [List.filter_eq_self]
    intro e he
    obtain ⟨x, hx, rfl⟩ := List.mem_map.mp he
    have : x ≠ k := fun e => hnd (e ▸ hx)
    simpa using ⟨fun e : Node.ds T = k => hk e.symm, this⟩
  · have : Node.ds T ∈ G.nodes := by rw [h.nodes]; simp
    have h3 : Node.ds T ∈ (G.removeNode k).nodes := (mem_nodes_removeNode G k _).mpr ⟨this, fun e => hk e.symm⟩
    simp only [payload, hasNode, List.contains_iff_mem, this, h3, if_true]
    rfl

private theorem shape_removeAll (T : DS) : ∀ (ks : List Node) (G : LGraph), Shape T ks G → (∀ k ∈ ks, k ≠ .ds T) → ks.Nodup →
    Shape T [] (ks.foldl (fun g n => if g.hasNode n then g.removeNode n else g) G) ∧
    (∀ t, (ks.foldl (fun g n => if g.hasNode n then g.removeNode n else g) G).tag (.ds T) t = G.tag (.ds T) t) ∧
    (ks.foldl (fun g n => if g.hasNode n then g.removeNode n else g) G).payload (.ds T) = G.payload (.ds T)
  | [], G, h, _, _ => ⟨h, fun _ => rfl, rfl⟩
  | k :: ks, G, h, hk, hnd => by
    have hnd' := List.nodup_cons.mp hnd
    obtain ⟨s1, t1, p1⟩ := shape_remove T k ks G h (hk k (by simp)) hnd'.1
    obtain ⟨s2, t2, p2⟩ := shape_removeAll T ks _ s1 (fun k' hk' => hk k' (by simp [hk'])) hnd'.2
    simp only [List.foldl_cons]
    exact ⟨s2, fun t => (t2 t).trans (t1 t), p2.trans p1⟩

/-- after `remove_nodes_from(write_columns)` the holder is the target alone again, with its tags and key object -/
theorem WInv.drop {B : LGraph} {T : DS} {pre : List Column} {k : Nat} {G : LGraph} (h : WInv B T pre k G)
    (hW : B.tag (.ds T) .write = some true) (hR : B.tag (.ds T) .read ≠ some true) (hnd : (pre.map (·.key)).Nodup) :
    (dropWriteColumns G).nodes = [.ds T] ∧ (dropWriteColumns G).edges = [] ∧
    (∀ t, (dropWriteColumns G).tag (.ds T) t = B.tag (.ds T) t) ∧
    (dropWriteColumns G).payload (.ds T) = B.payload (.ds T) := by
  unfold dropWriteColumns
  rw [h.writeColumns hW hR]
  obtain ⟨s, t, p⟩ := shape_removeAll T (pre.map (·.key)) G ⟨h.nodes, h.edges⟩
    (by intro k hk; obtain ⟨c, _, rfl⟩ := List.mem_map.mp hk; exact key_ne_ds c T) hnd
  exact ⟨s.nodes, by simpa using s.edges, fun t' => (t t').trans (h.tagT t'), p.trans h.payT⟩

end WriteCols
end SqlLineage
