/-
Lemmas about `Paths.pathsFrom / simplePaths / columnLineage` (the model of `networkx.all_simple_paths` as used by
`ColumnLineageMixin.get_column_lineage`, core/holders.py:15‑52) for EVERY graph: soundness and completeness of the fuelled
depth‑first enumeration, the characterisation of `columnLineage`, cycle removal, and the graph invariants the path
theorems are stated under (`WF`: edge end points are nodes; `ColOut`: an edge leaving a column node is a LINEAGE edge to a
column node) together with their preservation by the graph / holder operations.  Core Lean only.
-/
import SqlLineage.Model.Paths
import SqlLineage.Model.HolderOps
import SqlLineage.Proofs.GraphLemmas

namespace SqlLineage.Paths
open SqlLineage Graph

/-! ### chains -/

/-- consecutive nodes of the list are joined by an edge of `g` (a walk written as its node list) -/
def IsChain (g : LGraph) : List Node → Prop
  | [] => True
  | [_] => True
  | a :: b :: r => (a, b) ∈ g.edges ∧ IsChain g (b :: r)

instance decIsChain (g : LGraph) : (p : List Node) → Decidable (IsChain g p)
  | [] => isTrue trivial
  | [_] => isTrue trivial
  | a :: b :: r =>
    match decIsChain g (b :: r) with
    | isTrue h => if he : (a, b) ∈ g.edges then isTrue ⟨he, h⟩ else isFalse (fun x => he x.1)
    | isFalse h => isFalse (fun x => h x.2)

@[simp] theorem isChain_nil (g : LGraph) : IsChain g [] := trivial
@[simp] theorem isChain_single (g : LGraph) (a : Node) : IsChain g [a] := trivial
theorem isChain_cons_cons (g : LGraph) (a b : Node) (r : List Node) :
    IsChain g (a :: b :: r) ↔ (a, b) ∈ g.edges ∧ IsChain g (b :: r) := Iff.rfl

theorem IsChain.tail {g : LGraph} {a : Node} {r : List Node} (h : IsChain g (a :: r)) : IsChain g r := by
  cases r with
  | nil => trivial
  | cons b r => exact h.2

/-- a suffix of a chain is a chain -/
theorem IsChain.suffix {g : LGraph} {p q : List Node} (h : IsChain g p) (hs : q <:+ p) : IsChain g q := by
  obtain ⟨pre, rfl⟩ := hs
  induction pre with
  | nil => exact h
  | cons a pre ih => exact ih (IsChain.tail h)

/-- every edge of a chain, as consecutive positions -/
theorem IsChain.edge_of_append {g : LGraph} : ∀ (l : List Node) (a b : Node) (r : List Node),
    IsChain g (l ++ a :: b :: r) → (a, b) ∈ g.edges
  | [], _, _, _, h => h.1
  | _ :: l, a, b, r, h => IsChain.edge_of_append l a b r (IsChain.tail h)

theorem isChain_append_singleton {g : LGraph} : ∀ (l : List Node) (a b : Node),
    IsChain g (l ++ [a]) → (a, b) ∈ g.edges → IsChain g (l ++ [a, b])
  | [], _, _, _, he => ⟨he, trivial⟩
  | [_], _, _, h, he => ⟨h.1, he, trivial⟩
  | _ :: y :: l, a, b, h, he => ⟨h.1, isChain_append_singleton (y :: l) a b h.2 he⟩

/-! ### the depth‑first enumeration: soundness and completeness -/

/-- SOUND: every path returned by `pathsFrom g fuel visited cur tgt` starts at `cur`, ends at `tgt`, follows edges of `g`,
    repeats no node and (after `cur`) avoids `visited`. -/
theorem pathsFrom_sound (g : LGraph) : ∀ (fuel : Nat) (visited : List Node) (cur tgt : Node) (p : List Node),
    p ∈ pathsFrom g fuel visited cur tgt →
      ∃ q, p = cur :: q ∧ p.getLast? = some tgt ∧ IsChain g p ∧ p.Nodup ∧ ∀ n ∈ q, n ∉ visited := by
  intro fuel
  induction fuel with
  | zero =>
    intro visited cur tgt p hp
    simp only [pathsFrom] at hp
    split at hp
    · rename_i h
      simp only [List.mem_singleton] at hp
      subst hp; subst h
      exact ⟨[], rfl, rfl, trivial, by simp, by simp⟩
    · simp at hp
  | succ fuel ih =>
    intro visited cur tgt p hp
    simp only [pathsFrom] at hp
    split at hp
    · rename_i h
      simp only [List.mem_singleton] at hp
      subst hp; subst h
      exact ⟨[], rfl, rfl, trivial, by simp, by simp⟩
    · simp only [List.mem_flatMap, List.mem_filter, List.mem_map, Bool.and_eq_true, Bool.not_eq_true',
        bne_iff_ne, ne_eq] at hp
      obtain ⟨n, ⟨hout, hvis, hne⟩, p', hp', rfl⟩ := hp
      obtain ⟨q', rfl, hlast, hchain, hnd, havoid⟩ := ih (cur :: visited) n tgt p' hp'
      have hnv : n ∉ visited := by
        intro hmem
        have : visited.contains n = true := by simpa using hmem
        rw [this] at hvis; cases hvis
      refine ⟨n :: q', rfl, ?_, ⟨(mem_outEdges g cur n).mp hout, hchain⟩, ?_, ?_⟩
      · rw [List.getLast?_cons_cons]; exact hlast
      · rw [List.nodup_cons]
        refine ⟨?_, hnd⟩
        intro hmem
        rcases List.mem_cons.mp hmem with h | h
        · exact hne h.symm
        · exact havoid cur h (List.mem_cons_self ..)
      · intro m hm
        rcases List.mem_cons.mp hm with h | h
        · subst h; exact hnv
        · exact fun hv => havoid m h (List.mem_cons_of_mem _ hv)

/-- COMPLETE: every duplicate‑free chain from `cur` to `tgt` that avoids `visited` and has at most `fuel` hops is returned. -/
theorem pathsFrom_complete (g : LGraph) : ∀ (fuel : Nat) (visited : List Node) (cur tgt : Node) (q : List Node),
    IsChain g (cur :: q) → (cur :: q).Nodup → (cur :: q).getLast? = some tgt → (∀ n ∈ q, n ∉ visited) →
      q.length ≤ fuel → cur :: q ∈ pathsFrom g fuel visited cur tgt := by
  intro fuel
  induction fuel with
  | zero =>
    intro visited cur tgt q _ _ hlast _ hlen
    have hq : q = [] := List.eq_nil_of_length_eq_zero (Nat.le_zero.mp hlen)
    subst hq
    simp only [List.getLast?_singleton, Option.some.injEq] at hlast
    simp [pathsFrom, hlast]
  | succ fuel ih =>
    intro visited cur tgt q hchain hnd hlast havoid hlen
    cases q with
    | nil =>
      simp only [List.getLast?_singleton, Option.some.injEq] at hlast
      simp [pathsFrom, hlast]
    | cons n q' =>
      rw [List.getLast?_cons_cons] at hlast
      have hnd' := List.nodup_cons.mp hnd
      have hne : cur ≠ tgt := by
        intro h
        exact hnd'.1 (h ▸ List.mem_of_getLast? hlast)
      have hncur : n ≠ cur := fun h => hnd'.1 (h ▸ List.mem_cons_self ..)
      simp only [pathsFrom, if_neg hne, List.mem_flatMap, List.mem_filter, List.mem_map, Bool.and_eq_true,
        Bool.not_eq_true', bne_iff_ne, ne_eq]
      refine ⟨n, ⟨(mem_outEdges g cur n).mpr hchain.1, ?_, hncur⟩, n :: q', ?_, rfl⟩
      · have := havoid n (List.mem_cons_self ..)
        simpa using this
      · apply ih (cur :: visited) n tgt q' hchain.2 hnd'.2 hlast
        · intro m hm hmem
          rcases List.mem_cons.mp hmem with h | h
          · exact hnd'.1 (h ▸ List.mem_cons_of_mem _ hm)
          · exact havoid m (List.mem_cons_of_mem _ hm) h
        · simpa using hlen

/-! ### well‑formed graphs and the fuel bound -/

/-- the end points of every edge are nodes (what `networkx` guarantees; every model operation preserves it) -/
def WF {ν π : Type} (g : Graph ν π) : Prop := ∀ e ∈ g.edges, e.1 ∈ g.nodes ∧ e.2 ∈ g.nodes

instance decWF {ν π : Type} [DecidableEq ν] (g : Graph ν π) : Decidable (WF g) := by
  unfold WF; exact inferInstance

theorem length_le_of_nodup_subset {α : Type} [DecidableEq α] : ∀ (l m : List α), l.Nodup → (∀ x ∈ l, x ∈ m) →
    l.length ≤ m.length
  | [], _, _, _ => Nat.zero_le _
  | a :: l, m, hnd, hsub => by
    have hnd' := List.nodup_cons.mp hnd
    have ha : a ∈ m := hsub a (List.mem_cons_self ..)
    have hsub' : ∀ x ∈ l, x ∈ m.erase a := by
      intro x hx
      have hxa : x ≠ a := fun h => hnd'.1 (h ▸ hx)
      exact (List.mem_erase_of_ne hxa).mpr (hsub x (List.mem_cons_of_mem _ hx))
    have ih := length_le_of_nodup_subset l (m.erase a) hnd'.2 hsub'
    rw [List.length_erase_of_mem ha] at ih
    have hpos : 0 < m.length := List.length_pos_of_mem ha
    simp only [List.length_cons]
    omega

/-- all nodes of a chain in a well‑formed graph that starts at a node of the graph are nodes of the graph -/
theorem IsChain.nodes_mem {g : LGraph} (hwf : WF g) : ∀ (p : List Node), IsChain g p →
    (∀ a, p.head? = some a → a ∈ g.nodes) → ∀ n ∈ p, n ∈ g.nodes
  | [], _, _, n, hn => by cases hn
  | [a], _, hh, n, hn => by
    simp only [List.mem_singleton] at hn
    subst hn; exact hh _ rfl
  | a :: b :: r, hc, hh, n, hn => by
    rcases List.mem_cons.mp hn with h | h
    · subst h; exact hh _ rfl
    · exact IsChain.nodes_mem hwf (b :: r) hc.2 (fun x hx => by
        simp only [List.head?_cons, Option.some.injEq] at hx
        subst hx; exact (hwf _ hc.1).2) n h

theorem simplePaths_sound (g : LGraph) (s t : Node) (p : List Node) (hp : p ∈ simplePaths g s t) :
    p.head? = some s ∧ p.getLast? = some t ∧ IsChain g p ∧ p.Nodup := by
  obtain ⟨q, rfl, hl, hc, hn, _⟩ := pathsFrom_sound g _ _ _ _ _ hp
  exact ⟨rfl, hl, hc, hn⟩

/-- with fuel = number of nodes, EVERY simple path of a well‑formed graph is returned -/
theorem simplePaths_complete (g : LGraph) (hwf : WF g) (s t : Node) (p : List Node) (hs : s ∈ g.nodes)
    (hhead : p.head? = some s) (hlast : p.getLast? = some t) (hc : IsChain g p) (hn : p.Nodup) :
    p ∈ simplePaths g s t := by
  cases p with
  | nil => cases hhead
  | cons a q =>
    simp only [List.head?_cons, Option.some.injEq] at hhead
    subst hhead
    apply pathsFrom_complete g _ [] a t q hc hn hlast (by simp)
    have hmem := IsChain.nodes_mem hwf (a :: q) hc (fun x hx => by
      simp only [List.head?_cons, Option.some.injEq] at hx; subst hx; exact hs)
    have := length_le_of_nodup_subset (a :: q) g.nodes hn hmem
    simp only [List.length_cons] at this
    omega

/-! ### `columnLineage` characterised -/

/-- the column view (`graph.subgraph(column_nodes)`, holders.py:27‑28) -/
def colGraph (g : LGraph) : LGraph := g.subgraph Node.isCol

/-- `source_columns`: column nodes of in‑degree 0 in the column view (holders.py:29) -/
def roots (g : LGraph) : List Node := (colGraph g).nodes.filter (fun n => (colGraph g).inDeg n == 0)

/-- `target_columns` with `exclude_path_ending_in_subquery=True`: column nodes of out‑degree 0 in the column view whose
    (unique) parent is a `Table` (holders.py:31‑39) -/
def leaves (g : LGraph) : List Node :=
  ((colGraph g).nodes.filter (fun n => (colGraph g).outDeg n == 0)).filter
    (fun n => match colParent n with | some d => d.isTable | none => false)

/-- `get_column_lineage()` with its default arguments -/
theorem mem_columnLineage (g : LGraph) (p : List Node) :
    p ∈ columnLineage g ↔ ∃ s ∈ roots g, ∃ t ∈ leaves g, p ∈ simplePaths g s t ∧ p.length > 1 := by
  simp only [columnLineage, roots, leaves, colGraph, List.mem_eraseDups, if_true, Bool.false_eq_true, if_false,
    List.mem_filter, List.mem_flatMap, decide_eq_true_eq]
  constructor
  · rintro ⟨⟨s, hs, t, ht, hp⟩, hl⟩
    exact ⟨s, hs, t, ht, hp, hl⟩
  · rintro ⟨s, hs, t, ht, hp, hl⟩
    exact ⟨⟨s, hs, t, ht, hp⟩, hl⟩

theorem mem_roots (g : LGraph) (n : Node) :
    n ∈ roots g ↔ n ∈ g.nodes ∧ n.isCol = true ∧ ∀ u, (u, n) ∈ g.edges → u.isCol = false := by
  simp only [roots, colGraph, List.mem_filter, mem_nodes_subgraph, beq_iff_eq, inDeg_eq_zero_iff, mem_edges_subgraph]
  constructor
  · rintro ⟨⟨hn, hc⟩, h⟩
    refine ⟨hn, hc, fun u hu => ?_⟩
    cases hcu : u.isCol with
    | false => rfl
    | true => exact absurd ⟨hu, hcu, hc⟩ (h u)
  · rintro ⟨hn, hc, h⟩
    refine ⟨⟨hn, hc⟩, fun u hu => ?_⟩
    have := h u hu.1
    rw [hu.2.1] at this; cases this

theorem mem_leaves (g : LGraph) (n : Node) :
    n ∈ leaves g ↔ n ∈ g.nodes ∧ n.isCol = true ∧ (∀ v, (n, v) ∈ g.edges → v.isCol = false) ∧
      ∃ d, colParent n = some d ∧ d.isTable = true := by
  simp only [leaves, colGraph, List.mem_filter, mem_nodes_subgraph, beq_iff_eq, outDeg_eq_zero_iff, mem_edges_subgraph]
  constructor
  · rintro ⟨⟨⟨hn, hc⟩, h⟩, hp⟩
    refine ⟨hn, hc, fun v hv => ?_, ?_⟩
    · cases hcv : v.isCol with
      | false => rfl
      | true => exact absurd ⟨hv, hc, hcv⟩ (h v)
    · cases hcp : colParent n with
      | none => rw [hcp] at hp; cases hp
      | some d => rw [hcp] at hp; exact ⟨d, rfl, hp⟩
  · rintro ⟨hn, hc, h, d, hd, hdt⟩
    refine ⟨⟨⟨hn, hc⟩, fun v hv => ?_⟩, ?_⟩
    · have := h v hv.1
      rw [hv.2.2] at this; cases this
    · rw [hd]; exact hdt

/-! ### cycle removal: a walk contains a simple path with the same end points -/

theorem getLast?_suffix_cons {α : Type} (pre : List α) (x : α) (q : List α) :
    (pre ++ x :: q).getLast? = (x :: q).getLast? := by
  rw [List.getLast?_append]
  cases h : (x :: q).getLast? with
  | none => simp at h
  | some b => rfl

theorem exists_simple_of_chain (g : LGraph) : ∀ (l : List Node), IsChain g l → ∀ a b, l.head? = some a →
    l.getLast? = some b →
      ∃ p, p.head? = some a ∧ p.getLast? = some b ∧ IsChain g p ∧ p.Nodup ∧ ∀ n ∈ p, n ∈ l
  | [], _, _, _, h, _ => by cases h
  | [x], _, a, b, hh, hl => ⟨[x], hh, hl, trivial, by simp, fun _ h => h⟩
  | x :: y :: r, hc, a, b, hh, hl => by
    simp only [List.head?_cons, Option.some.injEq] at hh
    subst hh
    rw [List.getLast?_cons_cons] at hl
    obtain ⟨p', hh', hl', hc', hn', hsub'⟩ := exists_simple_of_chain g (y :: r) hc.2 y b rfl hl
    by_cases hx : x ∈ p'
    · obtain ⟨pre, q, rfl⟩ := List.append_of_mem hx
      refine ⟨x :: q, rfl, ?_, IsChain.suffix hc' ⟨pre, rfl⟩, ?_, ?_⟩
      · rw [← hl']; exact (getLast?_suffix_cons pre x q).symm
      · exact List.Nodup.sublist (List.IsSuffix.sublist ⟨pre, rfl⟩) hn'
      · intro n hn
        rcases List.mem_cons.mp hn with h | h
        · subst h; exact List.mem_cons_self ..
        · exact List.mem_cons_of_mem _ (hsub' n (List.mem_append_right _ (List.mem_cons_of_mem _ h)))
    · cases p' with
      | nil => cases hh'
      | cons y' q' =>
        simp only [List.head?_cons, Option.some.injEq] at hh'
        subst hh'
        refine ⟨x :: y' :: q', rfl, ?_, ⟨hc.1, hc'⟩, List.nodup_cons.mpr ⟨hx, hn'⟩, ?_⟩
        · rw [List.getLast?_cons_cons]; exact hl'
        · intro n hn
          rcases List.mem_cons.mp hn with h | h
          · subst h; exact List.mem_cons_self ..
          · exact List.mem_cons_of_mem _ (hsub' n h)

/-! ### reachability (`Relation.TransGen` of the edge relation) and chains -/

/-- `u → v` is an edge of `g` -/
def Edge (g : LGraph) (u v : Node) : Prop := (u, v) ∈ g.edges

theorem transGen_of_chain (g : LGraph) : ∀ (l : List Node) (a b : Node), IsChain g (a :: l) → l ≠ [] →
    (a :: l).getLast? = some b → Relation.TransGen (Edge g) a b
  | [], _, _, _, h, _ => absurd rfl h
  | [x], a, b, hc, _, hl => by
    simp only [List.getLast?_cons_cons, List.getLast?_singleton, Option.some.injEq] at hl
    subst hl; exact .single hc.1
  | x :: y :: r, a, b, hc, _, hl => by
    rw [List.getLast?_cons_cons] at hl
    exact Relation.TransGen.trans (.single hc.1) (transGen_of_chain g (y :: r) x b hc.2 (by simp) hl)

theorem chain_of_transGen (g : LGraph) (a b : Node) (h : Relation.TransGen (Edge g) a b) :
    ∃ l, l.head? = some a ∧ l.getLast? = some b ∧ IsChain g l := by
  induction h with
  | single h => exact ⟨[a, _], rfl, rfl, ⟨h, trivial⟩⟩
  | @tail b' c _ hbc ih =>
    obtain ⟨l, hh, hl, hc⟩ := ih
    obtain ⟨ys, rfl⟩ := List.getLast?_eq_some_iff.mp hl
    refine ⟨ys ++ [b', c], ?_, ?_, isChain_append_singleton ys b' c hc hbc⟩
    · cases ys with
      | nil => simpa using hh
      | cons y ys => simpa using hh
    · rw [List.getLast?_append]; rfl

/-- reachability is witnessed by a SIMPLE path -/
theorem simple_of_transGen (g : LGraph) (a b : Node) (h : Relation.TransGen (Edge g) a b) :
    ∃ p, p.head? = some a ∧ p.getLast? = some b ∧ IsChain g p ∧ p.Nodup := by
  obtain ⟨l, hh, hl, hc⟩ := chain_of_transGen g a b h
  obtain ⟨p, h1, h2, h3, h4, _⟩ := exists_simple_of_chain g l hc a b hh hl
  exact ⟨p, h1, h2, h3, h4⟩

/-! ### `WF` is preserved by every graph operation -/

section wf
variable {ν π : Type} [DecidableEq ν]

omit [DecidableEq ν] in
theorem wf_empty : WF (Graph.empty : Graph ν π) := by intro e he; cases he

theorem wf_addNode (g : Graph ν π) (n : ν) (p : Option π) (h : WF g) : WF (g.addNode n p) := by
  intro e he
  rw [edges_addNode] at he
  exact ⟨(mem_nodes_addNode ..).mpr (Or.inl (h e he).1), (mem_nodes_addNode ..).mpr (Or.inl (h e he).2)⟩

theorem wf_setTag (g : Graph ν π) (n : ν) (t : Tag) (b : Bool) (p : Option π) (h : WF g) : WF (g.setTag n t b p) := by
  intro e he
  rw [edges_setTag] at he
  exact ⟨(mem_nodes_setTag ..).mpr (Or.inl (h e he).1), (mem_nodes_setTag ..).mpr (Or.inl (h e he).2)⟩

theorem wf_setTags (g : Graph ν π) (ns : List ν) (t : Tag) (b : Bool) (h : WF g) : WF (g.setTags ns t b) := h

theorem wf_addEdge (g : Graph ν π) (u v : ν) (ty : EType) (i : Option Nat) (pu pv : Option π) (h : WF g) :
    WF (g.addEdge u v ty i pu pv) := by
  intro e he
  rcases (mem_edges_addEdge ..).mp he with h' | h'
  · exact ⟨(mem_nodes_addEdge ..).mpr (Or.inl (h e h').1), (mem_nodes_addEdge ..).mpr (Or.inl (h e h').2)⟩
  · subst h'
    exact ⟨(mem_nodes_addEdge ..).mpr (Or.inr (Or.inl rfl)), (mem_nodes_addEdge ..).mpr (Or.inr (Or.inr rfl))⟩

theorem wf_compose (g h : Graph ν π) (hg : WF g) (hh : WF h) : WF (g.compose h) := by
  intro e he
  rcases (mem_edges_compose ..).mp he with h' | h'
  · exact ⟨(mem_nodes_compose ..).mpr (Or.inl (hg e h').1), (mem_nodes_compose ..).mpr (Or.inl (hg e h').2)⟩
  · exact ⟨(mem_nodes_compose ..).mpr (Or.inr (hh e h').1), (mem_nodes_compose ..).mpr (Or.inr (hh e h').2)⟩

theorem wf_removeNode (g : Graph ν π) (n : ν) (h : WF g) : WF (g.removeNode n) := by
  intro e he
  obtain ⟨he', h1, h2⟩ := (mem_edges_removeNode ..).mp he
  exact ⟨(mem_nodes_removeNode ..).mpr ⟨(h e he').1, h1⟩, (mem_nodes_removeNode ..).mpr ⟨(h e he').2, h2⟩⟩

theorem wf_removeEdge (g g' : Graph ν π) (u v : ν) (hr : g.removeEdge? u v = some g') (h : WF g) : WF g' := by
  intro e he
  have he' := ((mem_edges_removeEdge g g' u v hr e).mp he).1
  exact ⟨(mem_nodes_removeEdge g g' u v hr _).mpr (h e he').1, (mem_nodes_removeEdge g g' u v hr _).mpr (h e he').2⟩

omit [DecidableEq ν] in
theorem wf_subgraph (g : Graph ν π) (keep : ν → Bool) (h : WF g) : WF (g.subgraph keep) := by
  intro e he
  obtain ⟨he', h1, h2⟩ := (mem_edges_subgraph ..).mp he
  exact ⟨(mem_nodes_subgraph ..).mpr ⟨(h e he').1, h1⟩, (mem_nodes_subgraph ..).mpr ⟨(h e he').2, h2⟩⟩

theorem wf_relabel (g : Graph ν π) (old new : ν) (p : Option π) (h : WF g) : WF (g.relabel old new p) := by
  intro e he
  obtain ⟨a, b, hab, rfl⟩ := (mem_edges_relabel ..).mp he
  have hab' := h _ (mem_edgesOrdered g _ hab)
  exact ⟨(mem_nodes_relabel ..).mpr ⟨a, hab'.1, rfl⟩, (mem_nodes_relabel ..).mpr ⟨b, hab'.2, rfl⟩⟩

omit [DecidableEq ν] in
theorem wf_foldl {α : Type} (f : Graph ν π → α → Graph ν π) (hf : ∀ g a, WF g → WF (f g a)) :
    ∀ (l : List α) (g : Graph ν π), WF g → WF (l.foldl f g)
  | [], _, h => h
  | a :: l, g, h => wf_foldl f hf l (f g a) (hf g a h)

end wf

/-! ### the invariant `ColOut`: an edge leaving a column node is a LINEAGE edge to a column node

`nx.all_simple_paths` runs on the FULL graph (holders.py:42), which also holds tables, alias strings and HAS_COLUMN edges;
that reported paths consist of columns only and of LINEAGE hops only rests on this invariant of the graphs the holders build. -/

def ColOut (g : LGraph) : Prop :=
  ∀ u v, (u, v) ∈ g.edges → u.isCol = true → v.isCol = true ∧ g.ety u v = some .lineage

theorem ety_of_mem (g : LGraph) (u v : Node) (h : (u, v) ∈ g.edges) : g.ety u v = some (g.etype u v) := by
  simp [ety, hasEdge, h]

theorem ety_compose (g h : LGraph) (u v : Node) :
    (g.compose h).ety u v = if (u, v) ∈ h.edges then h.ety u v else g.ety u v := by
  by_cases hh : (u, v) ∈ h.edges
  · have hm : (u, v) ∈ (g.compose h).edges := (mem_edges_compose ..).mpr (Or.inr hh)
    rw [if_pos hh, ety_of_mem _ _ _ hm, ety_of_mem _ _ _ hh]
    simp [compose, hasEdge, hh]
  · rw [if_neg hh]
    by_cases hg : (u, v) ∈ g.edges
    · have hm : (u, v) ∈ (g.compose h).edges := (mem_edges_compose ..).mpr (Or.inl hg)
      rw [ety_of_mem _ _ _ hm, ety_of_mem _ _ _ hg]
      simp [compose, hasEdge, hh]
    · have hm : (u, v) ∉ (g.compose h).edges := fun x => by
        rcases (mem_edges_compose ..).mp x with y | y
        · exact hg y
        · exact hh y
      simp [ety, hasEdge, hm, hg]

theorem ety_removeNode (g : LGraph) (n u v : Node) (h : (u, v) ∈ (g.removeNode n).edges) :
    (g.removeNode n).ety u v = g.ety u v := by
  rw [ety_of_mem _ _ _ h, ety_of_mem _ _ _ ((mem_edges_removeNode ..).mp h).1]
  rfl

theorem ety_removeEdge (g g' : LGraph) (a b u v : Node) (hr : g.removeEdge? a b = some g') (h : (u, v) ∈ g'.edges) :
    g'.ety u v = g.ety u v := by
  rw [ety_of_mem _ _ _ h, ety_of_mem _ _ _ ((mem_edges_removeEdge g g' a b hr _).mp h).1]
  unfold removeEdge? at hr
  split at hr
  · cases hr; rfl
  · cases hr

theorem colOut_empty : ColOut (Graph.empty : LGraph) := by intro u v h; cases h

theorem colOut_addNode (g : LGraph) (n : Node) (p : Option Payload) (h : ColOut g) : ColOut (g.addNode n p) := by
  intro u v huv hu
  rw [edges_addNode] at huv
  rw [ety_addNode]; exact h u v huv hu

theorem colOut_setTag (g : LGraph) (n : Node) (t : Tag) (b : Bool) (p : Option Payload) (h : ColOut g) :
    ColOut (g.setTag n t b p) := by
  intro u v huv hu
  rw [edges_setTag] at huv
  rw [ety_setTag]; exact h u v huv hu

theorem colOut_setTags (g : LGraph) (ns : List Node) (t : Tag) (b : Bool) (h : ColOut g) : ColOut (g.setTags ns t b) := h

/-- adding an edge keeps the invariant when the new edge itself respects it -/
theorem colOut_addEdge (g : LGraph) (u v : Node) (ty : EType) (i : Option Nat) (pu pv : Option Payload) (h : ColOut g)
    (hnew : u.isCol = true → v.isCol = true ∧ ty = .lineage) : ColOut (g.addEdge u v ty i pu pv) := by
  intro a b hab ha
  rw [ety_addEdge]
  by_cases hc : a = u ∧ b = v
  · obtain ⟨rfl, rfl⟩ := hc
    rw [if_pos ⟨rfl, rfl⟩]
    obtain ⟨h1, rfl⟩ := hnew ha
    exact ⟨h1, rfl⟩
  · rw [if_neg hc]
    rcases (mem_edges_addEdge ..).mp hab with h' | h'
    · exact h a b h' ha
    · exact absurd (by simpa using h') hc

theorem colOut_compose (g h : LGraph) (hg : ColOut g) (hh : ColOut h) : ColOut (g.compose h) := by
  intro u v huv hu
  rw [ety_compose]
  by_cases hm : (u, v) ∈ h.edges
  · rw [if_pos hm]; exact hh u v hm hu
  · rw [if_neg hm]
    rcases (mem_edges_compose ..).mp huv with h' | h'
    · exact hg u v h' hu
    · exact absurd h' hm

theorem colOut_removeNode (g : LGraph) (n : Node) (h : ColOut g) : ColOut (g.removeNode n) := by
  intro u v huv hu
  rw [ety_removeNode g n u v huv]
  exact h u v ((mem_edges_removeNode ..).mp huv).1 hu

theorem colOut_removeEdge (g g' : LGraph) (a b : Node) (hr : g.removeEdge? a b = some g') (h : ColOut g) : ColOut g' := by
  intro u v huv hu
  rw [ety_removeEdge g g' a b u v hr huv]
  exact h u v ((mem_edges_removeEdge g g' a b hr _).mp huv).1 hu

theorem colOut_foldl {α : Type} (f : LGraph → α → LGraph) (hf : ∀ g a, ColOut g → ColOut (f g a)) :
    ∀ (l : List α) (g : LGraph), ColOut g → ColOut (l.foldl f g)
  | [], _, h => h
  | a :: l, g, h => colOut_foldl f hf l (f g a) (hf g a h)

@[simp] theorem isCol_key (c : Column) : c.key.isCol = true := rfl
@[simp] theorem isCol_ds (d : DS) : (Node.ds d).isCol = false := rfl

/-! holder operations (core/holders.py:83‑152) -/

theorem colOut_addRead (g : LGraph) (d : DS) (a : Option String) (p : Option Payload) (h : ColOut g) :
    ColOut (Holder.addRead g d a p) := by
  unfold Holder.addRead
  cases a with
  | none => exact colOut_setTag _ _ _ _ _ h
  | some a => exact colOut_addEdge _ _ _ _ _ _ _ (colOut_setTag _ _ _ _ _ h) (fun hc => by simp at hc)

theorem colOut_addWrite (g : LGraph) (d : DS) (p : Option Payload) (h : ColOut g) : ColOut (Holder.addWrite g d p) :=
  colOut_setTag _ _ _ _ _ h

/-- `add_column_lineage(src, tgt)` (holders.py:144‑152) -/
theorem colOut_addColumnLineage (g g' : LGraph) (src tgt : Column) (h : ColOut g)
    (hr : Holder.addColumnLineage g src tgt = .ok g') : ColOut g' := by
  unfold Holder.addColumnLineage at hr
  cases htp : tgt.parent? with
  | none => rw [htp] at hr; cases hr
  | some tp =>
    rw [htp] at hr
    simp only at hr
    have h1 := colOut_addEdge g src.key tgt.key .lineage none (some (.col src)) (some (.col tgt)) h
      (fun _ => ⟨rfl, rfl⟩)
    have h2 := colOut_addEdge _ (.ds tp.1) tgt.key .hasColumn none (some (.sub tp.2)) (some (.col tgt)) h1
      (fun hc => by simp at hc)
    cases hsp : src.parent? with
    | none =>
      rw [hsp] at hr
      rw [← Except.ok.inj hr]; exact h2
    | some sp =>
      rw [hsp] at hr
      rw [← Except.ok.inj hr]
      exact colOut_addEdge _ _ _ _ _ _ _ h2 (fun hc => by simp at hc)

/-- `add_write_column(*cols)` (holders.py:125‑142) -/
theorem colOut_addWriteColumns (g : LGraph) (cols : List Column) (h : ColOut g) :
    ColOut (Holder.addWriteColumns g cols) := by
  unfold Holder.addWriteColumns
  cases (Holder.writeSet g).head? with
  | none => exact h
  | some t =>
    exact colOut_foldl _ (fun g ci hg => colOut_addEdge _ _ _ _ _ _ _ hg (fun hc => by simp at hc)) _ g h

/-- COLUMNS ONLY: in a `ColOut` graph a chain that starts at a column node consists of column nodes, and each hop is a
    LINEAGE edge -/
theorem IsChain.columns_only {g : LGraph} (hco : ColOut g) : ∀ (p : List Node), IsChain g p →
    (∀ a, p.head? = some a → a.isCol = true) → ∀ n ∈ p, n.isCol = true
  | [], _, _, n, hn => by cases hn
  | [a], _, hh, n, hn => by
    simp only [List.mem_singleton] at hn
    subst hn; exact hh _ rfl
  | a :: b :: r, hc, hh, n, hn => by
    rcases List.mem_cons.mp hn with h | h
    · subst h; exact hh _ rfl
    · exact IsChain.columns_only hco (b :: r) hc.2 (fun x hx => by
        simp only [List.head?_cons, Option.some.injEq] at hx
        subst hx; exact (hco a _ hc.1 (hh _ rfl)).1) n h

theorem IsChain.lineage_hops {g : LGraph} (hco : ColOut g) : ∀ (l : List Node) (a b : Node) (r : List Node),
    IsChain g (l ++ a :: b :: r) → (∀ x, (l ++ a :: b :: r).head? = some x → x.isCol = true) →
      g.ety a b = some .lineage := by
  intro l a b r hc hh
  have hcols := IsChain.columns_only hco _ hc hh
  exact (hco a b (IsChain.edge_of_append l a b r hc) (hcols a (by simp))).2

end SqlLineage.Paths
