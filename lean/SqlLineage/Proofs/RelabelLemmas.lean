/-
Lemmas for `Props/C03.lean :: rename_in_place`: what `relabel old new` does to tags and edge attributes when `new`
carries no edge, one RENAME pair of the statement fold on an arbitrary well‑formed state (`renameOne_*`), and the three role
predicates expressed through atoms that move with the relabelling (`Moved`); every state of the fold over any history of abstract
statements is well‑formed and free of SELFLOOP tags (`fold_wf`, `fold_no_selfloop_tag`).  Core Lean only.
-/
import SqlLineage.Proofs.AStmtLemmas

namespace SqlLineage.Graph
variable {ν π : Type} [DecidableEq ν]

/-! ### lists -/

theorem getLast?_of_forall_eq {α : Type} (l : List α) (a : α) (hne : l ≠ []) (h : ∀ b ∈ l, b = a) :
    l.getLast? = some a := by
  rw [List.getLast?_eq_some_getLast hne]
  exact congrArg some (h _ (List.getLast_mem hne))

/-! ### well‑formed graphs: every edge joins two nodes -/

def WF (g : Graph ν π) : Prop := ∀ e ∈ g.edges, e.1 ∈ g.nodes ∧ e.2 ∈ g.nodes

theorem mem_edgesOrdered_wf (g : Graph ν π) (h : WF g) (e : ν × ν) : e ∈ g.edgesOrdered ↔ e ∈ g.edges := by
  rw [mem_edgesOrdered_iff]
  exact ⟨fun a => a.1, fun a => ⟨a, (h e a).1⟩⟩

theorem degree_eq_zero_of_not_mem (g : Graph ν π) (h : WF g) (n : ν) (hn : n ∉ g.nodes) : g.degree n = 0 := by
  rw [degree_eq_zero_iff]
  intro e he
  exact ⟨fun a => hn (a ▸ (h e he).1), fun a => hn (a ▸ (h e he).2)⟩

/-! ### rmap -/

theorem rmap_old (old new : ν) : rmap old new old = new := by simp [rmap]

theorem rmap_of_ne (old new n : ν) (h : n ≠ old) : rmap old new n = n := by simp [rmap, h]

theorem rmap_new (old new : ν) : rmap old new new = new := by
  unfold rmap; split <;> rfl

/-- `rmap old new` is injective on nodes other than `new` -/
theorem rmap_inj (old new a b : ν) (ha : a ≠ new) (hb : b ≠ new) (h : rmap old new a = rmap old new b) : a = b := by
  unfold rmap at h
  by_cases h1 : a = old <;> by_cases h2 : b = old
  · rw [h1, h2]
  · rw [if_pos h1, if_neg h2] at h; exact absurd h.symm hb
  · rw [if_neg h1, if_pos h2] at h; exact absurd h ha
  · rw [if_neg h1, if_neg h2] at h; exact h

theorem rmap_eq_new_iff (old new a : ν) (ha : a ≠ new) : rmap old new a = new ↔ a = old := by
  unfold rmap
  constructor
  · intro h
    by_cases h1 : a = old
    · exact h1
    · rw [if_neg h1] at h; exact absurd h ha
  · intro h; rw [if_pos h]

theorem rmap_ne_old (old new a : ν) (h : old ≠ new) : rmap old new a ≠ old := by
  unfold rmap
  by_cases h1 : a = old
  · rw [if_pos h1]; exact fun e => h e.symm
  · rw [if_neg h1]; exact h1

/-! ### relabel: tags -/

/-- a node other than `old` and `new` keeps its attribute dict -/
theorem tag_relabel_of_ne (k : Graph ν π) (old new n : ν) (p : Option π) (t : Tag) (h1 : n ≠ old) (h2 : n ≠ new) :
    (k.relabel old new p).tag n t = k.tag n t := by
  by_cases hn : n ∈ k.nodes
  · have hn' : n ∈ (k.relabel old new p).nodes := (mem_nodes_relabel k old new n p).mpr ⟨n, hn, rmap_of_ne old new n h1⟩
    rw [tag_of_mem _ _ _ hn', tag_of_mem _ _ _ hn]
    have hl : (k.nodes.filter (fun a => decide ((if a = old then new else a) = n))).getLast? = some n := by
      apply getLast?_of_forall_eq
      · intro he
        have : n ∈ k.nodes.filter (fun a => decide ((if a = old then new else a) = n)) := by
          simp only [List.mem_filter, decide_eq_true_eq]; exact ⟨hn, by rw [if_neg h1]⟩
        rw [he] at this; simp at this
      · intro b hb
        simp only [List.mem_filter, decide_eq_true_eq] at hb
        by_cases hbo : b = old
        · rw [if_pos hbo] at hb; exact absurd hb.2.symm h2
        · rw [if_neg hbo] at hb; exact hb.2
    show (match (k.nodes.filter (fun a => decide ((if a = old then new else a) = n))).getLast? with
      | some m => k.ntag m t | none => none) = k.ntag n t
    rw [hl]
  · have hn' : n ∉ (k.relabel old new p).nodes := by
      rw [mem_nodes_relabel]
      rintro ⟨a, ha, hm⟩
      by_cases hao : a = old
      · rw [hao, rmap_old] at hm; exact h2 hm.symm
      · rw [rmap_of_ne _ _ _ hao] at hm; exact hn (hm ▸ ha)
    rw [tag_of_not_mem _ _ _ hn', tag_of_not_mem _ _ _ hn]

/-- when `new` is the LAST node of the graph (the freshly composed node of the RENAME statement's holder), it keeps its own
    attribute dict — whatever `old` carried is lost (`H._node.update`: last writer wins) -/
theorem tag_relabel_new_last (k : Graph ν π) (old new : ν) (p : Option π) (t : Tag) (l : List ν)
    (hk : k.nodes = l ++ [new]) : (k.relabel old new p).tag new t = k.tag new t := by
  have hn : new ∈ k.nodes := by rw [hk]; simp
  have hn' : new ∈ (k.relabel old new p).nodes := (mem_nodes_relabel k old new new p).mpr ⟨new, hn, rmap_new old new⟩
  rw [tag_of_mem _ _ _ hn', tag_of_mem _ _ _ hn]
  have hl : (k.nodes.filter (fun a => decide ((if a = old then new else a) = new))).getLast? = some new := by
    rw [hk, List.filter_append]
    simp
  show (match (k.nodes.filter (fun a => decide ((if a = old then new else a) = new))).getLast? with
    | some m => k.ntag m t | none => none) = k.ntag new t
  rw [hl]

/-! ### relabel: edge attributes -/

/-- the edge type travels with the edge when `new` carries no edge -/
theorem etype_relabel (k : Graph ν π) (old new : ν) (p : Option π)
    (hfresh : ∀ e ∈ k.edges, e.1 ≠ new ∧ e.2 ≠ new) (a b : ν) (hab : (a, b) ∈ k.edgesOrdered) :
    (k.relabel old new p).etype (rmap old new a) (rmap old new b) = k.etype a b := by
  have hf := hfresh _ (mem_edgesOrdered k _ hab)
  have hl : (k.edgesOrdered.filter (fun e => decide ((if e.1 = old then new else e.1) = rmap old new a ∧
      (if e.2 = old then new else e.2) = rmap old new b))).getLast? = some (a, b) := by
    apply getLast?_of_forall_eq
    · intro he
      have : (a, b) ∈ k.edgesOrdered.filter (fun e => decide ((if e.1 = old then new else e.1) = rmap old new a ∧
          (if e.2 = old then new else e.2) = rmap old new b)) := by
        simp only [List.mem_filter, decide_eq_true_eq]; exact ⟨hab, rfl, rfl⟩
      rw [he] at this; simp at this
    · rintro ⟨c, d⟩ hcd
      simp only [List.mem_filter, decide_eq_true_eq] at hcd
      have hf' := hfresh _ (mem_edgesOrdered k _ hcd.1)
      have e1 : c = a := rmap_inj old new c a hf'.1 hf.1 hcd.2.1
      have e2 : d = b := rmap_inj old new d b hf'.2 hf.2 hcd.2.2
      rw [e1, e2]
  show (match (k.edgesOrdered.filter (fun e => decide ((if e.1 = old then new else e.1) = rmap old new a ∧
      (if e.2 = old then new else e.2) = rmap old new b))).getLast? with
    | some e => k.etype e.1 e.2 | none => EType.lineage) = k.etype a b
  rw [hl]

end SqlLineage.Graph

namespace SqlLineage.AStmt
open SqlLineage Graph Holder Assemble

/-! ### one RENAME pair of the statement fold, on an arbitrary well‑formed state

`h` is the statement holder of `RENAME a TO b`: the two nodes, the RENAME edge, no tag.  `renState g h a b` is the graph the pair
is applied to (composed, the statement's RENAME edge removed), `renameOne (renState g h a b) (a, b)` the result. -/

structure RenHolder (h : LGraph) (a b : Node) : Prop where
  nodes : h.nodes = [a, b]
  edges : h.edges = [(a, b)]
  tags : ∀ n t, h.tag n t = none

def renState (g h : LGraph) (a b : Node) : LGraph := removeEdges (g.compose h) [(a, b)]

section
variable {g h : LGraph} {a b : Node}

theorem not_mem_edges_of_new (hwf : WF g) (hb : b ∉ g.nodes) : ∀ e ∈ g.edges, e.1 ≠ b ∧ e.2 ≠ b :=
  fun e he => ⟨fun x => hb (x ▸ (hwf e he).1), fun x => hb (x ▸ (hwf e he).2)⟩

theorem renState_nodes (hh : RenHolder h a b) (hb : b ∉ g.nodes) :
    ∃ l, (renState g h a b).nodes = l ++ [b] ∧ ∀ n, n ∈ l ↔ n ∈ g.nodes ∨ n = a := by
  have hbn : g.hasNode b = false := (hasNode_false_iff g b).mpr hb
  by_cases ha : a ∈ g.nodes
  · refine ⟨g.nodes, ?_, fun n => ⟨Or.inl, fun x => x.elim id (fun e => e ▸ ha)⟩⟩
    have han : g.hasNode a = true := (hasNode_iff g a).mpr ha
    show g.nodes ++ h.nodes.filter (fun n => !g.hasNode n) = g.nodes ++ [b]
    rw [hh.nodes]; simp [han, hbn]
  · refine ⟨g.nodes ++ [a], ?_, fun n => by simp⟩
    have han : g.hasNode a = false := (hasNode_false_iff g a).mpr ha
    show g.nodes ++ h.nodes.filter (fun n => !g.hasNode n) = g.nodes ++ [a] ++ [b]
    rw [hh.nodes]; simp [han, hbn]

theorem mem_renState_nodes (hh : RenHolder h a b) (n : Node) :
    n ∈ (renState g h a b).nodes ↔ n ∈ g.nodes ∨ n = a ∨ n = b := by
  show n ∈ (g.compose h).nodes ↔ _
  rw [mem_nodes_compose, hh.nodes]; simp

theorem mem_renState_edges (hh : RenHolder h a b) (hwf : WF g) (hb : b ∉ g.nodes) (e : Node × Node) :
    e ∈ (renState g h a b).edges ↔ e ∈ g.edges := by
  have hne : (a, b) ∉ g.edges := fun x => (not_mem_edges_of_new hwf hb _ x).2 rfl
  have hc : (![(a, b)].contains e) = true ↔ e ≠ (a, b) := by simp
  show e ∈ (g.compose h).edges.filter (fun e => ![(a, b)].contains e) ↔ _
  rw [List.mem_filter, hc, mem_edges_compose, hh.edges, List.mem_singleton]
  constructor
  · rintro ⟨x | x, y⟩
    · exact x
    · exact absurd x y
  · intro x; exact ⟨Or.inl x, fun y => hne (y ▸ x)⟩

theorem renState_tag (hh : RenHolder h a b) (n : Node) (t : Tag) : (renState g h a b).tag n t = g.tag n t := by
  show (g.compose h).tag n t = _
  rw [tag_compose, hh.tags]

theorem renState_etype (hh : RenHolder h a b) (hwf : WF g) (hb : b ∉ g.nodes) (u v : Node) (huv : (u, v) ∈ g.edges) :
    (renState g h a b).etype u v = g.etype u v := by
  have hne : (u, v) ≠ (a, b) := fun x => (not_mem_edges_of_new hwf hb _ huv).2 (by rw [x])
  have : h.hasEdge u v = false := by
    simp only [hasEdge, hh.edges]; simpa using hne
  show (if h.hasEdge u v then h.etype u v else g.etype u v) = _
  rw [this]; rfl

theorem renState_wf (hh : RenHolder h a b) (hwf : WF g) (hb : b ∉ g.nodes) : WF (renState g h a b) := by
  intro e he
  have := hwf e ((mem_renState_edges hh hwf hb e).mp he)
  exact ⟨(mem_renState_nodes hh _).mpr (Or.inl this.1), (mem_renState_nodes hh _).mpr (Or.inl this.2)⟩

/-! the relabelled graph, before the isolated new name is dropped -/

theorem mem_relabelled_nodes (hh : RenHolder h a b) (hb : b ∉ g.nodes) (n : Node) :
    n ∈ ((renState g h a b).relabel a b).nodes ↔ (n ≠ a ∧ n ∈ g.nodes) ∨ n = b := by
  rw [mem_nodes_relabel]
  constructor
  · rintro ⟨m, hm, rfl⟩
    by_cases hma : m = a
    · rw [hma, rmap_old]; exact Or.inr rfl
    · rw [rmap_of_ne _ _ _ hma]
      rcases (mem_renState_nodes hh m).mp hm with x | x | x
      · exact Or.inl ⟨hma, x⟩
      · exact absurd x hma
      · exact Or.inr x
  · rintro (⟨x, y⟩ | rfl)
    · exact ⟨n, (mem_renState_nodes hh n).mpr (Or.inl y), rmap_of_ne _ _ _ x⟩
    · exact ⟨n, (mem_renState_nodes hh n).mpr (Or.inr (Or.inr rfl)), rmap_new _ _⟩

theorem mem_relabelled_edges (hh : RenHolder h a b) (hwf : WF g) (hb : b ∉ g.nodes) (e : Node × Node) :
    e ∈ ((renState g h a b).relabel a b).edges ↔ ∃ u v, (u, v) ∈ g.edges ∧ e = (rmap a b u, rmap a b v) := by
  rw [mem_edges_relabel]
  constructor
  · rintro ⟨u, v, x, y⟩
    exact ⟨u, v, (mem_renState_edges hh hwf hb _).mp ((mem_edgesOrdered_wf _ (renState_wf hh hwf hb) _).mp x), y⟩
  · rintro ⟨u, v, x, y⟩
    exact ⟨u, v, (mem_edgesOrdered_wf _ (renState_wf hh hwf hb) _).mpr ((mem_renState_edges hh hwf hb _).mpr x), y⟩

/-- the new name is isolated after the relabelling exactly when the old one was isolated before -/
theorem relabelled_degree (hh : RenHolder h a b) (hwf : WF g) (hb : b ∉ g.nodes) :
    ((renState g h a b).relabel a b).degree b = 0 ↔ g.degree a = 0 := by
  have hf := not_mem_edges_of_new hwf hb
  rw [degree_eq_zero_iff, degree_eq_zero_iff]
  constructor
  · intro x e he
    have := x (rmap a b e.1, rmap a b e.2) ((mem_relabelled_edges hh hwf hb _).mpr ⟨e.1, e.2, he, rfl⟩)
    exact ⟨fun y => this.1 (by rw [y, rmap_old]), fun y => this.2 (by rw [y, rmap_old])⟩
  · intro x e he
    obtain ⟨u, v, huv, rfl⟩ := (mem_relabelled_edges hh hwf hb _).mp he
    have h1 := x _ huv
    have h2 := hf _ huv
    simp only at h1 h2 ⊢
    rw [rmap_of_ne _ _ _ h1.1, rmap_of_ne _ _ _ h1.2]
    exact h2

/-! the result of the pair -/

theorem renameOne_eq (hh : RenHolder h a b) (hwf : WF g) (hb : b ∉ g.nodes) :
    renameOne (renState g h a b) (a, b) =
      if g.degree a = 0 then ((renState g h a b).relabel a b).removeNode b else (renState g h a b).relabel a b := by
  have hn : ((renState g h a b).relabel a b).hasNode b = true :=
    (hasNode_iff _ _).mpr ((mem_relabelled_nodes hh hb b).mpr (Or.inr rfl))
  have hd := relabelled_degree hh hwf hb
  unfold renameOne
  simp only [hn, Bool.true_and, beq_iff_eq, hd]

/-- (a) nodes: `a` is gone, `b` is there unless `a` was isolated, nothing else changes -/
theorem mem_renameOne_nodes (hh : RenHolder h a b) (hwf : WF g) (hb : b ∉ g.nodes) (n : Node) :
    n ∈ (renameOne (renState g h a b) (a, b)).nodes ↔ (n ≠ a ∧ n ∈ g.nodes) ∨ (n = b ∧ g.degree a ≠ 0) := by
  rw [renameOne_eq hh hwf hb]
  split
  · rename_i hd
    rw [mem_nodes_removeNode, mem_relabelled_nodes hh hb]
    constructor
    · rintro ⟨x | x, y⟩
      · exact Or.inl x
      · exact absurd x y
    · rintro (x | ⟨_, y⟩)
      · exact ⟨Or.inl x, fun e => hb (e ▸ x.2)⟩
      · exact absurd hd y
  · rename_i hd
    rw [mem_relabelled_nodes hh hb]
    constructor
    · rintro (x | x)
      · exact Or.inl x
      · exact Or.inr ⟨x, hd⟩
    · rintro (x | ⟨x, _⟩)
      · exact Or.inl x
      · exact Or.inr x

/-- (b) edges: exactly the images of the old edges under the renaming -/
theorem mem_renameOne_edges (hh : RenHolder h a b) (hwf : WF g) (hb : b ∉ g.nodes) (e : Node × Node) :
    e ∈ (renameOne (renState g h a b) (a, b)).edges ↔ ∃ u v, (u, v) ∈ g.edges ∧ e = (rmap a b u, rmap a b v) := by
  rw [renameOne_eq hh hwf hb]
  split
  · rename_i hd
    rw [mem_edges_removeNode, ← mem_relabelled_edges hh hwf hb]
    have := (degree_eq_zero_iff _ _).mp ((relabelled_degree hh hwf hb).mpr hd)
    exact ⟨fun x => x.1, fun x => ⟨x, this e x⟩⟩
  · exact mem_relabelled_edges hh hwf hb e

theorem renameOne_etype :
    (renameOne (renState g h a b) (a, b)).etype = ((renState g h a b).relabel a b).etype := by
  unfold renameOne
  simp only
  split <;> rfl

/-- (b) edge types travel with the edges -/
theorem renameOne_ety (hh : RenHolder h a b) (hwf : WF g) (hb : b ∉ g.nodes) (u v : Node) (huv : (u, v) ∈ g.edges) :
    (renameOne (renState g h a b) (a, b)).ety (rmap a b u) (rmap a b v) = g.ety u v := by
  have h1 : (rmap a b u, rmap a b v) ∈ (renameOne (renState g h a b) (a, b)).edges :=
    (mem_renameOne_edges hh hwf hb _).mpr ⟨u, v, huv, rfl⟩
  have hK : (u, v) ∈ (renState g h a b).edgesOrdered :=
    (mem_edgesOrdered_wf _ (renState_wf hh hwf hb) _).mpr ((mem_renState_edges hh hwf hb _).mpr huv)
  have hfresh : ∀ e ∈ (renState g h a b).edges, e.1 ≠ b ∧ e.2 ≠ b :=
    fun e he => not_mem_edges_of_new hwf hb e ((mem_renState_edges hh hwf hb e).mp he)
  simp only [ety, (hasEdge_iff _ _ _).mpr h1, (hasEdge_iff _ _ _).mpr huv, if_true]
  rw [renameOne_etype, etype_relabel _ _ _ _ hfresh u v hK, renState_etype hh hwf hb u v huv]

/-- (c) frame: every other node keeps its attribute dict -/
theorem renameOne_tag_of_ne (hh : RenHolder h a b) (hwf : WF g) (hb : b ∉ g.nodes) (n : Node) (t : Tag)
    (h1 : n ≠ a) (h2 : n ≠ b) : (renameOne (renState g h a b) (a, b)).tag n t = g.tag n t := by
  rw [renameOne_eq hh hwf hb]
  split
  · rw [tag_removeNode_ne _ _ _ _ h2, tag_relabel_of_ne _ _ _ _ _ _ h1 h2, renState_tag hh]
  · rw [tag_relabel_of_ne _ _ _ _ _ _ h1 h2, renState_tag hh]

/-- (c) the new name carries NO attribute, whatever the old one carried -/
theorem renameOne_tag_new (hh : RenHolder h a b) (hwf : WF g) (hb : b ∉ g.nodes) (t : Tag) :
    (renameOne (renState g h a b) (a, b)).tag b t = none := by
  obtain ⟨l, hl, _⟩ := renState_nodes (g := g) hh hb
  rw [renameOne_eq hh hwf hb]
  split
  · exact tag_removeNode_self _ _ _
  · rw [tag_relabel_new_last _ _ _ _ _ l hl, renState_tag hh, tag_of_not_mem _ _ _ hb]

theorem renameOne_tag_old (hh : RenHolder h a b) (hwf : WF g) (hb : b ∉ g.nodes) (hab : a ≠ b) (t : Tag) :
    (renameOne (renState g h a b) (a, b)).tag a t = none := by
  apply tag_of_not_mem
  rw [mem_renameOne_nodes hh hwf hb]
  rintro (⟨x, _⟩ | ⟨x, _⟩)
  · exact x rfl
  · exact hab x

theorem renameOne_wf (hh : RenHolder h a b) (hwf : WF g) (hb : b ∉ g.nodes) :
    WF (renameOne (renState g h a b) (a, b)) := by
  intro e he
  obtain ⟨u, v, huv, rfl⟩ := (mem_renameOne_edges hh hwf hb e).mp he
  have hn := hwf _ huv
  have key : ∀ m, m ∈ g.nodes → (m = u ∨ m = v) → rmap a b m ∈ (renameOne (renState g h a b) (a, b)).nodes := by
    intro m hm hmuv
    rw [mem_renameOne_nodes hh hwf hb]
    by_cases hma : m = a
    · rw [hma, rmap_old]
      refine Or.inr ⟨rfl, fun hd => ?_⟩
      have := (degree_eq_zero_iff _ _).mp hd _ huv
      rcases hmuv with x | x
      · exact this.1 (x ▸ hma)
      · exact this.2 (x ▸ hma)
    · rw [rmap_of_ne _ _ _ hma]; exact Or.inl ⟨hma, hm⟩
  exact ⟨key u hn.1 (Or.inl rfl), key v hn.2 (Or.inr rfl)⟩

end
end SqlLineage.AStmt

namespace SqlLineage.AStmt
open SqlLineage Graph Holder Assemble

/-! ### the three role predicates through atoms (in / out edge between datasets, self loop, tags) -/

theorem mem_unionL (a b : List Node) (x : Node) : x ∈ Assemble.union a b ↔ x ∈ a ∨ x ∈ b := by
  simp only [Assemble.union, List.mem_append, List.mem_filter]
  constructor
  · rintro (h | ⟨h, _⟩); exact Or.inl h; exact Or.inr h
  · rintro (h | h)
    · exact Or.inl h
    · by_cases hx : x ∈ a
      · exact Or.inl hx
      · exact Or.inr ⟨h, by simp [hx]⟩

theorem mem_of_tag_some (g : LGraph) (n : Node) (t : Tag) (v : Bool) (h : g.tag n t = some v) : n ∈ g.nodes := by
  apply Classical.byContradiction
  intro hn
  rw [tag_of_not_mem _ _ _ hn] at h
  cases h

theorem mem_tagTablesL (g : LGraph) (t : Tag) (n : Node) :
    n ∈ tagTables g t ↔ n.isDataset = true ∧ g.tag n t = some true := by
  simp only [tagTables, tagged, List.mem_filter, beq_iff_eq]
  constructor
  · rintro ⟨⟨_, b⟩, c⟩; exact ⟨c, b⟩
  · rintro ⟨c, b⟩; exact ⟨⟨mem_of_tag_some g n t true b, b⟩, c⟩

theorem tagSelfloops_tag (g : LGraph) (n : Node) (t : Tag) :
    (tagSelfloops g).tag n t = if n ∈ g.nodes ∧ (n, n) ∈ g.edges ∧ t = .selfloop then some true else g.tag n t := by
  simp only [tagSelfloops, tag_setTags, mem_selfloopNodes]
  by_cases h : n ∈ g.nodes ∧ (n, n) ∈ g.edges ∧ t = .selfloop
  · obtain ⟨a, b, c⟩ := h; simp [a, b, c]
  · rw [if_neg h]
    have : ¬((n ∈ g.nodes ∧ (n, n) ∈ g.edges) ∧ n ∈ g.nodes ∧ t = .selfloop) :=
      fun ⟨⟨a, b⟩, _, c⟩ => h ⟨a, b, c⟩
    rw [if_neg this]

/-- some dataset feeds `n` (an edge of the table‑level graph ends in `n`) -/
def tIn (g : LGraph) (n : Node) : Prop := ∃ u, (u, n) ∈ g.edges ∧ u.isDataset = true ∧ n.isDataset = true
/-- `n` feeds some dataset -/
def tOut (g : LGraph) (n : Node) : Prop := ∃ v, (n, v) ∈ g.edges ∧ n.isDataset = true ∧ v.isDataset = true
/-- `n` is a dataset that gets, or already has, the SELFLOOP tag -/
def tLoop (g : LGraph) (n : Node) : Prop := n.isDataset = true ∧ ((n, n) ∈ g.edges ∨ g.tag n .selfloop = some true)
/-- `n` is a dataset with tag `t` -/
def tTag (g : LGraph) (t : Tag) (n : Node) : Prop := n.isDataset = true ∧ g.tag n t = some true

theorem tg_inDeg_pos (g : LGraph) (n : Node) : 0 < (tableGraph (tagSelfloops g)).inDeg n ↔ tIn g n := by
  rw [inDeg_pos_iff]
  simp only [tableGraph, mem_edges_subgraph]
  exact Iff.rfl

theorem tg_outDeg_pos (g : LGraph) (n : Node) : 0 < (tableGraph (tagSelfloops g)).outDeg n ↔ tOut g n := by
  rw [outDeg_pos_iff]
  simp only [tableGraph, mem_edges_subgraph]
  exact Iff.rfl

theorem mem_selfloopTables (g : LGraph) (hwf : WF g) (n : Node) :
    n ∈ tagTables (tagSelfloops g) .selfloop ↔ tLoop g n := by
  rw [mem_tagTablesL, tagSelfloops_tag]
  unfold tLoop
  by_cases he : (n, n) ∈ g.edges
  · have hn : n ∈ g.nodes := (hwf _ he).1
    simp [he, hn]
  · simp [he]

theorem mem_otherTagTables (g : LGraph) (t : Tag) (ht : t ≠ .selfloop) (n : Node) :
    n ∈ tagTables (tagSelfloops g) t ↔ tTag g t n := by
  rw [mem_tagTablesL, tagSelfloops_tag]
  unfold tTag
  simp [ht]

theorem mem_tg_nodes_of_edge (g : LGraph) (hwf : WF g) (n : Node) (h : tIn g n ∨ tOut g n) :
    n ∈ (tableGraph (tagSelfloops g)).nodes := by
  simp only [tableGraph, mem_nodes_subgraph]
  show n ∈ g.nodes ∧ _
  rcases h with ⟨u, he, _, hd⟩ | ⟨v, he, hd, _⟩
  · exact ⟨(hwf _ he).2, hd⟩
  · exact ⟨(hwf _ he).1, hd⟩

theorem mem_sourceTables_atoms (g : LGraph) (hwf : WF g) (n : Node) :
    n ∈ sourceTables (tagSelfloops g) ↔ (¬ tIn g n ∧ tOut g n) ∨ tLoop g n ∨ tTag g .sourceOnly n := by
  simp only [sourceTables, mem_unionL, mem_selfloopTables g hwf, mem_otherTagTables g .sourceOnly (by decide),
    List.mem_filter, Bool.and_eq_true, beq_iff_eq, decide_eq_true_eq, or_assoc]
  have hin := tg_inDeg_pos g n
  have hout := tg_outDeg_pos g n
  constructor
  · rintro (⟨_, h0, h1⟩ | h | h)
    · exact Or.inl ⟨fun x => by have := hin.mpr x; omega, hout.mp h1⟩
    · exact Or.inr (Or.inl h)
    · exact Or.inr (Or.inr h)
  · rintro (⟨h0, h1⟩ | h | h)
    · refine Or.inl ⟨mem_tg_nodes_of_edge g hwf n (Or.inr h1), ?_, hout.mpr h1⟩
      rcases Nat.eq_zero_or_pos ((tableGraph (tagSelfloops g)).inDeg n) with x | x
      · exact x
      · exact absurd (hin.mp x) h0
    · exact Or.inr (Or.inl h)
    · exact Or.inr (Or.inr h)

theorem mem_targetTables_atoms (g : LGraph) (hwf : WF g) (n : Node) :
    n ∈ targetTables (tagSelfloops g) ↔ (¬ tOut g n ∧ tIn g n) ∨ tLoop g n ∨ tTag g .targetOnly n := by
  simp only [targetTables, mem_unionL, mem_selfloopTables g hwf, mem_otherTagTables g .targetOnly (by decide),
    List.mem_filter, Bool.and_eq_true, beq_iff_eq, decide_eq_true_eq, or_assoc]
  have hin := tg_inDeg_pos g n
  have hout := tg_outDeg_pos g n
  constructor
  · rintro (⟨_, h0, h1⟩ | h | h)
    · exact Or.inl ⟨fun x => by have := hout.mpr x; omega, hin.mp h1⟩
    · exact Or.inr (Or.inl h)
    · exact Or.inr (Or.inr h)
  · rintro (⟨h0, h1⟩ | h | h)
    · refine Or.inl ⟨mem_tg_nodes_of_edge g hwf n (Or.inl h1), ?_, hin.mpr h1⟩
      rcases Nat.eq_zero_or_pos ((tableGraph (tagSelfloops g)).outDeg n) with x | x
      · exact x
      · exact absurd (hout.mp x) h0
    · exact Or.inr (Or.inl h)
    · exact Or.inr (Or.inr h)

theorem mem_intermediateTables_atoms (g : LGraph) (hwf : WF g) (n : Node) :
    n ∈ intermediateTables (tagSelfloops g) ↔ tIn g n ∧ tOut g n ∧ ¬ tLoop g n := by
  simp only [intermediateTables, List.mem_filter, Bool.and_eq_true, decide_eq_true_eq, Bool.not_eq_true',
    List.contains_eq_mem, decide_eq_false_iff_not, mem_selfloopTables g hwf]
  have hin := tg_inDeg_pos g n
  have hout := tg_outDeg_pos g n
  constructor
  · rintro ⟨⟨_, h1, h2⟩, h3⟩; exact ⟨hin.mp h1, hout.mp h2, h3⟩
  · rintro ⟨h1, h2, h3⟩
    exact ⟨⟨mem_tg_nodes_of_edge g hwf n (Or.inl h1), hin.mpr h1, hout.mpr h2⟩, h3⟩

/-! ### atoms move with the renaming -/

/-- `P'` (after) is `P` (before) with `b` standing where `a` stood: nothing holds of `a` any more, `b` has what `a` had,
    every other node is unaffected -/
def Moved (a b : Node) (P P' : Node → Prop) : Prop := ∀ n, P' n ↔ (n ≠ a ∧ n ≠ b ∧ P n) ∨ (n = b ∧ P a)

section
variable {a b : Node} {P P' : Node → Prop}

theorem Moved.old (h : Moved a b P P') (hab : a ≠ b) : ¬ P' a := by
  intro x
  rcases (h a).mp x with ⟨y, _⟩ | ⟨y, _⟩
  · exact y rfl
  · exact hab y

theorem Moved.new (h : Moved a b P P') : P' b ↔ P a := by
  rw [h b]
  constructor
  · rintro (⟨_, y, _⟩ | ⟨_, y⟩)
    · exact absurd rfl y
    · exact y
  · exact fun y => Or.inr ⟨rfl, y⟩

theorem Moved.other (h : Moved a b P P') (n : Node) (h1 : n ≠ a) (h2 : n ≠ b) : P' n ↔ P n := by
  rw [h n]
  constructor
  · rintro (⟨_, _, y⟩ | ⟨y, _⟩)
    · exact y
    · exact absurd y h2
  · exact fun y => Or.inl ⟨h1, h2, y⟩

/-- a predicate built from moved atoms is moved, provided it fails when all atoms fail -/
theorem Moved.of_cases (hab : a ≠ b) (hold : ¬ P' a) (hnew : P' b ↔ P a) (hother : ∀ n, n ≠ a → n ≠ b → (P' n ↔ P n)) :
    Moved a b P P' := by
  intro n
  by_cases h1 : n = a
  · subst h1
    constructor
    · exact fun x => absurd x hold
    · rintro (⟨y, _⟩ | ⟨y, _⟩)
      · exact absurd rfl y
      · exact absurd y hab
  · by_cases h2 : n = b
    · subst h2
      rw [hnew]
      constructor
      · exact fun y => Or.inr ⟨rfl, y⟩
      · rintro (⟨_, y, _⟩ | ⟨_, y⟩)
        · exact absurd rfl y
        · exact y
    · rw [hother n h1 h2]
      constructor
      · exact fun y => Or.inl ⟨h1, h2, y⟩
      · rintro (⟨_, _, y⟩ | ⟨y, _⟩)
        · exact y
        · exact absurd y h2

end

theorem isDataset_rmap (a b u : Node) (ha : a.isDataset = true) (hb : b.isDataset = true) :
    (rmap a b u).isDataset = u.isDataset := by
  unfold rmap
  split
  · rename_i h; rw [h, ha, hb]
  · rfl

section
variable {g h : LGraph} {a b : Node}

theorem moved_tIn (hh : RenHolder h a b) (hwf : WF g) (hb : b ∉ g.nodes)
    (hda : a.isDataset = true) (hdb : b.isDataset = true) :
    Moved a b (tIn g) (tIn (renameOne (renState g h a b) (a, b))) := by
  have hf := not_mem_edges_of_new hwf hb
  intro n
  unfold tIn
  constructor
  · rintro ⟨u', he, hd1, hd2⟩
    obtain ⟨u, v, huv, hpair⟩ := (mem_renameOne_edges hh hwf hb _).mp he
    simp only [Prod.mk.injEq] at hpair
    obtain ⟨rfl, rfl⟩ := hpair
    rw [isDataset_rmap a b _ hda hdb] at hd1
    by_cases hva : v = a
    · subst hva
      rw [rmap_old]
      exact Or.inr ⟨rfl, u, huv, hd1, hda⟩
    · rw [rmap_of_ne _ _ _ hva] at hd2 ⊢
      exact Or.inl ⟨hva, (hf _ huv).2, u, huv, hd1, hd2⟩
  · rintro (⟨h1, _, u, huv, hd1, hd2⟩ | ⟨rfl, u, huv, hd1, _⟩)
    · refine ⟨rmap a b u, (mem_renameOne_edges hh hwf hb _).mpr ⟨u, n, huv, ?_⟩, ?_, hd2⟩
      · rw [rmap_of_ne _ _ n h1]
      · rw [isDataset_rmap a b _ hda hdb]; exact hd1
    · refine ⟨rmap a n u, (mem_renameOne_edges hh hwf hb _).mpr ⟨u, a, huv, ?_⟩, ?_, hdb⟩
      · rw [rmap_old]
      · rw [isDataset_rmap a n _ hda hdb]; exact hd1

theorem moved_tOut (hh : RenHolder h a b) (hwf : WF g) (hb : b ∉ g.nodes)
    (hda : a.isDataset = true) (hdb : b.isDataset = true) :
    Moved a b (tOut g) (tOut (renameOne (renState g h a b) (a, b))) := by
  have hf := not_mem_edges_of_new hwf hb
  intro n
  unfold tOut
  constructor
  · rintro ⟨v', he, hd1, hd2⟩
    obtain ⟨u, v, huv, hpair⟩ := (mem_renameOne_edges hh hwf hb _).mp he
    simp only [Prod.mk.injEq] at hpair
    obtain ⟨rfl, rfl⟩ := hpair
    rw [isDataset_rmap a b _ hda hdb] at hd2
    by_cases hua : u = a
    · subst hua
      rw [rmap_old]
      exact Or.inr ⟨rfl, v, huv, hda, hd2⟩
    · rw [rmap_of_ne _ _ _ hua] at hd1 ⊢
      exact Or.inl ⟨hua, (hf _ huv).1, v, huv, hd1, hd2⟩
  · rintro (⟨h1, _, v, huv, hd1, hd2⟩ | ⟨rfl, v, huv, _, hd2⟩)
    · refine ⟨rmap a b v, (mem_renameOne_edges hh hwf hb _).mpr ⟨n, v, huv, ?_⟩, hd1, ?_⟩
      · rw [rmap_of_ne _ _ n h1]
      · rw [isDataset_rmap a b _ hda hdb]; exact hd2
    · refine ⟨rmap a n v, (mem_renameOne_edges hh hwf hb _).mpr ⟨a, v, huv, ?_⟩, hdb, ?_⟩
      · rw [rmap_old]
      · rw [isDataset_rmap a n _ hda hdb]; exact hd2

theorem moved_loopEdge (hh : RenHolder h a b) (hwf : WF g) (hb : b ∉ g.nodes) :
    Moved a b (fun n => (n, n) ∈ g.edges) (fun n => (n, n) ∈ (renameOne (renState g h a b) (a, b)).edges) := by
  have hf := not_mem_edges_of_new hwf hb
  intro n
  simp only
  constructor
  · intro he
    obtain ⟨u, v, huv, hpair⟩ := (mem_renameOne_edges hh hwf hb _).mp he
    simp only [Prod.mk.injEq] at hpair
    have huv' : u = v := rmap_inj a b u v (hf _ huv).1 (hf _ huv).2 (hpair.1.symm.trans hpair.2)
    subst huv'
    by_cases hua : u = a
    · subst hua
      rw [rmap_old] at hpair
      exact Or.inr ⟨hpair.1, huv⟩
    · rw [rmap_of_ne _ _ _ hua] at hpair
      rw [hpair.1]
      exact Or.inl ⟨hua, (hf _ huv).1, huv⟩
  · rintro (⟨h1, _, he⟩ | ⟨rfl, he⟩)
    · exact (mem_renameOne_edges hh hwf hb _).mpr ⟨n, n, he, by rw [rmap_of_ne _ _ n h1]⟩
    · exact (mem_renameOne_edges hh hwf hb _).mpr ⟨a, a, he, by rw [rmap_old]⟩

/-- a tag the old name does not carry moves trivially: the new name never has one -/
theorem moved_tag (hh : RenHolder h a b) (hwf : WF g) (hb : b ∉ g.nodes) (hab : a ≠ b) (t : Tag)
    (hx : g.tag a t ≠ some true) :
    Moved a b (fun n => g.tag n t = some true) (fun n => (renameOne (renState g h a b) (a, b)).tag n t = some true) := by
  apply Moved.of_cases hab
  · simp only [renameOne_tag_old hh hwf hb hab]; exact fun x => by cases x
  · simp only [renameOne_tag_new hh hwf hb]
    exact ⟨fun x => (by cases x), fun x => absurd x hx⟩
  · intro n h1 h2
    simp only [renameOne_tag_of_ne hh hwf hb n t h1 h2]

theorem moved_tLoop (hh : RenHolder h a b) (hwf : WF g) (hb : b ∉ g.nodes) (hab : a ≠ b)
    (hda : a.isDataset = true) (hdb : b.isDataset = true) (hx : g.tag a .selfloop ≠ some true) :
    Moved a b (tLoop g) (tLoop (renameOne (renState g h a b) (a, b))) := by
  have m1 := moved_loopEdge hh hwf hb
  have m2 := moved_tag hh hwf hb hab .selfloop hx
  unfold tLoop
  apply Moved.of_cases hab
  · rintro ⟨_, x | x⟩
    · exact m1.old hab x
    · exact m2.old hab x
  · simp only [hda, hdb, true_and]
    rw [m1.new, m2.new]
  · intro n h1 h2
    rw [m1.other n h1 h2, m2.other n h1 h2]

theorem moved_tTag (hh : RenHolder h a b) (hwf : WF g) (hb : b ∉ g.nodes) (hab : a ≠ b)
    (hda : a.isDataset = true) (hdb : b.isDataset = true) (t : Tag) (hx : g.tag a t ≠ some true) :
    Moved a b (tTag g t) (tTag (renameOne (renState g h a b) (a, b)) t) := by
  have m := moved_tag hh hwf hb hab t hx
  unfold tTag
  apply Moved.of_cases hab
  · rintro ⟨_, x⟩; exact m.old hab x
  · simp only [hda, hdb, true_and]
    rw [m.new]
  · intro n h1 h2
    rw [m.other n h1 h2]

/-- **roles move with the renaming**: on a well‑formed state in which the new name is absent and the old name carries
    none of the three role tags, after the pair the new name has exactly the roles the old name had, the old name has none,
    and every other node keeps its roles. -/
theorem moved_roles (hh : RenHolder h a b) (hwf : WF g) (hb : b ∉ g.nodes) (hab : a ≠ b)
    (hda : a.isDataset = true) (hdb : b.isDataset = true)
    (hs : g.tag a .sourceOnly ≠ some true) (ht : g.tag a .targetOnly ≠ some true) (hl : g.tag a .selfloop ≠ some true) :
    Moved a b (· ∈ sourceTables (tagSelfloops g)) (· ∈ sourceTables (tagSelfloops (renameOne (renState g h a b) (a, b)))) ∧
    Moved a b (· ∈ targetTables (tagSelfloops g)) (· ∈ targetTables (tagSelfloops (renameOne (renState g h a b) (a, b)))) ∧
    Moved a b (· ∈ intermediateTables (tagSelfloops g))
      (· ∈ intermediateTables (tagSelfloops (renameOne (renState g h a b) (a, b)))) := by
  have hwf' := renameOne_wf hh hwf hb
  have mi := moved_tIn hh hwf hb hda hdb
  have mo := moved_tOut hh hwf hb hda hdb
  have ml := moved_tLoop hh hwf hb hab hda hdb hl
  have ms := moved_tTag hh hwf hb hab hda hdb .sourceOnly hs
  have mt := moved_tTag hh hwf hb hab hda hdb .targetOnly ht
  refine ⟨?_, ?_, ?_⟩
  · apply Moved.of_cases hab
    · rw [mem_sourceTables_atoms _ hwf']
      rintro (⟨_, x⟩ | x | x)
      · exact mo.old hab x
      · exact ml.old hab x
      · exact ms.old hab x
    · rw [mem_sourceTables_atoms _ hwf', mem_sourceTables_atoms _ hwf, mi.new, mo.new, ml.new, ms.new]
    · intro n h1 h2
      rw [mem_sourceTables_atoms _ hwf', mem_sourceTables_atoms _ hwf, mi.other n h1 h2, mo.other n h1 h2,
        ml.other n h1 h2, ms.other n h1 h2]
  · apply Moved.of_cases hab
    · rw [mem_targetTables_atoms _ hwf']
      rintro (⟨_, x⟩ | x | x)
      · exact mi.old hab x
      · exact ml.old hab x
      · exact mt.old hab x
    · rw [mem_targetTables_atoms _ hwf', mem_targetTables_atoms _ hwf, mi.new, mo.new, ml.new, mt.new]
    · intro n h1 h2
      rw [mem_targetTables_atoms _ hwf', mem_targetTables_atoms _ hwf, mi.other n h1 h2, mo.other n h1 h2,
        ml.other n h1 h2, mt.other n h1 h2]
  · apply Moved.of_cases hab
    · rw [mem_intermediateTables_atoms _ hwf']
      rintro ⟨x, _⟩
      exact mi.old hab x
    · rw [mem_intermediateTables_atoms _ hwf', mem_intermediateTables_atoms _ hwf, mi.new, mo.new, ml.new]
    · intro n h1 h2
      rw [mem_intermediateTables_atoms _ hwf', mem_intermediateTables_atoms _ hwf, mi.other n h1 h2, mo.other n h1 h2,
        ml.other n h1 h2]

end
end SqlLineage.AStmt

namespace SqlLineage.Graph
variable {ν π : Type} [DecidableEq ν]

/-! ### relabel: the `index` attribute -/

theorem filterMap_getLast?_of_forall_eq {α β : Type} (f : α → Option β) (l : List α) (a : α) (hne : l ≠ [])
    (h : ∀ b ∈ l, b = a) : (l.filterMap f).getLast? = f a := by
  induction l with
  | nil => exact absurd rfl hne
  | cons c r ih =>
    have hc : c = a := h c (by simp)
    subst hc
    by_cases hr : r = []
    · subst hr; cases hfa : f c <;> simp [hfa]
    · have ih' := ih hr (fun b hb => h b (by simp [hb]))
      cases hfa : f c with
      | none => rw [List.filterMap_cons_none hfa, ih', hfa]
      | some v =>
        rw [List.filterMap_cons_some hfa]
        rw [hfa] at ih'
        cases hl : r.filterMap f with
        | nil => rw [hl] at ih'; simp at ih'
        | cons d l' => rw [List.getLast?_cons_cons, ← hl]; exact ih'

/-- the edge index travels with the edge when `new` carries no edge -/
theorem eidx_relabel (k : Graph ν π) (old new : ν) (p : Option π)
    (hfresh : ∀ e ∈ k.edges, e.1 ≠ new ∧ e.2 ≠ new) (a b : ν) (hab : (a, b) ∈ k.edgesOrdered) :
    (k.relabel old new p).eidx (rmap old new a) (rmap old new b) = k.eidx a b := by
  have hf := hfresh _ (mem_edgesOrdered k _ hab)
  show ((k.edgesOrdered.filter (fun e => decide ((if e.1 = old then new else e.1) = rmap old new a ∧
      (if e.2 = old then new else e.2) = rmap old new b))).filterMap (fun e => k.eidx e.1 e.2)).getLast? = k.eidx a b
  apply filterMap_getLast?_of_forall_eq (fun e : ν × ν => k.eidx e.1 e.2) _ (a, b)
  · intro he
    have : (a, b) ∈ k.edgesOrdered.filter (fun e => decide ((if e.1 = old then new else e.1) = rmap old new a ∧
        (if e.2 = old then new else e.2) = rmap old new b)) := by
      simp only [List.mem_filter, decide_eq_true_eq]; exact ⟨hab, rfl, rfl⟩
    rw [he] at this; simp at this
  · rintro ⟨c, d⟩ hcd
    simp only [List.mem_filter, decide_eq_true_eq] at hcd
    have hf' := hfresh _ (mem_edgesOrdered k _ hcd.1)
    have e1 : c = a := rmap_inj old new c a hf'.1 hf.1 hcd.2.1
    have e2 : d = b := rmap_inj old new d b hf'.2 hf.2 hcd.2.2
    rw [e1, e2]
end SqlLineage.Graph

namespace SqlLineage.AStmt
open SqlLineage Graph Holder Assemble
variable {g h : LGraph} {a b : Node}

theorem renState_eidx (hh : RenHolder h a b) (hwf : WF g) (hb : b ∉ g.nodes) (u v : Node) (huv : (u, v) ∈ g.edges) :
    (renState g h a b).eidx u v = g.eidx u v := by
  have hne : (u, v) ≠ (a, b) := fun x => (not_mem_edges_of_new hwf hb _ huv).2 (by rw [x])
  have h1 : h.hasEdge u v = false := by
    simp only [hasEdge, hh.edges]; simpa using hne
  have h2 : h.idx u v = none := by simp [idx, h1]
  have h3 : g.idx u v = g.eidx u v := by simp [idx, (hasEdge_iff g u v).mpr huv]
  show (match h.idx u v with | some k => some k | none => g.idx u v) = _
  rw [h2, h3]

theorem renameOne_eidx :
    (renameOne (renState g h a b) (a, b)).eidx = ((renState g h a b).relabel a b).eidx := by
  unfold renameOne
  simp only
  split <;> rfl

/-- (b) the `index` attribute travels with the edges, too -/
theorem renameOne_idx (hh : RenHolder h a b) (hwf : WF g) (hb : b ∉ g.nodes) (u v : Node) (huv : (u, v) ∈ g.edges) :
    (renameOne (renState g h a b) (a, b)).idx (rmap a b u) (rmap a b v) = g.idx u v := by
  have h1 : (rmap a b u, rmap a b v) ∈ (renameOne (renState g h a b) (a, b)).edges :=
    (mem_renameOne_edges hh hwf hb _).mpr ⟨u, v, huv, rfl⟩
  have hK : (u, v) ∈ (renState g h a b).edgesOrdered :=
    (mem_edgesOrdered_wf _ (renState_wf hh hwf hb) _).mpr ((mem_renState_edges hh hwf hb _).mpr huv)
  have hfresh : ∀ e ∈ (renState g h a b).edges, e.1 ≠ b ∧ e.2 ≠ b :=
    fun e he => not_mem_edges_of_new hwf hb e ((mem_renState_edges hh hwf hb e).mp he)
  simp only [idx, (hasEdge_iff _ _ _).mpr h1, (hasEdge_iff _ _ _).mpr huv, if_true]
  rw [renameOne_eidx, eidx_relabel _ _ _ _ hfresh u v hK, renState_eidx hh hwf hb u v huv]
end SqlLineage.AStmt

/-! ### along the whole fold: every state is well‑formed and carries no SELFLOOP tag

(for EVERY history of abstract statements, DROP and RENAME included — what makes `rename_in_place` applicable at any point of a
script) -/

namespace SqlLineage.Graph
variable {ν π : Type} [DecidableEq ν]

omit [DecidableEq ν] in
theorem wf_empty : WF (Graph.empty : Graph ν π) := by intro e he; simp at he

theorem wf_compose {g h : Graph ν π} (hg : WF g) (hh : WF h) : WF (g.compose h) := by
  intro e he
  rcases (mem_edges_compose g h e).mp he with a | a
  · exact ⟨(mem_nodes_compose _ _ _).mpr (Or.inl (hg e a).1), (mem_nodes_compose _ _ _).mpr (Or.inl (hg e a).2)⟩
  · exact ⟨(mem_nodes_compose _ _ _).mpr (Or.inr (hh e a).1), (mem_nodes_compose _ _ _).mpr (Or.inr (hh e a).2)⟩

theorem wf_removeNode {g : Graph ν π} (hg : WF g) (n : ν) : WF (g.removeNode n) := by
  intro e he
  obtain ⟨h1, h2, h3⟩ := (mem_edges_removeNode g n e).mp he
  exact ⟨(mem_nodes_removeNode _ _ _).mpr ⟨(hg e h1).1, h2⟩, (mem_nodes_removeNode _ _ _).mpr ⟨(hg e h1).2, h3⟩⟩

theorem wf_relabel {g : Graph ν π} (hg : WF g) (old new : ν) (p : Option π) : WF (g.relabel old new p) := by
  intro e he
  obtain ⟨a, b, hab, rfl⟩ := (mem_edges_relabel g old new e p).mp he
  have := hg _ (mem_edgesOrdered g _ hab)
  exact ⟨(mem_nodes_relabel _ _ _ _ _).mpr ⟨a, this.1, rfl⟩, (mem_nodes_relabel _ _ _ _ _).mpr ⟨b, this.2, rfl⟩⟩

theorem wf_addEdge {g : Graph ν π} (hg : WF g) (u v : ν) (ty : EType) (i : Option Nat) (pu pv : Option π) :
    WF (g.addEdge u v ty i pu pv) := by
  intro e he
  rcases (mem_edges_addEdge g u v e ty i pu pv).mp he with a | a
  · exact ⟨(mem_nodes_addEdge _ _ _ _ _ _ _ _).mpr (Or.inl (hg e a).1),
           (mem_nodes_addEdge _ _ _ _ _ _ _ _).mpr (Or.inl (hg e a).2)⟩
  · rw [a]
    exact ⟨(mem_nodes_addEdge _ _ _ _ _ _ _ _).mpr (Or.inr (Or.inl rfl)),
           (mem_nodes_addEdge _ _ _ _ _ _ _ _).mpr (Or.inr (Or.inr rfl))⟩

/-- a tag no node carries is carried by no node after a relabelling -/
theorem tag_relabel_none (k : Graph ν π) (old new : ν) (p : Option π) (t : Tag) (hk : ∀ m, k.tag m t = none) (n : ν) :
    (k.relabel old new p).tag n t = none := by
  by_cases hn : n ∈ (k.relabel old new p).nodes
  · rw [tag_of_mem _ _ _ hn]
    show (match (k.nodes.filter (fun a => decide ((if a = old then new else a) = n))).getLast? with
      | some m => k.ntag m t | none => none) = none
    cases hl : (k.nodes.filter (fun a => decide ((if a = old then new else a) = n))).getLast? with
    | none => rfl
    | some m =>
      have hm : m ∈ k.nodes := (List.mem_filter.mp (List.mem_of_getLast? hl)).1
      show k.ntag m t = none
      rw [← tag_of_mem _ _ _ hm]; exact hk m
  · exact tag_of_not_mem _ _ _ hn

end SqlLineage.Graph

namespace SqlLineage.AStmt
open SqlLineage Graph Holder Assemble

theorem wf_dropStep (ts : List Node) : ∀ {g : LGraph}, WF g → WF (dropStep g ts) := by
  induction ts with
  | nil => intro g hg; exact hg
  | cons t r ih =>
    intro g hg
    simp only [dropStep, List.foldl_cons]
    split
    · exact ih (wf_removeNode hg t)
    · exact ih hg

theorem wf_removeEdges {g : LGraph} (hg : WF g) (ps : List (Node × Node)) : WF (removeEdges g ps) :=
  fun e he => hg e (List.mem_filter.mp he).1

theorem wf_renameOne {g : LGraph} (hg : WF g) (p : Node × Node) : WF (renameOne g p) := by
  unfold renameOne
  simp only
  split
  · exact wf_removeNode (wf_relabel hg _ _ _) _
  · exact wf_relabel hg _ _ _

theorem wf_renameStep {g : LGraph} (hg : WF g) (ps : List (Node × Node)) : WF (renameStep g ps) := by
  unfold renameStep
  have gen : ∀ (l : List (Node × Node)) (G : LGraph), WF G → WF (l.foldl renameOne G) := by
    intro l
    induction l with
    | nil => intro G hG; exact hG
    | cons p r ih => intro G hG; exact ih _ (wf_renameOne hG p)
  exact gen ps _ (wf_removeEdges hg ps)

theorem wf_foldl_addEdge (es : List (Node × Node)) (ty : EType) : ∀ {g : LGraph}, WF g →
    WF (es.foldl (fun g e => g.addEdge e.1 e.2 ty) g) := by
  induction es with
  | nil => intro g hg; exact hg
  | cons e r ih => intro g hg; exact ih (wf_addEdge hg _ _ _ _ _ _)

theorem wf_rwStep {g : LGraph} (hg : WF g) (rd wr : List Node) : WF (rwStep g rd wr) := by
  unfold rwStep
  split
  · exact hg
  · split
    · exact hg
    · exact wf_foldl_addEdge _ _ hg

theorem wf_foldStep (ord : List (Node × Node) → List (Node × Node)) {g h g' : LGraph} (hg : WF g) (hh : WF h)
    (hs : foldStep ord g h = .ok g') : WF g' := by
  unfold foldStep at hs
  simp only at hs
  have hc := wf_compose hg hh
  split at hs
  · cases hs; exact wf_dropStep _ hc
  · split at hs
    · cases hs; exact wf_renameStep hc _
    · cases hs; exact wf_rwStep hc _ _

theorem wf_foldAll (ord : List (Node × Node) → List (Node × Node)) : ∀ (hs : List LGraph) {g g' : LGraph}, WF g →
    (∀ h ∈ hs, WF h) → foldAll ord g hs = .ok g' → WF g'
  | [], g, g', hg, _, h => by simp only [foldAll] at h; cases h; exact hg
  | x :: r, g, g', hg, hx, h => by
    simp only [foldAll] at h
    split at h
    · rename_i g1 h1
      exact wf_foldAll ord r (wf_foldStep ord hg (hx x (by simp)) h1) (fun y hy => hx y (by simp [hy])) h
    · cases h

theorem wf_renames (ps : List (String × String)) : ∀ {g : LGraph}, WF g →
    WF (ps.foldl (fun g p => Holder.addRename g (tbl p.1) (tbl p.2)) g) := by
  induction ps with
  | nil => intro g hg; exact hg
  | cons p r ih => intro g hg; exact ih (wf_addEdge hg _ _ _ _ _ _)

theorem wf_holderOf (s : AStmt) : WF (holderOf s) := by
  cases s with
  | rw R w =>
    intro e he
    obtain ⟨r, hr, h⟩ := (rw_edges R w e).mp he
    rw [h]
    exact ⟨(rw_nodes R w _).mpr (Or.inl ⟨r, hr, Or.inl rfl⟩), (rw_nodes R w _).mpr (Or.inl ⟨r, hr, Or.inr rfl⟩)⟩
  | drop t =>
    intro e he
    simp [holderOf, Holder.addDrop, setTag, addNode, hasNode, Graph.empty] at he
  | rename ps => exact wf_renames ps wf_empty

/-- **every state of the fold over ANY history of abstract statements is well‑formed** -/
theorem fold_wf (ord : List (Node × Node) → List (Node × Node)) (ss : List AStmt) (g : LGraph)
    (h : foldAll ord Graph.empty (ss.map holderOf) = .ok g) : WF g :=
  wf_foldAll ord _ wf_empty (fun h hh => by
    obtain ⟨s, _, rfl⟩ := List.mem_map.mp hh
    exact wf_holderOf s) h

/-! no node carries tag `t` -/

def TagFree (g : LGraph) (t : Tag) : Prop := ∀ n, g.tag n t = none

theorem tagFree_empty (t : Tag) : TagFree (Graph.empty : LGraph) t := fun n => tag_empty n t

theorem tagFree_compose {g h : LGraph} {t : Tag} (hg : TagFree g t) (hh : TagFree h t) : TagFree (g.compose h) t := by
  intro n; rw [tag_compose, hh n, hg n]

theorem tagFree_removeNode {g : LGraph} {t : Tag} (hg : TagFree g t) (m : Node) : TagFree (g.removeNode m) t := by
  intro n
  by_cases h : n = m
  · rw [h]; exact tag_removeNode_self _ _ _
  · rw [tag_removeNode_ne _ _ _ _ h]; exact hg n

theorem tagFree_dropStep {t : Tag} (ts : List Node) : ∀ {g : LGraph}, TagFree g t → TagFree (dropStep g ts) t := by
  induction ts with
  | nil => intro g hg; exact hg
  | cons x r ih =>
    intro g hg
    simp only [dropStep, List.foldl_cons]
    split
    · exact ih (tagFree_removeNode hg x)
    · exact ih hg

theorem tagFree_renameOne {g : LGraph} {t : Tag} (hg : TagFree g t) (p : Node × Node) : TagFree (renameOne g p) t := by
  unfold renameOne
  simp only
  split
  · exact tagFree_removeNode (tag_relabel_none g _ _ _ t hg) _
  · exact tag_relabel_none g _ _ _ t hg

theorem tagFree_renameStep {g : LGraph} {t : Tag} (hg : TagFree g t) (ps : List (Node × Node)) :
    TagFree (renameStep g ps) t := by
  unfold renameStep
  have gen : ∀ (l : List (Node × Node)) (G : LGraph), TagFree G t → TagFree (l.foldl renameOne G) t := by
    intro l
    induction l with
    | nil => intro G hG; exact hG
    | cons p r ih => intro G hG; exact ih _ (tagFree_renameOne hG p)
  exact gen ps _ (fun n => hg n)

theorem tagFree_selfloop_foldStep (ord : List (Node × Node) → List (Node × Node)) {g h g' : LGraph}
    (hg : TagFree g .selfloop) (hh : TagFree h .selfloop) (hs : foldStep ord g h = .ok g') : TagFree g' .selfloop := by
  unfold foldStep at hs
  simp only at hs
  have hc := tagFree_compose hg hh
  split at hs
  · cases hs; exact tagFree_dropStep _ hc
  · split at hs
    · cases hs; exact tagFree_renameStep hc _
    · cases hs
      intro n
      rw [rwStep_tag]
      simp only [reduceCtorEq, false_and, if_false]
      exact hc n

theorem tagFree_selfloop_foldAll (ord : List (Node × Node) → List (Node × Node)) : ∀ (hs : List LGraph) {g g' : LGraph},
    TagFree g .selfloop → (∀ h ∈ hs, TagFree h .selfloop) → foldAll ord g hs = .ok g' → TagFree g' .selfloop
  | [], g, g', hg, _, h => by simp only [foldAll] at h; cases h; exact hg
  | x :: r, g, g', hg, hx, h => by
    simp only [foldAll] at h
    split at h
    · rename_i g1 h1
      exact tagFree_selfloop_foldAll ord r (tagFree_selfloop_foldStep ord hg (hx x (by simp)) h1)
        (fun y hy => hx y (by simp [hy])) h
    · cases h

theorem tagFree_selfloop_holderOf (s : AStmt) : TagFree (holderOf s) .selfloop := by
  cases s with
  | rw R w => exact fun n => rw_tag_none R w n .selfloop (by decide) (by decide)
  | drop t =>
    intro n
    simp only [holderOf, Holder.addDrop, tag_setTag, reduceCtorEq, and_false, if_false, tag_empty]
  | rename ps =>
    have gen : ∀ (l : List (String × String)) (G : LGraph), TagFree G .selfloop →
        TagFree (l.foldl (fun g p => Holder.addRename g (tbl p.1) (tbl p.2)) G) .selfloop := by
      intro l
      induction l with
      | nil => intro G hG; exact hG
      | cons p r ih =>
        intro G hG
        refine ih _ (fun n => ?_)
        simp only [Holder.addRename, tag_addEdge]; exact hG n
    exact gen ps _ (tagFree_empty _)

/-- **no state of the fold carries a SELFLOOP tag** (it is only set by the tail of `_build_digraph`) -/
theorem fold_no_selfloop_tag (ord : List (Node × Node) → List (Node × Node)) (ss : List AStmt) (g : LGraph)
    (h : foldAll ord Graph.empty (ss.map holderOf) = .ok g) : ∀ n, g.tag n .selfloop = none :=
  tagFree_selfloop_foldAll ord _ (tagFree_empty _) (fun h hh => by
    obtain ⟨s, _, rfl⟩ := List.mem_map.mp hh
    exact tagFree_selfloop_holderOf s) h

end SqlLineage.AStmt
