/-
Column lineage of a write statement over ONE flat SELECT block, end to end (used by `Props/C02.lean`,
`pairs_exact_flat_partial`).

The statement `INSERT INTO T <select>` / `CREATE TABLE T AS <select>` / `CREATE VIEW T AS <select>` (no column list, no
metadata provider) is followed through `analyze` → `exWriteQuery` → `exQuery` → `finishBranches` → `endOfQueryCleanup` →
`cleanupGroup` → `cleanupItem` → `addColumnLineage` → `expandWildcard` → `compose`, and the LINEAGE and HAS_COLUMN edges of
the resulting statement holder are characterised by a specification that only looks at the AST (`specPairs`).

Sections
  1. the specification (`fromTabs`, `specAliasMap`, `resolveQ`, `srcCol`, `tgtCol`, `specPairs`) and the fragment (`fragStmt`)
  2. alias map lookups: `amGet` of the holder's alias map = `amGet` of the specification's
  3. the holder after the reads (`tabs.foldl addReadO g0`)
  4. `toSourceColumns` on the fragment
  5. the wiring invariant `Wired` through `addColumnLineage` / `cleanupItem` / `cleanupGroup`
  6. `expandWildcard` without provider is the identity on these holders
  7. the walk on the fragment and the statement‑level theorem
-/
import SqlLineage.Proofs.ReadsExact
import SqlLineage.Proofs.ExportLemmas
import SqlLineage.Proofs.PermLemmas
import SqlLineage.Proofs.WriteColsLemmas

set_option linter.unusedSimpArgs false
set_option linter.unusedVariables false

namespace SqlLineage.ColumnsExact
open SqlLineage Ast Walk Holder Graph
open SqlLineage.Proofs.ReadsExact

/-! ## 1. specification and fragment -/

/-- the table object a FROM element denotes (`SqlFluffTable.of(table_reference, alias)`); derived tables are outside the
    fragment -/
def elemTabs (env : Env) : FromElem → List DObj
  | .table parts alias _ => [mkTable env parts alias]
  | .derived .. => []

def joinTabs (env : Env) : List Join → List DObj
  | [] => []
  | .mk _ e _ _ :: r => elemTabs env e ++ joinTabs env r

def feTabs (env : Env) : FromExpr → List DObj
  | .mk base js => elemTabs env base ++ joinTabs env js

/-- the table references of a FROM clause, in the order they are written -/
def fromTabs (env : Env) (frm : List FromExpr) : List DObj := frm.flatMap (feTabs env)

/-- the entry an alias WRITTEN in the query contributes (an alias equal to the table's own bare name counts as "no alias",
    `holders.py:187‑224` after the D7 repair) -/
def explEntry (o : DObj) : Option (String × (DS × String)) :=
  match o.d, o.alias with
  | .table _ n, some a => if a != n then some (a, (o.d, o.printed)) else none
  | _, _ => none

/-- the names the tables of a FROM clause answer to, later entries win: bare names < qualified names < the name of a table
    without alias < written aliases.  Defined on the table list alone (no graph). -/
def specAliasMap (tabs : List DObj) : AliasMap :=
  let tables := tabs.filter (fun o => o.d.isTable)
  let unq : AliasMap := tables.filterMap (fun o => match o.d with | .table _ n => some (n, (o.d, o.printed)) | _ => none)
  let qual : AliasMap := tables.map (fun o => (o.printed, (o.d, o.printed)))
  let dflt : AliasMap := tables.filterMap (fun o =>
    match o.d with
    | .table _ n => if o.alias == some n then some (n, (o.d, o.printed)) else none
    | _ => none)
  unq ++ qual ++ dflt ++ tabs.filterMap explEntry

/-- the relation a (normalised) qualifier denotes: what the alias map says, else a table of that name in the fallback
    schema (`Table(qualifier)`, models.py:236; the qualifier is normalised once more by the constructor) -/
def resolveQ (imp : String) (tabs : List DObj) (q : String) : DS × String :=
  match amGet (specAliasMap tabs) q with
  | some v => v
  | none => (.table imp (Ident.escapeS q), imp ++ "." ++ Ident.escapeS q)

/-- normalisation of a source reference by `Column.__init__` -/
def normRef (r : String × Option String) : String × Option String := (Ident.escapeS r.1, r.2.map Ident.escapeS)

/-- the source column a normalised reference `(column, qualifier?)` denotes: a qualified one belongs to what the qualifier
    resolves to, an unqualified one to THE table of the FROM clause (the fragment only has unqualified references when
    there is exactly one) -/
def srcCol (imp : String) (tabs : List DObj) (r : String × Option String) : Column :=
  match r.2 with
  | some q => Column.mk1 r.1 (some (resolveQ imp tabs q))
  | none => Column.mk1 r.1 (tabs.head?.map (fun o => (o.d, o.printed)))

/-- the target column of a select item: named by the naming rule (`colSpecOf`), owned by the written table -/
def tgtCol (env : Env) (tgt : List String) (it : Item) : Column :=
  Column.mk1 (colSpecOf env it).raw (some ((mkTable env tgt none).d, (mkTable env tgt none).printed))

/-- the column pairs one select item contributes: one per column reference of its expression -/
def itemPairs (env : Env) (tgt : List String) (tabs : List DObj) : Item → List (Node × Node)
  | .mk e a k => (refs e).map (fun r =>
      ((srcCol env.importDefault tabs (normRef r)).key, (tgtCol env tgt (.mk e a k)).key))

/-- **the specification**: the (source column, target column) pairs of `INSERT INTO tgt SELECT its FROM frm` -/
def specPairs (env : Env) (tgt : List String) (its : List Item) (frm : List FromExpr) : List (Node × Node) :=
  its.flatMap (itemPairs env tgt (fromTabs env frm))

/-- the owner recorded in a column key -/
def colParent : Node → Option DS
  | .col _ p => p
  | _ => none

/-- the HAS_COLUMN edges the specification predicts: every column of a pair hangs from its owner -/
def specOwners (K : List (Node × Node)) : List (Node × Node) :=
  K.flatMap (fun p =>
    (match colParent p.1 with | some d => [(Node.ds d, p.1)] | none => []) ++
    (match colParent p.2 with | some d => [(Node.ds d, p.2)] | none => []))

/-! ### the fragment -/

def tabElem : FromElem → Bool
  | .table .. => true
  | .derived .. => false

def joinOK : Join → Bool
  | .mk _ e on _ => tabElem e && noSubOpt on

def feOK : FromExpr → Bool
  | .mk b js => tabElem b && js.all joinOK

/-- written aliases are unambiguous: two table references with the same written alias are the same table -/
def aliasesUnambiguous (tabs : List DObj) : Bool :=
  (tabs.filterMap explEntry).all (fun e1 => (tabs.filterMap explEntry).all (fun e2 => e1.1 != e2.1 || e1.2 == e2.2))

/-- a (raw) column reference the theorem covers: unqualified only when the FROM clause is a single table reference;
    qualified when the relation the qualifier denotes is not the written table itself -/
def refOK (imp : String) (tabs : List DObj) (T : DS) (r : String × Option String) : Bool :=
  match (normRef r).2 with
  | none => tabs.length == 1
  | some q => (resolveQ imp tabs q).1 != T

def itemOK (imp : String) (tabs : List DObj) (T : DS) : Item → Bool
  | .mk e _ _ => noSub e && (refs e).all (refOK imp tabs T)

/-- one SELECT block over base tables (comma list and/or joins), no subquery anywhere, not reading the written table -/
def fragSelect (env : Env) (tgt : List String) : Query → Bool
  | .select _ its frm wh _ _ =>
    let tabs := fromTabs env frm
    let T := (mkTable env tgt none).d
    frm.all feOK && noSubOpt wh && !(tabs.any (fun o => o.d == T)) && aliasesUnambiguous tabs &&
      its.all (itemOK env.importDefault tabs T)
  | _ => false

/-- `INSERT INTO T <select>` (no column list), `CREATE TABLE T AS <select>`, `CREATE VIEW T AS <select>` (no column list) -/
def fragStmt (env : Env) : Stmt → Bool
  | .insert _ _ tgt none q _ => fragSelect env tgt q
  | .ctas tgt _ _ q _ => fragSelect env tgt q
  | .createView tgt _ none q => fragSelect env tgt q
  | _ => false

def stmtTarget : Stmt → List String
  | .insert _ _ tgt _ _ _ => tgt
  | .ctas tgt _ _ _ _ => tgt
  | .createView tgt _ _ _ => tgt
  | _ => []

def stmtItems : Stmt → List Item
  | .insert _ _ _ _ (.select _ its _ _ _ _) _ => its
  | .ctas _ _ _ (.select _ its _ _ _ _) _ => its
  | .createView _ _ _ (.select _ its _ _ _ _) => its
  | _ => []

def stmtFrom : Stmt → List FromExpr
  | .insert _ _ _ _ (.select _ _ frm _ _ _) _ => frm
  | .ctas _ _ _ (.select _ _ frm _ _ _) _ => frm
  | .createView _ _ _ (.select _ _ frm _ _ _) => frm
  | _ => []

/-! ## 2. alias map lookups -/

theorem amGet_append (A E : AliasMap) (k : String) :
    amGet (A ++ E) k = match amGet E k with | some v => some v | none => amGet A k := by
  unfold amGet
  rw [List.reverse_append, List.find?_append]
  cases h : List.find? (fun x => x.1 == k) E.reverse <;> simp

theorem amGet_none_of (E : AliasMap) (k : String) (h : ∀ v, (k, v) ∉ E) : amGet E k = none := by
  unfold amGet
  cases hf : List.find? (fun x => x.1 == k) E.reverse with
  | none => rfl
  | some e =>
    have h1 := List.find?_some hf
    have h2 := List.mem_of_find?_eq_some hf
    simp only [beq_iff_eq] at h1
    exact absurd (by rw [← h1]; exact List.mem_reverse.mp h2) (h e.2)

theorem amGet_mem (E : AliasMap) (k : String) (v : DS × String) (h : amGet E k = some v) : (k, v) ∈ E := by
  unfold amGet at h
  cases hf : List.find? (fun x => x.1 == k) E.reverse with
  | none => rw [hf] at h; cases h
  | some e =>
    rw [hf] at h
    simp only [Option.map_some, Option.some.injEq] at h
    have h1 := List.find?_some hf
    have h2 := List.mem_of_find?_eq_some hf
    simp only [beq_iff_eq] at h1
    have : e = (k, v) := by rw [← h1, ← h]
    rw [← this]; exact List.mem_reverse.mp h2

theorem amGet_isSome_of_mem (E : AliasMap) (k : String) (v : DS × String) (h : (k, v) ∈ E) : ∃ v', amGet E k = some v' := by
  unfold amGet
  cases hf : List.find? (fun x => x.1 == k) E.reverse with
  | none =>
    rw [List.find?_eq_none] at hf
    have := hf (k, v) (List.mem_reverse.mpr h)
    simp at this
  | some e => exact ⟨e.2, rfl⟩

/-- lookups in two maps with the same entries for `k`, at most one value for `k`: same answer -/
theorem amGet_congr (E E' : AliasMap) (k : String) (hmem : ∀ v, (k, v) ∈ E ↔ (k, v) ∈ E')
    (hfun : ∀ v v', (k, v) ∈ E' → (k, v') ∈ E' → v = v') : amGet E k = amGet E' k := by
  cases h' : amGet E' k with
  | none =>
    apply amGet_none_of
    intro v hv
    obtain ⟨v', hv'⟩ := amGet_isSome_of_mem E' k v ((hmem v).mp hv)
    rw [h'] at hv'; cases hv'
  | some v0 =>
    have hm0 := amGet_mem E' k v0 h'
    obtain ⟨v1, hv1⟩ := amGet_isSome_of_mem E k v0 ((hmem v0).mpr hm0)
    have hm1 := (hmem v1).mp (amGet_mem E k v1 hv1)
    rw [hv1, hfun v1 v0 hm1 hm0]

/-- the part of both alias maps that only depends on the table list -/
def baseMap (tabs : List DObj) : AliasMap :=
  let tables := tabs.filter (fun o => o.d.isTable)
  let unq : AliasMap := tables.filterMap (fun o => match o.d with | .table _ n => some (n, (o.d, o.printed)) | _ => none)
  let qual : AliasMap := tables.map (fun o => (o.printed, (o.d, o.printed)))
  let dflt : AliasMap := tables.filterMap (fun o =>
    match o.d with
    | .table _ n => if o.alias == some n then some (n, (o.d, o.printed)) else none
    | _ => none)
  unq ++ qual ++ dflt

/-- the written aliases as the holder sees them: HAS_ALIAS edges of the group's datasets, in `graph.edges` order -/
def graphExpl (g : LGraph) (tabs : List DObj) : AliasMap :=
  (g.edgesOrdered.filterMap (fun e =>
    match e.1, e.2 with
    | .ds d, .str a =>
      if g.ety e.1 e.2 == some .hasAlias && tabs.any (·.d == d) then some (a, (d, printedDS g d)) else none
    | _, _ => none)).filter (fun e => match e.2.1 with | .table _ n => e.1 != n | _ => true)

theorem aliasMapping_split (g : LGraph) (tabs : List DObj) : aliasMapping g tabs = baseMap tabs ++ graphExpl g tabs := rfl

theorem specAliasMap_split (tabs : List DObj) : specAliasMap tabs = baseMap tabs ++ tabs.filterMap explEntry := rfl

/-- the alias edges of the holder are those of the table references `tabs`, and the tables are nodes -/
structure AliasOK (g : LGraph) (tabs : List DObj) : Prop where
  edge : ∀ d a, ((Node.ds d, Node.str a) ∈ g.edges ∧ g.ety (.ds d) (.str a) = some .hasAlias) ↔
    ∃ o ∈ tabs, o.d = d ∧ o.alias = some a
  node : ∀ o ∈ tabs, Node.ds o.d ∈ g.nodes

theorem mem_graphExpl (g : LGraph) (tabs : List DObj) (hT : ∀ o ∈ tabs, o.d.isTable = true) (hA : AliasOK g tabs)
    (x : String × (DS × String)) : x ∈ graphExpl g tabs ↔ x ∈ tabs.filterMap explEntry := by
  unfold graphExpl
  simp only [List.mem_filter, List.mem_filterMap]
  constructor
  · rintro ⟨⟨e, he, hx⟩, hex⟩
    obtain ⟨u, v⟩ := e
    cases u with
    | col _ _ => simp at hx
    | str _ => simp at hx
    | ds d =>
      cases v with
      | col _ _ => simp at hx
      | ds _ => simp at hx
      | str a =>
        simp only at hx
        split at hx
        · rename_i hc
          simp only [Bool.and_eq_true, beq_iff_eq] at hc
          obtain ⟨o, ho, hod, hoa⟩ := (hA.edge d a).mp ⟨mem_edgesOrdered g _ he, hc.1⟩
          have hx' : x = (a, (d, printedDS g d)) := (Option.some.inj hx).symm
          subst hx'
          refine ⟨o, ho, ?_⟩
          have hTo := hT o ho
          obtain ⟨od, oa⟩ := o
          simp only at hod hoa
          subst hod; subst hoa
          cases od with
          | table s n =>
            simp only at hex
            simp only [explEntry, hex, if_true]
            rfl
          | path _ => cases hTo
          | subq _ => cases hTo
        · cases hx
  · rintro ⟨o, ho, hx⟩
    have hTo := hT o ho
    obtain ⟨od, oa⟩ := o
    cases od with
    | path _ => cases hTo
    | subq _ => cases hTo
    | table s n =>
      cases oa with
      | none => simp [explEntry] at hx
      | some a =>
        simp only [explEntry] at hx
        split at hx
        · rename_i hne
          have hx' : x = (a, (DS.table s n, DObj.printed ⟨.table s n, some a⟩)) := (Option.some.inj hx).symm
          subst hx'
          have hE := (hA.edge (.table s n) a).mpr ⟨_, ho, rfl, rfl⟩
          refine ⟨⟨(.ds (.table s n), .str a), ?_, ?_⟩, ?_⟩
          · exact (mem_edgesOrdered_iff g _).mpr ⟨hE.1, hA.node _ ho⟩
          · simp only [hE.2, beq_self_eq_true, Bool.true_and]
            have : tabs.any (fun x => x.d == DS.table s n) = true :=
              List.any_eq_true.mpr ⟨_, ho, by simp⟩
            rw [this]; rfl
          · exact hne
        · cases hx

theorem unambiguous_fun (tabs : List DObj) (h : aliasesUnambiguous tabs = true) (k : String) (v v' : DS × String)
    (h1 : (k, v) ∈ tabs.filterMap explEntry) (h2 : (k, v') ∈ tabs.filterMap explEntry) : v = v' := by
  unfold aliasesUnambiguous at h
  rw [List.all_eq_true] at h
  have := h _ h1
  rw [List.all_eq_true] at this
  have := this _ h2
  simpa using this

/-- **the holder's alias map answers like the specification's**, for every qualifier -/
theorem amGet_aliasMapping (g : LGraph) (tabs : List DObj) (hT : ∀ o ∈ tabs, o.d.isTable = true) (hA : AliasOK g tabs)
    (hU : aliasesUnambiguous tabs = true) (q : String) :
    amGet (aliasMapping g tabs) q = amGet (specAliasMap tabs) q := by
  rw [aliasMapping_split, specAliasMap_split, amGet_append, amGet_append,
    amGet_congr (graphExpl g tabs) (tabs.filterMap explEntry) q (fun v => mem_graphExpl g tabs hT hA _)
      (fun v v' => unambiguous_fun tabs hU q v v')]


/-! ### `set(alias_mapping.values())` when every name denotes the same relation -/

private theorem filterMap_const {α β : Type} (f : α → Option β) (v : β) :
    ∀ l : List α, (∀ x ∈ l, f x = some v) → l.filterMap f = l.map (fun _ => v)
  | [], _ => rfl
  | x :: r, h => by
    rw [List.filterMap_cons, h x (by simp)]
    simp only [List.map_cons]
    rw [filterMap_const f v r (fun y hy => h y (by simp [hy]))]

private theorem dedupe_const {α : Type} (v : DS × String) : ∀ (l : List α),
    (l.map (fun _ => v)).foldl (fun acc w => if acc.any (·.1 == w.1) then acc else acc ++ [w]) [v] = [v]
  | [] => rfl
  | _ :: r => by
    simp only [List.map_cons, List.foldl_cons, List.any_cons, beq_self_eq_true, Bool.true_or, if_true]
    exact dedupe_const v r

theorem amValues_const (m : AliasMap) (v : DS × String) (hne : m ≠ []) (h : ∀ e ∈ m, e.2 = v) : amValues m = [v] := by
  unfold amValues
  have hk : ∀ k ∈ (m.map (·.1)).eraseDups, amGet m k = some v := by
    intro k hk
    rw [List.mem_eraseDups] at hk
    obtain ⟨e, he, hek⟩ := List.mem_map.mp hk
    obtain ⟨v', hv'⟩ := amGet_isSome_of_mem m k e.2 (by rw [← hek]; exact he)
    have := h _ (amGet_mem m k v' hv')
    simp only at this
    rw [hv', this]
  simp only
  rw [filterMap_const _ v _ hk]
  cases hks : (m.map (·.1)).eraseDups with
  | nil =>
    exfalso
    cases m with
    | nil => exact hne rfl
    | cons e r =>
      have : e.1 ∈ ((e :: r).map (·.1)).eraseDups := List.mem_eraseDups.mpr (by simp)
      rw [hks] at this; cases this
  | cons k ks =>
    simp only [List.map_cons, List.foldl_cons, List.any_nil, Bool.false_eq_true, if_false, List.nil_append]
    exact dedupe_const v ks

/-- one table reference: every name of the alias map denotes it -/
theorem amValues_single (g : LGraph) (t : DObj) (ht : t.d.isTable = true) :
    amValues (aliasMapping g [t]) = [(t.d, t.printed)] := by
  apply amValues_const
  · rw [aliasMapping_split]
    unfold baseMap
    simp [ht]
  · intro e he
    rw [aliasMapping_split, List.mem_append] at he
    rcases he with he | he
    · unfold baseMap at he
      simp only [List.filter_cons, ht, if_true, List.filter_nil, List.filterMap_cons, List.filterMap_nil, List.map_cons,
        List.map_nil, List.mem_append] at he
      obtain ⟨td, ta⟩ := t
      cases td with
      | path _ => cases ht
      | subq _ => cases ht
      | table s n =>
        simp only at he
        rcases he with (he | he) | he
        · simp only [List.mem_singleton] at he; rw [he]
        · simp only [List.mem_singleton] at he; rw [he]
        · by_cases hta : (ta == some n) = true
          · simp only [hta, if_true, List.mem_singleton] at he; rw [he]
          · simp only [hta, if_false, Bool.false_eq_true] at he; cases he
    · unfold graphExpl at he
      simp only [List.mem_filter, List.mem_filterMap] at he
      obtain ⟨⟨x, _, hx⟩, _⟩ := he
      obtain ⟨u, w⟩ := x
      cases u with
      | col _ _ => simp at hx
      | str _ => simp at hx
      | ds d =>
        cases w with
        | col _ _ => simp at hx
        | ds _ => simp at hx
        | str a =>
          simp only at hx
          split at hx
          · rename_i hc
            simp only [Bool.and_eq_true, beq_iff_eq, List.any_cons, List.any_nil, Bool.or_false] at hc
            have hd : t.d = d := hc.2
            rw [← Option.some.inj hx]
            simp only
            obtain ⟨td, ta⟩ := t
            simp only at hd
            subst hd
            cases td with
            | path _ => cases ht
            | subq _ => cases ht
            | table s n => rfl
          · cases hx


/-! ## 3. the holder after the reads -/

/-- a table reference as `mkTable` builds it: a `Table` with an alias attribute -/
def isTabRef (o : DObj) : Bool := o.d.isTable && o.alias.isSome

theorem isTabRef_mkTable (env : Env) (parts : List String) (alias : Option String) : isTabRef (mkTable env parts alias) = true := rfl

theorem addReadO_tab (g : LGraph) (s n a : String) :
    addReadO g ⟨.table s n, some a⟩ =
      (g.setTag (.ds (.table s n)) .read true none).addEdge (.ds (.table s n)) (.str a) .hasAlias := rfl

theorem tabRef_cases (o : DObj) (h : isTabRef o = true) : ∃ s n a, o = ⟨.table s n, some a⟩ := by
  obtain ⟨d, al⟩ := o
  cases d with
  | path _ => simp [isTabRef, DS.isTable] at h
  | subq _ => simp [isTabRef, DS.isTable] at h
  | table s n =>
    cases al with
    | none => simp [isTabRef] at h
    | some a => exact ⟨s, n, a, rfl⟩

theorem payload_setTag (g : LGraph) (n m : Node) (t : Tag) (b : Bool) (p : Option Payload) :
    (g.setTag n t b p).payload m = (g.addNode n p).payload m := rfl

/-- a payload read after `add_edge`: the old one, or one of the two key objects handed in -/
theorem payload_addEdge_cases (g : LGraph) (u v m : Node) (ty : EType) (i : Option Nat) (pu pv : Option Payload) (x : Payload)
    (h : (g.addEdge u v ty i pu pv).payload m = some x) : g.payload m = some x ∨ pu = some x ∨ pv = some x := by
  rw [Graph.payload_addEdge, Graph.payload_addNode, Graph.payload_addNode] at h
  split at h
  · split at h
    · exact Or.inl h
    · split at h
      · exact Or.inr (Or.inl h)
      · cases h
  · split at h
    · exact Or.inr (Or.inr h)
    · cases h

theorem payload_addNode_cases (g : LGraph) (n m : Node) (p : Option Payload) (x : Payload)
    (h : (g.addNode n p).payload m = some x) : g.payload m = some x ∨ p = some x := by
  rw [Graph.payload_addNode] at h
  split at h
  · exact Or.inl h
  · split at h
    · exact Or.inr h
    · cases h

/-- the alias pairs a list of table references contributes -/
def aliasPair (l : List DObj) (u v : Node) : Prop := ∃ o ∈ l, ∃ a, o.alias = some a ∧ u = .ds o.d ∧ v = .str a

theorem mem_edges_foldl_addReadO (l : List DObj) (hl : ∀ o ∈ l, isTabRef o = true) (g : LGraph) (u v : Node) :
    (u, v) ∈ (l.foldl addReadO g).edges ↔ (u, v) ∈ g.edges ∨ aliasPair l u v := by
  induction l generalizing g with
  | nil => simp [aliasPair]
  | cons o r ih =>
    obtain ⟨s, n, a, rfl⟩ := tabRef_cases o (hl o (by simp))
    simp only [List.foldl_cons]
    rw [ih (fun o ho => hl o (by simp [ho])), addReadO_tab, mem_edges_addEdge, edges_setTag]
    simp only [aliasPair, List.mem_cons, exists_eq_or_imp, Option.some.injEq, exists_eq_left', Prod.mk.injEq]
    constructor
    · rintro ((h | h) | h)
      · exact Or.inl h
      · exact Or.inr (Or.inl h)
      · exact Or.inr (Or.inr h)
    · rintro (h | h | h)
      · exact Or.inl (Or.inl h)
      · exact Or.inl (Or.inr h)
      · exact Or.inr h

theorem ety_foldl_addReadO (l : List DObj) (hl : ∀ o ∈ l, isTabRef o = true) (g : LGraph) (u v : Node) :
    (aliasPair l u v → (l.foldl addReadO g).ety u v = some .hasAlias) ∧
    (¬ aliasPair l u v → (l.foldl addReadO g).ety u v = g.ety u v) := by
  induction l generalizing g with
  | nil => simp [aliasPair]
  | cons o r ih =>
    obtain ⟨s, n, a, rfl⟩ := tabRef_cases o (hl o (by simp))
    simp only [List.foldl_cons]
    have ih' := ih (fun o ho => hl o (by simp [ho])) (addReadO g ⟨.table s n, some a⟩)
    have hstep : (addReadO g ⟨.table s n, some a⟩).ety u v =
        if u = .ds (.table s n) ∧ v = .str a then some .hasAlias else g.ety u v := by
      rw [addReadO_tab, ety_addEdge, ety_setTag]
    constructor
    · intro hp
      by_cases hr : aliasPair r u v
      · exact ih'.1 hr
      · rw [ih'.2 hr, hstep]
        obtain ⟨o, ho, a', ha', hu, hv⟩ := hp
        rcases List.mem_cons.mp ho with rfl | ho
        · simp only [Option.some.injEq] at ha'
          subst ha'
          rw [if_pos ⟨hu, hv⟩]
        · exact absurd ⟨o, ho, a', ha', hu, hv⟩ hr
    · intro hp
      have hr : ¬ aliasPair r u v := fun ⟨o, ho, x⟩ => hp ⟨o, List.mem_cons_of_mem _ ho, x⟩
      rw [ih'.2 hr, hstep, if_neg]
      rintro ⟨hu, hv⟩
      exact hp ⟨_, List.mem_cons_self .., a, rfl, hu, hv⟩

theorem nodes_foldl_addReadO (l : List DObj) (hl : ∀ o ∈ l, isTabRef o = true) (g : LGraph) :
    (∀ n ∈ g.nodes, n ∈ (l.foldl addReadO g).nodes) ∧ (∀ o ∈ l, Node.ds o.d ∈ (l.foldl addReadO g).nodes) := by
  induction l generalizing g with
  | nil => simp
  | cons o r ih =>
    obtain ⟨s, n, a, rfl⟩ := tabRef_cases o (hl o (by simp))
    simp only [List.foldl_cons]
    have ih' := ih (fun o ho => hl o (by simp [ho])) (addReadO g ⟨.table s n, some a⟩)
    have hstep : ∀ m, m ∈ (addReadO g ⟨.table s n, some a⟩).nodes ↔
        (m ∈ g.nodes ∨ m = .ds (.table s n)) ∨ m = .ds (.table s n) ∨ m = .str a := by
      intro m; rw [addReadO_tab, mem_nodes_addEdge, mem_nodes_setTag]
    constructor
    · intro m hm
      exact ih'.1 m ((hstep m).mpr (Or.inl (Or.inl hm)))
    · intro o ho
      rcases List.mem_cons.mp ho with rfl | ho
      · exact ih'.1 _ ((hstep _).mpr (Or.inl (Or.inr rfl)))
      · exact ih'.2 o ho

theorem wf_foldl_addReadO (l : List DObj) (hl : ∀ o ∈ l, isTabRef o = true) (g : LGraph) (h : ExportLemmas.WF g) :
    ExportLemmas.WF (l.foldl addReadO g) := by
  induction l generalizing g with
  | nil => exact h
  | cons o r ih =>
    obtain ⟨s, n, a, rfl⟩ := tabRef_cases o (hl o (by simp))
    simp only [List.foldl_cons]
    apply ih (fun o ho => hl o (by simp [ho]))
    rw [addReadO_tab]
    exact ExportLemmas.wf_addEdge _ _ _ _ _ _ _ (ExportLemmas.wf_setTag _ _ _ _ _ h)

theorem pay_foldl_addReadO (l : List DObj) (hl : ∀ o ∈ l, isTabRef o = true) (g : LGraph) (m : Node) (c : Column)
    (h : (l.foldl addReadO g).payload m = some (.col c)) : g.payload m = some (.col c) := by
  induction l generalizing g with
  | nil => exact h
  | cons o r ih =>
    obtain ⟨s, n, a, rfl⟩ := tabRef_cases o (hl o (by simp))
    simp only [List.foldl_cons] at h
    have h1 := ih (fun o ho => hl o (by simp [ho])) _ h
    rw [addReadO_tab] at h1
    rcases payload_addEdge_cases _ _ _ _ _ _ _ _ _ h1 with h2 | h2 | h2
    · rw [payload_setTag] at h2
      rcases payload_addNode_cases _ _ _ _ _ h2 with h3 | h3
      · exact h3
      · cases h3
    · cases h2
    · cases h2

/-- what sections 5–7 need to know about the holder the cleanup starts from -/
structure ReadBase (g1 : LGraph) (tabs : List DObj) (T : DS) : Prop where
  wf : ExportLemmas.WF g1
  alias : AliasOK g1 tabs
  edges : ∀ u v, (u, v) ∈ g1.edges → (∃ d a, u = .ds d ∧ v = .str a) ∧ g1.ety u v = some .hasAlias
  srcT : ∀ v, (Node.ds T, v) ∉ g1.edges
  pay : ∀ n c, g1.payload n ≠ some (.col c)
  wr : ∀ d, g1.tag (.ds d) .write = some true ↔ d = T
  rd : ∀ d, g1.tag (.ds d) .read = some true ↔ d ∈ tabs.map (·.d)

/-- the holder `add_write(T)` -/
def g0 (t : DObj) : LGraph := addWriteO Graph.empty t

theorem g0_nodes (t : DObj) : (g0 t).nodes = [.ds t.d] := by
  simp [g0, addWriteO, addWrite, setTag, addNode, hasNode, Graph.empty]
theorem g0_edges (t : DObj) : (g0 t).edges = [] := by
  simp [g0, addWriteO, addWrite]
theorem g0_tag (t : DObj) (n : Node) (x : Tag) : (g0 t).tag n x = if n = .ds t.d ∧ x = .write then some true else none := by
  unfold g0; rw [tag_addWriteO, tag_empty]

theorem g0_wf (t : DObj) : ExportLemmas.WF (g0 t) := by
  unfold g0 addWriteO addWrite
  exact ExportLemmas.wf_setTag _ _ _ _ _ ExportLemmas.wf_empty

theorem g0_payload (t : DObj) (ht : t.d.isTable = true) (m : Node) : (g0 t).payload m = none := by
  unfold g0 addWriteO addWrite
  rw [payload_setTag, Graph.payload_addNode]
  have : t.payload = none := by
    obtain ⟨d, a⟩ := t
    cases d with
    | table _ _ => rfl
    | path _ => rfl
    | subq _ => cases ht
  simp [this, Graph.payload, Graph.hasNode, Graph.empty]

theorem readBase (t : DObj) (ht : t.d.isTable = true) (tabs : List DObj) (hl : ∀ o ∈ tabs, isTabRef o = true)
    (hself : ∀ o ∈ tabs, o.d ≠ t.d) : ReadBase (tabs.foldl addReadO (g0 t)) tabs t.d := by
  have hE := mem_edges_foldl_addReadO tabs hl (g0 t)
  have hY := ety_foldl_addReadO tabs hl (g0 t)
  have hN := nodes_foldl_addReadO tabs hl (g0 t)
  refine ⟨wf_foldl_addReadO tabs hl _ (g0_wf t), ⟨?_, hN.2⟩, ?_, ?_, ?_, ?_, ?_⟩
  · intro d a
    constructor
    · rintro ⟨he, _⟩
      rcases (hE _ _).mp he with h | ⟨o, ho, a', ha', hu, hv⟩
      · rw [g0_edges] at h; cases h
      · cases hu; cases hv
        exact ⟨o, ho, rfl, ha'⟩
    · rintro ⟨o, ho, hd, ha⟩
      have hp : aliasPair tabs (.ds d) (.str a) := ⟨o, ho, a, ha, by rw [hd], rfl⟩
      exact ⟨(hE _ _).mpr (Or.inr hp), (hY _ _).1 hp⟩
  · intro u v he
    rcases (hE _ _).mp he with h | hp
    · rw [g0_edges] at h; cases h
    · obtain ⟨o, ho, a', ha', hu, hv⟩ := hp
      exact ⟨⟨o.d, a', hu, hv⟩, (hY _ _).1 ⟨o, ho, a', ha', hu, hv⟩⟩
  · intro v he
    rcases (hE _ _).mp he with h | ⟨o, ho, a', ha', hu, hv⟩
    · rw [g0_edges] at h; cases h
    · exact hself o ho (Node.ds.inj hu).symm
  · intro n c h
    have := pay_foldl_addReadO tabs hl _ n c h
    rw [g0_payload t ht] at this; cases this
  · intro d
    rw [tag_foldl_addReadO, g0_tag]
    simp
  · intro d
    rw [tag_foldl_addReadO, g0_tag]
    simp


/-! ### tag sets of a holder with duplicate‑free nodes -/

private theorem tagSet_aux (P : Node → Bool) (T : DS) (hP : ∀ d, P (.ds d) = true ↔ d = T) :
    ∀ l : List Node, l.Nodup → (l.filter P).filterMap dsOf = if Node.ds T ∈ l then [T] else []
  | [], _ => rfl
  | n :: r, hnd => by
    have hnd' := List.nodup_cons.mp hnd
    have ih := tagSet_aux P T hP r hnd'.2
    cases n with
    | ds d =>
      by_cases hd : d = T
      · subst hd
        have : P (.ds d) = true := (hP d).mpr rfl
        rw [List.filter_cons_of_pos this, List.filterMap_cons]
        simp only [dsOf]
        rw [ih, if_neg hnd'.1]
        simp
      · have : ¬ P (.ds d) = true := fun h => hd ((hP d).mp h)
        rw [List.filter_cons_of_neg this, ih]
        have hne : Node.ds T ≠ Node.ds d := fun e => hd (Node.ds.inj e).symm
        simp [hne]
    | col a b =>
      by_cases hp : P (.col a b) = true
      · rw [List.filter_cons_of_pos hp, List.filterMap_cons]; simp only [dsOf]; rw [ih]; simp
      · rw [List.filter_cons_of_neg hp, ih]; simp
    | str a =>
      by_cases hp : P (.str a) = true
      · rw [List.filter_cons_of_pos hp, List.filterMap_cons]; simp only [dsOf]; rw [ih]; simp
      · rw [List.filter_cons_of_neg hp, ih]; simp

theorem tagSet_singleton (g : LGraph) (t : Tag) (T : DS) (hN : g.nodes.Nodup)
    (h : ∀ d, g.tag (.ds d) t = some true ↔ d = T) : tagSet g t = [T] := by
  unfold tagSet
  rw [tagSet_aux (fun n => g.tag n t == some true) T (fun d => by simpa using h d) g.nodes hN]
  have : Node.ds T ∈ g.nodes := by
    apply Decidable.byContradiction
    intro hn
    have := (h T).mpr rfl
    rw [tag_of_not_mem _ _ _ hn] at this
    cases this
  rw [if_pos this]

theorem ReadBase.writeSet {g1 : LGraph} {tabs : List DObj} {T : DS} (h : ReadBase g1 tabs T) : writeSet g1 = [T] :=
  tagSet_singleton g1 .write T h.wf.nodup h.wr

theorem ReadBase.notRead {g1 : LGraph} {tabs : List DObj} {T : DS} (h : ReadBase g1 tabs T)
    (hself : ∀ o ∈ tabs, o.d ≠ T) : T ∉ readSet g1 := by
  unfold readSet
  rw [mem_tagSet, h.rd T]
  intro hm
  obtain ⟨o, ho, hd⟩ := List.mem_map.mp hm
  exact hself o ho hd

theorem aliasOK_frame {g1 g : LGraph} {tabs : List DObj} (f : Frame g1 g) (hA : AliasOK g1 tabs) : AliasOK g tabs := by
  refine ⟨fun d a => ?_, fun o ho => ?_⟩
  · have := f.edges (.ds d) (.str a) rfl rfl
    rw [this.1, this.2]
    exact hA.edge d a
  · obtain ⟨extra, he, _⟩ := f.nodes
    have h1 : Node.ds o.d ∈ nonColNodes g1 := Frame.mem_nonCol.mpr ⟨hA.node o ho, rfl⟩
    have h2 : Node.ds o.d ∈ nonColNodes g := by rw [he]; exact List.mem_append.mpr (Or.inl h1)
    exact (Frame.mem_nonCol.mp h2).1

/-! ## 4. `to_source_columns` on the fragment -/

theorem foldl_congr_mem {α β : Type} (f f' : β → α → β) : ∀ (l : List α) (b : β),
    (∀ x ∈ l, ∀ acc, f acc x = f' acc x) → l.foldl f b = l.foldl f' b
  | [], _, _ => rfl
  | x :: r, b, h => by
    simp only [List.foldl_cons]
    rw [h x (by simp) b]
    exact foldl_congr_mem f f' r _ (fun y hy => h y (by simp [hy]))

theorem permK_single {α : Type} (k : Nat) (x : α) : permK k [x] = [x] := by
  simp [permK]

theorem addParent_none (n : String) (v : DS × String) : (Column.mk1 n none).addParent v = Column.mk1 n (some v) := by
  simp [Column.mk1, Column.addParent, insertParent]

/-- on the fragment every reference resolves to ONE column, the one the specification names -/
theorem toSourceColumns_eq (imp : String) (g : LGraph) (tabs : List DObj) (c : ColSpec) (k : Nat)
    (hT : ∀ o ∈ tabs, isTabRef o = true) (hA : AliasOK g tabs) (hU : aliasesUnambiguous tabs = true)
    (hc : ∀ r ∈ c.srcs, r.2 = none → tabs.length = 1) :
    toSourceColumns imp (aliasMapping g tabs) c k = c.srcs.foldl (fun acc r => pushCol acc (srcCol imp tabs r)) [] := by
  have hT' : ∀ o ∈ tabs, o.d.isTable = true := by
    intro o ho
    have := hT o ho
    simp only [isTabRef, Bool.and_eq_true] at this
    exact this.1
  unfold toSourceColumns
  apply foldl_congr_mem
  intro r hr acc
  obtain ⟨rn, rq⟩ := r
  cases rq with
  | none =>
    have hlen := hc _ hr rfl
    obtain ⟨t, rfl⟩ : ∃ t, tabs = [t] := by
      match tabs, hlen with
      | [t], _ => exact ⟨t, rfl⟩
    simp only
    rw [amValues_single g t (hT' t (by simp)), permK_single]
    simp only [srcCol, List.head?_cons, Option.map_some, List.foldl_cons, List.foldl_nil, addParent_none, ite_self]
  | some q =>
    simp only [srcCol, resolveQ]
    rw [amGet_aliasMapping g tabs hT' hA hU q]
    cases amGet (specAliasMap tabs) q <;> rfl

theorem mem_pushFold {α : Type} (f : α → Column) : ∀ (l : List α) (acc : List Column) (y : Column),
    y ∈ l.foldl (fun acc r => pushCol acc (f r)) acc → y ∈ acc ∨ ∃ r ∈ l, y = f r
  | [], _, _, h => Or.inl h
  | x :: r, acc, y, h => by
    simp only [List.foldl_cons] at h
    rcases mem_pushFold f r _ y h with h1 | ⟨z, hz, hy⟩
    · unfold pushCol at h1
      split at h1
      · exact Or.inl h1
      · rcases List.mem_append.mp h1 with h2 | h2
        · exact Or.inl h2
        · simp only [List.mem_singleton] at h2
          exact Or.inr ⟨x, by simp, h2⟩
    · exact Or.inr ⟨z, by simp [hz], hy⟩

theorem mem_keys_pushFold {α : Type} (f : α → Column) : ∀ (l : List α) (acc : List Column) (x : Node),
    x ∈ (l.foldl (fun acc r => pushCol acc (f r)) acc).map (·.key) ↔ x ∈ acc.map (·.key) ∨ x ∈ l.map (fun r => (f r).key)
  | [], _, _ => by simp
  | y :: r, acc, x => by
    simp only [List.foldl_cons]
    rw [mem_keys_pushFold f r]
    have hp : x ∈ (pushCol acc (f y)).map (·.key) ↔ x ∈ acc.map (·.key) ∨ x = (f y).key := by
      unfold pushCol
      split
      · rename_i hany
        constructor
        · exact Or.inl
        · rintro (h | h)
          · exact h
          · obtain ⟨z, hz, hk⟩ := List.any_eq_true.mp hany
            simp only [beq_iff_eq] at hk
            rw [h, ← hk]
            exact List.mem_map.mpr ⟨z, hz, rfl⟩
      · simp [List.map_append]
    rw [hp]
    simp only [List.map_cons, List.mem_cons]
    constructor
    · rintro ((h | h) | h)
      · exact Or.inl h
      · exact Or.inr (Or.inl h)
      · exact Or.inr (Or.inr h)
    · rintro (h | h | h)
      · exact Or.inl (Or.inl h)
      · exact Or.inl (Or.inr h)
      · exact Or.inr h


/-! ## 5. the wiring invariant -/

/-- the type an edge must have, read off its endpoints: column → column LINEAGE, owner → column HAS_COLUMN, the rest (dataset →
    alias string) HAS_ALIAS -/
def kind (u v : Node) : EType := if u.isCol then .lineage else if v.isCol then .hasColumn else .hasAlias

def Typed (g : LGraph) : Prop := ∀ a b, (a, b) ∈ g.edges → g.ety a b = some (kind a b)
/-- no owner candidate of a column is a subquery -/
def colOK (c : Column) : Prop := ∀ p ∈ c.parents, p.1.isSubq = false
def PayOK (g : LGraph) : Prop := ∀ n c, g.payload n = some (.col c) → colOK c

theorem typed_addEdge (g : LGraph) (u v : Node) (ty : EType) (i : Option Nat) (pu pv : Option Payload) (h : Typed g)
    (hty : ty = kind u v) : Typed (g.addEdge u v ty i pu pv) := by
  intro a b hm
  rw [ety_addEdge]
  by_cases hab : a = u ∧ b = v
  · rw [if_pos hab, hab.1, hab.2, hty]
  · rw [if_neg hab]
    rcases (mem_edges_addEdge _ _ _ _ _ _ _ _).mp hm with h1 | h1
    · exact h a b h1
    · exact absurd (by simpa using h1) hab

theorem payOK_addEdge (g : LGraph) (u v : Node) (ty : EType) (i : Option Nat) (pu pv : Option Payload) (h : PayOK g)
    (hu : ∀ c, pu = some (.col c) → colOK c) (hv : ∀ c, pv = some (.col c) → colOK c) : PayOK (g.addEdge u v ty i pu pv) := by
  intro n c hc
  rcases payload_addEdge_cases _ _ _ _ _ _ _ _ _ hc with h1 | h1 | h1
  · exact h n c h1
  · exact hu c h1
  · exact hv c h1

/-- `add_column_lineage(src, tgt)` when the target column has one owner -/
def addLin (g : LGraph) (src tgt : Column) (tp : DS × String) : LGraph :=
  let g := g.addEdge src.key tgt.key .lineage none (some (.col src)) (some (.col tgt))
  let g := g.addEdge (.ds tp.1) tgt.key .hasColumn none (some (.sub tp.2)) (some (.col tgt))
  match src.parent? with
  | some sp => g.addEdge (.ds sp.1) src.key .hasColumn none (some (.sub sp.2)) (some (.col src))
  | none => g

theorem addColumnLineage_eq (g : LGraph) (src tgt : Column) (tp : DS × String) (h : tgt.parent? = some tp) :
    addColumnLineage g src tgt = .ok (addLin g src tgt tp) := by
  unfold addColumnLineage addLin
  rw [h]
  cases src.parent? <;> rfl

theorem key_isCol (c : Column) : c.key.isCol = true := rfl
theorem colParent_key (c : Column) : colParent c.key = c.parent?.map (·.1) := rfl

theorem mem_edges_addLin (g : LGraph) (src tgt : Column) (tp : DS × String) (e : Node × Node) :
    e ∈ (addLin g src tgt tp).edges ↔ e ∈ g.edges ∨ e = (src.key, tgt.key) ∨ e = (.ds tp.1, tgt.key) ∨
      ∃ sp, src.parent? = some sp ∧ e = (.ds sp.1, src.key) := by
  unfold addLin
  cases h : src.parent? with
  | none => simp [mem_edges_addEdge, or_assoc]
  | some sp => simp [mem_edges_addEdge, or_assoc]

theorem frame_addLin (g : LGraph) (src tgt : Column) (tp : DS × String) : Frame g (addLin g src tgt tp) := by
  unfold addLin
  have f1 := Frame.addEdge g src.key tgt.key .lineage none (some (.col src)) (some (.col tgt)) (Or.inl (key_isCol _))
  have f2 := Frame.addEdge (g.addEdge src.key tgt.key .lineage none (some (.col src)) (some (.col tgt)))
    (.ds tp.1) tgt.key .hasColumn none (some (.sub tp.2)) (some (.col tgt)) (Or.inr (key_isCol _))
  cases src.parent? with
  | none => exact f1.trans f2
  | some sp => exact (f1.trans f2).trans (Frame.addEdge _ _ _ _ _ _ _ (Or.inr (key_isCol _)))

theorem typed_addLin (g : LGraph) (src tgt : Column) (tp : DS × String) (h : Typed g) : Typed (addLin g src tgt tp) := by
  unfold addLin
  have t1 := typed_addEdge g src.key tgt.key .lineage none (some (.col src)) (some (.col tgt)) h rfl
  have t2 := typed_addEdge _ (.ds tp.1) tgt.key .hasColumn none (some (.sub tp.2)) (some (.col tgt)) t1 rfl
  cases src.parent? with
  | none => exact t2
  | some sp => exact typed_addEdge _ _ _ _ _ _ _ t2 rfl

theorem payOK_addLin (g : LGraph) (src tgt : Column) (tp : DS × String) (h : PayOK g) (hs : colOK src) (ht : colOK tgt) :
    PayOK (addLin g src tgt tp) := by
  unfold addLin
  have hS : ∀ c, (some (Payload.col src)) = some (.col c) → colOK c := by
    intro c hc; cases hc; exact hs
  have hT : ∀ c, (some (Payload.col tgt)) = some (.col c) → colOK c := by
    intro c hc; cases hc; exact ht
  have hN : ∀ (x : String) c, (some (Payload.sub x)) = some (.col c) → colOK c := by
    intro x c hc; cases hc
  have t1 := payOK_addEdge g src.key tgt.key .lineage none (some (.col src)) (some (.col tgt)) h hS hT
  have t2 := payOK_addEdge _ (.ds tp.1) tgt.key .hasColumn none (some (.sub tp.2)) (some (.col tgt)) t1 (hN _) hT
  cases src.parent? with
  | none => exact t2
  | some sp => exact payOK_addEdge _ _ _ _ _ _ _ t2 (hN _) hS

theorem mem_specOwners (K : List (Node × Node)) (x : Node × Node) :
    x ∈ specOwners K ↔ ∃ p ∈ K, (∃ d, colParent p.1 = some d ∧ x = (.ds d, p.1)) ∨ (∃ d, colParent p.2 = some d ∧ x = (.ds d, p.2)) := by
  unfold specOwners
  simp only [List.mem_flatMap, List.mem_append]
  constructor
  · rintro ⟨p, hp, h | h⟩
    · refine ⟨p, hp, Or.inl ?_⟩
      cases hc : colParent p.1 with
      | none => rw [hc] at h; cases h
      | some d => rw [hc] at h; simp only [List.mem_singleton] at h; exact ⟨d, rfl, h⟩
    · refine ⟨p, hp, Or.inr ?_⟩
      cases hc : colParent p.2 with
      | none => rw [hc] at h; cases h
      | some d => rw [hc] at h; simp only [List.mem_singleton] at h; exact ⟨d, rfl, h⟩
  · rintro ⟨p, hp, ⟨d, hd, hx⟩ | ⟨d, hd, hx⟩⟩
    · exact ⟨p, hp, Or.inl (by rw [hd]; simp [hx])⟩
    · exact ⟨p, hp, Or.inr (by rw [hd]; simp [hx])⟩

/-- the holder `g` is the holder `g1` (after the reads) plus exactly the column pairs `K`: LINEAGE edges `K`, HAS_COLUMN edges
    from the owners recorded in the keys, every edge typed by its endpoints, nothing else touched -/
structure Wired (g1 g : LGraph) (K : List (Node × Node)) : Prop where
  frame : Frame g1 g
  lin : ∀ u v, u.isCol = true → ((u, v) ∈ g.edges ↔ (u, v) ∈ K)
  own : ∀ u v, u.isCol = false → v.isCol = true → ((u, v) ∈ g.edges ↔ (u, v) ∈ specOwners K)
  ty : Typed g
  pay : PayOK g

theorem Wired.base {g1 : LGraph} {tabs : List DObj} {T : DS} (h : ReadBase g1 tabs T) : Wired g1 g1 [] := by
  refine ⟨Frame.refl g1, ?_, ?_, ?_, ?_⟩
  · intro u v hu
    constructor
    · intro he
      obtain ⟨⟨d, a, hd, _⟩, _⟩ := h.edges u v he
      rw [hd] at hu; cases hu
    · intro he; cases he
  · intro u v _ hv
    constructor
    · intro he
      obtain ⟨⟨d, a, _, ha⟩, _⟩ := h.edges u v he
      rw [ha] at hv; cases hv
    · intro he; simp [specOwners] at he
  · intro a b he
    obtain ⟨⟨d, x, hd, hx⟩, hy⟩ := h.edges a b he
    rw [hy, hd, hx]; rfl
  · intro n c hc
    exact absurd hc (h.pay n c)

theorem Wired.congr {g1 g : LGraph} {K K' : List (Node × Node)} (h : Wired g1 g K) (hk : ∀ x, x ∈ K ↔ x ∈ K') :
    Wired g1 g K' := by
  refine ⟨h.frame, fun u v hu => (h.lin u v hu).trans (hk _), fun u v hu hv => (h.own u v hu hv).trans ?_, h.ty, h.pay⟩
  rw [mem_specOwners, mem_specOwners]
  constructor
  · rintro ⟨p, hp, x⟩; exact ⟨p, (hk p).mp hp, x⟩
  · rintro ⟨p, hp, x⟩; exact ⟨p, (hk p).mpr hp, x⟩

theorem Wired.step {g1 g : LGraph} {K : List (Node × Node)} (h : Wired g1 g K) (src tgt : Column) (tp : DS × String)
    (htp : tgt.parent? = some tp) (hs : colOK src) (ht : colOK tgt) :
    Wired g1 (addLin g src tgt tp) (K ++ [(src.key, tgt.key)]) := by
  refine ⟨h.frame.trans (frame_addLin g src tgt tp), ?_, ?_, typed_addLin g src tgt tp h.ty,
    payOK_addLin g src tgt tp h.pay hs ht⟩
  · intro u v hu
    rw [mem_edges_addLin, h.lin u v hu, List.mem_append, List.mem_singleton]
    constructor
    · rintro (h1 | h1 | h1 | ⟨sp, _, h1⟩)
      · exact Or.inl h1
      · exact Or.inr h1
      · have : u = .ds tp.1 := congrArg Prod.fst h1
        rw [this] at hu; cases hu
      · have : u = .ds sp.1 := congrArg Prod.fst h1
        rw [this] at hu; cases hu
    · rintro (h1 | h1)
      · exact Or.inl h1
      · exact Or.inr (Or.inl h1)
  · intro u v hu hv
    rw [mem_edges_addLin, h.own u v hu hv, mem_specOwners, mem_specOwners]
    have hct : colParent tgt.key = some tp.1 := by rw [colParent_key, htp]; rfl
    constructor
    · rintro (⟨p, hp, x⟩ | h1 | h1 | ⟨sp, hsp, h1⟩)
      · exact ⟨p, List.mem_append.mpr (Or.inl hp), x⟩
      · have : u = src.key := congrArg Prod.fst h1
        rw [this, key_isCol] at hu; cases hu
      · exact ⟨(src.key, tgt.key), by simp, Or.inr ⟨tp.1, hct, h1⟩⟩
      · refine ⟨(src.key, tgt.key), by simp, Or.inl ⟨sp.1, ?_, h1⟩⟩
        rw [colParent_key, hsp]; rfl
    · rintro ⟨p, hp, x⟩
      rcases List.mem_append.mp hp with hp | hp
      · exact Or.inl ⟨p, hp, x⟩
      · simp only [List.mem_singleton] at hp
        subst hp
        rcases x with ⟨d, hd, hx⟩ | ⟨d, hd, hx⟩
        · simp only at hd hx
          rw [colParent_key] at hd
          cases hsp : src.parent? with
          | none => rw [hsp] at hd; cases hd
          | some sp =>
            rw [hsp] at hd
            simp only [Option.map_some, Option.some.injEq] at hd
            exact Or.inr (Or.inr (Or.inr ⟨sp, rfl, by rw [hx, hd]⟩))
        · simp only at hd hx
          rw [hct] at hd
          exact Or.inr (Or.inr (Or.inl (by rw [hx, ← Option.some.inj hd])))

/-- the inner loop of `end_of_query_cleanup` for one select item: every source column is wired to the item's column -/
theorem wired_inner {g1 : LGraph} (tgt : Column) (tp : DS × String) (htp : tgt.parent? = some tp) (ht : colOK tgt) :
    ∀ (srcs : List Column) (g : LGraph) (K : List (Node × Node)), Wired g1 g K → (∀ s ∈ srcs, colOK s) →
      ∃ g', srcs.foldlM (fun g s => addColumnLineage g s tgt) g = .ok g' ∧
        Wired g1 g' (K ++ srcs.map (fun s => (s.key, tgt.key)))
  | [], g, K, h, _ => ⟨g, rfl, by simpa using h⟩
  | s :: r, g, K, h, hs => by
    have h1 := h.step s tgt tp htp (hs s (by simp)) ht
    obtain ⟨g', hg', hw⟩ := wired_inner tgt tp htp ht r _ _ h1 (fun x hx => hs x (by simp [hx]))
    refine ⟨g', ?_, by simpa using hw⟩
    simp only [List.foldlM_cons, bind, Except.bind, addColumnLineage_eq g s tgt tp htp]
    exact hg'


/-! ### the number of write columns stays below the number of select items

`cleanupItem` wires an item to `write_columns[idx]` only when the target already has as many columns as the group has items.
Without column list / provider the target gains at most one column per item, so this never happens. -/

theorem outT_addLin (g : LGraph) (src tgt : Column) (tp : DS × String) (T : DS) (hT : tp.1 = T)
    (hs : ∀ sp, src.parent? = some sp → sp.1 ≠ T) :
    (addLin g src tgt tp).outEdges (.ds T) =
      if tgt.key ∈ g.outEdges (.ds T) then g.outEdges (.ds T) else g.outEdges (.ds T) ++ [tgt.key] := by
  have e1 : (g.addEdge src.key tgt.key .lineage none (some (.col src)) (some (.col tgt))).outEdges (.ds T) =
      g.outEdges (.ds T) := by
    rw [outEdges_addEdge, if_neg]
    rintro ⟨h, _⟩; cases h
  have e2 : ((g.addEdge src.key tgt.key .lineage none (some (.col src)) (some (.col tgt))).addEdge (.ds tp.1) tgt.key
      .hasColumn none (some (.sub tp.2)) (some (.col tgt))).outEdges (.ds T) =
      if tgt.key ∈ g.outEdges (.ds T) then g.outEdges (.ds T) else g.outEdges (.ds T) ++ [tgt.key] := by
    rw [outEdges_addEdge, hT, e1]
    by_cases hm : tgt.key ∈ g.outEdges (.ds T)
    · simp [hm]
    · simp [hm]
  unfold addLin
  cases hp : src.parent? with
  | none => exact e2
  | some sp =>
    simp only
    rw [outEdges_addEdge, if_neg, e2]
    rintro ⟨h, _⟩
    exact hs sp hp (Node.ds.inj h).symm

theorem outT_inner (tgt : Column) (tp : DS × String) (htp : tgt.parent? = some tp) (T : DS) (hT : tp.1 = T) :
    ∀ (srcs : List Column) (g g' : LGraph), (∀ s ∈ srcs, ∀ sp, s.parent? = some sp → sp.1 ≠ T) →
      srcs.foldlM (fun g s => addColumnLineage g s tgt) g = .ok g' →
      (tgt.key ∈ g.outEdges (.ds T) → g'.outEdges (.ds T) = g.outEdges (.ds T)) ∧
      (g'.outEdges (.ds T)).length ≤ (g.outEdges (.ds T)).length + 1
  | [], g, g', _, h => by
    simp only [List.foldlM_nil, pure, Except.pure] at h
    cases h
    exact ⟨fun _ => rfl, Nat.le_succ _⟩
  | s :: r, g, g', hs, h => by
    simp only [List.foldlM_cons, bind, Except.bind, addColumnLineage_eq g s tgt tp htp] at h
    have ih := outT_inner tgt tp htp T hT r _ g' (fun x hx => hs x (by simp [hx])) h
    have e := outT_addLin g s tgt tp T hT (hs s (by simp))
    by_cases hm : tgt.key ∈ g.outEdges (.ds T)
    · rw [if_pos hm] at e
      have := ih.1 (by rw [e]; exact hm)
      rw [e] at this
      exact ⟨fun _ => this, by rw [this]; exact Nat.le_succ _⟩
    · rw [if_neg hm] at e
      have := ih.1 (by rw [e]; simp)
      rw [e] at this
      exact ⟨fun x => absurd x hm, by rw [this]; simp⟩

theorem length_insertByIdx (x : Node × Nat) : ∀ acc, (insertByIdx x acc).length = acc.length + 1
  | [] => rfl
  | y :: r => by
    simp only [insertByIdx]
    split
    · rfl
    · simp [length_insertByIdx x r]

theorem length_sortByIdx (l : List (Node × Nat)) : (sortByIdx l).length = l.length := by
  have gen : ∀ (l acc : List (Node × Nat)), (l.foldl (fun acc x => insertByIdx x acc) acc).length = acc.length + l.length := by
    intro l
    induction l with
    | nil => intro acc; rfl
    | cons x r ih =>
      intro acc
      simp only [List.foldl_cons, ih, length_insertByIdx, List.length_cons]
      omega
  simpa [sortByIdx] using gen l []

theorem length_writeColumns_le (g : LGraph) (T : DS) (h : targetTable? g = some T) :
    (writeColumns g).length ≤ (g.outEdges (.ds T)).length := by
  unfold writeColumns
  rw [h]
  simp only [List.length_map, length_sortByIdx]
  exact List.length_filter_le _ _

theorem targetTable_of (g : LGraph) (T : DS) (hw : writeSet g = [T]) (hr : T ∉ readSet g) : targetTable? g = some T := by
  unfold targetTable?
  rw [hw]
  simp [hr]

/-- one select item: its sources (as the fragment resolves them) are wired to the item's OWN column of the target -/
theorem cleanupItem_wired {g1 g : LGraph} {K : List (Node × Node)} (imp : String) (T : DS) (Tp : String) (n : Nat)
    (tabs : List DObj) (c : ColSpec) (idx k : Nat) (srcs : List Column) (h : Wired g1 g K)
    (hsrc : toSourceColumns imp (aliasMapping g tabs) c k = srcs) (hok : ∀ s ∈ srcs, colOK s)
    (hlen : (writeColumns g).length < n) (hTs : T.isSubq = false) :
    ∃ g', cleanupItem imp (T, Tp) n tabs g (c, idx) k = .ok g' ∧
      srcs.foldlM (fun g s => addColumnLineage g s (Column.mk1 c.raw (some (T, Tp)))) g = .ok g' ∧
      Wired g1 g' (K ++ srcs.map (fun s => (s.key, (Column.mk1 c.raw (some (T, Tp))).key))) := by
  have hne : ((writeColumns g).length == n) = false := by
    simp only [beq_eq_false_iff_ne]; omega
  have hown : colOK (Column.mk1 c.raw (some (T, Tp))) := by
    intro p hp
    simp only [Column.mk1, List.mem_singleton] at hp
    rw [hp]; exact hTs
  obtain ⟨g', hg', hw⟩ := wired_inner (g1 := g1) (Column.mk1 c.raw (some (T, Tp))) (T, Tp) rfl hown srcs g K h hok
  refine ⟨g', ?_, hg', hw⟩
  unfold cleanupItem
  simp only [hsrc, hne, Bool.false_eq_true, if_false]
  cases srcs with
  | nil =>
    simp only [List.foldlM_nil, pure, Except.pure] at hg'
    simp only [List.isEmpty_nil, if_true]
    exact hg'
  | cons s r =>
    simp only [List.isEmpty_cons, Bool.false_eq_true, if_false]
    exact hg'


/-- the pairs the group `cols` contributes when item `c` resolves to the source columns `SRC c` -/
def groupPairs (SRC : ColSpec → List Column) (tp : DS × String) (cols : List ColSpec) : List (Node × Node) :=
  cols.flatMap (fun c => (SRC c).map (fun x => (x.key, (Column.mk1 c.raw (some tp)).key)))

/-- the loop over the select items of `end_of_query_cleanup`, from item `j` on -/
theorem cleanupFold_wired {g1 : LGraph} (imp : String) (s nm : String) (n : Nat) (tabs : List DObj) (k : Nat)
    (SRC : ColSpec → List Column)
    (hws : writeSet g1 = [.table s nm]) (hrs : DS.table s nm ∉ readSet g1) :
    ∀ (rest : List ColSpec) (j : Nat) (g : LGraph) (K : List (Node × Node)), Wired g1 g K →
      (g.outEdges (.ds (.table s nm))).length ≤ j → j + rest.length ≤ n →
      (∀ c ∈ rest, ∀ g, Frame g1 g → toSourceColumns imp (aliasMapping g tabs) c k = SRC c) →
      (∀ c ∈ rest, ∀ x ∈ SRC c, colOK x ∧ ∀ sp, x.parent? = some sp → sp.1 ≠ .table s nm) →
      ∃ g', (rest.zipIdx j).foldlM
          (fun g ci => cleanupItem imp (.table s nm, printedDS g (.table s nm)) n tabs g ci k) g = .ok g' ∧
        Wired g1 g' (K ++ groupPairs SRC (.table s nm, s ++ "." ++ nm) rest)
  | [], j, g, K, h, _, _, _, _ => ⟨g, rfl, by simpa [groupPairs] using h⟩
  | c :: r, j, g, K, h, hL, hn, hsrc, hok => by
    have hw : writeSet g = [.table s nm] := by unfold writeSet; rw [tagSet_eq_of_frame h.frame]; exact hws
    have hr : DS.table s nm ∉ readSet g := by unfold readSet; rw [tagSet_eq_of_frame h.frame]; exact hrs
    have htt := targetTable_of g _ hw hr
    have hlen : (writeColumns g).length < n := by
      have := length_writeColumns_le g _ htt
      simp only [List.length_cons] at hn
      omega
    obtain ⟨g', hg', hfold, hw'⟩ := cleanupItem_wired imp (.table s nm) (s ++ "." ++ nm) n tabs c j k (SRC c) h
      (hsrc c (by simp) g h.frame) (fun x hx => (hok c (by simp) x hx).1) hlen rfl
    have hL' : (g'.outEdges (.ds (.table s nm))).length ≤ j + 1 := by
      have := (outT_inner (Column.mk1 c.raw (some (.table s nm, s ++ "." ++ nm))) (.table s nm, s ++ "." ++ nm) rfl
        (.table s nm) rfl (SRC c) g g' (fun x hx => (hok c (by simp) x hx).2) hfold).2
      omega
    obtain ⟨g'', hg'', hw''⟩ := cleanupFold_wired imp s nm n tabs k SRC hws hrs r (j + 1) g' _ hw' hL'
      (by simp only [List.length_cons] at hn; omega) (fun c' hc' => hsrc c' (by simp [hc']))
      (fun c' hc' => hok c' (by simp [hc']))
    refine ⟨g'', ?_, by simpa [groupPairs, List.append_assoc] using hw''⟩
    simp only [List.zipIdx_cons, List.foldlM_cons, bind, Except.bind]
    have : cleanupItem imp (.table s nm, printedDS g (.table s nm)) n tabs g (c, j) k = .ok g' := hg'
    rw [this]
    exact hg''

theorem outT_base {g1 : LGraph} {tabs : List DObj} {T : DS} (h : ReadBase g1 tabs T) : g1.outEdges (.ds T) = [] := by
  rw [List.eq_nil_iff_forall_not_mem]
  intro v hv
  exact h.srcT v ((mem_outEdges g1 _ _).mp hv)

theorem slice_full {α : Type} (l : List α) : slice l 0 l.length = l := by simp [slice]

/-- `end_of_query_cleanup` of ONE select block whose holder `g` gives `ReadBase` after the reads -/
theorem endOfQueryCleanup_wired (imp : String) (g : LGraph) (s nm : String) (tabs : List DObj) (cols : List ColSpec) (k : Nat)
    (SRC : ColSpec → List Column)
    (hb : ReadBase (tabs.foldl addReadO g) tabs (.table s nm)) (hself : ∀ o ∈ tabs, o.d ≠ .table s nm)
    (hsrc : ∀ c ∈ cols, ∀ g', Frame (tabs.foldl addReadO g) g' → toSourceColumns imp (aliasMapping g' tabs) c k = SRC c)
    (hok : ∀ c ∈ cols, ∀ x ∈ SRC c, colOK x ∧ ∀ sp, x.parent? = some sp → sp.1 ≠ .table s nm) :
    ∃ g2, endOfQueryCleanup imp g tabs cols [] k = .ok g2 ∧
      Wired (tabs.foldl addReadO g) g2 (groupPairs SRC (.table s nm, s ++ "." ++ nm) cols) := by
  obtain ⟨g2, hg2, hw⟩ := cleanupFold_wired imp s nm cols.length tabs k SRC hb.writeSet (hb.notRead hself) cols 0
    (tabs.foldl addReadO g) [] (Wired.base hb) (by rw [outT_base hb]; simp) (by simp) hsrc hok
  refine ⟨g2, ?_, by simpa using hw⟩
  unfold endOfQueryCleanup
  simp only [List.nil_append, endOfQueryCleanup.go, slice_full]
  unfold cleanupGroup
  rw [hb.writeSet]
  simp only
  rw [hg2]


/-! ## 6. `expand_wildcard` without a metadata provider -/

theorem foldl_fixed {α β : Type} (f : β → α → β) (b : β) : ∀ (l : List α), (∀ x ∈ l, f b x = b) → l.foldl f b = b
  | [], _ => rfl
  | x :: r, h => by
    simp only [List.foldl_cons]
    rw [h x (by simp)]
    exact foldl_fixed f b r (fun y hy => h y (by simp [hy]))

/-- with no provider and no subquery among the owners of the holder's columns there is nothing a `*` could expand to -/
theorem expandWildcard_id (p : ProvView) (g : LGraph) (hp : p.truthy = false) (hpay : PayOK g) : expandWildcard p g = g := by
  unfold expandWildcard
  split
  · rfl
  · apply foldl_fixed
    intro wn _
    split
    · split
      · apply foldl_fixed
        intro sw hsw
        have hsw' : ∃ n, g.payload n = some (.col sw) := by
          unfold getSourceColumns at hsw
          obtain ⟨n, _, hn⟩ := List.mem_filterMap.mp hsw
          refine ⟨n, ?_⟩
          unfold colOf at hn
          split at hn
          · rename_i c hc; cases hn; exact hc
          · cases hn
        obtain ⟨n, hn⟩ := hsw'
        have hc := hpay n sw hn
        split
        · rename_i sp hsp
          have hmem : sp ∈ sw.parents := by
            unfold Column.parent? at hsp
            split at hsp
            · cases hsp; simp_all
            · cases hsp
          have hnot := hc sp hmem
          obtain ⟨d, pr⟩ := sp
          cases d with
          | subq _ => cases hnot
          | table _ _ => simp [hp]
          | path _ => simp
        · rfl
      · rfl
    · rfl


/-! ## 7. the walk on the fragment -/

theorem cdJoins_tab (env : Env) (g : LGraph) (hc : cteObjs g = []) : ∀ js : List Join, js.all joinOK = true →
    cdJoins env g js = joinTabs env js
  | [], _ => by simp only [cdJoins, joinTabs]
  | .mk kd e on us :: r, h => by
    simp only [List.all_cons, Bool.and_eq_true, joinOK] at h
    have ih := cdJoins_tab env g hc r h.2
    cases e with
    | derived _ _ _ => simp [tabElem] at h
    | table parts alias ak =>
      cases on with
      | none => simp only [cdJoins, joinTabs, elemTabs, datasetOfElem_table env g hc, cdElem, ih, List.append_nil]
      | some c =>
        have hon : cdExpr env g c = [] := cdExpr_noSub env g c (by simpa [noSubOpt] using h.1.2)
        simp only [cdJoins, joinTabs, elemTabs, datasetOfElem_table env g hc, cdElem, hon, ih, List.append_nil]

theorem perFe_tab (env : Env) (g : LGraph) (hc : cteObjs g = []) (fe : FromExpr) (h : feOK fe = true) :
    perFe env g fe = feTabs env fe := by
  cases fe with
  | mk base js =>
    simp only [feOK, Bool.and_eq_true] at h
    cases base with
    | derived _ _ _ => simp [tabElem] at h
    | table parts alias ak =>
      simp only [perFe, feTabs, elemTabs, datasetOfElem_table env g hc]
      cases js with
      | nil => simp [joinTabs]
      | cons j r =>
        simp only [List.isEmpty_cons, Bool.false_eq_true, if_false, cdFromExpr, cdElem, List.nil_append]
        rw [cdJoins_tab env g hc _ h.2]

theorem tablesOfFrom_tab (env : Env) (g : LGraph) (hc : cteObjs g = []) (frm : List FromExpr) (h : frm.all feOK = true) :
    tablesOfFrom env g frm = fromTabs env frm := by
  rw [tablesOfFrom_eq]
  unfold fromTabs
  induction frm with
  | nil => rfl
  | cons fe r ih =>
    simp only [List.all_cons, Bool.and_eq_true] at h
    simp only [List.flatMap_cons, perFe_tab env g hc fe h.1, ih h.2]

theorem fromTabs_isTabRef (env : Env) (frm : List FromExpr) : ∀ o ∈ fromTabs env frm, isTabRef o = true := by
  have hE : ∀ e, ∀ o ∈ elemTabs env e, isTabRef o = true := by
    intro e o ho
    cases e with
    | derived _ _ _ => simp [elemTabs] at ho
    | table parts alias ak =>
      simp only [elemTabs, List.mem_singleton] at ho
      rw [ho]; rfl
  have hJ : ∀ js, ∀ o ∈ joinTabs env js, isTabRef o = true := by
    intro js
    induction js with
    | nil => intro o ho; simp [joinTabs] at ho
    | cons j r ih =>
      intro o ho
      cases j with
      | mk kd e on us =>
        simp only [joinTabs, List.mem_append] at ho
        rcases ho with ho | ho
        · exact hE e o ho
        · exact ih o ho
  intro o ho
  unfold fromTabs at ho
  obtain ⟨fe, _, hfe⟩ := List.mem_flatMap.mp ho
  cases fe with
  | mk base js =>
    simp only [feTabs, List.mem_append] at hfe
    rcases hfe with h | h
    · exact hE base o h
    · exact hJ js o h

theorem cjJoins_tab (env : Env) (g : LGraph) : ∀ js : List Join, js.all joinOK = true → cjJoins env js g = .ok g
  | [], _ => by simp only [cjJoins]
  | .mk kd e on us :: r, h => by
    simp only [List.all_cons, Bool.and_eq_true, joinOK] at h
    cases e with
    | derived _ _ _ => simp [tabElem] at h
    | table parts alias ak =>
      simp only [cjJoins, sqElem, cjElem, cjOptExpr_noSub env g on h.1.2, cjJoins_tab env g r h.2]

theorem sqFrom_tab (env : Env) (multi : Bool) (g : LGraph) : ∀ frm : List FromExpr, frm.all feOK = true →
    sqFrom env multi frm g = .ok g
  | [], _ => by simp only [sqFrom]
  | .mk base js :: r, h => by
    simp only [List.all_cons, Bool.and_eq_true, feOK] at h
    cases base with
    | derived _ _ _ => simp [tabElem] at h
    | table parts alias ak =>
      simp only [sqFrom, sqElem, cjElem, cjJoins_tab env g js h.1.2, ite_self, sqFrom_tab env multi g r h.2]

theorem sqWhere_noSub (env : Env) (g : LGraph) (wh : Option Expr) (h : noSubOpt wh = true) : sqWhere env wh g = .ok g := by
  cases wh with
  | none => simp only [sqWhere]
  | some e => simp only [sqWhere]; exact sqDirect_true_noSub env none g e (by simpa [noSubOpt] using h)

/-- the select extractor on one block without subqueries over base tables: cleanup and wildcard expansion on the initial
    holder, nothing else -/
theorem exQuery_tab (env : Env) (ctx : Ctx) (d : Bool) (its : List Item) (frm : List FromExpr) (wh : Option Expr)
    (grp : List Expr) (hav : Option Expr) (hi : noSubI its = true) (hf : frm.all feOK = true) (hw : noSubOpt wh = true) :
    exQuery env ctx (.select d its frm wh grp hav) = finishBranches env (initHolder ctx) [(its, frm)] := by
  simp only [exQuery, sqItems_noSub env its _ hi, sqFrom_tab env _ _ frm hf, sqWhere_noSub env _ wh hw]

theorem finishBranches_single (env : Env) (g : LGraph) (its : List Item) (frm : List FromExpr) :
    finishBranches env g [(its, frm)] =
      (match endOfQueryCleanup env.importDefault g (tablesOfFrom env g frm) (its.map (colSpecOf env)) [] env.revStar with
        | .ok g' => .ok (expandWildcard env.prov g')
        | .error e => .error e) := rfl

/-- the holder the select extractor starts from is the target holder itself -/
theorem initHolder_ctxOf_g0 (s nm : String) (al : Option String) :
    initHolder (ctxOf (g0 ⟨.table s nm, al⟩)) = g0 ⟨.table s nm, al⟩ := by
  show initHolder (ctxOf (g0 ⟨.table s nm, some nm⟩)) = g0 ⟨.table s nm, some nm⟩
  have hW := WriteCols.WInv.base (g0 ⟨.table s nm, some nm⟩) (.table s nm) 0 (g0_nodes _) (g0_edges _)
  have hwr : (g0 ⟨.table s nm, some nm⟩).tag (.ds (.table s nm)) .write = some true := by rw [g0_tag]; simp
  have hrd : (g0 ⟨.table s nm, some nm⟩).tag (.ds (.table s nm)) .read ≠ some true := by rw [g0_tag]; simp
  have hcte : cteObjs (g0 ⟨.table s nm, some nm⟩) = [] := by
    apply cteObjs_nil
    intro d; rw [g0_tag]; simp
  have hwc : writeColObjs (g0 ⟨.table s nm, some nm⟩) = [] := hW.writeColObjs hwr hrd
  have hwo : writeObjs (g0 ⟨.table s nm, some nm⟩) = [⟨.table s nm, some nm⟩] := by
    unfold writeObjs objsOf
    rw [hW.tagSet .write, hwr]
    rfl
  unfold ctxOf initHolder
  rw [hcte, hwo, hwc]
  rfl


/-! ### assembling the statement -/

/-- the source columns of a column spec as the fragment resolves them (duplicates by key dropped, as `to_source_columns` does) -/
def SRCof (imp : String) (tabs : List DObj) (c : ColSpec) : List Column :=
  c.srcs.foldl (fun acc r => pushCol acc (srcCol imp tabs r)) []

theorem colSpecOf_srcs (env : Env) (e : Expr) (alias : Option String) (k : Bool) :
    (colSpecOf env (.mk e alias k)).srcs = (refs e).map normRef := by
  cases alias with
  | some a => simp [colSpecOf, ColSpec.of, normRef]
  | none =>
    by_cases h : (refs e).isEmpty = true
    · have : refs e = [] := List.isEmpty_iff.mp h
      simp [colSpecOf, ColSpec.of, this]
    · simp only [colSpecOf, h, Bool.not_false, if_true, Bool.false_eq_true, if_false, Bool.not_eq_true]
      cases e <;> simp [ColSpec.of, normRef]

theorem isSubq_of_isTable (d : DS) (h : d.isTable = true) : d.isSubq = false := by
  cases d <;> simp_all [DS.isTable, DS.isSubq]

theorem specAliasMap_isTable (tabs : List DObj) : ∀ e ∈ specAliasMap tabs, e.2.1.isTable = true := by
  intro e he
  rw [specAliasMap_split, List.mem_append] at he
  rcases he with he | he
  · unfold baseMap at he
    simp only [List.mem_append, List.mem_filterMap, List.mem_map, List.mem_filter] at he
    rcases he with (⟨o, ⟨_, ho⟩, h⟩ | ⟨o, ⟨_, ho⟩, h⟩) | ⟨o, ⟨_, ho⟩, h⟩
    · split at h
      · cases h; exact ho
      · cases h
    · rw [← h]; exact ho
    · split at h
      · split at h
        · cases h; exact ho
        · cases h
      · cases h
  · obtain ⟨o, _, h⟩ := List.mem_filterMap.mp he
    unfold explEntry at h
    split at h
    · rename_i hd _
      split at h
      · cases h; simp only; rw [hd]; rfl
      · cases h
    · cases h

theorem resolveQ_isTable (imp : String) (tabs : List DObj) (q : String) : (resolveQ imp tabs q).1.isTable = true := by
  unfold resolveQ
  cases h : amGet (specAliasMap tabs) q with
  | none => rfl
  | some v => exact specAliasMap_isTable tabs _ (amGet_mem _ _ _ h)

theorem srcCol_colOK (imp : String) (tabs : List DObj) (hT : ∀ o ∈ tabs, isTabRef o = true) (r : String × Option String) :
    colOK (srcCol imp tabs r) := by
  intro p hp
  obtain ⟨rn, rq⟩ := r
  cases rq with
  | some q =>
    simp only [srcCol, Column.mk1, List.mem_singleton] at hp
    rw [hp]; exact isSubq_of_isTable _ (resolveQ_isTable imp tabs q)
  | none =>
    cases tabs with
    | nil => simp [srcCol, Column.mk1] at hp
    | cons t r =>
      simp only [srcCol, Column.mk1, List.head?_cons, Option.map_some, List.mem_singleton] at hp
      rw [hp]
      have := hT t (by simp)
      simp only [isTabRef, Bool.and_eq_true] at this
      exact isSubq_of_isTable _ this.1

theorem srcCol_parent_ne (imp : String) (tabs : List DObj) (T : DS) (hself : ∀ o ∈ tabs, o.d ≠ T) (r : String × Option String)
    (hr : match r.2 with | none => True | some q => (resolveQ imp tabs q).1 ≠ T) :
    ∀ sp, (srcCol imp tabs r).parent? = some sp → sp.1 ≠ T := by
  intro sp hsp
  obtain ⟨rn, rq⟩ := r
  cases rq with
  | some q =>
    simp only [srcCol, Column.mk1, Column.parent?, Option.some.injEq] at hsp
    rw [← hsp]; exact hr
  | none =>
    cases tabs with
    | nil => simp [srcCol, Column.mk1, Column.parent?] at hsp
    | cons t r =>
      simp only [srcCol, Column.mk1, List.head?_cons, Option.map_some, Column.parent?, Option.some.injEq] at hsp
      rw [← hsp]; exact hself t (by simp)

theorem mem_groupPairs (SRC : ColSpec → List Column) (tp : DS × String) (cols : List ColSpec) (x : Node × Node) :
    x ∈ groupPairs SRC tp cols ↔ ∃ c ∈ cols, ∃ k ∈ (SRC c).map (·.key), x = (k, (Column.mk1 c.raw (some tp)).key) := by
  unfold groupPairs
  simp only [List.mem_flatMap, List.mem_map]
  constructor
  · rintro ⟨c, hc, y, hy, rfl⟩; exact ⟨c, hc, y.key, ⟨y, hy, rfl⟩, rfl⟩
  · rintro ⟨c, hc, k, ⟨y, hy, rfl⟩, rfl⟩; exact ⟨c, hc, y, hy, rfl⟩

/-- the pairs wired by the cleanup are the pairs of the specification -/
theorem groupPairs_spec (env : Env) (tgt : List String) (its : List Item) (frm : List FromExpr) (x : Node × Node) :
    x ∈ groupPairs (SRCof env.importDefault (fromTabs env frm))
        ((mkTable env tgt none).d, (mkTable env tgt none).printed) (its.map (colSpecOf env)) ↔
      x ∈ specPairs env tgt its frm := by
  rw [mem_groupPairs]
  unfold specPairs
  rw [List.mem_flatMap]
  have key : ∀ (e : Expr) (a : Option String) (kw : Bool) (k : Node),
      k ∈ (SRCof env.importDefault (fromTabs env frm) (colSpecOf env (.mk e a kw))).map (·.key) ↔
        ∃ r ∈ refs e, k = (srcCol env.importDefault (fromTabs env frm) (normRef r)).key := by
    intro e a kw k
    unfold SRCof
    rw [mem_keys_pushFold, colSpecOf_srcs]
    simp only [List.map_nil, List.not_mem_nil, false_or, List.map_map, List.mem_map, Function.comp]
    constructor
    · rintro ⟨r, hr, rfl⟩; exact ⟨r, hr, rfl⟩
    · rintro ⟨r, hr, rfl⟩; exact ⟨r, hr, rfl⟩
  constructor
  · rintro ⟨c, hc, k, hk, rfl⟩
    obtain ⟨it, hit, rfl⟩ := List.mem_map.mp hc
    refine ⟨it, hit, ?_⟩
    obtain ⟨e, a, kw⟩ := it
    obtain ⟨r, hr, rfl⟩ := (key e a kw k).mp hk
    simp only [itemPairs, List.mem_map]
    exact ⟨r, hr, rfl⟩
  · rintro ⟨it, hit, hx⟩
    obtain ⟨e, a, kw⟩ := it
    simp only [itemPairs, List.mem_map] at hx
    obtain ⟨r, hr, rfl⟩ := hx
    exact ⟨colSpecOf env (.mk e a kw), List.mem_map.mpr ⟨_, hit, rfl⟩, _, (key e a kw _).mpr ⟨r, hr, rfl⟩, rfl⟩

theorem noSubI_of_items (imp : String) (tabs : List DObj) (T : DS) : ∀ its : List Item, its.all (itemOK imp tabs T) = true →
    noSubI its = true
  | [], _ => rfl
  | .mk e a k :: r, h => by
    simp only [List.all_cons, Bool.and_eq_true, itemOK] at h
    simp only [noSubI, Bool.and_eq_true]
    exact ⟨h.1.1, noSubI_of_items imp tabs T r h.2⟩

theorem writeTargetHolder_none (env : Env) (isInsert : Bool) (tgt : List String) (hp : env.prov.truthy = false) :
    writeTargetHolder env isInsert tgt none = g0 (mkTable env tgt none) := by
  unfold writeTargetHolder g0
  simp [hp]

/-- **the holder of the statement**: the target holder composed with a holder `g2` that is the reads of the FROM clause plus
    exactly the specified column pairs -/
theorem exWriteQuery_wired (env : Env) (isInsert : Bool) (tgt : List String) (d : Bool) (its : List Item)
    (frm : List FromExpr) (wh : Option Expr) (grp : List Expr) (hav : Option Expr) (hp : env.prov.truthy = false)
    (hfrag : fragSelect env tgt (.select d its frm wh grp hav) = true) :
    ∃ g2, exWriteQuery env isInsert tgt none (.select d its frm wh grp hav) = .ok ((g0 (mkTable env tgt none)).compose g2) ∧
      ReadBase ((fromTabs env frm).foldl addReadO (g0 (mkTable env tgt none))) (fromTabs env frm) (mkTable env tgt none).d ∧
      Wired ((fromTabs env frm).foldl addReadO (g0 (mkTable env tgt none))) g2 (specPairs env tgt its frm) := by
  simp only [fragSelect, Bool.and_eq_true, Bool.not_eq_true', List.any_eq_false, beq_iff_eq] at hfrag
  obtain ⟨⟨⟨⟨hf, hw⟩, hself⟩, hU⟩, hits⟩ := hfrag
  have hself' : ∀ o ∈ fromTabs env frm, o.d ≠ (mkTable env tgt none).d := fun o ho => by simpa using hself o ho
  have hTR := fromTabs_isTabRef env frm
  -- the target as a table
  obtain ⟨s, nm, al, hmk⟩ : ∃ s nm al, mkTable env tgt none = ⟨.table s nm, al⟩ := ⟨_, _, _, rfl⟩
  have hprinted : (mkTable env tgt none).printed = s ++ "." ++ nm := by rw [hmk]; rfl
  have hd : (mkTable env tgt none).d = .table s nm := by rw [hmk]
  have hb := readBase (mkTable env tgt none) (by rw [hd]; rfl) (fromTabs env frm) hTR hself'
  rw [hd] at hb hself'
  -- the cleanup
  have hcte : cteObjs (g0 (mkTable env tgt none)) = [] := by
    apply cteObjs_nil
    intro d'; rw [g0_tag]; simp
  have hits' : ∀ it ∈ its, itemOK env.importDefault (fromTabs env frm) (.table s nm) it = true := by
    intro it hit
    have := List.all_eq_true.mp hits it hit
    rwa [hd] at this
  obtain ⟨g2, hg2, hw2⟩ := endOfQueryCleanup_wired env.importDefault (g0 (mkTable env tgt none)) s nm (fromTabs env frm)
    (its.map (colSpecOf env)) env.revStar (SRCof env.importDefault (fromTabs env frm)) hb hself'
    (by
      intro c hc g' hfr
      obtain ⟨it, hit, rfl⟩ := List.mem_map.mp hc
      apply toSourceColumns_eq _ _ _ _ _ hTR (aliasOK_frame hfr hb.alias) hU
      intro r hr hnone
      obtain ⟨e, a, kw⟩ := it
      rw [colSpecOf_srcs] at hr
      obtain ⟨r0, hr0, rfl⟩ := List.mem_map.mp hr
      have := hits' _ hit
      simp only [itemOK, Bool.and_eq_true, List.all_eq_true] at this
      have := this.2 r0 hr0
      unfold refOK at this
      rw [hnone] at this
      simpa using this)
    (by
      intro c hc x hx
      obtain ⟨it, hit, rfl⟩ := List.mem_map.mp hc
      unfold SRCof at hx
      rcases mem_pushFold _ _ _ _ hx with h | ⟨r, hr, rfl⟩
      · cases h
      · refine ⟨srcCol_colOK _ _ hTR r, srcCol_parent_ne _ _ _ hself' r ?_⟩
        obtain ⟨e, a, kw⟩ := it
        rw [colSpecOf_srcs] at hr
        obtain ⟨r0, hr0, rfl⟩ := List.mem_map.mp hr
        have := hits' _ hit
        simp only [itemOK, Bool.and_eq_true, List.all_eq_true] at this
        have := this.2 r0 hr0
        unfold refOK at this
        cases hq : (normRef r0).2 with
        | none => trivial
        | some q => rw [hq] at this; simpa using this)
  refine ⟨g2, ?_, by rw [hd]; exact hb, ?_⟩
  · rw [exWriteQuery_eq]
    unfold wq0
    rw [writeTargetHolder_none env isInsert tgt hp,
      exQuery_tab env _ d its frm wh grp hav (noSubI_of_items _ _ _ its hits) hf hw]
    have hinit : initHolder (ctxOf (g0 (mkTable env tgt none))) = g0 (mkTable env tgt none) := by
      rw [hmk]; exact initHolder_ctxOf_g0 s nm al
    rw [hinit, finishBranches_single, tablesOfFrom_tab env _ hcte frm hf, hg2]
    simp only
    rw [expandWildcard_id env.prov g2 hp hw2.pay]
  · apply hw2.congr
    intro x
    have := groupPairs_spec env tgt its frm x
    rw [hd, hprinted] at this
    exact this


/-! ### reading the result -/

theorem kind_lineage_iff (u v : Node) : kind u v = .lineage ↔ u.isCol = true := by
  unfold kind
  by_cases hu : u.isCol = true
  · simp [hu]
  · by_cases hv : v.isCol = true <;> simp [hu, hv]

theorem kind_hasColumn_iff (u v : Node) : kind u v = .hasColumn ↔ u.isCol = false ∧ v.isCol = true := by
  unfold kind
  by_cases hu : u.isCol = true
  · simp [hu]
  · by_cases hv : v.isCol = true <;> simp [hu, hv]

theorem kind_hasAlias_iff (u v : Node) : kind u v = .hasAlias ↔ u.isCol = false ∧ v.isCol = false := by
  unfold kind
  by_cases hu : u.isCol = true
  · simp [hu]
  · by_cases hv : v.isCol = true <;> simp [hu, hv]

theorem isCol_of_colParent (v : Node) (d : DS) (h : colParent v = some d) : v.isCol = true := by
  cases v <;> simp_all [colParent, Node.isCol]

/-- every edge of the statement holder, by type -/
structure EdgesExact (g : LGraph) (K : List (Node × Node)) (tabs : List DObj) : Prop where
  lineage : ∀ u v, ((u, v) ∈ g.edges ∧ g.ety u v = some .lineage) ↔ (u, v) ∈ K
  hasColumn : ∀ u v, ((u, v) ∈ g.edges ∧ g.ety u v = some .hasColumn) ↔ (u, v) ∈ specOwners K
  hasAlias : ∀ u v, ((u, v) ∈ g.edges ∧ g.ety u v = some .hasAlias) ↔ aliasPair tabs u v
  noRename : ∀ u v, (u, v) ∈ g.edges → g.ety u v ≠ some .rename

theorem edgesExact_of_wired {g1 g2 : LGraph} {K : List (Node × Node)} {tabs : List DObj} {T : DS}
    (hb : ReadBase g1 tabs T) (hw : Wired g1 g2 K) (hK : ∀ p ∈ K, p.1.isCol = true)
    (hA : ∀ u v, (u, v) ∈ g1.edges ↔ aliasPair tabs u v) : EdgesExact g2 K tabs := by
  refine ⟨?_, ?_, ?_, ?_⟩
  · intro u v
    constructor
    · rintro ⟨he, hy⟩
      rw [hw.ty u v he] at hy
      exact (hw.lin u v ((kind_lineage_iff u v).mp (Option.some.inj hy))).mp he
    · intro hk
      have hu := hK _ hk
      have he := (hw.lin u v hu).mpr hk
      exact ⟨he, by rw [hw.ty u v he, (kind_lineage_iff u v).mpr hu]⟩
  · intro u v
    constructor
    · rintro ⟨he, hy⟩
      rw [hw.ty u v he] at hy
      obtain ⟨hu, hv⟩ := (kind_hasColumn_iff u v).mp (Option.some.inj hy)
      exact (hw.own u v hu hv).mp he
    · intro hk
      obtain ⟨p, _, ⟨d, hd, hx⟩ | ⟨d, hd, hx⟩⟩ := (mem_specOwners K (u, v)).mp hk
      · have hu : u.isCol = false := by rw [show u = .ds d from congrArg Prod.fst hx]; rfl
        have hv : v.isCol = true := by rw [show v = p.1 from congrArg Prod.snd hx]; exact isCol_of_colParent _ _ hd
        have he := (hw.own u v hu hv).mpr hk
        exact ⟨he, by rw [hw.ty u v he, (kind_hasColumn_iff u v).mpr ⟨hu, hv⟩]⟩
      · have hu : u.isCol = false := by rw [show u = .ds d from congrArg Prod.fst hx]; rfl
        have hv : v.isCol = true := by rw [show v = p.2 from congrArg Prod.snd hx]; exact isCol_of_colParent _ _ hd
        have he := (hw.own u v hu hv).mpr hk
        exact ⟨he, by rw [hw.ty u v he, (kind_hasColumn_iff u v).mpr ⟨hu, hv⟩]⟩
  · intro u v
    constructor
    · rintro ⟨he, hy⟩
      rw [hw.ty u v he] at hy
      obtain ⟨hu, hv⟩ := (kind_hasAlias_iff u v).mp (Option.some.inj hy)
      exact (hA u v).mp ((hw.frame.edges u v hu hv).1.mp he)
    · intro hp
      have he1 := (hA u v).mpr hp
      obtain ⟨⟨d, a, hd, ha⟩, hy⟩ := hb.edges u v he1
      have hu : u.isCol = false := by rw [hd]; rfl
      have hv : v.isCol = false := by rw [ha]; rfl
      exact ⟨(hw.frame.edges u v hu hv).1.mpr he1, by rw [(hw.frame.edges u v hu hv).2, hy]⟩
  · intro u v he hy
    rw [hw.ty u v he] at hy
    have := Option.some.inj hy
    unfold kind at this
    split at this
    · cases this
    · split at this <;> cases this

theorem compose_g0_edges (t : DObj) (h : LGraph) (e : Node × Node) : e ∈ ((g0 t).compose h).edges ↔ e ∈ h.edges := by
  rw [mem_edges_compose, g0_edges]; simp

theorem compose_g0_ety (t : DObj) (h : LGraph) (u v : Node) : ((g0 t).compose h).ety u v = h.ety u v := by
  rw [Graph.ety_compose, Graph.ety_of_not_mem (g0 t) u v (by rw [g0_edges]; simp)]
  cases h.ety u v <;> rfl

theorem edgesExact_compose_g0 (t : DObj) (h : LGraph) (K : List (Node × Node)) (tabs : List DObj) (hx : EdgesExact h K tabs) :
    EdgesExact ((g0 t).compose h) K tabs := by
  refine ⟨?_, ?_, ?_, ?_⟩
  · intro u v; rw [compose_g0_edges, compose_g0_ety]; exact hx.lineage u v
  · intro u v; rw [compose_g0_edges, compose_g0_ety]; exact hx.hasColumn u v
  · intro u v; rw [compose_g0_edges, compose_g0_ety]; exact hx.hasAlias u v
  · intro u v; rw [compose_g0_edges, compose_g0_ety]; exact hx.noRename u v

theorem specPairs_isCol (env : Env) (tgt : List String) (its : List Item) (frm : List FromExpr) :
    ∀ p ∈ specPairs env tgt its frm, p.1.isCol = true ∧ p.2.isCol = true := by
  intro p hp
  unfold specPairs at hp
  obtain ⟨it, _, hit⟩ := List.mem_flatMap.mp hp
  obtain ⟨e, a, k⟩ := it
  simp only [itemPairs, List.mem_map] at hit
  obtain ⟨r, _, rfl⟩ := hit
  exact ⟨rfl, rfl⟩

/-- **end to end, query level**: `CreateInsertExtractor.extract` on the fragment succeeds, and every edge of its holder is
    known: LINEAGE = the specified pairs, HAS_COLUMN = their owners, HAS_ALIAS = the table references, nothing else -/
theorem exWriteQuery_exact (env : Env) (isInsert : Bool) (tgt : List String) (d : Bool) (its : List Item)
    (frm : List FromExpr) (wh : Option Expr) (grp : List Expr) (hav : Option Expr) (hp : env.prov.truthy = false)
    (hfrag : fragSelect env tgt (.select d its frm wh grp hav) = true) :
    ∃ g, exWriteQuery env isInsert tgt none (.select d its frm wh grp hav) = .ok g ∧
      EdgesExact g (specPairs env tgt its frm) (fromTabs env frm) := by
  obtain ⟨g2, hg, hb, hw⟩ := exWriteQuery_wired env isInsert tgt d its frm wh grp hav hp hfrag
  refine ⟨_, hg, edgesExact_compose_g0 _ _ _ _ (edgesExact_of_wired hb hw (fun p hp' => (specPairs_isCol env tgt its frm p hp').1) ?_)⟩
  intro u v
  rw [mem_edges_foldl_addReadO _ (fromTabs_isTabRef env frm), g0_edges]
  simp


/-! ### statement level -/

theorem disp_insert : dispatch "insert_statement" = some "CreateInsertExtractor" := by decide
theorem disp_create_table : dispatch "create_table_statement" = some "CreateInsertExtractor" := by decide
theorem disp_create_view : dispatch "create_view_statement" = some "CreateInsertExtractor" := by decide

/-- **end to end, statement level**: on the fragment `analyze` succeeds (silent or not) and every edge of the statement holder
    is known -/
theorem analyze_exact (env : Env) (silent : Bool) (s : Stmt) (hp : env.prov.truthy = false) (hs : fragStmt env s = true) :
    ∃ g, analyze env silent s = .ok g ∧
      EdgesExact g (specPairs env (stmtTarget s) (stmtItems s) (stmtFrom s)) (fromTabs env (stmtFrom s)) := by
  cases s with
  | insert kd tk tgt cols q br =>
    cases cols with
    | some _ => simp [fragStmt] at hs
    | none =>
      cases q with
      | setop _ _ => simp [fragStmt, fragSelect] at hs
      | withq _ _ => simp [fragStmt, fragSelect] at hs
      | select d its frm wh grp hav =>
        have := exWriteQuery_exact env true tgt d its frm wh grp hav hp (by simpa [fragStmt] using hs)
        unfold analyze
        have hd : dispatch (stmtType (.insert kd tk tgt none (.select d its frm wh grp hav) br)) = some "CreateInsertExtractor" :=
          disp_insert
        rw [hd]
        exact this
  | ctas tgt orr ine q br =>
    cases q with
    | setop _ _ => simp [fragStmt, fragSelect] at hs
    | withq _ _ => simp [fragStmt, fragSelect] at hs
    | select d its frm wh grp hav =>
      have := exWriteQuery_exact env false tgt d its frm wh grp hav hp (by simpa [fragStmt] using hs)
      unfold analyze
      have hd : dispatch (stmtType (.ctas tgt orr ine (.select d its frm wh grp hav) br)) = some "CreateInsertExtractor" :=
        disp_create_table
      rw [hd]
      exact this
  | createView tgt orr cols q =>
    cases cols with
    | some _ => simp [fragStmt] at hs
    | none =>
      cases q with
      | setop _ _ => simp [fragStmt, fragSelect] at hs
      | withq _ _ => simp [fragStmt, fragSelect] at hs
      | select d its frm wh grp hav =>
        have := exWriteQuery_exact env false tgt d its frm wh grp hav hp (by simpa [fragStmt] using hs)
        unfold analyze
        have hd : dispatch (stmtType (.createView tgt orr none (.select d its frm wh grp hav))) = some "CreateInsertExtractor" :=
          disp_create_view
        rw [hd]
        exact this
  | query _ _ => simp [fragStmt] at hs
  | insertValues _ _ _ => simp [fragStmt] at hs
  | createTable _ _ _ => simp [fragStmt] at hs
  | createTableLike _ _ => simp [fragStmt] at hs
  | update _ _ _ _ _ => simp [fragStmt] at hs
  | merge _ _ _ _ _ _ => simp [fragStmt] at hs
  | copy _ _ => simp [fragStmt] at hs
  | drop _ _ _ => simp [fragStmt] at hs
  | alterRename _ _ => simp [fragStmt] at hs
  | renameTable _ => simp [fragStmt] at hs
  | noop _ _ => simp [fragStmt] at hs
  | unsupported _ => simp [fragStmt] at hs

/-! ### reading the specification -/

theorem mem_specPairs (env : Env) (tgt : List String) (its : List Item) (frm : List FromExpr) (u v : Node) :
    (u, v) ∈ specPairs env tgt its frm ↔
      ∃ e a k, Item.mk e a k ∈ its ∧ ∃ r ∈ refs e,
        u = (srcCol env.importDefault (fromTabs env frm) (normRef r)).key ∧ v = (tgtCol env tgt (.mk e a k)).key := by
  unfold specPairs
  rw [List.mem_flatMap]
  constructor
  · rintro ⟨it, hit, h⟩
    obtain ⟨e, a, k⟩ := it
    simp only [itemPairs, List.mem_map, Prod.mk.injEq] at h
    obtain ⟨r, hr, h1, h2⟩ := h
    exact ⟨e, a, k, hit, r, hr, h1.symm, h2.symm⟩
  · rintro ⟨e, a, k, hit, r, hr, h1, h2⟩
    refine ⟨_, hit, ?_⟩
    simp only [itemPairs, List.mem_map, Prod.mk.injEq]
    exact ⟨r, hr, h1.symm, h2.symm⟩

/-- the target column of an item: `<written table>.<name by the naming rule>`, owned by the written table -/
theorem tgtCol_key (env : Env) (tgt : List String) (it : Item) :
    (tgtCol env tgt it).key =
      .col ((mkTable env tgt none).printed ++ "." ++ (colSpecOf env it).raw) (some (mkTable env tgt none).d) := rfl

/-- a qualified reference `q.c`: column `c` of the relation `q` denotes -/
theorem srcCol_key_qualified (imp : String) (tabs : List DObj) (c q : String) :
    (srcCol imp tabs (c, some q)).key =
      .col ((resolveQ imp tabs q).2 ++ "." ++ c) (some (resolveQ imp tabs q).1) := by
  have h := resolveQ_isTable imp tabs q
  simp only [srcCol, Column.key, Column.mk1, Column.printed, Column.parent?]
  cases hq : resolveQ imp tabs q with
  | mk d pr =>
    rw [hq] at h
    cases d with
    | table _ _ => rfl
    | path _ => cases h
    | subq _ => cases h

/-- an unqualified reference `c` over a single table reference `t`: column `c` of `t` -/
theorem srcCol_key_unqualified (imp : String) (t : DObj) (ht : t.d.isTable = true) (c : String) :
    (srcCol imp [t] (c, none)).key = .col (t.printed ++ "." ++ c) (some t.d) := by
  simp only [srcCol, Column.key, Column.mk1, Column.printed, Column.parent?, List.head?_cons, Option.map_some]
  obtain ⟨d, al⟩ := t
  cases d with
  | table _ _ => rfl
  | path _ => cases ht
  | subq _ => cases ht

/-- a written alias denotes its table (whatever other tables are called) -/
theorem resolveQ_alias (imp : String) (tabs : List DObj) (hU : aliasesUnambiguous tabs = true) (o : DObj) (ho : o ∈ tabs)
    (a : String) (v : DS × String) (he : explEntry o = some (a, v)) : resolveQ imp tabs a = v := by
  have hm : (a, v) ∈ tabs.filterMap explEntry := List.mem_filterMap.mpr ⟨o, ho, he⟩
  obtain ⟨v', hv'⟩ := amGet_isSome_of_mem _ _ _ hm
  have := unambiguous_fun tabs hU a v' v (amGet_mem _ _ _ hv') hm
  unfold resolveQ
  rw [specAliasMap_split, amGet_append, hv', this]


/-- a statement of the fragment is a write of one SELECT block of the fragment -/
theorem fragStmt_select (env : Env) (s : Stmt) (hs : fragStmt env s = true) :
    ∃ d wh grp hav, fragSelect env (stmtTarget s) (.select d (stmtItems s) (stmtFrom s) wh grp hav) = true := by
  cases s with
  | insert kd tk tgt cols q br =>
    cases cols with
    | some _ => simp [fragStmt] at hs
    | none =>
      cases q with
      | setop _ _ => simp [fragStmt, fragSelect] at hs
      | withq _ _ => simp [fragStmt, fragSelect] at hs
      | select d its frm wh grp hav => exact ⟨d, wh, grp, hav, by simpa [fragStmt, stmtTarget, stmtItems, stmtFrom] using hs⟩
  | ctas tgt orr ine q br =>
    cases q with
    | setop _ _ => simp [fragStmt, fragSelect] at hs
    | withq _ _ => simp [fragStmt, fragSelect] at hs
    | select d its frm wh grp hav => exact ⟨d, wh, grp, hav, by simpa [fragStmt, stmtTarget, stmtItems, stmtFrom] using hs⟩
  | createView tgt orr cols q =>
    cases cols with
    | some _ => simp [fragStmt] at hs
    | none =>
      cases q with
      | setop _ _ => simp [fragStmt, fragSelect] at hs
      | withq _ _ => simp [fragStmt, fragSelect] at hs
      | select d its frm wh grp hav => exact ⟨d, wh, grp, hav, by simpa [fragStmt, stmtTarget, stmtItems, stmtFrom] using hs⟩
  | query _ _ => simp [fragStmt] at hs
  | insertValues _ _ _ => simp [fragStmt] at hs
  | createTable _ _ _ => simp [fragStmt] at hs
  | createTableLike _ _ => simp [fragStmt] at hs
  | update _ _ _ _ _ => simp [fragStmt] at hs
  | merge _ _ _ _ _ _ => simp [fragStmt] at hs
  | copy _ _ => simp [fragStmt] at hs
  | drop _ _ _ => simp [fragStmt] at hs
  | alterRename _ _ => simp [fragStmt] at hs
  | renameTable _ => simp [fragStmt] at hs
  | noop _ _ => simp [fragStmt] at hs
  | unsupported _ => simp [fragStmt] at hs

/-- on the fragment every source column has an owner (nothing is left unresolved) -/
theorem srcCol_owned (env : Env) (tgt : List String) (d : Bool) (its : List Item) (frm : List FromExpr) (wh : Option Expr)
    (grp : List Expr) (hav : Option Expr) (hfrag : fragSelect env tgt (.select d its frm wh grp hav) = true)
    (e : Expr) (a : Option String) (k : Bool) (hit : Item.mk e a k ∈ its) (r : String × Option String) (hr : r ∈ refs e) :
    ∃ o, colParent (srcCol env.importDefault (fromTabs env frm) (normRef r)).key = some o := by
  rw [colParent_key]
  cases hq : (normRef r).2 with
  | some q =>
    refine ⟨(resolveQ env.importDefault (fromTabs env frm) q).1, ?_⟩
    simp only [srcCol, hq, Column.mk1, Column.parent?, Option.map_some]
  | none =>
    simp only [fragSelect, Bool.and_eq_true, List.all_eq_true] at hfrag
    have hi := hfrag.2 _ hit
    simp only [itemOK, Bool.and_eq_true, List.all_eq_true] at hi
    have := hi.2 r hr
    simp only [refOK, hq, beq_iff_eq] at this
    cases htabs : fromTabs env frm with
    | nil => rw [htabs] at this; cases this
    | cons t rest =>
      refine ⟨t.d, ?_⟩
      simp only [srcCol, hq, Column.mk1, Column.parent?, List.head?_cons, Option.map_some]


end SqlLineage.ColumnsExact
