/-
Column lineage of a write statement over flat SELECT blocks, end to end (used by `Props/C02.lean`: `pairs_exact_flat_partial`,
`pairs_exact_collist_partial`, `pairs_exact_setop_partial`, `select_moves_no_column_partial`).

The statement `INSERT INTO T [(c1..cn)] <q>` / `CREATE TABLE T AS <q>` / `CREATE VIEW T [(c1..cn)] AS <q>` (no metadata
provider), `<q>` one flat SELECT block or a set operation of flat blocks, is followed through `analyze` → `exWriteQuery` →
`exQuery` → `finishBranches` → `endOfQueryCleanup` → `cleanupGroup` → `cleanupItem` → `addColumnLineage` → `expandWildcard` →
`compose`, and EVERY edge of the resulting statement holder (LINEAGE, HAS_COLUMN, HAS_ALIAS) is characterised by a
specification that only looks at the AST (`specPairs`, `specPairsPos`, `specPairsUnion`).

Sections
  1. the specification (`fromTabs`, `specAliasMap`, `resolveQ`, `srcCol`, `srcKeys`, `tgtCol`, `specPairs`) and the fragment
     (`fragStmt`)
  2. alias map lookups: `amGet` of the holder's alias map = `amGet` of the specification's
  3. the holder after the reads (`tabs.foldl addReadO B`, `ReadBase`)
  4. `toSourceColumns` on the fragment (`toSourceColumns_keys`)
  5. the wiring invariant `Wired` through `addColumnLineage` / `cleanupItem` / `cleanupGroup` (own‑name wiring)
  6. `expandWildcard` without provider is the identity on these holders
  7. the walk on the fragment and the statement‑level theorem (`analyze_exact`); a plain SELECT (`analyze_plain`)
  8. an explicit column list: positional wiring (`WC`, `cleanupFoldPos_wired`, `analyze_exact_cols`)
  9. set operations: first group by own names ending in `WC`, later groups by position, `finishBranches` with union barriers
     as a loop over groups (`go_groups`, `finishBranches_groups`, `analyze_exact_setop`)
 10. from the edges to `Paths.columnLineage` (`columnLineage_of_pairs`, `columnLineage_of_exact`)
-/
import SqlLineage.Proofs.ReadsExact
import SqlLineage.Proofs.ExportLemmas
import SqlLineage.Proofs.PermLemmas
import SqlLineage.Proofs.WriteColsLemmas
import SqlLineage.Proofs.PathLemmas

set_option linter.unusedSimpArgs false
set_option linter.unusedVariables false

namespace SqlLineage.ColumnsExact
open SqlLineage Ast Walk Holder Graph
open SqlLineage.Proofs.ReadsExact

/-! ## 1. specification and fragment -/

/-- the table object a FROM element denotes (`SqlFluffTable.of(table_reference, alias)`); derived tables are outside the
    fragment -/
def elemTabs (env : Env) : FromElem → List DObj
  | .table parts alias _ => [mkTable env parts alias]
  | .derived .. => []

def joinTabs (env : Env) : List Join → List DObj
  | [] => []
  | .mk _ e _ _ :: r => elemTabs env e ++ joinTabs env r

def feTabs (env : Env) : FromExpr → List DObj
  | .mk base js => elemTabs env base ++ joinTabs env js

/-- the table references of a FROM clause, in the order they are written -/
def fromTabs (env : Env) (frm : List FromExpr) : List DObj := frm.flatMap (feTabs env)

/-- the entry an alias WRITTEN in the query contributes (an alias equal to the table's own bare name counts as "no alias",
    `holders.py:187‑224` after the D7 repair) -/
def explEntry (o : DObj) : Option (String × (DS × String)) :=
  match o.d, o.alias with
  | .table _ n, some a => if a != n then some (a, (o.d, o.printed)) else none
  | _, _ => none

/-- the names the tables of a FROM clause answer to, later entries win: bare names < qualified names < the name of a table
    without alias < written aliases.  Defined on the table list alone (no graph). -/
def specAliasMap (tabs : List DObj) : AliasMap :=
  let tables := tabs.filter (fun o => o.d.isTable)
  let unq : AliasMap := tables.filterMap (fun o => match o.d with | .table _ n => some (n, (o.d, o.printed)) | _ => none)
  let qual : AliasMap := tables.map (fun o => (o.printed, (o.d, o.printed)))
  let dflt : AliasMap := tables.filterMap (fun o =>
    match o.d with
    | .table _ n => if o.alias == some n then some (n, (o.d, o.printed)) else none
    | _ => none)
  unq ++ qual ++ dflt ++ tabs.filterMap explEntry

/-- the relation a (normalised) qualifier denotes: what the alias map says, else a table of that name in the fallback
    schema (`Table(qualifier)`, models.py:236; the qualifier is normalised once more by the constructor) -/
def resolveQ (imp : String) (tabs : List DObj) (q : String) : DS × String :=
  match amGet (specAliasMap tabs) q with
  | some v => v
  | none => (.table imp (Ident.escapeS q), imp ++ "." ++ Ident.escapeS q)

/-- normalisation of a source reference by `Column.__init__` -/
def normRef (r : String × Option String) : String × Option String := (Ident.escapeS r.1, r.2.map Ident.escapeS)

/-- the source column a normalised reference `(column, qualifier?)` denotes: a qualified one belongs to what the qualifier
    resolves to; an unqualified one to THE table of the FROM clause when there is exactly one table reference, and to
    nobody otherwise (it is left unresolved: a column without owner — never a guess) -/
def srcCol (imp : String) (tabs : List DObj) (r : String × Option String) : Column :=
  match r.2 with
  | some q => Column.mk1 r.1 (some (resolveQ imp tabs q))
  | none =>
    match tabs with
    | [t] => Column.mk1 r.1 (some (t.d, t.printed))
    | _ => Column.mk1 r.1 none

/-- the relations the names of a FROM clause denote (`set(alias_mapping.values())`), by the specification's alias map -/
def denoted (tabs : List DObj) : List DS := (amValues (specAliasMap tabs)).map (·.1)

/-- `<relation>.*` -/
def starKey (d : DS) : Node := (Column.mk1 "*" (some (d, prDS d))).key

/-- an unqualified `*` over a FROM clause that is not a single table reference -/
def isStarMulti (tabs : List DObj) (r : String × Option String) : Bool :=
  match r.2, tabs with
  | none, [_] => false
  | none, _ => r.1 == "*"
  | some _, _ => false

/-- the KEYS of the source columns a normalised reference denotes: the key of `srcCol`, except for an unqualified `*` over
    several table references, which stands for `<relation>.*` of every relation the FROM clause denotes -/
def srcKeys (imp : String) (tabs : List DObj) (r : String × Option String) : List Node :=
  if isStarMulti tabs r then (denoted tabs).map starKey else [(srcCol imp tabs r).key]

/-- the target column of a select item: named by the naming rule (`colSpecOf`), owned by the written table -/
def tgtCol (env : Env) (tgt : List String) (it : Item) : Column :=
  Column.mk1 (colSpecOf env it).raw (some ((mkTable env tgt none).d, (mkTable env tgt none).printed))

/-- the column pairs one select item contributes: one per column reference of its expression (one per relation for an
    unqualified `*` over several relations) -/
def itemPairs (env : Env) (tgt : List String) (tabs : List DObj) : Item → List (Node × Node)
  | .mk e a k => (refs e).flatMap (fun r =>
      (srcKeys env.importDefault tabs (normRef r)).map (fun x => (x, (tgtCol env tgt (.mk e a k)).key)))

/-- **the specification**: the (source column, target column) pairs of `INSERT INTO tgt SELECT its FROM frm` -/
def specPairs (env : Env) (tgt : List String) (its : List Item) (frm : List FromExpr) : List (Node × Node) :=
  its.flatMap (itemPairs env tgt (fromTabs env frm))

/-- the owner recorded in a column key -/
def colParent : Node → Option DS
  | .col _ p => p
  | _ => none

/-- the HAS_COLUMN edges the specification predicts: every column of a pair hangs from its owner -/
def specOwners (K : List (Node × Node)) : List (Node × Node) :=
  K.flatMap (fun p =>
    (match colParent p.1 with | some d => [(Node.ds d, p.1)] | none => []) ++
    (match colParent p.2 with | some d => [(Node.ds d, p.2)] | none => []))

/-! ### the fragment -/

def tabElem : FromElem → Bool
  | .table .. => true
  | .derived .. => false

def joinOK : Join → Bool
  | .mk _ e on _ => tabElem e && noSubOpt on

def feOK : FromExpr → Bool
  | .mk b js => tabElem b && js.all joinOK

/-- written aliases are unambiguous: two table references with the same written alias are the same table -/
def aliasesUnambiguous (tabs : List DObj) : Bool :=
  (tabs.filterMap explEntry).all (fun e1 => (tabs.filterMap explEntry).all (fun e2 => e1.1 != e2.1 || e1.2 == e2.2))

/-- the names of the FROM clause denote at least two different relations -/
def twoRelations (tabs : List DObj) : Bool :=
  (specAliasMap tabs).any (fun e1 => (specAliasMap tabs).any (fun e2 =>
    match amGet (specAliasMap tabs) e1.1, amGet (specAliasMap tabs) e2.1 with
    | some v1, some v2 => v1.1 != v2.1
    | _, _ => false))

/-- a NORMALISED column reference the theorem covers.  Unqualified: over exactly one table reference (resolved to it), a
    `*` over any FROM clause, or over names denoting at least two different relations (left unresolved).  Qualified: always — except that,
    when the written table is not read (`avoid = some T`), the qualifier must not denote the written table. -/
def refOKn (imp : String) (tabs : List DObj) (avoid : Option DS) (r : String × Option String) : Bool :=
  match r.2 with
  | none => (match tabs with | [_] => true | _ => r.1 == "*" || twoRelations tabs)
  | some q => (match avoid with | some T => (resolveQ imp tabs q).1 != T | none => true)

def refOK (imp : String) (tabs : List DObj) (avoid : Option DS) (r : String × Option String) : Bool :=
  refOKn imp tabs avoid (normRef r)

def itemOK (imp : String) (tabs : List DObj) (avoid : Option DS) : Item → Bool
  | .mk e _ _ => noSub e && (refs e).all (refOK imp tabs avoid)

/-- the written table, unless the block reads it -/
def avoidOf (tabs : List DObj) (T : DS) : Option DS := if tabs.any (fun o => o.d == T) then none else some T

/-- one SELECT block over base tables (comma list and/or joins), no subquery anywhere -/
def fragSelect (env : Env) (tgt : List String) : Query → Bool
  | .select _ its frm wh _ _ =>
    let tabs := fromTabs env frm
    frm.all feOK && noSubOpt wh && aliasesUnambiguous tabs &&
      its.all (itemOK env.importDefault tabs (avoidOf tabs (mkTable env tgt none).d))
  | _ => false

/-- `INSERT INTO T <select>` (no column list), `CREATE TABLE T AS <select>`, `CREATE VIEW T AS <select>` (no column list) -/
def fragStmt (env : Env) : Stmt → Bool
  | .insert _ _ tgt none q _ => fragSelect env tgt q
  | .ctas tgt _ _ q _ => fragSelect env tgt q
  | .createView tgt _ none q => fragSelect env tgt q
  | _ => false

def stmtTarget : Stmt → List String
  | .insert _ _ tgt _ _ _ => tgt
  | .ctas tgt _ _ _ _ => tgt
  | .createView tgt _ _ _ => tgt
  | _ => []

def stmtItems : Stmt → List Item
  | .insert _ _ _ _ (.select _ its _ _ _ _) _ => its
  | .ctas _ _ _ (.select _ its _ _ _ _) _ => its
  | .createView _ _ _ (.select _ its _ _ _ _) => its
  | _ => []

def stmtFrom : Stmt → List FromExpr
  | .insert _ _ _ _ (.select _ _ frm _ _ _) _ => frm
  | .ctas _ _ _ (.select _ _ frm _ _ _) _ => frm
  | .createView _ _ _ (.select _ _ frm _ _ _) => frm
  | _ => []

/-! ## 2. alias map lookups -/

theorem amGet_append (A E : AliasMap) (k : String) :
    amGet (A ++ E) k = match amGet E k with | some v => some v | none => amGet A k := by
  unfold amGet
  rw [List.reverse_append, List.find?_append]
  cases h : List.find? (fun x => x.1 == k) E.reverse <;> simp

theorem amGet_none_of (E : AliasMap) (k : String) (h : ∀ v, (k, v) ∉ E) : amGet E k = none := by
  unfold amGet
  cases hf : List.find? (fun x => x.1 == k) E.reverse with
  | none => rfl
  | some e =>
    have h1 := List.find?_some hf
    have h2 := List.mem_of_find?_eq_some hf
    simp only [beq_iff_eq] at h1
    exact absurd (by rw [← h1]; exact List.mem_reverse.mp h2) (h e.2)

theorem amGet_mem (E : AliasMap) (k : String) (v : DS × String) (h : amGet E k = some v) : (k, v) ∈ E := by
  unfold amGet at h
  cases hf : List.find? (fun x => x.1 == k) E.reverse with
  | none => rw [hf] at h; cases h
  | some e =>
    rw [hf] at h
    simp only [Option.map_some, Option.some.injEq] at h
    have h1 := List.find?_some hf
    have h2 := List.mem_of_find?_eq_some hf
    simp only [beq_iff_eq] at h1
    have : e = (k, v) := by rw [← h1, ← h]
    rw [← this]; exact List.mem_reverse.mp h2

theorem amGet_isSome_of_mem (E : AliasMap) (k : String) (v : DS × String) (h : (k, v) ∈ E) : ∃ v', amGet E k = some v' := by
  unfold amGet
  cases hf : List.find? (fun x => x.1 == k) E.reverse with
  | none =>
    rw [List.find?_eq_none] at hf
    have := hf (k, v) (List.mem_reverse.mpr h)
    simp at this
  | some e => exact ⟨e.2, rfl⟩

/-- lookups in two maps with the same entries for `k`, at most one value for `k`: same answer -/
theorem amGet_congr (E E' : AliasMap) (k : String) (hmem : ∀ v, (k, v) ∈ E ↔ (k, v) ∈ E')
    (hfun : ∀ v v', (k, v) ∈ E' → (k, v') ∈ E' → v = v') : amGet E k = amGet E' k := by
  cases h' : amGet E' k with
  | none =>
    apply amGet_none_of
    intro v hv
    obtain ⟨v', hv'⟩ := amGet_isSome_of_mem E' k v ((hmem v).mp hv)
    rw [h'] at hv'; cases hv'
  | some v0 =>
    have hm0 := amGet_mem E' k v0 h'
    obtain ⟨v1, hv1⟩ := amGet_isSome_of_mem E k v0 ((hmem v0).mpr hm0)
    have hm1 := (hmem v1).mp (amGet_mem E k v1 hv1)
    rw [hv1, hfun v1 v0 hm1 hm0]

/-- the part of both alias maps that only depends on the table list -/
def baseMap (tabs : List DObj) : AliasMap :=
  let tables := tabs.filter (fun o => o.d.isTable)
  let unq : AliasMap := tables.filterMap (fun o => match o.d with | .table _ n => some (n, (o.d, o.printed)) | _ => none)
  let qual : AliasMap := tables.map (fun o => (o.printed, (o.d, o.printed)))
  let dflt : AliasMap := tables.filterMap (fun o =>
    match o.d with
    | .table _ n => if o.alias == some n then some (n, (o.d, o.printed)) else none
    | _ => none)
  unq ++ qual ++ dflt

/-- the written aliases as the holder sees them: HAS_ALIAS edges of the group's datasets, in `graph.edges` order -/
def graphExpl (g : LGraph) (tabs : List DObj) : AliasMap :=
  (g.edgesOrdered.filterMap (fun e =>
    match e.1, e.2 with
    | .ds d, .str a =>
      if g.ety e.1 e.2 == some .hasAlias && tabs.any (·.d == d) then some (a, (d, printedDS g d)) else none
    | _, _ => none)).filter (fun e => match e.2.1 with | .table _ n => e.1 != n | _ => true)

theorem aliasMapping_split (g : LGraph) (tabs : List DObj) : aliasMapping g tabs = baseMap tabs ++ graphExpl g tabs := rfl

theorem specAliasMap_split (tabs : List DObj) : specAliasMap tabs = baseMap tabs ++ tabs.filterMap explEntry := rfl

/-- the alias edges of the holder are those of the table references `tabs`, and the tables are nodes -/
structure AliasOK (g : LGraph) (tabs : List DObj) : Prop where
  edge : ∀ d a, tabs.any (·.d == d) = true →
    (((Node.ds d, Node.str a) ∈ g.edges ∧ g.ety (.ds d) (.str a) = some .hasAlias) ↔
      ∃ o ∈ tabs, o.d = d ∧ o.alias = some a)
  node : ∀ o ∈ tabs, Node.ds o.d ∈ g.nodes

theorem mem_graphExpl (g : LGraph) (tabs : List DObj) (hT : ∀ o ∈ tabs, o.d.isTable = true) (hA : AliasOK g tabs)
    (x : String × (DS × String)) : x ∈ graphExpl g tabs ↔ x ∈ tabs.filterMap explEntry := by
  unfold graphExpl
  simp only [List.mem_filter, List.mem_filterMap]
  constructor
  · rintro ⟨⟨e, he, hx⟩, hex⟩
    obtain ⟨u, v⟩ := e
    cases u with
    | col _ _ => simp at hx
    | str _ => simp at hx
    | ds d =>
      cases v with
      | col _ _ => simp at hx
      | ds _ => simp at hx
      | str a =>
        simp only at hx
        split at hx
        · rename_i hc
          simp only [Bool.and_eq_true, beq_iff_eq] at hc
          obtain ⟨o, ho, hod, hoa⟩ := (hA.edge d a hc.2).mp ⟨mem_edgesOrdered g _ he, hc.1⟩
          have hx' : x = (a, (d, printedDS g d)) := (Option.some.inj hx).symm
          subst hx'
          refine ⟨o, ho, ?_⟩
          have hTo := hT o ho
          obtain ⟨od, oa⟩ := o
          simp only at hod hoa
          subst hod; subst hoa
          cases od with
          | table s n =>
            simp only at hex
            simp only [explEntry, hex, if_true]
            rfl
          | path _ => cases hTo
          | subq _ => cases hTo
        · cases hx
  · rintro ⟨o, ho, hx⟩
    have hTo := hT o ho
    obtain ⟨od, oa⟩ := o
    cases od with
    | path _ => cases hTo
    | subq _ => cases hTo
    | table s n =>
      cases oa with
      | none => simp [explEntry] at hx
      | some a =>
        simp only [explEntry] at hx
        split at hx
        · rename_i hne
          have hx' : x = (a, (DS.table s n, DObj.printed ⟨.table s n, some a⟩)) := (Option.some.inj hx).symm
          subst hx'
          have hany : tabs.any (fun x => x.d == DS.table s n) = true :=
            List.any_eq_true.mpr ⟨_, ho, by simp⟩
          have hE := (hA.edge (.table s n) a hany).mpr ⟨_, ho, rfl, rfl⟩
          refine ⟨⟨(.ds (.table s n), .str a), ?_, ?_⟩, ?_⟩
          · exact (mem_edgesOrdered_iff g _).mpr ⟨hE.1, hA.node _ ho⟩
          · simp only [hE.2, beq_self_eq_true, Bool.true_and]
            have : tabs.any (fun x => x.d == DS.table s n) = true :=
              List.any_eq_true.mpr ⟨_, ho, by simp⟩
            rw [this]; rfl
          · exact hne
        · cases hx

theorem unambiguous_fun (tabs : List DObj) (h : aliasesUnambiguous tabs = true) (k : String) (v v' : DS × String)
    (h1 : (k, v) ∈ tabs.filterMap explEntry) (h2 : (k, v') ∈ tabs.filterMap explEntry) : v = v' := by
  unfold aliasesUnambiguous at h
  rw [List.all_eq_true] at h
  have := h _ h1
  rw [List.all_eq_true] at this
  have := this _ h2
  simpa using this

/-- **the holder's alias map answers like the specification's**, for every qualifier -/
theorem amGet_aliasMapping (g : LGraph) (tabs : List DObj) (hT : ∀ o ∈ tabs, o.d.isTable = true) (hA : AliasOK g tabs)
    (hU : aliasesUnambiguous tabs = true) (q : String) :
    amGet (aliasMapping g tabs) q = amGet (specAliasMap tabs) q := by
  rw [aliasMapping_split, specAliasMap_split, amGet_append, amGet_append,
    amGet_congr (graphExpl g tabs) (tabs.filterMap explEntry) q (fun v => mem_graphExpl g tabs hT hA _)
      (fun v v' => unambiguous_fun tabs hU q v v')]


/-! ### `set(alias_mapping.values())` when every name denotes the same relation -/

private theorem filterMap_const {α β : Type} (f : α → Option β) (v : β) :
    ∀ l : List α, (∀ x ∈ l, f x = some v) → l.filterMap f = l.map (fun _ => v)
  | [], _ => rfl
  | x :: r, h => by
    rw [List.filterMap_cons, h x (by simp)]
    simp only [List.map_cons]
    rw [filterMap_const f v r (fun y hy => h y (by simp [hy]))]

private theorem dedupe_const {α : Type} (v : DS × String) : ∀ (l : List α),
    (l.map (fun _ => v)).foldl (fun acc w => if acc.any (·.1 == w.1) then acc else acc ++ [w]) [v] = [v]
  | [] => rfl
  | _ :: r => by
    simp only [List.map_cons, List.foldl_cons, List.any_cons, beq_self_eq_true, Bool.true_or, if_true]
    exact dedupe_const v r

theorem amValues_const (m : AliasMap) (v : DS × String) (hne : m ≠ []) (h : ∀ e ∈ m, e.2 = v) : amValues m = [v] := by
  unfold amValues
  have hk : ∀ k ∈ (m.map (·.1)).eraseDups, amGet m k = some v := by
    intro k hk
    rw [List.mem_eraseDups] at hk
    obtain ⟨e, he, hek⟩ := List.mem_map.mp hk
    obtain ⟨v', hv'⟩ := amGet_isSome_of_mem m k e.2 (by rw [← hek]; exact he)
    have := h _ (amGet_mem m k v' hv')
    simp only at this
    rw [hv', this]
  simp only
  rw [filterMap_const _ v _ hk]
  cases hks : (m.map (·.1)).eraseDups with
  | nil =>
    exfalso
    cases m with
    | nil => exact hne rfl
    | cons e r =>
      have : e.1 ∈ ((e :: r).map (·.1)).eraseDups := List.mem_eraseDups.mpr (by simp)
      rw [hks] at this; cases this
  | cons k ks =>
    simp only [List.map_cons, List.foldl_cons, List.any_nil, Bool.false_eq_true, if_false, List.nil_append]
    exact dedupe_const v ks

/-- one table reference: every name of the alias map denotes it -/
theorem amValues_single (g : LGraph) (t : DObj) (ht : t.d.isTable = true) :
    amValues (aliasMapping g [t]) = [(t.d, t.printed)] := by
  apply amValues_const
  · rw [aliasMapping_split]
    unfold baseMap
    simp [ht]
  · intro e he
    rw [aliasMapping_split, List.mem_append] at he
    rcases he with he | he
    · unfold baseMap at he
      simp only [List.filter_cons, ht, if_true, List.filter_nil, List.filterMap_cons, List.filterMap_nil, List.map_cons,
        List.map_nil, List.mem_append] at he
      obtain ⟨td, ta⟩ := t
      cases td with
      | path _ => cases ht
      | subq _ => cases ht
      | table s n =>
        simp only at he
        rcases he with (he | he) | he
        · simp only [List.mem_singleton] at he; rw [he]
        · simp only [List.mem_singleton] at he; rw [he]
        · by_cases hta : (ta == some n) = true
          · simp only [hta, if_true, List.mem_singleton] at he; rw [he]
          · simp only [hta, if_false, Bool.false_eq_true] at he; cases he
    · unfold graphExpl at he
      simp only [List.mem_filter, List.mem_filterMap] at he
      obtain ⟨⟨x, _, hx⟩, _⟩ := he
      obtain ⟨u, w⟩ := x
      cases u with
      | col _ _ => simp at hx
      | str _ => simp at hx
      | ds d =>
        cases w with
        | col _ _ => simp at hx
        | ds _ => simp at hx
        | str a =>
          simp only at hx
          split at hx
          · rename_i hc
            simp only [Bool.and_eq_true, beq_iff_eq, List.any_cons, List.any_nil, Bool.or_false] at hc
            have hd : t.d = d := hc.2
            rw [← Option.some.inj hx]
            simp only
            obtain ⟨td, ta⟩ := t
            simp only at hd
            subst hd
            cases td with
            | path _ => cases ht
            | subq _ => cases ht
            | table s n => rfl
          · cases hx


/-! ## 3. the holder after the reads -/

/-- a table reference as `mkTable` builds it: a `Table` with an alias attribute -/
def isTabRef (o : DObj) : Bool := o.d.isTable && o.alias.isSome

theorem isTabRef_mkTable (env : Env) (parts : List String) (alias : Option String) : isTabRef (mkTable env parts alias) = true := rfl

theorem addReadO_tab (g : LGraph) (s n a : String) :
    addReadO g ⟨.table s n, some a⟩ =
      (g.setTag (.ds (.table s n)) .read true none).addEdge (.ds (.table s n)) (.str a) .hasAlias := rfl

theorem tabRef_cases (o : DObj) (h : isTabRef o = true) : ∃ s n a, o = ⟨.table s n, some a⟩ := by
  obtain ⟨d, al⟩ := o
  cases d with
  | path _ => simp [isTabRef, DS.isTable] at h
  | subq _ => simp [isTabRef, DS.isTable] at h
  | table s n =>
    cases al with
    | none => simp [isTabRef] at h
    | some a => exact ⟨s, n, a, rfl⟩

theorem payload_setTag (g : LGraph) (n m : Node) (t : Tag) (b : Bool) (p : Option Payload) :
    (g.setTag n t b p).payload m = (g.addNode n p).payload m := rfl

/-- a payload read after `add_edge`: the old one, or one of the two key objects handed in -/
theorem payload_addEdge_cases (g : LGraph) (u v m : Node) (ty : EType) (i : Option Nat) (pu pv : Option Payload) (x : Payload)
    (h : (g.addEdge u v ty i pu pv).payload m = some x) : g.payload m = some x ∨ pu = some x ∨ pv = some x := by
  rw [Graph.payload_addEdge, Graph.payload_addNode, Graph.payload_addNode] at h
  split at h
  · split at h
    · exact Or.inl h
    · split at h
      · exact Or.inr (Or.inl h)
      · cases h
  · split at h
    · exact Or.inr (Or.inr h)
    · cases h

theorem payload_addNode_cases (g : LGraph) (n m : Node) (p : Option Payload) (x : Payload)
    (h : (g.addNode n p).payload m = some x) : g.payload m = some x ∨ p = some x := by
  rw [Graph.payload_addNode] at h
  split at h
  · exact Or.inl h
  · split at h
    · exact Or.inr h
    · cases h

/-- the alias pairs a list of table references contributes -/
def aliasPair (l : List DObj) (u v : Node) : Prop := ∃ o ∈ l, ∃ a, o.alias = some a ∧ u = .ds o.d ∧ v = .str a

theorem mem_edges_foldl_addReadO (l : List DObj) (hl : ∀ o ∈ l, isTabRef o = true) (g : LGraph) (u v : Node) :
    (u, v) ∈ (l.foldl addReadO g).edges ↔ (u, v) ∈ g.edges ∨ aliasPair l u v := by
  induction l generalizing g with
  | nil => simp [aliasPair]
  | cons o r ih =>
    obtain ⟨s, n, a, rfl⟩ := tabRef_cases o (hl o (by simp))
    simp only [List.foldl_cons]
    rw [ih (fun o ho => hl o (by simp [ho])), addReadO_tab, mem_edges_addEdge, edges_setTag]
    simp only [aliasPair, List.mem_cons, exists_eq_or_imp, Option.some.injEq, exists_eq_left', Prod.mk.injEq]
    constructor
    · rintro ((h | h) | h)
      · exact Or.inl h
      · exact Or.inr (Or.inl h)
      · exact Or.inr (Or.inr h)
    · rintro (h | h | h)
      · exact Or.inl (Or.inl h)
      · exact Or.inl (Or.inr h)
      · exact Or.inr h

theorem ety_foldl_addReadO (l : List DObj) (hl : ∀ o ∈ l, isTabRef o = true) (g : LGraph) (u v : Node) :
    (aliasPair l u v → (l.foldl addReadO g).ety u v = some .hasAlias) ∧
    (¬ aliasPair l u v → (l.foldl addReadO g).ety u v = g.ety u v) := by
  induction l generalizing g with
  | nil => simp [aliasPair]
  | cons o r ih =>
    obtain ⟨s, n, a, rfl⟩ := tabRef_cases o (hl o (by simp))
    simp only [List.foldl_cons]
    have ih' := ih (fun o ho => hl o (by simp [ho])) (addReadO g ⟨.table s n, some a⟩)
    have hstep : (addReadO g ⟨.table s n, some a⟩).ety u v =
        if u = .ds (.table s n) ∧ v = .str a then some .hasAlias else g.ety u v := by
      rw [addReadO_tab, ety_addEdge, ety_setTag]
    constructor
    · intro hp
      by_cases hr : aliasPair r u v
      · exact ih'.1 hr
      · rw [ih'.2 hr, hstep]
        obtain ⟨o, ho, a', ha', hu, hv⟩ := hp
        rcases List.mem_cons.mp ho with rfl | ho
        · simp only [Option.some.injEq] at ha'
          subst ha'
          rw [if_pos ⟨hu, hv⟩]
        · exact absurd ⟨o, ho, a', ha', hu, hv⟩ hr
    · intro hp
      have hr : ¬ aliasPair r u v := fun ⟨o, ho, x⟩ => hp ⟨o, List.mem_cons_of_mem _ ho, x⟩
      rw [ih'.2 hr, hstep, if_neg]
      rintro ⟨hu, hv⟩
      exact hp ⟨_, List.mem_cons_self .., a, rfl, hu, hv⟩

theorem nodes_foldl_addReadO (l : List DObj) (hl : ∀ o ∈ l, isTabRef o = true) (g : LGraph) :
    (∀ n ∈ g.nodes, n ∈ (l.foldl addReadO g).nodes) ∧ (∀ o ∈ l, Node.ds o.d ∈ (l.foldl addReadO g).nodes) := by
  induction l generalizing g with
  | nil => simp
  | cons o r ih =>
    obtain ⟨s, n, a, rfl⟩ := tabRef_cases o (hl o (by simp))
    simp only [List.foldl_cons]
    have ih' := ih (fun o ho => hl o (by simp [ho])) (addReadO g ⟨.table s n, some a⟩)
    have hstep : ∀ m, m ∈ (addReadO g ⟨.table s n, some a⟩).nodes ↔
        (m ∈ g.nodes ∨ m = .ds (.table s n)) ∨ m = .ds (.table s n) ∨ m = .str a := by
      intro m; rw [addReadO_tab, mem_nodes_addEdge, mem_nodes_setTag]
    constructor
    · intro m hm
      exact ih'.1 m ((hstep m).mpr (Or.inl (Or.inl hm)))
    · intro o ho
      rcases List.mem_cons.mp ho with rfl | ho
      · exact ih'.1 _ ((hstep _).mpr (Or.inl (Or.inr rfl)))
      · exact ih'.2 o ho

theorem wf_foldl_addReadO (l : List DObj) (hl : ∀ o ∈ l, isTabRef o = true) (g : LGraph) (h : ExportLemmas.WF g) :
    ExportLemmas.WF (l.foldl addReadO g) := by
  induction l generalizing g with
  | nil => exact h
  | cons o r ih =>
    obtain ⟨s, n, a, rfl⟩ := tabRef_cases o (hl o (by simp))
    simp only [List.foldl_cons]
    apply ih (fun o ho => hl o (by simp [ho]))
    rw [addReadO_tab]
    exact ExportLemmas.wf_addEdge _ _ _ _ _ _ _ (ExportLemmas.wf_setTag _ _ _ _ _ h)

theorem pay_foldl_addReadO (l : List DObj) (hl : ∀ o ∈ l, isTabRef o = true) (g : LGraph) (m : Node) (c : Column)
    (h : (l.foldl addReadO g).payload m = some (.col c)) : g.payload m = some (.col c) := by
  induction l generalizing g with
  | nil => exact h
  | cons o r ih =>
    obtain ⟨s, n, a, rfl⟩ := tabRef_cases o (hl o (by simp))
    simp only [List.foldl_cons] at h
    have h1 := ih (fun o ho => hl o (by simp [ho])) _ h
    rw [addReadO_tab] at h1
    rcases payload_addEdge_cases _ _ _ _ _ _ _ _ _ h1 with h2 | h2 | h2
    · rw [payload_setTag] at h2
      rcases payload_addNode_cases _ _ _ _ _ h2 with h3 | h3
      · exact h3
      · cases h3
    · cases h2
    · cases h2

/-- the type an edge must have, read off its endpoints: column → column LINEAGE, owner → column HAS_COLUMN, the rest (dataset →
    alias string) HAS_ALIAS -/
def kind (u v : Node) : EType := if u.isCol then .lineage else if v.isCol then .hasColumn else .hasAlias

def Typed (g : LGraph) : Prop := ∀ a b, (a, b) ∈ g.edges → g.ety a b = some (kind a b)
/-- no owner candidate of a column is a subquery -/
def colOK (c : Column) : Prop := ∀ p ∈ c.parents, p.1.isSubq = false
def PayOK (g : LGraph) : Prop := ∀ n c, g.payload n = some (.col c) → colOK c

/-- what sections 5–7 need to know about the holder the cleanup starts from -/
structure ReadBase (g1 : LGraph) (tabs : List DObj) (T : DS) : Prop where
  wf : ExportLemmas.WF g1
  alias : AliasOK g1 tabs
  noColSrc : ∀ u v, (u, v) ∈ g1.edges → u.isCol = false
  ty : Typed g1
  pay : PayOK g1
  wr : ∀ d, g1.tag (.ds d) .write = some true ↔ d = T
  rd : ∀ d, g1.tag (.ds d) .read = some true ↔ d ∈ tabs.map (·.d)

/-- the holder `add_write(T)` -/
def g0 (t : DObj) : LGraph := addWriteO Graph.empty t

theorem g0_nodes (t : DObj) : (g0 t).nodes = [.ds t.d] := by
  simp [g0, addWriteO, addWrite, setTag, addNode, hasNode, Graph.empty]
theorem g0_edges (t : DObj) : (g0 t).edges = [] := by
  simp [g0, addWriteO, addWrite]
theorem g0_tag (t : DObj) (n : Node) (x : Tag) : (g0 t).tag n x = if n = .ds t.d ∧ x = .write then some true else none := by
  unfold g0; rw [tag_addWriteO, tag_empty]

theorem g0_wf (t : DObj) : ExportLemmas.WF (g0 t) := by
  unfold g0 addWriteO addWrite
  exact ExportLemmas.wf_setTag _ _ _ _ _ ExportLemmas.wf_empty

theorem g0_payload (t : DObj) (ht : t.d.isTable = true) (m : Node) : (g0 t).payload m = none := by
  unfold g0 addWriteO addWrite
  rw [payload_setTag, Graph.payload_addNode]
  have : t.payload = none := by
    obtain ⟨d, a⟩ := t
    cases d with
    | table _ _ => rfl
    | path _ => rfl
    | subq _ => cases ht
  simp [this, Graph.payload, Graph.hasNode, Graph.empty]

/-- the reads of the FROM clause on a holder `B` that is the written table `T` with (possibly) columns hanging from it -/
theorem readBase_gen (B : LGraph) (T : DS) (tabs : List DObj) (hl : ∀ o ∈ tabs, isTabRef o = true)
    (hwf : ExportLemmas.WF B) (hedges : ∀ u v, (u, v) ∈ B.edges → u = .ds T ∧ v.isCol = true) (hty : Typed B)
    (hpay : PayOK B) (htag : ∀ d x, B.tag (.ds d) x = if d = T ∧ x = .write then some true else none) :
    ReadBase (tabs.foldl addReadO B) tabs T ∧
    (∀ u v, (u, v) ∈ (tabs.foldl addReadO B).edges ↔ (u, v) ∈ B.edges ∨ aliasPair tabs u v) := by
  have hE := mem_edges_foldl_addReadO tabs hl B
  have hY := ety_foldl_addReadO tabs hl B
  have hN := nodes_foldl_addReadO tabs hl B
  have hnot : ∀ u v, (u, v) ∈ B.edges → ¬ aliasPair tabs u v := by
    rintro u v he ⟨o, ho, a, ha, hu, hv⟩
    have := (hedges u v he).2
    rw [hv] at this; cases this
  refine ⟨⟨wf_foldl_addReadO tabs hl _ hwf, ⟨?_, hN.2⟩, ?_, ?_, ?_, ?_, ?_⟩, hE⟩
  · intro d a _
    constructor
    · rintro ⟨he, _⟩
      rcases (hE _ _).mp he with h | ⟨o, ho, a', ha', hu, hv⟩
      · have := (hedges _ _ h).2; cases this
      · cases hu; cases hv
        exact ⟨o, ho, rfl, ha'⟩
    · rintro ⟨o, ho, hd, ha⟩
      have hp : aliasPair tabs (.ds d) (.str a) := ⟨o, ho, a, ha, by rw [hd], rfl⟩
      exact ⟨(hE _ _).mpr (Or.inr hp), (hY _ _).1 hp⟩
  · intro u v he
    rcases (hE _ _).mp he with h | ⟨o, ho, a', ha', hu, hv⟩
    · rw [(hedges u v h).1]; rfl
    · rw [hu]; rfl
  · intro u v he
    by_cases hp : aliasPair tabs u v
    · obtain ⟨o, ho, a', ha', hu, hv⟩ := hp
      rw [(hY u v).1 ⟨o, ho, a', ha', hu, hv⟩, hu, hv]; rfl
    · rw [(hY u v).2 hp]
      rcases (hE _ _).mp he with h | h
      · exact hty u v h
      · exact absurd h hp
  · intro n c h
    exact hpay n c (pay_foldl_addReadO tabs hl _ n c h)
  · intro d
    rw [tag_foldl_addReadO, htag]
    simp
  · intro d
    rw [tag_foldl_addReadO, htag]
    simp

theorem readBase (t : DObj) (ht : t.d.isTable = true) (tabs : List DObj) (hl : ∀ o ∈ tabs, isTabRef o = true) :
    ReadBase (tabs.foldl addReadO (g0 t)) tabs t.d ∧
    (∀ u v, (u, v) ∈ (tabs.foldl addReadO (g0 t)).edges ↔ aliasPair tabs u v) := by
  obtain ⟨h1, h2⟩ := readBase_gen (g0 t) t.d tabs hl (g0_wf t) (by intro u v he; rw [g0_edges] at he; cases he)
    (by intro a b he; rw [g0_edges] at he; cases he)
    (by intro n c h; rw [g0_payload t ht] at h; cases h)
    (by intro d x; rw [g0_tag]; simp)
  refine ⟨h1, fun u v => ?_⟩
  rw [h2, g0_edges]; simp

/-! ### tag sets of a holder with duplicate‑free nodes -/

private theorem tagSet_aux (P : Node → Bool) (T : DS) (hP : ∀ d, P (.ds d) = true ↔ d = T) :
    ∀ l : List Node, l.Nodup → (l.filter P).filterMap dsOf = if Node.ds T ∈ l then [T] else []
  | [], _ => rfl
  | n :: r, hnd => by
    have hnd' := List.nodup_cons.mp hnd
    have ih := tagSet_aux P T hP r hnd'.2
    cases n with
    | ds d =>
      by_cases hd : d = T
      · subst hd
        have : P (.ds d) = true := (hP d).mpr rfl
        rw [List.filter_cons_of_pos this, List.filterMap_cons]
        simp only [dsOf]
        rw [ih, if_neg hnd'.1]
        simp
      · have : ¬ P (.ds d) = true := fun h => hd ((hP d).mp h)
        rw [List.filter_cons_of_neg this, ih]
        have hne : Node.ds T ≠ Node.ds d := fun e => hd (Node.ds.inj e).symm
        simp [hne]
    | col a b =>
      by_cases hp : P (.col a b) = true
      · rw [List.filter_cons_of_pos hp, List.filterMap_cons]; simp only [dsOf]; rw [ih]; simp
      · rw [List.filter_cons_of_neg hp, ih]; simp
    | str a =>
      by_cases hp : P (.str a) = true
      · rw [List.filter_cons_of_pos hp, List.filterMap_cons]; simp only [dsOf]; rw [ih]; simp
      · rw [List.filter_cons_of_neg hp, ih]; simp

theorem tagSet_singleton (g : LGraph) (t : Tag) (T : DS) (hN : g.nodes.Nodup)
    (h : ∀ d, g.tag (.ds d) t = some true ↔ d = T) : tagSet g t = [T] := by
  unfold tagSet
  rw [tagSet_aux (fun n => g.tag n t == some true) T (fun d => by simpa using h d) g.nodes hN]
  have : Node.ds T ∈ g.nodes := by
    apply Decidable.byContradiction
    intro hn
    have := (h T).mpr rfl
    rw [tag_of_not_mem _ _ _ hn] at this
    cases this
  rw [if_pos this]

theorem ReadBase.writeSet {g1 : LGraph} {tabs : List DObj} {T : DS} (h : ReadBase g1 tabs T) : writeSet g1 = [T] :=
  tagSet_singleton g1 .write T h.wf.nodup h.wr

theorem ReadBase.notRead {g1 : LGraph} {tabs : List DObj} {T : DS} (h : ReadBase g1 tabs T)
    (hself : ∀ o ∈ tabs, o.d ≠ T) : T ∉ readSet g1 := by
  unfold readSet
  rw [mem_tagSet, h.rd T]
  intro hm
  obtain ⟨o, ho, hd⟩ := List.mem_map.mp hm
  exact hself o ho hd

theorem ReadBase.isRead {g1 : LGraph} {tabs : List DObj} {T : DS} (h : ReadBase g1 tabs T)
    (o : DObj) (ho : o ∈ tabs) (hd : o.d = T) : T ∈ readSet g1 := by
  unfold readSet
  rw [mem_tagSet, h.rd T]
  exact List.mem_map.mpr ⟨o, ho, hd⟩

theorem aliasOK_frame {g1 g : LGraph} {tabs : List DObj} (f : Frame g1 g) (hA : AliasOK g1 tabs) : AliasOK g tabs := by
  refine ⟨fun d a hin => ?_, fun o ho => ?_⟩
  · have := f.edges (.ds d) (.str a) rfl rfl
    rw [this.1, this.2]
    exact hA.edge d a hin
  · obtain ⟨extra, he, _⟩ := f.nodes
    have h1 : Node.ds o.d ∈ nonColNodes g1 := Frame.mem_nonCol.mpr ⟨hA.node o ho, rfl⟩
    have h2 : Node.ds o.d ∈ nonColNodes g := by rw [he]; exact List.mem_append.mpr (Or.inl h1)
    exact (Frame.mem_nonCol.mp h2).1

/-! ## 4. `to_source_columns` on the fragment -/

theorem permK_single {α : Type} (k : Nat) (x : α) : permK k [x] = [x] := by
  simp [permK]

theorem addParent_none (n : String) (v : DS × String) : (Column.mk1 n none).addParent v = Column.mk1 n (some v) := by
  simp [Column.mk1, Column.addParent, insertParent]

theorem isSubq_of_isTable (d : DS) (h : d.isTable = true) : d.isSubq = false := by
  cases d <;> simp_all [DS.isTable, DS.isSubq]

/-! ### `amValues` and owner candidates in general -/

/-- the de‑duplication step of `amValues` -/
def ddStep (acc : List (DS × String)) (v : DS × String) : List (DS × String) :=
  if acc.any (·.1 == v.1) then acc else acc ++ [v]

theorem amValues_eq (m : AliasMap) :
    amValues m = (((m.map (·.1)).eraseDups).filterMap (amGet m)).foldl ddStep [] := rfl

theorem dd_sub : ∀ (l acc : List (DS × String)) (x : DS × String), x ∈ l.foldl ddStep acc → x ∈ acc ∨ x ∈ l
  | [], _, _, h => Or.inl h
  | v :: r, acc, x, h => by
    simp only [List.foldl_cons] at h
    rcases dd_sub r _ x h with h1 | h1
    · unfold ddStep at h1
      split at h1
      · exact Or.inl h1
      · rcases List.mem_append.mp h1 with h2 | h2
        · exact Or.inl h2
        · simp only [List.mem_singleton] at h2
          exact Or.inr (by simp [h2])
    · exact Or.inr (by simp [h1])

theorem dd_ds : ∀ (l acc : List (DS × String)) (d : DS), (d ∈ acc.map (·.1) ∨ d ∈ l.map (·.1)) →
    d ∈ (l.foldl ddStep acc).map (·.1)
  | [], _, _, h => by
    rcases h with h | h
    · exact h
    · cases h
  | v :: r, acc, d, h => by
    simp only [List.foldl_cons]
    apply dd_ds r
    have hstep : ∀ x, x ∈ acc.map (·.1) ∨ x = v.1 → x ∈ (ddStep acc v).map (·.1) := by
      intro x hx
      unfold ddStep
      split
      · rename_i hany
        rcases hx with hx | hx
        · exact hx
        · obtain ⟨z, hz, hk⟩ := List.any_eq_true.mp hany
          simp only [beq_iff_eq] at hk
          rw [hx, ← hk]; exact List.mem_map.mpr ⟨z, hz, rfl⟩
      · simp only [List.map_append, List.mem_append, List.map_cons, List.map_nil, List.mem_singleton]
        exact hx
    rcases h with h | h
    · exact Or.inl (hstep d (Or.inl h))
    · simp only [List.map_cons, List.mem_cons] at h
      rcases h with h | h
      · exact Or.inl (hstep d (Or.inr h))
      · exact Or.inr h

/-- every value of `amValues` is the answer to some name -/
theorem mem_amValues_sub (m : AliasMap) (v : DS × String) (h : v ∈ amValues m) : ∃ k, amGet m k = some v := by
  rw [amValues_eq] at h
  rcases dd_sub _ _ _ h with h1 | h1
  · cases h1
  · obtain ⟨k, _, hk⟩ := List.mem_filterMap.mp h1
    exact ⟨k, hk⟩

/-- the relation a name answers with is among `amValues` -/
theorem amValues_ds (m : AliasMap) (k : String) (v : DS × String) (h : amGet m k = some v) :
    v.1 ∈ (amValues m).map (·.1) := by
  rw [amValues_eq]
  apply dd_ds
  refine Or.inr (List.mem_map.mpr ⟨v, List.mem_filterMap.mpr ⟨k, ?_, h⟩, rfl⟩)
  rw [List.mem_eraseDups]
  exact List.mem_map.mpr ⟨(k, v), amGet_mem m k v h, rfl⟩

theorem insertParent_ds (p : DS × String) : ∀ (l : List (DS × String)) (x : DS),
    x ∈ (insertParent p l).map (·.1) ↔ x = p.1 ∨ x ∈ l.map (·.1)
  | [], x => by simp [insertParent]
  | q :: r, x => by
    simp only [insertParent]
    split
    · rename_i hq
      simp only [List.map_cons, List.mem_cons]
      constructor
      · exact Or.inr
      · rintro (h | h)
        · exact Or.inl (by rw [h, hq])
        · exact h
    · rename_i hq
      split
      · simp only [List.map_cons, List.mem_cons, List.mem_map, List.mem_filter, decide_eq_true_eq]
        constructor
        · rintro (h | h | ⟨y, ⟨hy, _⟩, hyx⟩)
          · exact Or.inl h
          · exact Or.inr (Or.inl h)
          · exact Or.inr (Or.inr ⟨y, hy, hyx⟩)
        · rintro (h | h | ⟨y, hy, hyx⟩)
          · exact Or.inl h
          · exact Or.inr (Or.inl h)
          · by_cases hx : x = p.1
            · exact Or.inl hx
            · exact Or.inr (Or.inr ⟨y, ⟨hy, by rw [hyx]; exact hx⟩, hyx⟩)
      · simp only [List.map_cons, List.mem_cons, insertParent_ds p r x]
        constructor
        · rintro (h | h | h)
          · exact Or.inr (Or.inl h)
          · exact Or.inl h
          · exact Or.inr (Or.inr h)
        · rintro (h | h | h)
          · exact Or.inr (Or.inl h)
          · exact Or.inl h
          · exact Or.inr (Or.inr h)

theorem mem_insertParent (p x : DS × String) : ∀ (l : List (DS × String)), x ∈ insertParent p l → x = p ∨ x ∈ l
  | [], h => by simpa [insertParent] using h
  | q :: r, h => by
    simp only [insertParent] at h
    split at h
    · exact Or.inr h
    · split at h
      · simp only [List.mem_cons, List.mem_filter] at h
        rcases h with h | h | ⟨h, _⟩
        · exact Or.inl h
        · exact Or.inr (by simp [h])
        · exact Or.inr (by simp [h])
      · simp only [List.mem_cons] at h
        rcases h with h | h
        · exact Or.inr (by simp [h])
        · rcases mem_insertParent p x r h with h' | h'
          · exact Or.inl h'
          · exact Or.inr (by simp [h'])

theorem foldl_addParent (vs : List (DS × String)) : ∀ (c : Column),
    (vs.foldl (fun col v => col.addParent v) c).raw = c.raw ∧
    (∀ d, d ∈ (vs.foldl (fun col v => col.addParent v) c).parents.map (·.1) ↔ d ∈ c.parents.map (·.1) ∨ d ∈ vs.map (·.1)) ∧
    (∀ x, x ∈ (vs.foldl (fun col v => col.addParent v) c).parents → x ∈ c.parents ∨ x ∈ vs) := by
  induction vs with
  | nil => intro c; simp
  | cons v r ih =>
    intro c
    obtain ⟨h1, h2, h3⟩ := ih (c.addParent v)
    simp only [List.foldl_cons]
    refine ⟨h1, ?_, ?_⟩
    · intro d
      rw [h2 d]
      simp only [Column.addParent, insertParent_ds, List.map_cons, List.mem_cons]
      constructor
      · rintro ((h | h) | h)
        · exact Or.inr (Or.inl h)
        · exact Or.inl h
        · exact Or.inr (Or.inr h)
      · rintro (h | h | h)
        · exact Or.inl (Or.inr h)
        · exact Or.inl (Or.inl h)
        · exact Or.inr h
    · intro x hx
      rcases h3 x hx with h | h
      · rcases mem_insertParent v x c.parents h with h' | h'
        · exact Or.inr (by simp [h'])
        · exact Or.inl h'
      · exact Or.inr (by simp [h])

theorem parent_none_of_two (c : Column) (d1 d2 : DS) (hne : d1 ≠ d2) (h1 : d1 ∈ c.parents.map (·.1))
    (h2 : d2 ∈ c.parents.map (·.1)) : c.parent? = none := by
  unfold Column.parent?
  split
  · rename_i p hp
    rw [hp] at h1 h2
    simp only [List.map_cons, List.map_nil, List.mem_singleton] at h1 h2
    exact absurd (h1.trans h2.symm) hne
  · rfl

theorem key_of_parent_none (c : Column) (h : c.parent? = none) : c.key = .col c.raw none := by
  simp [Column.key, Column.printed, h]

theorem aliasMapping_isTable (g : LGraph) (tabs : List DObj) (hT : ∀ o ∈ tabs, o.d.isTable = true) :
    ∀ e ∈ aliasMapping g tabs, e.2.1.isTable = true := by
  intro e he
  rw [aliasMapping_split, List.mem_append] at he
  rcases he with he | he
  · unfold baseMap at he
    simp only [List.mem_append, List.mem_filterMap, List.mem_map, List.mem_filter] at he
    rcases he with (⟨o, ⟨_, ho⟩, h⟩ | ⟨o, ⟨_, ho⟩, h⟩) | ⟨o, ⟨_, ho⟩, h⟩
    · split at h
      · cases h; exact ho
      · cases h
    · rw [← h]; exact ho
    · split at h
      · split at h
        · cases h; exact ho
        · cases h
      · cases h
  · unfold graphExpl at he
    simp only [List.mem_filter, List.mem_filterMap] at he
    obtain ⟨⟨x, _, hx⟩, _⟩ := he
    obtain ⟨u, w⟩ := x
    cases u with
    | col _ _ => simp at hx
    | str _ => simp at hx
    | ds d =>
      cases w with
      | col _ _ => simp at hx
      | ds _ => simp at hx
      | str a =>
        simp only at hx
        split at hx
        · rename_i hc
          simp only [Bool.and_eq_true, beq_iff_eq] at hc
          obtain ⟨o, ho, hod⟩ := List.any_eq_true.mp hc.2
          simp only [beq_iff_eq] at hod
          rw [← Option.some.inj hx]
          simp only
          rw [← hod]; exact hT o ho
        · cases hx

theorem specAliasMap_isTable (tabs : List DObj) : ∀ e ∈ specAliasMap tabs, e.2.1.isTable = true := by
  intro e he
  rw [specAliasMap_split, List.mem_append] at he
  rcases he with he | he
  · unfold baseMap at he
    simp only [List.mem_append, List.mem_filterMap, List.mem_map, List.mem_filter] at he
    rcases he with (⟨o, ⟨_, ho⟩, h⟩ | ⟨o, ⟨_, ho⟩, h⟩) | ⟨o, ⟨_, ho⟩, h⟩
    · split at h
      · cases h; exact ho
      · cases h
    · rw [← h]; exact ho
    · split at h
      · split at h
        · cases h; exact ho
        · cases h
      · cases h
  · obtain ⟨o, _, h⟩ := List.mem_filterMap.mp he
    unfold explEntry at h
    split at h
    · rename_i hd _
      split at h
      · cases h; simp only; rw [hd]; rfl
      · cases h
    · cases h

theorem resolveQ_isTable (imp : String) (tabs : List DObj) (q : String) : (resolveQ imp tabs q).1.isTable = true := by
  unfold resolveQ
  cases h : amGet (specAliasMap tabs) q with
  | none => rfl
  | some v => exact specAliasMap_isTable tabs _ (amGet_mem _ _ _ h)

theorem twoRelations_spec (tabs : List DObj) (h : twoRelations tabs = true) :
    ∃ k1 k2 v1 v2, amGet (specAliasMap tabs) k1 = some v1 ∧ amGet (specAliasMap tabs) k2 = some v2 ∧ v1.1 ≠ v2.1 := by
  unfold twoRelations at h
  obtain ⟨e1, _, h1⟩ := List.any_eq_true.mp h
  obtain ⟨e2, _, h2⟩ := List.any_eq_true.mp h1
  cases ha : amGet (specAliasMap tabs) e1.1 with
  | none => simp [ha] at h2
  | some v1 =>
    cases hb : amGet (specAliasMap tabs) e2.1 with
    | none => simp [ha, hb] at h2
    | some v2 =>
      simp only [ha, hb, bne_iff_ne] at h2
      exact ⟨e1.1, e2.1, v1, v2, ha, hb, h2⟩

/-! ### one reference -/

/-- the loop body of `to_source_columns` -/
def tsStep (imp : String) (m : AliasMap) (k : Nat) (acc : List Column) (sq : String × Option String) : List Column :=
  match sq.2 with
  | none =>
    if sq.1 == "*" then
      (permK k (amValues m)).foldl (fun acc v => pushCol acc (Column.mk1 sq.1 (some v))) acc
    else
      pushCol acc ((permK k (amValues m)).foldl (fun col v => col.addParent v) (Column.mk1 sq.1 none))
  | some q =>
    match amGet m q with
    | some v => pushCol acc (Column.mk1 sq.1 (some v))
    | none =>
      pushCol acc (Column.mk1 sq.1 (some (.table imp (Ident.escapeS q), imp ++ "." ++ Ident.escapeS q)))

theorem toSourceColumns_fold (imp : String) (m : AliasMap) (c : ColSpec) (k : Nat) :
    toSourceColumns imp m c k = c.srcs.foldl (tsStep imp m k) [] := rfl

/-- every value of the specification's alias map is a table reference of the FROM clause under its printed name -/
theorem specAliasMap_value (tabs : List DObj) : ∀ e ∈ specAliasMap tabs,
    e.2.1.isTable = true ∧ e.2.2 = prDS e.2.1 ∧ ∃ o ∈ tabs, o.d = e.2.1 := by
  intro e he
  have hpr : ∀ o : DObj, o.d.isTable = true → o.printed = prDS o.d := by
    intro o ho
    obtain ⟨d, a⟩ := o
    cases d with
    | table _ _ => rfl
    | path _ => cases ho
    | subq _ => cases ho
  rw [specAliasMap_split, List.mem_append] at he
  rcases he with he | he
  · unfold baseMap at he
    simp only [List.mem_append, List.mem_filterMap, List.mem_map, List.mem_filter] at he
    rcases he with (⟨o, ⟨hin, ho⟩, h⟩ | ⟨o, ⟨hin, ho⟩, h⟩) | ⟨o, ⟨hin, ho⟩, h⟩
    · split at h
      · cases h; exact ⟨ho, hpr o ho, o, hin, rfl⟩
      · cases h
    · rw [← h]; exact ⟨ho, hpr o ho, o, hin, rfl⟩
    · split at h
      · split at h
        · cases h; exact ⟨ho, hpr o ho, o, hin, rfl⟩
        · cases h
      · cases h
  · obtain ⟨o, hin, h⟩ := List.mem_filterMap.mp he
    unfold explEntry at h
    split at h
    · rename_i hd _
      split at h
      · cases h
        have ho : o.d.isTable = true := by rw [hd]; rfl
        exact ⟨ho, hpr o ho, o, hin, rfl⟩
      · cases h
    · cases h

/-- on the fragment every reference contributes columns whose keys are the keys the specification names; their owner
    candidates are tables, and (when the written table is not read) their owner is not the written table -/
theorem tsStep_spec (imp : String) (g : LGraph) (tabs : List DObj) (k : Nat)
    (hT : ∀ o ∈ tabs, isTabRef o = true) (hA : AliasOK g tabs) (hU : aliasesUnambiguous tabs = true)
    (avoid : Option DS) (havoid : ∀ T, avoid = some T → ∀ o ∈ tabs, o.d ≠ T)
    (r : String × Option String) (hr : refOKn imp tabs avoid r = true) :
    ∃ XS : List Column, (∀ acc, tsStep imp (aliasMapping g tabs) k acc r = XS.foldl pushCol acc) ∧
      (∀ x, x ∈ XS.map (·.key) ↔ x ∈ srcKeys imp tabs r) ∧
      ∀ X ∈ XS, colOK X ∧ ∀ T, avoid = some T → ∀ sp, X.parent? = some sp → sp.1 ≠ T := by
  have hT' : ∀ o ∈ tabs, o.d.isTable = true := by
    intro o ho
    have := hT o ho
    simp only [isTabRef, Bool.and_eq_true] at this
    exact this.1
  obtain ⟨rn, rq⟩ := r
  cases rq with
  | some q =>
    refine ⟨[Column.mk1 rn (some (resolveQ imp tabs q))], ?_, ?_, ?_⟩
    · intro acc
      simp only [tsStep, resolveQ, List.foldl_cons, List.foldl_nil]
      rw [amGet_aliasMapping g tabs hT' hA hU q]
      cases amGet (specAliasMap tabs) q <;> rfl
    · intro x
      have : isStarMulti tabs (rn, some q) = false := by
        unfold isStarMulti; cases tabs <;> rfl
      simp only [srcKeys, this, Bool.false_eq_true, if_false, List.map_cons, List.map_nil, srcCol]
    · intro X hX
      simp only [List.mem_singleton] at hX
      subst hX
      refine ⟨?_, ?_⟩
      · intro p hp
        simp only [Column.mk1, List.mem_singleton] at hp
        rw [hp]; exact isSubq_of_isTable _ (resolveQ_isTable imp tabs q)
      · intro T hTa sp hsp
        simp only [Column.mk1, Column.parent?, Option.some.injEq] at hsp
        rw [← hsp]
        simp only [refOKn, hTa, bne_iff_ne] at hr
        exact hr
  | none =>
    match tabs, hT, hT', hA, hU, havoid, hr with
    | [t], hT, hT', hA, hU, havoid, hr =>
      refine ⟨[Column.mk1 rn (some (t.d, t.printed))], ?_, ?_, ?_⟩
      · intro acc
        simp only [tsStep]
        rw [amValues_single g t (hT' t (by simp)), permK_single]
        simp only [List.foldl_cons, List.foldl_nil, addParent_none, ite_self]
      · intro x
        simp only [srcKeys, isStarMulti, Bool.false_eq_true, if_false, List.map_cons, List.map_nil, srcCol]
      · intro X hX
        simp only [List.mem_singleton] at hX
        subst hX
        refine ⟨?_, ?_⟩
        · intro p hp
          simp only [Column.mk1, List.mem_singleton] at hp
          rw [hp]; exact isSubq_of_isTable _ (hT' t (by simp))
        · intro T hTa sp hsp
          simp only [Column.mk1, Column.parent?, Option.some.injEq] at hsp
          rw [← hsp]; exact havoid T hTa t (by simp)
    | [], hT, hT', hA, hU, havoid, hr =>
      -- no table at all: `amValues` is empty
      have hm : aliasMapping g [] = [] := by
        rw [aliasMapping_split]
        have hge : graphExpl g [] = [] := by
          unfold graphExpl
          have : (g.edgesOrdered.filterMap (fun e =>
              match e.1, e.2 with
              | .ds d, .str a =>
                if g.ety e.1 e.2 == some .hasAlias && ([] : List DObj).any (·.d == d) then some (a, (d, printedDS g d)) else none
              | _, _ => none)) = [] := by
            rw [List.filterMap_eq_nil_iff]
            rintro ⟨u, v⟩ _
            cases u <;> cases v <;> simp
          rw [this]; rfl
        rw [hge]
        rfl
      by_cases hstar : (rn == "*") = true
      · refine ⟨[], ?_, ?_, ?_⟩
        · intro acc
          simp only [tsStep, hstar, if_true, hm]
          rfl
        · intro x
          simp [srcKeys, isStarMulti, hstar, denoted, specAliasMap, amValues]
        · intro X hX; cases hX
      · simp [refOKn, twoRelations, specAliasMap, hstar] at hr
    | t1 :: t2 :: rest, hT, hT', hA, hU, havoid, hr =>
      have hperm := SqlLineage.permK_perm k (amValues (aliasMapping g (t1 :: t2 :: rest)))
      have hget := amGet_aliasMapping g (t1 :: t2 :: rest) hT' hA hU
      by_cases hstar : (rn == "*") = true
      · -- `*` over several table references: one `<relation>.*` per denoted relation
        have hrn : rn = "*" := by simpa using hstar
        subst hrn
        refine ⟨(permK k (amValues (aliasMapping g (t1 :: t2 :: rest)))).map (fun v => Column.mk1 "*" (some v)), ?_, ?_, ?_⟩
        · intro acc
          simp only [tsStep, beq_self_eq_true, if_true, List.foldl_map]
        · intro x
          have hsm : isStarMulti (t1 :: t2 :: rest) ("*", none) = true := rfl
          simp only [srcKeys, hsm, if_true, List.map_map, List.mem_map, denoted, Function.comp]
          constructor
          · rintro ⟨v, hv, rfl⟩
            obtain ⟨kk, hkk⟩ := mem_amValues_sub _ v (hperm.mem_iff.mp hv)
            rw [hget] at hkk
            obtain ⟨_, hpr, _⟩ := specAliasMap_value _ _ (amGet_mem _ _ _ hkk)
            obtain ⟨w, hw, hwv⟩ := List.mem_map.mp (amValues_ds _ kk v hkk)
            refine ⟨w, hw, ?_⟩
            simp only at hpr hwv
            rw [hwv]
            unfold starKey
            rw [← hpr]
          · rintro ⟨w, hw, rfl⟩
            obtain ⟨kk, hkk⟩ := mem_amValues_sub _ w hw
            have hkk' := hkk
            rw [← hget] at hkk'
            obtain ⟨v, hv, hvw⟩ := List.mem_map.mp (amValues_ds _ kk w hkk')
            obtain ⟨kv, hkv⟩ := mem_amValues_sub _ v hv
            rw [hget] at hkv
            obtain ⟨_, hpr, _⟩ := specAliasMap_value _ _ (amGet_mem _ _ _ hkv)
            refine ⟨v, hperm.mem_iff.mpr hv, ?_⟩
            simp only at hpr hvw
            unfold starKey
            rw [← hvw, ← hpr]
        · intro X hX
          obtain ⟨v, hv, rfl⟩ := List.mem_map.mp hX
          obtain ⟨kk, hkk⟩ := mem_amValues_sub _ v (hperm.mem_iff.mp hv)
          rw [hget] at hkk
          obtain ⟨htab, _, o, ho, hod⟩ := specAliasMap_value _ _ (amGet_mem _ _ _ hkk)
          refine ⟨?_, ?_⟩
          · intro p hp
            simp only [Column.mk1, List.mem_singleton] at hp
            rw [hp]; exact isSubq_of_isTable _ htab
          · intro T hTa sp hsp
            simp only [Column.mk1, Column.parent?, Option.some.injEq] at hsp
            rw [← hsp]
            simp only at hod
            rw [← hod]
            exact havoid T hTa o ho
      · -- any other unqualified reference over names denoting two relations: left unresolved
        have hstar' : (rn == "*") = false := by simpa using hstar
        simp only [refOKn, hstar', Bool.false_or] at hr
        obtain ⟨k1, k2, v1, v2, h1, h2, hne⟩ := twoRelations_spec _ hr
        rw [← hget] at h1 h2
        obtain ⟨fr, fd, fm⟩ := foldl_addParent (permK k (amValues (aliasMapping g (t1 :: t2 :: rest)))) (Column.mk1 rn none)
        have hin : ∀ (kk : String) (v : DS × String), amGet (aliasMapping g (t1 :: t2 :: rest)) kk = some v →
            v.1 ∈ ((permK k (amValues (aliasMapping g (t1 :: t2 :: rest)))).foldl (fun col v => col.addParent v)
              (Column.mk1 rn none)).parents.map (·.1) := by
          intro kk v hv
          rw [fd]
          refine Or.inr ?_
          obtain ⟨w, hw, hwv⟩ := List.mem_map.mp (amValues_ds _ kk v hv)
          exact List.mem_map.mpr ⟨w, hperm.mem_iff.mpr hw, hwv⟩
        have hpn := parent_none_of_two _ v1.1 v2.1 hne (hin k1 v1 h1) (hin k2 v2 h2)
        refine ⟨[(permK k (amValues (aliasMapping g (t1 :: t2 :: rest)))).foldl (fun col v => col.addParent v)
          (Column.mk1 rn none)], ?_, ?_, ?_⟩
        · intro acc
          simp only [tsStep, hstar', Bool.false_eq_true, if_false, List.foldl_cons, List.foldl_nil]
        · intro x
          have hsm : isStarMulti (t1 :: t2 :: rest) (rn, none) = false := by
            simp only [isStarMulti]; exact hstar'
          simp only [srcKeys, hsm, Bool.false_eq_true, if_false, List.map_cons, List.map_nil]
          rw [key_of_parent_none _ hpn, fr]
          simp only [srcCol, Column.mk1, Column.key, Column.printed, Column.parent?, Option.map_none]
        · intro X hX
          simp only [List.mem_singleton] at hX
          subst hX
          refine ⟨?_, ?_⟩
          · intro p hp
            rcases fm p hp with h | h
            · simp [Column.mk1] at h
            · obtain ⟨kk, hkk⟩ := mem_amValues_sub _ p (hperm.mem_iff.mp h)
              exact isSubq_of_isTable _ (aliasMapping_isTable g _ hT' _ (amGet_mem _ _ _ hkk))
          · intro T _ sp hsp
            rw [hpn] at hsp; cases hsp

theorem mem_pushCol (acc : List Column) (c y : Column) (h : y ∈ pushCol acc c) : y ∈ acc ∨ y = c := by
  unfold pushCol at h
  split at h
  · exact Or.inl h
  · rcases List.mem_append.mp h with h2 | h2
    · exact Or.inl h2
    · simp only [List.mem_singleton] at h2
      exact Or.inr h2

theorem mem_keys_pushCol (acc : List Column) (c : Column) (x : Node) :
    x ∈ (pushCol acc c).map (·.key) ↔ x ∈ acc.map (·.key) ∨ x = c.key := by
  unfold pushCol
  split
  · rename_i hany
    constructor
    · exact Or.inl
    · rintro (h | h)
      · exact h
      · obtain ⟨z, hz, hk⟩ := List.any_eq_true.mp hany
        simp only [beq_iff_eq] at hk
        rw [h, ← hk]
        exact List.mem_map.mpr ⟨z, hz, rfl⟩
  · simp [List.map_append]

theorem pushAll_spec : ∀ (XS acc : List Column),
    (∀ x, x ∈ (XS.foldl pushCol acc).map (·.key) ↔ x ∈ acc.map (·.key) ∨ x ∈ XS.map (·.key)) ∧
    (∀ y ∈ XS.foldl pushCol acc, y ∈ acc ∨ y ∈ XS)
  | [], acc => ⟨fun x => by simp, fun y hy => Or.inl hy⟩
  | X :: r, acc => by
    obtain ⟨h1, h2⟩ := pushAll_spec r (pushCol acc X)
    simp only [List.foldl_cons]
    constructor
    · intro x
      rw [h1 x, mem_keys_pushCol]
      simp only [List.map_cons, List.mem_cons]
      constructor
      · rintro ((h | h) | h)
        · exact Or.inl h
        · exact Or.inr (Or.inl h)
        · exact Or.inr (Or.inr h)
      · rintro (h | h | h)
        · exact Or.inl (Or.inl h)
        · exact Or.inl (Or.inr h)
        · exact Or.inr h
    · intro y hy
      rcases h2 y hy with h | h
      · rcases mem_pushCol _ _ _ h with h' | h'
        · exact Or.inl h'
        · exact Or.inr (by simp [h'])
      · exact Or.inr (by simp [h])

/-- a loop whose every step pushes some columns: the keys of the result, and a property of its elements -/
theorem fold_push_spec {α : Type} (step : List Column → α → List Column) (KS : α → List Node) (P : Column → Prop) :
    ∀ (l : List α) (acc : List Column),
      (∀ r ∈ l, ∃ XS : List Column, (∀ acc, step acc r = XS.foldl pushCol acc) ∧
        (∀ x, x ∈ XS.map (·.key) ↔ x ∈ KS r) ∧ ∀ X ∈ XS, P X) →
      (∀ x, x ∈ (l.foldl step acc).map (·.key) ↔ x ∈ acc.map (·.key) ∨ x ∈ l.flatMap KS) ∧
      (∀ y ∈ l.foldl step acc, y ∈ acc ∨ P y)
  | [], acc, _ => ⟨fun x => by simp, fun y hy => Or.inl hy⟩
  | r :: rest, acc, h => by
    obtain ⟨XS, hX, hk, hP⟩ := h r (by simp)
    obtain ⟨ih1, ih2⟩ := fold_push_spec step KS P rest (step acc r) (fun r' hr' => h r' (by simp [hr']))
    obtain ⟨p1, p2⟩ := pushAll_spec XS acc
    simp only [List.foldl_cons]
    constructor
    · intro x
      rw [ih1 x, hX acc, p1 x, hk x]
      simp only [List.flatMap_cons, List.mem_append]
      constructor
      · rintro ((h1 | h1) | h1)
        · exact Or.inl h1
        · exact Or.inr (Or.inl h1)
        · exact Or.inr (Or.inr h1)
      · rintro (h1 | h1 | h1)
        · exact Or.inl (Or.inl h1)
        · exact Or.inl (Or.inr h1)
        · exact Or.inr h1
    · intro y hy
      rcases ih2 y hy with h1 | h1
      · rw [hX acc] at h1
        rcases p2 y h1 with h2 | h2
        · exact Or.inl h2
        · exact Or.inr (hP y h2)
      · exact Or.inr h1

/-- **`to_source_columns` on the fragment**: the keys of the source columns are the keys the specification names; no owner
    candidate is a subquery; no owner is the written table (when it is not read) -/
theorem toSourceColumns_keys (imp : String) (g : LGraph) (tabs : List DObj) (c : ColSpec) (k : Nat)
    (hT : ∀ o ∈ tabs, isTabRef o = true) (hA : AliasOK g tabs) (hU : aliasesUnambiguous tabs = true)
    (avoid : Option DS) (havoid : ∀ T, avoid = some T → ∀ o ∈ tabs, o.d ≠ T)
    (hc : ∀ r ∈ c.srcs, refOKn imp tabs avoid r = true) :
    (∀ x, x ∈ (toSourceColumns imp (aliasMapping g tabs) c k).map (·.key) ↔
      x ∈ c.srcs.flatMap (srcKeys imp tabs)) ∧
    (∀ y ∈ toSourceColumns imp (aliasMapping g tabs) c k,
      colOK y ∧ ∀ T, avoid = some T → ∀ sp, y.parent? = some sp → sp.1 ≠ T) := by
  rw [toSourceColumns_fold]
  obtain ⟨h1, h2⟩ := fold_push_spec (tsStep imp (aliasMapping g tabs) k) (srcKeys imp tabs)
    (fun y => colOK y ∧ ∀ T, avoid = some T → ∀ sp, y.parent? = some sp → sp.1 ≠ T) c.srcs []
    (fun r hr => tsStep_spec imp g tabs k hT hA hU avoid havoid r (hc r hr))
  refine ⟨fun x => ?_, fun y hy => ?_⟩
  · rw [h1 x]; simp
  · rcases h2 y hy with h | h
    · cases h
    · exact h

/-! ## 5. the wiring invariant -/

theorem typed_addEdge (g : LGraph) (u v : Node) (ty : EType) (i : Option Nat) (pu pv : Option Payload) (h : Typed g)
    (hty : ty = kind u v) : Typed (g.addEdge u v ty i pu pv) := by
  intro a b hm
  rw [ety_addEdge]
  by_cases hab : a = u ∧ b = v
  · rw [if_pos hab, hab.1, hab.2, hty]
  · rw [if_neg hab]
    rcases (mem_edges_addEdge _ _ _ _ _ _ _ _).mp hm with h1 | h1
    · exact h a b h1
    · exact absurd (by simpa using h1) hab

theorem payOK_addEdge (g : LGraph) (u v : Node) (ty : EType) (i : Option Nat) (pu pv : Option Payload) (h : PayOK g)
    (hu : ∀ c, pu = some (.col c) → colOK c) (hv : ∀ c, pv = some (.col c) → colOK c) : PayOK (g.addEdge u v ty i pu pv) := by
  intro n c hc
  rcases payload_addEdge_cases _ _ _ _ _ _ _ _ _ hc with h1 | h1 | h1
  · exact h n c h1
  · exact hu c h1
  · exact hv c h1

/-- `add_column_lineage(src, tgt)` when the target column has one owner -/
def addLin (g : LGraph) (src tgt : Column) (tp : DS × String) : LGraph :=
  let g := g.addEdge src.key tgt.key .lineage none (some (.col src)) (some (.col tgt))
  let g := g.addEdge (.ds tp.1) tgt.key .hasColumn none (some (.sub tp.2)) (some (.col tgt))
  match src.parent? with
  | some sp => g.addEdge (.ds sp.1) src.key .hasColumn none (some (.sub sp.2)) (some (.col src))
  | none => g

theorem addColumnLineage_eq (g : LGraph) (src tgt : Column) (tp : DS × String) (h : tgt.parent? = some tp) :
    addColumnLineage g src tgt = .ok (addLin g src tgt tp) := by
  unfold addColumnLineage addLin
  rw [h]
  cases src.parent? <;> rfl

theorem key_isCol (c : Column) : c.key.isCol = true := rfl
theorem colParent_key (c : Column) : colParent c.key = c.parent?.map (·.1) := rfl

theorem mem_edges_addLin (g : LGraph) (src tgt : Column) (tp : DS × String) (e : Node × Node) :
    e ∈ (addLin g src tgt tp).edges ↔ e ∈ g.edges ∨ e = (src.key, tgt.key) ∨ e = (.ds tp.1, tgt.key) ∨
      ∃ sp, src.parent? = some sp ∧ e = (.ds sp.1, src.key) := by
  unfold addLin
  cases h : src.parent? with
  | none => simp [mem_edges_addEdge, or_assoc]
  | some sp => simp [mem_edges_addEdge, or_assoc]

theorem frame_addLin (g : LGraph) (src tgt : Column) (tp : DS × String) : Frame g (addLin g src tgt tp) := by
  unfold addLin
  have f1 := Frame.addEdge g src.key tgt.key .lineage none (some (.col src)) (some (.col tgt)) (Or.inl (key_isCol _))
  have f2 := Frame.addEdge (g.addEdge src.key tgt.key .lineage none (some (.col src)) (some (.col tgt)))
    (.ds tp.1) tgt.key .hasColumn none (some (.sub tp.2)) (some (.col tgt)) (Or.inr (key_isCol _))
  cases src.parent? with
  | none => exact f1.trans f2
  | some sp => exact (f1.trans f2).trans (Frame.addEdge _ _ _ _ _ _ _ (Or.inr (key_isCol _)))

theorem typed_addLin (g : LGraph) (src tgt : Column) (tp : DS × String) (h : Typed g) : Typed (addLin g src tgt tp) := by
  unfold addLin
  have t1 := typed_addEdge g src.key tgt.key .lineage none (some (.col src)) (some (.col tgt)) h rfl
  have t2 := typed_addEdge _ (.ds tp.1) tgt.key .hasColumn none (some (.sub tp.2)) (some (.col tgt)) t1 rfl
  cases src.parent? with
  | none => exact t2
  | some sp => exact typed_addEdge _ _ _ _ _ _ _ t2 rfl

theorem payOK_addLin (g : LGraph) (src tgt : Column) (tp : DS × String) (h : PayOK g) (hs : colOK src) (ht : colOK tgt) :
    PayOK (addLin g src tgt tp) := by
  unfold addLin
  have hS : ∀ c, (some (Payload.col src)) = some (.col c) → colOK c := by
    intro c hc; cases hc; exact hs
  have hT : ∀ c, (some (Payload.col tgt)) = some (.col c) → colOK c := by
    intro c hc; cases hc; exact ht
  have hN : ∀ (x : String) c, (some (Payload.sub x)) = some (.col c) → colOK c := by
    intro x c hc; cases hc
  have t1 := payOK_addEdge g src.key tgt.key .lineage none (some (.col src)) (some (.col tgt)) h hS hT
  have t2 := payOK_addEdge _ (.ds tp.1) tgt.key .hasColumn none (some (.sub tp.2)) (some (.col tgt)) t1 (hN _) hT
  cases src.parent? with
  | none => exact t2
  | some sp => exact payOK_addEdge _ _ _ _ _ _ _ t2 (hN _) hS

theorem mem_nodes_addLin (g : LGraph) (src tgt : Column) (tp : DS × String) (n : Node)
    (h : n ∈ (addLin g src tgt tp).nodes) : n ∈ g.nodes ∨ n = src.key ∨ n = tgt.key ∨ n.isCol = false := by
  unfold addLin at h
  cases hp : src.parent? with
  | none =>
    rw [hp] at h
    simp only [mem_nodes_addEdge] at h
    rcases h with ((h | h | h) | h | h)
    · exact Or.inl h
    · exact Or.inr (Or.inl h)
    · exact Or.inr (Or.inr (Or.inl h))
    · exact Or.inr (Or.inr (Or.inr (by rw [h]; rfl)))
    · exact Or.inr (Or.inr (Or.inl h))
  | some sp =>
    rw [hp] at h
    simp only [mem_nodes_addEdge] at h
    rcases h with (((h | h | h) | h | h) | h | h)
    · exact Or.inl h
    · exact Or.inr (Or.inl h)
    · exact Or.inr (Or.inr (Or.inl h))
    · exact Or.inr (Or.inr (Or.inr (by rw [h]; rfl)))
    · exact Or.inr (Or.inr (Or.inl h))
    · exact Or.inr (Or.inr (Or.inr (by rw [h]; rfl)))
    · exact Or.inr (Or.inl h)

theorem mem_specOwners (K : List (Node × Node)) (x : Node × Node) :
    x ∈ specOwners K ↔ ∃ p ∈ K, (∃ d, colParent p.1 = some d ∧ x = (.ds d, p.1)) ∨ (∃ d, colParent p.2 = some d ∧ x = (.ds d, p.2)) := by
  unfold specOwners
  simp only [List.mem_flatMap, List.mem_append]
  constructor
  · rintro ⟨p, hp, h | h⟩
    · refine ⟨p, hp, Or.inl ?_⟩
      cases hc : colParent p.1 with
      | none => rw [hc] at h; cases h
      | some d => rw [hc] at h; simp only [List.mem_singleton] at h; exact ⟨d, rfl, h⟩
    · refine ⟨p, hp, Or.inr ?_⟩
      cases hc : colParent p.2 with
      | none => rw [hc] at h; cases h
      | some d => rw [hc] at h; simp only [List.mem_singleton] at h; exact ⟨d, rfl, h⟩
  · rintro ⟨p, hp, ⟨d, hd, hx⟩ | ⟨d, hd, hx⟩⟩
    · exact ⟨p, hp, Or.inl (by rw [hd]; simp [hx])⟩
    · exact ⟨p, hp, Or.inr (by rw [hd]; simp [hx])⟩

/-- the holder `g` is the holder `g1` (after the reads) plus exactly the column pairs `K`: LINEAGE edges `K`, HAS_COLUMN edges
    those of `g1` and those from the owners recorded in the keys, every edge typed by its endpoints, nothing else touched -/
structure Wired (g1 g : LGraph) (K : List (Node × Node)) : Prop where
  frame : Frame g1 g
  lin : ∀ u v, u.isCol = true → ((u, v) ∈ g.edges ↔ (u, v) ∈ K)
  own : ∀ u v, u.isCol = false → v.isCol = true → ((u, v) ∈ g.edges ↔ (u, v) ∈ g1.edges ∨ (u, v) ∈ specOwners K)
  ty : Typed g
  pay : PayOK g
  cnodes : ∀ n, n.isCol = true → n ∈ g.nodes → n ∈ g1.nodes ∨ ∃ p ∈ K, n = p.1 ∨ n = p.2
  ewf : Paths.WF g
  tg : ∀ n t, g.tag n t = g1.tag n t

theorem wf_addLin (g : LGraph) (src tgt : Column) (tp : DS × String) (h : Paths.WF g) : Paths.WF (addLin g src tgt tp) := by
  unfold addLin
  have t1 := Paths.wf_addEdge g src.key tgt.key .lineage none (some (.col src)) (some (.col tgt)) h
  have t2 := Paths.wf_addEdge _ (.ds tp.1) tgt.key .hasColumn none (some (.sub tp.2)) (some (.col tgt)) t1
  cases src.parent? with
  | none => exact t2
  | some sp => exact Paths.wf_addEdge _ _ _ _ _ _ _ t2

theorem tag_addLin (g : LGraph) (src tgt : Column) (tp : DS × String) (n : Node) (t : Tag) :
    (addLin g src tgt tp).tag n t = g.tag n t := by
  unfold addLin
  cases src.parent? with
  | none => simp only [tag_addEdge]
  | some sp => simp only [tag_addEdge]

theorem Wired.base {g1 : LGraph} {tabs : List DObj} {T : DS} (h : ReadBase g1 tabs T) : Wired g1 g1 [] := by
  refine ⟨Frame.refl g1, ?_, ?_, h.ty, h.pay, fun n _ hn => Or.inl hn, h.wf.edges, fun _ _ => rfl⟩
  · intro u v hu
    constructor
    · intro he
      rw [h.noColSrc u v he] at hu; cases hu
    · intro he; cases he
  · intro u v _ _
    simp [specOwners]

theorem Wired.congr {g1 g : LGraph} {K K' : List (Node × Node)} (h : Wired g1 g K) (hk : ∀ x, x ∈ K ↔ x ∈ K') :
    Wired g1 g K' := by
  refine ⟨h.frame, fun u v hu => (h.lin u v hu).trans (hk _), fun u v hu hv => (h.own u v hu hv).trans ?_, h.ty, h.pay,
    fun n hn hm => (h.cnodes n hn hm).imp id (fun ⟨p, hp, x⟩ => ⟨p, (hk p).mp hp, x⟩), h.ewf, h.tg⟩
  rw [mem_specOwners, mem_specOwners]
  constructor
  · rintro (h1 | ⟨p, hp, x⟩)
    · exact Or.inl h1
    · exact Or.inr ⟨p, (hk p).mp hp, x⟩
  · rintro (h1 | ⟨p, hp, x⟩)
    · exact Or.inl h1
    · exact Or.inr ⟨p, (hk p).mpr hp, x⟩

theorem Wired.step {g1 g : LGraph} {K : List (Node × Node)} (h : Wired g1 g K) (src tgt : Column) (tp : DS × String)
    (htp : tgt.parent? = some tp) (hs : colOK src) (ht : colOK tgt) :
    Wired g1 (addLin g src tgt tp) (K ++ [(src.key, tgt.key)]) := by
  refine ⟨h.frame.trans (frame_addLin g src tgt tp), ?_, ?_, typed_addLin g src tgt tp h.ty,
    payOK_addLin g src tgt tp h.pay hs ht, ?_, wf_addLin g src tgt tp h.ewf,
    fun n t => (tag_addLin g src tgt tp n t).trans (h.tg n t)⟩
  rotate_left 2
  · intro n hn hm
    rcases mem_nodes_addLin g src tgt tp n hm with h1 | h1 | h1 | h1
    · exact (h.cnodes n hn h1).imp id (fun ⟨p, hp, x⟩ => ⟨p, List.mem_append.mpr (Or.inl hp), x⟩)
    · exact Or.inr ⟨(src.key, tgt.key), by simp, Or.inl h1⟩
    · exact Or.inr ⟨(src.key, tgt.key), by simp, Or.inr h1⟩
    · rw [h1] at hn; cases hn
  · intro u v hu
    rw [mem_edges_addLin, h.lin u v hu, List.mem_append, List.mem_singleton]
    constructor
    · rintro (h1 | h1 | h1 | ⟨sp, _, h1⟩)
      · exact Or.inl h1
      · exact Or.inr h1
      · have : u = .ds tp.1 := congrArg Prod.fst h1
        rw [this] at hu; cases hu
      · have : u = .ds sp.1 := congrArg Prod.fst h1
        rw [this] at hu; cases hu
    · rintro (h1 | h1)
      · exact Or.inl h1
      · exact Or.inr (Or.inl h1)
  · intro u v hu hv
    rw [mem_edges_addLin, h.own u v hu hv, mem_specOwners, mem_specOwners]
    have hct : colParent tgt.key = some tp.1 := by rw [colParent_key, htp]; rfl
    constructor
    · rintro ((h0 | ⟨p, hp, x⟩) | h1 | h1 | ⟨sp, hsp, h1⟩)
      · exact Or.inl h0
      · exact Or.inr ⟨p, List.mem_append.mpr (Or.inl hp), x⟩
      · have : u = src.key := congrArg Prod.fst h1
        rw [this, key_isCol] at hu; cases hu
      · exact Or.inr ⟨(src.key, tgt.key), by simp, Or.inr ⟨tp.1, hct, h1⟩⟩
      · refine Or.inr ⟨(src.key, tgt.key), by simp, Or.inl ⟨sp.1, ?_, h1⟩⟩
        rw [colParent_key, hsp]; rfl
    · rintro (h0 | ⟨p, hp, x⟩)
      · exact Or.inl (Or.inl h0)
      · rcases List.mem_append.mp hp with hp | hp
        · exact Or.inl (Or.inr ⟨p, hp, x⟩)
        · simp only [List.mem_singleton] at hp
          subst hp
          rcases x with ⟨d, hd, hx⟩ | ⟨d, hd, hx⟩
          · simp only at hd hx
            rw [colParent_key] at hd
            cases hsp : src.parent? with
            | none => rw [hsp] at hd; cases hd
            | some sp =>
              rw [hsp] at hd
              simp only [Option.map_some, Option.some.injEq] at hd
              exact Or.inr (Or.inr (Or.inr ⟨sp, rfl, by rw [hx, hd]⟩))
          · simp only at hd hx
            rw [hct] at hd
            exact Or.inr (Or.inr (Or.inl (by rw [hx, ← Option.some.inj hd])))

/-- the inner loop of `end_of_query_cleanup` for one select item: every source column is wired to the item's column -/
theorem wired_inner {g1 : LGraph} (tgt : Column) (tp : DS × String) (htp : tgt.parent? = some tp) (ht : colOK tgt) :
    ∀ (srcs : List Column) (g : LGraph) (K : List (Node × Node)), Wired g1 g K → (∀ s ∈ srcs, colOK s) →
      ∃ g', srcs.foldlM (fun g s => addColumnLineage g s tgt) g = .ok g' ∧
        Wired g1 g' (K ++ srcs.map (fun s => (s.key, tgt.key)))
  | [], g, K, h, _ => ⟨g, rfl, by simpa using h⟩
  | s :: r, g, K, h, hs => by
    have h1 := h.step s tgt tp htp (hs s (by simp)) ht
    obtain ⟨g', hg', hw⟩ := wired_inner tgt tp htp ht r _ _ h1 (fun x hx => hs x (by simp [hx]))
    refine ⟨g', ?_, by simpa using hw⟩
    simp only [List.foldlM_cons, bind, Except.bind, addColumnLineage_eq g s tgt tp htp]
    exact hg'


/-! ### the number of write columns stays below the number of select items

`cleanupItem` wires an item to `write_columns[idx]` only when the target already has as many columns as the group has items.
Without column list / provider the target gains at most one column per item, so this never happens. -/

theorem outT_addLin (g : LGraph) (src tgt : Column) (tp : DS × String) (T : DS) (hT : tp.1 = T)
    (hs : ∀ sp, src.parent? = some sp → sp.1 ≠ T) :
    (addLin g src tgt tp).outEdges (.ds T) =
      if tgt.key ∈ g.outEdges (.ds T) then g.outEdges (.ds T) else g.outEdges (.ds T) ++ [tgt.key] := by
  have e1 : (g.addEdge src.key tgt.key .lineage none (some (.col src)) (some (.col tgt))).outEdges (.ds T) =
      g.outEdges (.ds T) := by
    rw [outEdges_addEdge, if_neg]
    rintro ⟨h, _⟩; cases h
  have e2 : ((g.addEdge src.key tgt.key .lineage none (some (.col src)) (some (.col tgt))).addEdge (.ds tp.1) tgt.key
      .hasColumn none (some (.sub tp.2)) (some (.col tgt))).outEdges (.ds T) =
      if tgt.key ∈ g.outEdges (.ds T) then g.outEdges (.ds T) else g.outEdges (.ds T) ++ [tgt.key] := by
    rw [outEdges_addEdge, hT, e1]
    by_cases hm : tgt.key ∈ g.outEdges (.ds T)
    · simp [hm]
    · simp [hm]
  unfold addLin
  cases hp : src.parent? with
  | none => exact e2
  | some sp =>
    simp only
    rw [outEdges_addEdge, if_neg, e2]
    rintro ⟨h, _⟩
    exact hs sp hp (Node.ds.inj h).symm

theorem outT_inner (tgt : Column) (tp : DS × String) (htp : tgt.parent? = some tp) (T : DS) (hT : tp.1 = T) :
    ∀ (srcs : List Column) (g g' : LGraph), (∀ s ∈ srcs, ∀ sp, s.parent? = some sp → sp.1 ≠ T) →
      srcs.foldlM (fun g s => addColumnLineage g s tgt) g = .ok g' →
      (tgt.key ∈ g.outEdges (.ds T) → g'.outEdges (.ds T) = g.outEdges (.ds T)) ∧
      (g'.outEdges (.ds T)).length ≤ (g.outEdges (.ds T)).length + 1
  | [], g, g', _, h => by
    simp only [List.foldlM_nil, pure, Except.pure] at h
    cases h
    exact ⟨fun _ => rfl, Nat.le_succ _⟩
  | s :: r, g, g', hs, h => by
    simp only [List.foldlM_cons, bind, Except.bind, addColumnLineage_eq g s tgt tp htp] at h
    have ih := outT_inner tgt tp htp T hT r _ g' (fun x hx => hs x (by simp [hx])) h
    have e := outT_addLin g s tgt tp T hT (hs s (by simp))
    by_cases hm : tgt.key ∈ g.outEdges (.ds T)
    · rw [if_pos hm] at e
      have := ih.1 (by rw [e]; exact hm)
      rw [e] at this
      exact ⟨fun _ => this, by rw [this]; exact Nat.le_succ _⟩
    · rw [if_neg hm] at e
      have := ih.1 (by rw [e]; simp)
      rw [e] at this
      exact ⟨fun x => absurd x hm, by rw [this]; simp⟩

theorem length_insertByIdx (x : Node × Nat) : ∀ acc, (insertByIdx x acc).length = acc.length + 1
  | [] => rfl
  | y :: r => by
    simp only [insertByIdx]
    split
    · rfl
    · simp [length_insertByIdx x r]

theorem length_sortByIdx (l : List (Node × Nat)) : (sortByIdx l).length = l.length := by
  have gen : ∀ (l acc : List (Node × Nat)), (l.foldl (fun acc x => insertByIdx x acc) acc).length = acc.length + l.length := by
    intro l
    induction l with
    | nil => intro acc; rfl
    | cons x r ih =>
      intro acc
      simp only [List.foldl_cons, ih, length_insertByIdx, List.length_cons]
      omega
  simpa [sortByIdx] using gen l []

theorem length_writeColumns_le (g : LGraph) (T : DS) (h : targetTable? g = some T) :
    (writeColumns g).length ≤ (g.outEdges (.ds T)).length := by
  unfold writeColumns
  rw [h]
  simp only [List.length_map, length_sortByIdx]
  exact List.length_filter_le _ _

theorem targetTable_of (g : LGraph) (T : DS) (hw : writeSet g = [T]) (hr : T ∉ readSet g) : targetTable? g = some T := by
  unfold targetTable?
  rw [hw]
  simp [hr]

/-- one select item: its sources (as the fragment resolves them) are wired to the item's OWN column of the target -/
theorem cleanupItem_wired {g1 g : LGraph} {K : List (Node × Node)} (imp : String) (T : DS) (Tp : String) (n : Nat)
    (tabs : List DObj) (c : ColSpec) (idx k : Nat) (srcs : List Column) (h : Wired g1 g K)
    (hsrc : toSourceColumns imp (aliasMapping g tabs) c k = srcs) (hok : ∀ s ∈ srcs, colOK s)
    (hlen : (writeColumns g).length < n) (hTs : T.isSubq = false) :
    ∃ g', cleanupItem imp (T, Tp) n tabs g (c, idx) k = .ok g' ∧
      srcs.foldlM (fun g s => addColumnLineage g s (Column.mk1 c.raw (some (T, Tp)))) g = .ok g' ∧
      Wired g1 g' (K ++ srcs.map (fun s => (s.key, (Column.mk1 c.raw (some (T, Tp))).key))) := by
  have hne : ((writeColumns g).length == n) = false := by
    simp only [beq_eq_false_iff_ne]; omega
  have hown : colOK (Column.mk1 c.raw (some (T, Tp))) := by
    intro p hp
    simp only [Column.mk1, List.mem_singleton] at hp
    rw [hp]; exact hTs
  obtain ⟨g', hg', hw⟩ := wired_inner (g1 := g1) (Column.mk1 c.raw (some (T, Tp))) (T, Tp) rfl hown srcs g K h hok
  refine ⟨g', ?_, hg', hw⟩
  unfold cleanupItem
  simp only [hsrc, hne, Bool.false_eq_true, if_false]
  cases srcs with
  | nil =>
    simp only [List.foldlM_nil, pure, Except.pure] at hg'
    simp only [List.isEmpty_nil, if_true]
    exact hg'
  | cons s r =>
    simp only [List.isEmpty_cons, Bool.false_eq_true, if_false]
    exact hg'


/-- the pairs the group `cols` contributes when the sources of item `c` have the keys `KEYS c` -/
def keyPairs (KEYS : ColSpec → List Node) (tp : DS × String) (cols : List ColSpec) : List (Node × Node) :=
  cols.flatMap (fun c => (KEYS c).map (fun x => (x, (Column.mk1 c.raw (some tp)).key)))

theorem writeColumns_nil_of (g : LGraph) (h : targetTable? g = none) : writeColumns g = [] := by
  unfold writeColumns; rw [h]

/-- the loop over the select items of `end_of_query_cleanup`, from item `j` on.  Two ways the target stays short of `n`
    write columns: it is read as well (then `write_columns` is empty), or no source column belongs to it (then it gains at
    most one column per item). -/
theorem cleanupFold_wired {g1 : LGraph} (imp : String) (s nm : String) (n : Nat) (tabs : List DObj) (k : Nat)
    (KEYS : ColSpec → List Node) (hws : writeSet g1 = [.table s nm]) :
    ∀ (rest : List ColSpec) (j : Nat) (g : LGraph) (K : List (Node × Node)), Wired g1 g K →
      (DS.table s nm ∉ readSet g1 → (g.outEdges (.ds (.table s nm))).length ≤ j) → j + rest.length ≤ n →
      (∀ c ∈ rest, ∀ g, Frame g1 g →
        (∀ x, x ∈ (toSourceColumns imp (aliasMapping g tabs) c k).map (·.key) ↔ x ∈ KEYS c) ∧
        (∀ y ∈ toSourceColumns imp (aliasMapping g tabs) c k,
          colOK y ∧ (DS.table s nm ∉ readSet g1 → ∀ sp, y.parent? = some sp → sp.1 ≠ .table s nm))) →
      ∃ g', (rest.zipIdx j).foldlM
          (fun g ci => cleanupItem imp (.table s nm, printedDS g (.table s nm)) n tabs g ci k) g = .ok g' ∧
        Wired g1 g' (K ++ keyPairs KEYS (.table s nm, s ++ "." ++ nm) rest)
  | [], j, g, K, h, _, _, _ => ⟨g, rfl, by simpa [keyPairs] using h⟩
  | c :: r, j, g, K, h, hL, hn, hsrc => by
    have hw : writeSet g = [.table s nm] := by unfold writeSet; rw [tagSet_eq_of_frame h.frame]; exact hws
    have hrd : readSet g = readSet g1 := by unfold readSet; rw [tagSet_eq_of_frame h.frame]
    have hn' : j + 1 + r.length ≤ n := by simp only [List.length_cons] at hn; omega
    obtain ⟨hkeys, hys⟩ := hsrc c (by simp) g h.frame
    have hlen : (writeColumns g).length < n := by
      by_cases hr : DS.table s nm ∈ readSet g1
      · have htt : targetTable? g = none := by
          unfold targetTable?
          rw [hw, hrd]
          simp [hr]
        rw [writeColumns_nil_of g htt]
        simp only [List.length_nil]; omega
      · have htt := targetTable_of g _ hw (by rw [hrd]; exact hr)
        have := length_writeColumns_le g _ htt
        have := hL hr
        omega
    obtain ⟨g', hg', hfold, hw'⟩ := cleanupItem_wired imp (.table s nm) (s ++ "." ++ nm) n tabs c j k _ h rfl
      (fun y hy => (hys y hy).1) hlen rfl
    have hL' : DS.table s nm ∉ readSet g1 → (g'.outEdges (.ds (.table s nm))).length ≤ j + 1 := by
      intro hr
      have := (outT_inner (Column.mk1 c.raw (some (.table s nm, s ++ "." ++ nm))) (.table s nm, s ++ "." ++ nm) rfl
        (.table s nm) rfl _ g g' (fun y hy => (hys y hy).2 hr) hfold).2
      have := hL hr
      omega
    obtain ⟨g'', hg'', hw''⟩ := cleanupFold_wired imp s nm n tabs k KEYS hws r (j + 1) g' _ hw' hL' hn'
      (fun c' hc' => hsrc c' (by simp [hc']))
    refine ⟨g'', ?_, hw''.congr ?_⟩
    · simp only [List.zipIdx_cons, List.foldlM_cons, bind, Except.bind]
      have : cleanupItem imp (.table s nm, printedDS g (.table s nm)) n tabs g (c, j) k = .ok g' := hg'
      rw [this]
      exact hg''
    · intro x
      simp only [keyPairs, List.flatMap_cons, List.mem_append, List.mem_map]
      constructor
      · rintro ((h1 | ⟨y, hy, rfl⟩) | h1)
        · exact Or.inl h1
        · exact Or.inr (Or.inl ⟨y.key, (hkeys _).mp (List.mem_map.mpr ⟨y, hy, rfl⟩), rfl⟩)
        · exact Or.inr (Or.inr h1)
      · rintro (h1 | ⟨a, ha, rfl⟩ | h1)
        · exact Or.inl (Or.inl h1)
        · obtain ⟨y, hy, hyk⟩ := List.mem_map.mp ((hkeys a).mpr ha)
          exact Or.inl (Or.inr ⟨y, hy, by rw [hyk]⟩)
        · exact Or.inr h1

theorem slice_full {α : Type} (l : List α) : slice l 0 l.length = l := by simp [slice]

/-- `end_of_query_cleanup` of ONE select block whose holder `g` gives `ReadBase` after the reads -/
theorem endOfQueryCleanup_wired (imp : String) (g : LGraph) (s nm : String) (tabs : List DObj) (cols : List ColSpec) (k : Nat)
    (KEYS : ColSpec → List Node)
    (hb : ReadBase (tabs.foldl addReadO g) tabs (.table s nm))
    (hout : (∀ o ∈ tabs, o.d ≠ .table s nm) → (tabs.foldl addReadO g).outEdges (.ds (.table s nm)) = [])
    (hsrc : ∀ c ∈ cols, ∀ g', Frame (tabs.foldl addReadO g) g' →
      (∀ x, x ∈ (toSourceColumns imp (aliasMapping g' tabs) c k).map (·.key) ↔ x ∈ KEYS c) ∧
      (∀ y ∈ toSourceColumns imp (aliasMapping g' tabs) c k,
        colOK y ∧ ((∀ o ∈ tabs, o.d ≠ .table s nm) → ∀ sp, y.parent? = some sp → sp.1 ≠ .table s nm))) :
    ∃ g2, endOfQueryCleanup imp g tabs cols [] k = .ok g2 ∧
      Wired (tabs.foldl addReadO g) g2 (keyPairs KEYS (.table s nm, s ++ "." ++ nm) cols) := by
  have hnr : DS.table s nm ∉ readSet (tabs.foldl addReadO g) → ∀ o ∈ tabs, o.d ≠ .table s nm :=
    fun hr o ho hd => hr (hb.isRead o ho hd)
  obtain ⟨g2, hg2, hw⟩ := cleanupFold_wired imp s nm cols.length tabs k KEYS hb.writeSet cols 0
    (tabs.foldl addReadO g) [] (Wired.base hb) (fun hr => by rw [hout (hnr hr)]; simp) (by simp)
    (fun c hc g' hf => ⟨(hsrc c hc g' hf).1, fun y hy => ⟨((hsrc c hc g' hf).2 y hy).1,
      fun hr => ((hsrc c hc g' hf).2 y hy).2 (hnr hr)⟩⟩)
  refine ⟨g2, ?_, by simpa using hw⟩
  unfold endOfQueryCleanup
  simp only [List.nil_append, endOfQueryCleanup.go, slice_full]
  unfold cleanupGroup
  rw [hb.writeSet]
  simp only
  rw [hg2]

/-! ## 6. `expand_wildcard` without a metadata provider -/

theorem foldl_fixed {α β : Type} (f : β → α → β) (b : β) : ∀ (l : List α), (∀ x ∈ l, f b x = b) → l.foldl f b = b
  | [], _ => rfl
  | x :: r, h => by
    simp only [List.foldl_cons]
    rw [h x (by simp)]
    exact foldl_fixed f b r (fun y hy => h y (by simp [hy]))

/-- with no provider and no subquery among the owners of the holder's columns there is nothing a `*` could expand to -/
theorem expandWildcard_id (p : ProvView) (g : LGraph) (hp : p.truthy = false) (hpay : PayOK g) : expandWildcard p g = g := by
  unfold expandWildcard
  split
  · rfl
  · apply foldl_fixed
    intro wn _
    split
    · split
      · apply foldl_fixed
        intro sw hsw
        have hsw' : ∃ n, g.payload n = some (.col sw) := by
          unfold getSourceColumns at hsw
          obtain ⟨n, _, hn⟩ := List.mem_filterMap.mp hsw
          refine ⟨n, ?_⟩
          unfold colOf at hn
          split at hn
          · rename_i c hc; cases hn; exact hc
          · cases hn
        obtain ⟨n, hn⟩ := hsw'
        have hc := hpay n sw hn
        split
        · rename_i sp hsp
          have hmem : sp ∈ sw.parents := by
            unfold Column.parent? at hsp
            split at hsp
            · cases hsp; simp_all
            · cases hsp
          have hnot := hc sp hmem
          obtain ⟨d, pr⟩ := sp
          cases d with
          | subq _ => cases hnot
          | table _ _ => simp [hp]
          | path _ => simp
        · rfl
      · rfl
    · rfl


/-! ## 7. the walk on the fragment -/

theorem cdJoins_tab (env : Env) (g : LGraph) (hc : cteObjs g = []) : ∀ js : List Join, js.all joinOK = true →
    cdJoins env g js = joinTabs env js
  | [], _ => by simp only [cdJoins, joinTabs]
  | .mk kd e on us :: r, h => by
    simp only [List.all_cons, Bool.and_eq_true, joinOK] at h
    have ih := cdJoins_tab env g hc r h.2
    cases e with
    | derived _ _ _ => simp [tabElem] at h
    | table parts alias ak =>
      cases on with
      | none => simp only [cdJoins, joinTabs, elemTabs, datasetOfElem_table env g hc, cdElem, ih, List.append_nil]
      | some c =>
        have hon : cdExpr env g c = [] := cdExpr_noSub env g c (by simpa [noSubOpt] using h.1.2)
        simp only [cdJoins, joinTabs, elemTabs, datasetOfElem_table env g hc, cdElem, hon, ih, List.append_nil]

theorem perFe_tab (env : Env) (g : LGraph) (hc : cteObjs g = []) (fe : FromExpr) (h : feOK fe = true) :
    perFe env g fe = feTabs env fe := by
  cases fe with
  | mk base js =>
    simp only [feOK, Bool.and_eq_true] at h
    cases base with
    | derived _ _ _ => simp [tabElem] at h
    | table parts alias ak =>
      simp only [perFe, feTabs, elemTabs, datasetOfElem_table env g hc]
      cases js with
      | nil => simp [joinTabs]
      | cons j r =>
        simp only [List.isEmpty_cons, Bool.false_eq_true, if_false, cdFromExpr, cdElem, List.nil_append]
        rw [cdJoins_tab env g hc _ h.2]

theorem tablesOfFrom_tab (env : Env) (g : LGraph) (hc : cteObjs g = []) (frm : List FromExpr) (h : frm.all feOK = true) :
    tablesOfFrom env g frm = fromTabs env frm := by
  rw [tablesOfFrom_eq]
  unfold fromTabs
  induction frm with
  | nil => rfl
  | cons fe r ih =>
    simp only [List.all_cons, Bool.and_eq_true] at h
    simp only [List.flatMap_cons, perFe_tab env g hc fe h.1, ih h.2]

theorem fromTabs_isTabRef (env : Env) (frm : List FromExpr) : ∀ o ∈ fromTabs env frm, isTabRef o = true := by
  have hE : ∀ e, ∀ o ∈ elemTabs env e, isTabRef o = true := by
    intro e o ho
    cases e with
    | derived _ _ _ => simp [elemTabs] at ho
    | table parts alias ak =>
      simp only [elemTabs, List.mem_singleton] at ho
      rw [ho]; rfl
  have hJ : ∀ js, ∀ o ∈ joinTabs env js, isTabRef o = true := by
    intro js
    induction js with
    | nil => intro o ho; simp [joinTabs] at ho
    | cons j r ih =>
      intro o ho
      cases j with
      | mk kd e on us =>
        simp only [joinTabs, List.mem_append] at ho
        rcases ho with ho | ho
        · exact hE e o ho
        · exact ih o ho
  intro o ho
  unfold fromTabs at ho
  obtain ⟨fe, _, hfe⟩ := List.mem_flatMap.mp ho
  cases fe with
  | mk base js =>
    simp only [feTabs, List.mem_append] at hfe
    rcases hfe with h | h
    · exact hE base o h
    · exact hJ js o h

theorem cjJoins_tab (env : Env) (g : LGraph) : ∀ js : List Join, js.all joinOK = true → cjJoins env js g = .ok g
  | [], _ => by simp only [cjJoins]
  | .mk kd e on us :: r, h => by
    simp only [List.all_cons, Bool.and_eq_true, joinOK] at h
    cases e with
    | derived _ _ _ => simp [tabElem] at h
    | table parts alias ak =>
      simp only [cjJoins, sqElem, cjElem, cjOptExpr_noSub env g on h.1.2, cjJoins_tab env g r h.2]

theorem sqFrom_tab (env : Env) (multi : Bool) (g : LGraph) : ∀ frm : List FromExpr, frm.all feOK = true →
    sqFrom env multi frm g = .ok g
  | [], _ => by simp only [sqFrom]
  | .mk base js :: r, h => by
    simp only [List.all_cons, Bool.and_eq_true, feOK] at h
    cases base with
    | derived _ _ _ => simp [tabElem] at h
    | table parts alias ak =>
      simp only [sqFrom, sqElem, cjElem, cjJoins_tab env g js h.1.2, ite_self, sqFrom_tab env multi g r h.2]

theorem sqWhere_noSub (env : Env) (g : LGraph) (wh : Option Expr) (h : noSubOpt wh = true) : sqWhere env wh g = .ok g := by
  cases wh with
  | none => simp only [sqWhere]
  | some e => simp only [sqWhere]; exact sqDirect_true_noSub env none g e (by simpa [noSubOpt] using h)

/-- the select extractor on one block without subqueries over base tables: cleanup and wildcard expansion on the initial
    holder, nothing else -/
theorem exQuery_tab (env : Env) (ctx : Ctx) (d : Bool) (its : List Item) (frm : List FromExpr) (wh : Option Expr)
    (grp : List Expr) (hav : Option Expr) (hi : noSubI its = true) (hf : frm.all feOK = true) (hw : noSubOpt wh = true) :
    exQuery env ctx (.select d its frm wh grp hav) = finishBranches env (initHolder ctx) [(its, frm)] := by
  simp only [exQuery, sqItems_noSub env its _ hi, sqFrom_tab env _ _ frm hf, sqWhere_noSub env _ wh hw]

theorem finishBranches_single (env : Env) (g : LGraph) (its : List Item) (frm : List FromExpr) :
    finishBranches env g [(its, frm)] =
      (match endOfQueryCleanup env.importDefault g (tablesOfFrom env g frm) (its.map (colSpecOf env)) [] env.revStar with
        | .ok g' => .ok (expandWildcard env.prov g')
        | .error e => .error e) := rfl

/-- the holder the select extractor starts from is the target holder itself -/
theorem initHolder_ctxOf_g0 (s nm : String) (al : Option String) :
    initHolder (ctxOf (g0 ⟨.table s nm, al⟩)) = g0 ⟨.table s nm, al⟩ := by
  show initHolder (ctxOf (g0 ⟨.table s nm, some nm⟩)) = g0 ⟨.table s nm, some nm⟩
  have hW := WriteCols.WInv.base (g0 ⟨.table s nm, some nm⟩) (.table s nm) 0 (g0_nodes _) (g0_edges _)
  have hwr : (g0 ⟨.table s nm, some nm⟩).tag (.ds (.table s nm)) .write = some true := by rw [g0_tag]; simp
  have hrd : (g0 ⟨.table s nm, some nm⟩).tag (.ds (.table s nm)) .read ≠ some true := by rw [g0_tag]; simp
  have hcte : cteObjs (g0 ⟨.table s nm, some nm⟩) = [] := by
    apply cteObjs_nil
    intro d; rw [g0_tag]; simp
  have hwc : writeColObjs (g0 ⟨.table s nm, some nm⟩) = [] := hW.writeColObjs hwr hrd
  have hwo : writeObjs (g0 ⟨.table s nm, some nm⟩) = [⟨.table s nm, some nm⟩] := by
    unfold writeObjs objsOf
    rw [hW.tagSet .write, hwr]
    rfl
  unfold ctxOf initHolder
  rw [hcte, hwo, hwc]
  rfl


/-! ### assembling the statement -/

theorem colSpecOf_srcs (env : Env) (e : Expr) (alias : Option String) (k : Bool) :
    (colSpecOf env (.mk e alias k)).srcs = (refs e).map normRef := by
  cases alias with
  | some a => simp [colSpecOf, ColSpec.of, normRef]
  | none =>
    by_cases h : (refs e).isEmpty = true
    · have : refs e = [] := List.isEmpty_iff.mp h
      simp [colSpecOf, ColSpec.of, this]
    · simp only [colSpecOf, h, Bool.not_false, if_true, Bool.false_eq_true, if_false, Bool.not_eq_true]
      cases e <;> simp [ColSpec.of, normRef]

/-- the keys of the source columns of a column spec, by the specification -/
def KEYSof (imp : String) (tabs : List DObj) (c : ColSpec) : List Node := c.srcs.flatMap (srcKeys imp tabs)

theorem srcKeys_isCol (imp : String) (tabs : List DObj) (r : String × Option String) :
    ∀ x ∈ srcKeys imp tabs r, x.isCol = true := by
  intro x hx
  unfold srcKeys at hx
  split at hx
  · obtain ⟨d, _, rfl⟩ := List.mem_map.mp hx; rfl
  · simp only [List.mem_singleton] at hx; rw [hx]; rfl

/-- the pairs wired by the cleanup are the pairs of the specification -/
theorem keyPairs_spec (env : Env) (tgt : List String) (its : List Item) (frm : List FromExpr) (x : Node × Node) :
    x ∈ keyPairs (KEYSof env.importDefault (fromTabs env frm))
        ((mkTable env tgt none).d, (mkTable env tgt none).printed) (its.map (colSpecOf env)) ↔
      x ∈ specPairs env tgt its frm := by
  unfold keyPairs specPairs KEYSof
  simp only [List.mem_flatMap, List.mem_map]
  constructor
  · rintro ⟨c, ⟨it, hit, rfl⟩, a, ⟨r, hr, ha⟩, rfl⟩
    refine ⟨it, hit, ?_⟩
    obtain ⟨e, al, kw⟩ := it
    rw [colSpecOf_srcs] at hr
    obtain ⟨r0, hr0, rfl⟩ := List.mem_map.mp hr
    simp only [itemPairs, List.mem_flatMap, List.mem_map]
    exact ⟨r0, hr0, a, ha, rfl⟩
  · rintro ⟨it, hit, hx⟩
    obtain ⟨e, al, kw⟩ := it
    simp only [itemPairs, List.mem_flatMap, List.mem_map] at hx
    obtain ⟨r0, hr0, a, ha, rfl⟩ := hx
    refine ⟨colSpecOf env (.mk e al kw), ⟨_, hit, rfl⟩, a, ⟨normRef r0, ?_, ha⟩, rfl⟩
    rw [colSpecOf_srcs]
    exact List.mem_map.mpr ⟨r0, hr0, rfl⟩

theorem noSubI_of_items (imp : String) (tabs : List DObj) (av : Option DS) : ∀ its : List Item,
    its.all (itemOK imp tabs av) = true → noSubI its = true
  | [], _ => rfl
  | .mk e a k :: r, h => by
    simp only [List.all_cons, Bool.and_eq_true, itemOK] at h
    simp only [noSubI, Bool.and_eq_true]
    exact ⟨h.1.1, noSubI_of_items imp tabs av r h.2⟩

theorem writeTargetHolder_none (env : Env) (isInsert : Bool) (tgt : List String) (hp : env.prov.truthy = false) :
    writeTargetHolder env isInsert tgt none = g0 (mkTable env tgt none) := by
  unfold writeTargetHolder g0
  simp [hp]

theorem avoidOf_spec (tabs : List DObj) (T : DS) : ∀ T', avoidOf tabs T = some T' → ∀ o ∈ tabs, o.d ≠ T' := by
  intro T' h o ho hd
  unfold avoidOf at h
  split at h
  · cases h
  · rename_i hany
    cases h
    exact hany (List.any_eq_true.mpr ⟨o, ho, by simp [hd]⟩)

theorem avoidOf_some (tabs : List DObj) (T : DS) (h : ∀ o ∈ tabs, o.d ≠ T) : avoidOf tabs T = some T := by
  unfold avoidOf
  rw [if_neg]
  intro hany
  obtain ⟨o, ho, hd⟩ := List.any_eq_true.mp hany
  exact h o ho (by simpa using hd)

/-- **the holder of the statement**: the target holder composed with a holder `g2` that is the reads of the FROM clause plus
    exactly the specified column pairs -/
theorem exWriteQuery_wired (env : Env) (isInsert : Bool) (tgt : List String) (d : Bool) (its : List Item)
    (frm : List FromExpr) (wh : Option Expr) (grp : List Expr) (hav : Option Expr) (hp : env.prov.truthy = false)
    (hfrag : fragSelect env tgt (.select d its frm wh grp hav) = true) :
    ∃ g2, exWriteQuery env isInsert tgt none (.select d its frm wh grp hav) = .ok ((g0 (mkTable env tgt none)).compose g2) ∧
      ReadBase ((fromTabs env frm).foldl addReadO (g0 (mkTable env tgt none))) (fromTabs env frm) (mkTable env tgt none).d ∧
      (∀ u v, (u, v) ∈ ((fromTabs env frm).foldl addReadO (g0 (mkTable env tgt none))).edges ↔
        aliasPair (fromTabs env frm) u v) ∧
      Wired ((fromTabs env frm).foldl addReadO (g0 (mkTable env tgt none))) g2 (specPairs env tgt its frm) := by
  simp only [fragSelect, Bool.and_eq_true] at hfrag
  obtain ⟨⟨⟨hf, hw⟩, hU⟩, hits⟩ := hfrag
  have hTR := fromTabs_isTabRef env frm
  -- the target as a table
  obtain ⟨s, nm, al, hmk⟩ : ∃ s nm al, mkTable env tgt none = ⟨.table s nm, al⟩ := ⟨_, _, _, rfl⟩
  have hprinted : (mkTable env tgt none).printed = s ++ "." ++ nm := by rw [hmk]; rfl
  have hd : (mkTable env tgt none).d = .table s nm := by rw [hmk]
  obtain ⟨hb, hbE⟩ := readBase (mkTable env tgt none) (by rw [hd]; rfl) (fromTabs env frm) hTR
  rw [hd] at hb hits
  -- the cleanup
  have hcte : cteObjs (g0 (mkTable env tgt none)) = [] := by
    apply cteObjs_nil
    intro d'; rw [g0_tag]; simp
  have hits' : ∀ it ∈ its, itemOK env.importDefault (fromTabs env frm) (avoidOf (fromTabs env frm) (.table s nm)) it = true :=
    fun it hit => List.all_eq_true.mp hits it hit
  obtain ⟨g2, hg2, hw2⟩ := endOfQueryCleanup_wired env.importDefault (g0 (mkTable env tgt none)) s nm (fromTabs env frm)
    (its.map (colSpecOf env)) env.revStar (KEYSof env.importDefault (fromTabs env frm)) hb
    (by
      intro hself
      rw [List.eq_nil_iff_forall_not_mem]
      intro v hv
      obtain ⟨o, ho, _, _, hu, _⟩ := (hbE _ _).mp ((mem_outEdges _ _ _).mp hv)
      exact hself o ho (Node.ds.inj hu).symm)
    (by
      intro c hc g' hfr
      obtain ⟨it, hit, rfl⟩ := List.mem_map.mp hc
      have hk := toSourceColumns_keys env.importDefault g' (fromTabs env frm) (colSpecOf env it) env.revStar hTR
        (aliasOK_frame hfr hb.alias) hU (avoidOf (fromTabs env frm) (.table s nm)) (avoidOf_spec _ _)
        (by
          intro r hr
          obtain ⟨e, a, kw⟩ := it
          rw [colSpecOf_srcs] at hr
          obtain ⟨r0, hr0, rfl⟩ := List.mem_map.mp hr
          have := hits' _ hit
          simp only [itemOK, Bool.and_eq_true, List.all_eq_true] at this
          exact this.2 r0 hr0)
      exact ⟨hk.1, fun y hy => ⟨(hk.2 y hy).1, fun hself => (hk.2 y hy).2 _ (avoidOf_some _ _ hself)⟩⟩)
  refine ⟨g2, ?_, by rw [hd]; exact hb, hbE, ?_⟩
  · rw [exWriteQuery_eq]
    unfold wq0
    rw [writeTargetHolder_none env isInsert tgt hp,
      exQuery_tab env _ d its frm wh grp hav (noSubI_of_items _ _ _ its hits) hf hw]
    have hinit : initHolder (ctxOf (g0 (mkTable env tgt none))) = g0 (mkTable env tgt none) := by
      rw [hmk]; exact initHolder_ctxOf_g0 s nm al
    rw [hinit, finishBranches_single, tablesOfFrom_tab env _ hcte frm hf, hg2]
    simp only
    rw [expandWildcard_id env.prov g2 hp hw2.pay]
  · apply hw2.congr
    intro x
    have := keyPairs_spec env tgt its frm x
    rw [hd, hprinted] at this
    exact this

/-! ### reading the result -/

theorem kind_lineage_iff (u v : Node) : kind u v = .lineage ↔ u.isCol = true := by
  unfold kind
  by_cases hu : u.isCol = true
  · simp [hu]
  · by_cases hv : v.isCol = true <;> simp [hu, hv]

theorem kind_hasColumn_iff (u v : Node) : kind u v = .hasColumn ↔ u.isCol = false ∧ v.isCol = true := by
  unfold kind
  by_cases hu : u.isCol = true
  · simp [hu]
  · by_cases hv : v.isCol = true <;> simp [hu, hv]

theorem kind_hasAlias_iff (u v : Node) : kind u v = .hasAlias ↔ u.isCol = false ∧ v.isCol = false := by
  unfold kind
  by_cases hu : u.isCol = true
  · simp [hu]
  · by_cases hv : v.isCol = true <;> simp [hu, hv]

theorem isCol_of_colParent (v : Node) (d : DS) (h : colParent v = some d) : v.isCol = true := by
  cases v <;> simp_all [colParent, Node.isCol]

/-- every edge of the statement holder, by type (`O0`: the HAS_COLUMN edges of an explicit column list) -/
structure EdgesExact (g : LGraph) (K : List (Node × Node)) (tabs : List DObj) (O0 : List (Node × Node)) : Prop where
  lineage : ∀ u v, ((u, v) ∈ g.edges ∧ g.ety u v = some .lineage) ↔ (u, v) ∈ K
  hasColumn : ∀ u v, ((u, v) ∈ g.edges ∧ g.ety u v = some .hasColumn) ↔ (u, v) ∈ O0 ∨ (u, v) ∈ specOwners K
  hasAlias : ∀ u v, ((u, v) ∈ g.edges ∧ g.ety u v = some .hasAlias) ↔ aliasPair tabs u v
  noRename : ∀ u v, (u, v) ∈ g.edges → g.ety u v ≠ some .rename
  wf : Paths.WF g

theorem edgesExact_of_wired {g1 g2 : LGraph} {K : List (Node × Node)} {tabs : List DObj} {T : DS} {O0 : List (Node × Node)}
    (hb : ReadBase g1 tabs T) (hw : Wired g1 g2 K) (hK : ∀ p ∈ K, p.1.isCol = true)
    (hA : ∀ u v, (u, v) ∈ g1.edges ↔ (u, v) ∈ O0 ∨ aliasPair tabs u v)
    (hO : ∀ p ∈ O0, p.1.isCol = false ∧ p.2.isCol = true) : EdgesExact g2 K tabs O0 := by
  have halias : ∀ u v, aliasPair tabs u v → u.isCol = false ∧ v.isCol = false := by
    rintro u v ⟨o, _, a, _, hu, hv⟩
    rw [hu, hv]; exact ⟨rfl, rfl⟩
  refine ⟨?_, ?_, ?_, ?_, hw.ewf⟩
  · intro u v
    constructor
    · rintro ⟨he, hy⟩
      rw [hw.ty u v he] at hy
      exact (hw.lin u v ((kind_lineage_iff u v).mp (Option.some.inj hy))).mp he
    · intro hk
      have hu := hK _ hk
      have he := (hw.lin u v hu).mpr hk
      exact ⟨he, by rw [hw.ty u v he, (kind_lineage_iff u v).mpr hu]⟩
  · intro u v
    constructor
    · rintro ⟨he, hy⟩
      rw [hw.ty u v he] at hy
      obtain ⟨hu, hv⟩ := (kind_hasColumn_iff u v).mp (Option.some.inj hy)
      rcases (hw.own u v hu hv).mp he with h1 | h1
      · rcases (hA u v).mp h1 with h2 | h2
        · exact Or.inl h2
        · rw [(halias u v h2).2] at hv; cases hv
      · exact Or.inr h1
    · rintro (hk | hk)
      · obtain ⟨hu, hv⟩ := hO _ hk
        have he := (hw.own u v hu hv).mpr (Or.inl ((hA u v).mpr (Or.inl hk)))
        exact ⟨he, by rw [hw.ty u v he, (kind_hasColumn_iff u v).mpr ⟨hu, hv⟩]⟩
      · obtain ⟨p, _, ⟨d, hd, hx⟩ | ⟨d, hd, hx⟩⟩ := (mem_specOwners K (u, v)).mp hk
        · have hu : u.isCol = false := by rw [show u = .ds d from congrArg Prod.fst hx]; rfl
          have hv : v.isCol = true := by rw [show v = p.1 from congrArg Prod.snd hx]; exact isCol_of_colParent _ _ hd
          have he := (hw.own u v hu hv).mpr (Or.inr hk)
          exact ⟨he, by rw [hw.ty u v he, (kind_hasColumn_iff u v).mpr ⟨hu, hv⟩]⟩
        · have hu : u.isCol = false := by rw [show u = .ds d from congrArg Prod.fst hx]; rfl
          have hv : v.isCol = true := by rw [show v = p.2 from congrArg Prod.snd hx]; exact isCol_of_colParent _ _ hd
          have he := (hw.own u v hu hv).mpr (Or.inr hk)
          exact ⟨he, by rw [hw.ty u v he, (kind_hasColumn_iff u v).mpr ⟨hu, hv⟩]⟩
  · intro u v
    constructor
    · rintro ⟨he, hy⟩
      rw [hw.ty u v he] at hy
      obtain ⟨hu, hv⟩ := (kind_hasAlias_iff u v).mp (Option.some.inj hy)
      rcases (hA u v).mp ((hw.frame.edges u v hu hv).1.mp he) with h1 | h1
      · rw [(hO _ h1).2] at hv; cases hv
      · exact h1
    · intro hp
      have he1 := (hA u v).mpr (Or.inr hp)
      obtain ⟨hu, hv⟩ := halias u v hp
      have he := (hw.frame.edges u v hu hv).1.mpr he1
      exact ⟨he, by rw [hw.ty u v he, (kind_hasAlias_iff u v).mpr ⟨hu, hv⟩]⟩
  · intro u v he hy
    rw [hw.ty u v he] at hy
    have := Option.some.inj hy
    unfold kind at this
    split at this
    · cases this
    · split at this <;> cases this

/-- composing the target holder `G` (whose edges are all in the select holder `h` already) changes no edge and no type -/
theorem edgesExact_compose (G h : LGraph) (K : List (Node × Node)) (tabs : List DObj) (O0 : List (Node × Node))
    (hsub : ∀ e ∈ G.edges, e ∈ h.edges) (hG : Paths.WF G) (hx : EdgesExact h K tabs O0) :
    EdgesExact (G.compose h) K tabs O0 := by
  have hE : ∀ e, e ∈ (G.compose h).edges ↔ e ∈ h.edges := by
    intro e
    rw [mem_edges_compose]
    exact ⟨fun x => x.elim (hsub e) id, Or.inr⟩
  have hY : ∀ u v, (G.compose h).ety u v = h.ety u v := by
    intro u v
    rw [Graph.ety_compose]
    cases hh : h.ety u v with
    | some t => rfl
    | none =>
      have : (u, v) ∉ h.edges := by
        intro hm
        rw [Graph.ety_of_mem h u v hm] at hh; cases hh
      simp only
      exact Graph.ety_of_not_mem G u v (fun hm => this (hsub _ hm))
  refine ⟨?_, ?_, ?_, ?_, Paths.wf_compose G h hG hx.wf⟩
  · intro u v; rw [hE, hY]; exact hx.lineage u v
  · intro u v; rw [hE, hY]; exact hx.hasColumn u v
  · intro u v; rw [hE, hY]; exact hx.hasAlias u v
  · intro u v; rw [hE, hY]; exact hx.noRename u v

theorem specPairs_isCol (env : Env) (tgt : List String) (its : List Item) (frm : List FromExpr) :
    ∀ p ∈ specPairs env tgt its frm, p.1.isCol = true ∧ p.2.isCol = true := by
  intro p hp
  unfold specPairs at hp
  obtain ⟨it, _, hit⟩ := List.mem_flatMap.mp hp
  obtain ⟨e, a, k⟩ := it
  simp only [itemPairs, List.mem_flatMap, List.mem_map] at hit
  obtain ⟨r, _, x, hx, rfl⟩ := hit
  exact ⟨srcKeys_isCol _ _ _ x hx, rfl⟩

/-- **end to end, query level**: `CreateInsertExtractor.extract` on the fragment succeeds, and every edge of its holder is
    known: LINEAGE = the specified pairs, HAS_COLUMN = their owners, HAS_ALIAS = the table references, nothing else -/
theorem exWriteQuery_exact (env : Env) (isInsert : Bool) (tgt : List String) (d : Bool) (its : List Item)
    (frm : List FromExpr) (wh : Option Expr) (grp : List Expr) (hav : Option Expr) (hp : env.prov.truthy = false)
    (hfrag : fragSelect env tgt (.select d its frm wh grp hav) = true) :
    ∃ g, exWriteQuery env isInsert tgt none (.select d its frm wh grp hav) = .ok g ∧
      EdgesExact g (specPairs env tgt its frm) (fromTabs env frm) [] := by
  obtain ⟨g2, hg, hb, hbE, hw⟩ := exWriteQuery_wired env isInsert tgt d its frm wh grp hav hp hfrag
  refine ⟨_, hg, edgesExact_compose _ _ _ _ _ (by intro e he; rw [g0_edges] at he; cases he)
    (by intro e he; rw [g0_edges] at he; cases he)
    (edgesExact_of_wired hb hw (fun p hp' => (specPairs_isCol env tgt its frm p hp').1) ?_ (by intro p hp'; cases hp'))⟩
  intro u v
  rw [hbE]; simp

/-! ### statement level -/

theorem disp_insert : dispatch "insert_statement" = some "CreateInsertExtractor" := by decide
theorem disp_create_table : dispatch "create_table_statement" = some "CreateInsertExtractor" := by decide
theorem disp_create_view : dispatch "create_view_statement" = some "CreateInsertExtractor" := by decide

/-- **end to end, statement level**: on the fragment `analyze` succeeds (silent or not) and every edge of the statement holder
    is known -/
theorem analyze_exact (env : Env) (silent : Bool) (s : Stmt) (hp : env.prov.truthy = false) (hs : fragStmt env s = true) :
    ∃ g, analyze env silent s = .ok g ∧
      EdgesExact g (specPairs env (stmtTarget s) (stmtItems s) (stmtFrom s)) (fromTabs env (stmtFrom s)) [] := by
  cases s with
  | insert kd tk tgt cols q br =>
    cases cols with
    | some _ => simp [fragStmt] at hs
    | none =>
      cases q with
      | setop _ _ => simp [fragStmt, fragSelect] at hs
      | withq _ _ => simp [fragStmt, fragSelect] at hs
      | select d its frm wh grp hav =>
        have := exWriteQuery_exact env true tgt d its frm wh grp hav hp (by simpa [fragStmt] using hs)
        unfold analyze
        have hd : dispatch (stmtType (.insert kd tk tgt none (.select d its frm wh grp hav) br)) = some "CreateInsertExtractor" :=
          disp_insert
        rw [hd]
        exact this
  | ctas tgt orr ine q br =>
    cases q with
    | setop _ _ => simp [fragStmt, fragSelect] at hs
    | withq _ _ => simp [fragStmt, fragSelect] at hs
    | select d its frm wh grp hav =>
      have := exWriteQuery_exact env false tgt d its frm wh grp hav hp (by simpa [fragStmt] using hs)
      unfold analyze
      have hd : dispatch (stmtType (.ctas tgt orr ine (.select d its frm wh grp hav) br)) = some "CreateInsertExtractor" :=
        disp_create_table
      rw [hd]
      exact this
  | createView tgt orr cols q =>
    cases cols with
    | some _ => simp [fragStmt] at hs
    | none =>
      cases q with
      | setop _ _ => simp [fragStmt, fragSelect] at hs
      | withq _ _ => simp [fragStmt, fragSelect] at hs
      | select d its frm wh grp hav =>
        have := exWriteQuery_exact env false tgt d its frm wh grp hav hp (by simpa [fragStmt] using hs)
        unfold analyze
        have hd : dispatch (stmtType (.createView tgt orr none (.select d its frm wh grp hav))) = some "CreateInsertExtractor" :=
          disp_create_view
        rw [hd]
        exact this
  | query _ _ => simp [fragStmt] at hs
  | insertValues _ _ _ => simp [fragStmt] at hs
  | createTable _ _ _ => simp [fragStmt] at hs
  | createTableLike _ _ => simp [fragStmt] at hs
  | update _ _ _ _ _ => simp [fragStmt] at hs
  | merge _ _ _ _ _ _ => simp [fragStmt] at hs
  | copy _ _ => simp [fragStmt] at hs
  | drop _ _ _ => simp [fragStmt] at hs
  | alterRename _ _ => simp [fragStmt] at hs
  | renameTable _ => simp [fragStmt] at hs
  | noop _ _ => simp [fragStmt] at hs
  | unsupported _ => simp [fragStmt] at hs

/-! ### reading the specification -/

theorem mem_specPairs (env : Env) (tgt : List String) (its : List Item) (frm : List FromExpr) (u v : Node) :
    (u, v) ∈ specPairs env tgt its frm ↔
      ∃ e a k, Item.mk e a k ∈ its ∧ ∃ r ∈ refs e,
        u ∈ srcKeys env.importDefault (fromTabs env frm) (normRef r) ∧ v = (tgtCol env tgt (.mk e a k)).key := by
  unfold specPairs
  rw [List.mem_flatMap]
  constructor
  · rintro ⟨it, hit, h⟩
    obtain ⟨e, a, k⟩ := it
    simp only [itemPairs, List.mem_flatMap, List.mem_map, Prod.mk.injEq] at h
    obtain ⟨r, hr, x, hx, h1, h2⟩ := h
    exact ⟨e, a, k, hit, r, hr, by rw [← h1]; exact hx, h2.symm⟩
  · rintro ⟨e, a, k, hit, r, hr, h1, h2⟩
    refine ⟨_, hit, ?_⟩
    simp only [itemPairs, List.mem_flatMap, List.mem_map, Prod.mk.injEq]
    exact ⟨r, hr, u, h1, rfl, h2.symm⟩

/-- the target column of an item: `<written table>.<name by the naming rule>`, owned by the written table -/
theorem tgtCol_key (env : Env) (tgt : List String) (it : Item) :
    (tgtCol env tgt it).key =
      .col ((mkTable env tgt none).printed ++ "." ++ (colSpecOf env it).raw) (some (mkTable env tgt none).d) := rfl

/-- a qualified reference `q.c`: column `c` of the relation `q` denotes -/
theorem srcCol_key_qualified (imp : String) (tabs : List DObj) (c q : String) :
    (srcCol imp tabs (c, some q)).key =
      .col ((resolveQ imp tabs q).2 ++ "." ++ c) (some (resolveQ imp tabs q).1) := by
  have h := resolveQ_isTable imp tabs q
  simp only [srcCol, Column.key, Column.mk1, Column.printed, Column.parent?]
  cases hq : resolveQ imp tabs q with
  | mk d pr =>
    rw [hq] at h
    cases d with
    | table _ _ => rfl
    | path _ => cases h
    | subq _ => cases h

/-- an unqualified reference `c` over a single table reference `t`: column `c` of `t` -/
theorem srcCol_key_unqualified (imp : String) (t : DObj) (ht : t.d.isTable = true) (c : String) :
    (srcCol imp [t] (c, none)).key = .col (t.printed ++ "." ++ c) (some t.d) := by
  simp only [srcCol, Column.key, Column.mk1, Column.printed, Column.parent?]
  obtain ⟨d, al⟩ := t
  cases d with
  | table _ _ => rfl
  | path _ => cases ht
  | subq _ => cases ht

/-- an unqualified reference `c` over several table references: the column `c` WITHOUT owner (unresolved) -/
theorem srcCol_key_unresolved (imp : String) (tabs : List DObj) (h : tabs.length ≠ 1) (c : String) :
    (srcCol imp tabs (c, none)).key = .col c none := by
  match tabs, h with
  | [], _ => rfl
  | _ :: _ :: _, _ => rfl
  | [t], h => exact absurd rfl h

/-- a written alias denotes its table (whatever other tables are called) -/
theorem resolveQ_alias (imp : String) (tabs : List DObj) (hU : aliasesUnambiguous tabs = true) (o : DObj) (ho : o ∈ tabs)
    (a : String) (v : DS × String) (he : explEntry o = some (a, v)) : resolveQ imp tabs a = v := by
  have hm : (a, v) ∈ tabs.filterMap explEntry := List.mem_filterMap.mpr ⟨o, ho, he⟩
  obtain ⟨v', hv'⟩ := amGet_isSome_of_mem _ _ _ hm
  have := unambiguous_fun tabs hU a v' v (amGet_mem _ _ _ hv') hm
  unfold resolveQ
  rw [specAliasMap_split, amGet_append, hv', this]


/-- a statement of the fragment is a write of one SELECT block of the fragment -/
theorem fragStmt_select (env : Env) (s : Stmt) (hs : fragStmt env s = true) :
    ∃ d wh grp hav, fragSelect env (stmtTarget s) (.select d (stmtItems s) (stmtFrom s) wh grp hav) = true := by
  cases s with
  | insert kd tk tgt cols q br =>
    cases cols with
    | some _ => simp [fragStmt] at hs
    | none =>
      cases q with
      | setop _ _ => simp [fragStmt, fragSelect] at hs
      | withq _ _ => simp [fragStmt, fragSelect] at hs
      | select d its frm wh grp hav => exact ⟨d, wh, grp, hav, by simpa [fragStmt, stmtTarget, stmtItems, stmtFrom] using hs⟩
  | ctas tgt orr ine q br =>
    cases q with
    | setop _ _ => simp [fragStmt, fragSelect] at hs
    | withq _ _ => simp [fragStmt, fragSelect] at hs
    | select d its frm wh grp hav => exact ⟨d, wh, grp, hav, by simpa [fragStmt, stmtTarget, stmtItems, stmtFrom] using hs⟩
  | createView tgt orr cols q =>
    cases cols with
    | some _ => simp [fragStmt] at hs
    | none =>
      cases q with
      | setop _ _ => simp [fragStmt, fragSelect] at hs
      | withq _ _ => simp [fragStmt, fragSelect] at hs
      | select d its frm wh grp hav => exact ⟨d, wh, grp, hav, by simpa [fragStmt, stmtTarget, stmtItems, stmtFrom] using hs⟩
  | query _ _ => simp [fragStmt] at hs
  | insertValues _ _ _ => simp [fragStmt] at hs
  | createTable _ _ _ => simp [fragStmt] at hs
  | createTableLike _ _ => simp [fragStmt] at hs
  | update _ _ _ _ _ => simp [fragStmt] at hs
  | merge _ _ _ _ _ _ => simp [fragStmt] at hs
  | copy _ _ => simp [fragStmt] at hs
  | drop _ _ _ => simp [fragStmt] at hs
  | alterRename _ _ => simp [fragStmt] at hs
  | renameTable _ => simp [fragStmt] at hs
  | noop _ _ => simp [fragStmt] at hs
  | unsupported _ => simp [fragStmt] at hs


/-! ### a plain SELECT moves no column -/

def noSubItems (its : List Item) : Bool := its.all (fun it => match it with | .mk e _ _ => noSub e)

theorem noSubI_of_noSubItems : ∀ its : List Item, noSubItems its = true → noSubI its = true
  | [], _ => rfl
  | .mk e a k :: r, h => by
    simp only [noSubItems, List.all_cons, Bool.and_eq_true] at h
    simp only [noSubI, Bool.and_eq_true]
    exact ⟨h.1, noSubI_of_noSubItems r h.2⟩

/-- a SELECT statement over base tables without subqueries -/
def fragPlainSelect : Stmt → Bool
  | .query (.select _ its frm wh _ _) _ => noSubItems its && frm.all feOK && noSubOpt wh
  | _ => false

theorem disp_select : dispatch "select_statement" = some "SelectExtractor" := by decide
theorem disp_bracketed : dispatch "bracketed" = some "SelectExtractor" := by decide

/-- the holder of a plain SELECT is the reads of its FROM clause — no column node, no LINEAGE edge -/
theorem exQuery_plain (env : Env) (d : Bool) (its : List Item) (frm : List FromExpr) (wh : Option Expr)
    (grp : List Expr) (hav : Option Expr) (hi : noSubItems its = true) (hf : frm.all feOK = true) (hw : noSubOpt wh = true) :
    exQuery env {} (.select d its frm wh grp hav) = .ok ((fromTabs env frm).foldl addReadO Graph.empty) := by
  rw [exQuery_tab env _ d its frm wh grp hav (noSubI_of_noSubItems its hi) hf hw]
  have hinit : initHolder ({} : Ctx) = Graph.empty := rfl
  have hcte : cteObjs (Graph.empty : LGraph) = [] := by
    apply cteObjs_nil
    intro d'; rw [tag_empty]; simp
  rw [hinit, finishBranches_single, tablesOfFrom_tab env _ hcte frm hf]
  have hws : writeSet ((fromTabs env frm).foldl addReadO Graph.empty) = [] := by
    unfold writeSet
    apply tagSet_nil_of
    intro d'
    rw [tag_foldl_addReadO, tag_empty]
    simp
  have hclean : endOfQueryCleanup env.importDefault Graph.empty (fromTabs env frm) (its.map (colSpecOf env)) [] env.revStar =
      .ok ((fromTabs env frm).foldl addReadO Graph.empty) := by
    unfold endOfQueryCleanup
    simp only [List.nil_append, endOfQueryCleanup.go, slice_full]
    unfold cleanupGroup
    rw [hws]
  rw [hclean]
  simp only
  have : expandWildcard env.prov ((fromTabs env frm).foldl addReadO Graph.empty) =
      (fromTabs env frm).foldl addReadO Graph.empty := by
    unfold expandWildcard targetTable?
    rw [hws]
    rfl
  rw [this]

theorem analyze_plain (env : Env) (silent : Bool) (s : Stmt) (hs : fragPlainSelect s = true) :
    ∃ d its frm wh grp hav br, s = .query (.select d its frm wh grp hav) br ∧
      analyze env silent s = .ok ((fromTabs env frm).foldl addReadO Graph.empty) := by
  cases s with
  | query q br =>
    cases q with
    | setop _ _ => simp [fragPlainSelect] at hs
    | withq _ _ => simp [fragPlainSelect] at hs
    | select d its frm wh grp hav =>
      simp only [fragPlainSelect, Bool.and_eq_true] at hs
      refine ⟨d, its, frm, wh, grp, hav, br, rfl, ?_⟩
      unfold analyze
      have hd : ∃ c, dispatch (stmtType (.query (.select d its frm wh grp hav) br)) = some c := by
        cases br
        · exact ⟨_, disp_select⟩
        · exact ⟨_, disp_bracketed⟩
      obtain ⟨c, hc⟩ := hd
      rw [hc]
      exact exQuery_plain env d its frm wh grp hav hs.1.1 hs.1.2 hs.2
  | insert _ _ _ _ _ _ => simp [fragPlainSelect] at hs
  | insertValues _ _ _ => simp [fragPlainSelect] at hs
  | ctas _ _ _ _ _ => simp [fragPlainSelect] at hs
  | createView _ _ _ _ => simp [fragPlainSelect] at hs
  | createTable _ _ _ => simp [fragPlainSelect] at hs
  | createTableLike _ _ => simp [fragPlainSelect] at hs
  | update _ _ _ _ _ => simp [fragPlainSelect] at hs
  | merge _ _ _ _ _ _ => simp [fragPlainSelect] at hs
  | copy _ _ => simp [fragPlainSelect] at hs
  | drop _ _ _ => simp [fragPlainSelect] at hs
  | alterRename _ _ => simp [fragPlainSelect] at hs
  | renameTable _ => simp [fragPlainSelect] at hs
  | noop _ _ => simp [fragPlainSelect] at hs
  | unsupported _ => simp [fragPlainSelect] at hs

/-- the edges of the reads of a FROM clause: the alias edges, all HAS_ALIAS -/
theorem reads_edges (tabs : List DObj) (hl : ∀ o ∈ tabs, isTabRef o = true) (u v : Node) :
    ((u, v) ∈ (tabs.foldl addReadO (Graph.empty : LGraph)).edges ↔ aliasPair tabs u v) ∧
    ((u, v) ∈ (tabs.foldl addReadO (Graph.empty : LGraph)).edges →
      (tabs.foldl addReadO (Graph.empty : LGraph)).ety u v = some .hasAlias) := by
  have hE := mem_edges_foldl_addReadO tabs hl (Graph.empty : LGraph) u v
  have hY := ety_foldl_addReadO tabs hl (Graph.empty : LGraph) u v
  simp only [empty_edges, List.not_mem_nil, false_or] at hE
  exact ⟨hE, fun he => hY.1 (hE.mp he)⟩


/-! ## 8. an explicit column list: the select items are wired BY POSITION

`INSERT INTO T (c1, …, cn) <select with n items>` / `CREATE VIEW T (c1, …, cn) AS …`: the listed columns are write columns of
the target before the cleanup starts, their number equals the number of select items, so item `i` is wired to `ci`
(`cleanupItem`, first branch). -/

/-- the columns of a column list, as columns of the written table -/
def listedCols (tp : DS × String) (cs : List String) : List Column := cs.map (fun c => Column.mk1 (Ident.escapeS c) (some tp))

theorem addParent_same (r : String) (p : DS × String) : (Column.mk1 r (some p)).addParent p = Column.mk1 r (some p) := by
  simp [Column.mk1, Column.addParent, insertParent]

/-- `add_write_column(*cols)` on the bare target (as `Props.C13.addWriteColumns_bare`) -/
theorem addWriteColumns_g0 (s nm : String) (al : Option String) (cols : List Column)
    (hnd : ((cols.map (·.addParent (DS.table s nm, s ++ "." ++ nm))).map (·.key)).Nodup) :
    WriteCols.WInv (g0 ⟨.table s nm, al⟩) (.table s nm) (cols.map (·.addParent (DS.table s nm, s ++ "." ++ nm))) cols.length
      (addWriteColumns (g0 ⟨.table s nm, al⟩) cols) := by
  have hB := WriteCols.WInv.base (g0 ⟨.table s nm, al⟩) (.table s nm) 0 (g0_nodes _) (g0_edges _)
  have hwr : (g0 ⟨.table s nm, al⟩).tag (.ds (.table s nm)) .write = some true := by rw [g0_tag]; simp
  have hws : (writeSet (g0 ⟨.table s nm, al⟩)).head? = some (.table s nm) := by
    have := hB.tagSet .write
    simp only [writeSet, this, hwr]; rfl
  unfold addWriteColumns
  rw [hws]
  have := WriteCols.WInv.fold (B := g0 ⟨.table s nm, al⟩) (T := .table s nm)
    (·.addParent (DS.table s nm, s ++ "." ++ nm)) cols [] 0 _ hB (by simpa using hnd)
  simp only [List.nil_append, Nat.zero_add] at this
  exact this

theorem listedCols_addParent (tp : DS × String) (cs : List String) :
    (listedCols tp cs).map (·.addParent tp) = listedCols tp cs := by
  unfold listedCols
  rw [List.map_map]
  apply List.map_congr_left
  intro c _
  simp only [Function.comp, addParent_same]

theorem listColumn_addParent (tp : DS × String) (cs : List String) :
    (cs.map listColumn).map (·.addParent tp) = listedCols tp cs := by
  unfold listedCols
  rw [List.map_map]
  apply List.map_congr_left
  intro c _
  simp only [Function.comp, listColumn, addParent_none]

/-- the target holder of a statement with column list (no provider): the listed columns hang from the target, in order -/
theorem writeTargetHolder_some (env : Env) (isInsert : Bool) (tgt : List String) (cs : List String)
    (hp : env.prov.truthy = false) (s nm : String) (al : Option String) (hmk : mkTable env tgt none = ⟨.table s nm, al⟩) :
    writeTargetHolder env isInsert tgt (some cs) = addWriteColumns (g0 ⟨.table s nm, al⟩) (cs.map listColumn) := by
  have hB := WriteCols.WInv.base (g0 ⟨.table s nm, al⟩) (.table s nm) 0 (g0_nodes _) (g0_edges _)
  have hwr : (g0 ⟨.table s nm, al⟩).tag (.ds (.table s nm)) .write = some true := by rw [g0_tag]; simp
  have hrd : (g0 ⟨.table s nm, al⟩).tag (.ds (.table s nm)) .read ≠ some true := by rw [g0_tag]; simp
  have hrm : removeWriteColumns (g0 ⟨.table s nm, al⟩) = g0 ⟨.table s nm, al⟩ := by
    unfold removeWriteColumns
    rw [hB.writeColumns hwr hrd]
    rfl
  unfold writeTargetHolder
  simp only [hp, Bool.and_false, Bool.false_eq_true, if_false, hmk]
  exact congrArg (fun g => addWriteColumns g (cs.map listColumn)) hrm

theorem addWriteColumns_nil (g : LGraph) : addWriteColumns g [] = g := by
  unfold addWriteColumns; split <;> rfl

/-- the select extractor starts from the target with its listed columns again -/
theorem initHolder_ctxOf_listed (s nm : String) (al : Option String) (cs : List String)
    (hnd : ((listedCols (DS.table s nm, s ++ "." ++ nm) cs).map (·.key)).Nodup) :
    initHolder (ctxOf (addWriteColumns (g0 ⟨.table s nm, al⟩) (cs.map listColumn))) =
      addWriteColumns (g0 ⟨.table s nm, al⟩) (listedCols (DS.table s nm, s ++ "." ++ nm) cs) := by
  have hW := addWriteColumns_g0 s nm al (cs.map listColumn) (by rw [listColumn_addParent]; exact hnd)
  rw [listColumn_addParent] at hW
  have hwr : (g0 ⟨.table s nm, al⟩).tag (.ds (.table s nm)) .write = some true := by rw [g0_tag]; simp
  have hrd : (g0 ⟨.table s nm, al⟩).tag (.ds (.table s nm)) .read ≠ some true := by rw [g0_tag]; simp
  have hcte : cteObjs (addWriteColumns (g0 ⟨.table s nm, al⟩) (cs.map listColumn)) = [] := by
    unfold cteObjs objsOf
    rw [hW.tagSet .cte, g0_tag]
    simp
  have hwc := hW.writeColObjs hwr hrd
  have hwo : writeObjs (addWriteColumns (g0 ⟨.table s nm, al⟩) (cs.map listColumn)) = [⟨.table s nm, some nm⟩] := by
    unfold writeObjs objsOf
    rw [hW.tagSet .write, hwr]
    rfl
  unfold ctxOf initHolder
  rw [hcte, hwo, hwc]
  simp only [List.foldl_nil, List.foldl_cons]
  split
  · rename_i hemp
    have : listedCols (DS.table s nm, s ++ "." ++ nm) cs = [] := List.isEmpty_iff.mp hemp
    rw [this, addWriteColumns_nil]
    rfl
  · rfl

/-! ### facts about a holder whose target owns the listed columns -/

theorem wf_addWriteColumns (g : LGraph) (cols : List Column) (h : ExportLemmas.WF g) :
    ExportLemmas.WF (addWriteColumns g cols) := by
  unfold addWriteColumns
  split
  · exact h
  · exact foldl_inv _ _ _ _ h (fun b a _ hb => ExportLemmas.wf_addEdge _ _ _ _ _ _ _ hb)

theorem payOK_addWriteColumns (g : LGraph) (cols : List Column) (h : PayOK g)
    (hok : ∀ c ∈ cols, ∀ t ∈ writeSet g, colOK (c.addParent (t, printedDS g t))) : PayOK (addWriteColumns g cols) := by
  unfold addWriteColumns
  split
  · exact h
  · rename_i t ht
    have htin : t ∈ writeSet g := List.mem_of_mem_head? ht
    apply foldl_inv (fun G => PayOK G) _ _ _ h
    intro b a ha hb
    apply payOK_addEdge _ _ _ _ _ _ _ hb
    · intro c hc'; cases hc'
    · intro c hc'
      cases hc'
      exact hok a.1 (List.fst_mem_of_mem_zipIdx ha) t htin

/-- the target `T` owns exactly the columns `colsW`, in this order (`write_columns`), whatever else the holder contains -/
structure WC (T : DS) (colsW : List Column) (g : LGraph) : Prop where
  out : g.outEdges (.ds T) = colsW.map (·.key)
  sorted : ((colsW.map (·.key)).map (fun x => (g.idx (.ds T) x).getD 0)).Pairwise (· ≤ ·)
  pay : ∀ c ∈ colsW, g.payload c.key = some (.col c)

private theorem outEdges_star' (a : Node) : ∀ ks : List Node,
    (((ks.map (fun x => (a, x))).filter (·.1 = a)).map (·.2)) = ks
  | [] => rfl
  | k :: r => by simp [List.filter_cons, outEdges_star' a r]

theorem WC.ofWInv {B : LGraph} {T : DS} {pre : List Column} {k : Nat} {G : LGraph} (h : WriteCols.WInv B T pre k G) :
    WC T pre G := by
  refine ⟨?_, h.sorted, h.pay⟩
  simp only [outEdges, h.edges]
  exact outEdges_star' (.ds T) _

theorem WC.writeColumns {T : DS} {colsW : List Column} {g : LGraph} (h : WC T colsW g) (htt : targetTable? g = some T)
    (hty : ∀ x ∈ colsW.map (·.key), g.ety (.ds T) x = some .hasColumn) : writeColumns g = colsW.map (·.key) := by
  unfold Holder.writeColumns
  rw [htt]
  simp only [h.out]
  have hfil : (colsW.map (·.key)).filter (fun c => g.ety (.ds T) c == some .hasColumn) = colsW.map (·.key) := by
    rw [List.filter_eq_self]
    intro x hx; rw [hty x hx]; rfl
  have hs : (((colsW.map (·.key)).map (fun c => (c, (g.idx (.ds T) c).getD 0))).map (·.2)).Pairwise (· ≤ ·) := by
    rw [List.map_map]; exact h.sorted
  rw [hfil, WriteCols.sortByIdx_sorted _ hs, List.map_map]
  exact List.map_id' _

theorem mem_nodes_of_payload (g : LGraph) (n : Node) (x : Payload) (h : g.payload n = some x) : n ∈ g.nodes := by
  apply Decidable.byContradiction
  intro hn
  simp [Graph.payload, Graph.hasNode, hn] at h

theorem payload_addEdge_of_mem (g : LGraph) (u v m : Node) (ty : EType) (i : Option Nat) (pu pv : Option Payload)
    (hm : m ∈ g.nodes) : (g.addEdge u v ty i pu pv).payload m = g.payload m := by
  rw [Graph.payload_addEdge, Graph.payload_addNode, Graph.payload_addNode,
    if_pos ((mem_nodes_addNode g u m pu).mpr (Or.inl hm)), if_pos hm]

theorem idx_addEdge_none (g : LGraph) (u v a b : Node) (ty : EType) (pu pv : Option Payload) :
    (g.addEdge u v ty none pu pv).idx a b = g.idx a b := by
  rw [Graph.idx_addEdge]
  by_cases h : a = u ∧ b = v
  · rw [if_pos h, h.1, h.2]
  · rw [if_neg h]

theorem idx_setTag (g : LGraph) (n a b : Node) (t : Tag) (x : Bool) (p : Option Payload) :
    (g.setTag n t x p).idx a b = g.idx a b := by
  have h1 : (g.setTag n t x p).edges = g.edges := edges_setTag g n t x p
  have h2 : (g.setTag n t x p).eidx = g.eidx := by simp [Graph.setTag]
  unfold Graph.idx Graph.hasEdge
  rw [h1, h2]

theorem outEdges_setTag (g : LGraph) (n a : Node) (t : Tag) (x : Bool) (p : Option Payload) :
    (g.setTag n t x p).outEdges a = g.outEdges a := by
  simp only [Graph.outEdges, edges_setTag]

theorem WC.addReadO {T : DS} {colsW : List Column} {g : LGraph} (h : WC T colsW g) (s n a : String)
    (hne : DS.table s n ≠ T) : WC T colsW (addReadO g ⟨.table s n, some a⟩) := by
  rw [addReadO_tab]
  refine ⟨?_, ?_, ?_⟩
  · rw [outEdges_addEdge, if_neg, outEdges_setTag]; exact h.out
    rintro ⟨hx, _⟩
    exact hne (Node.ds.inj hx).symm
  · have : ∀ x, ((g.setTag (.ds (.table s n)) .read true none).addEdge (.ds (.table s n)) (.str a) .hasAlias).idx (.ds T) x =
        g.idx (.ds T) x := by
      intro x; rw [idx_addEdge_none, idx_setTag]
    simp only [this]; exact h.sorted
  · intro c hc
    have hn := mem_nodes_of_payload g _ _ (h.pay c hc)
    rw [payload_addEdge_of_mem _ _ _ _ _ _ _ _ ((mem_nodes_setTag g _ _ _ _ _).mpr (Or.inl hn)), payload_setTag,
      Graph.payload_addNode, if_pos hn]
    exact h.pay c hc

theorem WC.foldl_addReadO {T : DS} {colsW : List Column} : ∀ (l : List DObj) (g : LGraph), WC T colsW g →
    (∀ o ∈ l, isTabRef o = true) → (∀ o ∈ l, o.d ≠ T) → WC T colsW (l.foldl Holder.addReadO g)
  | [], g, h, _, _ => h
  | o :: r, g, h, hl, hne => by
    obtain ⟨s, n, a, rfl⟩ := tabRef_cases o (hl o (by simp))
    simp only [List.foldl_cons]
    exact WC.foldl_addReadO r _ (h.addReadO s n a (hne ⟨.table s n, some a⟩ (by simp))) (fun o ho => hl o (by simp [ho]))
      (fun o ho => hne o (by simp [ho]))

theorem idx_addLin (g : LGraph) (src tgt : Column) (tp : DS × String) (a b : Node) :
    (addLin g src tgt tp).idx a b = g.idx a b := by
  unfold addLin
  cases src.parent? with
  | none => simp only [idx_addEdge_none]
  | some sp => simp only [idx_addEdge_none]

theorem payload_addLin_of_mem (g : LGraph) (src tgt : Column) (tp : DS × String) (m : Node) (hm : m ∈ g.nodes) :
    (addLin g src tgt tp).payload m = g.payload m := by
  unfold addLin
  have h1 : m ∈ (g.addEdge src.key tgt.key .lineage none (some (.col src)) (some (.col tgt))).nodes :=
    (mem_nodes_addEdge _ _ _ _ _ _ _ _).mpr (Or.inl hm)
  have h2 : m ∈ ((g.addEdge src.key tgt.key .lineage none (some (.col src)) (some (.col tgt))).addEdge (.ds tp.1) tgt.key
      .hasColumn none (some (.sub tp.2)) (some (.col tgt))).nodes := (mem_nodes_addEdge _ _ _ _ _ _ _ _).mpr (Or.inl h1)
  cases src.parent? with
  | none =>
    simp only
    rw [payload_addEdge_of_mem _ _ _ _ _ _ _ _ h1, payload_addEdge_of_mem _ _ _ _ _ _ _ _ hm]
  | some sp =>
    simp only
    rw [payload_addEdge_of_mem _ _ _ _ _ _ _ _ h2, payload_addEdge_of_mem _ _ _ _ _ _ _ _ h1,
      payload_addEdge_of_mem _ _ _ _ _ _ _ _ hm]

theorem WC.addLin {T : DS} {colsW : List Column} {g : LGraph} (h : WC T colsW g) (src tgt : Column) (tp : DS × String)
    (hT : tp.1 = T) (htgt : tgt.key ∈ colsW.map (·.key)) (hs : ∀ sp, src.parent? = some sp → sp.1 ≠ T) :
    WC T colsW (ColumnsExact.addLin g src tgt tp) := by
  refine ⟨?_, ?_, ?_⟩
  · rw [outT_addLin g src tgt tp T hT hs, if_pos (by rw [h.out]; exact htgt)]; exact h.out
  · simp only [idx_addLin]; exact h.sorted
  · intro c hc
    rw [payload_addLin_of_mem _ _ _ _ _ (mem_nodes_of_payload g _ _ (h.pay c hc))]
    exact h.pay c hc

theorem WC.inner {T : DS} {colsW : List Column} (tgt : Column) (tp : DS × String) (htp : tgt.parent? = some tp)
    (hT : tp.1 = T) (htgt : tgt.key ∈ colsW.map (·.key)) :
    ∀ (srcs : List Column) (g g' : LGraph), WC T colsW g → (∀ s ∈ srcs, ∀ sp, s.parent? = some sp → sp.1 ≠ T) →
      srcs.foldlM (fun g s => addColumnLineage g s tgt) g = .ok g' → WC T colsW g'
  | [], g, g', h, _, hf => by
    simp only [List.foldlM_nil, pure, Except.pure] at hf
    cases hf; exact h
  | s :: r, g, g', h, hs, hf => by
    simp only [List.foldlM_cons, bind, Except.bind, addColumnLineage_eq g s tgt tp htp] at hf
    exact WC.inner tgt tp htp hT htgt r _ g' (h.addLin s tgt tp hT htgt (hs s (by simp)))
      (fun x hx => hs x (by simp [hx])) hf


/-- one select item when `write_columns` has as many entries as the group has items: its sources are wired to the write
    column AT THE ITEM'S POSITION -/
theorem cleanupItem_pos {g1 g : LGraph} {K : List (Node × Node)} (imp : String) (T : DS) (Tp : String) (n : Nat)
    (tabs : List DObj) (c : ColSpec) (idx k : Nat) (srcs : List Column) (tgt : Column) (keysW : List Node) (h : Wired g1 g K)
    (hsrc : toSourceColumns imp (aliasMapping g tabs) c k = srcs) (hok : ∀ s ∈ srcs, colOK s)
    (hwc : writeColumns g = keysW) (hlen : keysW.length = n) (hidx : keysW[idx]? = some tgt.key)
    (hcol : colOf g tgt.key = some tgt) (htp : tgt.parent? = some (T, Tp)) (htok : colOK tgt) :
    ∃ g', cleanupItem imp (T, Tp) n tabs g (c, idx) k = .ok g' ∧
      srcs.foldlM (fun g s => addColumnLineage g s tgt) g = .ok g' ∧
      Wired g1 g' (K ++ srcs.map (fun s => (s.key, tgt.key))) := by
  obtain ⟨g', hg', hw⟩ := wired_inner (g1 := g1) tgt (T, Tp) htp htok srcs g K h hok
  refine ⟨g', ?_, hg', hw⟩
  unfold cleanupItem
  have hl : ((writeColumns g).length == n) = true := by rw [hwc, hlen]; simp
  have hl' : (keysW.length == n) = true := by rw [hlen]; simp
  simp only [hsrc, hl, if_true, hwc, hidx, hcol, Option.getD_some, hl']
  cases srcs with
  | nil =>
    simp only [List.foldlM_nil, pure, Except.pure] at hg'
    simp only [List.isEmpty_nil, if_true]
    exact hg'
  | cons s r =>
    simp only [List.isEmpty_cons, Bool.false_eq_true, if_false]
    exact hg'

/-- the pairs of a group wired by position: item `c` goes to the write column `w` it is zipped with -/
def posPairs (KEYS : ColSpec → List Node) (l : List (ColSpec × Column)) : List (Node × Node) :=
  l.flatMap (fun cw => (KEYS cw.1).map (fun x => (x, cw.2.key)))

/-- the loop over the select items when the target owns the `n` columns `colsW` from the start and nothing else (it is
    not read, no source column belongs to it) -/
theorem cleanupFoldPos_wired {g1 : LGraph} (imp : String) (s nm : String) (n : Nat) (tabs : List DObj) (k : Nat)
    (KEYS : ColSpec → List Node) (colsW : List Column) (hn : colsW.length = n)
    (hws : writeSet g1 = [.table s nm]) (hnr : DS.table s nm ∉ readSet g1)
    (hcw : ∀ c ∈ colsW, c.parent? = some (DS.table s nm, s ++ "." ++ nm) ∧ colOK c) :
    ∀ (rest : List ColSpec) (restW preW : List Column) (g : LGraph) (K : List (Node × Node)),
      colsW = preW ++ restW → rest.length = restW.length → Wired g1 g K → WC (.table s nm) colsW g →
      (∀ c ∈ rest, ∀ g, Frame g1 g →
        (∀ x, x ∈ (toSourceColumns imp (aliasMapping g tabs) c k).map (·.key) ↔ x ∈ KEYS c) ∧
        (∀ y ∈ toSourceColumns imp (aliasMapping g tabs) c k,
          colOK y ∧ ∀ sp, y.parent? = some sp → sp.1 ≠ .table s nm)) →
      ∃ g', (rest.zipIdx preW.length).foldlM
          (fun g ci => cleanupItem imp (.table s nm, printedDS g (.table s nm)) n tabs g ci k) g = .ok g' ∧
        Wired g1 g' (K ++ posPairs KEYS (rest.zip restW)) ∧ WC (.table s nm) colsW g'
  | [], restW, preW, g, K, _, _, h, hwc, _ => ⟨g, rfl, by simpa [posPairs] using h, hwc⟩
  | c :: r, [], preW, g, K, _, hl, _, _, _ => by simp at hl
  | c :: r, w :: rw, preW, g, K, hsplit, hl, h, hwc, hsrc => by
    have hw : writeSet g = [.table s nm] := by unfold writeSet; rw [tagSet_eq_of_frame h.frame]; exact hws
    have hrd : readSet g = readSet g1 := by unfold readSet; rw [tagSet_eq_of_frame h.frame]
    have htt := targetTable_of g _ hw (by rw [hrd]; exact hnr)
    obtain ⟨hkeys, hys⟩ := hsrc c (by simp) g h.frame
    have hwin : w ∈ colsW := by rw [hsplit]; simp
    have hety : ∀ x ∈ colsW.map (·.key), g.ety (.ds (.table s nm)) x = some .hasColumn := by
      intro x hx
      have he : (Node.ds (DS.table s nm), x) ∈ g.edges := (mem_outEdges g _ _).mp (by rw [hwc.out]; exact hx)
      rw [h.ty _ _ he]
      obtain ⟨c', _, rfl⟩ := List.mem_map.mp hx
      rfl
    have hwcs := hwc.writeColumns htt hety
    have hidx : (colsW.map (·.key))[preW.length]? = some w.key := by
      rw [hsplit]
      simp [List.getElem?_append_right]
    have hcol : colOf g w.key = some w := by
      unfold colOf; rw [hwc.pay w hwin]
    obtain ⟨g', hg', hfold, hw'⟩ := cleanupItem_pos imp (.table s nm) (s ++ "." ++ nm) n tabs c preW.length k _ w
      (colsW.map (·.key)) h rfl (fun y hy => (hys y hy).1) hwcs (by rw [List.length_map]; exact hn) hidx hcol
      (hcw w hwin).1 (hcw w hwin).2
    have hwc' : WC (.table s nm) colsW g' :=
      WC.inner w (.table s nm, s ++ "." ++ nm) (hcw w hwin).1 rfl (List.mem_map.mpr ⟨w, hwin, rfl⟩) _ g g' hwc
        (fun y hy => (hys y hy).2) hfold
    obtain ⟨g'', hg'', hw'', hwc''⟩ := cleanupFoldPos_wired imp s nm n tabs k KEYS colsW hn hws hnr hcw r rw (preW ++ [w]) g' _
      (by rw [hsplit]; simp) (by simpa using hl) hw' hwc' (fun c' hc' => hsrc c' (by simp [hc']))
    refine ⟨g'', ?_, hw''.congr ?_, hwc''⟩
    · simp only [List.zipIdx_cons, List.foldlM_cons, bind, Except.bind]
      have : cleanupItem imp (.table s nm, printedDS g (.table s nm)) n tabs g (c, preW.length) k = .ok g' := hg'
      rw [this]
      have hlen : (preW ++ [w]).length = preW.length + 1 := by simp
      rw [hlen] at hg''
      exact hg''
    · intro x
      simp only [posPairs, List.zip_cons_cons, List.flatMap_cons, List.mem_append, List.mem_map]
      constructor
      · rintro ((h1 | ⟨y, hy, rfl⟩) | h1)
        · exact Or.inl h1
        · exact Or.inr (Or.inl ⟨y.key, (hkeys _).mp (List.mem_map.mpr ⟨y, hy, rfl⟩), rfl⟩)
        · exact Or.inr (Or.inr h1)
      · rintro (h1 | ⟨a, ha, rfl⟩ | h1)
        · exact Or.inl (Or.inl h1)
        · obtain ⟨y, hy, hyk⟩ := List.mem_map.mp ((hkeys a).mpr ha)
          exact Or.inl (Or.inr ⟨y, hy, by rw [hyk]⟩)
        · exact Or.inr h1

/-- `end_of_query_cleanup` of ONE select block on a holder whose target owns the columns `colsW`, as many as there are
    select items -/
theorem endOfQueryCleanupPos_wired (imp : String) (g : LGraph) (s nm : String) (tabs : List DObj) (cols : List ColSpec)
    (k : Nat) (KEYS : ColSpec → List Node) (colsW : List Column) (hn : cols.length = colsW.length)
    (hb : ReadBase (tabs.foldl addReadO g) tabs (.table s nm)) (hself : ∀ o ∈ tabs, o.d ≠ .table s nm)
    (hwc : WC (.table s nm) colsW (tabs.foldl addReadO g))
    (hcw : ∀ c ∈ colsW, c.parent? = some (DS.table s nm, s ++ "." ++ nm) ∧ colOK c)
    (hsrc : ∀ c ∈ cols, ∀ g', Frame (tabs.foldl addReadO g) g' →
      (∀ x, x ∈ (toSourceColumns imp (aliasMapping g' tabs) c k).map (·.key) ↔ x ∈ KEYS c) ∧
      (∀ y ∈ toSourceColumns imp (aliasMapping g' tabs) c k, colOK y ∧ ∀ sp, y.parent? = some sp → sp.1 ≠ .table s nm)) :
    ∃ g2, endOfQueryCleanup imp g tabs cols [] k = .ok g2 ∧
      Wired (tabs.foldl addReadO g) g2 (posPairs KEYS (cols.zip colsW)) := by
  obtain ⟨g2, hg2, hw, _⟩ := cleanupFoldPos_wired imp s nm cols.length tabs k KEYS colsW hn.symm hb.writeSet
    (hb.notRead hself) hcw cols colsW [] (tabs.foldl addReadO g) [] rfl hn (Wired.base hb) hwc hsrc
  refine ⟨g2, ?_, by simpa using hw⟩
  unfold endOfQueryCleanup
  simp only [List.nil_append, endOfQueryCleanup.go, slice_full]
  unfold cleanupGroup
  rw [hb.writeSet]
  simp only
  have hg2' : (cols.zipIdx).foldlM
      (fun g ci => cleanupItem imp (.table s nm, printedDS g (.table s nm)) cols.length tabs g ci k)
      (tabs.foldl addReadO g) = .ok g2 := by simpa using hg2
  rw [hg2']


/-! ### the statement with column list -/

/-- **specification, column list**: item `i` of the select list goes to column `i` of the list -/
def specPairsPos (env : Env) (tgt : List String) (cs : List String) (its : List Item) (frm : List FromExpr) :
    List (Node × Node) :=
  (its.zip cs).flatMap (fun ic =>
    match ic.1 with
    | .mk e _ _ => (refs e).flatMap (fun r =>
        (srcKeys env.importDefault (fromTabs env frm) (normRef r)).map (fun x =>
          (x, (Column.mk1 (Ident.escapeS ic.2) (some ((mkTable env tgt none).d, (mkTable env tgt none).printed))).key))))

/-- the HAS_COLUMN edges of the column list itself: the written table owns every listed column, wired or not -/
def listedOwners (env : Env) (tgt : List String) (cs : List String) : List (Node × Node) :=
  (listedCols ((mkTable env tgt none).d, (mkTable env tgt none).printed) cs).map
    (fun c => (Node.ds (mkTable env tgt none).d, c.key))

/-- one SELECT block over base tables, no subquery, not reading the written table; as many listed columns as select
    items, the listed names pairwise different -/
def fragSelectCols (env : Env) (tgt : List String) (cs : List String) : Query → Bool
  | .select _ its frm wh _ _ =>
    let tabs := fromTabs env frm
    let T := (mkTable env tgt none).d
    frm.all feOK && noSubOpt wh && aliasesUnambiguous tabs && !(tabs.any (fun o => o.d == T)) &&
      (its.length == cs.length) &&
      decide (((listedCols (T, (mkTable env tgt none).printed) cs).map (·.key)).Nodup) &&
      its.all (itemOK env.importDefault tabs (some T))
  | _ => false

/-- `INSERT INTO T (c1, …, cn) <select>`, `CREATE VIEW T (c1, …, cn) AS <select>` -/
def fragStmtCols (env : Env) : Stmt → Bool
  | .insert _ _ tgt (some cs) q _ => fragSelectCols env tgt cs q
  | .createView tgt _ (some cs) q => fragSelectCols env tgt cs q
  | _ => false

def stmtCols : Stmt → List String
  | .insert _ _ _ (some cs) _ _ => cs
  | .createView _ _ (some cs) _ => cs
  | _ => []

theorem posPairs_spec (env : Env) (tgt : List String) (cs : List String) (its : List Item) (frm : List FromExpr)
    (x : Node × Node) :
    x ∈ posPairs (KEYSof env.importDefault (fromTabs env frm))
        ((its.map (colSpecOf env)).zip (listedCols ((mkTable env tgt none).d, (mkTable env tgt none).printed) cs)) ↔
      x ∈ specPairsPos env tgt cs its frm := by
  unfold posPairs specPairsPos KEYSof listedCols
  rw [List.zip_map]
  simp only [List.mem_flatMap, List.mem_map]
  constructor
  · rintro ⟨cw, ⟨ic, hic, rfl⟩, a, ⟨r, hr, ha⟩, rfl⟩
    refine ⟨ic, hic, ?_⟩
    obtain ⟨⟨e, al, kw⟩, cn⟩ := ic
    simp only [Prod.map_apply] at hr ⊢
    rw [colSpecOf_srcs] at hr
    obtain ⟨r0, hr0, rfl⟩ := List.mem_map.mp hr
    exact List.mem_flatMap.mpr ⟨r0, hr0, List.mem_map.mpr ⟨a, ha, rfl⟩⟩
  · rintro ⟨ic, hic, hx⟩
    obtain ⟨⟨e, al, kw⟩, cn⟩ := ic
    obtain ⟨r0, hr0, hx'⟩ := List.mem_flatMap.mp hx
    obtain ⟨a, ha, rfl⟩ := List.mem_map.mp hx'
    refine ⟨_, ⟨(.mk e al kw, cn), hic, rfl⟩, a, ⟨normRef r0, ?_, ha⟩, rfl⟩
    simp only [Prod.map_apply]
    rw [colSpecOf_srcs]
    exact List.mem_map.mpr ⟨r0, hr0, rfl⟩

theorem specPairsPos_isCol (env : Env) (tgt : List String) (cs : List String) (its : List Item) (frm : List FromExpr) :
    ∀ p ∈ specPairsPos env tgt cs its frm, p.1.isCol = true := by
  intro p hp
  unfold specPairsPos at hp
  obtain ⟨ic, _, hic⟩ := List.mem_flatMap.mp hp
  obtain ⟨⟨e, a, k⟩, cn⟩ := ic
  obtain ⟨r, _, hx⟩ := List.mem_flatMap.mp hic
  obtain ⟨x, hx', rfl⟩ := List.mem_map.mp hx
  exact srcKeys_isCol _ _ _ x hx'

/-- the table-level tags of a statement holder, as far as the projection onto table lineage needs them (`Proofs/Projection.lean`):
    every table of the FROM clause is READ, the target is WRITTEN, nothing is tagged DROP -/
structure TagFacts (g : LGraph) (tabs : List DObj) (T : DS) : Prop where
  rd : ∀ d ∈ tabs.map (·.d), g.tag (.ds d) .read = some true
  wr : g.tag (.ds T) .write = some true
  nodrop : ∀ n, g.tag n .drop ≠ some true

theorem tag_foldl_addReadO_ne (t : Tag) (ht : t ≠ .read) : ∀ (l : List DObj), (∀ o ∈ l, isTabRef o = true) →
    ∀ (g : LGraph) (n : Node), (l.foldl addReadO g).tag n t = g.tag n t
  | [], _, _, _ => rfl
  | o :: r, hl, g, n => by
    obtain ⟨s, nm, a, rfl⟩ := tabRef_cases o (hl o (by simp))
    simp only [List.foldl_cons]
    rw [tag_foldl_addReadO_ne t ht r (fun x hx => hl x (by simp [hx])), addReadO_tab, tag_addEdge, tag_setTag]
    rw [if_neg]
    intro h
    exact ht h.2

theorem tag_addWriteColumns (g : LGraph) (cols : List Column) (n : Node) (t : Tag) :
    (addWriteColumns g cols).tag n t = g.tag n t := by
  unfold addWriteColumns
  split
  · rfl
  · rename_i t0 _
    have key : ∀ (tp : DS × String) (l : List (Column × Nat)) (g0 : LGraph),
        (l.foldl (fun g ci => g.addEdge (.ds t0) (ci.1.addParent tp).key .hasColumn (some ci.2) none
          (some (.col (ci.1.addParent tp)))) g0).tag n t = g0.tag n t := by
      intro tp l
      induction l with
      | nil => intro g0; rfl
      | cons x r ih => intro g0; simp only [List.foldl_cons]; rw [ih]; simp only [tag_addEdge]
    exact key _ _ g

/-- tag facts of `B ∘ g2` from the wiring invariant: `g2` carries the tags of the holder after the reads -/
theorem tagFacts_of_wired (B' B : LGraph) (tabs : List DObj) (T : DS) (g2 : LGraph) (K : List (Node × Node))
    (hl : ∀ o ∈ tabs, isTabRef o = true)
    (hb : ReadBase (tabs.foldl addReadO B) tabs T) (hw : Wired (tabs.foldl addReadO B) g2 K)
    (hBd : ∀ n, B.tag n .drop = none) (hB'd : ∀ n, B'.tag n .drop = none) :
    TagFacts (B'.compose g2) tabs T := by
  refine ⟨?_, ?_, ?_⟩
  · intro d hd
    rw [tag_compose, hw.tg, (hb.rd d).mpr hd]
  · rw [tag_compose, hw.tg, (hb.wr T).mpr rfl]
  · intro n
    rw [tag_compose, hw.tg, tag_foldl_addReadO_ne .drop (by decide) tabs hl, hBd, hB'd]
    simp

/-- **end to end, query level, column list** (with the tag facts) -/
theorem exWriteQueryCols_exact' (env : Env) (isInsert : Bool) (tgt : List String) (cs : List String) (d : Bool)
    (its : List Item) (frm : List FromExpr) (wh : Option Expr) (grp : List Expr) (hav : Option Expr)
    (hp : env.prov.truthy = false) (hfrag : fragSelectCols env tgt cs (.select d its frm wh grp hav) = true) :
    ∃ g, exWriteQuery env isInsert tgt (some cs) (.select d its frm wh grp hav) = .ok g ∧
      EdgesExact g (specPairsPos env tgt cs its frm) (fromTabs env frm) (listedOwners env tgt cs) ∧
      TagFacts g (fromTabs env frm) (mkTable env tgt none).d := by
  simp only [fragSelectCols, Bool.and_eq_true, Bool.not_eq_true', List.any_eq_false, beq_iff_eq, decide_eq_true_eq] at hfrag
  obtain ⟨⟨⟨⟨⟨⟨hf, hw⟩, hU⟩, hself⟩, hlen⟩, hnd⟩, hits⟩ := hfrag
  have hTR := fromTabs_isTabRef env frm
  obtain ⟨s, nm, al, hmk⟩ : ∃ s nm al, mkTable env tgt none = ⟨.table s nm, al⟩ := ⟨_, _, _, rfl⟩
  have hprinted : (mkTable env tgt none).printed = s ++ "." ++ nm := by rw [hmk]; rfl
  have hd : (mkTable env tgt none).d = .table s nm := by rw [hmk]
  have hself' : ∀ o ∈ fromTabs env frm, o.d ≠ .table s nm := fun o ho => by
    have := hself o ho; rw [hd] at this; simpa using this
  unfold listedOwners
  rw [hd, hprinted] at hnd
  rw [hd] at hits
  rw [hd, hprinted]
  -- the two target holders
  have hW := addWriteColumns_g0 s nm al (cs.map listColumn) (by rw [listColumn_addParent]; exact hnd)
  rw [listColumn_addParent] at hW
  have hWI := addWriteColumns_g0 s nm al (listedCols (DS.table s nm, s ++ "." ++ nm) cs)
    (by rw [listedCols_addParent]; exact hnd)
  rw [listedCols_addParent] at hWI
  have hlc : (listedCols (DS.table s nm, s ++ "." ++ nm) cs).length = cs.length := by simp [listedCols]
  have hcw : ∀ c ∈ listedCols (DS.table s nm, s ++ "." ++ nm) cs,
      c.parent? = some (DS.table s nm, s ++ "." ++ nm) ∧ colOK c := by
    intro c hc
    obtain ⟨x, _, rfl⟩ := List.mem_map.mp hc
    refine ⟨rfl, ?_⟩
    intro p hp'
    simp only [Column.mk1, List.mem_singleton] at hp'
    rw [hp']; rfl
  -- the holder after the reads
  have hedgesI : ∀ u v, (u, v) ∈ (addWriteColumns (g0 ⟨.table s nm, al⟩) (listedCols (DS.table s nm, s ++ "." ++ nm) cs)).edges ↔
      (u, v) ∈ (listedCols (DS.table s nm, s ++ "." ++ nm) cs).map (fun c => (Node.ds (DS.table s nm), c.key)) := by
    intro u v; rw [hWI.edges, List.map_map]; rfl
  obtain ⟨hb, hbE⟩ := readBase_gen _ (.table s nm) (fromTabs env frm) hTR
    (wf_addWriteColumns _ (listedCols (DS.table s nm, s ++ "." ++ nm) cs) (g0_wf ⟨.table s nm, al⟩))
    (by
      intro u v he
      obtain ⟨c, _, hc⟩ := List.mem_map.mp ((hedgesI u v).mp he)
      cases hc
      exact ⟨rfl, rfl⟩)
    (by
      intro a b he
      obtain ⟨c, hc, hab⟩ := List.mem_map.mp ((hedgesI a b).mp he)
      cases hab
      rw [hWI.ety c.key (List.mem_map.mpr ⟨c, hc, rfl⟩)]
      rfl)
    (by
      apply payOK_addWriteColumns
      · intro n c h; rw [g0_payload _ rfl] at h; cases h
      · intro c hc t ht
        have htT : t = .table s nm := by
          unfold writeSet at ht
          rw [mem_tagSet, g0_tag] at ht
          by_cases hx : Node.ds t = Node.ds (DS.table s nm) ∧ Tag.write = Tag.write
          · exact Node.ds.inj hx.1
          · rw [if_neg hx] at ht; cases ht
        intro p hp'
        obtain ⟨x, _, rfl⟩ := List.mem_map.mp hc
        simp only [Column.addParent, Column.mk1] at hp'
        rcases mem_insertParent _ _ _ hp' with h1 | h1
        · rw [h1, htT]; rfl
        · simp only [List.mem_singleton] at h1
          rw [h1]; rfl)
    (by
      intro d' x
      rw [(sameDs_addWriteColumns _ _).eq, g0_tag]
      simp only [Node.ds.injEq])
  have hwc1 := WC.foldl_addReadO (fromTabs env frm) _ (WC.ofWInv hWI) hTR hself'
  have hcte : cteObjs (addWriteColumns (g0 ⟨.table s nm, al⟩) (listedCols (DS.table s nm, s ++ "." ++ nm) cs)) = [] := by
    apply cteObjs_nil
    intro d'
    rw [(sameDs_addWriteColumns _ _).eq, g0_tag]; simp
  have hits' : ∀ it ∈ its, itemOK env.importDefault (fromTabs env frm) (some (.table s nm)) it = true :=
    fun it hit => List.all_eq_true.mp hits it hit
  obtain ⟨g2, hg2, hw2⟩ := endOfQueryCleanupPos_wired env.importDefault _ s nm (fromTabs env frm)
    (its.map (colSpecOf env)) env.revStar (KEYSof env.importDefault (fromTabs env frm))
    (listedCols (DS.table s nm, s ++ "." ++ nm) cs) (by rw [List.length_map, hlc]; exact hlen) hb hself' hwc1 hcw
    (by
      intro c hc g' hfr
      obtain ⟨it, hit, rfl⟩ := List.mem_map.mp hc
      have hk := toSourceColumns_keys env.importDefault g' (fromTabs env frm) (colSpecOf env it) env.revStar hTR
        (aliasOK_frame hfr hb.alias) hU (some (.table s nm)) (by intro T' hT'; cases hT'; exact hself')
        (by
          intro r hr
          obtain ⟨e, a, kw⟩ := it
          rw [colSpecOf_srcs] at hr
          obtain ⟨r0, hr0, rfl⟩ := List.mem_map.mp hr
          have := hits' _ hit
          simp only [itemOK, Bool.and_eq_true, List.all_eq_true] at this
          exact this.2 r0 hr0)
      exact ⟨hk.1, fun y hy => ⟨(hk.2 y hy).1, (hk.2 y hy).2 _ rfl⟩⟩)
  refine ⟨_, ?_, edgesExact_compose (addWriteColumns (g0 ⟨.table s nm, al⟩) (cs.map listColumn)) g2 _ _ _ ?_
    (wf_addWriteColumns _ _ (g0_wf _)).edges
    (edgesExact_of_wired hb (hw2.congr ?_) (specPairsPos_isCol env tgt cs its frm) ?_ ?_),
    by
      exact tagFacts_of_wired _ _ (fromTabs env frm) (.table s nm) g2 _ hTR hb hw2
        (by intro n; rw [tag_addWriteColumns, g0_tag]; simp)
        (by intro n; rw [tag_addWriteColumns, g0_tag]; simp)⟩
  · rw [exWriteQuery_eq]
    unfold wq0
    rw [writeTargetHolder_some env isInsert tgt cs hp s nm al hmk,
      exQuery_tab env _ d its frm wh grp hav (noSubI_of_items _ _ _ its hits) hf hw,
      initHolder_ctxOf_listed s nm al cs hnd, finishBranches_single, tablesOfFrom_tab env _ hcte frm hf, hg2]
    simp only
    rw [expandWildcard_id env.prov g2 hp hw2.pay]
  · -- the target holder's edges are in the select holder
    intro e he
    rw [hW.edges, List.map_map] at he
    obtain ⟨c, hc, rfl⟩ := List.mem_map.mp he
    have h1 : (Node.ds (DS.table s nm), c.key) ∈ ((fromTabs env frm).foldl addReadO
        (addWriteColumns (g0 ⟨.table s nm, al⟩) (listedCols (DS.table s nm, s ++ "." ++ nm) cs))).edges :=
      (hbE _ _).mpr (Or.inl ((hedgesI _ _).mpr (List.mem_map.mpr ⟨c, hc, rfl⟩)))
    exact (hw2.own _ _ rfl rfl).mpr (Or.inl h1)
  · intro x
    have := posPairs_spec env tgt cs its frm x
    rw [hd, hprinted] at this
    exact this
  · intro u v
    rw [hbE, hedgesI]
  · intro p hp'
    obtain ⟨c, _, rfl⟩ := List.mem_map.mp hp'
    exact ⟨rfl, rfl⟩


/-- **end to end, query level, column list** -/
theorem exWriteQueryCols_exact (env : Env) (isInsert : Bool) (tgt : List String) (cs : List String) (d : Bool)
    (its : List Item) (frm : List FromExpr) (wh : Option Expr) (grp : List Expr) (hav : Option Expr)
    (hp : env.prov.truthy = false) (hfrag : fragSelectCols env tgt cs (.select d its frm wh grp hav) = true) :
    ∃ g, exWriteQuery env isInsert tgt (some cs) (.select d its frm wh grp hav) = .ok g ∧
      EdgesExact g (specPairsPos env tgt cs its frm) (fromTabs env frm) (listedOwners env tgt cs) := by
  obtain ⟨g, h1, h2, _⟩ := exWriteQueryCols_exact' env isInsert tgt cs d its frm wh grp hav hp hfrag
  exact ⟨g, h1, h2⟩

/-- **end to end, statement level, column list** -/
theorem analyze_exact_cols (env : Env) (silent : Bool) (s : Stmt) (hp : env.prov.truthy = false)
    (hs : fragStmtCols env s = true) :
    ∃ g, analyze env silent s = .ok g ∧
      EdgesExact g (specPairsPos env (stmtTarget s) (stmtCols s) (stmtItems s) (stmtFrom s)) (fromTabs env (stmtFrom s))
        (listedOwners env (stmtTarget s) (stmtCols s)) := by
  cases s with
  | insert kd tk tgt cols q br =>
    cases cols with
    | none => simp [fragStmtCols] at hs
    | some cs =>
      cases q with
      | setop _ _ => simp [fragStmtCols, fragSelectCols] at hs
      | withq _ _ => simp [fragStmtCols, fragSelectCols] at hs
      | select d its frm wh grp hav =>
        have := exWriteQueryCols_exact env true tgt cs d its frm wh grp hav hp (by simpa [fragStmtCols] using hs)
        unfold analyze
        have hd : dispatch (stmtType (.insert kd tk tgt (some cs) (.select d its frm wh grp hav) br)) =
            some "CreateInsertExtractor" := disp_insert
        rw [hd]
        exact this
  | createView tgt orr cols q =>
    cases cols with
    | none => simp [fragStmtCols] at hs
    | some cs =>
      cases q with
      | setop _ _ => simp [fragStmtCols, fragSelectCols] at hs
      | withq _ _ => simp [fragStmtCols, fragSelectCols] at hs
      | select d its frm wh grp hav =>
        have := exWriteQueryCols_exact env false tgt cs d its frm wh grp hav hp (by simpa [fragStmtCols] using hs)
        unfold analyze
        have hd : dispatch (stmtType (.createView tgt orr (some cs) (.select d its frm wh grp hav))) =
            some "CreateInsertExtractor" := disp_create_view
        rw [hd]
        exact this
  | ctas _ _ _ _ _ => simp [fragStmtCols] at hs
  | query _ _ => simp [fragStmtCols] at hs
  | insertValues _ _ _ => simp [fragStmtCols] at hs
  | createTable _ _ _ => simp [fragStmtCols] at hs
  | createTableLike _ _ => simp [fragStmtCols] at hs
  | update _ _ _ _ _ => simp [fragStmtCols] at hs
  | merge _ _ _ _ _ _ => simp [fragStmtCols] at hs
  | copy _ _ => simp [fragStmtCols] at hs
  | drop _ _ _ => simp [fragStmtCols] at hs
  | alterRename _ _ => simp [fragStmtCols] at hs
  | renameTable _ => simp [fragStmtCols] at hs
  | noop _ _ => simp [fragStmtCols] at hs
  | unsupported _ => simp [fragStmtCols] at hs

theorem mem_specPairsPos (env : Env) (tgt : List String) (cs : List String) (its : List Item) (frm : List FromExpr)
    (u v : Node) :
    (u, v) ∈ specPairsPos env tgt cs its frm ↔
      ∃ e a k c, (Item.mk e a k, c) ∈ its.zip cs ∧ ∃ r ∈ refs e,
        u ∈ srcKeys env.importDefault (fromTabs env frm) (normRef r) ∧
        v = .col ((mkTable env tgt none).printed ++ "." ++ Ident.escapeS c) (some (mkTable env tgt none).d) := by
  unfold specPairsPos
  rw [List.mem_flatMap]
  constructor
  · rintro ⟨ic, hic, h⟩
    obtain ⟨⟨e, a, k⟩, c⟩ := ic
    obtain ⟨r, hr, h0⟩ := List.mem_flatMap.mp h
    obtain ⟨x, hx, h1⟩ := List.mem_map.mp h0
    simp only [Prod.mk.injEq] at h1
    exact ⟨e, a, k, c, hic, r, hr, by rw [← h1.1]; exact hx, h1.2.symm⟩
  · rintro ⟨e, a, k, c, hic, r, hr, h1, h2⟩
    refine ⟨(.mk e a k, c), hic, List.mem_flatMap.mpr ⟨r, hr, List.mem_map.mpr ⟨u, h1, ?_⟩⟩⟩
    rw [h2]; rfl

/-! ### reading `srcKeys` -/

theorem srcKeys_qualified (imp : String) (tabs : List DObj) (c q : String) :
    srcKeys imp tabs (c, some q) = [(srcCol imp tabs (c, some q)).key] := by
  have : isStarMulti tabs (c, some q) = false := by unfold isStarMulti; cases tabs <;> rfl
  simp [srcKeys, this]

theorem srcKeys_single (imp : String) (t : DObj) (c : String) :
    srcKeys imp [t] (c, none) = [(srcCol imp [t] (c, none)).key] := by
  simp [srcKeys, isStarMulti]

theorem srcKeys_unresolved (imp : String) (tabs : List DObj) (h : tabs.length ≠ 1) (c : String) (hc : c ≠ "*") :
    srcKeys imp tabs (c, none) = [.col c none] := by
  have hsm : isStarMulti tabs (c, none) = false := by
    match tabs, h with
    | [], _ => simpa [isStarMulti] using hc
    | _ :: _ :: _, _ => simpa [isStarMulti] using hc
    | [t], h => exact absurd rfl h
  simp only [srcKeys, hsm, Bool.false_eq_true, if_false]
  rw [srcCol_key_unresolved imp tabs h c]

theorem srcKeys_star (imp : String) (tabs : List DObj) (h : tabs.length ≠ 1) :
    srcKeys imp tabs ("*", none) = (denoted tabs).map starKey := by
  have hsm : isStarMulti tabs ("*", none) = true := by
    match tabs, h with
    | [], _ => rfl
    | _ :: _ :: _, _ => rfl
    | [t], h => exact absurd rfl h
  simp only [srcKeys, hsm, if_true]

theorem starKey_table (s n : String) : starKey (.table s n) = .col (s ++ "." ++ n ++ "." ++ "*") (some (.table s n)) := rfl


/-! ## 9. set operations: the first branch names the columns, the other branches are wired BY POSITION -/

theorem nodes_addLin_mono (g : LGraph) (src tgt : Column) (tp : DS × String) (m : Node) (hm : m ∈ g.nodes) :
    m ∈ (addLin g src tgt tp).nodes := by
  unfold addLin
  cases src.parent? with
  | none =>
    simp only [mem_nodes_addEdge]
    exact Or.inl (Or.inl hm)
  | some sp =>
    simp only [mem_nodes_addEdge]
    exact Or.inl (Or.inl (Or.inl hm))

/-- the inner loop keeps key objects and edge indices -/
theorem inner_keeps (tgt : Column) (tp : DS × String) (htp : tgt.parent? = some tp) :
    ∀ (srcs : List Column) (g g' : LGraph), srcs.foldlM (fun g s => addColumnLineage g s tgt) g = .ok g' →
      (∀ m ∈ g.nodes, m ∈ g'.nodes ∧ g'.payload m = g.payload m) ∧ (∀ a b, g'.idx a b = g.idx a b)
  | [], g, g', h => by
    simp only [List.foldlM_nil, pure, Except.pure] at h
    cases h
    exact ⟨fun m hm => ⟨hm, rfl⟩, fun _ _ => rfl⟩
  | s :: r, g, g', h => by
    simp only [List.foldlM_cons, bind, Except.bind, addColumnLineage_eq g s tgt tp htp] at h
    obtain ⟨h1, h2⟩ := inner_keeps tgt tp htp r _ g' h
    refine ⟨fun m hm => ?_, fun a b => ?_⟩
    · obtain ⟨hn, hp⟩ := h1 m (nodes_addLin_mono g s tgt tp m hm)
      exact ⟨hn, by rw [hp, payload_addLin_of_mem g s tgt tp m hm]⟩
    · rw [h2, idx_addLin]

/-- the first time a target column is wired: it becomes the LAST column of the target and its key object is the column -/
theorem inner_new (tgt : Column) (tp : DS × String) (htp : tgt.parent? = some tp) (T : DS) (hT : tp.1 = T) :
    ∀ (srcs : List Column) (g g' : LGraph), srcs ≠ [] → tgt.key ∉ g.outEdges (.ds T) → tgt.key ∉ g.nodes →
      (∀ s ∈ srcs, s.key ≠ tgt.key ∧ ∀ sp, s.parent? = some sp → sp.1 ≠ T) →
      srcs.foldlM (fun g s => addColumnLineage g s tgt) g = .ok g' →
      g'.outEdges (.ds T) = g.outEdges (.ds T) ++ [tgt.key] ∧ g'.payload tgt.key = some (.col tgt)
  | [], _, _, hne, _, _, _, _ => absurd rfl hne
  | s :: r, g, g', _, hout, hnode, hs, h => by
    simp only [List.foldlM_cons, bind, Except.bind, addColumnLineage_eq g s tgt tp htp] at h
    have e := outT_addLin g s tgt tp T hT (hs s (by simp)).2
    rw [if_neg hout] at e
    have hin : tgt.key ∈ (addLin g s tgt tp).outEdges (.ds T) := by rw [e]; simp
    have hrest := (outT_inner tgt tp htp T hT r _ g' (fun x hx => (hs x (by simp [hx])).2) h).1 hin
    have hkeep := (inner_keeps tgt tp htp r _ g' h).1
    -- the key object after the first step
    have hpay : (addLin g s tgt tp).payload tgt.key = some (.col tgt) := by
      have h0 : (g.addEdge s.key tgt.key .lineage none (some (.col s)) (some (.col tgt))).payload tgt.key = some (.col tgt) := by
        rw [Graph.payload_addEdge, Graph.payload_addNode, if_neg, if_pos rfl]
        rw [mem_nodes_addNode]
        rintro (hx | hx)
        · exact hnode hx
        · exact (hs s (by simp)).1 hx.symm
      have hn0 : tgt.key ∈ (g.addEdge s.key tgt.key .lineage none (some (.col s)) (some (.col tgt))).nodes :=
        (mem_nodes_addEdge _ _ _ _ _ _ _ _).mpr (Or.inr (Or.inr rfl))
      have hn1 : tgt.key ∈ ((g.addEdge s.key tgt.key .lineage none (some (.col s)) (some (.col tgt))).addEdge (.ds tp.1)
          tgt.key .hasColumn none (some (.sub tp.2)) (some (.col tgt))).nodes :=
        (mem_nodes_addEdge _ _ _ _ _ _ _ _).mpr (Or.inl hn0)
      unfold addLin
      cases s.parent? with
      | none =>
        simp only
        rw [payload_addEdge_of_mem _ _ _ _ _ _ _ _ hn0]; exact h0
      | some sp =>
        simp only
        rw [payload_addEdge_of_mem _ _ _ _ _ _ _ _ hn1, payload_addEdge_of_mem _ _ _ _ _ _ _ _ hn0]; exact h0
    have hnode' : tgt.key ∈ (addLin g s tgt tp).nodes := mem_nodes_of_payload _ _ _ hpay
    exact ⟨by rw [hrest, e], by rw [(hkeep _ hnode').2, hpay]⟩

theorem pairwise_const_zero {α : Type} : ∀ (l : List α), ((l.map (fun _ => (0 : Nat))).Pairwise (· ≤ ·))
  | [] => by simp
  | _ :: r => by
    simp only [List.map_cons, List.pairwise_cons, List.mem_map, forall_exists_index, and_imp]
    exact ⟨fun a _ _ h => by omega, pairwise_const_zero r⟩

/-- the loop over the select items of the FIRST group: every item has a source and the item names are pairwise
    different, so the target ends up owning exactly the items' columns, in item order -/
theorem cleanupFoldOwn_wc {g1 : LGraph} (imp : String) (s nm : String) (n : Nat) (tabs : List DObj) (k : Nat)
    (KEYS : ColSpec → List Node) (hws : writeSet g1 = [.table s nm]) (hnr : DS.table s nm ∉ readSet g1)
    (hg1 : ∀ m ∈ g1.nodes, m.isCol = false) :
    ∀ (rest pre : List ColSpec) (g : LGraph) (K : List (Node × Node)), Wired g1 g K →
      WC (.table s nm) (pre.map (fun c => Column.mk1 c.raw (some (DS.table s nm, s ++ "." ++ nm)))) g →
      (∀ x, g.idx (.ds (.table s nm)) x = none) →
      (∀ p ∈ K, colParent p.1 ≠ some (.table s nm) ∧
        p.2 ∈ (pre.map (fun c => (Column.mk1 c.raw (some (DS.table s nm, s ++ "." ++ nm))).key))) →
      pre.length + rest.length ≤ n →
      ((pre ++ rest).map (fun c => (Column.mk1 c.raw (some (DS.table s nm, s ++ "." ++ nm))).key)).Nodup →
      (∀ c ∈ rest, KEYS c ≠ [] ∧ ∀ g, Frame g1 g →
        (∀ x, x ∈ (toSourceColumns imp (aliasMapping g tabs) c k).map (·.key) ↔ x ∈ KEYS c) ∧
        (∀ y ∈ toSourceColumns imp (aliasMapping g tabs) c k,
          colOK y ∧ ∀ sp, y.parent? = some sp → sp.1 ≠ .table s nm)) →
      ∃ g', (rest.zipIdx pre.length).foldlM
          (fun g ci => cleanupItem imp (.table s nm, printedDS g (.table s nm)) n tabs g ci k) g = .ok g' ∧
        Wired g1 g' (K ++ keyPairs KEYS (.table s nm, s ++ "." ++ nm) rest) ∧
        WC (.table s nm) ((pre ++ rest).map (fun c => Column.mk1 c.raw (some (DS.table s nm, s ++ "." ++ nm)))) g' ∧
        (∀ x, g'.idx (.ds (.table s nm)) x = none)
  | [], pre, g, K, h, hwc, hidx, _, _, _, _ => ⟨g, rfl, by simpa [keyPairs] using h, by simpa using hwc, hidx⟩
  | c :: r, pre, g, K, h, hwc, hidx, hK, hn, hnd, hsrc => by
    have hw : writeSet g = [.table s nm] := by unfold writeSet; rw [tagSet_eq_of_frame h.frame]; exact hws
    have hrd : readSet g = readSet g1 := by unfold readSet; rw [tagSet_eq_of_frame h.frame]
    have htt := targetTable_of g _ hw (by rw [hrd]; exact hnr)
    obtain ⟨hne, hsrcc⟩ := hsrc c (by simp)
    obtain ⟨hkeys, hys⟩ := hsrcc g h.frame
    -- fewer write columns than items
    have hlen : (writeColumns g).length < n := by
      have h1 := length_writeColumns_le g _ htt
      rw [hwc.out] at h1
      simp only [List.length_map, List.length_cons] at h1 hn
      omega
    obtain ⟨g', hg', hfold, hw'⟩ := cleanupItem_wired imp (.table s nm) (s ++ "." ++ nm) n tabs c pre.length k _ h rfl
      (fun y hy => (hys y hy).1) hlen rfl
    -- the item's own column is new
    have hndc : (Column.mk1 c.raw (some (DS.table s nm, s ++ "." ++ nm))).key ∉
        pre.map (fun c => (Column.mk1 c.raw (some (DS.table s nm, s ++ "." ++ nm))).key) := by
      rw [List.map_append, List.nodup_append] at hnd
      intro hx
      exact hnd.2.2 _ hx _ (by simp) rfl
    have hsne : toSourceColumns imp (aliasMapping g tabs) c k ≠ [] := by
      intro he
      cases hK' : KEYS c with
      | nil => exact hne hK'
      | cons x xs =>
        have := (hkeys x).mpr (by rw [hK']; simp)
        rw [he] at this; cases this
    have hout : (Column.mk1 c.raw (some (DS.table s nm, s ++ "." ++ nm))).key ∉ g.outEdges (.ds (.table s nm)) := by
      rw [hwc.out, List.map_map]; exact hndc
    have hnode : (Column.mk1 c.raw (some (DS.table s nm, s ++ "." ++ nm))).key ∉ g.nodes := by
      intro hm
      rcases h.cnodes _ rfl hm with h1 | ⟨p, hp, h1 | h1⟩
      · have := hg1 _ h1; cases this
      · have := (hK p hp).1
        rw [← h1] at this
        exact this rfl
      · have := (hK p hp).2
        rw [← h1] at this
        exact hndc this
    have hsk : ∀ y ∈ toSourceColumns imp (aliasMapping g tabs) c k,
        y.key ≠ (Column.mk1 c.raw (some (DS.table s nm, s ++ "." ++ nm))).key ∧
        ∀ sp, y.parent? = some sp → sp.1 ≠ .table s nm := by
      intro y hy
      refine ⟨?_, (hys y hy).2⟩
      intro hk
      have h1 : colParent y.key = some (.table s nm) := by rw [hk]; rfl
      rw [colParent_key] at h1
      cases hyp : y.parent? with
      | none => rw [hyp] at h1; cases h1
      | some sp =>
        rw [hyp] at h1
        simp only [Option.map_some, Option.some.injEq] at h1
        exact (hys y hy).2 sp hyp h1
    obtain ⟨hout', hpay'⟩ := inner_new (Column.mk1 c.raw (some (.table s nm, s ++ "." ++ nm))) (.table s nm, s ++ "." ++ nm)
      rfl (.table s nm) rfl _ g g' hsne hout hnode hsk hfold
    obtain ⟨hkeepN, hkeepI⟩ := inner_keeps (Column.mk1 c.raw (some (.table s nm, s ++ "." ++ nm))) (.table s nm, s ++ "." ++ nm)
      rfl _ g g' hfold
    have hidx' : ∀ x, g'.idx (.ds (.table s nm)) x = none := fun x => by rw [hkeepI]; exact hidx x
    have hwc' : WC (.table s nm) ((pre ++ [c]).map (fun c => Column.mk1 c.raw (some (DS.table s nm, s ++ "." ++ nm)))) g' := by
      refine ⟨?_, ?_, ?_⟩
      · rw [hout', hwc.out]; simp
      · simp only [hidx', Option.getD_none]
        exact pairwise_const_zero _
      · intro c' hc'
        simp only [List.map_append, List.map_cons, List.map_nil, List.mem_append, List.mem_singleton] at hc'
        rcases hc' with hc' | hc'
        · have := hwc.pay c' hc'
          rw [(hkeepN _ (mem_nodes_of_payload g _ _ this)).2]; exact this
        · rw [hc']; exact hpay'
    have hK' : ∀ p ∈ K ++ (toSourceColumns imp (aliasMapping g tabs) c k).map
        (fun y => (y.key, (Column.mk1 c.raw (some (DS.table s nm, s ++ "." ++ nm))).key)),
        colParent p.1 ≠ some (.table s nm) ∧
        p.2 ∈ ((pre ++ [c]).map (fun c => (Column.mk1 c.raw (some (DS.table s nm, s ++ "." ++ nm))).key)) := by
      intro p hp
      rcases List.mem_append.mp hp with hp | hp
      · exact ⟨(hK p hp).1, by simp only [List.map_append, List.mem_append]; exact Or.inl (hK p hp).2⟩
      · obtain ⟨y, hy, rfl⟩ := List.mem_map.mp hp
        refine ⟨?_, by simp⟩
        simp only
        rw [colParent_key]
        intro hcp
        cases hyp : y.parent? with
        | none => rw [hyp] at hcp; cases hcp
        | some sp =>
          rw [hyp] at hcp
          simp only [Option.map_some, Option.some.injEq] at hcp
          exact (hys y hy).2 sp hyp hcp
    obtain ⟨g'', hg'', hw'', hwc'', hidx''⟩ := cleanupFoldOwn_wc imp s nm n tabs k KEYS hws hnr hg1 r (pre ++ [c]) g' _ hw'
      hwc' hidx' hK' (by simp only [List.length_append, List.length_cons, List.length_nil] at hn ⊢; omega)
      (by simpa using hnd) (fun c' hc' => hsrc c' (by simp [hc']))
    refine ⟨g'', ?_, hw''.congr ?_, by simpa using hwc'', hidx''⟩
    · simp only [List.zipIdx_cons, List.foldlM_cons, bind, Except.bind]
      have : cleanupItem imp (.table s nm, printedDS g (.table s nm)) n tabs g (c, pre.length) k = .ok g' := hg'
      rw [this]
      have hlen' : (pre ++ [c]).length = pre.length + 1 := by simp
      rw [hlen'] at hg''
      exact hg''
    · intro x
      simp only [keyPairs, List.flatMap_cons, List.mem_append, List.mem_map]
      constructor
      · rintro ((h1 | ⟨y, hy, rfl⟩) | h1)
        · exact Or.inl h1
        · exact Or.inr (Or.inl ⟨y.key, (hkeys _).mp (List.mem_map.mpr ⟨y, hy, rfl⟩), rfl⟩)
        · exact Or.inr (Or.inr h1)
      · rintro (h1 | ⟨a, ha, rfl⟩ | h1)
        · exact Or.inl (Or.inl h1)
        · obtain ⟨y, hy, hyk⟩ := List.mem_map.mp ((hkeys a).mpr ha)
          exact Or.inl (Or.inr ⟨y, hy, by rw [hyk]⟩)
        · exact Or.inr h1


theorem idx_none_of_out_nil (g : LGraph) (T : DS) (h : g.outEdges (.ds T) = []) : ∀ x, g.idx (.ds T) x = none := by
  intro x
  have : (Node.ds T, x) ∉ g.edges := by
    intro he
    have := (mem_outEdges g _ _).mpr he
    rw [h] at this; cases this
  simp [Graph.idx, Graph.hasEdge, this]

/-- `cleanupGroup` on the FIRST group of a set operation (or the only group) when every item has a source and the item names
    are pairwise different: own‑name wiring, and the target owns exactly the items' columns afterwards -/
theorem cleanupGroup_first {g1 : LGraph} (imp : String) (s nm : String) (tabs : List DObj) (k : Nat)
    (KEYS : ColSpec → List Node) (cols : List ColSpec)
    (hws : writeSet g1 = [.table s nm]) (hnr : DS.table s nm ∉ readSet g1) (hg1 : ∀ m ∈ g1.nodes, m.isCol = false)
    (hout : g1.outEdges (.ds (.table s nm)) = []) (hbase : Wired g1 g1 [])
    (hnd : (cols.map (fun c => (Column.mk1 c.raw (some (DS.table s nm, s ++ "." ++ nm))).key)).Nodup)
    (hsrc : ∀ c ∈ cols, KEYS c ≠ [] ∧ ∀ g, Frame g1 g →
      (∀ x, x ∈ (toSourceColumns imp (aliasMapping g tabs) c k).map (·.key) ↔ x ∈ KEYS c) ∧
      (∀ y ∈ toSourceColumns imp (aliasMapping g tabs) c k, colOK y ∧ ∀ sp, y.parent? = some sp → sp.1 ≠ .table s nm)) :
    ∃ g', cleanupGroup imp g1 cols tabs k = .ok g' ∧ Wired g1 g' (keyPairs KEYS (.table s nm, s ++ "." ++ nm) cols) ∧
      WC (.table s nm) (cols.map (fun c => Column.mk1 c.raw (some (DS.table s nm, s ++ "." ++ nm)))) g' := by
  obtain ⟨g', hg', hw, hwc, _⟩ := cleanupFoldOwn_wc imp s nm cols.length tabs k KEYS hws hnr hg1 cols [] g1 [] hbase
    ⟨by simpa using hout, by simp, by simp⟩ (idx_none_of_out_nil g1 _ hout) (by simp) (by simp) (by simpa using hnd) hsrc
  refine ⟨g', ?_, by simpa using hw, by simpa using hwc⟩
  unfold cleanupGroup
  rw [hws]
  simp only
  have : (cols.zipIdx).foldlM
      (fun g ci => cleanupItem imp (.table s nm, printedDS g (.table s nm)) cols.length tabs g ci k) g1 = .ok g' := by
    simpa using hg'
  rw [this]

/-- `cleanupGroup` on a LATER group: as many items as the target has columns, wired by position -/
theorem cleanupGroup_pos {g1 g : LGraph} {K : List (Node × Node)} (imp : String) (s nm : String) (tabs : List DObj) (k : Nat)
    (KEYS : ColSpec → List Node) (cols : List ColSpec) (colsW : List Column)
    (hws : writeSet g1 = [.table s nm]) (hnr : DS.table s nm ∉ readSet g1)
    (hcw : ∀ c ∈ colsW, c.parent? = some (DS.table s nm, s ++ "." ++ nm) ∧ colOK c)
    (h : Wired g1 g K) (hwc : WC (.table s nm) colsW g) (hlen : cols.length = colsW.length)
    (hsrc : ∀ c ∈ cols, ∀ g, Frame g1 g →
      (∀ x, x ∈ (toSourceColumns imp (aliasMapping g tabs) c k).map (·.key) ↔ x ∈ KEYS c) ∧
      (∀ y ∈ toSourceColumns imp (aliasMapping g tabs) c k, colOK y ∧ ∀ sp, y.parent? = some sp → sp.1 ≠ .table s nm)) :
    ∃ g', cleanupGroup imp g cols tabs k = .ok g' ∧ Wired g1 g' (K ++ posPairs KEYS (cols.zip colsW)) ∧
      WC (.table s nm) colsW g' := by
  obtain ⟨g', hg', hw, hwc'⟩ := cleanupFoldPos_wired imp s nm cols.length tabs k KEYS colsW hlen.symm hws hnr hcw cols colsW []
    g K rfl hlen h hwc hsrc
  refine ⟨g', ?_, hw, hwc'⟩
  have hwg : writeSet g = [.table s nm] := by unfold writeSet; rw [tagSet_eq_of_frame h.frame]; exact hws
  unfold cleanupGroup
  rw [hwg]
  simp only
  have : (cols.zipIdx).foldlM
      (fun g ci => cleanupItem imp (.table s nm, printedDS g (.table s nm)) cols.length tabs g ci k) g = .ok g' := by
    simpa using hg'
  rw [this]

/-- the later groups of a set operation, one after the other -/
theorem groupsPos_wired {g1 : LGraph} (imp : String) (s nm : String) (k : Nat) (colsW : List Column)
    (hws : writeSet g1 = [.table s nm]) (hnr : DS.table s nm ∉ readSet g1)
    (hcw : ∀ c ∈ colsW, c.parent? = some (DS.table s nm, s ++ "." ++ nm) ∧ colOK c) :
    ∀ (grps : List (List ColSpec × List DObj)) (g : LGraph) (K : List (Node × Node)), Wired g1 g K →
      WC (.table s nm) colsW g →
      (∀ grp ∈ grps, grp.1.length = colsW.length ∧ ∀ c ∈ grp.1, ∀ g, Frame g1 g →
        (∀ x, x ∈ (toSourceColumns imp (aliasMapping g grp.2) c k).map (·.key) ↔ x ∈ c.srcs.flatMap (srcKeys imp grp.2)) ∧
        (∀ y ∈ toSourceColumns imp (aliasMapping g grp.2) c k,
          colOK y ∧ ∀ sp, y.parent? = some sp → sp.1 ≠ .table s nm)) →
      ∃ g', grps.foldlM (fun g grp => cleanupGroup imp g grp.1 grp.2 k) g = .ok g' ∧
        Wired g1 g' (K ++ grps.flatMap (fun grp => posPairs (KEYSof imp grp.2) (grp.1.zip colsW)))
  | [], g, K, h, _, _ => ⟨g, rfl, by simpa using h⟩
  | grp :: r, g, K, h, hwc, hall => by
    obtain ⟨hl, hs⟩ := hall grp (by simp)
    obtain ⟨g', hg', hw', hwc'⟩ := cleanupGroup_pos imp s nm grp.2 k (KEYSof imp grp.2) grp.1 colsW hws hnr hcw h hwc hl hs
    obtain ⟨g'', hg'', hw''⟩ := groupsPos_wired imp s nm k colsW hws hnr hcw r g' _ hw' hwc'
      (fun grp' hg => hall grp' (by simp [hg]))
    refine ⟨g'', ?_, by simpa [List.append_assoc] using hw''⟩
    simp only [List.foldlM_cons, bind, Except.bind, hg']
    exact hg''

/-! ### `end_of_query_cleanup` with union barriers is the loop over the groups -/

/-- the cumulative end positions of the groups (what `end_of_query_cleanup` iterates over) -/
def ends (c t : Nat) : List (List ColSpec × List DObj) → List (Nat × Nat)
  | [] => []
  | grp :: r => (c + grp.1.length, t + grp.2.length) :: ends (c + grp.1.length) (t + grp.2.length) r

theorem slice_mid {α : Type} (pre x post : List α) : slice (pre ++ (x ++ post)) pre.length (pre.length + x.length) = x := by
  simp [slice, List.drop_left, List.take_left]

theorem go_groups (imp : String) (k : Nat) : ∀ (grps : List (List ColSpec × List DObj)) (preC : List ColSpec)
    (preT : List DObj) (g : LGraph),
    endOfQueryCleanup.go imp (preT ++ grps.flatMap (·.2)) (preC ++ grps.flatMap (·.1)) k g (preC.length, preT.length)
        (ends preC.length preT.length grps) =
      grps.foldlM (fun g grp => cleanupGroup imp g grp.1 grp.2 k) g
  | [], _, _, _ => by simp [ends, endOfQueryCleanup.go, pure, Except.pure]
  | grp :: r, preC, preT, g => by
    simp only [ends, endOfQueryCleanup.go, List.flatMap_cons, slice_mid, List.foldlM_cons, bind, Except.bind]
    cases hcg : cleanupGroup imp g grp.1 grp.2 k with
    | error e => rfl
    | ok g' =>
      simp only
      have := go_groups imp k r (preC ++ grp.1) (preT ++ grp.2) g'
      simp only [List.length_append, List.append_assoc] at this
      exact this


/-- the start positions of the groups (the union barriers `finishBranches` records for the groups after the first) -/
def starts (c t : Nat) : List (List ColSpec × List DObj) → List (Nat × Nat)
  | [] => []
  | grp :: r => (c, t) :: starts (c + grp.1.length) (t + grp.2.length) r

theorem starts_ends : ∀ (l : List (List ColSpec × List DObj)) (c t : Nat),
    starts c t l ++ [(c + (l.flatMap (·.1)).length, t + (l.flatMap (·.2)).length)] = (c, t) :: ends c t l
  | [], c, t => by simp [starts, ends]
  | grp :: r, c, t => by
    have ih := starts_ends r (c + grp.1.length) (t + grp.2.length)
    simp only [starts, ends, List.flatMap_cons, List.length_append, List.cons_append, List.cons.injEq, true_and]
    rw [← ih]
    simp only [Nat.add_assoc]

/-- columns and tables of one branch, as `finishBranches` collects them -/
def grpOf (env : Env) (g : LGraph) (b : List Item × List FromExpr) : List ColSpec × List DObj :=
  (b.1.map (colSpecOf env), tablesOfFrom env g b.2)

theorem fb_fold (env : Env) (g : LGraph) : ∀ (l : List (List Item × List FromExpr)) (j : Nat)
    (acc : List DObj × List ColSpec × List (Nat × Nat)), j ≠ 0 →
    (l.zipIdx j).foldl
      (fun (acc : List DObj × List ColSpec × List (Nat × Nat)) (b : (List Item × List FromExpr) × Nat) =>
        let bs := if b.2 != 0 then acc.2.2 ++ [(acc.2.1.length, acc.1.length)] else acc.2.2
        (acc.1 ++ tablesOfFrom env g b.1.2, acc.2.1 ++ b.1.1.map (colSpecOf env), bs)) acc =
      (acc.1 ++ (l.map (grpOf env g)).flatMap (·.2), acc.2.1 ++ (l.map (grpOf env g)).flatMap (·.1),
        acc.2.2 ++ starts acc.2.1.length acc.1.length (l.map (grpOf env g)))
  | [], _, acc, _ => by simp [starts]
  | b :: r, j, acc, hj => by
    have hj' : (j != 0) = true := by simpa using hj
    simp only [List.zipIdx_cons, List.foldl_cons, hj', if_true]
    rw [fb_fold env g r (j + 1) _ (by omega)]
    simp only [List.map_cons, List.flatMap_cons, grpOf, starts, List.length_append, List.append_assoc, List.cons_append,
      List.nil_append]

/-- **`finishBranches` on a non‑empty branch list**: all reads first, then one `cleanupGroup` per branch, then the wildcard
    expansion -/
theorem finishBranches_groups (env : Env) (g : LGraph) (b1 : List Item × List FromExpr)
    (rest : List (List Item × List FromExpr)) :
    finishBranches env g (b1 :: rest) =
      (match ((b1 :: rest).map (grpOf env g)).foldlM (fun g grp => cleanupGroup env.importDefault g grp.1 grp.2 env.revStar)
          ((((b1 :: rest).map (grpOf env g)).flatMap (·.2)).foldl addReadO g) with
        | .ok g' => .ok (expandWildcard env.prov g')
        | .error e => .error e) := by
  unfold finishBranches
  simp only [List.zipIdx_cons, List.foldl_cons, bne_self_eq_false, Bool.false_eq_true, if_false, List.nil_append,
    List.length_nil, Nat.zero_add]
  rw [fb_fold env g rest 1 _ (by omega)]
  simp only [List.nil_append]
  have hgo := go_groups env.importDefault env.revStar ((b1 :: rest).map (grpOf env g)) [] []
    ((((b1 :: rest).map (grpOf env g)).flatMap (·.2)).foldl addReadO g)
  simp only [List.nil_append, List.length_nil] at hgo
  rw [← hgo]
  unfold endOfQueryCleanup
  have hse := starts_ends (rest.map (grpOf env g)) (b1.1.map (colSpecOf env)).length (tablesOfFrom env g b1.2).length
  simp only [List.map_cons, List.flatMap_cons, ends, grpOf, Nat.zero_add, List.length_append] at hse ⊢
  rw [hse]
  rfl

def branchOK : Branch → Bool
  | .mk (.select _ its frm wh _ _) _ => noSubItems its && frm.all feOK && noSubOpt wh
  | _ => false

def opBranchOK : OpBranch → Bool
  | .mk _ b => branchOK b

theorem sqBranch_tab (env : Env) (b : Branch) (g : LGraph) (h : branchOK b = true) : sqBranch env b g = .ok g := by
  cases b with
  | mk q br =>
    cases q with
    | setop _ _ => simp [branchOK] at h
    | withq _ _ => simp [branchOK] at h
    | select d its frm wh grp hav =>
      simp only [branchOK, Bool.and_eq_true] at h
      simp only [sqBranch, sqItems_noSub env its _ (noSubI_of_noSubItems its h.1.1), sqFrom_tab env _ _ frm h.1.2,
        sqWhere_noSub env _ wh h.2]

theorem sqOpBranches_tab (env : Env) : ∀ (l : List OpBranch) (g : LGraph), l.all opBranchOK = true →
    sqOpBranches env l g = .ok g
  | [], _, _ => by simp only [sqOpBranches]
  | .mk op b :: r, g, h => by
    simp only [List.all_cons, Bool.and_eq_true, opBranchOK] at h
    simp only [sqOpBranches, sqBranch_tab env b g h.1, sqOpBranches_tab env r g h.2]

theorem exQuery_setop_tab (env : Env) (ctx : Ctx) (first : Branch) (rest : List OpBranch) (hf : branchOK first = true)
    (hr : rest.all opBranchOK = true) :
    exQuery env ctx (.setop first rest) =
      finishBranches env (initHolder ctx) (branchParts first :: rest.map opBranchParts) := by
  simp only [exQuery, sqBranch_tab env first _ hf, sqOpBranches_tab env rest _ hr]


/-! ### the statement over a set operation -/

/-- (select items, FROM clause) of the branches -/
def setopParts (first : Branch) (rest : List OpBranch) : List (List Item × List FromExpr) :=
  branchParts first :: rest.map opBranchParts

/-- the pairs a LATER branch contributes: item `i` of the branch goes to the column named by item `i` of the FIRST branch -/
def unionBranchPairs (env : Env) (tgt : List String) (its1 : List Item) (b : List Item × List FromExpr) : List (Node × Node) :=
  (b.1.zip its1).flatMap (fun ii =>
    match ii.1 with
    | .mk e _ _ => (refs e).flatMap (fun r =>
        (srcKeys env.importDefault (fromTabs env b.2) (normRef r)).map (fun x => (x, (tgtCol env tgt ii.2).key))))

/-- **specification, set operation**: the first branch by its own item names, the other branches by position -/
def specPairsUnion (env : Env) (tgt : List String) (parts : List (List Item × List FromExpr)) : List (Node × Node) :=
  match parts with
  | [] => []
  | b1 :: rest => specPairs env tgt b1.1 b1.2 ++ rest.flatMap (unionBranchPairs env tgt b1.1)

/-- a table of the group has the same alias attribute wherever else it occurs in the statement (the alias edges of ALL
    branches are in the holder when a group is resolved) -/
def aliasConsistent (all grp : List DObj) : Bool :=
  all.all (fun o => !(grp.any (fun o' => o'.d == o.d)) || grp.any (fun o' => o'.d == o.d && o'.alias == o.alias))

/-- INSERT / CTAS / VIEW over `first UNION … rest`: flat branches over base tables, the written table read nowhere, the
    same number of items in every branch, every item of the first branch has a source column and the first branch's item
    names are pairwise different -/
def fragSetop (env : Env) (tgt : List String) : Query → Bool
  | .setop first rest =>
    let parts := setopParts first rest
    let all := parts.flatMap (fun b => fromTabs env b.2)
    let T := (mkTable env tgt none).d
    branchOK first && rest.all opBranchOK && !(all.any (fun o => o.d == T)) &&
      parts.all (fun b => aliasesUnambiguous (fromTabs env b.2) && aliasConsistent all (fromTabs env b.2) &&
        b.1.all (itemOK env.importDefault (fromTabs env b.2) (some T)) &&
        (b.1.length == (branchParts first).1.length)) &&
      (branchParts first).1.all (fun it =>
        !(KEYSof env.importDefault (fromTabs env (branchParts first).2) (colSpecOf env it)).isEmpty) &&
      decide (((branchParts first).1.map (fun it => (tgtCol env tgt it).key)).Nodup)
  | _ => false

def fragStmtSetop (env : Env) : Stmt → Bool
  | .insert _ _ tgt none q _ => fragSetop env tgt q
  | .ctas tgt _ _ q _ => fragSetop env tgt q
  | .createView tgt _ none q => fragSetop env tgt q
  | _ => false

def stmtParts : Stmt → List (List Item × List FromExpr)
  | .insert _ _ _ _ (.setop first rest) _ => setopParts first rest
  | .ctas _ _ _ (.setop first rest) _ => setopParts first rest
  | .createView _ _ _ (.setop first rest) => setopParts first rest
  | _ => []

theorem aliasOK_sub {g : LGraph} {all grp : List DObj} (hA : AliasOK g all) (hsub : ∀ o ∈ grp, o ∈ all)
    (hc : aliasConsistent all grp = true) : AliasOK g grp := by
  refine ⟨fun d a hin => ?_, fun o ho => hA.node o (hsub o ho)⟩
  obtain ⟨o0, ho0, hd0⟩ := List.any_eq_true.mp hin
  have hinAll : all.any (·.d == d) = true := List.any_eq_true.mpr ⟨o0, hsub o0 ho0, hd0⟩
  rw [hA.edge d a hinAll]
  constructor
  · rintro ⟨o, ho, hod, hoa⟩
    have := List.all_eq_true.mp hc o ho
    simp only [Bool.or_eq_true, Bool.not_eq_true'] at this
    rcases this with h1 | h1
    · have h2 : grp.any (fun o' => o'.d == o.d) = true := by rw [hod]; exact hin
      rw [h1] at h2; cases h2
    · obtain ⟨o', ho', h3⟩ := List.any_eq_true.mp h1
      simp only [Bool.and_eq_true, beq_iff_eq] at h3
      exact ⟨o', ho', by rw [h3.1, hod], by rw [h3.2, hoa]⟩
  · rintro ⟨o, ho, hod, hoa⟩
    exact ⟨o, hsub o ho, hod, hoa⟩

theorem nocol_foldl_addReadO : ∀ (l : List DObj) (g : LGraph), (∀ o ∈ l, isTabRef o = true) →
    (∀ m ∈ g.nodes, m.isCol = false) → ∀ m ∈ (l.foldl addReadO g).nodes, m.isCol = false
  | [], _, _, h => h
  | o :: r, g, hl, h => by
    obtain ⟨s, n, a, rfl⟩ := tabRef_cases o (hl o (by simp))
    simp only [List.foldl_cons]
    apply nocol_foldl_addReadO r _ (fun o ho => hl o (by simp [ho]))
    intro m hm
    rw [addReadO_tab, mem_nodes_addEdge, mem_nodes_setTag] at hm
    rcases hm with (hm | hm) | hm | hm
    · exact h m hm
    · rw [hm]; rfl
    · rw [hm]; rfl
    · rw [hm]; rfl

theorem branchParts_feOK (b : Branch) (h : branchOK b = true) : (branchParts b).2.all feOK = true := by
  cases b with
  | mk q br =>
    cases q with
    | setop _ _ => simp [branchOK] at h
    | withq _ _ => simp [branchOK] at h
    | select d its frm wh grp hav =>
      simp only [branchOK, Bool.and_eq_true] at h
      exact h.1.2

theorem setopParts_feOK (first : Branch) (rest : List OpBranch) (hf : branchOK first = true)
    (hr : rest.all opBranchOK = true) : ∀ b ∈ setopParts first rest, b.2.all feOK = true := by
  intro b hb
  unfold setopParts at hb
  rcases List.mem_cons.mp hb with rfl | hb
  · exact branchParts_feOK first hf
  · obtain ⟨ob, hob, rfl⟩ := List.mem_map.mp hb
    cases ob with
    | mk op b' =>
      have := List.all_eq_true.mp hr _ hob
      exact branchParts_feOK b' this

theorem unionBranchPairs_spec (env : Env) (tgt : List String) (its1 : List Item) (b : List Item × List FromExpr)
    (x : Node × Node) :
    x ∈ posPairs (KEYSof env.importDefault (fromTabs env b.2))
        ((b.1.map (colSpecOf env)).zip (its1.map (tgtCol env tgt))) ↔
      x ∈ unionBranchPairs env tgt its1 b := by
  unfold posPairs unionBranchPairs KEYSof
  rw [List.zip_map]
  simp only [List.mem_flatMap, List.mem_map]
  constructor
  · rintro ⟨cw, ⟨ii, hii, rfl⟩, a, ⟨r, hr, ha⟩, rfl⟩
    refine ⟨ii, hii, ?_⟩
    obtain ⟨⟨e, al, kw⟩, it1⟩ := ii
    simp only [Prod.map_apply] at hr ⊢
    rw [colSpecOf_srcs] at hr
    obtain ⟨r0, hr0, rfl⟩ := List.mem_map.mp hr
    exact List.mem_flatMap.mpr ⟨r0, hr0, List.mem_map.mpr ⟨a, ha, rfl⟩⟩
  · rintro ⟨ii, hii, hx⟩
    obtain ⟨⟨e, al, kw⟩, it1⟩ := ii
    obtain ⟨r0, hr0, hx'⟩ := List.mem_flatMap.mp hx
    obtain ⟨a, ha, rfl⟩ := List.mem_map.mp hx'
    refine ⟨_, ⟨(.mk e al kw, it1), hii, rfl⟩, a, ⟨normRef r0, ?_, ha⟩, rfl⟩
    simp only [Prod.map_apply]
    rw [colSpecOf_srcs]
    exact List.mem_map.mpr ⟨r0, hr0, rfl⟩

theorem specPairsUnion_isCol (env : Env) (tgt : List String) (parts : List (List Item × List FromExpr)) :
    ∀ p ∈ specPairsUnion env tgt parts, p.1.isCol = true := by
  intro p hp
  cases parts with
  | nil => cases hp
  | cons b1 rest =>
    simp only [specPairsUnion, List.mem_append, List.mem_flatMap] at hp
    rcases hp with hp | ⟨b, _, hp⟩
    · exact (specPairs_isCol env tgt b1.1 b1.2 p hp).1
    · unfold unionBranchPairs at hp
      obtain ⟨ii, _, hii⟩ := List.mem_flatMap.mp hp
      obtain ⟨⟨e, a, k⟩, it1⟩ := ii
      obtain ⟨r, _, hx⟩ := List.mem_flatMap.mp hii
      obtain ⟨x, hx', rfl⟩ := List.mem_map.mp hx
      exact srcKeys_isCol _ _ _ x hx'


/-- **end to end, query level, set operation** -/
theorem exWriteQueryUnion_exact' (env : Env) (isInsert : Bool) (tgt : List String) (first : Branch) (rest : List OpBranch)
    (hp : env.prov.truthy = false) (hfrag : fragSetop env tgt (.setop first rest) = true) :
    ∃ g, exWriteQuery env isInsert tgt none (.setop first rest) = .ok g ∧
      EdgesExact g (specPairsUnion env tgt (setopParts first rest))
        ((setopParts first rest).flatMap (fun b => fromTabs env b.2)) [] ∧
      TagFacts g ((setopParts first rest).flatMap (fun b => fromTabs env b.2)) (mkTable env tgt none).d := by
  simp only [fragSetop, Bool.and_eq_true, Bool.not_eq_true', List.any_eq_false, beq_iff_eq, decide_eq_true_eq] at hfrag
  obtain ⟨⟨⟨⟨⟨hf, hr⟩, hself⟩, hparts⟩, hkeys1⟩, hnd⟩ := hfrag
  obtain ⟨s, nm, al, hmk⟩ : ∃ s nm al, mkTable env tgt none = ⟨.table s nm, al⟩ := ⟨_, _, _, rfl⟩
  have hprinted : (mkTable env tgt none).printed = s ++ "." ++ nm := by rw [hmk]; rfl
  have hd : (mkTable env tgt none).d = .table s nm := by rw [hmk]
  -- the groups
  have hfe := setopParts_feOK first rest hf hr
  have hcte : cteObjs (g0 (mkTable env tgt none)) = [] := by
    apply cteObjs_nil
    intro d'; rw [g0_tag]; simp
  have hgrp : (setopParts first rest).map (grpOf env (g0 (mkTable env tgt none))) =
      (setopParts first rest).map (fun b => (b.1.map (colSpecOf env), fromTabs env b.2)) := by
    apply List.map_congr_left
    intro b hb
    simp only [grpOf, tablesOfFrom_tab env _ hcte b.2 (hfe b hb)]
  generalize hparts_def : setopParts first rest = parts at *
  cases parts with
  | nil => simp [setopParts] at hparts_def
  | cons b1 restp =>
    have hb1 : branchParts first = b1 := by
      unfold setopParts at hparts_def
      exact (List.cons.inj hparts_def).1
    rw [hb1] at hkeys1 hnd hparts
    -- all tables, the holder after the reads
    have hall : ((b1 :: restp).map (fun b => (b.1.map (colSpecOf env), fromTabs env b.2))).flatMap (·.2) =
        (b1 :: restp).flatMap (fun b => fromTabs env b.2) := by
      rw [List.flatMap_map]
    have hTRall : ∀ o ∈ (b1 :: restp).flatMap (fun b => fromTabs env b.2), isTabRef o = true := by
      intro o ho
      obtain ⟨b, _, hb⟩ := List.mem_flatMap.mp ho
      exact fromTabs_isTabRef env b.2 o hb
    have hself' : ∀ o ∈ (b1 :: restp).flatMap (fun b => fromTabs env b.2), o.d ≠ .table s nm := fun o ho => by
      have := hself o ho; rw [hd] at this; simpa using this
    obtain ⟨hb, hbE⟩ := readBase (mkTable env tgt none) (by rw [hd]; rfl) _ hTRall
    rw [hd] at hb
    have hout : (((b1 :: restp).flatMap (fun b => fromTabs env b.2)).foldl addReadO (g0 (mkTable env tgt none))).outEdges
        (.ds (.table s nm)) = [] := by
      rw [List.eq_nil_iff_forall_not_mem]
      intro v hv
      obtain ⟨o, ho, _, _, hu, _⟩ := (hbE _ _).mp ((mem_outEdges _ _ _).mp hv)
      exact hself' o ho (Node.ds.inj hu).symm
    have hg1col := nocol_foldl_addReadO _ (g0 (mkTable env tgt none)) hTRall
      (by intro m hm; rw [g0_nodes] at hm; simp only [List.mem_singleton] at hm; rw [hm]; rfl)
    -- sources of an item of a branch
    have hsrcB : ∀ b ∈ b1 :: restp, ∀ c ∈ b.1.map (colSpecOf env), ∀ g', Frame
        (((b1 :: restp).flatMap (fun b => fromTabs env b.2)).foldl addReadO (g0 (mkTable env tgt none))) g' →
        (∀ x, x ∈ (toSourceColumns env.importDefault (aliasMapping g' (fromTabs env b.2)) c env.revStar).map (·.key) ↔
          x ∈ c.srcs.flatMap (srcKeys env.importDefault (fromTabs env b.2))) ∧
        (∀ y ∈ toSourceColumns env.importDefault (aliasMapping g' (fromTabs env b.2)) c env.revStar,
          colOK y ∧ ∀ sp, y.parent? = some sp → sp.1 ≠ .table s nm) := by
      intro b hbm c hc g' hfr
      obtain ⟨it, hit, rfl⟩ := List.mem_map.mp hc
      have hpb := List.all_eq_true.mp hparts b hbm
      simp only [Bool.and_eq_true, beq_iff_eq] at hpb
      obtain ⟨⟨⟨hU, hcons⟩, hits⟩, _⟩ := hpb
      rw [hd] at hits
      have hsub : ∀ o ∈ fromTabs env b.2, o ∈ (b1 :: restp).flatMap (fun b => fromTabs env b.2) :=
        fun o ho => List.mem_flatMap.mpr ⟨b, hbm, ho⟩
      have hk := toSourceColumns_keys env.importDefault g' (fromTabs env b.2) (colSpecOf env it) env.revStar
        (fromTabs_isTabRef env b.2) (aliasOK_sub (aliasOK_frame hfr hb.alias) hsub hcons) hU (some (.table s nm))
        (by intro T' hT'; cases hT'; exact fun o ho => hself' o (hsub o ho))
        (by
          intro r hr'
          obtain ⟨e, a, kw⟩ := it
          rw [colSpecOf_srcs] at hr'
          obtain ⟨r0, hr0, rfl⟩ := List.mem_map.mp hr'
          have := List.all_eq_true.mp hits _ hit
          simp only [itemOK, Bool.and_eq_true, List.all_eq_true] at this
          exact this.2 r0 hr0)
      exact ⟨hk.1, fun y hy => ⟨(hk.2 y hy).1, (hk.2 y hy).2 _ rfl⟩⟩
    -- the first group
    have hnd' : ((b1.1.map (colSpecOf env)).map
        (fun c => (Column.mk1 c.raw (some (DS.table s nm, s ++ "." ++ nm))).key)).Nodup := by
      rw [List.map_map]
      have : (fun it => (tgtCol env tgt it).key) =
          ((fun c : ColSpec => (Column.mk1 c.raw (some (DS.table s nm, s ++ "." ++ nm))).key) ∘ colSpecOf env) := by
        funext it
        simp only [Function.comp, tgtCol, hd, hprinted]
      rw [← this]; exact hnd
    obtain ⟨gA, hgA, hwA, hwcA⟩ := cleanupGroup_first env.importDefault s nm (fromTabs env b1.2) env.revStar
      (KEYSof env.importDefault (fromTabs env b1.2)) (b1.1.map (colSpecOf env)) hb.writeSet (hb.notRead hself') hg1col hout
      (Wired.base hb) hnd'
      (by
        intro c hc
        refine ⟨?_, hsrcB b1 (by simp) c hc⟩
        obtain ⟨it, hit, rfl⟩ := List.mem_map.mp hc
        have := List.all_eq_true.mp hkeys1 it hit
        intro he
        rw [he] at this
        simp at this)
    -- the later groups
    have hcw : ∀ c ∈ (b1.1.map (colSpecOf env)).map (fun c => Column.mk1 c.raw (some (DS.table s nm, s ++ "." ++ nm))),
        c.parent? = some (DS.table s nm, s ++ "." ++ nm) ∧ colOK c := by
      intro c hc
      obtain ⟨x, _, rfl⟩ := List.mem_map.mp hc
      refine ⟨rfl, ?_⟩
      intro p hp'
      simp only [Column.mk1, List.mem_singleton] at hp'
      rw [hp']; rfl
    obtain ⟨g2, hg2, hw2⟩ := groupsPos_wired env.importDefault s nm env.revStar _ hb.writeSet (hb.notRead hself') hcw
      (restp.map (fun b => (b.1.map (colSpecOf env), fromTabs env b.2))) gA _ hwA hwcA
      (by
        intro grp hgrp'
        obtain ⟨b, hbm, rfl⟩ := List.mem_map.mp hgrp'
        have hpb := List.all_eq_true.mp hparts b (by simp [hbm])
        simp only [Bool.and_eq_true, beq_iff_eq] at hpb
        refine ⟨by simp only [List.length_map]; exact hpb.2, ?_⟩
        intro c hc g' hfr
        exact hsrcB b (by simp [hbm]) c hc g' hfr)
    -- the statement
    have hwfin : Wired (((b1 :: restp).flatMap (fun b => fromTabs env b.2)).foldl addReadO (g0 (mkTable env tgt none))) g2
        (specPairsUnion env tgt (b1 :: restp)) := by
      apply hw2.congr
      intro x
      simp only [specPairsUnion, List.mem_append, List.flatMap_map, List.mem_flatMap]
      have h1 := keyPairs_spec env tgt b1.1 b1.2 x
      rw [hd, hprinted] at h1
      rw [h1]
      constructor
      · rintro (hx | ⟨b, hbm, hx⟩)
        · exact Or.inl hx
        · refine Or.inr ⟨b, hbm, (unionBranchPairs_spec env tgt b1.1 b x).mp ?_⟩
          have : b1.1.map (tgtCol env tgt) =
              (b1.1.map (colSpecOf env)).map (fun c => Column.mk1 c.raw (some (DS.table s nm, s ++ "." ++ nm))) := by
            rw [List.map_map]
            apply List.map_congr_left
            intro it _
            simp only [Function.comp, tgtCol, hd, hprinted]
          rw [this]; exact hx
      · rintro (hx | ⟨b, hbm, hx⟩)
        · exact Or.inl hx
        · refine Or.inr ⟨b, hbm, ?_⟩
          have : b1.1.map (tgtCol env tgt) =
              (b1.1.map (colSpecOf env)).map (fun c => Column.mk1 c.raw (some (DS.table s nm, s ++ "." ++ nm))) := by
            rw [List.map_map]
            apply List.map_congr_left
            intro it _
            simp only [Function.comp, tgtCol, hd, hprinted]
          rw [← this]; exact (unionBranchPairs_spec env tgt b1.1 b x).mpr hx
    refine ⟨(g0 (mkTable env tgt none)).compose g2, ?_, edgesExact_compose (g0 (mkTable env tgt none)) g2 _ _ _
      (by intro e he; rw [g0_edges] at he; cases he) (by intro e he; rw [g0_edges] at he; cases he)
      (edgesExact_of_wired hb hwfin (specPairsUnion_isCol env tgt (b1 :: restp)) ?_ (by intro p hp'; cases hp')),
      by
        rw [hd]
        exact tagFacts_of_wired _ _ _ (.table s nm) g2 _ hTRall hb hwfin
          (by intro n; rw [g0_tag]; simp) (by intro n; rw [g0_tag]; simp)⟩
    · rw [exWriteQuery_eq]
      unfold wq0
      rw [writeTargetHolder_none env isInsert tgt hp, exQuery_setop_tab env _ first rest hf hr]
      have hinit : initHolder (ctxOf (g0 (mkTable env tgt none))) = g0 (mkTable env tgt none) := by
        rw [hmk]; exact initHolder_ctxOf_g0 s nm al
      have hsp : branchParts first :: rest.map opBranchParts = b1 :: restp := hparts_def
      rw [hinit, hsp, finishBranches_groups, hgrp, hall]
      simp only [List.map_cons, List.foldlM_cons, bind, Except.bind, hgA, hg2]
      rw [expandWildcard_id env.prov g2 hp hw2.pay]
    · intro u v
      rw [hbE]; simp


theorem exWriteQueryUnion_exact (env : Env) (isInsert : Bool) (tgt : List String) (first : Branch) (rest : List OpBranch)
    (hp : env.prov.truthy = false) (hfrag : fragSetop env tgt (.setop first rest) = true) :
    ∃ g, exWriteQuery env isInsert tgt none (.setop first rest) = .ok g ∧
      EdgesExact g (specPairsUnion env tgt (setopParts first rest))
        ((setopParts first rest).flatMap (fun b => fromTabs env b.2)) [] := by
  obtain ⟨g, h1, h2, _⟩ := exWriteQueryUnion_exact' env isInsert tgt first rest hp hfrag
  exact ⟨g, h1, h2⟩

/-- **end to end, statement level, set operation** -/
theorem analyze_exact_setop (env : Env) (silent : Bool) (s : Stmt) (hp : env.prov.truthy = false)
    (hs : fragStmtSetop env s = true) :
    ∃ g, analyze env silent s = .ok g ∧
      EdgesExact g (specPairsUnion env (stmtTarget s) (stmtParts s)) ((stmtParts s).flatMap (fun b => fromTabs env b.2)) [] := by
  cases s with
  | insert kd tk tgt cols q br =>
    cases cols with
    | some _ => simp [fragStmtSetop] at hs
    | none =>
      cases q with
      | select _ _ _ _ _ _ => simp [fragStmtSetop, fragSetop] at hs
      | withq _ _ => simp [fragStmtSetop, fragSetop] at hs
      | setop first rest =>
        have := exWriteQueryUnion_exact env true tgt first rest hp (by simpa [fragStmtSetop] using hs)
        unfold analyze
        have hd : dispatch (stmtType (.insert kd tk tgt none (.setop first rest) br)) = some "CreateInsertExtractor" :=
          disp_insert
        rw [hd]
        exact this
  | ctas tgt orr ine q br =>
    cases q with
    | select _ _ _ _ _ _ => simp [fragStmtSetop, fragSetop] at hs
    | withq _ _ => simp [fragStmtSetop, fragSetop] at hs
    | setop first rest =>
      have := exWriteQueryUnion_exact env false tgt first rest hp (by simpa [fragStmtSetop] using hs)
      unfold analyze
      have hd : dispatch (stmtType (.ctas tgt orr ine (.setop first rest) br)) = some "CreateInsertExtractor" :=
        disp_create_table
      rw [hd]
      exact this
  | createView tgt orr cols q =>
    cases cols with
    | some _ => simp [fragStmtSetop] at hs
    | none =>
      cases q with
      | select _ _ _ _ _ _ => simp [fragStmtSetop, fragSetop] at hs
      | withq _ _ => simp [fragStmtSetop, fragSetop] at hs
      | setop first rest =>
        have := exWriteQueryUnion_exact env false tgt first rest hp (by simpa [fragStmtSetop] using hs)
        unfold analyze
        have hd : dispatch (stmtType (.createView tgt orr none (.setop first rest))) = some "CreateInsertExtractor" :=
          disp_create_view
        rw [hd]
        exact this
  | query _ _ => simp [fragStmtSetop] at hs
  | insertValues _ _ _ => simp [fragStmtSetop] at hs
  | createTable _ _ _ => simp [fragStmtSetop] at hs
  | createTableLike _ _ => simp [fragStmtSetop] at hs
  | update _ _ _ _ _ => simp [fragStmtSetop] at hs
  | merge _ _ _ _ _ _ => simp [fragStmtSetop] at hs
  | copy _ _ => simp [fragStmtSetop] at hs
  | drop _ _ _ => simp [fragStmtSetop] at hs
  | alterRename _ _ => simp [fragStmtSetop] at hs
  | renameTable _ => simp [fragStmtSetop] at hs
  | noop _ _ => simp [fragStmtSetop] at hs
  | unsupported _ => simp [fragStmtSetop] at hs

theorem mem_unionBranchPairs (env : Env) (tgt : List String) (its1 : List Item) (b : List Item × List FromExpr) (u v : Node) :
    (u, v) ∈ unionBranchPairs env tgt its1 b ↔
      ∃ e a k it1, (Item.mk e a k, it1) ∈ b.1.zip its1 ∧ ∃ r ∈ refs e,
        u ∈ srcKeys env.importDefault (fromTabs env b.2) (normRef r) ∧ v = (tgtCol env tgt it1).key := by
  unfold unionBranchPairs
  rw [List.mem_flatMap]
  constructor
  · rintro ⟨ii, hii, h⟩
    obtain ⟨⟨e, a, k⟩, it1⟩ := ii
    obtain ⟨r, hr, h0⟩ := List.mem_flatMap.mp h
    obtain ⟨x, hx, h1⟩ := List.mem_map.mp h0
    simp only [Prod.mk.injEq] at h1
    exact ⟨e, a, k, it1, hii, r, hr, by rw [← h1.1]; exact hx, h1.2.symm⟩
  · rintro ⟨e, a, k, it1, hii, r, hr, h1, h2⟩
    refine ⟨(.mk e a k, it1), hii, List.mem_flatMap.mpr ⟨r, hr, List.mem_map.mpr ⟨u, h1, ?_⟩⟩⟩
    rw [h2]


/-! ## 10. from the LINEAGE edges to `get_column_lineage()`: when no target column is a source column, the paths are the pairs -/

theorem colParent_eq : ∀ n, Paths.colParent n = colParent n
  | .ds _ => rfl
  | .col _ _ => rfl
  | .str _ => rfl

/-- a holder whose column→column edges are `K`, every pair going from a column NOT owned by `T` to a column owned by the
    table `T`: `get_column_lineage()` reports exactly the two‑node paths `[u, v]`, `(u, v) ∈ K` -/
theorem columnLineage_of_pairs (g : LGraph) (K : List (Node × Node)) (T : DS) (hT : T.isTable = true) (hwf : Paths.WF g)
    (hlin : ∀ u v, u.isCol = true → ((u, v) ∈ g.edges ↔ (u, v) ∈ K))
    (hK : ∀ p ∈ K, p.1.isCol = true ∧ colParent p.1 ≠ some T ∧ p.2.isCol = true ∧ colParent p.2 = some T)
    (p : List Node) : p ∈ Paths.columnLineage g ↔ ∃ u v, (u, v) ∈ K ∧ p = [u, v] := by
  have hsrc : ∀ u v, (u, v) ∈ K → ∀ w, (w, u) ∉ K := by
    intro u v h1 w h2
    exact (hK _ h1).2.1 (hK _ h2).2.2.2
  rw [Paths.mem_columnLineage]
  constructor
  · rintro ⟨s, hs, t, _, hp, hl⟩
    obtain ⟨h1, _, h3, _⟩ := Paths.simplePaths_sound g s t p hp
    obtain ⟨_, hsc, _⟩ := (Paths.mem_roots g s).mp hs
    match p, h1, h3, hl with
    | [a], _, _, hl => simp at hl
    | a :: b :: r, h1, h3, _ =>
      simp only [List.head?_cons, Option.some.injEq] at h1
      subst h1
      have hab : (a, b) ∈ K := (hlin a b hsc).mp h3.1
      cases r with
      | nil => exact ⟨a, b, hab, rfl⟩
      | cons c r' =>
        have hbc : (b, c) ∈ K := (hlin b c (hK _ hab).2.2.1).mp h3.2.1
        exact absurd hab (hsrc b c hbc a)
  · rintro ⟨u, v, huv, rfl⟩
    have he : (u, v) ∈ g.edges := (hlin u v (hK _ huv).1).mpr huv
    have hu : u ∈ Paths.roots g := by
      rw [Paths.mem_roots]
      refine ⟨(hwf _ he).1, (hK _ huv).1, fun w hw => ?_⟩
      cases hwc : w.isCol with
      | false => rfl
      | true => exact absurd ((hlin w u hwc).mp hw) (hsrc u v huv w)
    have hv : v ∈ Paths.leaves g := by
      rw [Paths.mem_leaves]
      refine ⟨(hwf _ he).2, (hK _ huv).2.2.1, fun w hw => ?_, T, ?_, hT⟩
      · exact absurd huv (hsrc v w ((hlin v w (hK _ huv).2.2.1).mp hw) u)
      · rw [colParent_eq]; exact (hK _ huv).2.2.2
    refine ⟨u, hu, v, hv, ?_, by simp⟩
    apply Paths.simplePaths_complete g hwf u v [u, v] (hwf _ he).1 rfl rfl ⟨he, trivial⟩
    have hne : u ≠ v := by
      intro e
      have := (hK _ huv).2.1
      rw [e] at this
      exact this (hK _ huv).2.2.2
    simp [hne]

/-- the sources the specification names are not owned by the written table (when it is not read and no qualifier denotes it) -/
theorem srcKeys_notT (imp : String) (tabs : List DObj) (T : DS) (hself : ∀ o ∈ tabs, o.d ≠ T) (r : String × Option String)
    (hr : refOKn imp tabs (some T) r = true) : ∀ x ∈ srcKeys imp tabs r, colParent x ≠ some T := by
  intro x hx
  unfold srcKeys at hx
  split at hx
  · obtain ⟨d, hd, rfl⟩ := List.mem_map.mp hx
    unfold denoted at hd
    obtain ⟨v, hv, rfl⟩ := List.mem_map.mp hd
    obtain ⟨kk, hkk⟩ := mem_amValues_sub _ v hv
    obtain ⟨_, _, o, ho, hod⟩ := specAliasMap_value _ _ (amGet_mem _ _ _ hkk)
    intro hc
    have : v.1 = T := by
      unfold starKey at hc
      rw [colParent_key] at hc
      simpa [Column.mk1, Column.parent?] using hc
    simp only at hod
    exact hself o ho (hod.trans this)
  · simp only [List.mem_singleton] at hx
    subst hx
    rw [colParent_key]
    obtain ⟨rn, rq⟩ := r
    cases rq with
    | some q =>
      simp only [refOKn, bne_iff_ne] at hr
      simpa [srcCol, Column.mk1, Column.parent?] using hr
    | none =>
      match tabs, hself with
      | [t], hself =>
        have := hself t (by simp)
        simpa [srcCol, Column.mk1, Column.parent?] using this
      | [], _ => simp [srcCol, Column.mk1, Column.parent?]
      | _ :: _ :: _, _ => simp [srcCol, Column.mk1, Column.parent?]

theorem tgtCol_parent (env : Env) (tgt : List String) (it : Item) :
    colParent (tgtCol env tgt it).key = some (mkTable env tgt none).d := rfl

theorem specPairs_bipartite (env : Env) (tgt : List String) (its : List Item) (frm : List FromExpr)
    (hself : ∀ o ∈ fromTabs env frm, o.d ≠ (mkTable env tgt none).d)
    (hits : its.all (itemOK env.importDefault (fromTabs env frm) (some (mkTable env tgt none).d)) = true) :
    ∀ p ∈ specPairs env tgt its frm, p.1.isCol = true ∧ colParent p.1 ≠ some (mkTable env tgt none).d ∧
      p.2.isCol = true ∧ colParent p.2 = some (mkTable env tgt none).d := by
  rintro ⟨u, v⟩ hp
  obtain ⟨e, a, k, hit, r, hr, hu, hv⟩ := (mem_specPairs env tgt its frm u v).mp hp
  have hi := List.all_eq_true.mp hits _ hit
  simp only [itemOK, Bool.and_eq_true, List.all_eq_true] at hi
  refine ⟨srcKeys_isCol _ _ _ u hu, srcKeys_notT _ _ _ hself _ (hi.2 r hr) u hu, ?_, ?_⟩
  · simp only; rw [hv]; rfl
  · simp only; rw [hv]; rfl

theorem specPairsPos_bipartite (env : Env) (tgt : List String) (cs : List String) (its : List Item) (frm : List FromExpr)
    (hself : ∀ o ∈ fromTabs env frm, o.d ≠ (mkTable env tgt none).d)
    (hits : its.all (itemOK env.importDefault (fromTabs env frm) (some (mkTable env tgt none).d)) = true) :
    ∀ p ∈ specPairsPos env tgt cs its frm, p.1.isCol = true ∧ colParent p.1 ≠ some (mkTable env tgt none).d ∧
      p.2.isCol = true ∧ colParent p.2 = some (mkTable env tgt none).d := by
  rintro ⟨u, v⟩ hp
  obtain ⟨e, a, k, c, hic, r, hr, hu, hv⟩ := (mem_specPairsPos env tgt cs its frm u v).mp hp
  have hit : Item.mk e a k ∈ its := (List.of_mem_zip hic).1
  have hi := List.all_eq_true.mp hits _ hit
  simp only [itemOK, Bool.and_eq_true, List.all_eq_true] at hi
  refine ⟨srcKeys_isCol _ _ _ u hu, srcKeys_notT _ _ _ hself _ (hi.2 r hr) u hu, ?_, ?_⟩
  · simp only; rw [hv]; rfl
  · simp only; rw [hv]; rfl

theorem specPairsUnion_bipartite (env : Env) (tgt : List String) (parts : List (List Item × List FromExpr))
    (hself : ∀ b ∈ parts, ∀ o ∈ fromTabs env b.2, o.d ≠ (mkTable env tgt none).d)
    (hits : ∀ b ∈ parts, b.1.all (itemOK env.importDefault (fromTabs env b.2) (some (mkTable env tgt none).d)) = true) :
    ∀ p ∈ specPairsUnion env tgt parts, p.1.isCol = true ∧ colParent p.1 ≠ some (mkTable env tgt none).d ∧
      p.2.isCol = true ∧ colParent p.2 = some (mkTable env tgt none).d := by
  rintro ⟨u, v⟩ hp
  cases parts with
  | nil => cases hp
  | cons b1 rest =>
    simp only [specPairsUnion, List.mem_append, List.mem_flatMap] at hp
    rcases hp with hp | ⟨b, hb, hp⟩
    · exact specPairs_bipartite env tgt b1.1 b1.2 (hself b1 (by simp)) (hits b1 (by simp)) _ hp
    · obtain ⟨e, a, k, it1, hii, r, hr, hu, hv⟩ := (mem_unionBranchPairs env tgt b1.1 b u v).mp hp
      have hit : Item.mk e a k ∈ b.1 := (List.of_mem_zip hii).1
      have hi := List.all_eq_true.mp (hits b (by simp [hb])) _ hit
      simp only [itemOK, Bool.and_eq_true, List.all_eq_true] at hi
      refine ⟨srcKeys_isCol _ _ _ u hu, srcKeys_notT _ _ _ (hself b (by simp [hb])) _ (hi.2 r hr) u hu, ?_, ?_⟩
      · simp only; rw [hv]; rfl
      · simp only; rw [hv]; rfl

/-- from `EdgesExact` to the paths -/
theorem columnLineage_of_exact {g : LGraph} {K : List (Node × Node)} {tabs : List DObj} {O0 : List (Node × Node)}
    (hx : EdgesExact g K tabs O0) (T : DS) (hT : T.isTable = true)
    (hK : ∀ p ∈ K, p.1.isCol = true ∧ colParent p.1 ≠ some T ∧ p.2.isCol = true ∧ colParent p.2 = some T)
    (hO : ∀ p ∈ O0, p.1.isCol = false)
    (p : List Node) : p ∈ Paths.columnLineage g ↔ ∃ u v, (u, v) ∈ K ∧ p = [u, v] := by
  apply columnLineage_of_pairs g K T hT hx.wf _ hK
  intro u v hu
  rw [← hx.lineage u v]
  constructor
  · intro he
    refine ⟨he, ?_⟩
    -- an edge out of a column node is a LINEAGE edge: it is no HAS_COLUMN / HAS_ALIAS / RENAME edge
    have hy := Graph.ety_of_mem g u v he
    cases ht : g.etype u v with
    | lineage => rw [hy, ht]
    | hasColumn =>
      exfalso
      rcases (hx.hasColumn u v).mp ⟨he, by rw [hy, ht]⟩ with h1 | h1
      · have := hO _ h1
        simp only at this
        rw [this] at hu; cases hu
      · obtain ⟨q, _, ⟨d, _, hq⟩ | ⟨d, _, hq⟩⟩ := (mem_specOwners K (u, v)).mp h1
        · have : u = .ds d := congrArg Prod.fst hq
          rw [this] at hu; cases hu
        · have : u = .ds d := congrArg Prod.fst hq
          rw [this] at hu; cases hu
    | hasAlias =>
      exfalso
      obtain ⟨o, _, a, _, h1, _⟩ := (hx.hasAlias u v).mp ⟨he, by rw [hy, ht]⟩
      rw [h1] at hu; cases hu
    | rename => exact absurd (by rw [hy, ht]) (hx.noRename u v he)
  · exact fun h => h.1


theorem mkTable_isTable (env : Env) (parts : List String) (alias : Option String) : (mkTable env parts alias).d.isTable = true := rfl

theorem fragStmt_items (env : Env) (s : Stmt) (hs : fragStmt env s = true)
    (hnr : ∀ o ∈ fromTabs env (stmtFrom s), o.d ≠ (mkTable env (stmtTarget s) none).d) :
    (stmtItems s).all (itemOK env.importDefault (fromTabs env (stmtFrom s)) (some (mkTable env (stmtTarget s) none).d)) = true := by
  obtain ⟨d, wh, grp, hav, hf⟩ := fragStmt_select env s hs
  simp only [fragSelect, Bool.and_eq_true] at hf
  rw [avoidOf_some _ _ hnr] at hf
  exact hf.2

theorem fragStmtCols_select (env : Env) (s : Stmt) (hs : fragStmtCols env s = true) :
    ∃ d wh grp hav, fragSelectCols env (stmtTarget s) (stmtCols s) (.select d (stmtItems s) (stmtFrom s) wh grp hav) = true := by
  cases s with
  | insert kd tk tgt cols q br =>
    cases cols with
    | none => simp [fragStmtCols] at hs
    | some cs =>
      cases q with
      | setop _ _ => simp [fragStmtCols, fragSelectCols] at hs
      | withq _ _ => simp [fragStmtCols, fragSelectCols] at hs
      | select d its frm wh grp hav =>
        exact ⟨d, wh, grp, hav, by simpa [fragStmtCols, stmtTarget, stmtItems, stmtFrom, stmtCols] using hs⟩
  | createView tgt orr cols q =>
    cases cols with
    | none => simp [fragStmtCols] at hs
    | some cs =>
      cases q with
      | setop _ _ => simp [fragStmtCols, fragSelectCols] at hs
      | withq _ _ => simp [fragStmtCols, fragSelectCols] at hs
      | select d its frm wh grp hav =>
        exact ⟨d, wh, grp, hav, by simpa [fragStmtCols, stmtTarget, stmtItems, stmtFrom, stmtCols] using hs⟩
  | ctas _ _ _ _ _ => simp [fragStmtCols] at hs
  | query _ _ => simp [fragStmtCols] at hs
  | insertValues _ _ _ => simp [fragStmtCols] at hs
  | createTable _ _ _ => simp [fragStmtCols] at hs
  | createTableLike _ _ => simp [fragStmtCols] at hs
  | update _ _ _ _ _ => simp [fragStmtCols] at hs
  | merge _ _ _ _ _ _ => simp [fragStmtCols] at hs
  | copy _ _ => simp [fragStmtCols] at hs
  | drop _ _ _ => simp [fragStmtCols] at hs
  | alterRename _ _ => simp [fragStmtCols] at hs
  | renameTable _ => simp [fragStmtCols] at hs
  | noop _ _ => simp [fragStmtCols] at hs
  | unsupported _ => simp [fragStmtCols] at hs

theorem fragStmtCols_items (env : Env) (s : Stmt) (hs : fragStmtCols env s = true) :
    (∀ o ∈ fromTabs env (stmtFrom s), o.d ≠ (mkTable env (stmtTarget s) none).d) ∧
    (stmtItems s).all (itemOK env.importDefault (fromTabs env (stmtFrom s)) (some (mkTable env (stmtTarget s) none).d)) = true := by
  obtain ⟨d, wh, grp, hav, hf⟩ := fragStmtCols_select env s hs
  simp only [fragSelectCols, Bool.and_eq_true, Bool.not_eq_true', List.any_eq_false, beq_iff_eq] at hf
  exact ⟨fun o ho => by simpa using hf.1.1.1.2 o ho, hf.2⟩

theorem fragStmtSetop_setop (env : Env) (s : Stmt) (hs : fragStmtSetop env s = true) :
    ∃ first rest, stmtParts s = setopParts first rest ∧ fragSetop env (stmtTarget s) (.setop first rest) = true := by
  cases s with
  | insert kd tk tgt cols q br =>
    cases cols with
    | some _ => simp [fragStmtSetop] at hs
    | none =>
      cases q with
      | select _ _ _ _ _ _ => simp [fragStmtSetop, fragSetop] at hs
      | withq _ _ => simp [fragStmtSetop, fragSetop] at hs
      | setop first rest => exact ⟨first, rest, rfl, by simpa [fragStmtSetop, stmtTarget] using hs⟩
  | ctas tgt orr ine q br =>
    cases q with
    | select _ _ _ _ _ _ => simp [fragStmtSetop, fragSetop] at hs
    | withq _ _ => simp [fragStmtSetop, fragSetop] at hs
    | setop first rest => exact ⟨first, rest, rfl, by simpa [fragStmtSetop, stmtTarget] using hs⟩
  | createView tgt orr cols q =>
    cases cols with
    | some _ => simp [fragStmtSetop] at hs
    | none =>
      cases q with
      | select _ _ _ _ _ _ => simp [fragStmtSetop, fragSetop] at hs
      | withq _ _ => simp [fragStmtSetop, fragSetop] at hs
      | setop first rest => exact ⟨first, rest, rfl, by simpa [fragStmtSetop, stmtTarget] using hs⟩
  | query _ _ => simp [fragStmtSetop] at hs
  | insertValues _ _ _ => simp [fragStmtSetop] at hs
  | createTable _ _ _ => simp [fragStmtSetop] at hs
  | createTableLike _ _ => simp [fragStmtSetop] at hs
  | update _ _ _ _ _ => simp [fragStmtSetop] at hs
  | merge _ _ _ _ _ _ => simp [fragStmtSetop] at hs
  | copy _ _ => simp [fragStmtSetop] at hs
  | drop _ _ _ => simp [fragStmtSetop] at hs
  | alterRename _ _ => simp [fragStmtSetop] at hs
  | renameTable _ => simp [fragStmtSetop] at hs
  | noop _ _ => simp [fragStmtSetop] at hs
  | unsupported _ => simp [fragStmtSetop] at hs

theorem fragStmtSetop_items (env : Env) (s : Stmt) (hs : fragStmtSetop env s = true) :
    (∀ b ∈ stmtParts s, ∀ o ∈ fromTabs env b.2, o.d ≠ (mkTable env (stmtTarget s) none).d) ∧
    (∀ b ∈ stmtParts s, b.1.all (itemOK env.importDefault (fromTabs env b.2) (some (mkTable env (stmtTarget s) none).d)) = true) := by
  obtain ⟨first, rest, hparts, hf⟩ := fragStmtSetop_setop env s hs
  rw [hparts]
  simp only [fragSetop, Bool.and_eq_true, Bool.not_eq_true', List.any_eq_false, beq_iff_eq] at hf
  obtain ⟨⟨⟨⟨_, hself⟩, hp⟩, _⟩, _⟩ := hf
  refine ⟨fun b hb o ho => ?_, fun b hb => ?_⟩
  · have := hself o (List.mem_flatMap.mpr ⟨b, hb, ho⟩)
    simpa using this
  · have := List.all_eq_true.mp hp b hb
    simp only [Bool.and_eq_true] at this
    exact this.1.2


end SqlLineage.ColumnsExact
