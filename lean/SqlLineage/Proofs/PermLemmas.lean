/-
Permutation lemmas for C11: the model functions that stand for code iterating a hash‑ordered `set` give the same result
(as a graph value, or up to `canon` = node set with tags + edge set with types) for every order of the iterated collection.

`canon` forgets exactly what a reordering of insertions can change in the representation (`Graph.nodes` / `Graph.edges`
are insertion‑ordered lists) and nothing else that the public results look at: membership of nodes and edges, node tags,
edge types.
-/
import SqlLineage.Proofs.GraphLemmas
import SqlLineage.Proofs.AStmtLemmas
import SqlLineage.Model.HolderOps

namespace SqlLineage.Graph
variable {ν π : Type} [DecidableEq ν]

/-- the order‑free content of a graph: which nodes, which edges, which tag values, which edge types -/
structure Canon (ν : Type) where
  node : ν → Prop
  edge : ν × ν → Prop
  tag : ν → Tag → Option Bool
  ety : ν → ν → Option EType

def canon (g : Graph ν π) : Canon ν := ⟨(· ∈ g.nodes), (· ∈ g.edges), g.tag, g.ety⟩

theorem canon_eq_iff (g h : Graph ν π) :
    canon g = canon h ↔
      (∀ n, n ∈ g.nodes ↔ n ∈ h.nodes) ∧ (∀ e, e ∈ g.edges ↔ e ∈ h.edges) ∧
      (∀ n t, g.tag n t = h.tag n t) ∧ (∀ u v, g.ety u v = h.ety u v) := by
  constructor
  · intro hc
    have h1 : (canon g).node = (canon h).node := by rw [hc]
    have h2 : (canon g).edge = (canon h).edge := by rw [hc]
    have h3 : (canon g).tag = (canon h).tag := by rw [hc]
    have h4 : (canon g).ety = (canon h).ety := by rw [hc]
    refine ⟨fun n => ?_, fun e => ?_, fun n t => ?_, fun u v => ?_⟩
    · exact iff_of_eq (congrFun h1 n)
    · exact iff_of_eq (congrFun h2 e)
    · exact congrFun (congrFun h3 n) t
    · exact congrFun (congrFun h4 u) v
  · rintro ⟨h1, h2, h3, h4⟩
    simp only [canon, Canon.mk.injEq]
    refine ⟨funext fun n => propext (h1 n), funext fun e => propext (h2 e), funext fun n => funext fun t => h3 n t,
      funext fun u => funext fun v => h4 u v⟩

theorem ety_of_mem (g : Graph ν π) (u v : ν) (h : (u, v) ∈ g.edges) : g.ety u v = some (g.etype u v) := by
  simp [ety, hasEdge, h]

theorem ety_of_not_mem (g : Graph ν π) (u v : ν) (h : (u, v) ∉ g.edges) : g.ety u v = none := by
  simp [ety, hasEdge, h]

/-! ### removing isolated nodes -/

/-- removing a node of degree zero removes no edge: the edge *list* is unchanged -/
theorem removeNode_edges_of_isolated (g : Graph ν π) (n : ν) (h : g.degree n = 0) :
    (g.removeNode n).edges = g.edges := by
  have hd := (degree_eq_zero_iff g n).mp h
  simp only [removeNode]
  apply List.filter_eq_self.mpr
  intro e he
  have := hd e he
  simp [this.1, this.2]

theorem degree_congr (g h : Graph ν π) (he : g.edges = h.edges) (n : ν) : g.degree n = h.degree n := by
  simp [degree, inDeg, outDeg, inEdges, outEdges, he]

/-! ### adding edges -/

theorem ety_foldl_addEdge (es : List (ν × ν)) (g : Graph ν π) (ty : EType) (a b : ν) :
    (es.foldl (fun g e => g.addEdge e.1 e.2 ty) g).ety a b = if (a, b) ∈ es then some ty else g.ety a b := by
  induction es generalizing g with
  | nil => simp
  | cons e r ih =>
    simp only [List.foldl_cons, ih, ety_addEdge, List.mem_cons]
    by_cases hr : (a, b) ∈ r
    · simp [hr]
    · simp only [hr, if_false, or_false]
      by_cases he : a = e.1 ∧ b = e.2
      · have : (a, b) = e := by rw [he.1, he.2]
        simp [he]
      · have : (a, b) ≠ e := by
          intro hh; apply he; rw [← hh]; exact ⟨rfl, rfl⟩
        simp [he, this]

/-- adding a list of edges of one type: the order‑free content of the result depends on the *set* of edges only -/
theorem canon_foldl_addEdge_congr (es₁ es₂ : List (ν × ν)) (g : Graph ν π) (ty : EType)
    (h : ∀ e, e ∈ es₁ ↔ e ∈ es₂) :
    canon (es₁.foldl (fun g e => g.addEdge e.1 e.2 ty) g) = canon (es₂.foldl (fun g e => g.addEdge e.1 e.2 ty) g) := by
  rw [canon_eq_iff]
  refine ⟨fun n => ?_, fun e => ?_, fun n t => ?_, fun u v => ?_⟩
  · simp only [mem_nodes_foldl_addEdge, h]
  · simp only [mem_edges_foldl_addEdge, h]
  · simp only [tag_foldl_addEdge]
  · simp only [ety_foldl_addEdge, h]

/-! ### set_node_attributes -/

theorem setTags_congr (g : Graph ν π) (l₁ l₂ : List ν) (t : Tag) (b : Bool) (h : ∀ n, n ∈ l₁ ↔ n ∈ l₂) :
    g.setTags l₁ t b = g.setTags l₂ t b := by
  have hc : ∀ m, l₁.contains m = l₂.contains m := by
    intro m
    by_cases hm : m ∈ l₁
    · simp [hm, (h m).mp hm]
    · simp [hm, mt (h m).mpr hm]
  simp only [setTags, hc]

/-! ### congruence: the operations of the fold respect `canon` in their graph argument -/

theorem ety_compose (g h : Graph ν π) (u v : ν) :
    (g.compose h).ety u v = match h.ety u v with | some t => some t | none => g.ety u v := by
  by_cases hh : (u, v) ∈ h.edges
  · have hc : (u, v) ∈ (g.compose h).edges := (mem_edges_compose g h (u, v)).mpr (Or.inr hh)
    rw [ety_of_mem _ _ _ hc, ety_of_mem _ _ _ hh]
    simp [compose, hasEdge, hh]
  · rw [ety_of_not_mem h _ _ hh]
    by_cases hg : (u, v) ∈ g.edges
    · have hc : (u, v) ∈ (g.compose h).edges := (mem_edges_compose g h (u, v)).mpr (Or.inl hg)
      rw [ety_of_mem _ _ _ hc, ety_of_mem _ _ _ hg]
      simp [compose, hasEdge, hh]
    · have hc : (u, v) ∉ (g.compose h).edges := fun hm =>
        ((mem_edges_compose g h (u, v)).mp hm).elim hg hh
      rw [ety_of_not_mem _ _ _ hc, ety_of_not_mem _ _ _ hg]

theorem canon_compose_congr (g g' h : Graph ν π) (hc : canon g = canon g') :
    canon (g.compose h) = canon (g'.compose h) := by
  obtain ⟨hn, he, ht, hy⟩ := (canon_eq_iff g g').mp hc
  rw [canon_eq_iff]
  refine ⟨fun n => ?_, fun e => ?_, fun n t => ?_, fun u v => ?_⟩
  · simp only [mem_nodes_compose, hn]
  · simp only [mem_edges_compose, he]
  · simp only [tag_compose, ht]
  · simp only [ety_compose, hy]

theorem ety_setTags (g : Graph ν π) (ns : List ν) (t : Tag) (b : Bool) (u v : ν) :
    (g.setTags ns t b).ety u v = g.ety u v := rfl

theorem canon_setTags_congr (g g' : Graph ν π) (l l' : List ν) (t : Tag) (b : Bool) (hc : canon g = canon g')
    (hl : ∀ n, n ∈ l ↔ n ∈ l') : canon (g.setTags l t b) = canon (g'.setTags l' t b) := by
  obtain ⟨hn, he, ht, hy⟩ := (canon_eq_iff g g').mp hc
  rw [canon_eq_iff]
  refine ⟨fun n => ?_, fun e => ?_, fun n t' => ?_, fun u v => ?_⟩
  · simp only [nodes_setTags, hn]
  · simp only [edges_setTags, he]
  · simp only [tag_setTags, hl, hn, ht]
  · simp only [ety_setTags, hy]

theorem canon_foldl_addEdge_congr' (es es' : List (ν × ν)) (g g' : Graph ν π) (ty : EType) (hc : canon g = canon g')
    (h : ∀ e, e ∈ es ↔ e ∈ es') :
    canon (es.foldl (fun g e => g.addEdge e.1 e.2 ty) g) = canon (es'.foldl (fun g e => g.addEdge e.1 e.2 ty) g') := by
  obtain ⟨hn, he, ht, hy⟩ := (canon_eq_iff g g').mp hc
  rw [canon_eq_iff]
  refine ⟨fun n => ?_, fun e => ?_, fun n t => ?_, fun u v => ?_⟩
  · simp only [mem_nodes_foldl_addEdge, h, hn]
  · simp only [mem_edges_foldl_addEdge, h, he]
  · simp only [tag_foldl_addEdge, ht]
  · simp only [ety_foldl_addEdge, h, hy]

theorem degree_zero_congr (g g' : Graph ν π) (he : ∀ e, e ∈ g.edges ↔ e ∈ g'.edges) (n : ν) :
    g.degree n = 0 ↔ g'.degree n = 0 := by
  simp only [degree_eq_zero_iff, he]

end SqlLineage.Graph

namespace SqlLineage.Assemble
open SqlLineage Graph

/-! ### `holder.drop` -/

/-- closed form of the DROP loop: exactly the listed nodes that are isolated *in the graph before the loop* go away,
    the edge list and every attribute function are untouched -/
theorem dropStep_eq (ts : List Node) (g : LGraph) :
    dropStep g ts =
      { g with nodes := g.nodes.filter (fun n => !(ts.contains n && g.degree n == 0)) } := by
  induction ts generalizing g with
  | nil =>
    cases g
    simp only [dropStep, List.foldl_nil, List.contains_nil, Bool.false_and, Bool.not_false]
    congr 1
    exact (List.filter_eq_self.mpr (fun _ _ => rfl)).symm
  | cons t r ih =>
    have hstep : dropStep g (t :: r) =
        dropStep (if g.hasNode t && g.degree t == 0 then g.removeNode t else g) r := by
      simp [dropStep]
    rw [hstep]
    by_cases hc : (g.hasNode t && g.degree t == 0) = true
    · rw [if_pos hc, ih]
      simp only [Bool.and_eq_true, beq_iff_eq] at hc
      have hed : (g.removeNode t).edges = g.edges := removeNode_edges_of_isolated g t hc.2
      have hdeg : ∀ n, (g.removeNode t).degree n = g.degree n := degree_congr _ _ hed
      have hnodes : (g.removeNode t).nodes = g.nodes.filter (· ≠ t) := rfl
      have hflt : ((g.removeNode t).nodes.filter (fun n => !(r.contains n && (g.removeNode t).degree n == 0))) =
          g.nodes.filter (fun n => !((t :: r).contains n && g.degree n == 0)) := by
        rw [hnodes, List.filter_filter]
        apply List.filter_congr
        intro n _
        simp only [hdeg, List.contains_cons]
        by_cases hnt : n = t
        · subst hnt; simp [hc.2]
        · have hb : (n == t) = false := by simp [hnt]
          simp [hnt, hb]
      rw [hflt]
      show ({ g.removeNode t with nodes := _ } : LGraph) = _
      simp only [removeNode] at hed ⊢
      rw [hed]
    · rw [if_neg hc, ih]
      have hflt : g.nodes.filter (fun n => !(r.contains n && g.degree n == 0)) =
          g.nodes.filter (fun n => !((t :: r).contains n && g.degree n == 0)) := by
        apply List.filter_congr
        intro n hn
        simp only [List.contains_cons]
        by_cases hnt : n = t
        · subst hnt
          have : ¬ (g.degree n = 0) := by
            intro hd
            apply hc
            simp [hasNode, hn, hd]
          simp [this]
        · have hb : (n == t) = false := by simp [hnt]
          simp [hb]
      rw [hflt]

/-- the DROP loop depends only on the *set* of dropped tables -/
theorem dropStep_congr (g : LGraph) (l₁ l₂ : List Node) (h : ∀ n, n ∈ l₁ ↔ n ∈ l₂) :
    dropStep g l₁ = dropStep g l₂ := by
  have hc : ∀ m, l₁.contains m = l₂.contains m := by
    intro m
    by_cases hm : m ∈ l₁
    · simp [hm, (h m).mp hm]
    · simp [hm, mt (h m).mpr hm]
  rw [dropStep_eq, dropStep_eq]
  simp only [hc]

theorem mem_nodes_dropStep (g : LGraph) (ts : List Node) (n : Node) :
    n ∈ (dropStep g ts).nodes ↔ n ∈ g.nodes ∧ ¬(n ∈ ts ∧ g.degree n = 0) := by
  rw [dropStep_eq]
  simp only [List.mem_filter, Bool.not_eq_true', Bool.and_eq_false_iff, List.contains_eq_mem, decide_eq_false_iff_not,
    beq_eq_false_iff_ne, ne_eq, not_and]
  constructor
  · rintro ⟨a, b | b⟩
    · exact ⟨a, fun hm => absurd hm b⟩
    · exact ⟨a, fun _ => b⟩
  · rintro ⟨a, b⟩
    refine ⟨a, ?_⟩
    by_cases hm : n ∈ ts
    · exact Or.inr (b hm)
    · exact Or.inl hm

theorem dropStep_edges (g : LGraph) (ts : List Node) : (dropStep g ts).edges = g.edges := by
  rw [dropStep_eq]

theorem ety_dropStep (g : LGraph) (ts : List Node) (u v : Node) : (dropStep g ts).ety u v = g.ety u v := by
  rw [dropStep_eq]; rfl

theorem tag_dropStep (g : LGraph) (ts : List Node) (n : Node) (t : Tag) :
    (dropStep g ts).tag n t = if n ∈ ts ∧ g.degree n = 0 then none else g.tag n t := by
  by_cases hm : n ∈ (dropStep g ts).nodes
  · rw [tag_of_mem _ _ _ hm]
    have hm' := (mem_nodes_dropStep g ts n).mp hm
    rw [if_neg hm'.2, tag_of_mem _ _ _ hm'.1, dropStep_eq]
  · rw [tag_of_not_mem _ _ _ hm]
    rw [mem_nodes_dropStep] at hm
    by_cases hc : n ∈ ts ∧ g.degree n = 0
    · rw [if_pos hc]
    · rw [if_neg hc]
      have : n ∉ g.nodes := fun h => hm ⟨h, hc⟩
      rw [tag_of_not_mem _ _ _ this]

theorem canon_dropStep_congr (g g' : LGraph) (l l' : List Node) (hc : canon g = canon g') (hl : ∀ n, n ∈ l ↔ n ∈ l') :
    canon (dropStep g l) = canon (dropStep g' l') := by
  obtain ⟨hn, he, ht, hy⟩ := (canon_eq_iff g g').mp hc
  have hd := degree_zero_congr g g' he
  rw [canon_eq_iff]
  refine ⟨fun n => ?_, fun e => ?_, fun n t => ?_, fun u v => ?_⟩
  · simp only [mem_nodes_dropStep, hn, hl, hd]
  · simp only [dropStep_edges, he]
  · simp only [tag_dropStep, hl, hd, ht]
  · simp only [ety_dropStep, hy]

theorem canon_rwStep_congr (g g' : LGraph) {r r' w w' : List Node} (hc : canon g = canon g') (hr : r.Perm r') (hw : w.Perm w') :
    canon (rwStep g r w) = canon (rwStep g' r' w') := by
  unfold rwStep
  rw [hr.length_eq, hw.length_eq]
  split
  · exact canon_setTags_congr g g' r r' _ _ hc (fun _ => hr.mem_iff)
  · split
    · exact canon_setTags_congr g g' w w' _ _ hc (fun _ => hw.mem_iff)
    · apply canon_foldl_addEdge_congr' _ _ _ _ _ hc
      rintro ⟨a, b⟩
      simp only [AStmt.mem_product, hr.mem_iff, hw.mem_iff]

/-- `canon` under the error monad of the fold -/
def canonE : Except Err LGraph → Except Err (Canon Node)
  | .ok g => .ok (canon g)
  | .error e => .error e

/-! ### the role sets are functions of the order‑free content -/

theorem mem_union (a b : List Node) (x : Node) : x ∈ Assemble.union a b ↔ x ∈ a ∨ x ∈ b := by
  simp only [Assemble.union, List.mem_append, List.mem_filter, Bool.not_eq_true', List.contains_eq_mem,
    decide_eq_false_iff_not]
  constructor
  · rintro (h | ⟨h, _⟩)
    · exact Or.inl h
    · exact Or.inr h
  · rintro (h | h)
    · exact Or.inl h
    · by_cases ha : x ∈ a
      · exact Or.inl ha
      · exact Or.inr ⟨h, ha⟩

theorem mem_tagTables (g : LGraph) (t : Tag) (n : Node) :
    n ∈ tagTables g t ↔ n ∈ g.nodes ∧ g.tag n t = some true ∧ n.isDataset = true := by
  simp only [tagTables, tagged, List.mem_filter, beq_iff_eq]
  constructor
  · rintro ⟨⟨a, b⟩, c⟩; exact ⟨a, b, c⟩
  · rintro ⟨a, b, c⟩; exact ⟨⟨a, b⟩, c⟩

theorem mem_tableGraph_nodes (g : LGraph) (n : Node) :
    n ∈ (tableGraph g).nodes ↔ n ∈ g.nodes ∧ n.isDataset = true := by
  simp [tableGraph, mem_nodes_subgraph]

theorem mem_tableGraph_edges (g : LGraph) (e : Node × Node) :
    e ∈ (tableGraph g).edges ↔ e ∈ g.edges ∧ e.1.isDataset = true ∧ e.2.isDataset = true := by
  simp [tableGraph, mem_edges_subgraph]

end SqlLineage.Assemble

namespace SqlLineage
open SqlLineage

/-! ### `parent_candidates`: a sorted, duplicate‑free list whatever the insertion order -/

/-- strictly increasing printed names -/
def PSorted (l : List (DS × String)) : Prop := l.Pairwise (fun a b => a.2 < b.2)

/-- a strictly sorted list is determined by its members -/
theorem psorted_unique : ∀ {l₁ l₂ : List (DS × String)}, PSorted l₁ → PSorted l₂ → (∀ x, x ∈ l₁ ↔ x ∈ l₂) → l₁ = l₂
  | [], [], _, _, _ => rfl
  | [], b :: _, _, _, h => absurd ((h b).mpr (List.mem_cons_self ..)) (by simp)
  | a :: _, [], _, _, h => absurd ((h a).mp (List.mem_cons_self ..)) (by simp)
  | a :: r₁, b :: r₂, h₁, h₂, h => by
    have h₁' := List.pairwise_cons.mp h₁
    have h₂' := List.pairwise_cons.mp h₂
    have hab : a = b := by
      have ha : a ∈ b :: r₂ := (h a).mp (List.mem_cons_self ..)
      have hb : b ∈ a :: r₁ := (h b).mpr (List.mem_cons_self ..)
      rcases List.mem_cons.mp ha with e | ha'
      · exact e
      · rcases List.mem_cons.mp hb with e | hb'
        · exact e.symm
        · exact absurd (h₁'.1 b hb') (String.lt_asymm (h₂'.1 a ha'))
    subst hab
    have hna₁ : a ∉ r₁ := fun hm => String.lt_irrefl _ (h₁'.1 a hm)
    have hna₂ : a ∉ r₂ := fun hm => String.lt_irrefl _ (h₂'.1 a hm)
    have : r₁ = r₂ := psorted_unique h₁'.2 h₂'.2 (fun x => by
      constructor
      · intro hx
        rcases List.mem_cons.mp ((h x).mp (List.mem_cons_of_mem _ hx)) with e | hx'
        · subst e; exact absurd hx hna₁
        · exact hx'
      · intro hx
        rcases List.mem_cons.mp ((h x).mpr (List.mem_cons_of_mem _ hx)) with e | hx'
        · subst e; exact absurd hx hna₂
        · exact hx')
    rw [this]

/-- inserting a candidate whose identity and printed name are both new into a sorted list: the result is sorted and has
    exactly one more member -/
theorem insertParent_fresh (p : DS × String) :
    ∀ (l : List (DS × String)), PSorted l → (∀ q ∈ l, q.1 ≠ p.1 ∧ q.2 ≠ p.2) →
      PSorted (insertParent p l) ∧ ∀ x, x ∈ insertParent p l ↔ x = p ∨ x ∈ l
  | [], _, _ => by simp [insertParent, PSorted]
  | q :: r, hs, hf => by
    have hq := hf q (List.mem_cons_self ..)
    have hs' := List.pairwise_cons.mp hs
    have hfr : ∀ x ∈ r, x.1 ≠ p.1 ∧ x.2 ≠ p.2 := fun x hx => hf x (List.mem_cons_of_mem _ hx)
    unfold insertParent
    rw [if_neg hq.1]
    by_cases hlt : p.2 < q.2
    · rw [if_pos hlt]
      have hflt : r.filter (fun x => decide (x.1 ≠ p.1)) = r := by
        apply List.filter_eq_self.mpr
        intro x hx
        simp [(hfr x hx).1]
      rw [hflt]
      refine ⟨?_, ?_⟩
      · apply List.pairwise_cons.mpr
        refine ⟨?_, hs⟩
        intro x hx
        rcases List.mem_cons.mp hx with e | hx'
        · rw [e]; exact hlt
        · exact String.lt_trans hlt (hs'.1 x hx')
      · intro x; simp
    · rw [if_neg hlt]
      obtain ⟨ih1, ih2⟩ := insertParent_fresh p r hs'.2 hfr
      have hqp : q.2 < p.2 := by
        rcases Nat.lt_or_ge 0 1 with _ | _
        · by_cases hpq : q.2 < p.2
          · exact hpq
          · exact absurd (Std.Trichotomous.trichotomous (r := (· < · : String → String → Prop)) _ _ hlt hpq) (Ne.symm hq.2)
        · omega
      refine ⟨?_, ?_⟩
      · apply List.pairwise_cons.mpr
        refine ⟨?_, ih1⟩
        intro x hx
        rcases (ih2 x).mp hx with e | hx'
        · rw [e]; exact hqp
        · exact hs'.1 x hx'
      · intro x
        simp only [List.mem_cons, ih2]
        constructor
        · rintro (h | h | h)
          · exact Or.inr (Or.inl h)
          · exact Or.inl h
          · exact Or.inr (Or.inr h)
        · rintro (h | h | h)
          · exact Or.inr (Or.inl h)
          · exact Or.inl h
          · exact Or.inr (Or.inr h)

/-- candidates pairwise distinct in identity AND in printed name (what the hypothesis "distinct printed names" means) -/
def DistinctCands (l : List (DS × String)) : Prop := l.Pairwise (fun a b => a.1 ≠ b.1 ∧ a.2 ≠ b.2)

/-- folding `insertParent` over a list of pairwise distinct candidates gives a sorted list with exactly those members -/
theorem foldl_insertParent (l : List (DS × String)) (hd : DistinctCands l) :
    ∀ (acc : List (DS × String)), PSorted acc → (∀ q ∈ acc, ∀ p ∈ l, q.1 ≠ p.1 ∧ q.2 ≠ p.2) →
      PSorted (l.foldl (fun ps v => insertParent v ps) acc) ∧
      ∀ x, x ∈ l.foldl (fun ps v => insertParent v ps) acc ↔ x ∈ acc ∨ x ∈ l := by
  induction l with
  | nil => intro acc hs _; simp [hs]
  | cons p r ih =>
    intro acc hs hf
    have hd' := List.pairwise_cons.mp hd
    obtain ⟨s1, m1⟩ := insertParent_fresh p acc hs (fun q hq => hf q hq p (List.mem_cons_self ..))
    have hf' : ∀ q ∈ insertParent p acc, ∀ x ∈ r, q.1 ≠ x.1 ∧ q.2 ≠ x.2 := by
      intro q hq x hx
      rcases (m1 q).mp hq with e | hq'
      · rw [e]; exact hd'.1 x hx
      · exact hf q hq' x (List.mem_cons_of_mem _ hx)
    obtain ⟨s2, m2⟩ := ih hd'.2 (insertParent p acc) s1 hf'
    refine ⟨s2, ?_⟩
    intro x
    simp only [List.foldl_cons, m2, m1, List.mem_cons]
    constructor
    · rintro ((h | h) | h)
      · exact Or.inr (Or.inl h)
      · exact Or.inl h
      · exact Or.inr (Or.inr h)
    · rintro (h | h | h)
      · exact Or.inl (Or.inr h)
      · exact Or.inl (Or.inl h)
      · exact Or.inr h

theorem DistinctCands.perm {l₁ l₂ : List (DS × String)} (h : l₁.Perm l₂) (hd : DistinctCands l₁) : DistinctCands l₂ := by
  unfold DistinctCands at hd ⊢
  exact (h.pairwise_iff (R := fun (a b : DS × String) => a.1 ≠ b.1 ∧ a.2 ≠ b.2)
    (fun hab => ⟨Ne.symm hab.1, Ne.symm hab.2⟩)).mp hd

/-- **insertion order is irrelevant**: over pairwise distinct candidates every permutation folds to the same list -/
theorem foldl_insertParent_perm {l₁ l₂ : List (DS × String)} (h : l₁.Perm l₂) (hd : DistinctCands l₁) :
    l₁.foldl (fun ps v => insertParent v ps) [] = l₂.foldl (fun ps v => insertParent v ps) [] := by
  obtain ⟨s1, m1⟩ := foldl_insertParent l₁ hd [] List.Pairwise.nil (by simp)
  obtain ⟨s2, m2⟩ := foldl_insertParent l₂ (hd.perm h) [] List.Pairwise.nil (by simp)
  apply psorted_unique s1 s2
  intro x
  rw [m1, m2]
  simp [h.mem_iff]

/-! ### `permK` enumerates permutations -/

theorem permK_perm {α : Type} : ∀ (k : Nat) (l : List α), (Holder.permK k l).Perm l
  | _, [] => by simp [Holder.permK]
  | k, x :: r => by
    have ih := permK_perm (k / (r.length + 1)) r
    simp only [Holder.permK]
    generalize Holder.permK (k / (r.length + 1)) r = rest at ih ⊢
    generalize k % (r.length + 1) = i
    have h1 : (rest.take i ++ [x] ++ rest.drop i).Perm (x :: (rest.take i ++ rest.drop i)) := by
      rw [List.append_assoc]
      exact List.perm_middle
    rw [List.take_append_drop] at h1
    exact h1.trans (List.Perm.cons x ih)

end SqlLineage
