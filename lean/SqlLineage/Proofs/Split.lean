/-
Helper lemmas for `Props/C05.lean` (all about `Model.Split`): per-token runs of the one-character lexer, the text
invariant, `essence`/`trimWhite`/`keep` algebra, the generalised splitter-vs-specification induction (`go_spec`), and
the computation of the specification on assembled scripts (`S_body`, `S_noise`).  Core Lean only.
-/
import SqlLineage.Model.Split
import SqlLineage.Spec.Split

namespace SqlLineage.Proofs.Split
open SqlLineage.Split SqlLineage.Spec.Split

/-! ### 1. The lexer: `lex (render ts) = ts` for well‑formed token lists, and `render (lex s) = s` for every string -/

theorem run_append (s : St) (a b : List Char) : run s (a ++ b) = run (run s a) b := by
  simp [run, List.foldl_append]

theorem run_cons (s : St) (c : Char) (r : List Char) : run s (c :: r) = run (step s c) r := rfl

theorem run_nil (s : St) : run s [] = s := rfl

/-- the modes in which no token is in progress beyond a one‑character look‑ahead -/
def boundary : Mode → Bool
  | .code | .dash | .slash | .hash | .strQ _ => true
  | _ => false

/-- `c` does not continue the pending look‑ahead -/
def mcompat : Mode → Char → Bool
  | .dash, c => c != '-'
  | .slash, c => c != '*'
  | .hash, c => c != ' '
  | .strQ q, c => c != q
  | _, _ => true

theorem step_boundary (s : St) (c : Char) (hb : boundary s.mode = true) (hc : mcompat s.mode c = true) :
    step s c = stepCode (flush s) c := by
  obtain ⟨m, cur, out⟩ := s
  cases m <;> simp_all [step, flush, boundary, mcompat]

theorem run_line_body (op : Opener) (b acc : List Char) (o : List Tok) (h : b.all (· != '\n') = true) :
    run ⟨.line op, acc, o⟩ b = ⟨.line op, b.reverse ++ acc, o⟩ := by
  induction b generalizing acc with
  | nil => simp [run]
  | cons c r ih =>
    simp only [List.all_cons, Bool.and_eq_true, bne_iff_ne, ne_eq] at h
    rw [run_cons]
    simp only [step, h.1, if_false]
    rw [ih _ h.2]; simp

theorem run_qbody (q : Char) (b acc : List Char) (o : List Tok) (h : qbody q b = true) :
    run ⟨.str q, acc, o⟩ b = ⟨.str q, b.reverse ++ acc, o⟩ := by
  induction b using qbody.induct q generalizing acc with
  | case1 => simp [run]
  | case2 c =>
    simp only [qbody, bne_iff_ne, ne_eq] at h
    simp [run, step, h]
  | case3 c' r ih =>
    simp only [qbody, if_true, Bool.and_eq_true, decide_eq_true_eq] at h
    obtain ⟨h1, h2⟩ := h
    subst h1
    rw [run_cons, run_cons]
    simp only [step, if_true]
    rw [ih _ h2]; simp
  | case4 c c' r hc ih =>
    simp only [qbody, hc, if_false] at h
    rw [run_cons]
    simp only [step, hc, if_false]
    rw [ih _ h]; simp

def bm (star : Bool) : Mode := if star then .blockStar else .block

theorem run_block_body (b : List Char) : ∀ (star : Bool) (acc : List Char) (o : List Tok),
    noClose star b = true → ∃ star', run ⟨bm star, acc, o⟩ b = ⟨bm star', b.reverse ++ acc, o⟩ := by
  induction b with
  | nil => intro star acc o _; exact ⟨star, by simp [run]⟩
  | cons c r ih =>
    intro star acc o h
    cases star with
    | false =>
      simp only [noClose, Bool.false_and, Bool.false_eq_true, if_false] at h
      by_cases hc : c = '*'
      · subst hc
        obtain ⟨s', hs'⟩ := ih true ('*' :: acc) o (by simpa using h)
        refine ⟨s', ?_⟩
        rw [run_cons]; simp only [bm, step, Bool.false_eq_true, if_false, if_true] at *
        rw [hs']; simp
      · obtain ⟨s', hs'⟩ := ih false (c :: acc) o (by simpa [hc] using h)
        refine ⟨s', ?_⟩
        rw [run_cons]; simp only [bm, step, Bool.false_eq_true, if_false, hc] at *
        rw [hs']; simp
    | true =>
      by_cases hs : c = '/'
      · simp [noClose, hs] at h
      · simp only [noClose, Bool.true_and, decide_eq_true_eq, hs, if_false] at h
        by_cases hc : c = '*'
        · subst hc
          obtain ⟨s', hs'⟩ := ih true ('*' :: acc) o (by simpa using h)
          refine ⟨s', ?_⟩
          rw [run_cons]; simp only [bm, step, if_true, hs, if_false] at *
          rw [hs']; simp
        · obtain ⟨s', hs'⟩ := ih false (c :: acc) o (by simpa [hc] using h)
          refine ⟨s', ?_⟩
          rw [run_cons]; simp only [bm, step, if_true, hs, hc, if_false, Bool.false_eq_true] at *
          rw [hs']; simp

theorem isQuote_ne {q : Char} (h : isQuote q = true) : q ≠ ';' ∧ q ≠ '-' ∧ q ≠ '/' ∧ q ≠ '#' := by
  simp only [isQuote, Bool.or_eq_true, decide_eq_true_eq] at h
  rcases h with (h | h) | h <;> subst h <;> decide

/-- one whole token, from a boundary state to a boundary state -/
theorem run_tok (s : St) (t : Tok) (hb : boundary s.mode = true) (hok : tokOk t = true)
    (hc : mcompat s.mode (firstChar t) = true) (hnl : ∀ op b, t ≠ .line op b false) :
    boundary (run s (render1 t)).mode = true ∧ flush (run s (render1 t)) = t :: flush s ∧
      ∀ c, compat t c = true → mcompat (run s (render1 t)).mode c = true := by
  cases t with
  | ch c =>
    simp only [tokOk, Bool.and_eq_true, bne_iff_ne, ne_eq, Bool.not_eq_true'] at hok
    simp only [render1, run_cons, run_nil, firstChar] at *
    rw [step_boundary s c hb hc]
    by_cases h1 : c = '-'
    · subst h1; simp [stepCode, isQuote, boundary, flush, compat, mcompat]
    by_cases h2 : c = '/'
    · subst h2; simp [stepCode, isQuote, boundary, flush, compat, mcompat]
    by_cases h3 : c = '#'
    · subst h3; simp [stepCode, isQuote, boundary, flush, compat, mcompat]
    simp [stepCode, hok.1, hok.2, h1, h2, h3, boundary, flush, mcompat]
  | semi =>
    simp only [render1, run_cons, run_nil, firstChar] at *
    rw [step_boundary s ';' hb hc]
    simp [stepCode, boundary, flush, mcompat]
  | quoted q b =>
    simp only [tokOk, Bool.and_eq_true] at hok
    obtain ⟨hq, hbody⟩ := hok
    obtain ⟨n1, n2, n3, n4⟩ := isQuote_ne hq
    simp only [render1, run_cons, firstChar] at *
    rw [step_boundary s q hb hc]
    simp only [stepCode, n1, hq, if_false, if_true]
    rw [run_append, run_qbody q b [] _ hbody, run_cons, run_nil]
    simp [step, boundary, flush, compat, mcompat]
  | line op b nl =>
    cases nl with
    | false => exact absurd rfl (hnl op b)
    | true =>
      simp only [tokOk] at hok
      cases op with
      | dash =>
        simp only [render1, Opener.text, List.cons_append, List.nil_append, run_cons, firstChar, if_true] at *
        rw [step_boundary s '-' hb hc]
        simp only [stepCode, isQuote, show ('-' : Char) ≠ ';' by decide, if_false, step, if_true]
        rw [show (('-' : Char) = '\'' || ('-' : Char) = '"' || ('-' : Char) = '`') = false by decide]
        simp only [Bool.false_eq_true, if_false, step, if_true]
        rw [run_append, run_line_body .dash b [] _ hok, run_cons, run_nil]
        simp [step, boundary, flush, compat, mcompat]
      | hash =>
        simp only [render1, Opener.text, List.cons_append, List.nil_append, run_cons, firstChar, if_true] at *
        rw [step_boundary s '#' hb hc]
        simp only [stepCode, isQuote, show ('#' : Char) ≠ ';' by decide, show ('#' : Char) ≠ '-' by decide,
          show ('#' : Char) ≠ '/' by decide, if_false, step, if_true]
        rw [show (('#' : Char) = '\'' || ('#' : Char) = '"' || ('#' : Char) = '`') = false by decide]
        simp only [Bool.false_eq_true, if_false, step, if_true]
        rw [run_append, run_line_body .hash b [] _ hok, run_cons, run_nil]
        simp [step, boundary, flush, compat, mcompat]
  | block b =>
    simp only [tokOk] at hok
    simp only [render1, run_cons, firstChar] at *
    rw [step_boundary s '/' hb hc]
    simp only [stepCode, isQuote, show ('/' : Char) ≠ ';' by decide, show ('/' : Char) ≠ '-' by decide, if_false, step, if_true]
    rw [show (('/' : Char) = '\'' || ('/' : Char) = '"' || ('/' : Char) = '`') = false by decide]
    simp only [Bool.false_eq_true, if_false, step, if_true]
    obtain ⟨star', hs'⟩ := run_block_body b false [] (flush s) hok
    rw [run_append]
    simp only [bm, Bool.false_eq_true, if_false] at hs'
    rw [hs', run_cons, run_cons, run_nil]
    cases star' <;> simp [bm, step, boundary, flush, compat, mcompat]
  | junk r => simp [tokOk] at hok

theorem wf_cons {t : Tok} {r : List Tok} (h : wf (t :: r) = true) :
    tokOk t = true ∧ wf r = true ∧ (∀ t' r', r = t' :: r' → compat t (firstChar t') = true) := by
  cases r with
  | nil => simp [wf] at *; exact h
  | cons t' r' =>
    simp only [wf, Bool.and_eq_true] at h
    refine ⟨h.1.1, h.2, ?_⟩
    intro t'' r'' e
    cases e; exact h.1.2

theorem flush_run_render (ts : List Tok) : ∀ s : St, boundary s.mode = true → wf ts = true →
    (∀ t r, ts = t :: r → mcompat s.mode (firstChar t) = true) →
    flush (run s (render ts)) = ts.reverse ++ flush s := by
  induction ts with
  | nil => intro s _ _ _; simp [render, run]
  | cons t r ih =>
    intro s hb hwf hc
    obtain ⟨hok, hwr, hadj⟩ := wf_cons hwf
    have hc' := hc t r rfl
    simp only [render, run_append]
    by_cases hl : ∃ op b, t = .line op b false
    · obtain ⟨op, b, rfl⟩ := hl
      -- a line comment without LF: nothing may follow
      have hr : r = [] := by
        cases r with
        | nil => rfl
        | cons t' r' => have := hadj t' r' rfl; simp [compat] at this
      subst hr
      simp only [tokOk] at hok
      simp only [render, run_nil, List.reverse_cons, List.reverse_nil, List.nil_append, List.singleton_append]
      cases op with
      | dash =>
        simp only [render1, Opener.text, List.cons_append, List.nil_append, run_cons, firstChar, Bool.false_eq_true,
          if_false, List.append_nil] at *
        rw [step_boundary s '-' hb hc']
        simp only [stepCode, isQuote, show ('-' : Char) ≠ ';' by decide, if_false, step, if_true]
        rw [show (('-' : Char) = '\'' || ('-' : Char) = '"' || ('-' : Char) = '`') = false by decide]
        simp only [Bool.false_eq_true, if_false, step, if_true]
        rw [run_line_body .dash b [] _ hok]
        simp [flush]
      | hash =>
        simp only [render1, Opener.text, List.cons_append, List.nil_append, run_cons, firstChar, Bool.false_eq_true,
          if_false, List.append_nil] at *
        rw [step_boundary s '#' hb hc']
        simp only [stepCode, isQuote, show ('#' : Char) ≠ ';' by decide, show ('#' : Char) ≠ '-' by decide,
          show ('#' : Char) ≠ '/' by decide, if_false, step, if_true]
        rw [show (('#' : Char) = '\'' || ('#' : Char) = '"' || ('#' : Char) = '`') = false by decide]
        simp only [Bool.false_eq_true, if_false, step, if_true]
        rw [run_line_body .hash b [] _ hok]
        simp [flush]
    · have hnl : ∀ op b, t ≠ .line op b false := fun op b e => hl ⟨op, b, e⟩
      obtain ⟨hb1, hf1, hc1⟩ := run_tok s t hb hok hc' hnl
      rw [ih _ hb1 hwr (fun t' r' e => hc1 _ (hadj t' r' e)), hf1]
      simp

/-- the characters consumed so far, as the lexer would print them if the input ended here -/
theorem render_append (a b : List Tok) : render (a ++ b) = render a ++ render b := by
  induction a with
  | nil => simp [render]
  | cons t r ih => simp [render, ih]

theorem render_reverse_cons (t : Tok) (o : List Tok) : render (o ++ [t]) = render o ++ render1 t := by
  simp [render_append, render]

theorem isQuote_stepCode {c : Char} (h : isQuote c = true) (o : List Tok) : stepCode o c = ⟨.str c, [], o⟩ := by
  have := isQuote_ne h
  simp [stepCode, h, this.1]

theorem text_stepCode (o : List Tok) (c : Char) :
    render (flush (stepCode o c)).reverse = render o.reverse ++ [c] := by
  by_cases h0 : c = ';'
  · subst h0; simp [stepCode, flush, render_reverse_cons, render1]
  by_cases hq : isQuote c = true
  · rw [isQuote_stepCode hq]; simp [flush, render_reverse_cons, render1]
  by_cases h1 : c = '-'
  · subst h1; simp [stepCode, isQuote, flush, render_reverse_cons, render1]
  by_cases h2 : c = '/'
  · subst h2; simp [stepCode, isQuote, flush, render_reverse_cons, render1]
  by_cases h3 : c = '#'
  · subst h3; simp [stepCode, isQuote, flush, render_reverse_cons, render1]
  simp [stepCode, h0, hq, h1, h2, h3, flush, render_reverse_cons, render1]

/-- in `blockStar` the pending `*` is the head of `cur` -/
def good (s : St) : Prop := s.mode = .blockStar → ∃ r, s.cur = '*' :: r

theorem stepCode_mode (o : List Tok) (c : Char) : (stepCode o c).mode ≠ .blockStar := by
  unfold stepCode
  repeat' split
  all_goals simp

theorem good_step (s : St) (c : Char) (_ : good s) : good (step s c) := by
  obtain ⟨m, cur, out⟩ := s
  intro hm
  cases m with
  | code => exact absurd hm (stepCode_mode _ _)
  | dash => simp only [step] at hm ⊢; split at hm <;> first | exact absurd hm (stepCode_mode _ _) | simp at hm
  | slash => simp only [step] at hm ⊢; split at hm <;> first | exact absurd hm (stepCode_mode _ _) | simp at hm
  | hash => simp only [step] at hm ⊢; split at hm <;> first | exact absurd hm (stepCode_mode _ _) | simp at hm
  | str q => simp only [step] at hm ⊢; split at hm <;> simp at hm
  | strQ q => simp only [step] at hm ⊢; split at hm <;> first | exact absurd hm (stepCode_mode _ _) | simp at hm
  | line op => simp only [step] at hm ⊢; split at hm <;> simp at hm
  | block =>
    by_cases h : c = '*'
    · subst h; exact ⟨cur, by simp [step]⟩
    · simp [step, h] at hm
  | blockStar =>
    by_cases h : c = '/'
    · simp [step, h] at hm
    · by_cases h' : c = '*'
      · subst h'; exact ⟨cur, by simp [step]⟩
      · simp [step, h, h'] at hm

theorem text_step (s : St) (c : Char) (hg : good s) :
    render (flush (step s c)).reverse = render (flush s).reverse ++ [c] := by
  obtain ⟨m, cur, out⟩ := s
  cases m with
  | code => simp only [step]; rw [text_stepCode]; simp [flush]
  | dash =>
    by_cases h : c = '-'
    · subst h; simp [step, flush, render_reverse_cons, render1, Opener.text]
    · simp only [step, h, if_false]; rw [text_stepCode]; simp [flush, render_reverse_cons, render1]
  | slash =>
    by_cases h : c = '*'
    · subst h; simp [step, flush, render_reverse_cons, render1]
    · simp only [step, h, if_false]; rw [text_stepCode]; simp [flush, render_reverse_cons, render1]
  | hash =>
    by_cases h : c = ' '
    · subst h; simp [step, flush, render_reverse_cons, render1, Opener.text]
    · simp only [step, h, if_false]; rw [text_stepCode]; simp [flush, render_reverse_cons, render1]
  | str q =>
    by_cases h : c = q
    · subst h; simp [step, flush, render_reverse_cons, render1]
    · simp [step, h, flush, render_reverse_cons, render1]
  | strQ q =>
    by_cases h : c = q
    · subst h; simp [step, flush, render_reverse_cons, render1]
    · simp only [step, h, if_false]; rw [text_stepCode]; simp [flush, render_reverse_cons, render1]
  | line op =>
    by_cases h : c = '\n'
    · subst h; simp [step, flush, render_reverse_cons, render1]
    · simp [step, h, flush, render_reverse_cons, render1]
  | block =>
    by_cases h : c = '*'
    · subst h; simp [step, flush, render_reverse_cons, render1]
    · simp [step, h, flush, render_reverse_cons, render1]
  | blockStar =>
    obtain ⟨r, hr⟩ := hg rfl
    simp only at hr
    subst hr
    by_cases h : c = '/'
    · subst h; simp [step, flush, render_reverse_cons, render1]
    · by_cases h' : c = '*'
      · subst h'; simp [step, flush, render_reverse_cons, render1]
      · simp [step, h, h', flush, render_reverse_cons, render1]

theorem text_run (cs : List Char) : ∀ s, good s →
    render (flush (run s cs)).reverse = render (flush s).reverse ++ cs := by
  induction cs with
  | nil => intro s _; simp [run]
  | cons c r ih =>
    intro s hg
    rw [run_cons, ih _ (good_step s c hg), text_step s c hg]; simp

/-! ### 2. The splitter on tokens, for EVERY token list: the kept pieces are the `;`‑delimited segments that contain
something other than blanks and comments — in order, each up to comments / `;` / outer blanks (`essence`) -/

theorem dropWhile_of_all {α} {p : α → Bool} {l : List α} (h : l.all p = true) : l.dropWhile p = [] := by
  induction l with
  | nil => rfl
  | cons a r ih =>
    simp only [List.all_cons, Bool.and_eq_true] at h
    simp [List.dropWhile_cons, h.1, ih h.2]

theorem all_of_dropWhile_nil {α} {p : α → Bool} {l : List α} (h : l.dropWhile p = []) : l.all p = true := by
  induction l with
  | nil => rfl
  | cons a r ih =>
    by_cases ha : p a = true
    · simp [List.dropWhile_cons, ha] at h; simp [ha, ih h]
    · simp [List.dropWhile_cons, ha] at h

theorem dropWhile_all_nil {α} {p : α → Bool} {l : List α} (h : (l.dropWhile p).all p = true) : l.dropWhile p = [] := by
  induction l with
  | nil => rfl
  | cons a r ih =>
    by_cases ha : p a = true
    · simp only [List.dropWhile_cons, ha, if_true] at h ⊢; exact ih h
    · simp [List.dropWhile_cons, ha] at h

theorem trimWhite_left {w x : List Tok} (h : w.all isWhite = true) : trimWhite (w ++ x) = trimWhite x := by
  simp [trimWhite, List.dropWhile_append, dropWhile_of_all h]

theorem trimWhite_right {w x : List Tok} (h : w.all isWhite = true) : trimWhite (x ++ w) = trimWhite x := by
  unfold trimWhite
  rw [List.dropWhile_append]
  by_cases he : (List.dropWhile isWhite x).isEmpty = true
  · have : List.dropWhile isWhite x = [] := by simpa using he
    simp [this, dropWhile_of_all h]
  · simp only [he, if_false, Bool.false_eq_true, List.reverse_append]
    rw [List.dropWhile_append, dropWhile_of_all (by simpa using h)]
    simp

theorem trimWhite_nil_iff {x : List Tok} : trimWhite x = [] ↔ x.all isWhite = true := by
  constructor
  · intro h
    have h1 : ((x.dropWhile isWhite).reverse.dropWhile isWhite) = [] := by simpa [trimWhite] using h
    have h2 := all_of_dropWhile_nil h1
    rw [List.all_reverse] at h2
    exact all_of_dropWhile_nil (dropWhile_all_nil h2)
  · intro h; simp [trimWhite, dropWhile_of_all h]

theorem filter_noise_white {n : List Tok} (h : n.all isNoise = true) : (n.filter isCodeTok).all isWhite = true := by
  rw [List.all_filter]
  rw [List.all_eq_true] at h ⊢
  intro t ht
  have := h t ht
  cases t <;> simp_all [isNoise, isCodeTok, isWhite, isComment, isSemi]

theorem essence_left {n x : List Tok} (h : n.all isNoise = true) : essence (n ++ x) = essence x := by
  simp [essence, List.filter_append, trimWhite_left (filter_noise_white h)]

theorem essence_right {n x : List Tok} (h : n.all isNoise = true) : essence (x ++ n) = essence x := by
  simp [essence, List.filter_append, trimWhite_right (filter_noise_white h)]

theorem essence_nil_iff {x : List Tok} : essence x = [] ↔ x.any isSubst = false := by
  rw [essence, trimWhite_nil_iff, List.all_filter]
  rw [List.all_eq_true, List.any_eq_false]
  constructor
  · intro h t ht
    have := h t ht
    cases t <;> simp_all [isSubst, isCodeTok, isWhite, isComment, isSemi]
  · intro h t ht
    have := h t ht
    cases t <;> simp_all [isSubst, isCodeTok, isWhite, isComment, isSemi]

theorem eos_noise {e : List Tok} (h : e.all isEOS = true) : e.all isNoise = true := by
  rw [List.all_eq_true] at h ⊢
  intro t ht
  have := h t ht
  cases t <;> simp_all [isEOS, isNoise, isWhite, isComment, isSemi, isBlank]

theorem keep_cons (t : Tok) (r : List Tok) :
    keep (t :: r) = if (!isWhite t && !isComment t) = true then !isSemi t else keep r := by
  unfold keep
  rw [List.find?_cons]
  cases h : (!isWhite t && !isComment t) <;> simp

/-- `keep` on a piece `x ++ ; ++ y` with no `;` in `x`: decided by `x` alone -/
theorem keep_semi {x y : List Tok} (hx : x.all (fun t => !isSemi t) = true) :
    keep (x ++ .semi :: y) = x.any isSubst := by
  induction x with
  | nil => simp [keep_cons, isWhite, isComment, isSemi]
  | cons t r ih =>
    simp only [List.all_cons, Bool.and_eq_true] at hx
    rw [List.cons_append, keep_cons, ih hx.2, List.any_cons]
    have h1 := hx.1
    cases h : (!isWhite t && !isComment t) <;> simp_all [isSubst]

theorem keep_nosemi {x : List Tok} (hx : x.all (fun t => !isSemi t) = true) : keep x = x.any isSubst := by
  induction x with
  | nil => simp [keep]
  | cons t r ih =>
    simp only [List.all_cons, Bool.and_eq_true] at hx
    rw [keep_cons, ih hx.2, List.any_cons]
    have h1 := hx.1
    cases h : (!isWhite t && !isComment t) <;> simp_all [isSubst]

/-- what a piece / a segment with substantive part `x` contributes to the answer -/
def contrib (x : List Tok) : List (List Tok) := if x.any isSubst = true then [essence x] else []

theorem spec_cons (x : List Tok) (rest : List (List Tok)) :
    ((x :: rest).map essence).filter nonEmpty = contrib x ++ (rest.map essence).filter nonEmpty := by
  by_cases h : x.any isSubst = true
  · have : essence x ≠ [] := fun e => by rw [essence_nil_iff.mp e] at h; simp at h
    have hne : nonEmpty (essence x) = true := by
      cases he : essence x with
      | nil => exact absurd he this
      | cons a r => simp [nonEmpty]
    simp [contrib, h, List.filter_cons, hne]
  · have hf : x.any isSubst = false := by simpa using h
    have : essence x = [] := essence_nil_iff.mpr hf
    simp [contrib, hf, List.filter_cons, this, nonEmpty]

theorem noise_no_subst {n : List Tok} (h : n.all isNoise = true) : n.any isSubst = false := by
  rw [List.all_eq_true] at h
  rw [List.any_eq_false]
  intro t ht
  have := h t ht
  cases t <;> simp_all [isNoise, isSubst, isWhite, isComment, isSemi]

theorem contrib_left {n x : List Tok} (h : n.all isNoise = true) : contrib (n ++ x) = contrib x := by
  simp [contrib, List.any_append, noise_no_subst h, essence_left h]

theorem contrib_right {n x : List Tok} (h : n.all isNoise = true) : contrib (x ++ n) = contrib x := by
  simp [contrib, List.any_append, noise_no_subst h, essence_right h]

theorem contrib_noise {n : List Tok} (h : n.all isNoise = true) : contrib n = [] := by
  simp [contrib, noise_no_subst h]

theorem white_no_subst {c : List Tok} (h : c.all isWhite = true) : c.any isSubst = false := by
  rw [List.all_eq_true] at h
  rw [List.any_eq_false]
  intro t ht
  have := h t ht
  simp_all [isSubst]

theorem filter_keep_cons (p : List Tok) (rest : List (List Tok)) :
    ((p :: rest).filter keep).map essence = (if keep p = true then [essence p] else []) ++ (rest.filter keep).map essence := by
  by_cases h : keep p = true <;> simp [List.filter_cons, h]

theorem go_spec (ts : List Tok) :
    (∀ cur e : List Tok, cur.all (fun t => !isSemi t) = true → e.all isEOS = true →
      ((go cur false ts).filter keep).map essence = ((segs (cur ++ e) ts).map essence).filter nonEmpty) ∧
    (∀ E X : List Tok, E.all isEOS = true → X.all (fun t => !isSemi t) = true →
      ((go (E ++ .semi :: X) true ts).filter keep).map essence
        = contrib X.reverse ++ ((segs E ts).map essence).filter nonEmpty) := by
  induction ts with
  | nil =>
    constructor
    · intro cur e hc he
      have hen : e.reverse.all isNoise = true := by rw [List.all_reverse]; exact eos_noise he
      simp only [segs, spec_cons, List.map_nil, List.filter_nil, List.append_nil, List.reverse_append, contrib_left hen]
      by_cases hw : cur.all isWhite = true
      · have := white_no_subst hw
        simp [go, hw, contrib, this]
      · have hk : keep cur.reverse = cur.any isSubst := by
          rw [keep_nosemi (by rw [List.all_reverse]; exact hc), List.any_reverse]
        simp only [go, hw, if_false, Bool.false_eq_true, filter_keep_cons, hk, contrib, List.any_reverse]
        simp
    · intro E X hE hX
      have hnw : (E ++ Tok.semi :: X).all isWhite = false := by simp [List.all_append, isWhite]
      have hrev : (E ++ Tok.semi :: X).reverse = X.reverse ++ Tok.semi :: E.reverse := by simp
      have hn : (Tok.semi :: E.reverse).all isNoise = true := by
        simp only [List.all_cons, Bool.and_eq_true]; refine ⟨by simp [isNoise, isSemi], ?_⟩
        rw [List.all_reverse]; exact eos_noise hE
      have hk : keep (X.reverse ++ Tok.semi :: E.reverse) = X.reverse.any isSubst :=
        keep_semi (by rw [List.all_reverse]; exact hX)
      have hEn : E.reverse.all isNoise = true := by rw [List.all_reverse]; exact eos_noise hE
      simp only [go, hnw, Bool.false_eq_true, if_false, hrev, filter_keep_cons, hk, essence_right hn, segs, spec_cons,
        contrib_noise hEn]
      simp [contrib]
  | cons t r ih =>
    obtain ⟨ihA, ihB⟩ := ih
    constructor
    · intro cur e hc he
      by_cases hs : isSemi t = true
      · have ht : t = .semi := by cases t <;> simp_all [isSemi]
        subst ht
        have hen : e.reverse.all isNoise = true := by rw [List.all_reverse]; exact eos_noise he
        have := ihB [] cur (by simp) hc
        simp only [List.nil_append] at this
        simp only [go, Bool.false_and, Bool.false_eq_true, if_false, Bool.false_or, isSemi, this, segs, if_true, spec_cons,
          List.reverse_append, contrib_left hen]
      · have hs' : isSemi t = false := by simpa using hs
        have := ihA (t :: cur) e (by simp [hs', hc]) he
        simp only [go, Bool.false_and, Bool.false_eq_true, if_false, Bool.false_or, hs', segs, List.cons_append] at this ⊢
        exact this
    · intro E X hE hX
      by_cases he : isEOS t = true
      · have hs' : isSemi t = false := by cases t <;> simp_all [isEOS, isSemi]
        have := ihB (t :: E) X (by simp [he, hE]) hX
        simp only [go, he, Bool.not_true, Bool.and_false, Bool.false_eq_true, if_false, Bool.true_or, segs, hs',
          List.cons_append] at this ⊢
        exact this
      · have he' : isEOS t = false := by simpa using he
        have hrev : (E ++ Tok.semi :: X).reverse = X.reverse ++ Tok.semi :: E.reverse := by simp
        have hn : (Tok.semi :: E.reverse).all isNoise = true := by
          simp only [List.all_cons, Bool.and_eq_true]; refine ⟨by simp [isNoise, isSemi], ?_⟩
          rw [List.all_reverse]; exact eos_noise hE
        have hk : keep (X.reverse ++ Tok.semi :: E.reverse) = X.reverse.any isSubst :=
          keep_semi (by rw [List.all_reverse]; exact hX)
        have hEn : E.reverse.all isNoise = true := by rw [List.all_reverse]; exact eos_noise hE
        have hhead : (if keep (X.reverse ++ Tok.semi :: E.reverse) = true then [essence (X.reverse ++ Tok.semi :: E.reverse)] else [])
            = contrib X.reverse := by
          simp [hk, essence_right hn, contrib]
        simp only [go, he', Bool.not_false, Bool.and_true, if_true, hrev, filter_keep_cons, hhead]
        by_cases hs : isSemi t = true
        · have ht : t = .semi := by cases t <;> simp_all [isSemi]
          subst ht
          have := ihB [] [] (by simp) (by simp)
          simp only [List.nil_append, List.reverse_nil] at this
          rw [show contrib [] = [] by simp [contrib]] at this
          simp only [isSemi, this, segs, if_true, spec_cons, contrib_noise hEn, List.nil_append]
        · have hs' : isSemi t = false := by simpa using hs
          have := ihA [t] E (by simp [hs']) hE
          simp only [hs', this, segs, Bool.false_eq_true, if_false, List.cons_append, List.nil_append]

/-! ### 3. Scripts assembled from statements and separator noise -/

def isBlankish (t : Tok) : Bool := isWhite t || isComment t

theorem blankish_noise {a : List Tok} (h : a.all isBlankish = true) : a.all isNoise = true := by
  rw [List.all_eq_true] at h ⊢
  intro t ht; have := h t ht
  simp_all [isBlankish, isNoise]

theorem segs_nosemi (a : List Tok) : ∀ acc x, a.all (fun t => !isSemi t) = true →
    segs acc (a ++ x) = segs (a.reverse ++ acc) x := by
  induction a with
  | nil => intros; simp
  | cons t r ih =>
    intro acc x h
    simp only [List.all_cons, Bool.and_eq_true, Bool.not_eq_true'] at h
    simp only [List.cons_append, segs, h.1, Bool.false_eq_true, if_false]
    rw [ih _ _ h.2]; simp

/-- the answer of the specification from accumulator `acc` -/
def S (acc ts : List Tok) : List (List Tok) := ((segs acc ts).map essence).filter nonEmpty

theorem S_semi (a acc b : List Tok) (h : a.all (fun t => !isSemi t) = true) :
    S acc (a ++ .semi :: b) = contrib (acc.reverse ++ a) ++ S [] b := by
  unfold S
  rw [segs_nosemi a _ _ h]
  simp only [segs, isSemi, if_true, spec_cons, List.reverse_append, List.reverse_reverse]

theorem S_end (a acc : List Tok) (h : a.all (fun t => !isSemi t) = true) :
    S acc a = contrib (acc.reverse ++ a) := by
  unfold S
  have := segs_nosemi a acc [] h
  rw [List.append_nil] at this
  rw [this]
  simp only [segs, spec_cons, List.reverse_append, List.reverse_reverse, List.map_nil, List.filter_nil, List.append_nil]

theorem exists_first_semi (n : List Tok) (h : n.any isSemi = true) :
    ∃ n1 n2, n = n1 ++ Tok.semi :: n2 ∧ n1.all (fun t => !isSemi t) = true := by
  induction n with
  | nil => simp at h
  | cons t r ih =>
    by_cases hs : isSemi t = true
    · have : t = .semi := by cases t <;> simp_all [isSemi]
      subst this
      exact ⟨[], r, by simp, by simp⟩
    · have hs' : isSemi t = false := by simpa using hs
      simp only [List.any_cons, hs', Bool.false_or] at h
      obtain ⟨n1, n2, e, h1⟩ := ih h
      exact ⟨t :: n1, n2, by simp [e], by simp [hs', h1]⟩

/-- noise in front of the rest of a script only produces dropped pieces -/
theorem S_noise (rest : List Tok) (ans : List (List Tok))
    (hrest : ∀ acc, acc.all isBlankish = true → S acc rest = ans) (n : List Tok) :
    ∀ acc, n.all isNoise = true → acc.all isBlankish = true → S acc (n ++ rest) = ans := by
  induction n with
  | nil => intro acc _ ha; simpa using hrest acc ha
  | cons t r ih =>
    intro acc hn ha
    simp only [List.all_cons, Bool.and_eq_true] at hn
    by_cases hs : isSemi t = true
    · have : t = .semi := by cases t <;> simp_all [isSemi]
      subst this
      have h0 := S_semi [] acc (r ++ rest) (by simp)
      simp only [List.nil_append, List.append_nil] at h0
      have hn' : acc.reverse.all isNoise = true := by rw [List.all_reverse]; exact blankish_noise ha
      rw [List.cons_append, h0, contrib_noise hn', List.nil_append]
      exact ih [] hn.2 (by simp)
    · have hs' : isSemi t = false := by simpa using hs
      have hb : isBlankish t = true := by
        have := hn.1; simp_all [isNoise, isBlankish]
      have : S acc (t :: r ++ rest) = S (t :: acc) (r ++ rest) := by
        simp [S, segs, hs']
      rw [this]
      exact ih (t :: acc) hn.2 (by simp [hb, ha])

theorem items_all_cons {p : List Tok × List Tok} {r : List (List Tok × List Tok)}
    (h : (p :: r).all (fun p => stmtOk p.1 && p.2.all isNoise) = true) :
    (p.1.all (fun t => !isSemi t) = true ∧ p.1.any isSubst = true) ∧ p.2.all isNoise = true ∧
      r.all (fun p => stmtOk p.1 && p.2.all isNoise) = true := by
  simp only [List.all_cons, Bool.and_eq_true, stmtOk] at h
  exact ⟨h.1.1, h.1.2, h.2⟩

theorem S_body (items : List (List Tok × List Tok)) :
    items.all (fun p => stmtOk p.1 && p.2.all isNoise) = true → sepsOk items = true →
    ∀ acc, acc.all isBlankish = true → S acc (body items) = items.map (fun p => essence p.1) := by
  induction items with
  | nil =>
    intro _ _ acc ha
    have hn' : acc.reverse.all isNoise = true := by rw [List.all_reverse]; exact blankish_noise ha
    have := S_end [] acc (by simp)
    simpa [body, contrib_noise hn'] using this
  | cons p r ih =>
    intro hit hseps acc ha
    obtain ⟨⟨hs1, hs2⟩, hsep, hr⟩ := items_all_cons hit
    have hacc : acc.reverse.all isNoise = true := by rw [List.all_reverse]; exact blankish_noise ha
    have hstmt : ∀ n1 : List Tok, n1.all isNoise = true → contrib (acc.reverse ++ (p.1 ++ n1)) = [essence p.1] := by
      intro n1 h1
      rw [contrib_left hacc, contrib_right h1]
      simp [contrib, hs2]
    by_cases hsemi : p.2.any isSemi = true
    · obtain ⟨n1, n2, e, h1⟩ := exists_first_semi p.2 hsemi
      have hn : n1.all isNoise = true ∧ n2.all isNoise = true := by
        rw [e] at hsep; simp only [List.all_append, List.all_cons, Bool.and_eq_true] at hsep
        exact ⟨hsep.1, hsep.2.2⟩
      have hseps' : sepsOk r = true := by
        cases r with
        | nil => rfl
        | cons q r' => simp only [sepsOk, Bool.and_eq_true] at hseps; exact hseps.2
      have hshape : body (p :: r) = (p.1 ++ n1) ++ Tok.semi :: (n2 ++ body r) := by
        simp [body, e]
      rw [hshape, S_semi _ _ _ (by simp [List.all_append, hs1, h1]), hstmt n1 hn.1]
      rw [S_noise (body r) (r.map (fun p => essence p.1)) (ih hr hseps') n2 [] hn.2 (by simp)]
      simp
    · have hsemi' : p.2.all (fun t => !isSemi t) = true := by
        rw [List.all_eq_true]; intro t ht
        have : p.2.any isSemi = false := by simpa using hsemi
        rw [List.any_eq_false] at this
        simpa using this t ht
      have hr0 : r = [] := by
        cases r with
        | nil => rfl
        | cons q r' => simp only [sepsOk, Bool.and_eq_true] at hseps; exact absurd hseps.1 hsemi
      subst hr0
      have hshape : body [p] = p.1 ++ p.2 := by simp [body]
      rw [hshape, S_end _ _ (by simp [List.all_append, hs1, hsemi']), hstmt p.2 hsep]
      simp

theorem hyp_parts {lead : List Tok} {items : List (List Tok × List Tok)} (h : scriptHyp lead items = true) :
    wf (scriptToks lead items) = true ∧ lead.all isNoise = true ∧
      items.all (fun p => stmtOk p.1 && p.2.all isNoise) = true ∧ sepsOk items = true := by
  simp only [scriptHyp, Bool.and_eq_true] at h
  exact ⟨h.1.1.1.1, h.1.1.2, h.1.2, h.2⟩

theorem S_only_noise (n : List Tok) (hn : n.all isNoise = true) : S [] n = [] := by
  have := S_noise [] [] (fun acc ha => by
    have hn' : acc.reverse.all isNoise = true := by rw [List.all_reverse]; exact blankish_noise ha
    have := S_end [] acc (by simp)
    simpa [contrib_noise hn'] using this) n [] hn (by simp)
  simpa using this

theorem go_nosemi (s : List Tok) : ∀ cur, s.all (fun t => !isSemi t) = true →
    go cur false s = if (s.reverse ++ cur).all isWhite = true then [] else [(s.reverse ++ cur).reverse] := by
  induction s with
  | nil => intro cur _; simp [go]
  | cons t r ih =>
    intro cur h
    simp only [List.all_cons, Bool.and_eq_true, Bool.not_eq_true'] at h
    simp only [go, Bool.false_and, Bool.false_eq_true, if_false, h.1, Bool.false_or]
    rw [ih _ h.2]; simp

end SqlLineage.Proofs.Split
