/-
Error provenance in the holder operations and in the statement walk (helper lemmas of `Props/C10.lean`).

Part 1: the `Except`‑returning operations of `Model/HolderOps.lean` — exactly when and with what they fail.
Part 2: `ErrOK r`: "if `r` is an error it is `lineage` or `internal "None node"`"; a mutual structural induction over the
        whole extractor walk of `Model/Walk.lean` shows every function of the walk is `ErrOK`: the walk has no error source of
        its own, every error is handed up unchanged from `finishBranches` (= `endOfQueryCleanup`).
-/
import SqlLineage.Model.Stmt

namespace SqlLineage.Proofs.WalkErrors
open SqlLineage Ast Walk Holder Graph

/-! ### Part 1 — holder operations -/

/-- generic: a monadic left fold over `Except` can only fail with an error one of its steps produced -/
theorem foldlM_error {α β : Type} (f : β → α → Except Err β) (P : Err → Prop)
    (hf : ∀ b a e, f b a = .error e → P e) :
    ∀ (l : List α) (b : β) (e : Err), l.foldlM f b = .error e → P e
  | [], b, e, h => by simp [List.foldlM_nil, pure, Except.pure] at h
  | a :: l, b, e, h => by
    rw [List.foldlM_cons] at h
    cases hfa : f b a with
    | error x =>
      rw [hfa] at h
      simp only [bind, Except.bind] at h
      cases h; exact hf b a _ hfa
    | ok b' =>
      rw [hfa] at h
      simp only [bind, Except.bind] at h
      exact foldlM_error f P hf l b' e h

/-- generic: if no step fails the fold does not fail -/
theorem foldlM_ok {α β : Type} (f : β → α → Except Err β) (hf : ∀ b a, ∃ b', f b a = .ok b') :
    ∀ (l : List α) (b : β), ∃ b', l.foldlM f b = .ok b'
  | [], b => ⟨b, by simp [List.foldlM_nil, pure, Except.pure]⟩
  | a :: l, b => by
    obtain ⟨b', hb'⟩ := hf b a
    obtain ⟨b'', hb''⟩ := foldlM_ok f hf l b'
    exact ⟨b'', by rw [List.foldlM_cons, hb']; simpa only [bind, Except.bind] using hb''⟩

/-- `add_column_lineage` fails exactly when the target column has no unique owner, and then with the internal error
    networkx raises for a `None` node -/
theorem addColumnLineage_error_iff (g : LGraph) (src tgt : Column) (e : Err) :
    addColumnLineage g src tgt = .error e ↔ tgt.parent? = none ∧ e = .internal "None node" := by
  unfold addColumnLineage
  cases htp : tgt.parent? with
  | none => simp only [true_and]; constructor
            · intro h; cases h; rfl
            · intro h; rw [h]
  | some tp =>
    simp only
    cases src.parent? <;> simp

theorem addColumnLineage_ok_iff (g : LGraph) (src tgt : Column) :
    (∃ g', addColumnLineage g src tgt = .ok g') ↔ tgt.parent?.isSome = true := by
  cases h : addColumnLineage g src tgt with
  | error e =>
    have := (addColumnLineage_error_iff g src tgt e).mp h
    simp [this.1]
  | ok g' =>
    cases htp : tgt.parent? with
    | none =>
      have := (addColumnLineage_error_iff g src tgt (.internal "None node")).mpr ⟨htp, rfl⟩
      rw [h] at this; cases this
    | some tp => simp

/-- what `cleanup_item` wires a select item to: `write_columns[idx]` when the numbers match, else the item itself -/
def itemTarget (tp : DS × String) (grpLen : Nat) (g : LGraph) (ci : ColSpec × Nat) : Column :=
  let own : Column := Column.mk1 ci.1.raw (some tp)
  let wc := writeColumns g
  if wc.length == grpLen then (match wc[ci.2]? with | some n => (colOf g n).getD own | none => own) else own

theorem cleanupItem_eq (importDefault : String) (tp : DS × String) (grpLen : Nat) (tblGrp : List DObj)
    (g : LGraph) (ci : ColSpec × Nat) (revStar : Nat) :
    cleanupItem importDefault tp grpLen tblGrp g ci revStar =
      (if (toSourceColumns importDefault (aliasMapping g tblGrp) ci.1 revStar).isEmpty then .ok g
       else (toSourceColumns importDefault (aliasMapping g tblGrp) ci.1 revStar).foldlM
              (fun acc s => addColumnLineage acc s (itemTarget tp grpLen g ci)) g) := by
  unfold cleanupItem itemTarget
  rfl

/-- **exact characterisation**: a select item fails iff it has a source column and the column it is wired to has no unique
    owner; the error is then `internal "None node"` -/
theorem cleanupItem_error_iff (importDefault : String) (tp : DS × String) (grpLen : Nat) (tblGrp : List DObj)
    (g : LGraph) (ci : ColSpec × Nat) (revStar : Nat) (e : Err) :
    cleanupItem importDefault tp grpLen tblGrp g ci revStar = .error e ↔
      ((toSourceColumns importDefault (aliasMapping g tblGrp) ci.1 revStar).isEmpty = false ∧
       (itemTarget tp grpLen g ci).parent? = none ∧ e = .internal "None node") := by
  rw [cleanupItem_eq]
  generalize toSourceColumns importDefault (aliasMapping g tblGrp) ci.1 revStar = srcs
  generalize itemTarget tp grpLen g ci = tgt
  cases srcs with
  | nil => simp
  | cons s r =>
    simp only [List.isEmpty_cons, Bool.false_eq_true, if_false, true_and]
    constructor
    · intro h
      exact foldlM_error (fun acc s => addColumnLineage acc s tgt) (fun e => tgt.parent? = none ∧ e = .internal "None node")
        (fun b a e h => (addColumnLineage_error_iff b a tgt e).mp h) _ _ _ h
    · rintro ⟨hp, rfl⟩
      rw [List.foldlM_cons, (addColumnLineage_error_iff g s tgt _).mpr ⟨hp, rfl⟩]
      rfl

/-- the item's own column always has its owner -/
theorem own_parent (raw : String) (tp : DS × String) : (Column.mk1 raw (some tp)).parent? = some tp := rfl

/-- a select item wired to a column that has a unique owner never fails -/
theorem cleanupItem_ok_of_owned (importDefault : String) (tp : DS × String) (grpLen : Nat) (tblGrp : List DObj)
    (g : LGraph) (ci : ColSpec × Nat) (revStar : Nat) (h : (itemTarget tp grpLen g ci).parent?.isSome = true) :
    ∃ g', cleanupItem importDefault tp grpLen tblGrp g ci revStar = .ok g' := by
  cases hc : cleanupItem importDefault tp grpLen tblGrp g ci revStar with
  | ok g' => exact ⟨g', rfl⟩
  | error e =>
    have := (cleanupItem_error_iff importDefault tp grpLen tblGrp g ci revStar e).mp hc
    rw [this.2.1] at h; cases h

/-- "payload columns reachable through `write_columns` have exactly one parent" — the invariant under which the owner‑less
    case cannot arise -/
def WriteColsOwned (g : LGraph) : Prop :=
  ∀ n ∈ writeColumns g, ∀ c, colOf g n = some c → c.parent?.isSome = true

theorem itemTarget_owned (tp : DS × String) (grpLen : Nat) (g : LGraph) (ci : ColSpec × Nat) (h : WriteColsOwned g) :
    (itemTarget tp grpLen g ci).parent?.isSome = true := by
  unfold itemTarget
  simp only
  split
  · split
    · rename_i n hn
      have hmem : n ∈ writeColumns g := List.mem_of_getElem? hn
      cases hc : colOf g n with
      | none => simp [own_parent]
      | some c => simpa using h n hmem c hc
    · simp [own_parent]
  · simp [own_parent]

/-- the callers in `cleanup_item` never hand an owner‑less target to `add_column_lineage` as long as the invariant holds
    for the graph the item is evaluated on -/
theorem cleanupItem_ok_of_invariant (importDefault : String) (tp : DS × String) (grpLen : Nat) (tblGrp : List DObj)
    (g : LGraph) (ci : ColSpec × Nat) (revStar : Nat) (h : WriteColsOwned g) :
    ∃ g', cleanupItem importDefault tp grpLen tblGrp g ci revStar = .ok g' :=
  cleanupItem_ok_of_owned _ _ _ _ _ _ _ (itemTarget_owned tp grpLen g ci h)

/-- a holder without a target table (or whose write columns differ in number from the select items) wires every item to
    the item's own column: no failure whatever the graph looks like -/
theorem cleanupItem_ok_of_len_ne (importDefault : String) (tp : DS × String) (grpLen : Nat) (tblGrp : List DObj)
    (g : LGraph) (ci : ColSpec × Nat) (revStar : Nat) (h : (writeColumns g).length ≠ grpLen) :
    ∃ g', cleanupItem importDefault tp grpLen tblGrp g ci revStar = .ok g' := by
  apply cleanupItem_ok_of_owned
  unfold itemTarget
  simp [h, own_parent]

/-- one union group: `lineage` exactly for more than one write target; otherwise only what an item produced -/
theorem cleanupGroup_error (importDefault : String) (g : LGraph) (colGrp : List ColSpec) (tblGrp : List DObj)
    (revStar : Nat) (e : Err) (h : cleanupGroup importDefault g colGrp tblGrp revStar = .error e) :
    (e = .lineage ∧ 2 ≤ (writeSet g).length) ∨ (e = .internal "None node" ∧ (writeSet g).length = 1) := by
  unfold cleanupGroup at h
  split at h
  · cases h
  · rename_i t ht
    right
    refine ⟨?_, by rw [ht]; rfl⟩
    exact foldlM_error _ (fun e => e = .internal "None node")
      (fun b a e h => ((cleanupItem_error_iff _ _ _ _ _ _ _ e).mp h).2.2) _ _ _ h
  · rename_i hne1 hne2
    cases h
    left
    refine ⟨rfl, ?_⟩
    match hw : writeSet g with
    | [] => exact absurd hw hne1
    | [t] => exact absurd hw (hne2 t)
    | _ :: _ :: _ => simp

theorem cleanupGroup_lineage_iff (importDefault : String) (g : LGraph) (colGrp : List ColSpec) (tblGrp : List DObj)
    (revStar : Nat) :
    cleanupGroup importDefault g colGrp tblGrp revStar = .error .lineage ↔ 2 ≤ (writeSet g).length := by
  constructor
  · intro h
    rcases cleanupGroup_error _ _ _ _ _ _ h with ⟨_, h2⟩ | ⟨h1, _⟩
    · exact h2
    · cases h1
  · intro h
    unfold cleanupGroup
    match hw : writeSet g with
    | [] => rw [hw] at h; simp at h
    | [t] => rw [hw] at h; simp at h
    | _ :: _ :: _ => rfl

theorem go_error (importDefault : String) (tables : List DObj) (columns : List ColSpec) (revStar : Nat) :
    ∀ (bs : List (Nat × Nat)) (g : LGraph) (prev : Nat × Nat) (e : Err),
      endOfQueryCleanup.go importDefault tables columns revStar g prev bs = .error e →
      e = .lineage ∨ e = .internal "None node"
  | [], g, prev, e, h => by unfold endOfQueryCleanup.go at h; cases h
  | b :: r, g, prev, e, h => by
    unfold endOfQueryCleanup.go at h
    split at h
    · exact go_error importDefault tables columns revStar r _ _ e h
    · rename_i e' he'
      cases h
      rcases cleanupGroup_error _ _ _ _ _ _ he' with ⟨h1, _⟩ | ⟨h1, _⟩
      · exact Or.inl h1
      · exact Or.inr h1

/-- **`end_of_query_cleanup` fails only with `lineage` (more than one write target) or with what `add_column_lineage`
    raised for an owner‑less target** -/
theorem endOfQueryCleanup_error (importDefault : String) (g : LGraph) (tables : List DObj) (columns : List ColSpec)
    (barriers : List (Nat × Nat)) (revStar : Nat) (e : Err)
    (h : endOfQueryCleanup importDefault g tables columns barriers revStar = .error e) :
    e = .lineage ∨ e = .internal "None node" := by
  unfold endOfQueryCleanup at h
  exact go_error _ _ _ _ _ _ _ _ h

/-! ### Part 2 — the walk -/

/-- "if it is an error, it is one of the two errors `end_of_query_cleanup` can produce" -/
structure ErrOK {α : Type} (r : Except Err α) : Prop where
  out : ∀ e, r = .error e → e = .lineage ∨ e = .internal "None node"

theorem ErrOK_ok {α : Type} (a : α) : ErrOK (Except.ok a : Except Err α) := ⟨fun _ h => by cases h⟩

theorem finishBranches_ok (env : Env) (g : LGraph) (bs : List (List Item × List FromExpr)) :
    ErrOK (finishBranches env g bs) := by
  constructor
  intro e h
  unfold finishBranches at h
  simp only at h
  split at h
  · cases h
  · rename_i e' he'
    cases h
    exact endOfQueryCleanup_error _ _ _ _ _ _ _ he'

/-! the three functions whose equation lemmas Lean cannot generate (a `match` on the OVER clause inside a continuation):
    unfolded by hand -/

set_option smartUnfolding false in
theorem sqDeep_func (env : Env) (g : LGraph) (n : String) (d : Bool) (args : List Expr) (over : Option Over) :
    sqDeep env (.func n d args over) g =
    (match sqDeepL env args g with
      | .error x => .error x
      | .ok g' => (match over with | some (.mk p o) => (match sqDeepL env p g' with
          | .error x => .error x | .ok g'' => sqDeepL env o g'') | none => .ok g')) := by
  cases over with
  | none => rfl
  | some ov => cases ov; rfl

set_option smartUnfolding false in
theorem sqDeep_case (env : Env) (g : LGraph) (ws : List When) (els : Option Expr) :
    sqDeep env (.case ws els) g =
    (match sqDeepW env ws g with
      | .error x => .error x
      | .ok g' => (match els with | some e => sqDeep env e g' | none => .ok g')) := by
  cases els <;> rfl

set_option smartUnfolding false in
theorem cjExpr_func (env : Env) (g : LGraph) (n : String) (d : Bool) (args : List Expr) (over : Option Over) :
    cjExpr env (.func n d args over) g =
    (match cjExprs env args g with
      | .error x => .error x
      | .ok g' => (match over with | some (.mk p o) => (match cjExprs env p g' with
          | .error x => .error x | .ok g'' => cjExprs env o g'') | none => .ok g')) := by
  cases over with
  | none => rfl
  | some ov => cases ov; rfl

set_option smartUnfolding false in
theorem cjExpr_case (env : Env) (g : LGraph) (ws : List When) (els : Option Expr) :
    cjExpr env (.case ws els) g =
    (match cjWhens env ws g with
      | .error x => .error x
      | .ok g' => (match els with | some e => cjExpr env e g' | none => .ok g')) := by
  cases els <;> rfl

set_option smartUnfolding false in
theorem sqItems_func (env : Env) (g : LGraph) (n : String) (d : Bool) (args : List Expr) (over : Option Over)
    (alias : Option String) (k : Bool) (r : List Item) :
    sqItems env (.mk (.func n d args over) alias k :: r) g =
    (match (match sqDeepL env args g with
          | .error x => Except.error x
          | .ok g' => (match over with | some (.mk p o) => (match sqDeepL env p g' with
              | .error x => .error x | .ok g'' => sqDeepL env o g'') | none => .ok g')) with
      | .error x => .error x
      | .ok g' => sqItems env r g') := by
  cases over with
  | none => rfl
  | some ov => cases ov; rfl


set_option smartUnfolding false in
private theorem weq0 (env : Env) (g : LGraph) :
    sqItems env [] g = .ok g := rfl

set_option smartUnfolding false in
private theorem weq1 (env : Env) (g : LGraph) (e : Expr) (ty : String) (alias : Option String) (k : Bool) (r : List Item) :
    sqItems env (.mk (.cast e ty) alias k :: r) g =
        (match sqDeep env e g with | .error x => .error x | .ok g' => sqItems env r g') := rfl

set_option smartUnfolding false in
private theorem weq2 (env : Env) (g : LGraph) (qs : List String) (n : String) (alias : Option String) (k : Bool) (r : List Item) :
    sqItems env (.mk (.col qs n) alias k :: r) g = sqItems env r g := rfl

set_option smartUnfolding false in
private theorem weq3 (env : Env) (g : LGraph) (qs : List String) (alias : Option String) (k : Bool) (r : List Item) :
    sqItems env (.mk (.star qs) alias k :: r) g = sqItems env r g := rfl

set_option smartUnfolding false in
private theorem weq4 (env : Env) (g : LGraph) (t : String) (alias : Option String) (k : Bool) (r : List Item) :
    sqItems env (.mk (.lit t) alias k :: r) g = sqItems env r g := rfl

set_option smartUnfolding false in
private theorem weq5 (env : Env) (g : LGraph) (alias : Option String) (k : Bool) (r : List Item) (ws : List When) (els : Option Expr) :
    sqItems env (.mk (.case ws els) alias k :: r) g =
        (match (match sqFirstCase env (.case ws els) alias g with | .error x => Except.error x | .ok p => .ok p.2) with
          | .error x => .error x | .ok g' => sqItems env r g') := rfl

set_option smartUnfolding false in
private theorem weq6 (env : Env) (g : LGraph) (alias : Option String) (k : Bool) (r : List Item) (op : String) (a : Expr) (b : Expr) :
    sqItems env (.mk (.bin op a b) alias k :: r) g =
        (match (match sqFirstCase env (.bin op a b) alias g with | .error x => Except.error x | .ok p => .ok p.2) with
          | .error x => .error x | .ok g' => sqItems env r g') := rfl

set_option smartUnfolding false in
private theorem weq7 (env : Env) (g : LGraph) (e : Expr) (alias : Option String) (k : Bool) (r : List Item) :
    sqItems env (.mk (.paren e) alias k :: r) g =
        (match (match sqFirstCase env (.paren e) alias g with | .error x => Except.error x | .ok p => .ok p.2) with
          | .error x => .error x | .ok g' => sqItems env r g') := rfl

set_option smartUnfolding false in
private theorem weq8 (env : Env) (g : LGraph) (alias : Option String) (k : Bool) (r : List Item) (q : Query) :
    sqItems env (.mk (.subq q) alias k :: r) g =
        (match (match sqFirstCase env (.subq q) alias g with | .error x => Except.error x | .ok p => .ok p.2) with
          | .error x => .error x | .ok g' => sqItems env r g') := rfl

set_option smartUnfolding false in
private theorem weq9 (env : Env) (g : LGraph) (e : Expr) (alias : Option String) (k : Bool) (r : List Item) (q : Query) (neg : Bool) :
    sqItems env (.mk (.inSubq e neg q) alias k :: r) g =
        (match (match sqFirstCase env (.inSubq e neg q) alias g with | .error x => Except.error x | .ok p => .ok p.2) with
          | .error x => .error x | .ok g' => sqItems env r g') := rfl

set_option smartUnfolding false in
private theorem weq10 (env : Env) (g : LGraph) (alias : Option String) (k : Bool) (r : List Item) (q : Query) (neg : Bool) :
    sqItems env (.mk (.exist neg q) alias k :: r) g =
        (match (match sqFirstCase env (.exist neg q) alias g with | .error x => Except.error x | .ok p => .ok p.2) with
          | .error x => .error x | .ok g' => sqItems env r g') := rfl

set_option smartUnfolding false in
private theorem weq11 (env : Env) (g : LGraph) (qs : List String) (n : String) :
    sqDeep env (.col qs n) g = .ok g := rfl

set_option smartUnfolding false in
private theorem weq12 (env : Env) (g : LGraph) (qs : List String) :
    sqDeep env (.star qs) g = .ok g := rfl

set_option smartUnfolding false in
private theorem weq13 (env : Env) (g : LGraph) (t : String) :
    sqDeep env (.lit t) g = .ok g := rfl

set_option smartUnfolding false in
private theorem weq14 (env : Env) (g : LGraph) (e : Expr) (ty : String) :
    sqDeep env (.cast e ty) g = sqDeep env e g := rfl

set_option smartUnfolding false in
private theorem weq15 (env : Env) (g : LGraph) (op : String) (a : Expr) (b : Expr) :
    sqDeep env (.bin op a b) g =
        (match sqDeep env a g with | .error x => .error x | .ok g' => sqDeep env b g') := rfl

set_option smartUnfolding false in
private theorem weq16 (env : Env) (g : LGraph) (e : Expr) :
    sqDeep env (.paren e) g = sqDeep env e g := rfl

set_option smartUnfolding false in
private theorem weq17 (env : Env) (g : LGraph) (q : Query) :
    sqDeep env (.subq q) g =
        (match exQuery env ⟨cteObjs g, [mkSubq (subqRaw env q) none], []⟩ q with
          | .error x => .error x | .ok h => .ok (composeSub g (mkSubq (subqRaw env q) none) h)) := rfl

set_option smartUnfolding false in
private theorem weq18 (env : Env) (g : LGraph) (e : Expr) (q : Query) (neg : Bool) :
    sqDeep env (.inSubq e neg q) g =
        (match sqDeep env e g with
          | .error x => .error x
          | .ok g' =>
            (match exQuery env ⟨cteObjs g', [mkSubq (subqRaw env q) none], []⟩ q with
              | .error x => .error x | .ok h => .ok (composeSub g' (mkSubq (subqRaw env q) none) h))) := rfl

set_option smartUnfolding false in
private theorem weq19 (env : Env) (g : LGraph) (q : Query) (neg : Bool) :
    sqDeep env (.exist neg q) g =
        (match exQuery env ⟨cteObjs g, [mkSubq (subqRaw env q) none], []⟩ q with
          | .error x => .error x | .ok h => .ok (composeSub g (mkSubq (subqRaw env q) none) h)) := rfl

set_option smartUnfolding false in
private theorem weq20 (env : Env) (g : LGraph) (qs : List String) (n : String) :
    cjExpr env (.col qs n) g = .ok g := rfl

set_option smartUnfolding false in
private theorem weq21 (env : Env) (g : LGraph) (qs : List String) :
    cjExpr env (.star qs) g = .ok g := rfl

set_option smartUnfolding false in
private theorem weq22 (env : Env) (g : LGraph) (t : String) :
    cjExpr env (.lit t) g = .ok g := rfl

set_option smartUnfolding false in
private theorem weq23 (env : Env) (g : LGraph) (e : Expr) (ty : String) :
    cjExpr env (.cast e ty) g = cjExpr env e g := rfl

set_option smartUnfolding false in
private theorem weq24 (env : Env) (g : LGraph) (op : String) (a : Expr) (b : Expr) :
    cjExpr env (.bin op a b) g =
        (match cjExpr env a g with | .error x => .error x | .ok g' => cjExpr env b g') := rfl

set_option smartUnfolding false in
private theorem weq25 (env : Env) (g : LGraph) (e : Expr) :
    cjExpr env (.paren e) g = cjExpr env e g := rfl

set_option smartUnfolding false in
private theorem weq26 (env : Env) (g : LGraph) (q : Query) :
    cjExpr env (.subq q) g = cjQuery env q g := rfl

set_option smartUnfolding false in
private theorem weq27 (env : Env) (g : LGraph) (e : Expr) (q : Query) (neg : Bool) :
    cjExpr env (.inSubq e neg q) g =
        (match cjExpr env e g with | .error x => .error x | .ok g' => cjQuery env q g') := rfl

set_option smartUnfolding false in
private theorem weq28 (env : Env) (g : LGraph) (q : Query) (neg : Bool) :
    cjExpr env (.exist neg q) g = cjQuery env q g := rfl

/-! the mutual induction.  Every clause has the same proof: unfold one step, split every `match` on a sub‑result, and in
    each leaf either the result is `ok` (nothing to show) or the error was handed up from a sub‑call (induction hypothesis)
    or from `finishBranches`. -/

set_option hygiene false in
local macro "wih" : tactic => `(tactic| first
  | exact (finishBranches_ok ..).out _ ‹_›
  | exact (exQuery_ok ..).out _ ‹_› | exact (sqCtes_ok ..).out _ ‹_› | exact (sqBranch_ok ..).out _ ‹_›
  | exact (sqOpBranches_ok ..).out _ ‹_› | exact (sqItems_ok ..).out _ ‹_› | exact (sqDeep_ok ..).out _ ‹_›
  | exact (sqDeepL_ok ..).out _ ‹_› | exact (sqDeepW_ok ..).out _ ‹_› | exact (sqFirstCase_ok ..).out _ ‹_›
  | exact (sqWhens_ok ..).out _ ‹_› | exact (sqDirect_ok ..).out _ ‹_› | exact (sqParenChain_ok ..).out _ ‹_›
  | exact (sqFrom_ok ..).out _ ‹_› | exact (sqElem_ok ..).out _ ‹_› | exact (cjExpr_ok ..).out _ ‹_›
  | exact (cjExprs_ok ..).out _ ‹_› | exact (cjOptExpr_ok ..).out _ ‹_› | exact (cjWhens_ok ..).out _ ‹_›
  | exact (cjItems_ok ..).out _ ‹_› | exact (cjQuery_ok ..).out _ ‹_› | exact (cjBranch_ok ..).out _ ‹_›
  | exact (cjOpBranches_ok ..).out _ ‹_› | exact (cjCtes_ok ..).out _ ‹_› | exact (cjElem_ok ..).out _ ‹_›
  | exact (cjJoins_ok ..).out _ ‹_› | exact (cjFromExpr_ok ..).out _ ‹_› | exact (cjFromExprs_ok ..).out _ ‹_›
  | exact (sqWhere_ok ..).out _ ‹_›)

set_option hygiene false in
local macro "wgo" : tactic => `(tactic| (
  try simp only at h
  all_goals (repeat' split at h)
  all_goals first | (cases h; done) | (cases h; wih) | wih))

-- same for a `match` whose discriminant is itself a `match` / `if` on a sub‑result
set_option hygiene false in
local macro "wgo2" : tactic => `(tactic| (
  try simp only at h
  split at h
  · rename_i hq
    cases h
    repeat' split at hq
    all_goals first | (cases hq; done) | (cases hq; wih) | wih
  · wih))

mutual
theorem exQuery_ok (env : Env) (ctx : Ctx) : (q : Query) → ErrOK (exQuery env ctx q)
  | .select _ its frm wh _ _ => ⟨fun err h => by rw [exQuery.eq_def] at h; wgo⟩
  | .setop first rest => ⟨fun err h => by rw [exQuery.eq_def] at h; wgo⟩
  | .withq cs body => ⟨fun err h => by rw [exQuery.eq_def] at h; wgo⟩
theorem sqCtes_ok (env : Env) : (cs : List Cte) → (g : LGraph) → ErrOK (sqCtes env cs g)
  | [], g => ⟨fun err h => by rw [sqCtes.eq_def] at h; wgo⟩
  | .mk name q :: r, g => ⟨fun err h => by rw [sqCtes.eq_def] at h; wgo⟩
theorem sqBranch_ok (env : Env) : (b : Branch) → (g : LGraph) → ErrOK (sqBranch env b g)
  | .mk (.select _ its frm wh _ _) _, g => ⟨fun err h => by rw [sqBranch.eq_def] at h; wgo⟩
  | .mk (.setop _ _) _, g => ⟨fun err h => by rw [sqBranch.eq_def] at h; wgo⟩
  | .mk (.withq _ _) _, g => ⟨fun err h => by rw [sqBranch.eq_def] at h; wgo⟩
theorem sqOpBranches_ok (env : Env) : (bs : List OpBranch) → (g : LGraph) → ErrOK (sqOpBranches env bs g)
  | [], g => ⟨fun err h => by rw [sqOpBranches.eq_def] at h; wgo⟩
  | .mk _ b :: r, g => ⟨fun err h => by rw [sqOpBranches.eq_def] at h; wgo⟩
theorem sqItems_ok (env : Env) : (is : List Item) → (g : LGraph) → ErrOK (sqItems env is g)
  | [], g => ⟨fun err h => by rw [weq0] at h; wgo⟩
  | .mk (.func n d args none) alias k :: r, g => ⟨fun err h => by rw [sqItems_func] at h; wgo2⟩
  | .mk (.func n d args (some (.mk p o))) alias k :: r, g => ⟨fun err h => by rw [sqItems_func] at h; wgo2⟩
  | .mk (.cast e ty) alias k :: r, g => ⟨fun err h => by
      rw [weq1] at h; wgo⟩
  | .mk (.col qs n) alias k :: r, g => ⟨fun err h => by
      rw [weq2] at h; wgo⟩
  | .mk (.star qs) alias k :: r, g => ⟨fun err h => by
      rw [weq3] at h; wgo⟩
  | .mk (.lit t) alias k :: r, g => ⟨fun err h => by
      rw [weq4] at h; wgo⟩
  | .mk (.case ws els) alias k :: r, g => ⟨fun err h => by
      rw [weq5] at h; wgo2⟩
  | .mk (.bin op a b) alias k :: r, g => ⟨fun err h => by
      rw [weq6] at h; wgo2⟩
  | .mk (.paren e) alias k :: r, g => ⟨fun err h => by
      rw [weq7] at h; wgo2⟩
  | .mk (.subq q) alias k :: r, g => ⟨fun err h => by
      rw [weq8] at h; wgo2⟩
  | .mk (.inSubq e neg q) alias k :: r, g => ⟨fun err h => by
      rw [weq9] at h; wgo2⟩
  | .mk (.exist neg q) alias k :: r, g => ⟨fun err h => by
      rw [weq10] at h; wgo2⟩
theorem sqDeep_ok (env : Env) : (e : Expr) → (g : LGraph) → ErrOK (sqDeep env e g)
  | .col qs n, g => ⟨fun err h => by rw [weq11] at h; wgo⟩
  | .star qs, g => ⟨fun err h => by rw [weq12] at h; wgo⟩
  | .lit t, g => ⟨fun err h => by rw [weq13] at h; wgo⟩
  | .func n d args none, g => ⟨fun err h => by rw [sqDeep_func] at h; wgo⟩
  | .func n d args (some (.mk p o)), g => ⟨fun err h => by rw [sqDeep_func] at h; wgo⟩
  | .cast e ty, g => ⟨fun err h => by rw [weq14] at h; wgo⟩
  | .case ws none, g => ⟨fun err h => by rw [sqDeep_case] at h; wgo⟩
  | .case ws (some e), g => ⟨fun err h => by rw [sqDeep_case] at h; wgo⟩
  | .bin op a b, g => ⟨fun err h => by
      rw [weq15] at h; wgo⟩
  | .paren e, g => ⟨fun err h => by rw [weq16] at h; wgo⟩
  | .subq q, g => ⟨fun err h => by
      rw [weq17] at h; wgo⟩
  | .inSubq e neg q, g => ⟨fun err h => by
      rw [weq18] at h; wgo⟩
  | .exist neg q, g => ⟨fun err h => by
      rw [weq19] at h; wgo⟩
theorem sqDeepL_ok (env : Env) : (es : List Expr) → (g : LGraph) → ErrOK (sqDeepL env es g)
  | [], g => ⟨fun err h => by rw [sqDeepL.eq_def] at h; wgo⟩
  | x :: r, g => ⟨fun err h => by rw [sqDeepL.eq_def] at h; wgo⟩
theorem sqDeepW_ok (env : Env) : (ws : List When) → (g : LGraph) → ErrOK (sqDeepW env ws g)
  | [], g => ⟨fun err h => by rw [sqDeepW.eq_def] at h; wgo⟩
  | .mk c r :: rest, g => ⟨fun err h => by rw [sqDeepW.eq_def] at h; wgo⟩
theorem sqFirstCase_ok (env : Env) : (e : Expr) → (alias : Option String) → (g : LGraph) → ErrOK (sqFirstCase env e alias g)
  | .bin _ a b, alias, g => ⟨fun err h => by rw [sqFirstCase.eq_def] at h; wgo⟩
  | .case ws _, alias, g => ⟨fun err h => by rw [sqFirstCase.eq_def] at h; wgo⟩
  | .col _ _, alias, g => ⟨fun err h => by rw [sqFirstCase.eq_def] at h; wgo⟩
  | .star _, alias, g => ⟨fun err h => by rw [sqFirstCase.eq_def] at h; wgo⟩
  | .lit _, alias, g => ⟨fun err h => by rw [sqFirstCase.eq_def] at h; wgo⟩
  | .func _ _ _ _, alias, g => ⟨fun err h => by rw [sqFirstCase.eq_def] at h; wgo⟩
  | .cast _ _, alias, g => ⟨fun err h => by rw [sqFirstCase.eq_def] at h; wgo⟩
  | .paren _, alias, g => ⟨fun err h => by rw [sqFirstCase.eq_def] at h; wgo⟩
  | .subq _, alias, g => ⟨fun err h => by rw [sqFirstCase.eq_def] at h; wgo⟩
  | .inSubq _ _ _, alias, g => ⟨fun err h => by rw [sqFirstCase.eq_def] at h; wgo⟩
  | .exist _ _, alias, g => ⟨fun err h => by rw [sqFirstCase.eq_def] at h; wgo⟩
theorem sqWhens_ok (env : Env) : (ws : List When) → (alias : Option String) → (g : LGraph) → ErrOK (sqWhens env ws alias g)
  | [], alias, g => ⟨fun err h => by rw [sqWhens.eq_def] at h; wgo⟩
  | .mk c r :: rest, alias, g => ⟨fun err h => by rw [sqWhens.eq_def] at h; wgo⟩
theorem sqDirect_ok (env : Env) (inner : Bool) : (e : Expr) → (alias : Option String) → (g : LGraph) →
    ErrOK (sqDirect env inner e alias g)
  | .bin _ a b, alias, g => ⟨fun err h => by rw [sqDirect.eq_def] at h; wgo⟩
  | .subq q, alias, g => ⟨fun err h => by rw [sqDirect.eq_def] at h; wgo⟩
  | .inSubq _ _ q, alias, g => ⟨fun err h => by rw [sqDirect.eq_def] at h; wgo⟩
  | .exist _ q, alias, g => ⟨fun err h => by rw [sqDirect.eq_def] at h; wgo⟩
  | .paren e, alias, g => ⟨fun err h => by rw [sqDirect.eq_def] at h; wgo⟩
  | .col _ _, alias, g => ⟨fun err h => by rw [sqDirect.eq_def] at h; wgo⟩
  | .star _, alias, g => ⟨fun err h => by rw [sqDirect.eq_def] at h; wgo⟩
  | .lit _, alias, g => ⟨fun err h => by rw [sqDirect.eq_def] at h; wgo⟩
  | .func _ _ _ _, alias, g => ⟨fun err h => by rw [sqDirect.eq_def] at h; wgo⟩
  | .cast _ _, alias, g => ⟨fun err h => by rw [sqDirect.eq_def] at h; wgo⟩
  | .case _ _, alias, g => ⟨fun err h => by rw [sqDirect.eq_def] at h; wgo⟩
theorem sqParenChain_ok (env : Env) : (e : Expr) → (alias : Option String) → (g : LGraph) →
    ErrOK (sqParenChain env e alias g)
  | .bin _ a b, alias, g => ⟨fun err h => by rw [sqParenChain.eq_def] at h; wgo⟩
  | .subq q, alias, g => ⟨fun err h => by rw [sqParenChain.eq_def] at h; wgo⟩
  | .inSubq _ _ q, alias, g => ⟨fun err h => by rw [sqParenChain.eq_def] at h; wgo⟩
  | .exist _ q, alias, g => ⟨fun err h => by rw [sqParenChain.eq_def] at h; wgo⟩
  | .paren e, alias, g => ⟨fun err h => by rw [sqParenChain.eq_def] at h; wgo⟩
  | .col _ _, alias, g => ⟨fun err h => by rw [sqParenChain.eq_def] at h; wgo⟩
  | .star _, alias, g => ⟨fun err h => by rw [sqParenChain.eq_def] at h; wgo⟩
  | .lit _, alias, g => ⟨fun err h => by rw [sqParenChain.eq_def] at h; wgo⟩
  | .func _ _ _ _, alias, g => ⟨fun err h => by rw [sqParenChain.eq_def] at h; wgo⟩
  | .cast _ _, alias, g => ⟨fun err h => by rw [sqParenChain.eq_def] at h; wgo⟩
  | .case _ _, alias, g => ⟨fun err h => by rw [sqParenChain.eq_def] at h; wgo⟩
theorem sqFrom_ok (env : Env) (multi : Bool) : (fs : List FromExpr) → (g : LGraph) → ErrOK (sqFrom env multi fs g)
  | [], g => ⟨fun err h => by rw [sqFrom.eq_def] at h; wgo⟩
  | .mk base js :: r, g => ⟨fun err h => by
      rw [sqFrom.eq_def] at h; simp only at h
      split at h
      · cases h; wih
      · split at h
        · rename_i hq; cases h
          repeat' split at hq
          all_goals first | (cases hq; done) | (cases hq; wih) | wih
        · wih⟩
theorem sqElem_ok (env : Env) : (e : FromElem) → (g : LGraph) → ErrOK (sqElem env e g)
  | .table _ _ _, g => ⟨fun err h => by rw [sqElem.eq_def] at h; wgo⟩
  | .derived q alias _, g => ⟨fun err h => by rw [sqElem.eq_def] at h; wgo⟩
theorem cjExpr_ok (env : Env) : (e : Expr) → (g : LGraph) → ErrOK (cjExpr env e g)
  | .col qs n, g => ⟨fun err h => by rw [weq20] at h; wgo⟩
  | .star qs, g => ⟨fun err h => by rw [weq21] at h; wgo⟩
  | .lit t, g => ⟨fun err h => by rw [weq22] at h; wgo⟩
  | .func n d args none, g => ⟨fun err h => by rw [cjExpr_func] at h; wgo⟩
  | .func n d args (some (.mk p o)), g => ⟨fun err h => by rw [cjExpr_func] at h; wgo⟩
  | .cast e ty, g => ⟨fun err h => by rw [weq23] at h; wgo⟩
  | .case ws none, g => ⟨fun err h => by rw [cjExpr_case] at h; wgo⟩
  | .case ws (some e), g => ⟨fun err h => by rw [cjExpr_case] at h; wgo⟩
  | .bin op a b, g => ⟨fun err h => by
      rw [weq24] at h; wgo⟩
  | .paren e, g => ⟨fun err h => by rw [weq25] at h; wgo⟩
  | .subq q, g => ⟨fun err h => by rw [weq26] at h; wgo⟩
  | .inSubq e neg q, g => ⟨fun err h => by
      rw [weq27] at h; wgo⟩
  | .exist neg q, g => ⟨fun err h => by rw [weq28] at h; wgo⟩
theorem cjExprs_ok (env : Env) : (es : List Expr) → (g : LGraph) → ErrOK (cjExprs env es g)
  | [], g => ⟨fun err h => by rw [cjExprs.eq_def] at h; wgo⟩
  | x :: r, g => ⟨fun err h => by rw [cjExprs.eq_def] at h; wgo⟩
theorem cjOptExpr_ok (env : Env) : (e : Option Expr) → (g : LGraph) → ErrOK (cjOptExpr env e g)
  | none, g => ⟨fun err h => by rw [cjOptExpr.eq_def] at h; wgo⟩
  | some e, g => ⟨fun err h => by rw [cjOptExpr.eq_def] at h; wgo⟩
theorem cjWhens_ok (env : Env) : (ws : List When) → (g : LGraph) → ErrOK (cjWhens env ws g)
  | [], g => ⟨fun err h => by rw [cjWhens.eq_def] at h; wgo⟩
  | .mk c r :: rest, g => ⟨fun err h => by rw [cjWhens.eq_def] at h; wgo⟩
theorem cjItems_ok (env : Env) : (is : List Item) → (g : LGraph) → ErrOK (cjItems env is g)
  | [], g => ⟨fun err h => by rw [cjItems.eq_def] at h; wgo⟩
  | .mk e _ _ :: r, g => ⟨fun err h => by rw [cjItems.eq_def] at h; wgo⟩
theorem cjQuery_ok (env : Env) : (q : Query) → (g : LGraph) → ErrOK (cjQuery env q g)
  | .select _ its frm wh grp hav, g => ⟨fun err h => by rw [cjQuery.eq_def] at h; wgo⟩
  | .setop first rest, g => ⟨fun err h => by rw [cjQuery.eq_def] at h; wgo⟩
  | .withq cs body, g => ⟨fun err h => by rw [cjQuery.eq_def] at h; wgo⟩
theorem cjBranch_ok (env : Env) : (b : Branch) → (g : LGraph) → ErrOK (cjBranch env b g)
  | .mk q _, g => ⟨fun err h => by rw [cjBranch.eq_def] at h; wgo⟩
theorem cjOpBranches_ok (env : Env) : (bs : List OpBranch) → (g : LGraph) → ErrOK (cjOpBranches env bs g)
  | [], g => ⟨fun err h => by rw [cjOpBranches.eq_def] at h; wgo⟩
  | .mk _ b :: r, g => ⟨fun err h => by rw [cjOpBranches.eq_def] at h; wgo⟩
theorem cjCtes_ok (env : Env) : (cs : List Cte) → (g : LGraph) → ErrOK (cjCtes env cs g)
  | [], g => ⟨fun err h => by rw [cjCtes.eq_def] at h; wgo⟩
  | .mk _ q :: r, g => ⟨fun err h => by rw [cjCtes.eq_def] at h; wgo⟩
theorem cjElem_ok (env : Env) : (e : FromElem) → (g : LGraph) → ErrOK (cjElem env e g)
  | .table _ _ _, g => ⟨fun err h => by rw [cjElem.eq_def] at h; wgo⟩
  | .derived q _ _, g => ⟨fun err h => by rw [cjElem.eq_def] at h; wgo⟩
theorem cjJoins_ok (env : Env) : (js : List Join) → (g : LGraph) → ErrOK (cjJoins env js g)
  | [], g => ⟨fun err h => by rw [cjJoins.eq_def] at h; wgo⟩
  | .mk _ e on _ :: r, g => ⟨fun err h => by rw [cjJoins.eq_def] at h; wgo⟩
theorem cjFromExpr_ok (env : Env) : (f : FromExpr) → (g : LGraph) → ErrOK (cjFromExpr env f g)
  | .mk base js, g => ⟨fun err h => by rw [cjFromExpr.eq_def] at h; wgo⟩
theorem cjFromExprs_ok (env : Env) : (fs : List FromExpr) → (g : LGraph) → ErrOK (cjFromExprs env fs g)
  | [], g => ⟨fun err h => by rw [cjFromExprs.eq_def] at h; wgo⟩
  | f :: r, g => ⟨fun err h => by rw [cjFromExprs.eq_def] at h; wgo⟩
theorem sqWhere_ok (env : Env) : (e : Option Expr) → (g : LGraph) → ErrOK (sqWhere env e g)
  | none, g => ⟨fun err h => by rw [sqWhere.eq_def] at h; wgo⟩
  | some e, g => ⟨fun err h => by rw [sqWhere.eq_def] at h; wgo⟩
end

end SqlLineage.Proofs.WalkErrors
