/-
Helper lemmas for `Props/C18.lean`:
  * lists: `eraseDups` is duplicate‑free, `Nodup` of a map ↔ injectivity on the list, `filterMap` over a uniform map;
  * the association‑list dict of `Model/Export.lean` (`dictSet`, `dictGet?`, folds);
  * graph invariants `EdgesWF` (every edge joins two nodes) and `NodesNodup`, preserved by every `Graph` operation the
    holders and the assembler use, hence by `Assemble.buildWith` and by the two views;
  * the insertion sort of the summary: sorted, a permutation; `Assemble.union` keeps lists duplicate‑free.
Core Lean only.
-/
import SqlLineage.Model.Export
import SqlLineage.Proofs.GraphLemmas

namespace SqlLineage.ExportLemmas
open SqlLineage Graph

/-! ### lists -/

section lists
variable {α β : Type}

theorem nodup_eraseDups [DecidableEq α] : ∀ (l : List α), l.eraseDups.Nodup
  | [] => by simp
  | a :: as => by
    rw [List.eraseDups_cons, List.nodup_cons]
    refine ⟨?_, nodup_eraseDups _⟩
    rw [List.mem_eraseDups, List.mem_filter]
    simp
termination_by l => l.length
decreasing_by
  simp only [List.length_cons]
  exact Nat.lt_succ_of_le (List.length_filter_le _ _)

theorem nodup_of_nodup_map (f : α → β) {l : List α} (h : (l.map f).Nodup) : l.Nodup := by
  induction l with
  | nil => simp
  | cons a r ih =>
    rw [List.map_cons, List.nodup_cons] at h
    rw [List.nodup_cons]
    exact ⟨fun hm => h.1 (List.mem_map_of_mem hm), ih h.2⟩

theorem injOn_of_nodup_map (f : α → β) {l : List α} (h : (l.map f).Nodup) :
    ∀ a ∈ l, ∀ b ∈ l, f a = f b → a = b := by
  induction l with
  | nil => intro a ha; cases ha
  | cons x r ih =>
    rw [List.map_cons, List.nodup_cons] at h
    intro a ha b hb hab
    rcases List.mem_cons.mp ha with rfl | ha' <;> rcases List.mem_cons.mp hb with rfl | hb'
    · rfl
    · exact absurd (hab ▸ List.mem_map_of_mem hb') h.1
    · exact absurd (hab ▸ List.mem_map_of_mem ha') h.1
    · exact ih h.2 a ha' b hb' hab

theorem nodup_map_of_injOn (f : α → β) {l : List α} (hl : l.Nodup)
    (hinj : ∀ a ∈ l, ∀ b ∈ l, f a = f b → a = b) : (l.map f).Nodup := by
  induction l with
  | nil => simp
  | cons x r ih =>
    rw [List.nodup_cons] at hl
    rw [List.map_cons, List.nodup_cons]
    refine ⟨?_, ih hl.2 (fun a ha b hb => hinj a (List.mem_cons_of_mem _ ha) b (List.mem_cons_of_mem _ hb))⟩
    intro hm
    obtain ⟨y, hy, hxy⟩ := List.mem_map.mp hm
    have : y = x := hinj y (List.mem_cons_of_mem _ hy) x (List.mem_cons_self) hxy
    exact hl.1 (this ▸ hy)

/-- `Nodup` of the image ↔ the function is injective on the (duplicate‑free) list -/
theorem nodup_map_iff (f : α → β) {l : List α} (hl : l.Nodup) :
    (l.map f).Nodup ↔ ∀ a ∈ l, ∀ b ∈ l, f a = f b → a = b :=
  ⟨injOn_of_nodup_map f, nodup_map_of_injOn f hl⟩

theorem filterMap_map_some {γ : Type} (f : α → β) (g : β → Option γ) (h : α → γ) (l : List α)
    (hg : ∀ a, g (f a) = some (h a)) : (l.map f).filterMap g = l.map h := by
  induction l with
  | nil => rfl
  | cons a r ih => simp [hg, ih]

theorem filterMap_map_none {γ : Type} (f : α → β) (g : β → Option γ) (l : List α)
    (hg : ∀ a, g (f a) = none) : (l.map f).filterMap g = [] := by
  induction l with
  | nil => rfl
  | cons a r ih => simp [hg, ih]

theorem rev_ind {P : List α → Prop} (hnil : P []) (hsnoc : ∀ l a, P l → P (l ++ [a])) (l : List α) : P l := by
  have : ∀ r : List α, P r.reverse := by
    intro r
    induction r with
    | nil => exact hnil
    | cons a r ih => rw [List.reverse_cons]; exact hsnoc _ _ ih
  simpa using this l.reverse

end lists

/-! ### the dict -/

section dict
open Export
variable {κ β : Type} [DecidableEq κ]

def keys (d : List (κ × β)) : List κ := d.map (·.1)

theorem keys_dictSet (d : List (κ × β)) (k : κ) (v : β) :
    keys (dictSet d k v) = if k ∈ keys d then keys d else keys d ++ [k] := by
  induction d with
  | nil => simp [dictSet, keys]
  | cons kv r ih =>
    obtain ⟨k', v'⟩ := kv
    unfold dictSet
    by_cases h : k' = k
    · subst h; simp [keys]
    · rw [if_neg h]
      have hk : k ≠ k' := fun e => h e.symm
      have hcons : keys ((k', v') :: dictSet r k v) = k' :: keys (dictSet r k v) := rfl
      have hcons' : keys ((k', v') :: r) = k' :: keys r := rfl
      rw [hcons, hcons', ih]
      by_cases hm : k ∈ keys r
      · simp [hm]
      · simp [hm, hk]

theorem mem_keys_dictSet (d : List (κ × β)) (k k' : κ) (v : β) :
    k' ∈ keys (dictSet d k v) ↔ k' ∈ keys d ∨ k' = k := by
  rw [keys_dictSet]
  split
  · rename_i h
    constructor
    · exact Or.inl
    · rintro (h' | rfl)
      · exact h'
      · exact h
  · simp

theorem nodup_keys_dictSet (d : List (κ × β)) (k : κ) (v : β) (h : (keys d).Nodup) :
    (keys (dictSet d k v)).Nodup := by
  rw [keys_dictSet]
  split
  · exact h
  · rename_i hk
    rw [List.nodup_append]
    refine ⟨h, by simp, ?_⟩
    intro a ha b hb
    simp only [List.mem_singleton] at hb
    subst hb
    intro e; subst e; exact hk ha

theorem dictGet_dictSet (d : List (κ × β)) (k k' : κ) (v : β) :
    dictGet? (dictSet d k v) k' = if k' = k then some v else dictGet? d k' := by
  induction d with
  | nil =>
    simp only [dictSet, dictGet?]
    by_cases h : k = k'
    · subst h; simp
    · have : ¬ k' = k := fun e => h e.symm
      simp [h, this]
  | cons kv r ih =>
    obtain ⟨k0, v0⟩ := kv
    unfold dictSet
    by_cases h : k0 = k
    · subst h
      simp only [if_true, dictGet?]
      by_cases h' : k0 = k'
      · subst h'; simp
      · have : ¬ k' = k0 := fun e => h' e.symm
        simp [h', this]
    · rw [if_neg h]
      simp only [dictGet?]
      by_cases h' : k0 = k'
      · subst h'
        simp [h]
      · simp only [h', if_false]
        exact ih

theorem mem_of_dictGet (d : List (κ × β)) (k : κ) (v : β) (h : dictGet? d k = some v) : (k, v) ∈ d := by
  induction d with
  | nil => simp [dictGet?] at h
  | cons kv r ih =>
    obtain ⟨k0, v0⟩ := kv
    simp only [dictGet?] at h
    by_cases h' : k0 = k
    · subst h'
      simp only [if_true, Option.some.injEq] at h
      subst h
      exact List.mem_cons_self
    · rw [if_neg h'] at h
      exact List.mem_cons_of_mem _ (ih h)

theorem dictGet_of_mem (d : List (κ × β)) (k : κ) (v : β) (hn : (keys d).Nodup) (h : (k, v) ∈ d) :
    dictGet? d k = some v := by
  induction d with
  | nil => cases h
  | cons kv r ih =>
    obtain ⟨k0, v0⟩ := kv
    simp only [keys, List.map_cons, List.nodup_cons] at hn
    simp only [dictGet?]
    rcases List.mem_cons.mp h with e | h'
    · cases e; simp
    · have : k0 ≠ k := by
        intro e; subst e
        exact hn.1 (List.mem_map.mpr ⟨(k0, v), h', rfl⟩)
      rw [if_neg this]
      exact ih hn.2 h'

theorem dictGet_isSome_iff (d : List (κ × β)) (k : κ) : (dictGet? d k).isSome ↔ k ∈ keys d := by
  induction d with
  | nil => simp [dictGet?, keys]
  | cons kv r ih =>
    obtain ⟨k0, v0⟩ := kv
    simp only [dictGet?, keys, List.map_cons, List.mem_cons]
    by_cases h : k0 = k
    · subst h; simp
    · have : ¬ k = k0 := fun e => h e.symm
      rw [if_neg h]
      simp only [this, false_or]
      exact ih

/-- the dict a comprehension `{key(n): val(n) for n in l}` builds on top of `d0` -/
def build {α : Type} (key : α → κ) (val : α → β) (d0 : List (κ × β)) (l : List α) : List (κ × β) :=
  l.foldl (fun d n => dictSet d (key n) (val n)) d0

variable {α : Type} (key : α → κ) (val : α → β)

theorem build_append (d0 : List (κ × β)) (l : List α) (a : α) :
    build key val d0 (l ++ [a]) = dictSet (build key val d0 l) (key a) (val a) := by
  simp [build, List.foldl_append]

theorem mem_keys_build (d0 : List (κ × β)) (l : List α) (k : κ) :
    k ∈ keys (build key val d0 l) ↔ k ∈ keys d0 ∨ ∃ n ∈ l, key n = k := by
  induction l generalizing d0 with
  | nil => simp [build]
  | cons a r ih =>
    have : build key val d0 (a :: r) = build key val (dictSet d0 (key a) (val a)) r := rfl
    rw [this, ih, mem_keys_dictSet]
    constructor
    · rintro ((h | h) | ⟨n, hn, h⟩)
      · exact Or.inl h
      · exact Or.inr ⟨a, List.mem_cons_self, h.symm⟩
      · exact Or.inr ⟨n, List.mem_cons_of_mem _ hn, h⟩
    · rintro (h | ⟨n, hn, h⟩)
      · exact Or.inl (Or.inl h)
      · rcases List.mem_cons.mp hn with rfl | hn'
        · exact Or.inl (Or.inr h.symm)
        · exact Or.inr ⟨n, hn', h⟩

theorem nodup_keys_build (d0 : List (κ × β)) (l : List α) (h : (keys d0).Nodup) :
    (keys (build key val d0 l)).Nodup := by
  induction l generalizing d0 with
  | nil => exact h
  | cons a r ih => exact ih _ (nodup_keys_dictSet d0 _ _ h)

/-- "later wins": the value found under `k` is the one written by the LAST element with that key -/
theorem dictGet_build (l : List α) (k : κ) :
    dictGet? (build key val [] l) k = ((l.filter (fun n => key n = k)).getLast?).map val := by
  induction l using rev_ind with
  | hnil => simp [build, dictGet?]
  | hsnoc r a ih =>
    rw [build_append, dictGet_dictSet, List.filter_append]
    by_cases h : k = key a
    · subst h
      simp
    · have h' : ¬ key a = k := fun e => h e.symm
      simp [h, h', ih]

/-- keys in order of first occurrence -/
theorem keys_build [inst : BEq κ] [LawfulBEq κ] (l : List α) :
    keys (build key val [] l) = (l.map key).eraseDups := by
  induction l using rev_ind with
  | hnil => simp [build, keys]
  | hsnoc r a ih =>
    rw [build_append, keys_dictSet, ih, List.map_append, List.eraseDups_append]
    simp only [List.map_cons, List.map_nil]
    by_cases h : key a ∈ (r.map key).eraseDups
    · rw [if_pos h]
      have h' : key a ∈ r.map key := List.mem_eraseDups.mp h
      have : List.removeAll [key a] (r.map key) = [] := by
        simp only [List.removeAll, List.filter_cons, List.filter_nil]
        simp [h']
      simp [this]
    · rw [if_neg h]
      have h' : key a ∉ r.map key := fun hm => h (List.mem_eraseDups.mpr hm)
      have : List.removeAll [key a] (r.map key) = [key a] := by
        simp only [List.removeAll, List.filter_cons, List.filter_nil]
        simp [h']
      simp [this, List.eraseDups_cons]

end dict

/-! ### graph invariants: every edge joins two nodes; the node list is duplicate‑free -/

section wf
variable {ν π : Type} [DecidableEq ν]

/-- every edge endpoint is a node (networkx guarantees it: `add_edge` adds both endpoints, `remove_node` removes the
    incident edges, a subgraph view keeps an edge only with both endpoints) -/
def EdgesWF (g : Graph ν π) : Prop := ∀ e ∈ g.edges, e.1 ∈ g.nodes ∧ e.2 ∈ g.nodes

/-- the node list has no duplicates (nodes are dict keys) -/
def NodesNodup (g : Graph ν π) : Prop := g.nodes.Nodup

structure WF (g : Graph ν π) : Prop where
  edges : EdgesWF g
  nodup : NodesNodup g

omit [DecidableEq ν] in
theorem wf_empty : WF (Graph.empty : Graph ν π) :=
  ⟨(by intro e he; cases he), (by simp [NodesNodup])⟩

omit [DecidableEq ν] in
theorem wf_of_same (g g' : Graph ν π) (hn : g'.nodes = g.nodes) (he : g'.edges = g.edges) (h : WF g) : WF g' :=
  ⟨by intro e hm; rw [hn]; rw [he] at hm; exact h.edges e hm, by unfold NodesNodup; rw [hn]; exact h.nodup⟩

theorem nodup_addNode (g : Graph ν π) (n : ν) (p : Option π) (h : NodesNodup g) : NodesNodup (g.addNode n p) := by
  unfold NodesNodup addNode at *
  by_cases hn : g.hasNode n = true
  · rw [if_pos hn]; exact h
  · rw [if_neg hn]
    show (g.nodes ++ [n]).Nodup
    rw [List.nodup_append]
    refine ⟨h, by simp, ?_⟩
    intro a ha b hb
    simp only [List.mem_singleton] at hb
    subst hb
    intro e; subst e
    exact hn ((hasNode_iff g a).mpr ha)

theorem wf_addNode (g : Graph ν π) (n : ν) (p : Option π) (h : WF g) : WF (g.addNode n p) :=
  ⟨by
    intro e he
    rw [edges_addNode] at he
    have := h.edges e he
    exact ⟨(mem_nodes_addNode g n e.1 p).mpr (Or.inl this.1), (mem_nodes_addNode g n e.2 p).mpr (Or.inl this.2)⟩,
   nodup_addNode g n p h.nodup⟩

theorem wf_setTag (g : Graph ν π) (n : ν) (t : Tag) (b : Bool) (p : Option π) (h : WF g) : WF (g.setTag n t b p) :=
  wf_of_same (g.addNode n p) _ rfl rfl (wf_addNode g n p h)

theorem wf_setTags (g : Graph ν π) (ns : List ν) (t : Tag) (b : Bool) (h : WF g) : WF (g.setTags ns t b) :=
  wf_of_same g _ rfl rfl h

theorem nodes_addEdge (g : Graph ν π) (u v : ν) (ty : EType) (i : Option Nat) (pu pv : Option π) :
    (g.addEdge u v ty i pu pv).nodes = ((g.addNode u pu).addNode v pv).nodes := by
  unfold addEdge
  simp only
  split <;> rfl

theorem wf_addEdge (g : Graph ν π) (u v : ν) (ty : EType) (i : Option Nat) (pu pv : Option π) (h : WF g) :
    WF (g.addEdge u v ty i pu pv) := by
  constructor
  · intro e he
    rw [mem_edges_addEdge] at he
    rw [mem_nodes_addEdge, mem_nodes_addEdge]
    rcases he with he | rfl
    · exact ⟨Or.inl (h.edges e he).1, Or.inl (h.edges e he).2⟩
    · exact ⟨Or.inr (Or.inl rfl), Or.inr (Or.inr rfl)⟩
  · unfold NodesNodup
    rw [nodes_addEdge]
    exact nodup_addNode _ _ _ (nodup_addNode _ _ _ h.nodup)

theorem wf_foldl_addEdge (es : List (ν × ν)) (g : Graph ν π) (ty : EType) (h : WF g) :
    WF (es.foldl (fun g e => g.addEdge e.1 e.2 ty) g) := by
  induction es generalizing g with
  | nil => exact h
  | cons e r ih => exact ih _ (wf_addEdge g e.1 e.2 ty none none none h)

theorem wf_compose (g h : Graph ν π) (hg : WF g) (hh : WF h) : WF (g.compose h) := by
  constructor
  · intro e he
    rw [mem_edges_compose] at he
    rw [mem_nodes_compose, mem_nodes_compose]
    rcases he with he | he
    · exact ⟨Or.inl (hg.edges e he).1, Or.inl (hg.edges e he).2⟩
    · exact ⟨Or.inr (hh.edges e he).1, Or.inr (hh.edges e he).2⟩
  · unfold NodesNodup compose
    simp only
    rw [List.nodup_append]
    refine ⟨hg.nodup, List.Pairwise.filter _ hh.nodup, ?_⟩
    intro a ha b hb
    rw [List.mem_filter] at hb
    intro e; subst e
    have : g.hasNode a = true := (hasNode_iff g a).mpr ha
    simp [this] at hb

theorem wf_removeNode (g : Graph ν π) (n : ν) (h : WF g) : WF (g.removeNode n) := by
  constructor
  · intro e he
    rw [mem_edges_removeNode] at he
    rw [mem_nodes_removeNode, mem_nodes_removeNode]
    exact ⟨⟨(h.edges e he.1).1, he.2.1⟩, ⟨(h.edges e he.1).2, he.2.2⟩⟩
  · unfold NodesNodup removeNode
    exact List.Pairwise.filter _ h.nodup

theorem wf_removeEdge (g g' : Graph ν π) (u v : ν) (hr : g.removeEdge? u v = some g') (h : WF g) : WF g' := by
  constructor
  · intro e he
    rw [mem_edges_removeEdge g g' u v hr] at he
    rw [mem_nodes_removeEdge g g' u v hr, mem_nodes_removeEdge g g' u v hr]
    exact h.edges e he.1
  · unfold removeEdge? at hr
    split at hr
    · cases hr; exact h.nodup
    · cases hr

theorem wf_relabel (g : Graph ν π) (old new : ν) (p : Option π) (h : WF g) : WF (g.relabel old new p) := by
  constructor
  · intro e he
    rw [mem_edges_relabel] at he
    obtain ⟨a, b, hab, rfl⟩ := he
    have hab' := (mem_edgesOrdered_iff g (a, b)).mp hab
    have hb := (h.edges (a, b) hab'.1).2
    rw [mem_nodes_relabel, mem_nodes_relabel]
    exact ⟨⟨a, hab'.2, rfl⟩, ⟨b, hb, rfl⟩⟩
  · unfold NodesNodup relabel
    exact nodup_eraseDups _

omit [DecidableEq ν] in
theorem wf_subgraph (g : Graph ν π) (keep : ν → Bool) (h : WF g) : WF (g.subgraph keep) := by
  constructor
  · intro e he
    rw [mem_edges_subgraph] at he
    rw [mem_nodes_subgraph, mem_nodes_subgraph]
    exact ⟨⟨(h.edges e he.1).1, he.2.1⟩, ⟨(h.edges e he.1).2, he.2.2⟩⟩
  · unfold NodesNodup subgraph
    exact List.Pairwise.filter _ h.nodup

/-- under `EdgesWF` the iteration `graph.edges` visits exactly the edge set -/
theorem mem_edgesOrdered_of_wf (g : Graph ν π) (h : EdgesWF g) (e : ν × ν) : e ∈ g.edgesOrdered ↔ e ∈ g.edges := by
  rw [mem_edgesOrdered_iff]
  exact ⟨fun x => x.1, fun x => ⟨x, (h e x).1⟩⟩

end wf

/-! ### the executable checks decide the invariants (the driver reports them for every generated case) -/

section checks
open Export

theorem nodupb_iff {α : Type} [DecidableEq α] (l : List α) : nodupb l = true ↔ l.Nodup := by
  induction l with
  | nil => simp [nodupb]
  | cons x r ih =>
    simp only [nodupb, Bool.and_eq_true, Bool.not_eq_true', List.nodup_cons, ih]
    constructor
    · rintro ⟨h1, h2⟩
      exact ⟨by simpa using h1, h2⟩
    · rintro ⟨h1, h2⟩
      exact ⟨by simpa using h1, h2⟩

theorem edgesWFb_iff (g : LGraph) : edgesWFb g = true ↔ EdgesWF g := by
  unfold edgesWFb EdgesWF
  simp [List.all_eq_true]

theorem wf_of_check (g : LGraph) (h1 : edgesWFb g = true) (h2 : nodupb g.nodes = true) : WF g :=
  ⟨(edgesWFb_iff g).mp h1, (nodupb_iff g.nodes).mp h2⟩

end checks

/-! ### the assembler keeps the invariants -/

section assemble
open Assemble

theorem wf_dropStep (ts : List Node) (g : LGraph) (h : WF g) : WF (dropStep g ts) := by
  unfold dropStep
  induction ts generalizing g with
  | nil => exact h
  | cons t r ih =>
    simp only [List.foldl_cons]
    apply ih
    split
    · exact wf_removeNode g t h
    · exact h

theorem wf_removeEdges (g : LGraph) (ps : List (Node × Node)) (h : WF g) : WF (removeEdges g ps) :=
  ⟨fun e he => h.edges e (List.mem_filter.mp he).1, h.nodup⟩

theorem wf_renameOne (g : LGraph) (p : Node × Node) (h : WF g) : WF (renameOne g p) := by
  unfold renameOne
  simp only
  split
  · exact wf_removeNode _ p.2 (wf_relabel g p.1 p.2 none h)
  · exact wf_relabel g p.1 p.2 none h

theorem wf_renameStep (ps : List (Node × Node)) (g : LGraph) (h : WF g) : WF (renameStep g ps) := by
  unfold renameStep
  have gen : ∀ (l : List (Node × Node)) (G : LGraph), WF G → WF (l.foldl renameOne G) := by
    intro l
    induction l with
    | nil => intro G hG; exact hG
    | cons p r ih => intro G hG; exact ih _ (wf_renameOne G p hG)
  exact gen ps _ (wf_removeEdges g ps h)

theorem wf_rwStep (g : LGraph) (rd wr : List Node) (h : WF g) : WF (rwStep g rd wr) := by
  unfold rwStep
  split
  · exact wf_setTags _ _ _ _ h
  · split
    · exact wf_setTags _ _ _ _ h
    · exact wf_foldl_addEdge _ _ _ h

theorem wf_foldStep (ord : List (Node × Node) → List (Node × Node)) (g hd g' : LGraph)
    (hs : foldStep ord g hd = .ok g') (hg : WF g) (hh : WF hd) : WF g' := by
  unfold foldStep at hs
  simp only at hs
  have hc := wf_compose g hd hg hh
  split at hs
  · cases hs; exact wf_dropStep _ _ hc
  · split at hs
    · cases hs; exact wf_renameStep _ _ hc
    · cases hs; exact wf_rwStep _ _ _ hc

theorem wf_foldAll (ord : List (Node × Node) → List (Node × Node)) (hs : List LGraph) (g g' : LGraph)
    (hr : foldAll ord g hs = .ok g') (hg : WF g) (hh : ∀ h ∈ hs, WF h) : WF g' := by
  induction hs generalizing g with
  | nil => simp only [foldAll, Except.ok.injEq] at hr; subst hr; exact hg
  | cons h r ih =>
    simp only [foldAll] at hr
    cases h1 : foldStep ord g h with
    | error e => rw [h1] at hr; cases hr
    | ok g1 =>
      rw [h1] at hr
      exact ih g1 hr (wf_foldStep ord g h g1 h1 hg (hh h List.mem_cons_self))
        (fun x hx => hh x (List.mem_cons_of_mem _ hx))

private theorem wf_resolveTail (g g' : LGraph) (u tgt : Node) (srcs : List Column)
    (hr : (if srcs.isEmpty then
             Except.ok (srcs.foldl (fun g c => g.addEdge c.key tgt .lineage none (some (.col c)) none) g)
           else match (srcs.foldl (fun g c => g.addEdge c.key tgt .lineage none (some (.col c)) none) g).removeEdge? u tgt with
             | some g2 => Except.ok g2
             | none => Except.error (Err.internal "remove_edge")) = Except.ok g')
    (h : WF g) : WF g' := by
  have hfold : ∀ (cs : List Column) (g0 : LGraph), WF g0 →
      WF (cs.foldl (fun g c => g.addEdge c.key tgt .lineage none (some (.col c)) none) g0) := by
    intro cs
    induction cs with
    | nil => intro g0 h0; exact h0
    | cons c r ih => intro g0 h0; exact ih _ (wf_addEdge _ _ _ _ _ _ _ h0)
  split at hr
  · cases hr; exact hfold _ _ h
  · split at hr
    · rename_i g2 hre
      cases hr
      exact wf_removeEdge _ _ _ _ hre (hfold _ _ h)
    · cases hr

theorem wf_resolveOne (prov : Prov) (g g' : LGraph) (e : Node × Node) (hr : resolveOne prov g e = .ok g')
    (h : WF g) : WF g' := by
  unfold resolveOne at hr
  exact wf_resolveTail g g' e.1 e.2 _ hr h

theorem wf_resolveAll (prov : Prov) (es : List (Node × Node)) (g g' : LGraph) (hr : resolveAll prov g es = .ok g')
    (h : WF g) : WF g' := by
  induction es generalizing g with
  | nil => simp only [resolveAll, Except.ok.injEq] at hr; subst hr; exact h
  | cons e r ih =>
    simp only [resolveAll] at hr
    cases h1 : resolveOne prov g e with
    | error x => rw [h1] at hr; cases hr
    | ok g1 => rw [h1] at hr; exact ih g1 hr (wf_resolveOne prov g g1 e h1 h)

theorem wf_removeOrphans (g : LGraph) (h : WF g) : WF (removeOrphans g) := by
  unfold removeOrphans
  generalize (g.nodes.filter _) = ns
  induction ns generalizing g with
  | nil => exact h
  | cons n r ih => exact ih _ (wf_removeNode g n h)

/-- `_build_digraph` keeps the invariants: if every statement holder's graph is well‑formed, so is the result -/
theorem wf_buildWith (ord : List (Node × Node) → List (Node × Node)) (prov : Prov) (hs : List LGraph) (g : LGraph)
    (hb : buildWith ord prov hs = .ok g) (hh : ∀ h ∈ hs, WF h) : WF g := by
  unfold buildWith at hb
  cases h1 : foldAll ord Graph.empty hs with
  | error e => rw [h1] at hb; cases hb
  | ok g1 =>
    rw [h1] at hb
    simp only at hb
    have w1 : WF g1 := wf_foldAll ord hs _ g1 h1 wf_empty hh
    have w2 : WF (tagSelfloops g1) := wf_setTags _ _ _ _ w1
    cases h2 : resolveAll prov (tagSelfloops g1) (unresolved (tagSelfloops g1)) with
    | error e => rw [h2] at hb; cases hb
    | ok g2 =>
      rw [h2] at hb
      cases hb
      exact wf_removeOrphans g2 (wf_resolveAll prov _ _ g2 h2 w2)

theorem wf_tableGraph (g : LGraph) (h : WF g) : WF (tableGraph g) := wf_subgraph g _ h
theorem wf_columnGraph (g : LGraph) (h : WF g) : WF (columnGraph g) := wf_subgraph g _ h

end assemble

/-! ### the summary: insertion sort, role lists -/

section sort
open Export Assemble

/-- ascending in Python's string order (code‑point lexicographic = Lean's `String` order) -/
def Sorted (l : List String) : Prop := l.Pairwise (· ≤ ·)

theorem str_le_of_lt {a b : String} (h : a < b) : a ≤ b := String.not_lt.mp (String.lt_asymm h)

theorem insertSorted_perm (x : String) (l : List String) : (insertSorted x l).Perm (x :: l) := by
  induction l with
  | nil => exact List.Perm.refl _
  | cons y r ih =>
    unfold insertSorted
    split
    · exact List.Perm.refl _
    · exact (List.Perm.cons y ih).trans (List.Perm.swap x y r)

theorem insertSorted_sorted (x : String) (l : List String) (h : Sorted l) : Sorted (insertSorted x l) := by
  induction l with
  | nil => simp [insertSorted, Sorted]
  | cons y r ih =>
    unfold Sorted at h
    rw [List.pairwise_cons] at h
    unfold insertSorted
    split
    · rename_i hxy
      unfold Sorted
      rw [List.pairwise_cons, List.pairwise_cons]
      refine ⟨?_, h⟩
      intro z hz
      rcases List.mem_cons.mp hz with rfl | hz'
      · exact str_le_of_lt hxy
      · exact String.le_trans (str_le_of_lt hxy) (h.1 z hz')
    · rename_i hxy
      have hyx : y ≤ x := String.not_lt.mp hxy
      unfold Sorted
      rw [List.pairwise_cons]
      refine ⟨?_, ih h.2⟩
      intro z hz
      have hz' : z ∈ x :: r := (insertSorted_perm x r).mem_iff.mp hz
      rcases List.mem_cons.mp hz' with rfl | hz''
      · exact hyx
      · exact h.1 z hz''

theorem isort_perm (l : List String) : (isort l).Perm l := by
  induction l with
  | nil => exact List.Perm.refl _
  | cons x r ih => exact (insertSorted_perm x (isort r)).trans (List.Perm.cons x ih)

theorem isort_sorted (l : List String) : Sorted (isort l) := by
  induction l with
  | nil => simp [isort, Sorted]
  | cons x r ih => exact insertSorted_sorted x _ ih

/-- a sorted duplicate‑free list is strictly ascending -/
theorem strict_of_sorted_nodup (l : List String) (hs : Sorted l) (hn : l.Nodup) : l.Pairwise (· < ·) := by
  induction l with
  | nil => simp
  | cons x r ih =>
    unfold Sorted at hs
    rw [List.pairwise_cons] at hs
    rw [List.nodup_cons] at hn
    rw [List.pairwise_cons]
    refine ⟨?_, ih hs.2 hn.2⟩
    intro z hz
    apply Decidable.byContradiction
    intro hlt
    have hzx : z ≤ x := String.not_lt.mp hlt
    have : x = z := String.le_antisymm (hs.1 z hz) hzx
    exact hn.1 (this ▸ hz)

theorem nodup_union (a b : List Node) (ha : a.Nodup) (hb : b.Nodup) : (union a b).Nodup := by
  unfold union
  rw [List.nodup_append]
  refine ⟨ha, List.Pairwise.filter _ hb, ?_⟩
  intro x hx y hy
  rw [List.mem_filter] at hy
  intro e; subst e
  simp at hy
  exact hy.2 hx

theorem mem_union (a b : List Node) (x : Node) : x ∈ union a b ↔ x ∈ a ∨ x ∈ b := by
  unfold union
  rw [List.mem_append, List.mem_filter]
  constructor
  · rintro (h | h)
    · exact Or.inl h
    · exact Or.inr h.1
  · rintro (h | h)
    · exact Or.inl h
    · by_cases hx : x ∈ a
      · exact Or.inl hx
      · exact Or.inr ⟨h, by simpa using hx⟩

theorem nodup_tagTables (g : LGraph) (t : Tag) (h : NodesNodup g) : (tagTables g t).Nodup :=
  List.Pairwise.filter _ (List.Pairwise.filter _ h)

theorem mem_tagTables_tableGraph (g : LGraph) (t : Tag) (n : Node) (h : n ∈ tagTables g t) :
    n ∈ (tableGraph g).nodes := by
  unfold tagTables tagged at h
  rw [List.mem_filter, List.mem_filter] at h
  unfold tableGraph
  rw [mem_nodes_subgraph]
  exact ⟨h.1.1, h.2⟩

/-- each role set holds a table at most once -/
theorem roles_nodup (g : LGraph) (h : NodesNodup g) :
    (sourceTables g).Nodup ∧ (targetTables g).Nodup ∧ (intermediateTables g).Nodup := by
  have ht : (tableGraph g).nodes.Nodup := List.Pairwise.filter _ h
  refine ⟨?_, ?_, ?_⟩
  · exact nodup_union _ _ (nodup_union _ _ (List.Pairwise.filter _ ht) (nodup_tagTables g _ h)) (nodup_tagTables g _ h)
  · exact nodup_union _ _ (nodup_union _ _ (List.Pairwise.filter _ ht) (nodup_tagTables g _ h)) (nodup_tagTables g _ h)
  · exact List.Pairwise.filter _ (List.Pairwise.filter _ ht)

/-- every table the summary lists is a node of the table‑level view -/
theorem roles_subset_tableGraph (g : LGraph) (n : Node)
    (h : n ∈ sourceTables g ∨ n ∈ targetTables g ∨ n ∈ intermediateTables g) : n ∈ (tableGraph g).nodes := by
  rcases h with h | h | h
  · unfold sourceTables at h
    simp only [mem_union] at h
    rcases h with (h | h) | h
    · exact (List.mem_filter.mp h).1
    · exact mem_tagTables_tableGraph g _ n h
    · exact mem_tagTables_tableGraph g _ n h
  · unfold targetTables at h
    simp only [mem_union] at h
    rcases h with (h | h) | h
    · exact (List.mem_filter.mp h).1
    · exact mem_tagTables_tableGraph g _ n h
    · exact mem_tagTables_tableGraph g _ n h
  · unfold intermediateTables at h
    exact (List.mem_filter.mp (List.mem_filter.mp h).1).1

end sort

end SqlLineage.ExportLemmas
