/-
Projection of column lineage onto table lineage (the second clause of property C06), fold level.

`ProjH h` — a STATEMENT holder projects: every edge between two columns owned by datasets (`Table` / `Path`) goes from a column of
a dataset the statement READS to a column of a dataset the statement WRITES.
`ProjG g` — a COMBINED graph projects: under every such column edge lies the table edge owner(source) → owner(target).

`foldAll_proj`: the statement fold of `SQLLineageHolder._build_digraph` (core/holders.py:374‑404, `Assemble.foldAll`) turns
holders that project into a combined graph that projects, for every history of read/write and DROP statements of any length
(RENAME is excluded: `relabel_nodes` renames the table node only and the columns keep their old owner — finding D33).
The tail of `_build_digraph` is covered for histories that leave no unresolved column (`build_proj_partial`); with unresolved
columns shared between statements the clause fails on the unchanged code (finding D11), so no theorem is claimed there.
-/
import SqlLineage.Proofs.BuildLemmas
import SqlLineage.Proofs.GraphLemmas
import SqlLineage.Model.Assemble

namespace SqlLineage.Projection
open SqlLineage Graph Assemble Paths

/-- a column edge whose end points are owned by datasets -/
def DsEdge (u v : Node) (d T : DS) : Prop :=
  colParent u = some d ∧ colParent v = some T ∧ d.isDataset = true ∧ T.isDataset = true

def ProjH (h : LGraph) : Prop :=
  ∀ u v, (u, v) ∈ h.edges → ∀ d T, DsEdge u v d T → Node.ds d ∈ stmtRead h ∧ Node.ds T ∈ stmtWrite h

def ProjG (g : LGraph) : Prop :=
  ∀ u v, (u, v) ∈ g.edges → ∀ d T, DsEdge u v d T → (Node.ds d, Node.ds T) ∈ g.edges

/-- no edge between two dataset-owned columns (DROP statements, plain SELECTs without column lineage, DDL) -/
def NoDsEdge (h : LGraph) : Prop := ∀ u v, (u, v) ∈ h.edges → ∀ d T, ¬ DsEdge u v d T

/-- what the fold needs of one statement holder: it is not a RENAME, it projects, and if it carries DROP tags it has no column
    lineage at all -/
structure HolderOK (h : LGraph) : Prop where
  noRename : stmtRename h = []
  proj : ProjH h
  dropPlain : stmtDrop h ≠ [] → NoDsEdge h

theorem projG_empty : ProjG (Graph.empty : LGraph) := by
  intro u v he; simp at he

theorem projG_mono_edges {g g' : LGraph} (hsub : ∀ e, e ∈ g.edges → e ∈ g'.edges)
    (hnew : ∀ u v, (u, v) ∈ g'.edges → (u, v) ∉ g.edges → ∀ d T, DsEdge u v d T → (Node.ds d, Node.ds T) ∈ g'.edges)
    (h : ProjG g) : ProjG g' := by
  intro u v he d T hd
  by_cases hin : (u, v) ∈ g.edges
  · exact hsub _ (h u v hin d T hd)
  · exact hnew u v he hin d T hd

theorem dsEdge_isCol {u v : Node} {d T : DS} (h : DsEdge u v d T) : u.isCol = true ∧ v.isCol = true := by
  obtain ⟨h1, h2, _, _⟩ := h
  cases u <;> cases v <;> simp_all [colParent, Node.isCol]

/-! ### the steps -/

theorem edges_dropStep (ts : List Node) : ∀ (g : LGraph) (e : Node × Node), e ∈ (dropStep g ts).edges ↔ e ∈ g.edges := by
  unfold dropStep
  induction ts with
  | nil => intro g e; rfl
  | cons t r ih =>
    intro g e
    simp only [List.foldl_cons]
    rw [ih]
    split
    · rename_i hc
      simp only [Bool.and_eq_true, beq_iff_eq] at hc
      rw [mem_edges_removeNode]
      constructor
      · exact fun h => h.1
      · intro he
        exact ⟨he, (degree_eq_zero_iff g t).mp hc.2 e he⟩
    · rfl

theorem projG_dropStep (g : LGraph) (ts : List Node) (h : ProjG g) : ProjG (dropStep g ts) := by
  intro u v he d T hd
  rw [edges_dropStep] at he ⊢
  exact h u v he d T hd

theorem edges_rwStep_sub (g : LGraph) (rd wr : List Node) (e : Node × Node) (he : e ∈ g.edges) : e ∈ (rwStep g rd wr).edges := by
  unfold rwStep
  split
  · simpa using he
  · split
    · simpa using he
    · rw [mem_edges_foldl_addEdge]; exact Or.inl he

theorem mem_product_of (rs ws : List Node) (r w : Node) (hr : r ∈ rs) (hw : w ∈ ws) : (r, w) ∈ product rs ws := by
  simp only [product, List.mem_flatMap, List.mem_map]
  exact ⟨r, hr, w, hw, rfl⟩

theorem edges_rwStep_product (g : LGraph) (rd wr : List Node) (r w : Node) (hr : r ∈ rd) (hw : w ∈ wr) :
    (r, w) ∈ (rwStep g rd wr).edges := by
  unfold rwStep
  have h1 : rd.length > 0 := List.length_pos_of_mem hr
  have h2 : wr.length > 0 := List.length_pos_of_mem hw
  have h2' : (wr.length == 0) = false := by
    cases hwl : wr.length with
    | zero => omega
    | succ n => rfl
  have h1' : (rd.length == 0) = false := by
    cases hrl : rd.length with
    | zero => omega
    | succ n => rfl
  simp only [h2', h1', Bool.and_false, Bool.false_and, if_false, Bool.false_eq_true]
  rw [mem_edges_foldl_addEdge]
  exact Or.inr (mem_product_of _ _ _ _ hr hw)

/-- new edges of the read/write step join datasets, never columns -/
theorem edges_rwStep_new (g : LGraph) (rd wr : List Node) (hrd : ∀ n ∈ rd, n.isDataset = true) (e : Node × Node)
    (he : e ∈ (rwStep g rd wr).edges) : e ∈ g.edges ∨ e.1.isDataset = true := by
  unfold rwStep at he
  split at he
  · exact Or.inl (by simpa using he)
  · split at he
    · exact Or.inl (by simpa using he)
    · rw [mem_edges_foldl_addEdge] at he
      rcases he with he | he
      · exact Or.inl he
      · exact Or.inr (hrd _ (mem_product' _ _ _ he).1)

theorem not_dataset_of_dsEdge {u v : Node} {d T : DS} (h : DsEdge u v d T) : u.isDataset ≠ true := by
  have := (dsEdge_isCol h).1
  cases u <;> simp_all [Node.isDataset, Node.isCol]

/-- **one statement**: composing a holder that projects and running its branch keeps the projection -/
theorem foldStep_proj (ord : List (Node × Node) → List (Node × Node)) (g h g' : LGraph) (hg : ProjG g) (hh : HolderOK h)
    (hs : foldStep ord g h = .ok g') : ProjG g' := by
  unfold foldStep at hs
  simp only [hh.noRename, List.isEmpty_nil, Bool.not_true, Bool.false_eq_true, if_false] at hs
  by_cases hdrop : stmtDrop h = []
  · simp only [hdrop, List.isEmpty_nil, Bool.not_true, Bool.false_eq_true, if_false, Except.ok.injEq] at hs
    subst hs
    intro u v he d T hd
    rcases edges_rwStep_new _ _ _ (mem_stmtRead_isDataset h) _ he with he' | he'
    · rcases (mem_edges_compose g h (u, v)).mp he' with hin | hin
      · exact edges_rwStep_sub _ _ _ _ ((mem_edges_compose g h _).mpr (Or.inl (hg u v hin d T hd)))
      · obtain ⟨hr, hw⟩ := hh.proj u v hin d T hd
        exact edges_rwStep_product _ _ _ _ _ hr hw
    · exact absurd he' (not_dataset_of_dsEdge hd)
  · have hne : (!(stmtDrop h).isEmpty) = true := by
      cases hsd : stmtDrop h with
      | nil => exact absurd hsd hdrop
      | cons _ _ => rfl
    simp only [hne, if_true, Except.ok.injEq] at hs
    subst hs
    apply projG_dropStep
    intro u v he d T hd
    rcases (mem_edges_compose g h (u, v)).mp he with hin | hin
    · exact (mem_edges_compose g h _).mpr (Or.inl (hg u v hin d T hd))
    · exact absurd hd (hh.dropPlain hdrop u v hin d T)

/-- **every history**: the statement fold over holders that project yields a combined graph that projects -/
theorem foldAll_proj (ord : List (Node × Node) → List (Node × Node)) : ∀ (hs : List LGraph) (g g' : LGraph), ProjG g →
    (∀ h ∈ hs, HolderOK h) → foldAll ord g hs = .ok g' → ProjG g'
  | [], g, g', hg, _, hf => by
    simp only [foldAll, Except.ok.injEq] at hf; subst hf; exact hg
  | h :: r, g, g', hg, hall, hf => by
    simp only [foldAll] at hf
    cases hstep : foldStep ord g h with
    | error e => rw [hstep] at hf; cases hf
    | ok g1 =>
      rw [hstep] at hf
      exact foldAll_proj ord r g1 g' (foldStep_proj ord g h g1 hg (hall h (by simp)) hstep)
        (fun x hx => hall x (by simp [hx])) hf

/-! ### the tail of `_build_digraph` -/

theorem projG_tagSelfloops (g : LGraph) (h : ProjG g) : ProjG (tagSelfloops g) := by
  intro u v he d T hd
  simp only [tagSelfloops, edges_setTags] at he ⊢
  exact h u v he d T hd

theorem edges_removeOrphans (g : LGraph) (e : Node × Node) : e ∈ (removeOrphans g).edges ↔ e ∈ g.edges := by
  unfold removeOrphans
  generalize hl : g.nodes.filter (fun n => g.degree n == 0 && n.isCol && (cands g n).length > 1) = l
  have hdeg : ∀ n ∈ l, g.degree n = 0 := by
    intro n hn
    rw [← hl] at hn
    simp only [List.mem_filter, Bool.and_eq_true, beq_iff_eq] at hn
    exact hn.2.1.1
  clear hl
  suffices H : ∀ (l : List Node) (g0 : LGraph), (∀ x, x ∈ g0.edges ↔ x ∈ g.edges) → (∀ n ∈ l, g.degree n = 0) →
      (e ∈ (l.foldl (fun g n => g.removeNode n) g0).edges ↔ e ∈ g.edges) from H l g (fun _ => Iff.rfl) hdeg
  intro l
  induction l with
  | nil => intro g0 h0 _; exact h0 e
  | cons n r ih =>
    intro g0 h0 hd
    simp only [List.foldl_cons]
    apply ih
    · intro x
      rw [mem_edges_removeNode, h0]
      constructor
      · exact fun h => h.1
      · intro hx
        exact ⟨hx, (degree_eq_zero_iff g n).mp (hd n (by simp)) x hx⟩
    · exact fun m hm => hd m (by simp [hm])

/-- **the whole assembler**, for histories that leave no unresolved column edge: `build` yields a graph that projects -/
theorem build_proj_partial (ord : List (Node × Node) → List (Node × Node)) (prov : Prov) (hs : List LGraph) (g gf : LGraph)
    (hall : ∀ h ∈ hs, HolderOK h) (hf : foldAll ord Graph.empty hs = .ok gf) (hun : unresolved (tagSelfloops gf) = [])
    (hb : buildWith ord prov hs = .ok g) : ProjG g := by
  unfold buildWith at hb
  rw [hf] at hb
  simp only [hun, resolveAll, Except.ok.injEq] at hb
  subst hb
  have := projG_tagSelfloops gf (foldAll_proj ord hs _ gf projG_empty hall hf)
  intro u v he d T hd
  rw [edges_removeOrphans] at he ⊢
  exact this u v he d T hd

/-! ### roles of the end points of a table edge (`SQLLineageHolder.source_tables / target_tables / intermediate_tables`) -/

theorem mem_union (a b : List Node) (x : Node) : x ∈ union a b ↔ x ∈ a ∨ x ∈ b := by
  unfold union
  simp only [List.mem_append, List.mem_filter]
  constructor
  · rintro (h | ⟨h, _⟩)
    · exact Or.inl h
    · exact Or.inr h
  · rintro (h | h)
    · exact Or.inl h
    · by_cases ha : x ∈ a
      · exact Or.inl ha
      · exact Or.inr ⟨h, by simp [ha]⟩

/-- the end points of an edge of `table_lineage_graph` have the roles the property names: the tail is a source or an
    intermediate table, the head a target or an intermediate table (a table tagged as self loop counts as source AND target) -/
theorem table_edge_roles (g : LGraph) (hwf : Paths.WF g) (a b : Node) (he : (a, b) ∈ (tableGraph g).edges) :
    (a ∈ sourceTables g ∨ a ∈ intermediateTables g) ∧ (b ∈ targetTables g ∨ b ∈ intermediateTables g) := by
  have he' := (mem_edges_subgraph g Node.isDataset (a, b)).mp he
  obtain ⟨heg, hka, hkb⟩ := he'
  simp only at hka hkb
  have han : a ∈ (tableGraph g).nodes := (mem_nodes_subgraph g _ a).mpr ⟨(hwf _ heg).1, hka⟩
  have hbn : b ∈ (tableGraph g).nodes := (mem_nodes_subgraph g _ b).mpr ⟨(hwf _ heg).2, hkb⟩
  have hout : 0 < (tableGraph g).outDeg a := (outDeg_pos_iff _ a).mpr ⟨b, he⟩
  have hin : 0 < (tableGraph g).inDeg b := (inDeg_pos_iff _ b).mpr ⟨a, he⟩
  constructor
  · by_cases hs : a ∈ tagTables g .selfloop
    · left
      unfold sourceTables
      simp only
      rw [mem_union, mem_union]
      exact Or.inl (Or.inr hs)
    · by_cases h0 : (tableGraph g).inDeg a = 0
      · left
        unfold sourceTables
        simp only
        rw [mem_union, mem_union]
        refine Or.inl (Or.inl ?_)
        simp only [List.mem_filter, Bool.and_eq_true, beq_iff_eq, decide_eq_true_eq]
        exact ⟨han, h0, hout⟩
      · right
        unfold intermediateTables
        simp only [List.mem_filter, Bool.and_eq_true, decide_eq_true_eq, Bool.not_eq_true', List.contains_eq_mem,
          decide_eq_false_iff_not]
        exact ⟨⟨han, Nat.pos_of_ne_zero h0, hout⟩, hs⟩
  · by_cases hs : b ∈ tagTables g .selfloop
    · left
      unfold targetTables
      simp only
      rw [mem_union, mem_union]
      exact Or.inl (Or.inr hs)
    · by_cases h0 : (tableGraph g).outDeg b = 0
      · left
        unfold targetTables
        simp only
        rw [mem_union, mem_union]
        refine Or.inl (Or.inl ?_)
        simp only [List.mem_filter, Bool.and_eq_true, beq_iff_eq, decide_eq_true_eq]
        exact ⟨hbn, h0, hin⟩
      · right
        unfold intermediateTables
        simp only [List.mem_filter, Bool.and_eq_true, decide_eq_true_eq, Bool.not_eq_true', List.contains_eq_mem,
          decide_eq_false_iff_not]
        exact ⟨⟨hbn, hin, Nat.pos_of_ne_zero h0⟩, hs⟩

end SqlLineage.Projection
