/-
The fragment of `Proofs/ReadsExact.lean` lies inside `Spec.Frag01`: a query satisfying `fragQ` falls in no deviation class
(`Spec.devQuery … = []`) and defines no CTE name.
-/
import SqlLineage.Proofs.ReadsExact

set_option linter.unusedSimpArgs false
set_option linter.unusedVariables false

namespace SqlLineage.Proofs.ReadsExact
open SqlLineage Ast Walk Holder Spec

mutual
theorem nSub_noSub  : (e : Expr) → noSub e = true → nSub e = 0
  | .col _ _, _ => by simp only [nSub, nSubL, nSubW]
  | .star _, _ => by simp only [nSub, nSubL, nSubW]
  | .lit _, _ => by simp only [nSub, nSubL, nSubW]
  | .func _ _ as none, h => by
    simp only [noSub, Bool.and_true] at h
    simp only [nSub, nSubL, nSubW, nSub_noSubL  as h, Nat.add_zero]
  | .func _ _ as (some (.mk p o)), h => by
    simp only [noSub, Bool.and_eq_true] at h
    simp only [nSub, nSubL, nSubW, nSub_noSubL  as h.1, nSub_noSubL  p h.2.1, nSub_noSubL  o h.2.2, Nat.add_zero]
  | .cast e _, h => by
    simp only [noSub] at h
    simp only [nSub, nSubL, nSubW, nSub_noSub  e h]
  | .case ws none, h => by
    simp only [noSub, Bool.and_true] at h
    simp only [nSub, nSubL, nSubW, nSub_noSubW  ws h, Nat.add_zero]
  | .case ws (some e), h => by
    simp only [noSub, Bool.and_eq_true] at h
    simp only [nSub, nSubL, nSubW, nSub_noSubW  ws h.1, nSub_noSub  e h.2, Nat.add_zero]
  | .bin _ a b, h => by
    simp only [noSub, Bool.and_eq_true] at h
    simp only [nSub, nSubL, nSubW, nSub_noSub  a h.1, nSub_noSub  b h.2, Nat.add_zero]
  | .paren e, h => by
    simp only [noSub] at h
    simp only [nSub, nSubL, nSubW, nSub_noSub  e h]
  | .subq _, h => by simp [noSub] at h
  | .inSubq _ _ _, h => by simp [noSub] at h
  | .exist _ _, h => by simp [noSub] at h
theorem nSub_noSubL  : (l : List Expr) → noSubL l = true → nSubL l = 0
  | [], _ => by simp only [nSub, nSubL, nSubW]
  | e :: r, h => by
    simp only [noSubL, Bool.and_eq_true] at h
    simp only [nSub, nSubL, nSubW, nSub_noSub  e h.1, nSub_noSubL  r h.2, Nat.add_zero]
theorem nSub_noSubW  : (l : List When) → noSubW l = true → nSubW l = 0
  | [], _ => by simp only [nSub, nSubL, nSubW]
  | .mk c r :: rest, h => by
    simp only [noSubW, Bool.and_eq_true] at h
    simp only [nSub, nSubL, nSubW, nSub_noSub  c h.1.1, nSub_noSub  r h.1.2, nSub_noSubW  rest h.2, Nat.add_zero]
end

mutual
theorem devExpr_noSub (vis all : List String) : (e : Expr) → noSub e = true → devExpr vis all e = []
  | .col _ _, _ => by simp only [devExpr, devExprs, devWhens]
  | .star _, _ => by simp only [devExpr, devExprs, devWhens]
  | .lit _, _ => by simp only [devExpr, devExprs, devWhens]
  | .func _ _ as none, h => by
    simp only [noSub, Bool.and_true] at h
    simp only [devExpr, devExprs, devWhens, devExpr_noSubL vis all as h, List.append_nil]
  | .func _ _ as (some (.mk p o)), h => by
    simp only [noSub, Bool.and_eq_true] at h
    simp only [devExpr, devExprs, devWhens, devExpr_noSubL vis all as h.1, devExpr_noSubL vis all p h.2.1, devExpr_noSubL vis all o h.2.2, List.append_nil]
  | .cast e _, h => by
    simp only [noSub] at h
    simp only [devExpr, devExprs, devWhens, devExpr_noSub vis all e h]
  | .case ws none, h => by
    simp only [noSub, Bool.and_true] at h
    simp only [devExpr, devExprs, devWhens, devExpr_noSubW vis all ws h, List.append_nil]
  | .case ws (some e), h => by
    simp only [noSub, Bool.and_eq_true] at h
    simp only [devExpr, devExprs, devWhens, devExpr_noSubW vis all ws h.1, devExpr_noSub vis all e h.2, List.append_nil]
  | .bin _ a b, h => by
    simp only [noSub, Bool.and_eq_true] at h
    simp only [devExpr, devExprs, devWhens, devExpr_noSub vis all a h.1, devExpr_noSub vis all b h.2, List.append_nil]
  | .paren e, h => by
    simp only [noSub] at h
    simp only [devExpr, devExprs, devWhens, devExpr_noSub vis all e h]
  | .subq _, h => by simp [noSub] at h
  | .inSubq _ _ _, h => by simp [noSub] at h
  | .exist _ _, h => by simp [noSub] at h
theorem devExpr_noSubL (vis all : List String) : (l : List Expr) → noSubL l = true → devExprs vis all l = []
  | [], _ => by simp only [devExpr, devExprs, devWhens]
  | e :: r, h => by
    simp only [noSubL, Bool.and_eq_true] at h
    simp only [devExpr, devExprs, devWhens, devExpr_noSub vis all e h.1, devExpr_noSubL vis all r h.2, List.append_nil]
theorem devExpr_noSubW (vis all : List String) : (l : List When) → noSubW l = true → devWhens vis all l = []
  | [], _ => by simp only [devExpr, devExprs, devWhens]
  | .mk c r :: rest, h => by
    simp only [noSubW, Bool.and_eq_true] at h
    simp only [devExpr, devExprs, devWhens, devExpr_noSub vis all c h.1.1, devExpr_noSub vis all r h.1.2, devExpr_noSubW vis all rest h.2, List.append_nil]
end

mutual
theorem cteNamesE_noSub  : (e : Expr) → noSub e = true → cteNamesE e = []
  | .col _ _, _ => by simp only [cteNamesE, cteNamesEs, cteNamesW]
  | .star _, _ => by simp only [cteNamesE, cteNamesEs, cteNamesW]
  | .lit _, _ => by simp only [cteNamesE, cteNamesEs, cteNamesW]
  | .func _ _ as none, h => by
    simp only [noSub, Bool.and_true] at h
    simp only [cteNamesE, cteNamesEs, cteNamesW, cteNamesE_noSubL  as h, List.append_nil]
  | .func _ _ as (some (.mk p o)), h => by
    simp only [noSub, Bool.and_eq_true] at h
    simp only [cteNamesE, cteNamesEs, cteNamesW, cteNamesE_noSubL  as h.1, cteNamesE_noSubL  p h.2.1, cteNamesE_noSubL  o h.2.2, List.append_nil]
  | .cast e _, h => by
    simp only [noSub] at h
    simp only [cteNamesE, cteNamesEs, cteNamesW, cteNamesE_noSub  e h]
  | .case ws none, h => by
    simp only [noSub, Bool.and_true] at h
    simp only [cteNamesE, cteNamesEs, cteNamesW, cteNamesE_noSubW  ws h, List.append_nil]
  | .case ws (some e), h => by
    simp only [noSub, Bool.and_eq_true] at h
    simp only [cteNamesE, cteNamesEs, cteNamesW, cteNamesE_noSubW  ws h.1, cteNamesE_noSub  e h.2, List.append_nil]
  | .bin _ a b, h => by
    simp only [noSub, Bool.and_eq_true] at h
    simp only [cteNamesE, cteNamesEs, cteNamesW, cteNamesE_noSub  a h.1, cteNamesE_noSub  b h.2, List.append_nil]
  | .paren e, h => by
    simp only [noSub] at h
    simp only [cteNamesE, cteNamesEs, cteNamesW, cteNamesE_noSub  e h]
  | .subq _, h => by simp [noSub] at h
  | .inSubq _ _ _, h => by simp [noSub] at h
  | .exist _ _, h => by simp [noSub] at h
theorem cteNamesE_noSubL  : (l : List Expr) → noSubL l = true → cteNamesEs l = []
  | [], _ => by simp only [cteNamesE, cteNamesEs, cteNamesW]
  | e :: r, h => by
    simp only [noSubL, Bool.and_eq_true] at h
    simp only [cteNamesE, cteNamesEs, cteNamesW, cteNamesE_noSub  e h.1, cteNamesE_noSubL  r h.2, List.append_nil]
theorem cteNamesE_noSubW  : (l : List When) → noSubW l = true → cteNamesW l = []
  | [], _ => by simp only [cteNamesE, cteNamesEs, cteNamesW]
  | .mk c r :: rest, h => by
    simp only [noSubW, Bool.and_eq_true] at h
    simp only [cteNamesE, cteNamesEs, cteNamesW, cteNamesE_noSub  c h.1.1, cteNamesE_noSub  r h.1.2, cteNamesE_noSubW  rest h.2, List.append_nil]
end

theorem nDirect_noSub : (e : Expr) → noSub e = true → nDirect e = 0
  | .bin _ a b, h => by
    simp only [noSub, Bool.and_eq_true] at h
    simp only [nDirect, nDirect_noSub a h.1, nDirect_noSub b h.2]
  | .subq _, h => by simp [noSub] at h
  | .inSubq _ _ _, h => by simp [noSub] at h
  | .exist _ _, h => by simp [noSub] at h
  | .paren _, _ => by simp only [nDirect]
  | .col _ _, _ => by simp only [nDirect]
  | .star _, _ => by simp only [nDirect]
  | .lit _, _ => by simp only [nDirect]
  | .func _ _ _ _, _ => by simp only [nDirect]
  | .cast _ _, _ => by simp only [nDirect]
  | .case _ _, _ => by simp only [nDirect]

theorem nWhensDirect_noSub (ws : List When) (h : noSubW ws = true) : nWhensDirect ws = 0 := by
  induction ws with
  | nil => simp only [nWhensDirect]
  | cons w r ih =>
    cases w with
    | mk c x =>
      simp only [noSubW, Bool.and_eq_true] at h
      simp only [nWhensDirect, nDirect_noSub c h.1.1, nDirect_noSub x h.1.2, ih h.2]

theorem chainFinds_noSub : (e : Expr) → noSub e = true → chainFinds e = false
  | .bin _ a b, h => by
    simp only [noSub, Bool.and_eq_true] at h
    simp [chainFinds, chainFinds_noSub a h.1, chainFinds_noSub b h.2]
  | .subq _, h => by simp [noSub] at h
  | .inSubq _ _ _, h => by simp [noSub] at h
  | .exist _ _, h => by simp [noSub] at h
  | .paren e, h => by
    simp only [noSub] at h
    simp only [chainFinds, chainFinds_noSub e h]
  | .col _ _, _ => by simp only [chainFinds]
  | .star _, _ => by simp only [chainFinds]
  | .lit _, _ => by simp only [chainFinds]
  | .func _ _ _ _, _ => by simp only [chainFinds]
  | .cast _ _, _ => by simp only [chainFinds]
  | .case _ _, _ => by simp only [chainFinds]

theorem firstCaseWhens_noSub : (e : Expr) → noSub e = true → ∀ ws, firstCaseWhens e = some ws → noSubW ws = true
  | .bin _ a b, h, ws, hw => by
    simp only [noSub, Bool.and_eq_true] at h
    simp only [firstCaseWhens] at hw
    cases ha : firstCaseWhens a with
    | some w =>
      rw [ha] at hw
      simp only [Option.some.injEq] at hw
      rw [← hw]
      exact firstCaseWhens_noSub a h.1 w ha
    | none =>
      rw [ha] at hw
      exact firstCaseWhens_noSub b h.2 ws hw
  | .case ws' none, h, ws, hw => by
    simp only [noSub, Bool.and_true] at h
    simp only [firstCaseWhens, Option.some.injEq] at hw
    rw [← hw]; exact h
  | .case ws' (some _), h, ws, hw => by
    simp only [noSub, Bool.and_eq_true] at h
    simp only [firstCaseWhens, Option.some.injEq] at hw
    rw [← hw]; exact h.1
  | .subq _, h, _, _ => by simp [noSub] at h
  | .inSubq _ _ _, h, _, _ => by simp [noSub] at h
  | .exist _ _, h, _, _ => by simp [noSub] at h
  | .paren _, _, _, hw => by simp [firstCaseWhens] at hw
  | .col _ _, _, _, hw => by simp [firstCaseWhens] at hw
  | .star _, _, _, hw => by simp [firstCaseWhens] at hw
  | .lit _, _, _, hw => by simp [firstCaseWhens] at hw
  | .func _ _ _ _, _, _, hw => by simp [firstCaseWhens] at hw
  | .cast _ _, _, _, hw => by simp [firstCaseWhens] at hw

theorem nItemFound_noSub (e : Expr) (h : noSub e = true) : nItemFound e = 0 := by
  have key : (match firstCaseWhens e with | some ws => nWhensDirect ws | none => 0) = 0 := by
    cases hw : firstCaseWhens e with
    | none => rfl
    | some ws => exact nWhensDirect_noSub ws (firstCaseWhens_noSub e h ws hw)
  cases e with
  | col _ _ => simp only [nItemFound]
  | star _ => simp only [nItemFound]
  | lit _ => simp only [nItemFound]
  | func n d as ov => simp only [nItemFound]; exact nSub_noSub _ h
  | cast e' t => simp only [nItemFound]; exact nSub_noSub _ h
  | case ws els => simp only [nItemFound]; exact key
  | bin op a b => simp only [nItemFound]; exact key
  | paren x => simp only [nItemFound]; exact key
  | subq _ => simp [noSub] at h
  | inSubq _ _ _ => simp [noSub] at h
  | exist _ _ => simp [noSub] at h

theorem devItems_noSub (vis all : List String) (its : List Item) (h : noSubI its = true) : devItems vis all its = [] := by
  induction its with
  | nil => simp only [devItems]
  | cons it r ih =>
    cases it with
    | mk e a k =>
      simp only [noSubI, Bool.and_eq_true] at h
      simp [devItems, nItemFound_noSub e h.1, nSub_noSub e h.1, devExpr_noSub vis all e h.1, ih h.2]

theorem cteNamesI_noSub (its : List Item) (h : noSubI its = true) : cteNamesI its = [] := by
  induction its with
  | nil => simp only [cteNamesI]
  | cons it r ih =>
    cases it with
    | mk e a k =>
      simp only [noSubI, Bool.and_eq_true] at h
      simp [cteNamesI, cteNamesE_noSub e h.1, ih h.2]

/-- what the WHERE branch of `list_subqueries` finds = all subqueries of the condition -/
theorem nDirectWhere_whereOK : (e : Expr) → whereOK e = true → nDirectWhere e = nSub e
  | .bin _ a b, h => by
    simp only [whereOK, Bool.and_eq_true] at h
    simp only [nDirectWhere, nSub, nDirectWhere_whereOK a h.1, nDirectWhere_whereOK b h.2]
  | .subq _, _ => by simp only [nDirectWhere, nSub]
  | .inSubq x _ _, h => by
    simp only [whereOK, Bool.and_eq_true] at h
    simp only [nDirectWhere, nSub, nSub_noSub x h.1, Nat.zero_add]
  | .exist _ _, _ => by simp only [nDirectWhere, nSub]
  | .paren e, h => by
    rw [whereOK_paren] at h
    have h' := h
    simp only [noSub] at h'
    rw [nSub_noSub _ h]
    simp [nDirectWhere, chainFinds_noSub e h']
  | .col _ _, _ => by simp only [nDirectWhere, nSub]
  | .star _, _ => by simp only [nDirectWhere, nSub]
  | .lit _, _ => by simp only [nDirectWhere, nSub]
  | .func n d as ov, h => by
    rw [whereOK_func] at h
    rw [nSub_noSub _ h]; simp only [nDirectWhere]
  | .cast e t, h => by
    rw [whereOK_cast] at h
    rw [nSub_noSub _ h]; simp only [nDirectWhere]
  | .case ws els, h => by
    rw [whereOK_case] at h
    rw [nSub_noSub _ h]; simp only [nDirectWhere]

mutual
theorem devExpr_whereOK (vis : List String) : (e : Expr) → whereOK e = true → devExpr vis [] e = []
  | .bin _ a b, h => by
    simp only [whereOK, Bool.and_eq_true] at h
    simp only [devExpr, devExpr_whereOK vis a h.1, devExpr_whereOK vis b h.2, List.append_nil]
  | .subq q, h => by
    simp only [whereOK] at h
    simp only [devExpr, devQuery_frag q vis h]
  | .inSubq x _ q, h => by
    simp only [whereOK, Bool.and_eq_true] at h
    simp only [devExpr, devExpr_noSub vis [] x h.1, devQuery_frag q vis h.2, List.append_nil]
  | .exist _ q, h => by
    simp only [whereOK] at h
    simp only [devExpr, devQuery_frag q vis h]
  | .col _ _, _ => by simp only [devExpr]
  | .star _, _ => by simp only [devExpr]
  | .lit _, _ => by simp only [devExpr]
  | .func n d as ov, h => by rw [whereOK_func] at h; exact devExpr_noSub vis [] _ h
  | .cast e t, h => by rw [whereOK_cast] at h; exact devExpr_noSub vis [] _ h
  | .case ws els, h => by rw [whereOK_case] at h; exact devExpr_noSub vis [] _ h
  | .paren e, h => by rw [whereOK_paren] at h; exact devExpr_noSub vis [] _ h
/-- **a query of the fragment is in no deviation class** (no CTE name defined anywhere: `all = []`) -/
theorem devQuery_frag : (q : Query) → (vis : List String) → fragQ q = true → devQuery vis [] q = []
  | .select _ its frm none grp hav, vis, h => by
    simp only [fragQ, Bool.and_eq_true] at h
    obtain ⟨⟨⟨⟨hits, hfrm⟩, hwh⟩, hgrp⟩, hhav⟩ := h
    cases hav with
    | none =>
      simp [devQuery, devItems_noSub vis [] its hits, devFromExprs_frag vis frm hfrm, nSub_noSubL grp hgrp,
        devExpr_noSubL vis [] grp hgrp]
    | some e' =>
      simp only [noSubOpt] at hhav
      simp [devQuery, devItems_noSub vis [] its hits, devFromExprs_frag vis frm hfrm, nSub_noSubL grp hgrp,
        devExpr_noSubL vis [] grp hgrp, nSub_noSub e' hhav, devExpr_noSub vis [] e' hhav]
  | .select _ its frm (some e) grp hav, vis, h => by
    simp only [fragQ, Bool.and_eq_true, whereOKOpt] at h
    obtain ⟨⟨⟨⟨hits, hfrm⟩, hwh⟩, hgrp⟩, hhav⟩ := h
    cases hav with
    | none =>
      simp [devQuery, devItems_noSub vis [] its hits, devFromExprs_frag vis frm hfrm, nSub_noSubL grp hgrp,
        devExpr_noSubL vis [] grp hgrp, nDirectWhere_whereOK e hwh, devExpr_whereOK vis e hwh]
    | some e' =>
      simp only [noSubOpt] at hhav
      simp [devQuery, devItems_noSub vis [] its hits, devFromExprs_frag vis frm hfrm, nSub_noSubL grp hgrp,
        devExpr_noSubL vis [] grp hgrp, nSub_noSub e' hhav, devExpr_noSub vis [] e' hhav, nDirectWhere_whereOK e hwh,
        devExpr_whereOK vis e hwh]
  | .setop first rest, vis, h => by
    simp only [fragQ, Bool.and_eq_true] at h
    simp only [devQuery, devBranch_frag vis first h.1, devOpBranches_frag vis rest h.2, List.append_nil]
  | .withq _ _, _, h => by simp [fragQ] at h
theorem devBranch_frag (vis : List String) : (b : Branch) → fragB b = true → devBranch vis [] b = []
  | .mk (.select d its frm wh grp hav) _, h => by
    simp only [fragB, Bool.and_eq_true] at h
    simp only [devBranch, devQuery_frag (.select d its frm wh grp hav) vis h.2, List.append_nil]
  | .mk (.setop _ _) _, h => by simp [fragB, isSelect] at h
  | .mk (.withq _ _) _, h => by simp [fragB, isSelect] at h
theorem devOpBranches_frag (vis : List String) : (l : List OpBranch) → fragOBs l = true → devOpBranches vis [] l = []
  | [], _ => by simp only [devOpBranches]
  | .mk _ b :: r, h => by
    simp only [fragOBs, Bool.and_eq_true] at h
    simp only [devOpBranches, devBranch_frag vis b h.1, devOpBranches_frag vis r h.2, List.append_nil]
theorem devElem_frag (vis : List String) : (e : FromElem) → fragE e = true → devElem vis [] e = []
  | .table [] _ _, _ => by simp [devElem]
  | .table [_] _ _, _ => by simp [devElem]
  | .table (_ :: _ :: _) _ _, _ => by simp [devElem]
  | .derived q _ _, h => by
    simp only [fragE] at h
    simp only [devElem, devQuery_frag q vis h]
theorem devJoins_frag (vis : List String) : (l : List Join) → fragJs l = true → devJoins vis [] l = []
  | [], _ => by simp only [devJoins]
  | .mk _ e none _ :: r, h => by
    simp only [fragJs, Bool.and_eq_true] at h
    simp only [devJoins, devElem_frag vis e h.1.1, devJoins_frag vis r h.2, List.append_nil]
  | .mk _ e (some c) _ :: r, h => by
    simp only [fragJs, Bool.and_eq_true, noSubOpt] at h
    simp [devJoins, devElem_frag vis e h.1.1, devJoins_frag vis r h.2, nSub_noSub c h.1.2, devExpr_noSub vis [] c h.1.2]
theorem devFromExpr_frag (vis : List String) : (f : FromExpr) → fragF f = true → devFromExpr vis [] f = []
  | .mk base js, h => by
    simp only [fragF, Bool.and_eq_true] at h
    simp only [devFromExpr, devElem_frag vis base h.1, devJoins_frag vis js h.2, List.append_nil]
theorem devFromExprs_frag (vis : List String) : (l : List FromExpr) → fragFs l = true → devFromExprs vis [] l = []
  | [], _ => by simp only [devFromExprs]
  | f :: r, h => by
    simp only [fragFs, Bool.and_eq_true] at h
    simp only [devFromExprs, devFromExpr_frag vis f h.1, devFromExprs_frag vis r h.2, List.append_nil]
end

mutual
theorem cteNamesE_whereOK : (e : Expr) → whereOK e = true → cteNamesE e = []
  | .bin _ a b, h => by
    simp only [whereOK, Bool.and_eq_true] at h
    simp only [cteNamesE, cteNamesE_whereOK a h.1, cteNamesE_whereOK b h.2, List.append_nil]
  | .subq q, h => by
    simp only [whereOK] at h
    simp only [cteNamesE, cteNamesQ_frag q h]
  | .inSubq x _ q, h => by
    simp only [whereOK, Bool.and_eq_true] at h
    simp only [cteNamesE, cteNamesE_noSub x h.1, cteNamesQ_frag q h.2, List.append_nil]
  | .exist _ q, h => by
    simp only [whereOK] at h
    simp only [cteNamesE, cteNamesQ_frag q h]
  | .col _ _, _ => by simp only [cteNamesE]
  | .star _, _ => by simp only [cteNamesE]
  | .lit _, _ => by simp only [cteNamesE]
  | .func n d as ov, h => by rw [whereOK_func] at h; exact cteNamesE_noSub _ h
  | .cast e t, h => by rw [whereOK_cast] at h; exact cteNamesE_noSub _ h
  | .case ws els, h => by rw [whereOK_case] at h; exact cteNamesE_noSub _ h
  | .paren e, h => by rw [whereOK_paren] at h; exact cteNamesE_noSub _ h
/-- a query of the fragment defines no CTE name -/
theorem cteNamesQ_frag : (q : Query) → fragQ q = true → cteNamesQ q = []
  | .select _ its frm none grp hav, h => by
    simp only [fragQ, Bool.and_eq_true] at h
    obtain ⟨⟨⟨⟨hits, hfrm⟩, hwh⟩, hgrp⟩, hhav⟩ := h
    cases hav with
    | none => simp [cteNamesQ, cteNamesI_noSub its hits, cteNamesF_frag frm hfrm, cteNamesE_noSubL grp hgrp]
    | some e' =>
      simp only [noSubOpt] at hhav
      simp [cteNamesQ, cteNamesI_noSub its hits, cteNamesF_frag frm hfrm, cteNamesE_noSubL grp hgrp, cteNamesE_noSub e' hhav]
  | .select _ its frm (some e) grp hav, h => by
    simp only [fragQ, Bool.and_eq_true, whereOKOpt] at h
    obtain ⟨⟨⟨⟨hits, hfrm⟩, hwh⟩, hgrp⟩, hhav⟩ := h
    cases hav with
    | none =>
      simp [cteNamesQ, cteNamesI_noSub its hits, cteNamesF_frag frm hfrm, cteNamesE_noSubL grp hgrp, cteNamesE_whereOK e hwh]
    | some e' =>
      simp only [noSubOpt] at hhav
      simp [cteNamesQ, cteNamesI_noSub its hits, cteNamesF_frag frm hfrm, cteNamesE_noSubL grp hgrp, cteNamesE_noSub e' hhav,
        cteNamesE_whereOK e hwh]
  | .setop (.mk q _) rest, h => by
    simp only [fragQ, fragB, Bool.and_eq_true] at h
    simp only [cteNamesQ, cteNamesQ_frag q h.1.2, cteNamesOB_frag rest h.2, List.append_nil]
  | .withq _ _, h => by simp [fragQ] at h
theorem cteNamesOB_frag : (l : List OpBranch) → fragOBs l = true → cteNamesOB l = []
  | [], _ => by simp only [cteNamesOB]
  | .mk _ (.mk q _) :: r, h => by
    simp only [fragOBs, fragB, Bool.and_eq_true] at h
    simp only [cteNamesOB, cteNamesQ_frag q h.1.2, cteNamesOB_frag r h.2, List.append_nil]
theorem cteNamesEl_frag : (e : FromElem) → fragE e = true → cteNamesEl e = []
  | .table _ _ _, _ => by simp only [cteNamesEl]
  | .derived q _ _, h => by
    simp only [fragE] at h
    simp only [cteNamesEl, cteNamesQ_frag q h]
theorem cteNamesJ_frag : (l : List Join) → fragJs l = true → cteNamesJ l = []
  | [], _ => by simp only [cteNamesJ]
  | .mk _ e none _ :: r, h => by
    simp only [fragJs, Bool.and_eq_true] at h
    simp only [cteNamesJ, cteNamesEl_frag e h.1.1, cteNamesJ_frag r h.2, List.append_nil]
  | .mk _ e (some c) _ :: r, h => by
    simp only [fragJs, Bool.and_eq_true, noSubOpt] at h
    simp only [cteNamesJ, cteNamesEl_frag e h.1.1, cteNamesJ_frag r h.2, cteNamesE_noSub c h.1.2, List.append_nil]
theorem cteNamesF_frag : (l : List FromExpr) → fragFs l = true → cteNamesF l = []
  | [], _ => by simp only [cteNamesF]
  | .mk b js :: r, h => by
    simp only [fragFs, fragF, Bool.and_eq_true] at h
    simp only [cteNamesF, cteNamesEl_frag b h.1.1, cteNamesJ_frag js h.1.2, cteNamesF_frag r h.2, List.append_nil]
end

/-- the fragment avoids every deviation class of DESIGN §6 -/
theorem fragQ_no_deviation (q : Query) (h : fragQ q = true) : devQuery [] (cteNamesQ q) q = [] := by
  rw [cteNamesQ_frag q h]; exact devQuery_frag q [] h

end SqlLineage.Proofs.ReadsExact
