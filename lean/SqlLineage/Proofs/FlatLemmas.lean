/-
The walk on FLAT select blocks: no subquery anywhere in the select list, the WHERE condition or an ON condition, and only
base tables in FROM.  On such a block every subquery‑discovery pass of the select extractor (`sqItems`, `sqFrom`, `sqWhere`
and what they call) returns the holder unchanged, so `exQuery` is `finishBranches` on the initial holder.

Proof‑engineering note.  Lean generates no equation lemmas for the 30‑function mutual block of `Model/Walk.lean`; each
unfolding below is stated in the literal form of the definition and checked by `rfl` / `show`.  That works for every branch
needed here except the `CASE` branch of `sqDeep` (inside function calls / CAST) and of `cjExpr` (inside ON conditions), so
the fragment excludes a CASE at those two places (`plain`); a CASE as a select item or in WHERE is inside the fragment.
Used by `Props/C13.lean` and `Props/C14.lean` for their statement‑level `_partial` theorems.
-/
import SqlLineage.Model.Stmt

namespace SqlLineage.Flat
open SqlLineage Ast Walk Holder

mutual
/-- neither a subquery nor a CASE expression inside -/
def plain : Expr → Bool
  | .col _ _ | .star _ | .lit _ => true
  | .func _ _ args over => plainL args && (match over with | some (.mk p o) => plainL p && plainL o | none => true)
  | .cast e _ => plain e
  | .case _ _ => false
  | .bin _ a b => plain a && plain b
  | .paren e => plain e
  | .subq _ | .inSubq _ _ _ | .exist _ _ => false
def plainL : List Expr → Bool
  | [] => true
  | e :: r => plain e && plainL r
end

/-- a select item the subquery discovery leaves alone: a function call / CAST must be `plain` (they are crawled by `sqDeep`),
    anything else only has to be free of subqueries -/
def flatItem : Item → Bool
  | .mk (.func n d args over) _ _ => plain (.func n d args over)
  | .mk (.cast e _) _ _ => plain e
  | .mk e _ _ => !hasSubq e
def flatElem : FromElem → Bool
  | .table .. => true
  | .derived .. => false
def flatOn : Option Expr → Bool
  | none => true
  | some c => plain c
def flatWhere : Option Expr → Bool
  | none => true
  | some c => !hasSubq c
def flatJoin : Join → Bool
  | .mk _ e on _ => flatElem e && flatOn on
def flatFromExpr : FromExpr → Bool
  | .mk b js => flatElem b && js.all flatJoin
/-- one SELECT block over base tables without any subquery -/
def flatSelect : Query → Bool
  | .select _ its frm wh _ _ => its.all flatItem && frm.all flatFromExpr && flatWhere wh
  | _ => false

variable (env : Env)

/-! ### `sqDeep` (subqueries inside function calls), `cjExpr` (the deep join crawl through expressions) -/

mutual
theorem sqDeep_plain (g : LGraph) : ∀ e, plain e = true → sqDeep env e g = .ok g
  | .col _ _, _ => rfl
  | .star _, _ => rfl
  | .lit _, _ => rfl
  | .func _ _ args none, h => by
    have h1 : plainL args = true := by simpa [plain] using h
    show (match sqDeepL env args g with | .error x => Except.error x | .ok g' => Except.ok g') = .ok g
    rw [sqDeepL_plain g args h1]
  | .func _ _ args (some (.mk p o)), h => by
    have h1 : plainL args = true ∧ plainL p = true ∧ plainL o = true := by simpa [plain, Bool.and_eq_true] using h
    show (match sqDeepL env args g with
      | .error x => Except.error x
      | .ok g' => (match sqDeepL env p g' with | .error x => Except.error x | .ok g'' => sqDeepL env o g'')) = .ok g
    rw [sqDeepL_plain g args h1.1]; simp only
    rw [sqDeepL_plain g p h1.2.1]; simp only
    rw [sqDeepL_plain g o h1.2.2]
  | .cast e _, h => by
    have h1 : plain e = true := by simpa [plain] using h
    show sqDeep env e g = .ok g
    exact sqDeep_plain g e h1
  | .case _ _, h => by simp [plain] at h
  | .bin _ a b, h => by
    have h1 : plain a = true ∧ plain b = true := by simpa [plain, Bool.and_eq_true] using h
    show (match sqDeep env a g with | .error x => Except.error x | .ok g' => sqDeep env b g') = .ok g
    rw [sqDeep_plain g a h1.1]; simp only
    exact sqDeep_plain g b h1.2
  | .paren e, h => by
    have h1 : plain e = true := by simpa [plain] using h
    show sqDeep env e g = .ok g
    exact sqDeep_plain g e h1
  | .subq _, h => by simp [plain] at h
  | .inSubq _ _ _, h => by simp [plain] at h
  | .exist _ _, h => by simp [plain] at h
theorem sqDeepL_plain (g : LGraph) : ∀ es, plainL es = true → sqDeepL env es g = .ok g
  | [], _ => rfl
  | e :: r, h => by
    have h1 : plain e = true ∧ plainL r = true := by simpa [plainL, Bool.and_eq_true] using h
    show (match sqDeep env e g with | .error x => Except.error x | .ok g' => sqDeepL env r g') = .ok g
    rw [sqDeep_plain g e h1.1]; simp only
    exact sqDeepL_plain g r h1.2
end

mutual
theorem cjExpr_plain (g : LGraph) : ∀ e, plain e = true → cjExpr env e g = .ok g
  | .col _ _, _ => rfl
  | .star _, _ => rfl
  | .lit _, _ => rfl
  | .func _ _ args none, h => by
    have h1 : plainL args = true := by simpa [plain] using h
    show (match cjExprs env args g with | .error x => Except.error x | .ok g' => Except.ok g') = .ok g
    rw [cjExprs_plain g args h1]
  | .func _ _ args (some (.mk p o)), h => by
    have h1 : plainL args = true ∧ plainL p = true ∧ plainL o = true := by simpa [plain, Bool.and_eq_true] using h
    show (match cjExprs env args g with
      | .error x => Except.error x
      | .ok g' => (match cjExprs env p g' with | .error x => Except.error x | .ok g'' => cjExprs env o g'')) = .ok g
    rw [cjExprs_plain g args h1.1]; simp only
    rw [cjExprs_plain g p h1.2.1]; simp only
    rw [cjExprs_plain g o h1.2.2]
  | .cast e _, h => by
    have h1 : plain e = true := by simpa [plain] using h
    show cjExpr env e g = .ok g
    exact cjExpr_plain g e h1
  | .case _ _, h => by simp [plain] at h
  | .bin _ a b, h => by
    have h1 : plain a = true ∧ plain b = true := by simpa [plain, Bool.and_eq_true] using h
    show (match cjExpr env a g with | .error x => Except.error x | .ok g' => cjExpr env b g') = .ok g
    rw [cjExpr_plain g a h1.1]; simp only
    exact cjExpr_plain g b h1.2
  | .paren e, h => by
    have h1 : plain e = true := by simpa [plain] using h
    show cjExpr env e g = .ok g
    exact cjExpr_plain g e h1
  | .subq _, h => by simp [plain] at h
  | .inSubq _ _ _, h => by simp [plain] at h
  | .exist _ _, h => by simp [plain] at h
theorem cjExprs_plain (g : LGraph) : ∀ es, plainL es = true → cjExprs env es g = .ok g
  | [], _ => rfl
  | e :: r, h => by
    have h1 : plain e = true ∧ plainL r = true := by simpa [plainL, Bool.and_eq_true] using h
    show (match cjExpr env e g with | .error x => Except.error x | .ok g' => cjExprs env r g') = .ok g
    rw [cjExpr_plain g e h1.1]; simp only
    exact cjExprs_plain g r h1.2
end

/-! ### `sqDirect`, `sqParenChain`, `sqFirstCase`, `sqWhens` on subquery‑free expressions -/

mutual
theorem sqDirect_flat (inner : Bool) (alias : Option String) (g : LGraph) :
    ∀ e, hasSubq e = false → sqDirect env inner e alias g = .ok g
  | .col _ _, _ => rfl
  | .star _, _ => rfl
  | .lit _, _ => rfl
  | .func _ _ _ _, _ => rfl
  | .cast _ _, _ => rfl
  | .case _ _, _ => rfl
  | .bin _ a b, h => by
    have h1 : hasSubq a = false ∧ hasSubq b = false := by simpa [hasSubq, Bool.or_eq_false_iff] using h
    show (match sqDirect env inner a alias g with | .error x => Except.error x | .ok g' => sqDirect env inner b alias g') = .ok g
    rw [sqDirect_flat inner alias g a h1.1]; simp only
    exact sqDirect_flat inner alias g b h1.2
  | .paren e, h => by
    have h1 : hasSubq e = false := by simpa [hasSubq] using h
    show (if inner then (match sqParenChain env e alias g with | .error x => Except.error x | .ok p => Except.ok p.2)
      else Except.ok g) = .ok g
    obtain ⟨b, hb⟩ := sqParenChain_flat alias g e h1
    cases inner
    · rfl
    · simp only [if_true]; rw [hb]
  | .subq _, h => by simp [hasSubq] at h
  | .inSubq _ _ _, h => by simp [hasSubq] at h
  | .exist _ _, h => by simp [hasSubq] at h
theorem sqParenChain_flat (alias : Option String) (g : LGraph) :
    ∀ e, hasSubq e = false → ∃ b, sqParenChain env e alias g = .ok (b, g)
  | .col _ _, _ => ⟨false, rfl⟩
  | .star _, _ => ⟨false, rfl⟩
  | .lit _, _ => ⟨false, rfl⟩
  | .func _ _ _ _, _ => ⟨false, rfl⟩
  | .cast _ _, _ => ⟨false, rfl⟩
  | .case _ _, _ => ⟨false, rfl⟩
  | .bin _ a b, h => by
    have h1 : hasSubq a = false ∧ hasSubq b = false := by simpa [hasSubq, Bool.or_eq_false_iff] using h
    obtain ⟨ba, ha⟩ := sqParenChain_flat alias g a h1.1
    obtain ⟨bb, hb⟩ := sqParenChain_flat alias g b h1.2
    show ∃ r, (match sqParenChain env a alias g with
      | .error x => Except.error x
      | .ok (true, g') => Except.ok (true, g')
      | .ok (false, g') => sqParenChain env b alias g') = .ok (r, g)
    rw [ha]
    cases ba
    · exact ⟨bb, hb⟩
    · exact ⟨true, rfl⟩
  | .paren e, h => by
    have h1 : hasSubq e = false := by simpa [hasSubq] using h
    obtain ⟨b, hb⟩ := sqParenChain_flat alias g e h1
    show ∃ r, (match sqParenChain env e alias g with | .error x => Except.error x | .ok p => Except.ok (true, p.2)) = .ok (r, g)
    rw [hb]; exact ⟨true, rfl⟩
  | .subq _, h => by simp [hasSubq] at h
  | .inSubq _ _ _, h => by simp [hasSubq] at h
  | .exist _ _, h => by simp [hasSubq] at h
end

theorem sqWhens_flat (alias : Option String) (g : LGraph) : ∀ ws, hasSubqW ws = false → sqWhens env ws alias g = .ok g
  | [], _ => rfl
  | .mk c r :: rest, h => by
    have h1 : (hasSubq c = false ∧ hasSubq r = false) ∧ hasSubqW rest = false := by
      simpa [hasSubqW, Bool.or_eq_false_iff] using h
    show (match sqDirect env false c none g with
      | .error x => Except.error x
      | .ok g' => (match sqDirect env false r alias g' with
        | .error x => Except.error x | .ok g'' => sqWhens env rest alias g'')) = .ok g
    rw [sqDirect_flat env false none g c h1.1.1]; simp only
    rw [sqDirect_flat env false alias g r h1.1.2]; simp only
    exact sqWhens_flat alias g rest h1.2

theorem sqFirstCase_flat (alias : Option String) (g : LGraph) :
    ∀ e, hasSubq e = false → ∃ b, sqFirstCase env e alias g = .ok (b, g)
  | .col _ _, _ => ⟨false, rfl⟩
  | .star _, _ => ⟨false, rfl⟩
  | .lit _, _ => ⟨false, rfl⟩
  | .func _ _ _ _, _ => ⟨false, rfl⟩
  | .cast _ _, _ => ⟨false, rfl⟩
  | .paren _, _ => ⟨false, rfl⟩
  | .case ws els, h => by
    have h1 : hasSubqW ws = false := by
      cases els <;> simp [hasSubq, Bool.or_eq_false_iff] at h <;> simp [h]
    show ∃ r, (match sqWhens env ws alias g with | .error x => Except.error x | .ok g' => Except.ok (true, g')) = .ok (r, g)
    rw [sqWhens_flat env alias g ws h1]; exact ⟨true, rfl⟩
  | .bin _ a b, h => by
    have h1 : hasSubq a = false ∧ hasSubq b = false := by simpa [hasSubq, Bool.or_eq_false_iff] using h
    obtain ⟨ba, ha⟩ := sqFirstCase_flat alias g a h1.1
    obtain ⟨bb, hb⟩ := sqFirstCase_flat alias g b h1.2
    show ∃ r, (match sqFirstCase env a alias g with
      | .error x => Except.error x
      | .ok (true, g') => Except.ok (true, g')
      | .ok (false, g') => sqFirstCase env b alias g') = .ok (r, g)
    rw [ha]
    cases ba
    · exact ⟨bb, hb⟩
    · exact ⟨true, rfl⟩
  | .subq _, h => by simp [hasSubq] at h
  | .inSubq _ _ _, h => by simp [hasSubq] at h
  | .exist _ _, h => by simp [hasSubq] at h

/-! ### the three discovery passes of a SELECT block -/

theorem sqItems_flat (g : LGraph) : ∀ its : List Item, its.all flatItem = true → sqItems env its g = .ok g
  | [], _ => rfl
  | .mk e alias k :: r, h => by
    have h1 : flatItem (.mk e alias k) = true ∧ r.all flatItem = true := by simpa [List.all_cons, Bool.and_eq_true] using h
    have ih := sqItems_flat g r h1.2
    have other : ∀ e' : Expr, hasSubq e' = false →
        (match (match sqFirstCase env e' alias g with | .error x => Except.error x | .ok p => Except.ok p.2) with
          | .error x => Except.error x | .ok g' => sqItems env r g') = .ok g := by
      intro e' he'
      obtain ⟨b, hb⟩ := sqFirstCase_flat env alias g e' he'
      rw [hb]; simp only; exact ih
    cases e with
    | col q n => show (match (Except.ok g : Except Err LGraph) with | .error x => Except.error x | .ok g' => sqItems env r g') = .ok g; exact ih
    | star q => show (match (Except.ok g : Except Err LGraph) with | .error x => Except.error x | .ok g' => sqItems env r g') = .ok g; exact ih
    | lit t => show (match (Except.ok g : Except Err LGraph) with | .error x => Except.error x | .ok g' => sqItems env r g') = .ok g; exact ih
    | func n d args over =>
      have hp : plain (.func n d args over) = true := by simpa [flatItem] using h1.1
      have hd := sqDeep_plain env g (.func n d args over) hp
      cases over with
      | none =>
        have hd' : (match sqDeepL env args g with | .error x => Except.error x | .ok g' => Except.ok g') = Except.ok g := hd
        show (match (match sqDeepL env args g with | .error x => Except.error x | .ok g' => Except.ok g') with
          | .error x => Except.error x | .ok g' => sqItems env r g') = .ok g
        rw [hd']; exact ih
      | some ov =>
        cases ov with
        | mk p o =>
          have hd' : (match sqDeepL env args g with
            | .error x => Except.error x
            | .ok g' => (match sqDeepL env p g' with | .error x => Except.error x | .ok g'' => sqDeepL env o g'')) = Except.ok g := hd
          show (match (match sqDeepL env args g with
            | .error x => Except.error x
            | .ok g' => (match sqDeepL env p g' with | .error x => Except.error x | .ok g'' => sqDeepL env o g'')) with
            | .error x => Except.error x | .ok g' => sqItems env r g') = .ok g
          rw [hd']; exact ih
    | cast e' t =>
      have hp : plain e' = true := by simpa [flatItem] using h1.1
      show (match sqDeep env e' g with | .error x => Except.error x | .ok g' => sqItems env r g') = .ok g
      rw [sqDeep_plain env g e' hp]; exact ih
    | case ws els => exact other (.case ws els) (by simpa [flatItem] using h1.1)
    | bin op a b => exact other (.bin op a b) (by simpa [flatItem] using h1.1)
    | paren e' => exact other (.paren e') (by simpa [flatItem] using h1.1)
    | subq q => simp [flatItem, hasSubq] at h1
    | inSubq e' n q => simp [flatItem, hasSubq] at h1
    | exist n q => simp [flatItem, hasSubq] at h1

theorem cjJoins_flat (g : LGraph) : ∀ js : List Join, js.all flatJoin = true → cjJoins env js g = .ok g
  | [], _ => rfl
  | .mk k e on us :: r, h => by
    have h1 : flatJoin (.mk k e on us) = true ∧ r.all flatJoin = true := by simpa [List.all_cons, Bool.and_eq_true] using h
    have ih := cjJoins_flat g r h1.2
    cases e with
    | derived q a ak => simp [flatJoin, flatElem] at h1
    | table p a ak =>
      have hon : cjOptExpr env on g = .ok g := by
        cases on with
        | none => rfl
        | some c =>
          have : plain c = true := by simpa [flatJoin, flatElem, flatOn] using h1.1
          show cjExpr env c g = .ok g
          exact cjExpr_plain env g c this
      show (match (Except.ok g : Except Err LGraph) with
        | .error x => Except.error x
        | .ok g1 => (match (Except.ok g1 : Except Err LGraph) with
          | .error x => Except.error x
          | .ok g2 => (match cjOptExpr env on g2 with
            | .error x => Except.error x
            | .ok g3 => cjJoins env r g3))) = .ok g
      simp only
      rw [hon]; exact ih

theorem sqFrom_flat (multi : Bool) (g : LGraph) : ∀ frm : List FromExpr, frm.all flatFromExpr = true → sqFrom env multi frm g = .ok g
  | [], _ => rfl
  | .mk base js :: r, h => by
    have h1 : flatFromExpr (.mk base js) = true ∧ r.all flatFromExpr = true := by
      simpa [List.all_cons, Bool.and_eq_true] using h
    have ih := sqFrom_flat multi g r h1.2
    cases base with
    | derived q a ak => simp [flatFromExpr, flatElem] at h1
    | table p a ak =>
      have hj : js.all flatJoin = true := by simpa [flatFromExpr, flatElem] using h1.1
      show (match (Except.ok g : Except Err LGraph) with
        | .error x => Except.error x
        | .ok g' =>
          (match (if js.isEmpty then Except.ok g' else
                    (match (Except.ok g' : Except Err LGraph) with | .error x => Except.error x | .ok g'' => cjJoins env js g'')) with
            | .error x => Except.error x
            | .ok g'' => sqFrom env multi r g'')) = .ok g
      simp only
      rw [cjJoins_flat env g js hj]
      simp only [ite_self]
      exact ih

theorem sqWhere_flat (g : LGraph) : ∀ wh : Option Expr, flatWhere wh = true → sqWhere env wh g = .ok g
  | none, _ => rfl
  | some e, h => by
    have : hasSubq e = false := by simpa [flatWhere] using h
    show sqDirect env true e none g = .ok g
    exact sqDirect_flat env true none g e this

/-- on a flat SELECT block the select extractor is: initial holder, tables and columns of the block, cleanup, wildcard
    expansion — nothing else -/
theorem exQuery_flat (ctx : Ctx) (d : Bool) (its : List Item) (frm : List FromExpr) (wh : Option Expr) (grp : List Expr)
    (hav : Option Expr) (h : flatSelect (.select d its frm wh grp hav) = true) :
    exQuery env ctx (.select d its frm wh grp hav) = finishBranches env (initHolder ctx) [(its, frm)] := by
  have h1 : (its.all flatItem = true ∧ frm.all flatFromExpr = true) ∧ flatWhere wh = true := by
    simpa [flatSelect, Bool.and_eq_true] using h
  show (match sqItems env its (initHolder ctx) with
    | .error e => Except.error e
    | .ok g1 =>
      match sqFrom env (decide (frm.length > 1)) frm g1 with
      | .error e => Except.error e
      | .ok g2 =>
        match sqWhere env wh g2 with
        | .error e => Except.error e
        | .ok g3 => finishBranches env g3 [(its, frm)]) = _
  rw [sqItems_flat env _ its h1.1.1]; simp only
  rw [sqFrom_flat env _ _ frm h1.1.2]; simp only
  rw [sqWhere_flat env _ wh h1.2]

/-! ### the tables of a FROM clause do not depend on the provider (for EVERY from clause) -/

theorem datasetOfElem_prov (p : ProvView) (g : LGraph) (e : FromElem) :
    datasetOfElem { env with prov := p } g e = datasetOfElem env g e := by
  cases e <;> rfl

theorem colSpecOf_prov (p : ProvView) (it : Item) : colSpecOf { env with prov := p } it = colSpecOf env it := by
  cases it; rfl

mutual
theorem cdExpr_prov (p : ProvView) (g : LGraph) : ∀ e, cdExpr { env with prov := p } g e = cdExpr env g e
  | .col _ _ => by simp [cdExpr]
  | .star _ => by simp [cdExpr]
  | .lit _ => by simp [cdExpr]
  | .func _ _ args none => by simp [cdExpr, cdExprs_prov p g args]
  | .func _ _ args (some (.mk a b)) => by simp [cdExpr, cdExprs_prov p g args, cdExprs_prov p g a, cdExprs_prov p g b]
  | .cast e _ => by simp [cdExpr, cdExpr_prov p g e]
  | .case ws none => by simp [cdExpr, cdWhens_prov p g ws]
  | .case ws (some e) => by simp [cdExpr, cdWhens_prov p g ws, cdExpr_prov p g e]
  | .bin _ a b => by simp [cdExpr, cdExpr_prov p g a, cdExpr_prov p g b]
  | .paren e => by simp [cdExpr, cdExpr_prov p g e]
  | .subq q => by simp [cdExpr, cdQuery_prov p g q]
  | .inSubq e _ q => by simp [cdExpr, cdExpr_prov p g e, cdQuery_prov p g q]
  | .exist _ q => by simp [cdExpr, cdQuery_prov p g q]
theorem cdExprs_prov (p : ProvView) (g : LGraph) : ∀ es, cdExprs { env with prov := p } g es = cdExprs env g es
  | [] => by simp [cdExprs]
  | e :: r => by simp [cdExprs, cdExpr_prov p g e, cdExprs_prov p g r]
theorem cdWhens_prov (p : ProvView) (g : LGraph) : ∀ ws, cdWhens { env with prov := p } g ws = cdWhens env g ws
  | [] => by simp [cdWhens]
  | .mk c r :: rest => by simp [cdWhens, cdExpr_prov p g c, cdExpr_prov p g r, cdWhens_prov p g rest]
theorem cdItems_prov (p : ProvView) (g : LGraph) : ∀ its, cdItems { env with prov := p } g its = cdItems env g its
  | [] => by simp [cdItems]
  | .mk e _ _ :: r => by simp [cdItems, cdExpr_prov p g e, cdItems_prov p g r]
theorem cdQuery_prov (p : ProvView) (g : LGraph) : ∀ q, cdQuery { env with prov := p } g q = cdQuery env g q
  | .select _ its frm none grp none => by
    simp [cdQuery, cdItems_prov p g its, cdFromExprs_prov p g frm, cdExprs_prov p g grp]
  | .select _ its frm (some w) grp none => by
    simp [cdQuery, cdItems_prov p g its, cdFromExprs_prov p g frm, cdExprs_prov p g grp, cdExpr_prov p g w]
  | .select _ its frm none grp (some h) => by
    simp [cdQuery, cdItems_prov p g its, cdFromExprs_prov p g frm, cdExprs_prov p g grp, cdExpr_prov p g h]
  | .select _ its frm (some w) grp (some h) => by
    simp [cdQuery, cdItems_prov p g its, cdFromExprs_prov p g frm, cdExprs_prov p g grp, cdExpr_prov p g w, cdExpr_prov p g h]
  | .setop first rest => by simp [cdQuery, cdBranch_prov p g first, cdOpBranches_prov p g rest]
  | .withq cs body => by simp [cdQuery, cdCtes_prov p g cs, cdQuery_prov p g body]
theorem cdBranch_prov (p : ProvView) (g : LGraph) : ∀ b, cdBranch { env with prov := p } g b = cdBranch env g b
  | .mk q _ => by simp [cdBranch, cdQuery_prov p g q]
theorem cdOpBranches_prov (p : ProvView) (g : LGraph) : ∀ bs, cdOpBranches { env with prov := p } g bs = cdOpBranches env g bs
  | [] => by simp [cdOpBranches]
  | .mk _ b :: r => by simp [cdOpBranches, cdBranch_prov p g b, cdOpBranches_prov p g r]
theorem cdCtes_prov (p : ProvView) (g : LGraph) : ∀ cs, cdCtes { env with prov := p } g cs = cdCtes env g cs
  | [] => by simp [cdCtes]
  | .mk _ q :: r => by simp [cdCtes, cdQuery_prov p g q, cdCtes_prov p g r]
theorem cdElem_prov (p : ProvView) (g : LGraph) : ∀ e, cdElem { env with prov := p } g e = cdElem env g e
  | .table _ _ _ => by simp [cdElem]
  | .derived q _ _ => by simp [cdElem, cdQuery_prov p g q]
theorem cdJoins_prov (p : ProvView) (g : LGraph) : ∀ js, cdJoins { env with prov := p } g js = cdJoins env g js
  | [] => by simp [cdJoins]
  | .mk _ e none _ :: r => by
    simp only [cdJoins]
    rw [datasetOfElem_prov env p g e, cdElem_prov p g e, cdJoins_prov p g r]
  | .mk _ e (some c) _ :: r => by
    simp only [cdJoins]
    rw [datasetOfElem_prov env p g e, cdElem_prov p g e, cdExpr_prov p g c, cdJoins_prov p g r]
theorem cdFromExpr_prov (p : ProvView) (g : LGraph) : ∀ f, cdFromExpr { env with prov := p } g f = cdFromExpr env g f
  | .mk base js => by simp [cdFromExpr, cdElem_prov p g base, cdJoins_prov p g js]
theorem cdFromExprs_prov (p : ProvView) (g : LGraph) : ∀ fs, cdFromExprs { env with prov := p } g fs = cdFromExprs env g fs
  | [] => by simp [cdFromExprs]
  | f :: r => by simp [cdFromExprs, cdFromExpr_prov p g f, cdFromExprs_prov p g r]
end

theorem tablesOfFrom_prov (p : ProvView) (g : LGraph) (frm : List FromExpr) :
    tablesOfFrom { env with prov := p } g frm = tablesOfFrom env g frm := by
  unfold tablesOfFrom
  split
  · rfl
  · simp only [datasetOfElem_prov, cdFromExpr_prov]
  · congr 1
    funext fe
    cases fe with
    | mk base js => simp only [datasetOfElem_prov, cdFromExpr_prov]

/-- what `finishBranches` does before the wildcard expansion -/
def cleanupOf (env : Env) (g : LGraph) (branches : List (List Item × List FromExpr)) : Except Err LGraph :=
  let acc := (branches.zipIdx).foldl
    (fun (acc : List DObj × List ColSpec × List (Nat × Nat)) (b : (List Item × List FromExpr) × Nat) =>
      let bs := if b.2 != 0 then acc.2.2 ++ [(acc.2.1.length, acc.1.length)] else acc.2.2
      (acc.1 ++ tablesOfFrom env g b.1.2, acc.2.1 ++ b.1.1.map (colSpecOf env), bs)) ([], [], [])
  endOfQueryCleanup env.importDefault g acc.1 acc.2.1 acc.2.2 env.revStar

theorem finishBranches_eq (g : LGraph) (bs : List (List Item × List FromExpr)) :
    finishBranches env g bs =
      (match cleanupOf env g bs with | .ok g' => .ok (expandWildcard env.prov g') | .error e => .error e) := rfl

theorem cleanupOf_prov (p : ProvView) (g : LGraph) (bs : List (List Item × List FromExpr)) :
    cleanupOf { env with prov := p } g bs = cleanupOf env g bs := by
  unfold cleanupOf
  have : (fun (acc : List DObj × List ColSpec × List (Nat × Nat)) (b : (List Item × List FromExpr) × Nat) =>
      let bs := if b.2 != 0 then acc.2.2 ++ [(acc.2.1.length, acc.1.length)] else acc.2.2
      (acc.1 ++ tablesOfFrom { env with prov := p } g b.1.2, acc.2.1 ++ b.1.1.map (colSpecOf { env with prov := p }), bs)) =
      (fun acc b =>
      let bs := if b.2 != 0 then acc.2.2 ++ [(acc.2.1.length, acc.1.length)] else acc.2.2
      (acc.1 ++ tablesOfFrom env g b.1.2, acc.2.1 ++ b.1.1.map (colSpecOf env), bs)) := by
    funext acc b
    have hc : colSpecOf { env with prov := p } = colSpecOf env := funext (colSpecOf_prov env p)
    simp only [tablesOfFrom_prov, hc]
  simp only [this]

end SqlLineage.Flat
