/-
Frame lemmas for the column‑level operations (used by `Props/C13.lean`).

`Frame g g'` says that going from `g` to `g'` touched only column nodes and edges incident to a column node:

  * `tags`  — every tag of every non‑column node reads the same (a node that is absent reads `none` on both sides);
  * `nodes` — the non‑column nodes of `g` are still there, in the same order; anything new comes after them and was not a
              node of `g` (it can only be an owner named in a column's payload, and it carries no tag);
  * `edges` — an edge between two non‑column nodes is present in `g'` iff it is in `g`, with the same type.

Everything the table‑level views look at (`tagSet`, `stmtRead`, `stmtWrite`, `stmtDrop`, rename edges) is determined by
these three facts (`tagSet_eq_of_frame` …).
-/
import SqlLineage.Proofs.GraphLemmas
import SqlLineage.Model.HolderOps
import SqlLineage.Model.Assemble

namespace SqlLineage
open Graph

/-- the nodes that are not columns (datasets, subqueries, alias strings), in graph order -/
def nonColNodes (g : LGraph) : List Node := g.nodes.filter (fun n => !n.isCol)

structure Frame (g g' : LGraph) : Prop where
  tags : ∀ n t, n.isCol = false → g'.tag n t = g.tag n t
  nodes : ∃ extra, nonColNodes g' = nonColNodes g ++ extra ∧ ∀ n ∈ extra, n ∉ g.nodes
  edges : ∀ u v, u.isCol = false → v.isCol = false → (((u, v) ∈ g'.edges ↔ (u, v) ∈ g.edges) ∧ g'.ety u v = g.ety u v)

namespace Frame

theorem refl (g : LGraph) : Frame g g :=
  ⟨fun _ _ _ => rfl, ⟨[], by simp, by simp⟩, fun _ _ _ _ => ⟨Iff.rfl, rfl⟩⟩

theorem mem_nonCol {g : LGraph} {n : Node} : n ∈ nonColNodes g ↔ n ∈ g.nodes ∧ n.isCol = false := by
  simp [nonColNodes]

theorem trans {g g' g'' : LGraph} (h1 : Frame g g') (h2 : Frame g' g'') : Frame g g'' := by
  refine ⟨fun n t hn => (h2.tags n t hn).trans (h1.tags n t hn), ?_, ?_⟩
  · obtain ⟨e1, he1, hn1⟩ := h1.nodes
    obtain ⟨e2, he2, hn2⟩ := h2.nodes
    refine ⟨e1 ++ e2, by rw [he2, he1, List.append_assoc], ?_⟩
    intro n hn
    rcases List.mem_append.mp hn with h | h
    · exact hn1 n h
    · intro hg
      have hcol : n.isCol = false := by
        have : n ∈ nonColNodes g'' := by rw [he2]; exact List.mem_append.mpr (Or.inr h)
        exact (mem_nonCol.mp this).2
      have : n ∈ nonColNodes g' := by rw [he1]; exact List.mem_append.mpr (Or.inl (mem_nonCol.mpr ⟨hg, hcol⟩))
      exact hn2 n h (mem_nonCol.mp this).1
  · intro u v hu hv
    exact ⟨(h2.edges u v hu hv).1.trans (h1.edges u v hu hv).1, (h2.edges u v hu hv).2.trans (h1.edges u v hu hv).2⟩

/-- a fold of framed steps is framed -/
theorem foldl {α : Type} (f : LGraph → α → LGraph) (l : List α) (g : LGraph)
    (h : ∀ x ∈ l, ∀ g, Frame g (f g x)) : Frame g (l.foldl f g) := by
  induction l generalizing g with
  | nil => exact refl g
  | cons x r ih =>
    simp only [List.foldl_cons]
    exact trans (h x (by simp) g) (ih (f g x) (fun y hy g => h y (by simp [hy]) g))

end Frame

/-! ### the primitive steps -/

private theorem nonCol_addNode (g : LGraph) (n : Node) (p : Option Payload) :
    ∃ extra, nonColNodes (g.addNode n p) = nonColNodes g ++ extra ∧ ∀ m ∈ extra, m ∉ g.nodes := by
  unfold Graph.addNode
  by_cases h : g.hasNode n = true
  · simp only [h, if_true]; exact ⟨[], by simp, by simp⟩
  · have hn : n ∉ g.nodes := by simpa [hasNode] using h
    simp only [h, Bool.false_eq_true, if_false]
    by_cases hc : n.isCol = true
    · exact ⟨[], by simp [nonColNodes, List.filter_append, hc], by simp⟩
    · refine ⟨[n], by simp [nonColNodes, List.filter_append, hc], ?_⟩
      intro m hm; simp at hm; subst hm; exact hn

theorem Frame.addNode (g : LGraph) (n : Node) (p : Option Payload) : Frame g (g.addNode n p) := by
  refine ⟨fun m t _ => tag_addNode g n m p t, nonCol_addNode g n p, ?_⟩
  intro u v _ _
  exact ⟨by rw [edges_addNode], ety_addNode g n u v p⟩

/-- adding (or re‑typing, re‑indexing) an edge with at least one column endpoint -/
theorem Frame.addEdge (g : LGraph) (u v : Node) (ty : EType) (i : Option Nat) (pu pv : Option Payload)
    (h : u.isCol = true ∨ v.isCol = true) : Frame g (g.addEdge u v ty i pu pv) := by
  refine ⟨fun m t _ => tag_addEdge g u v m ty i pu pv t, ?_, ?_⟩
  · -- nodes: those of `(g.addNode u).addNode v`
    have hN : (g.addEdge u v ty i pu pv).nodes = ((g.addNode u pu).addNode v pv).nodes := by
      unfold Graph.addEdge; simp only; split <;> rfl
    have h12 := Frame.trans (Frame.addNode g u pu) (Frame.addNode (g.addNode u pu) v pv)
    obtain ⟨extra, he, hn⟩ := h12.nodes
    exact ⟨extra, by simpa [nonColNodes, hN] using he, hn⟩
  · intro a b ha hb
    have hne : ¬(a = u ∧ b = v) := by
      rintro ⟨rfl, rfl⟩
      rcases h with h | h
      · rw [h] at ha; cases ha
      · rw [h] at hb; cases hb
    refine ⟨?_, ?_⟩
    · rw [mem_edges_addEdge]
      constructor
      · rintro (x | x)
        · exact x
        · exact absurd (by simpa using x) hne
      · exact Or.inl
    · rw [ety_addEdge, if_neg hne]

theorem ety_removeNode (g : LGraph) (n a b : Node) (ha : a ≠ n) (hb : b ≠ n) :
    (g.removeNode n).ety a b = g.ety a b := by
  simp [Graph.ety, Graph.hasEdge, Graph.removeNode, ha, hb]

/-- removing a column node -/
theorem Frame.removeNode (g : LGraph) (n : Node) (h : n.isCol = true) : Frame g (g.removeNode n) := by
  have hne : ∀ m : Node, m.isCol = false → m ≠ n := by
    intro m hm e; subst e; rw [h] at hm; cases hm
  refine ⟨fun m t hm => tag_removeNode_ne g n m t (hne m hm), ⟨[], ?_, by simp⟩, ?_⟩
  · simp only [nonColNodes, Graph.removeNode, List.filter_filter, List.append_nil]
    apply List.filter_congr
    intro m _
    by_cases hm : m.isCol = true
    · simp [hm]
    · have : m ≠ n := hne m (by simpa using hm)
      simp [hm, this]
  · intro a b ha hb
    refine ⟨?_, ety_removeNode g n a b (hne a ha) (hne b hb)⟩
    rw [mem_edges_removeNode]
    exact ⟨fun x => x.1, fun x => ⟨x, hne a ha, hne b hb⟩⟩

/-- removing an edge with at least one column endpoint -/
theorem Frame.removeEdge (g g' : LGraph) (u v : Node) (h : u.isCol = true ∨ v.isCol = true)
    (hr : g.removeEdge? u v = some g') : Frame g g' := by
  unfold Graph.removeEdge? at hr
  split at hr
  · cases hr
    refine ⟨fun m t _ => rfl, ⟨[], by simp [nonColNodes], by simp⟩, ?_⟩
    intro a b ha hb
    have hne : (a, b) ≠ (u, v) := by
      intro e
      have e1 : a = u := congrArg Prod.fst e
      have e2 : b = v := congrArg Prod.snd e
      subst e1; subst e2
      rcases h with h | h
      · rw [h] at ha; cases ha
      · rw [h] at hb; cases hb
    have hmem : (a, b) ∈ g.edges.filter (· ≠ (u, v)) ↔ (a, b) ∈ g.edges := by
      simp [hne]
    refine ⟨hmem, ?_⟩
    simp only [Graph.ety, Graph.hasEdge, List.contains_iff_mem]
    have hab : a = u → ¬b = v := fun e1 e2 => hne (by rw [e1, e2])
    by_cases he : (a, b) ∈ g.edges
    · simpa [he] using hab
    · simp [he]
  · cases hr

/-! ### successor lists -/

namespace Graph
variable {ν π : Type} [DecidableEq ν]

theorem edges_addEdge (g : Graph ν π) (u v : ν) (ty : EType) (i : Option Nat) (pu pv : Option π) :
    (g.addEdge u v ty i pu pv).edges = if (u, v) ∈ g.edges then g.edges else g.edges ++ [(u, v)] := by
  unfold addEdge
  simp only
  by_cases h : (u, v) ∈ g.edges
  · have : ((g.addNode u pu).addNode v pv).hasEdge u v = true := by simpa [hasEdge] using h
    simp [this, h]
  · have : ((g.addNode u pu).addNode v pv).hasEdge u v = false := by simpa [hasEdge] using h
    simp [this, h]

/-- the successor list after `add_edge`: a new target is appended to its source's list -/
theorem outEdges_addEdge (g : Graph ν π) (u v a : ν) (ty : EType) (i : Option Nat) (pu pv : Option π) :
    (g.addEdge u v ty i pu pv).outEdges a =
      if a = u ∧ v ∉ g.outEdges u then g.outEdges a ++ [v] else g.outEdges a := by
  simp only [outEdges, edges_addEdge]
  by_cases h : (u, v) ∈ g.edges
  · have hv : v ∈ g.outEdges u := (mem_outEdges g u v).mpr h
    simp only [outEdges] at hv
    simp [h, hv]
  · have hv : v ∉ g.outEdges u := fun x => h ((mem_outEdges g u v).mp x)
    simp only [outEdges] at hv
    by_cases ha : a = u
    · subst ha; simp [h, hv, List.filter_append]
    · have : ¬ u = a := fun e => ha e.symm
      simp [h, ha, this, List.filter_append]

theorem outEdges_removeNode (g : Graph ν π) (n a : ν) (ha : a ≠ n) :
    (g.removeNode n).outEdges a = (g.outEdges a).filter (· ≠ n) := by
  simp only [outEdges, removeNode, List.filter_filter, List.filter_map]
  congr 1
  apply List.filter_congr
  intro e _
  by_cases h1 : e.1 = a
  · have : e.1 ≠ n := by rw [h1]; exact ha
    simp [h1, ha, Function.comp]
  · simp [h1]

end Graph

/-- composing a fixed holder with two framed holders gives framed results (`holder |= sub_holder`) -/
theorem Frame.compose (g : LGraph) {h h' : LGraph} (f : Frame h h') : Frame (g.compose h) (g.compose h') := by
  refine ⟨?_, ?_, ?_⟩
  · intro n t hn
    rw [tag_compose, tag_compose, f.tags n t hn]
  · obtain ⟨extra, he, hx⟩ := f.nodes
    have key : ∀ (H : LGraph), nonColNodes (g.compose H) = nonColNodes g ++ (nonColNodes H).filter (fun n => !g.hasNode n) := by
      intro H
      simp only [nonColNodes, Graph.compose, List.filter_append, List.filter_filter]
      congr 1
      apply List.filter_congr
      intro n _
      exact Bool.and_comm _ _
    refine ⟨extra.filter (fun n => !g.hasNode n), ?_, ?_⟩
    · rw [key h', key h, he, List.filter_append, List.append_assoc]
    · intro n hn
      have hn' := List.mem_filter.mp hn
      rw [mem_nodes_compose]
      rintro (a | a)
      · simp [hasNode, a] at hn'
      · exact hx n hn'.1 a
  · intro u v hu hv
    have e1 := f.edges u v hu hv
    refine ⟨?_, ?_⟩
    · rw [mem_edges_compose, mem_edges_compose, e1.1]
    · have hh : h'.hasEdge u v = h.hasEdge u v := by
        have := e1.1
        simp only [hasEdge]
        by_cases x : (u, v) ∈ h.edges
        · simp [x, this.mpr x]
        · simp [x, mt this.mp x]
      have hty := e1.2
      simp only [Graph.ety, hh] at hty
      simp only [Graph.ety, Graph.compose, hasEdge, List.contains_iff_mem, List.mem_append, List.mem_filter]
      have hE : ((u, v) ∈ g.edges ∨ (u, v) ∈ h'.edges ∧ (!decide ((u, v) ∈ g.edges)) = true) ↔
          ((u, v) ∈ g.edges ∨ (u, v) ∈ h.edges ∧ (!decide ((u, v) ∈ g.edges)) = true) := by rw [e1.1]
      by_cases x : (u, v) ∈ h.edges
      · have x' := e1.1.mpr x
        have hx : h.hasEdge u v = true := by simpa [hasEdge] using x
        rw [hx] at hty
        simp only [if_true, Option.some.injEq] at hty
        simp [x, x', hty]
      · have x' := mt e1.1.mp x
        simp [x, x']

/-! ### what the frame preserves -/

private theorem filterMap_dsOf_nonCol (P : Node → Bool) (l : List Node) :
    (l.filter P).filterMap Holder.dsOf = ((l.filter (fun n => !n.isCol)).filter P).filterMap Holder.dsOf := by
  induction l with
  | nil => rfl
  | cons n r ih =>
    by_cases hc : n.isCol = true
    · have e2 : (n :: r).filter (fun n => !n.isCol) = r.filter (fun n => !n.isCol) := by simp [hc]
      have hd : Holder.dsOf n = none := by cases n <;> simp_all [Node.isCol, Holder.dsOf]
      rw [e2, ← ih]
      by_cases hP : P n = true
      · rw [List.filter_cons_of_pos hP, List.filterMap_cons, hd]
      · rw [List.filter_cons_of_neg hP]
    · have e2 : (n :: r).filter (fun n => !n.isCol) = n :: r.filter (fun n => !n.isCol) := by simp [hc]
      rw [e2]
      by_cases hP : P n = true
      · rw [List.filter_cons_of_pos hP, List.filter_cons_of_pos hP, List.filterMap_cons, List.filterMap_cons, ih]
      · rw [List.filter_cons_of_neg hP, List.filter_cons_of_neg hP, ih]

open Holder in
/-- the dataset nodes carrying a tag, in order — `holder.read`, `.write`, `.cte`, … -/
theorem tagSet_eq_of_frame {g g' : LGraph} (h : Frame g g') (t : Tag) : tagSet g' t = tagSet g t := by
  have key : ∀ (G : LGraph), tagSet G t = ((nonColNodes G).filter (fun n => G.tag n t == some true)).filterMap dsOf := by
    intro G
    exact filterMap_dsOf_nonCol _ _
  obtain ⟨extra, he, hn⟩ := h.nodes
  rw [key g', key g, he, List.filter_append, List.filterMap_append]
  have h1 : (nonColNodes g).filter (fun n => g'.tag n t == some true) =
      (nonColNodes g).filter (fun n => g.tag n t == some true) := by
    apply List.filter_congr
    intro n hn'
    rw [h.tags n t (Frame.mem_nonCol.mp hn').2]
  have h2 : extra.filter (fun n => g'.tag n t == some true) = [] := by
    rw [List.filter_eq_nil_iff]
    intro n hn'
    have hcol : n.isCol = false := by
      have : n ∈ nonColNodes g' := by rw [he]; exact List.mem_append.mpr (Or.inr hn')
      exact (Frame.mem_nonCol.mp this).2
    rw [h.tags n t hcol, tag_of_not_mem g n t (hn n hn')]
    simp
  rw [h1, h2]; simp

open Assemble in
/-- `StatementLineageHolder.read / .write / .drop` restricted to datasets -/
theorem tagged_ds_eq_of_frame {g g' : LGraph} (h : Frame g g') (t : Tag) :
    (tagged g' t).filter Node.isDataset = (tagged g t).filter Node.isDataset := by
  have key : ∀ (G : LGraph), (tagged G t).filter Node.isDataset =
      ((nonColNodes G).filter (fun n => G.tag n t == some true)).filter Node.isDataset := by
    intro G
    simp only [tagged, nonColNodes, List.filter_filter]
    apply List.filter_congr
    intro n _
    cases n <;> simp [Node.isDataset, Node.isCol]
  obtain ⟨extra, he, hn⟩ := h.nodes
  rw [key g', key g, he, List.filter_append, List.filter_append]
  have h1 : (nonColNodes g).filter (fun n => g'.tag n t == some true) =
      (nonColNodes g).filter (fun n => g.tag n t == some true) := by
    apply List.filter_congr
    intro n hn'
    rw [h.tags n t (Frame.mem_nonCol.mp hn').2]
  have h2 : extra.filter (fun n => g'.tag n t == some true) = [] := by
    rw [List.filter_eq_nil_iff]
    intro n hn'
    have hcol : n.isCol = false := by
      have : n ∈ nonColNodes g' := by rw [he]; exact List.mem_append.mpr (Or.inr hn')
      exact (Frame.mem_nonCol.mp this).2
    rw [h.tags n t hcol, tag_of_not_mem g n t (hn n hn')]
    simp
  rw [h1, h2]; simp

theorem stmtRead_eq_of_frame {g g' : LGraph} (h : Frame g g') : Assemble.stmtRead g' = Assemble.stmtRead g :=
  tagged_ds_eq_of_frame h .read

theorem stmtWrite_eq_of_frame {g g' : LGraph} (h : Frame g g') : Assemble.stmtWrite g' = Assemble.stmtWrite g :=
  tagged_ds_eq_of_frame h .write


/-! ### holder operations on the INSERT / CTAS target (shared by `Props/C13.lean` and `Props/C14.lean`) -/

namespace TargetFrame
open Holder

theorem key_isCol (c : Column) : c.key.isCol = true := rfl

/-- `add_write_column(*cols)` touches only column nodes / column edges -/
theorem addWriteColumns_frame (g : LGraph) (cols : List Column) : Frame g (addWriteColumns g cols) := by
  unfold addWriteColumns
  cases (writeSet g).head? with
  | none => exact Frame.refl g
  | some t =>
    apply Frame.foldl
    intro ci _ g'
    exact Frame.addEdge _ _ _ _ _ _ _ (Or.inr (key_isCol _))

theorem frame_ite_removeNode (g : LGraph) (n : Node) (h : n.isCol = true) :
    Frame g (if g.hasNode n then g.removeNode n else g) := by
  split
  · exact Frame.removeNode _ _ h
  · exact Frame.refl _

theorem mem_insertByIdx (x y : Node × Nat) : ∀ acc, y ∈ insertByIdx x acc → y = x ∨ y ∈ acc
  | [], h => by simpa [insertByIdx] using h
  | z :: r, h => by
    simp only [insertByIdx] at h
    split at h
    · simpa using h
    · rcases List.mem_cons.mp h with h | h
      · exact Or.inr (by simp [h])
      · rcases mem_insertByIdx x y r h with h | h
        · exact Or.inl h
        · exact Or.inr (by simp [h])

theorem mem_sortByIdx (l : List (Node × Nat)) (y : Node × Nat) (h : y ∈ sortByIdx l) : y ∈ l := by
  have gen : ∀ (l acc : List (Node × Nat)), y ∈ l.foldl (fun acc x => insertByIdx x acc) acc → y ∈ acc ∨ y ∈ l := by
    intro l
    induction l with
    | nil => intro acc h; exact Or.inl h
    | cons x r ih =>
      intro acc h
      rcases ih _ h with h | h
      · rcases mem_insertByIdx x y acc h with h | h
        · exact Or.inr (by simp [h])
        · exact Or.inl h
      · exact Or.inr (by simp [h])
  rcases gen l [] h with h | h
  · cases h
  · exact h

/-- when every edge of the holder ends in a column node, the write columns are column nodes -/
theorem writeColumns_isCol (g : LGraph) (hE : ∀ e ∈ g.edges, e.2.isCol = true) :
    ∀ k ∈ writeColumns g, k.isCol = true := by
  intro k hk
  unfold writeColumns at hk
  split at hk
  · cases hk
  · rename_i t _
    obtain ⟨⟨k', i⟩, hm, rfl⟩ := List.mem_map.mp hk
    have hm' := mem_sortByIdx _ _ hm
    obtain ⟨c, hc, hci⟩ := List.mem_map.mp hm'
    have hck : c = k' := congrArg Prod.fst hci
    subst hck
    have hout := (List.mem_filter.mp hc).1
    exact hE (.ds t, c) ((mem_outEdges g _ _).mp hout)

theorem edgesToCols_addWriteColumns (g : LGraph) (cols : List Column) (hE : ∀ e ∈ g.edges, e.2.isCol = true) :
    ∀ e ∈ (addWriteColumns g cols).edges, e.2.isCol = true := by
  unfold addWriteColumns
  cases (writeSet g).head? with
  | none => exact hE
  | some t =>
    have gen : ∀ (tp : DS × String) (l : List (Column × Nat)) (G : LGraph), (∀ e ∈ G.edges, e.2.isCol = true) →
        ∀ e ∈ (l.foldl (fun g ci => g.addEdge (.ds t) (ci.1.addParent tp).key .hasColumn (some ci.2) none
          (some (.col (ci.1.addParent tp)))) G).edges, e.2.isCol = true := by
      intro tp l
      induction l with
      | nil => intro G hG; exact hG
      | cons ci r ih =>
        intro G hG
        simp only [List.foldl_cons]
        apply ih
        intro e he
        rcases (mem_edges_addEdge _ _ _ _ _ _ _ _).mp he with h | h
        · exact hG e h
        · rw [h]; rfl
    exact gen _ _ g hE

/-- the target holder of an INSERT (provider's columns, then — repaired code — removal of the write columns and the
    explicit list), written out so that it matches `InsertCols.targetHolder` and, after `patches/Stmt-D8.patch`,
    `Walk.writeTargetHolder`: whatever the provider says, only column nodes and column edges are added to the bare target -/
theorem target_frame {α : Type} (g0 : LGraph) (hE : g0.edges = []) (b : Bool) (provCols : List Column)
    (f : α → List Column) (cs : Option α) :
    Frame g0 (match cs with
      | some c => addWriteColumns ((writeColumns (if b then addWriteColumns g0 provCols else g0)).foldl
          (fun g n => if g.hasNode n then g.removeNode n else g) (if b then addWriteColumns g0 provCols else g0)) (f c)
      | none => (if b then addWriteColumns g0 provCols else g0)) := by
  have f1 : Frame g0 (if b then addWriteColumns g0 provCols else g0) := by
    split
    · exact addWriteColumns_frame g0 provCols
    · exact Frame.refl g0
  have e1 : ∀ e ∈ (if b then addWriteColumns g0 provCols else g0).edges, e.2.isCol = true := by
    split
    · exact edgesToCols_addWriteColumns g0 provCols (by simp [hE])
    · simp [hE]
  cases cs with
  | none => exact f1
  | some c =>
    refine Frame.trans (Frame.trans f1 ?_) (addWriteColumns_frame _ (f c))
    apply Frame.foldl
    intro n hn g
    exact frame_ite_removeNode g n (writeColumns_isCol _ e1 n hn)


end TargetFrame

end SqlLineage
