/-
Two‑statement scripts: when neither statement is a DROP/RENAME and no column has several owner candidates (`NoMulti`, the
`Resolved` hypothesis of C04), `Assemble.build prov [h₁, h₂]` succeeds and its combined graph has the same nodes and the same
column‑sourced edges as `h₁.compose h₂`; hence the same reported column paths.  (Between the two lie: tagging, table‑level
LINEAGE edges, the — here empty — repair loop and orphan removal.)
-/
import SqlLineage.Proofs.BuildLemmas
import SqlLineage.Proofs.AStmtLemmas

namespace SqlLineage.Paths
open SqlLineage Graph Assemble

/-- no node carries a column object with more than one owner candidate -/
def NoMulti (g : LGraph) : Prop := ∀ n, (cands g n).length ≤ 1

/-- the statement is neither DROP nor RENAME -/
def PlainStmt (h : LGraph) : Prop := stmtDrop h = [] ∧ stmtRename h = []

instance (h : LGraph) : Decidable (PlainStmt h) := by unfold PlainStmt; exact inferInstance

theorem noMulti_iff (g : LGraph) : NoMulti g ↔ ∀ n ∈ g.nodes, (cands g n).length ≤ 1 := by
  constructor
  · intro h n _; exact h n
  · intro h n
    by_cases hn : n ∈ g.nodes
    · exact h n hn
    · simp [cands, payload, hasNode, hn]

theorem payload_setTags (g : LGraph) (ns : List Node) (t : Tag) (b : Bool) (n : Node) :
    (g.setTags ns t b).payload n = g.payload n := rfl

theorem payload_addNode_none (g : LGraph) (n m : Node) :
    (g.addNode n none).payload m = none ∨ (g.addNode n none).payload m = g.payload m := by
  unfold addNode
  by_cases hn : g.hasNode n = true
  · simp [hn]
  · simp only [hn, Bool.false_eq_true, if_false]
    by_cases hm : m = n
    · subst hm; left; simp [payload, hasNode]
    · right
      simp [payload, hasNode, hm]

theorem payload_addEdge_none (g : LGraph) (u v m : Node) (ty : EType) :
    (g.addEdge u v ty).payload m = none ∨ (g.addEdge u v ty).payload m = g.payload m := by
  have h : (g.addEdge u v ty).payload m = ((g.addNode u none).addNode v none).payload m := by
    unfold addEdge; simp only; split <;> rfl
  rw [h]
  rcases payload_addNode_none (g.addNode u none) v m with h1 | h1
  · exact Or.inl h1
  · rw [h1]; exact payload_addNode_none g u m

theorem cands_of_payload_eq {g g' : LGraph} {n : Node} (h : g'.payload n = none ∨ g'.payload n = g.payload n) :
    cands g' n = [] ∨ cands g' n = cands g n := by
  rcases h with h | h
  · left; simp [cands, h]
  · right; simp [cands, h]

theorem noMulti_of_payload {g g' : LGraph} (hg : NoMulti g) (h : ∀ n, g'.payload n = none ∨ g'.payload n = g.payload n) :
    NoMulti g' := by
  intro n
  rcases cands_of_payload_eq (h n) with h1 | h1
  · rw [h1]; simp
  · rw [h1]; exact hg n

theorem noMulti_empty : NoMulti (Graph.empty : LGraph) := by
  intro n; simp [cands, payload, hasNode, Graph.empty]

theorem payload_compose (g h : LGraph) (n : Node) :
    (g.compose h).payload n = g.payload n ∨ (g.compose h).payload n = h.payload n := by
  by_cases hn : n ∈ g.nodes
  · left
    simp [payload, hasNode, compose, hn]
  · by_cases hn2 : n ∈ h.nodes
    · right
      simp [payload, hasNode, compose, hn, hn2]
    · left
      simp [payload, hasNode, compose, hn, hn2]

theorem noMulti_compose (g h : LGraph) (hg : NoMulti g) (hh : NoMulti h) : NoMulti (g.compose h) := by
  intro n
  rcases payload_compose g h n with h1 | h1
  · have : cands (g.compose h) n = cands g n := by simp [cands, h1]
    rw [this]; exact hg n
  · have : cands (g.compose h) n = cands h n := by simp [cands, h1]
    rw [this]; exact hh n

theorem noMulti_rwStep (g : LGraph) (rd wr : List Node) (hg : NoMulti g) : NoMulti (rwStep g rd wr) := by
  unfold rwStep
  split
  · exact noMulti_of_payload hg (fun n => Or.inr (payload_setTags ..))
  · split
    · exact noMulti_of_payload hg (fun n => Or.inr (payload_setTags ..))
    · exact foldl_preserves NoMulti _ (fun g e hg => noMulti_of_payload hg (fun n => payload_addEdge_none g e.1 e.2 n .lineage)) _ g hg

/-- one fold step on a plain statement is the read/write branch -/
theorem foldStep_plain (ord : List (Node × Node) → List (Node × Node)) (g h : LGraph) (hp : PlainStmt h) :
    foldStep ord g h = .ok (rwStep (g.compose h) (stmtRead h) (stmtWrite h)) := by
  simp [foldStep, hp.1, hp.2]

theorem mem_tagged_nodes (h : LGraph) (t : Tag) (n : Node) (hn : n ∈ tagged h t) : n ∈ h.nodes := by
  simp only [tagged, List.mem_filter] at hn; exact hn.1

/-- nodes and column‑sourced edges of the read/write step -/
theorem rwStep_nodes' (g h : LGraph) (n : Node) :
    n ∈ (rwStep (g.compose h) (stmtRead h) (stmtWrite h)).nodes ↔ n ∈ (g.compose h).nodes := by
  apply AStmt.rwStep_nodes
  · intro m hm
    simp only [stmtRead, List.mem_filter] at hm
    exact (mem_nodes_compose ..).mpr (Or.inr (mem_tagged_nodes h _ m hm.1))
  · intro m hm
    simp only [stmtWrite, List.mem_filter] at hm
    exact (mem_nodes_compose ..).mpr (Or.inr (mem_tagged_nodes h _ m hm.1))

theorem rwStep_col_edges (g h : LGraph) (u v : Node) (hu : u.isCol = true) :
    (u, v) ∈ (rwStep (g.compose h) (stmtRead h) (stmtWrite h)).edges ↔ (u, v) ∈ (g.compose h).edges := by
  rw [AStmt.rwStep_edges]
  constructor
  · rintro (h1 | ⟨h1, _⟩)
    · exact h1
    · have := isCol_false_of_isDataset u (mem_stmtRead_isDataset h u h1)
      rw [hu] at this; cases this
  · exact Or.inl

/-- the graph `build` returns for two plain statements without multi‑candidate columns, in closed form -/
def two (h₁ h₂ : LGraph) : LGraph :=
  tagSelfloops (rwStep ((rwStep ((Graph.empty : LGraph).compose h₁) (stmtRead h₁) (stmtWrite h₁)).compose h₂)
    (stmtRead h₂) (stmtWrite h₂))

theorem noMulti_two (h₁ h₂ : LGraph) (n₁ : NoMulti h₁) (n₂ : NoMulti h₂) : NoMulti (two h₁ h₂) := by
  unfold two
  apply noMulti_of_payload (g := rwStep ((rwStep ((Graph.empty : LGraph).compose h₁) (stmtRead h₁) (stmtWrite h₁)).compose h₂)
    (stmtRead h₂) (stmtWrite h₂))
  · exact noMulti_rwStep _ _ _ (noMulti_compose _ _ (noMulti_rwStep _ _ _ (noMulti_compose _ _ noMulti_empty n₁)) n₂)
  · intro n; exact Or.inr (payload_setTags ..)

theorem unresolved_nil_of_noMulti (g : LGraph) (h : NoMulti g) : unresolved g = [] := by
  unfold unresolved
  apply List.filter_eq_nil_iff.mpr
  intro e _
  have := h e.1
  simp only [Bool.and_eq_true, decide_eq_true_eq, not_and]
  intro _; omega

theorem removeOrphans_of_noMulti (g : LGraph) (h : NoMulti g) : removeOrphans g = g := by
  unfold removeOrphans
  have : g.nodes.filter (fun n => g.degree n == 0 && n.isCol && decide ((cands g n).length > 1)) = [] := by
    apply List.filter_eq_nil_iff.mpr
    intro n _
    have := h n
    simp only [Bool.and_eq_true, decide_eq_true_eq, not_and]
    intro _ _; omega
  rw [this]; rfl

/-- BUILD OF TWO PLAIN, RESOLVED STATEMENTS succeeds and is `two h₁ h₂` -/
theorem build_two (prov : Prov) (h₁ h₂ : LGraph) (p₁ : PlainStmt h₁) (p₂ : PlainStmt h₂) (n₁ : NoMulti h₁) (n₂ : NoMulti h₂) :
    build prov [h₁, h₂] = .ok (two h₁ h₂) := by
  have hn := noMulti_two h₁ h₂ n₁ n₂
  unfold two at hn
  simp only [build, buildWith, foldAll, foldStep_plain _ _ _ p₁, foldStep_plain _ _ _ p₂,
    unresolved_nil_of_noMulti _ hn, resolveAll, removeOrphans_of_noMulti _ hn]
  rfl

theorem two_nodes (h₁ h₂ : LGraph) (n : Node) : n ∈ (two h₁ h₂).nodes ↔ n ∈ (h₁.compose h₂).nodes := by
  unfold two
  show n ∈ (rwStep _ _ _).nodes ↔ _
  rw [rwStep_nodes', mem_nodes_compose, rwStep_nodes', mem_nodes_compose, mem_nodes_compose]
  simp

theorem two_col_edges (h₁ h₂ : LGraph) (u v : Node) (hu : u.isCol = true) :
    (u, v) ∈ (two h₁ h₂).edges ↔ (u, v) ∈ (h₁.compose h₂).edges := by
  unfold two
  show (u, v) ∈ (rwStep _ _ _).edges ↔ _
  rw [rwStep_col_edges _ _ u v hu, mem_edges_compose, rwStep_col_edges _ _ u v hu, mem_edges_compose, mem_edges_compose]
  simp

/-! ### reported paths depend only on the nodes and the column‑sourced edges -/

theorem isChain_congr {g g' : LGraph} (hcl : ∀ u v, (u, v) ∈ g.edges → u.isCol = true → v.isCol = true)
    (he : ∀ u v, u.isCol = true → ((u, v) ∈ g.edges ↔ (u, v) ∈ g'.edges)) :
    ∀ (p : List Node), (∀ a, p.head? = some a → a.isCol = true) → IsChain g p → IsChain g' p
  | [], _, _ => trivial
  | [_], _, _ => trivial
  | a :: b :: r, hh, hc => by
    have ha := hh a rfl
    refine ⟨(he a b ha).mp hc.1, isChain_congr hcl he (b :: r) ?_ hc.2⟩
    intro x hx
    simp only [List.head?_cons, Option.some.injEq] at hx
    subst hx; exact hcl a _ hc.1 ha

/-- two well‑formed graphs with the same nodes and the same column‑sourced edges (whose targets are columns) report the same
    column paths -/
theorem columnLineage_congr (g g' : LGraph) (hw : WF g) (hw' : WF g')
    (hcl : ∀ u v, (u, v) ∈ g.edges → u.isCol = true → v.isCol = true)
    (hn : ∀ n, n ∈ g.nodes ↔ n ∈ g'.nodes)
    (he : ∀ u v, u.isCol = true → ((u, v) ∈ g.edges ↔ (u, v) ∈ g'.edges)) (p : List Node) :
    p ∈ columnLineage g ↔ p ∈ columnLineage g' := by
  have hcl' : ∀ u v, (u, v) ∈ g'.edges → u.isCol = true → v.isCol = true :=
    fun u v h hu => hcl u v ((he u v hu).mpr h) hu
  have he' : ∀ u v, u.isCol = true → ((u, v) ∈ g'.edges ↔ (u, v) ∈ g.edges) := fun u v hu => (he u v hu).symm
  have hroots : ∀ a, a ∈ roots g ↔ a ∈ roots g' := by
    intro a
    rw [mem_roots, mem_roots, hn]
    constructor
    · rintro ⟨h1, h2, h3⟩
      refine ⟨h1, h2, fun u hu => ?_⟩
      cases huc : u.isCol with
      | false => rfl
      | true => have := h3 u ((he u a huc).mpr hu); rw [huc] at this; cases this
    · rintro ⟨h1, h2, h3⟩
      refine ⟨h1, h2, fun u hu => ?_⟩
      cases huc : u.isCol with
      | false => rfl
      | true => have := h3 u ((he u a huc).mp hu); rw [huc] at this; cases this
  have hleaves : ∀ b, b ∈ leaves g ↔ b ∈ leaves g' := by
    intro b
    rw [mem_leaves, mem_leaves, hn]
    constructor
    · rintro ⟨h1, h2, h3, h4⟩
      exact ⟨h1, h2, fun v hv => h3 v ((he b v h2).mpr hv), h4⟩
    · rintro ⟨h1, h2, h3, h4⟩
      exact ⟨h1, h2, fun v hv => h3 v ((he b v h2).mp hv), h4⟩
  -- both directions through the exact characterisation
  have key : ∀ (g g' : LGraph), WF g → WF g' → (∀ u v, (u, v) ∈ g.edges → u.isCol = true → v.isCol = true) →
      (∀ u v, u.isCol = true → ((u, v) ∈ g.edges ↔ (u, v) ∈ g'.edges)) → (∀ a, a ∈ roots g ↔ a ∈ roots g') →
      (∀ b, b ∈ leaves g ↔ b ∈ leaves g') → p ∈ columnLineage g → p ∈ columnLineage g' := by
    intro g g' hw hw' hcl he hr hl hp
    obtain ⟨s, hs, t, ht, hsp, hlen⟩ := (mem_columnLineage g p).mp hp
    obtain ⟨h1, h2, h3, h4⟩ := simplePaths_sound g s t p hsp
    have hsc := ((mem_roots g s).mp hs).2.1
    have hc' : IsChain g' p := isChain_congr hcl he p (fun a ha => by rw [h1] at ha; cases ha; exact hsc) h3
    exact (mem_columnLineage g' p).mpr ⟨s, (hr s).mp hs, t, (hl t).mp ht,
      simplePaths_complete g' hw' s t p ((mem_roots g' s).mp ((hr s).mp hs)).1 h1 h2 hc' h4, hlen⟩
  exact ⟨key g g' hw hw' hcl he hroots hleaves,
    key g' g hw' hw hcl' he' (fun a => (hroots a).symm) (fun b => (hleaves b).symm)⟩

end SqlLineage.Paths
