/-
Facts about the statement holders of abstract statements (`AStmt.holderOf`) and about one step of the assembler's
fold on them.  Used by `Props/C03.lean`.
-/
import SqlLineage.Model.AStmt
import SqlLineage.Proofs.GraphLemmas

namespace SqlLineage.AStmt
open SqlLineage Graph Holder Assemble

theorem tn_inj {a b : String} (h : tn a = tn b) : a = b := by
  simp only [tn, tbl, Node.ds.injEq, DS.table.injEq, true_and] at h; exact h

@[simp] theorem tn_ne_str (a b : String) : tn a ≠ Node.str b := by simp [tn]
@[simp] theorem str_ne_tn (a b : String) : Node.str b ≠ tn a := by simp [tn]
@[simp] theorem tn_isDataset (a : String) : (tn a).isDataset = true := by simp [tn, tbl, Node.isDataset, DS.isDataset]
@[simp] theorem tn_isCol (a : String) : (tn a).isCol = false := by simp [tn, Node.isCol]

/-- the read part of a holder, from an arbitrary start graph -/
def readsFrom (g0 : LGraph) (R : List String) : LGraph :=
  R.foldl (fun g r => addRead g (tbl r) (some r)) g0

theorem addRead_nodes (g : LGraph) (r : String) (n : Node) :
    n ∈ (addRead g (tbl r) (some r)).nodes ↔ n ∈ g.nodes ∨ n = tn r ∨ n = .str r := by
  simp only [addRead, mem_nodes_addEdge, mem_nodes_setTag, tn]
  constructor
  · rintro ((a | a) | a | a)
    · exact Or.inl a
    · exact Or.inr (Or.inl a)
    · exact Or.inr (Or.inl a)
    · exact Or.inr (Or.inr a)
  · rintro (a | a | a)
    · exact Or.inl (Or.inl a)
    · exact Or.inr (Or.inl a)
    · exact Or.inr (Or.inr a)

theorem addRead_edges (g : LGraph) (r : String) (e : Node × Node) :
    e ∈ (addRead g (tbl r) (some r)).edges ↔ e ∈ g.edges ∨ e = (tn r, .str r) := by
  simp only [addRead, mem_edges_addEdge, edges_setTag, tn]

theorem addRead_tag (g : LGraph) (r : String) (n : Node) (t : Tag) :
    (addRead g (tbl r) (some r)).tag n t = if n = tn r ∧ t = .read then some true else g.tag n t := by
  simp only [addRead, tag_addEdge, tag_setTag, tn]
  by_cases h : n = Node.ds (tbl r) ∧ t = Tag.read <;> simp [h]

theorem addRead_ety (g : LGraph) (r : String) (a b : Node) :
    (addRead g (tbl r) (some r)).ety a b = if a = tn r ∧ b = .str r then some .hasAlias else g.ety a b := by
  simp only [addRead, ety_addEdge, ety_setTag, tn]
  by_cases h : a = Node.ds (tbl r) ∧ b = Node.str r <;> simp [h]

theorem readsFrom_nodes (R : List String) (g0 : LGraph) (n : Node) :
    n ∈ (readsFrom g0 R).nodes ↔ n ∈ g0.nodes ∨ ∃ r ∈ R, n = tn r ∨ n = .str r := by
  induction R generalizing g0 with
  | nil => simp [readsFrom]
  | cons r rs ih =>
    simp only [readsFrom, List.foldl_cons] at ih ⊢
    rw [ih, addRead_nodes]
    simp only [List.mem_cons, exists_eq_or_imp]
    constructor
    · rintro ((a | a) | a)
      · exact Or.inl a
      · exact Or.inr (Or.inl a)
      · exact Or.inr (Or.inr a)
    · rintro (a | a | a)
      · exact Or.inl (Or.inl a)
      · exact Or.inl (Or.inr a)
      · exact Or.inr a

theorem readsFrom_edges (R : List String) (g0 : LGraph) (e : Node × Node) :
    e ∈ (readsFrom g0 R).edges ↔ e ∈ g0.edges ∨ ∃ r ∈ R, e = (tn r, .str r) := by
  induction R generalizing g0 with
  | nil => simp [readsFrom]
  | cons r rs ih =>
    simp only [readsFrom, List.foldl_cons] at ih ⊢
    rw [ih, addRead_edges]
    simp only [List.mem_cons, exists_eq_or_imp]
    constructor
    · rintro ((a | a) | a)
      · exact Or.inl a
      · exact Or.inr (Or.inl a)
      · exact Or.inr (Or.inr a)
    · rintro (a | a | a)
      · exact Or.inl (Or.inl a)
      · exact Or.inl (Or.inr a)
      · exact Or.inr a

theorem readsFrom_tag_read (R : List String) (g0 : LGraph) (n : Node) :
    (readsFrom g0 R).tag n .read = some true ↔ g0.tag n .read = some true ∨ ∃ r ∈ R, n = tn r := by
  induction R generalizing g0 with
  | nil => simp [readsFrom]
  | cons r rs ih =>
    simp only [readsFrom, List.foldl_cons] at ih ⊢
    rw [ih, addRead_tag]
    simp only [List.mem_cons, exists_eq_or_imp, and_true]
    by_cases h : n = tn r
    · simp [h]
    · simp [h]

theorem readsFrom_tag_other (R : List String) (g0 : LGraph) (n : Node) (t : Tag) (ht : t ≠ .read) :
    (readsFrom g0 R).tag n t = g0.tag n t := by
  induction R generalizing g0 with
  | nil => simp [readsFrom]
  | cons r rs ih =>
    simp only [readsFrom, List.foldl_cons] at ih ⊢
    rw [ih, addRead_tag]
    simp [ht]

/-- every edge of the graph has the given type -/
def AllEty (g : LGraph) (ty : EType) : Prop := ∀ a b, (a, b) ∈ g.edges → g.ety a b = some ty

theorem readsFrom_allEty (R : List String) (g0 : LGraph) (h0 : AllEty g0 .hasAlias) :
    AllEty (readsFrom g0 R) .hasAlias := by
  induction R generalizing g0 with
  | nil => simpa [readsFrom]
  | cons r rs ih =>
    simp only [readsFrom, List.foldl_cons] at ih ⊢
    apply ih
    intro a b hab
    rw [addRead_ety]
    by_cases h : a = tn r ∧ b = .str r
    · simp [h]
    · rw [if_neg h]
      rw [addRead_edges] at hab
      rcases hab with hab | hab
      · exact h0 a b hab
      · exact absurd (by simpa using hab) h

/-! ### the holder of `rw R w` -/

theorem holderOf_rw (R : List String) (w : Option String) :
    holderOf (.rw R w) = match w with
      | some x => addWrite (readsFrom Graph.empty R) (tbl x)
      | none => readsFrom Graph.empty R := by
  cases w <;> rfl

theorem rw_nodes (R : List String) (w : Option String) (n : Node) :
    n ∈ (holderOf (.rw R w)).nodes ↔ (∃ r ∈ R, n = tn r ∨ n = .str r) ∨ (∃ x, w = some x ∧ n = tn x) := by
  rw [holderOf_rw]
  cases w with
  | none => simp [readsFrom_nodes]
  | some x => simp [addWrite, mem_nodes_setTag, readsFrom_nodes, tn]

theorem rw_edges (R : List String) (w : Option String) (e : Node × Node) :
    e ∈ (holderOf (.rw R w)).edges ↔ ∃ r ∈ R, e = (tn r, .str r) := by
  rw [holderOf_rw]
  cases w with
  | none => simp [readsFrom_edges]
  | some x => simp [addWrite, readsFrom_edges]

theorem rw_tag_read (R : List String) (w : Option String) (n : Node) :
    (holderOf (.rw R w)).tag n .read = some true ↔ ∃ r ∈ R, n = tn r := by
  rw [holderOf_rw]
  cases w with
  | none => simp [readsFrom_tag_read]
  | some x => simp [addWrite, tag_setTag, readsFrom_tag_read]

theorem rw_tag_write (R : List String) (w : Option String) (n : Node) :
    (holderOf (.rw R w)).tag n .write = some true ↔ ∃ x, w = some x ∧ n = tn x := by
  rw [holderOf_rw]
  cases w with
  | none => simp [readsFrom_tag_other]
  | some x =>
    simp only [addWrite, tag_setTag, and_true, Option.some.injEq, exists_eq_left']
    by_cases h : n = tn x
    · simp [h, tn]
    · have : n ≠ Node.ds (tbl x) := h
      simp [this, h, readsFrom_tag_other]

theorem rw_tag_none (R : List String) (w : Option String) (n : Node) (t : Tag)
    (h1 : t ≠ .read) (h2 : t ≠ .write) : (holderOf (.rw R w)).tag n t = none := by
  rw [holderOf_rw]
  cases w with
  | none => simp [readsFrom_tag_other _ _ _ _ h1]
  | some x => simp [addWrite, tag_setTag, h2, readsFrom_tag_other _ _ _ _ h1]

theorem rw_allEty (R : List String) (w : Option String) : AllEty (holderOf (.rw R w)) .hasAlias := by
  rw [holderOf_rw]
  have h := readsFrom_allEty R Graph.empty (by intro a b h; simp at h)
  cases w with
  | none => exact h
  | some x =>
    intro a b hab
    simp only [addWrite, edges_setTag, ety_setTag] at hab ⊢
    exact h a b hab

theorem rw_stmtDrop (R : List String) (w : Option String) : stmtDrop (holderOf (.rw R w)) = [] := by
  simp only [stmtDrop, tagged, List.filter_eq_nil_iff]
  intro n _
  simp [rw_tag_none R w n .drop (by decide) (by decide)]

theorem rw_stmtRename (R : List String) (w : Option String) : stmtRename (holderOf (.rw R w)) = [] := by
  simp only [stmtRename, List.filter_eq_nil_iff]
  intro e he
  have := rw_allEty R w e.1 e.2 (mem_edgesOrdered _ _ he)
  simp [this]

theorem mem_stmtRead_rw (R : List String) (w : Option String) (n : Node) :
    n ∈ stmtRead (holderOf (.rw R w)) ↔ ∃ r ∈ R, n = tn r := by
  simp only [stmtRead, tagged, List.mem_filter, beq_iff_eq]
  constructor
  · rintro ⟨⟨_, h⟩, _⟩; exact (rw_tag_read R w n).mp h
  · rintro ⟨r, hr, rfl⟩
    refine ⟨⟨(rw_nodes R w _).mpr (Or.inl ⟨r, hr, Or.inl rfl⟩), (rw_tag_read R w _).mpr ⟨r, hr, rfl⟩⟩, by simp⟩

theorem mem_stmtWrite_rw (R : List String) (w : Option String) (n : Node) :
    n ∈ stmtWrite (holderOf (.rw R w)) ↔ ∃ x, w = some x ∧ n = tn x := by
  simp only [stmtWrite, tagged, List.mem_filter, beq_iff_eq]
  constructor
  · rintro ⟨⟨_, h⟩, _⟩; exact (rw_tag_write R w n).mp h
  · rintro ⟨x, rfl, rfl⟩
    refine ⟨⟨(rw_nodes R _ _).mpr (Or.inr ⟨x, rfl, rfl⟩), (rw_tag_write R _ _).mpr ⟨x, rfl, rfl⟩⟩, by simp⟩

end SqlLineage.AStmt

namespace SqlLineage.AStmt
open SqlLineage Graph Holder Assemble

/-! ### one read/write step of the fold, for arbitrary read / write lists -/

theorem mem_product (rs ws : List Node) (a b : Node) : (a, b) ∈ product rs ws ↔ a ∈ rs ∧ b ∈ ws := by
  simp only [product, List.mem_flatMap, List.mem_map, Prod.mk.injEq]
  constructor
  · rintro ⟨r, hr, w, hw, rfl, rfl⟩; exact ⟨hr, hw⟩
  · rintro ⟨ha, hb⟩; exact ⟨a, ha, b, hb, rfl, rfl⟩

theorem length_pos_iff_ne_nil {α : Type} (l : List α) : (decide (l.length > 0)) = true ↔ l ≠ [] := by
  cases l <;> simp

theorem length_beq_zero_iff {α : Type} (l : List α) : (l.length == 0) = true ↔ l = [] := by
  cases l <;> simp

theorem rwStep_nodes (g : LGraph) (rd wr : List Node) (hr : ∀ n ∈ rd, n ∈ g.nodes) (hw : ∀ n ∈ wr, n ∈ g.nodes)
    (m : Node) : m ∈ (rwStep g rd wr).nodes ↔ m ∈ g.nodes := by
  unfold rwStep
  split
  · simp
  · split
    · simp
    · rw [mem_nodes_foldl_addEdge]
      constructor
      · rintro (a | ⟨⟨x, y⟩, he, hm⟩)
        · exact a
        · have hp := (mem_product rd wr x y).mp he
          rcases hm with hm | hm
          · rw [hm]; exact hr _ hp.1
          · rw [hm]; exact hw _ hp.2
      · exact Or.inl

theorem rwStep_edges (g : LGraph) (rd wr : List Node) (e : Node × Node) :
    e ∈ (rwStep g rd wr).edges ↔ e ∈ g.edges ∨ (e.1 ∈ rd ∧ e.2 ∈ wr) := by
  unfold rwStep
  split
  · rename_i h
    simp only [Bool.and_eq_true, length_beq_zero_iff] at h
    simp [h.2]
  · split
    · rename_i _ h
      simp only [Bool.and_eq_true, length_beq_zero_iff] at h
      simp [h.1]
    · rw [mem_edges_foldl_addEdge]
      obtain ⟨a, b⟩ := e
      rw [mem_product]

theorem rwStep_tag (g : LGraph) (rd wr : List Node) (m : Node) (t : Tag) :
    (rwStep g rd wr).tag m t =
      if t = .sourceOnly ∧ rd ≠ [] ∧ wr = [] ∧ m ∈ rd ∧ m ∈ g.nodes then some true
      else if t = .targetOnly ∧ rd = [] ∧ wr ≠ [] ∧ m ∈ wr ∧ m ∈ g.nodes then some true
      else g.tag m t := by
  unfold rwStep
  by_cases h1 : (decide (rd.length > 0) && rd.length == 0 |> fun _ => decide (rd.length > 0) && wr.length == 0) = true
  · simp only at h1
    rw [if_pos h1]
    simp only [Bool.and_eq_true, length_pos_iff_ne_nil, length_beq_zero_iff] at h1
    obtain ⟨hrd, hwr⟩ := h1
    rw [tag_setTags]
    by_cases hc : m ∈ rd ∧ m ∈ g.nodes ∧ t = .sourceOnly
    · obtain ⟨a, b, c⟩ := hc
      simp [a, b, c, hrd, hwr]
    · rw [if_neg hc]
      have h' : ¬(t = .sourceOnly ∧ rd ≠ [] ∧ wr = [] ∧ m ∈ rd ∧ m ∈ g.nodes) :=
        fun ⟨a, _, _, d, e⟩ => hc ⟨d, e, a⟩
      have h'' : ¬(t = .targetOnly ∧ rd = [] ∧ wr ≠ [] ∧ m ∈ wr ∧ m ∈ g.nodes) :=
        fun ⟨_, b, _, _, _⟩ => hrd b
      rw [if_neg h', if_neg h'']
  · simp only at h1
    rw [if_neg h1]
    simp only [Bool.and_eq_true, length_pos_iff_ne_nil, length_beq_zero_iff, not_and] at h1
    by_cases h2 : (rd.length == 0 && decide (wr.length > 0)) = true
    · rw [if_pos h2]
      simp only [Bool.and_eq_true, length_pos_iff_ne_nil, length_beq_zero_iff] at h2
      obtain ⟨hrd, hwr⟩ := h2
      rw [tag_setTags]
      have h' : ¬(t = .sourceOnly ∧ rd ≠ [] ∧ wr = [] ∧ m ∈ rd ∧ m ∈ g.nodes) :=
        fun ⟨_, b, _, _, _⟩ => b hrd
      rw [if_neg h']
      by_cases hc : m ∈ wr ∧ m ∈ g.nodes ∧ t = .targetOnly
      · obtain ⟨a, b, c⟩ := hc
        simp [a, b, c, hrd, hwr]
      · rw [if_neg hc]
        have h'' : ¬(t = .targetOnly ∧ rd = [] ∧ wr ≠ [] ∧ m ∈ wr ∧ m ∈ g.nodes) :=
          fun ⟨a, _, _, d, e⟩ => hc ⟨d, e, a⟩
        rw [if_neg h'']
    · rw [if_neg h2]
      simp only [Bool.and_eq_true, length_pos_iff_ne_nil, length_beq_zero_iff, not_and] at h2
      rw [tag_foldl_addEdge]
      have h' : ¬(t = .sourceOnly ∧ rd ≠ [] ∧ wr = [] ∧ m ∈ rd ∧ m ∈ g.nodes) :=
        fun ⟨_, b, c, _, _⟩ => h1 b c
      have h'' : ¬(t = .targetOnly ∧ rd = [] ∧ wr ≠ [] ∧ m ∈ wr ∧ m ∈ g.nodes) :=
        fun ⟨_, b, c, _, _⟩ => h2 b c
      rw [if_neg h', if_neg h'']

/-- on the holder of an `rw` statement the fold step is the read/write branch -/
theorem foldStep_rw (ord : List (Node × Node) → List (Node × Node)) (g : LGraph) (R : List String) (w : Option String) :
    foldStep ord g (holderOf (.rw R w)) =
      .ok (rwStep (g.compose (holderOf (.rw R w))) (stmtRead (holderOf (.rw R w))) (stmtWrite (holderOf (.rw R w)))) := by
  simp [foldStep, rw_stmtDrop, rw_stmtRename]

end SqlLineage.AStmt
