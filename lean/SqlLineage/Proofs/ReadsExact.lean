/-
C01, table level: the walk (`Walk.exQuery`, the model of the sqlfluff extractors) computes exactly the tables of the
denotational specification `Spec.rdQuery`, on a compositional and unbounded fragment `fragQ`:

  * any nesting depth of derived tables (in FROM, at any join position and any comma position), set operations,
    WHERE subqueries (`(query)`, `x IN (query)`, `EXISTS (query)` joined by binary operators);
  * NOT covered here (covered by the differential check of `harness/c01.py` only): WITH (`withq`), subqueries inside
    select items / GROUP BY / HAVING / ON, and the deviation shapes D1–D4 of DESIGN §6.

Contents
  1. facts about holder graphs: `RD` / `WR` (a dataset node carries READ / WRITE = True), the invariant `Inv`
     (READ is never False, no CTE node, WRITE is never False on a dataset);
  2. the fragment `noSub` / `whereOK` / `fragQ`, and the DS‑valued specification `dsQuery` (mirror of `Spec.rdQuery`);
  3. `mem_rdQuery_iff`: `Spec.rdQuery` = printed names of `dsQuery` (all queries, all scopes);
  4. frame lemmas for every holder operation used by the walk;
  5. the crawl `cd*` is subsumed by `ds*`;
  6. the walk theorem `exQuery_ok` (mutual structural recursion over the AST).
No Mathlib.
-/
import SqlLineage.Model.Stmt
import SqlLineage.Model.Assemble
import SqlLineage.Spec.Tables
import SqlLineage.Proofs.GraphLemmas

namespace SqlLineage.Proofs.ReadsExact
open SqlLineage Ast Walk Holder Graph

/-! ## 0. generic helpers -/

theorem foldl_inv {α β : Type} (P : β → Prop) (f : β → α → β) (l : List α) (b : β) (hb : P b)
    (hf : ∀ b a, a ∈ l → P b → P (f b a)) : P (l.foldl f b) := by
  induction l generalizing b with
  | nil => exact hb
  | cons a r ih =>
    simp only [List.foldl_cons]
    exact ih (f b a) (hf b a (List.mem_cons_self ..) hb) (fun b' a' ha' => hf b' a' (List.mem_cons_of_mem _ ha'))

theorem foldlM_inv {α β ε : Type} (P : β → Prop) (f : β → α → Except ε β) (l : List α) (b b' : β) (hb : P b)
    (hf : ∀ b a b', a ∈ l → P b → f b a = .ok b' → P b') (h : l.foldlM f b = .ok b') : P b' := by
  induction l generalizing b with
  | nil => simp only [List.foldlM_nil, pure, Except.pure] at h; cases h; exact hb
  | cons a r ih =>
    simp only [List.foldlM_cons, bind, Except.bind] at h
    split at h
    · cases h
    · rename_i b1 h1
      exact ih b1 (hf b a b1 (List.mem_cons_self ..) hb h1) (fun b' a' b'' ha' => hf b' a' b'' (List.mem_cons_of_mem _ ha')) h

theorem ok_inj {ε α : Type} {a b : α} (h : (Except.ok a : Except ε α) = .ok b) : a = b := Except.ok.inj h

/-! ## 1. facts about holder graphs -/

/-- the dataset node `d` carries READ = True -/
def RD (g : LGraph) (d : DS) : Prop := g.tag (.ds d) .read = some true
/-- the dataset node `d` carries WRITE = True -/
def WR (g : LGraph) (d : DS) : Prop := g.tag (.ds d) .write = some true
/-- READ is never False on a dataset‑like node -/
def WFr (g : LGraph) : Prop := ∀ d, g.tag (.ds d) .read ≠ some false
/-- no dataset‑like node is a CTE (so `cteObjs g = []`) -/
def NoCte (g : LGraph) : Prop := ∀ d, g.tag (.ds d) .cte ≠ some true
/-- WRITE is never False on a `Table` / `Path` (it is on subquery nodes: `extract_subquery`) -/
def WFw (g : LGraph) : Prop := ∀ d, d.isDataset = true → g.tag (.ds d) .write ≠ some false

structure Inv (g : LGraph) : Prop where
  rd : WFr g
  cte : NoCte g
  wr : WFw g

/-- the tags of all dataset‑like nodes are the same in both graphs -/
structure SameDs (g g' : LGraph) : Prop where
  eq : ∀ d t, g'.tag (.ds d) t = g.tag (.ds d) t

theorem SameDs.refl (g : LGraph) : SameDs g g := ⟨fun _ _ => rfl⟩
theorem SameDs.trans {a b c : LGraph} (h1 : SameDs a b) (h2 : SameDs b c) : SameDs a c :=
  ⟨fun d t => (h2.eq d t).trans (h1.eq d t)⟩

theorem SameDs.inv {g g' : LGraph} (h : SameDs g g') (hi : Inv g) : Inv g' :=
  ⟨fun d => by rw [h.eq d]; exact hi.rd d, fun d => by rw [h.eq d]; exact hi.cte d,
   fun d hd => by rw [h.eq d]; exact hi.wr d hd⟩

theorem sameDs_addEdge (g : LGraph) (u v : Node) (ty : EType) (i : Option Nat) (pu pv : Option Payload) :
    SameDs g (g.addEdge u v ty i pu pv) := ⟨fun _ _ => tag_addEdge ..⟩

theorem sameDs_removeNode (g : LGraph) (n : Node) (hn : n.isCol = true) : SameDs g (g.removeNode n) := by
  refine ⟨fun d t => ?_⟩
  apply tag_removeNode_ne
  intro h; rw [← h] at hn; simp [Node.isCol] at hn

theorem sameDs_foldl {α : Type} (f : LGraph → α → LGraph) (l : List α) (g : LGraph)
    (hf : ∀ b a, a ∈ l → SameDs b (f b a)) : SameDs g (l.foldl f g) :=
  foldl_inv (SameDs g) f l g (SameDs.refl g) (fun b a ha hb => hb.trans (hf b a ha))

theorem sameDs_foldlM {α : Type} (f : LGraph → α → Except Err LGraph) (l : List α) (g g' : LGraph)
    (hf : ∀ b a b', a ∈ l → f b a = .ok b' → SameDs b b') (h : l.foldlM f g = .ok g') : SameDs g g' :=
  foldlM_inv (SameDs g) f l g g' (SameDs.refl g) (fun b a b' ha hb hfa => hb.trans (hf b a b' ha hfa)) h

/-! ### tag setters -/

theorem tag_addRead (g : LGraph) (d : DS) (alias : Option String) (p : Option Payload) (n : Node) (t : Tag) :
    (addRead g d alias p).tag n t = if n = .ds d ∧ t = .read then some true else g.tag n t := by
  unfold addRead
  cases alias <;> simp only [tag_addEdge, tag_setTag]

theorem tag_addReadO (g : LGraph) (o : DObj) (n : Node) (t : Tag) :
    (addReadO g o).tag n t = if n = .ds o.d ∧ t = .read then some true else g.tag n t := by
  unfold addReadO; rw [tag_addRead]

theorem tag_addWriteO (g : LGraph) (o : DObj) (n : Node) (t : Tag) :
    (addWriteO g o).tag n t = if n = .ds o.d ∧ t = .write then some true else g.tag n t := by
  unfold addWriteO addWrite; rw [tag_setTag]

theorem tag_addCteO (g : LGraph) (o : DObj) (n : Node) (t : Tag) :
    (addCteO g o).tag n t = if n = .ds o.d ∧ t = .cte then some true else g.tag n t := by
  unfold addCteO addCte; rw [tag_setTag]

theorem tag_foldl_addReadO (l : List DObj) (g : LGraph) (d : DS) (t : Tag) :
    (l.foldl addReadO g).tag (.ds d) t = if d ∈ l.map (·.d) ∧ t = .read then some true else g.tag (.ds d) t := by
  induction l generalizing g with
  | nil => simp
  | cons o r ih =>
    simp only [List.foldl_cons, ih, tag_addReadO, List.map_cons, List.mem_cons, Node.ds.injEq]
    by_cases h1 : d ∈ r.map (·.d) ∧ t = .read
    · simp [h1]
    · by_cases h2 : d = o.d ∧ t = .read
      · simp [h2]
      · rw [if_neg h1, if_neg h2, if_neg]
        rintro ⟨a | a, b⟩
        · exact h2 ⟨a, b⟩
        · exact h1 ⟨a, b⟩

theorem tag_foldl_addWriteO (l : List DObj) (g : LGraph) (d : DS) (t : Tag) :
    (l.foldl addWriteO g).tag (.ds d) t = if d ∈ l.map (·.d) ∧ t = .write then some true else g.tag (.ds d) t := by
  induction l generalizing g with
  | nil => simp
  | cons o r ih =>
    simp only [List.foldl_cons, ih, tag_addWriteO, List.map_cons, List.mem_cons, Node.ds.injEq]
    by_cases h1 : d ∈ r.map (·.d) ∧ t = .write
    · simp [h1]
    · by_cases h2 : d = o.d ∧ t = .write
      · simp [h2]
      · rw [if_neg h1, if_neg h2, if_neg]
        rintro ⟨a | a, b⟩
        · exact h2 ⟨a, b⟩
        · exact h1 ⟨a, b⟩

/-! ### column operations do not touch dataset tags -/

theorem sameDs_addWriteColumns (g : LGraph) (cols : List Column) : SameDs g (addWriteColumns g cols) := by
  unfold addWriteColumns
  split
  · exact SameDs.refl g
  · exact sameDs_foldl _ _ _ (fun b a _ => sameDs_addEdge ..)

theorem sameDs_addColumnLineage (g : LGraph) (src tgt : Column) (g' : LGraph)
    (h : addColumnLineage g src tgt = .ok g') : SameDs g g' := by
  unfold addColumnLineage at h
  split at h
  · cases h
  · split at h <;> (rw [← ok_inj h]; exact ⟨fun d t => by simp only [tag_addEdge]⟩)

theorem sameDs_cleanupItem (imp : String) (tp : DS × String) (n : Nat) (grp : List DObj) (g : LGraph)
    (ci : ColSpec × Nat) (rs : Nat) (g' : LGraph) (h : cleanupItem imp tp n grp g ci rs = .ok g') : SameDs g g' := by
  unfold cleanupItem at h
  simp only at h
  split at h
  · rw [← ok_inj h]; exact SameDs.refl g
  · exact sameDs_foldlM _ _ _ _ (fun b a b' _ hb => sameDs_addColumnLineage b a _ b' hb) h

theorem sameDs_cleanupGroup (imp : String) (g : LGraph) (cg : List ColSpec) (tg : List DObj) (rs : Nat) (g' : LGraph)
    (h : cleanupGroup imp g cg tg rs = .ok g') : SameDs g g' := by
  unfold cleanupGroup at h
  split at h
  · rw [← ok_inj h]; exact SameDs.refl g
  · exact sameDs_foldlM _ _ _ _ (fun b a b' _ hb => sameDs_cleanupItem _ _ _ _ b a _ b' hb) h
  · cases h

theorem sameDs_cleanupGo (imp : String) (tables : List DObj) (columns : List ColSpec) (rs : Nat)
    (bs : List (Nat × Nat)) (g : LGraph) (prev : Nat × Nat) (g' : LGraph)
    (h : endOfQueryCleanup.go imp tables columns rs g prev bs = .ok g') : SameDs g g' := by
  induction bs generalizing g prev with
  | nil => simp only [endOfQueryCleanup.go] at h; rw [← ok_inj h]; exact SameDs.refl g
  | cons b r ih =>
    simp only [endOfQueryCleanup.go] at h
    split at h
    · rename_i g1 h1
      exact (sameDs_cleanupGroup _ _ _ _ _ _ h1).trans (ih g1 b h)
    · cases h

/-- `end_of_query_cleanup`: READ on the collected tables, nothing else on dataset nodes -/
theorem tag_endOfQueryCleanup (imp : String) (g : LGraph) (tables : List DObj) (columns : List ColSpec)
    (barriers : List (Nat × Nat)) (rs : Nat) (g' : LGraph)
    (h : endOfQueryCleanup imp g tables columns barriers rs = .ok g') (d : DS) (t : Tag) :
    g'.tag (.ds d) t = if d ∈ tables.map (·.d) ∧ t = .read then some true else g.tag (.ds d) t := by
  unfold endOfQueryCleanup at h
  simp only at h
  rw [(sameDs_cleanupGo _ _ _ _ _ _ _ _ h).eq d t, tag_foldl_addReadO]

theorem sameDs_ite_removeNode (g0 g : LGraph) (n : Node) (hn : n.isCol = true) (h : SameDs g0 g) :
    SameDs g0 (if g.hasNode n = true then g.removeNode n else g) := by
  split
  · exact h.trans (sameDs_removeNode g n hn)
  · exact h

theorem sameDs_replaceWildcard (g : LGraph) (tgt : DS) (srcCols : List Column) (tw sw : Node)
    (h1 : tw.isCol = true) (h2 : sw.isCol = true) : SameDs g (replaceWildcard g tgt srcCols tw sw) := by
  unfold replaceWildcard
  simp only
  apply sameDs_ite_removeNode _ _ _ h2
  apply sameDs_ite_removeNode _ _ _ h1
  apply sameDs_foldl
  intro b a _
  split
  · exact SameDs.refl b
  · split
    · exact ((sameDs_addEdge ..).trans (sameDs_addEdge ..)).trans (sameDs_addEdge ..)
    · exact (sameDs_addEdge ..).trans (sameDs_addEdge ..)

theorem sameDs_ite_replace (g : LGraph) (tgt : DS) (cols : List Column) (tw sw : Node)
    (h1 : tw.isCol = true) (h2 : sw.isCol = true) :
    SameDs g (if cols.isEmpty = true then g else replaceWildcard g tgt cols tw sw) := by
  split
  · exact SameDs.refl g
  · exact sameDs_replaceWildcard _ _ _ _ _ h1 h2

theorem sameDs_expandWildcard (p : ProvView) (g : LGraph) : SameDs g (expandWildcard p g) := by
  unfold expandWildcard
  split
  · exact SameDs.refl g
  · apply sameDs_foldl
    intro b wn hwn
    have hcol : wn.isCol = true := (List.mem_filter.mp hwn).2
    split
    · split
      · apply sameDs_foldl
        intro b' sw _
        split
        · exact sameDs_ite_replace _ _ _ _ _ hcol rfl
        · exact SameDs.refl b'
      · exact SameDs.refl b
    · exact SameDs.refl b

end SqlLineage.Proofs.ReadsExact
