/-
C01, table level: the walk (`Walk.exQuery`, the model of the sqlfluff extractors) computes exactly the tables of the
denotational specification `Spec.rdQuery`, on a compositional and unbounded fragment `fragQ`:

  * any nesting depth of derived tables (in FROM, at any join position and any comma position), set operations,
    WHERE subqueries (`(query)`, `x IN (query)`, `EXISTS (query)` joined by binary operators);
  * NOT covered here (covered by the differential check of `harness/c01.py` only): WITH (`withq`), subqueries inside
    select items / GROUP BY / HAVING / ON, and the deviation shapes D1–D4 of DESIGN §6.

Contents
  1. facts about holder graphs: `RD` / `WR` (a dataset node carries READ / WRITE = True), the invariant `Inv`
     (READ is never False, no CTE node, WRITE is never False on a dataset);
  2. the fragment `noSub` / `whereOK` / `fragQ`, and the DS‑valued specification `dsQuery` (mirror of `Spec.rdQuery`);
  3. `mem_rdQuery_iff`: `Spec.rdQuery` = printed names of `dsQuery` (all queries, all scopes);
  4. frame lemmas for every holder operation used by the walk;
  5. the crawl `cd*` is subsumed by `ds*`;
  6. the walk theorem `exQuery_ok` (mutual structural recursion over the AST).
No Mathlib.
-/
import SqlLineage.Model.Stmt
import SqlLineage.Model.Assemble
import SqlLineage.Spec.Tables
import SqlLineage.Proofs.GraphLemmas
import SqlLineage.Proofs.FrameLemmas

set_option linter.unusedSimpArgs false
set_option linter.unusedVariables false

namespace SqlLineage.Proofs.ReadsExact
open SqlLineage Ast Walk Holder Graph

/-! ## 0. generic helpers -/

theorem foldl_inv {α β : Type} (P : β → Prop) (f : β → α → β) (l : List α) (b : β) (hb : P b)
    (hf : ∀ b a, a ∈ l → P b → P (f b a)) : P (l.foldl f b) := by
  induction l generalizing b with
  | nil => exact hb
  | cons a r ih =>
    simp only [List.foldl_cons]
    exact ih (f b a) (hf b a (List.mem_cons_self ..) hb) (fun b' a' ha' => hf b' a' (List.mem_cons_of_mem _ ha'))

theorem foldlM_inv {α β ε : Type} (P : β → Prop) (f : β → α → Except ε β) (l : List α) (b b' : β) (hb : P b)
    (hf : ∀ b a b', a ∈ l → P b → f b a = .ok b' → P b') (h : l.foldlM f b = .ok b') : P b' := by
  induction l generalizing b with
  | nil => simp only [List.foldlM_nil, pure, Except.pure] at h; cases h; exact hb
  | cons a r ih =>
    simp only [List.foldlM_cons, bind, Except.bind] at h
    split at h
    · cases h
    · rename_i b1 h1
      exact ih b1 (hf b a b1 (List.mem_cons_self ..) hb h1) (fun b' a' b'' ha' => hf b' a' b'' (List.mem_cons_of_mem _ ha')) h

theorem ok_inj {ε α : Type} {a b : α} (h : (Except.ok a : Except ε α) = .ok b) : a = b := Except.ok.inj h

/-! ## 1. facts about holder graphs -/

/-- the dataset node `d` carries READ = True -/
def RD (g : LGraph) (d : DS) : Prop := g.tag (.ds d) .read = some true
/-- the dataset node `d` carries WRITE = True -/
def WR (g : LGraph) (d : DS) : Prop := g.tag (.ds d) .write = some true
/-- READ is never False on a dataset‑like node -/
def WFr (g : LGraph) : Prop := ∀ d, g.tag (.ds d) .read ≠ some false
/-- no dataset‑like node is a CTE (so `cteObjs g = []`) -/
def NoCte (g : LGraph) : Prop := ∀ d, g.tag (.ds d) .cte ≠ some true
/-- WRITE is never False on a `Table` / `Path` (it is on subquery nodes: `extract_subquery`) -/
def WFw (g : LGraph) : Prop := ∀ d, d.isDataset = true → g.tag (.ds d) .write ≠ some false

structure Inv (g : LGraph) : Prop where
  rd : WFr g
  cte : NoCte g
  wr : WFw g

/-- the tags of all dataset‑like nodes are the same in both graphs -/
structure SameDs (g g' : LGraph) : Prop where
  eq : ∀ d t, g'.tag (.ds d) t = g.tag (.ds d) t

theorem SameDs.refl (g : LGraph) : SameDs g g := ⟨fun _ _ => rfl⟩
theorem SameDs.trans {a b c : LGraph} (h1 : SameDs a b) (h2 : SameDs b c) : SameDs a c :=
  ⟨fun d t => (h2.eq d t).trans (h1.eq d t)⟩

theorem SameDs.inv {g g' : LGraph} (h : SameDs g g') (hi : Inv g) : Inv g' :=
  ⟨fun d => by rw [h.eq d]; exact hi.rd d, fun d => by rw [h.eq d]; exact hi.cte d,
   fun d hd => by rw [h.eq d]; exact hi.wr d hd⟩

theorem sameDs_addEdge (g : LGraph) (u v : Node) (ty : EType) (i : Option Nat) (pu pv : Option Payload) :
    SameDs g (g.addEdge u v ty i pu pv) := ⟨fun _ _ => tag_addEdge ..⟩

theorem sameDs_removeNode (g : LGraph) (n : Node) (hn : n.isCol = true) : SameDs g (g.removeNode n) := by
  refine ⟨fun d t => ?_⟩
  apply tag_removeNode_ne
  intro h; rw [← h] at hn; simp [Node.isCol] at hn

theorem sameDs_foldl {α : Type} (f : LGraph → α → LGraph) (l : List α) (g : LGraph)
    (hf : ∀ b a, a ∈ l → SameDs b (f b a)) : SameDs g (l.foldl f g) :=
  foldl_inv (SameDs g) f l g (SameDs.refl g) (fun b a ha hb => hb.trans (hf b a ha))

theorem sameDs_foldlM {α : Type} (f : LGraph → α → Except Err LGraph) (l : List α) (g g' : LGraph)
    (hf : ∀ b a b', a ∈ l → f b a = .ok b' → SameDs b b') (h : l.foldlM f g = .ok g') : SameDs g g' :=
  foldlM_inv (SameDs g) f l g g' (SameDs.refl g) (fun b a b' ha hb hfa => hb.trans (hf b a b' ha hfa)) h

/-! ### tag setters -/

theorem tag_addRead (g : LGraph) (d : DS) (alias : Option String) (p : Option Payload) (n : Node) (t : Tag) :
    (addRead g d alias p).tag n t = if n = .ds d ∧ t = .read then some true else g.tag n t := by
  unfold addRead
  cases alias <;> simp only [tag_addEdge, tag_setTag]

theorem tag_addReadO (g : LGraph) (o : DObj) (n : Node) (t : Tag) :
    (addReadO g o).tag n t = if n = .ds o.d ∧ t = .read then some true else g.tag n t := by
  unfold addReadO; rw [tag_addRead]

theorem tag_addWriteO (g : LGraph) (o : DObj) (n : Node) (t : Tag) :
    (addWriteO g o).tag n t = if n = .ds o.d ∧ t = .write then some true else g.tag n t := by
  unfold addWriteO addWrite; rw [tag_setTag]

theorem tag_addCteO (g : LGraph) (o : DObj) (n : Node) (t : Tag) :
    (addCteO g o).tag n t = if n = .ds o.d ∧ t = .cte then some true else g.tag n t := by
  unfold addCteO addCte; rw [tag_setTag]

theorem tag_foldl_addReadO (l : List DObj) (g : LGraph) (d : DS) (t : Tag) :
    (l.foldl addReadO g).tag (.ds d) t = if d ∈ l.map (·.d) ∧ t = .read then some true else g.tag (.ds d) t := by
  induction l generalizing g with
  | nil => simp
  | cons o r ih =>
    simp only [List.foldl_cons, ih, tag_addReadO, List.map_cons, List.mem_cons, Node.ds.injEq]
    by_cases h1 : d ∈ r.map (·.d) ∧ t = .read
    · simp [h1]
    · by_cases h2 : d = o.d ∧ t = .read
      · simp [h2]
      · rw [if_neg h1, if_neg h2, if_neg]
        rintro ⟨a | a, b⟩
        · exact h2 ⟨a, b⟩
        · exact h1 ⟨a, b⟩

theorem tag_foldl_addWriteO (l : List DObj) (g : LGraph) (d : DS) (t : Tag) :
    (l.foldl addWriteO g).tag (.ds d) t = if d ∈ l.map (·.d) ∧ t = .write then some true else g.tag (.ds d) t := by
  induction l generalizing g with
  | nil => simp
  | cons o r ih =>
    simp only [List.foldl_cons, ih, tag_addWriteO, List.map_cons, List.mem_cons, Node.ds.injEq]
    by_cases h1 : d ∈ r.map (·.d) ∧ t = .write
    · simp [h1]
    · by_cases h2 : d = o.d ∧ t = .write
      · simp [h2]
      · rw [if_neg h1, if_neg h2, if_neg]
        rintro ⟨a | a, b⟩
        · exact h2 ⟨a, b⟩
        · exact h1 ⟨a, b⟩

/-! ### column operations do not touch dataset tags -/

theorem sameDs_addWriteColumns (g : LGraph) (cols : List Column) : SameDs g (addWriteColumns g cols) := by
  unfold addWriteColumns
  split
  · exact SameDs.refl g
  · exact sameDs_foldl _ _ _ (fun b a _ => sameDs_addEdge ..)

theorem sameDs_addColumnLineage (g : LGraph) (src tgt : Column) (g' : LGraph)
    (h : addColumnLineage g src tgt = .ok g') : SameDs g g' := by
  unfold addColumnLineage at h
  split at h
  · cases h
  · split at h <;> (rw [← ok_inj h]; exact ⟨fun d t => by simp only [tag_addEdge]⟩)

theorem sameDs_cleanupItem (imp : String) (tp : DS × String) (n : Nat) (grp : List DObj) (g : LGraph)
    (ci : ColSpec × Nat) (rs : Nat) (g' : LGraph) (h : cleanupItem imp tp n grp g ci rs = .ok g') : SameDs g g' := by
  unfold cleanupItem at h
  simp only at h
  split at h
  · rw [← ok_inj h]; exact SameDs.refl g
  · exact sameDs_foldlM _ _ _ _ (fun b a b' _ hb => sameDs_addColumnLineage b a _ b' hb) h

theorem sameDs_cleanupGroup (imp : String) (g : LGraph) (cg : List ColSpec) (tg : List DObj) (rs : Nat) (g' : LGraph)
    (h : cleanupGroup imp g cg tg rs = .ok g') : SameDs g g' := by
  unfold cleanupGroup at h
  split at h
  · rw [← ok_inj h]; exact SameDs.refl g
  · exact sameDs_foldlM _ _ _ _ (fun b a b' _ hb => sameDs_cleanupItem _ _ _ _ b a _ b' hb) h
  · cases h

theorem sameDs_cleanupGo (imp : String) (tables : List DObj) (columns : List ColSpec) (rs : Nat)
    (bs : List (Nat × Nat)) (g : LGraph) (prev : Nat × Nat) (g' : LGraph)
    (h : endOfQueryCleanup.go imp tables columns rs g prev bs = .ok g') : SameDs g g' := by
  induction bs generalizing g prev with
  | nil => simp only [endOfQueryCleanup.go] at h; rw [← ok_inj h]; exact SameDs.refl g
  | cons b r ih =>
    simp only [endOfQueryCleanup.go] at h
    split at h
    · rename_i g1 h1
      exact (sameDs_cleanupGroup _ _ _ _ _ _ h1).trans (ih g1 b h)
    · cases h

/-- `end_of_query_cleanup`: READ on the collected tables, nothing else on dataset nodes -/
theorem tag_endOfQueryCleanup (imp : String) (g : LGraph) (tables : List DObj) (columns : List ColSpec)
    (barriers : List (Nat × Nat)) (rs : Nat) (g' : LGraph)
    (h : endOfQueryCleanup imp g tables columns barriers rs = .ok g') (d : DS) (t : Tag) :
    g'.tag (.ds d) t = if d ∈ tables.map (·.d) ∧ t = .read then some true else g.tag (.ds d) t := by
  unfold endOfQueryCleanup at h
  simp only at h
  rw [(sameDs_cleanupGo _ _ _ _ _ _ _ _ h).eq d t, tag_foldl_addReadO]

theorem sameDs_ite_removeNode (g0 g : LGraph) (n : Node) (hn : n.isCol = true) (h : SameDs g0 g) :
    SameDs g0 (if g.hasNode n = true then g.removeNode n else g) := by
  split
  · exact h.trans (sameDs_removeNode g n hn)
  · exact h

theorem sameDs_replaceWildcard (g : LGraph) (tgt : DS) (srcCols : List Column) (tw sw : Node)
    (h1 : tw.isCol = true) (h2 : sw.isCol = true) : SameDs g (replaceWildcard g tgt srcCols tw sw) := by
  unfold replaceWildcard
  simp only
  have key : ∀ (G : LGraph), SameDs g G →
      SameDs g (if (G.hasNode tw && (getSourceColumns G tw).isEmpty) = true then G.removeNode tw else G) := by
    intro G hG
    split
    · exact hG.trans (sameDs_removeNode G tw h1)
    · exact hG
  apply key
  apply sameDs_ite_removeNode _ _ _ h2
  apply sameDs_foldl
  intro b a _
  split
  · exact SameDs.refl b
  · split
    · exact ((sameDs_addEdge ..).trans (sameDs_addEdge ..)).trans (sameDs_addEdge ..)
    · exact (sameDs_addEdge ..).trans (sameDs_addEdge ..)

theorem sameDs_ite_replace (g : LGraph) (tgt : DS) (cols : List Column) (tw sw : Node)
    (h1 : tw.isCol = true) (h2 : sw.isCol = true) :
    SameDs g (if cols.isEmpty = true then g else replaceWildcard g tgt cols tw sw) := by
  split
  · exact SameDs.refl g
  · exact sameDs_replaceWildcard _ _ _ _ _ h1 h2

theorem sameDs_expandWildcard (p : ProvView) (g : LGraph) : SameDs g (expandWildcard p g) := by
  unfold expandWildcard
  split
  · exact SameDs.refl g
  · apply sameDs_foldl
    intro b wn hwn
    have hcol : wn.isCol = true := (List.mem_filter.mp hwn).2
    split
    · split
      · apply sameDs_foldl
        intro b' sw _
        split
        · exact sameDs_ite_replace _ _ _ _ _ hcol rfl
        · exact SameDs.refl b'
      · exact SameDs.refl b
    · exact SameDs.refl b

/-! ### the step relations of the walk -/

/-- from `g` to `g'` exactly the datasets of `S` became READ; WRITE on datasets unchanged; `g'` is well‑formed -/
structure Adds (g g' : LGraph) (S : List DS) : Prop where
  inv : Inv g'
  rd : ∀ d, d.isDataset = true → (RD g' d ↔ RD g d ∨ d ∈ S)
  wr : ∀ d, d.isDataset = true → (WR g' d ↔ WR g d)

/-- the sandwich: READ only grows, and by at most the datasets of `S` -/
structure Sub (g g' : LGraph) (S : List DS) : Prop where
  inv : Inv g'
  mono : ∀ d, d.isDataset = true → RD g d → RD g' d
  sub : ∀ d, d.isDataset = true → RD g' d → RD g d ∨ d ∈ S
  wr : ∀ d, d.isDataset = true → (WR g' d ↔ WR g d)

theorem Adds.refl {g : LGraph} (hi : Inv g) : Adds g g [] :=
  ⟨hi, fun d _ => by simp, fun _ _ => Iff.rfl⟩

theorem Adds.trans {a b c : LGraph} {S T : List DS} (h1 : Adds a b S) (h2 : Adds b c T) : Adds a c (S ++ T) :=
  ⟨h2.inv, fun d hd => by rw [h2.rd d hd, h1.rd d hd, List.mem_append, or_assoc],
   fun d hd => (h2.wr d hd).trans (h1.wr d hd)⟩

theorem Adds.congr {g g' : LGraph} {S T : List DS} (h : Adds g g' S)
    (hST : ∀ d, d.isDataset = true → (d ∈ S ↔ d ∈ T)) : Adds g g' T :=
  ⟨h.inv, fun d hd => by rw [h.rd d hd, hST d hd], h.wr⟩

theorem Adds.toSub {g g' : LGraph} {S : List DS} (h : Adds g g' S) : Sub g g' S :=
  ⟨h.inv, fun d hd hr => (h.rd d hd).mpr (Or.inl hr), fun d hd hr => (h.rd d hd).mp hr, h.wr⟩

theorem Sub.refl {g : LGraph} (hi : Inv g) : Sub g g [] := (Adds.refl hi).toSub

theorem Sub.trans {a b c : LGraph} {S T : List DS} (h1 : Sub a b S) (h2 : Sub b c T) : Sub a c (S ++ T) :=
  ⟨h2.inv, fun d hd hr => h2.mono d hd (h1.mono d hd hr),
   fun d hd hr => by
     rw [List.mem_append]
     rcases h2.sub d hd hr with x | x
     · rcases h1.sub d hd x with y | y
       · exact Or.inl y
       · exact Or.inr (Or.inl y)
     · exact Or.inr (Or.inr x),
   fun d hd => (h2.wr d hd).trans (h1.wr d hd)⟩

theorem Sub.weaken {g g' : LGraph} {S T : List DS} (h : Sub g g' S)
    (hST : ∀ d, d.isDataset = true → d ∈ S → d ∈ T) : Sub g g' T :=
  ⟨h.inv, h.mono, fun d hd hr => (h.sub d hd hr).imp id (hST d hd), h.wr⟩

/-- a crawl step that can only re‑discover what an exact step has already added -/
theorem Adds.absorb {a b c : LGraph} {S T : List DS} (h1 : Adds a b S) (h2 : Sub b c T)
    (hTS : ∀ d, d.isDataset = true → d ∈ T → d ∈ S) : Adds a c S :=
  ⟨h2.inv, fun d hd => by
     constructor
     · intro hr
       rcases h2.sub d hd hr with x | x
       · exact (h1.rd d hd).mp x
       · exact Or.inr (hTS d hd x)
     · intro hr
       exact h2.mono d hd ((h1.rd d hd).mpr hr),
   fun d hd => (h2.wr d hd).trans (h1.wr d hd)⟩

theorem SameDs.adds {g g' : LGraph} (h : SameDs g g') (hi : Inv g) : Adds g g' [] :=
  ⟨h.inv hi, fun d _ => by simp [RD, h.eq d], fun d _ => by simp [WR, h.eq d]⟩

/-! ### `cteObjs`, `datasetOfElem` without CTEs -/

theorem tagSet_nil_of (g : LGraph) (t : Tag) (h : ∀ d, g.tag (.ds d) t ≠ some true) : tagSet g t = [] := by
  unfold tagSet
  rw [List.filterMap_eq_nil_iff]
  intro n hn
  cases n with
  | ds d =>
    have := (List.mem_filter.mp hn).2
    simp only [beq_iff_eq] at this
    exact absurd this (h d)
  | col _ _ => rfl
  | str _ => rfl

theorem cteObjs_nil {g : LGraph} (h : NoCte g) : cteObjs g = [] := by
  unfold cteObjs objsOf
  rw [tagSet_nil_of g .cte h]; rfl

theorem mem_tagSet (g : LGraph) (t : Tag) (d : DS) : d ∈ tagSet g t ↔ g.tag (.ds d) t = some true := by
  unfold tagSet
  simp only [List.mem_filterMap, List.mem_filter, beq_iff_eq]
  constructor
  · rintro ⟨n, ⟨_, hn⟩, hd⟩
    cases n with
    | ds d' => simp only [dsOf, Option.some.injEq] at hd; rw [← hd]; exact hn
    | col _ _ => simp [dsOf] at hd
    | str _ => simp [dsOf] at hd
  · intro h
    refine ⟨.ds d, ⟨?_, h⟩, rfl⟩
    apply Decidable.byContradiction
    intro hn
    rw [tag_of_not_mem _ _ _ hn] at h
    cases h

theorem map_d_objsOf (g : LGraph) (t : Tag) : (objsOf g t).map (·.d) = tagSet g t := by
  unfold objsOf
  rw [List.map_map]
  conv => rhs; rw [← List.map_id (tagSet g t)]
  rfl

theorem datasetOfElem_table (env : Env) (g : LGraph) (hc : cteObjs g = []) (parts : List String) (alias : Option String)
    (k : Bool) : datasetOfElem env g (.table parts alias k) = [mkTable env parts alias] := by
  cases parts with
  | nil => simp [datasetOfElem]
  | cons n r =>
    cases r with
    | nil => simp [datasetOfElem, hc]
    | cons _ _ => simp [datasetOfElem]

theorem mkTable_d (env : Env) (parts : List String) (alias : Option String) :
    (mkTable env parts alias).d = (mkTable env parts none).d := rfl

theorem mkTable_isDataset (env : Env) (parts : List String) (alias : Option String) :
    (mkTable env parts alias).d.isDataset = true := rfl

theorem mkSubq_isDataset (raw : String) (alias : Option String) : (mkSubq raw alias).d.isDataset = false := rfl

/-! ### compose / composeSub -/

theorem tag_composeSub_of (g h : LGraph) (obj : DObj) (n : Node) (t : Tag) (hne : ¬(n = .ds obj.d ∧ t = .write)) :
    (composeSub g obj h).tag n t = match h.tag n t with | some b => some b | none => g.tag n t := by
  have hn : ¬(n ∈ [Node.ds obj.d] ∧ n ∈ h.nodes ∧ t = .write) := by
    rintro ⟨a, _, c⟩
    exact hne ⟨by simpa using a, c⟩
  unfold composeSub
  rw [tag_compose, tag_setTags, if_neg hn]
  cases tag h n t <;> rfl

theorem ds_ne_of_isDataset {d e : DS} (hd : d.isDataset = true) (he : e.isDataset = false) : Node.ds d ≠ Node.ds e := by
  intro h
  simp only [Node.ds.injEq] at h
  rw [h, he] at hd
  cases hd

/-- `extract_subquery`: the sub‑holder `h` (read set `S`, no dataset written) is merged into `g` -/
theorem adds_composeSub (g h : LGraph) (obj : DObj) (S : List DS) (hg : Inv g) (hobj : obj.d.isDataset = false)
    (hh : Inv h) (hrd : ∀ d, d.isDataset = true → (RD h d ↔ d ∈ S)) (hwr : ∀ d, d.isDataset = true → ¬ WR h d) :
    Adds g (composeSub g obj h) S := by
  refine ⟨⟨?_, ?_, ?_⟩, ?_, ?_⟩
  · intro d
    rw [tag_composeSub_of _ _ _ _ _ (fun x => by cases x.2)]
    have := hh.rd d
    have := hg.rd d
    cases hx : h.tag (.ds d) .read with
    | none => simpa
    | some b => cases b <;> simp_all
  · intro d
    rw [tag_composeSub_of _ _ _ _ _ (fun x => by cases x.2)]
    have := hh.cte d
    have := hg.cte d
    cases hx : h.tag (.ds d) .cte with
    | none => simpa
    | some b => cases b <;> simp_all
  · intro d hd
    rw [tag_composeSub_of _ _ _ _ _ (fun x => ds_ne_of_isDataset hd hobj x.1)]
    have := hh.wr d hd
    have := hg.wr d hd
    cases hx : h.tag (.ds d) .write with
    | none => simpa
    | some b => cases b <;> simp_all
  · intro d hd
    unfold RD
    rw [tag_composeSub_of _ _ _ _ _ (fun x => by cases x.2)]
    have h1 := hh.rd d
    have h2 := hrd d hd
    unfold RD at h2
    cases hx : h.tag (.ds d) .read with
    | none => rw [hx] at h2; simp only [reduceCtorEq, false_iff] at h2; simp [h2]
    | some b =>
      cases b
      · exact absurd hx h1
      · rw [hx] at h2; simp only [true_iff] at h2; simp [h2]
  · intro d hd
    unfold WR
    rw [tag_composeSub_of _ _ _ _ _ (fun x => ds_ne_of_isDataset hd hobj x.1)]
    have h1 := hh.wr d hd
    have h2 := hwr d hd
    unfold WR at h2
    cases hx : h.tag (.ds d) .write with
    | none => simp
    | some b =>
      cases b
      · exact absurd hx h1
      · exact absurd hx h2

/-! ### `initHolder` without CTEs -/

theorem tag_initHolder (ctx : Ctx) (hc : ctx.cte = []) (d : DS) (t : Tag) :
    (initHolder ctx).tag (.ds d) t = if d ∈ ctx.write.map (·.d) ∧ t = .write then some true else none := by
  unfold initHolder
  rw [hc]
  simp only [List.foldl_nil]
  split
  · rw [tag_foldl_addWriteO, tag_empty]
  · rw [(sameDs_addWriteColumns _ _).eq, tag_foldl_addWriteO, tag_empty]

theorem initHolder_inv (ctx : Ctx) (hc : ctx.cte = []) : Inv (initHolder ctx) := by
  refine ⟨?_, ?_, ?_⟩
  · intro d; rw [tag_initHolder _ hc]; split <;> simp_all
  · intro d; rw [tag_initHolder _ hc]; split <;> simp_all
  · intro d _; rw [tag_initHolder _ hc]; split <;> simp

theorem initHolder_rd (ctx : Ctx) (hc : ctx.cte = []) (d : DS) : ¬ RD (initHolder ctx) d := by
  unfold RD; rw [tag_initHolder _ hc]; split <;> simp_all

theorem initHolder_wr (ctx : Ctx) (hc : ctx.cte = []) (d : DS) : WR (initHolder ctx) d ↔ d ∈ ctx.write.map (·.d) := by
  unfold WR; rw [tag_initHolder _ hc]
  by_cases h : d ∈ ctx.write.map (·.d) <;> simp [h]

/-! ### `finishBranches` -/

theorem fb_fold_fst (env : Env) (g : LGraph) (l : List ((List Item × List FromExpr) × Nat))
    (acc : List DObj × List ColSpec × List (Nat × Nat)) :
    (l.foldl
      (fun (acc : List DObj × List ColSpec × List (Nat × Nat)) (b : (List Item × List FromExpr) × Nat) =>
        let bs := if b.2 != 0 then acc.2.2 ++ [(acc.2.1.length, acc.1.length)] else acc.2.2
        (acc.1 ++ tablesOfFrom env g b.1.2, acc.2.1 ++ b.1.1.map (colSpecOf env), bs)) acc).1
      = acc.1 ++ l.flatMap (fun b => tablesOfFrom env g b.1.2) := by
  induction l generalizing acc with
  | nil => simp
  | cons b r ih => simp only [List.foldl_cons, ih, List.flatMap_cons, List.append_assoc]

/-- all tables collected by `finishBranches` -/
def fbTables (env : Env) (g : LGraph) (branches : List (List Item × List FromExpr)) : List DObj :=
  branches.flatMap (fun b => tablesOfFrom env g b.2)

theorem tag_finishBranches (env : Env) (g : LGraph) (branches : List (List Item × List FromExpr)) (g' : LGraph)
    (h : finishBranches env g branches = .ok g') (d : DS) (t : Tag) :
    g'.tag (.ds d) t = if d ∈ (fbTables env g branches).map (·.d) ∧ t = .read then some true else g.tag (.ds d) t := by
  unfold finishBranches at h
  simp only at h
  split at h
  · rename_i g1 h1
    rw [← ok_inj h, (sameDs_expandWildcard _ _).eq, tag_endOfQueryCleanup _ _ _ _ _ _ _ h1, fb_fold_fst]
    simp only [List.nil_append]
    unfold fbTables
    conv => rhs; rw [← List.zipIdx_map_fst 0 branches, List.flatMap_map]
  · cases h

theorem adds_finishBranches (env : Env) (g : LGraph) (branches : List (List Item × List FromExpr)) (g' : LGraph)
    (hi : Inv g) (h : finishBranches env g branches = .ok g') :
    Adds g g' ((fbTables env g branches).map (·.d)) := by
  have T := tag_finishBranches env g branches g' h
  refine ⟨⟨?_, ?_, ?_⟩, ?_, ?_⟩
  · intro d; rw [T]; split
    · simp
    · exact hi.rd d
  · intro d; rw [T]; split
    · rename_i hx; cases hx.2
    · exact hi.cte d
  · intro d hd; rw [T]; split
    · rename_i hx; cases hx.2
    · exact hi.wr d hd
  · intro d _
    unfold RD; rw [T]
    by_cases hx : d ∈ (fbTables env g branches).map (·.d) <;> simp [hx]
  · intro d _
    unfold WR; rw [T]; rw [if_neg]
    intro hx; cases hx.2

/-! ## 2. the fragment and the DS‑valued specification -/

mutual
/-- the expression contains no subquery (at any depth) -/
def noSub : Expr → Bool
  | .col _ _ => true
  | .star _ => true
  | .lit _ => true
  | .func _ _ args over => noSubL args && (match over with | some (.mk p o) => noSubL p && noSubL o | none => true)
  | .cast e _ => noSub e
  | .case ws els => noSubW ws && (match els with | some e => noSub e | none => true)
  | .bin _ a b => noSub a && noSub b
  | .paren e => noSub e
  | .subq _ => false
  | .inSubq _ _ _ => false
  | .exist _ _ => false
def noSubL : List Expr → Bool
  | [] => true
  | e :: r => noSub e && noSubL r
def noSubW : List When → Bool
  | [] => true
  | .mk c r :: rest => noSub c && noSub r && noSubW rest
end

def noSubI : List Item → Bool
  | [] => true
  | .mk e _ _ :: r => noSub e && noSubI r

def noSubOpt : Option Expr → Bool
  | none => true
  | some e => noSub e

def isSelect : Query → Bool
  | .select .. => true
  | _ => false

mutual
/-- WHERE conditions the walk handles exactly: subqueries `(q)`, `x IN (q)`, `EXISTS (q)` combined by binary operators at
    the top level of the condition; every other operand is free of subqueries -/
def whereOK : Expr → Bool
  | .bin _ a b => whereOK a && whereOK b
  | .subq q => fragQ q
  | .inSubq x _ q => noSub x && fragQ q
  | .exist _ q => fragQ q
  | .col _ _ => true
  | .star _ => true
  | .lit _ => true
  | .func _ _ args over => noSubL args && (match over with | some (.mk p o) => noSubL p && noSubL o | none => true)
  | .cast e _ => noSub e
  | .case ws els => noSubW ws && (match els with | some e => noSub e | none => true)
  | .paren e => noSub e
/-- the fragment: no WITH; subqueries only as derived tables (anywhere in FROM), set‑operation branches and WHERE
    operands -/
def fragQ : Query → Bool
  | .select _ its frm wh grp hav =>
    noSubI its && fragFs frm && whereOKOpt wh && noSubL grp && noSubOpt hav
  | .setop first rest => fragB first && fragOBs rest
  | .withq _ _ => false
def whereOKOpt : Option Expr → Bool
  | none => true
  | some e => whereOK e
def fragB : Branch → Bool
  | .mk q _ => isSelect q && fragQ q
def fragOBs : List OpBranch → Bool
  | [] => true
  | .mk _ b :: r => fragB b && fragOBs r
def fragE : FromElem → Bool
  | .table _ _ _ => true
  | .derived q _ _ => fragQ q
def fragJs : List Join → Bool
  | [] => true
  | .mk _ e on _ :: r => fragE e && noSubOpt on && fragJs r
def fragF : FromExpr → Bool
  | .mk base js => fragE base && fragJs js
def fragFs : List FromExpr → Bool
  | [] => true
  | f :: r => fragF f && fragFs r
end

mutual
/-- datasets read by the subqueries of an expression (mirror of `Spec.rdExpr`) -/
def dsExpr (env : Env) (cte : List String) : Expr → List DS
  | .col _ _ | .star _ | .lit _ => []
  | .func _ _ args over => dsExprs env cte args ++ (match over with | some (.mk p o) => dsExprs env cte p ++ dsExprs env cte o | none => [])
  | .cast e _ => dsExpr env cte e
  | .case ws els => dsWhens env cte ws ++ (match els with | some e => dsExpr env cte e | none => [])
  | .bin _ a b => dsExpr env cte a ++ dsExpr env cte b
  | .paren e => dsExpr env cte e
  | .subq q => dsQuery env cte q
  | .inSubq e _ q => dsExpr env cte e ++ dsQuery env cte q
  | .exist _ q => dsQuery env cte q
def dsExprs (env : Env) (cte : List String) : List Expr → List DS
  | [] => []
  | e :: r => dsExpr env cte e ++ dsExprs env cte r
def dsOpt (env : Env) (cte : List String) : Option Expr → List DS
  | none => []
  | some e => dsExpr env cte e
def dsWhens (env : Env) (cte : List String) : List When → List DS
  | [] => []
  | .mk c r :: rest => (dsExpr env cte c ++ dsExpr env cte r) ++ dsWhens env cte rest
def dsItems (env : Env) (cte : List String) : List Item → List DS
  | [] => []
  | .mk e _ _ :: r => dsExpr env cte e ++ dsItems env cte r
/-- datasets read by a query; `cte` = normalised CTE names visible here (mirror of `Spec.rdQuery`) -/
def dsQuery (env : Env) (cte : List String) : Query → List DS
  | .select _ its frm wh grp hav =>
    (((dsFromExprs env cte frm ++ dsItems env cte its) ++ dsOpt env cte wh) ++ dsExprs env cte grp) ++ dsOpt env cte hav
  | .setop first rest => dsBranch env cte first ++ dsOpBranches env cte rest
  | .withq cs body => let r := dsCtes env cte cs; r.1 ++ dsQuery env r.2 body
def dsBranch (env : Env) (cte : List String) : Branch → List DS
  | .mk q _ => dsQuery env cte q
def dsOpBranches (env : Env) (cte : List String) : List OpBranch → List DS
  | [] => []
  | .mk _ b :: r => dsBranch env cte b ++ dsOpBranches env cte r
def dsCtes (env : Env) (cte : List String) : List Cte → List DS × List String
  | [] => ([], cte)
  | .mk name q :: r =>
    let rest := dsCtes env (cte ++ [Ident.escapeS name]) r
    (dsQuery env cte q ++ rest.1, rest.2)
def dsElem (env : Env) (cte : List String) : FromElem → List DS
  | .table parts _ _ =>
    match parts with
    | [n] => if cte.contains (Ident.escapeS n) then [] else [(mkTable env parts none).d]
    | _ => [(mkTable env parts none).d]
  | .derived q _ _ => dsQuery env cte q
def dsJoins (env : Env) (cte : List String) : List Join → List DS
  | [] => []
  | .mk _ e on _ :: r => (dsElem env cte e ++ dsOpt env cte on) ++ dsJoins env cte r
def dsFromExpr (env : Env) (cte : List String) : FromExpr → List DS
  | .mk base js => dsElem env cte base ++ dsJoins env cte js
def dsFromExprs (env : Env) (cte : List String) : List FromExpr → List DS
  | [] => []
  | f :: r => dsFromExpr env cte f ++ dsFromExprs env cte r
end

/-- printed name of a dataset (`Table.__str__` / `Path.__str__`) -/
def prDS (d : DS) : String := DObj.printed ⟨d, none⟩

theorem tableName_eq (env : Env) (parts : List String) : Spec.tableName env parts = prDS (mkTable env parts none).d := rfl

/-! ## 3. `Spec.rdQuery` = printed names of `dsQuery` -/

theorem mem_insertU (x y : String) (l : List String) : y ∈ Spec.insertU x l ↔ y ∈ l ∨ y = x := by
  unfold Spec.insertU
  by_cases h : l.contains x = true
  · rw [if_pos h]
    constructor
    · exact Or.inl
    · rintro (a | a)
      · exact a
      · rw [a]; simpa using h
  · rw [if_neg h]; simp

theorem mem_unionU (a b : List String) (y : String) : y ∈ Spec.unionU a b ↔ y ∈ a ∨ y ∈ b := by
  unfold Spec.unionU
  induction b generalizing a with
  | nil => simp
  | cons x r ih =>
    simp only [List.foldl_cons, ih, mem_insertU, List.mem_cons]
    constructor
    · rintro ((h | h) | h)
      · exact Or.inl h
      · exact Or.inr (Or.inl h)
      · exact Or.inr (Or.inr h)
    · rintro (h | h | h)
      · exact Or.inl (Or.inl h)
      · exact Or.inl (Or.inr h)
      · exact Or.inr h

theorem dsCtes_snd (env : Env) (cs : List Cte) (cte : List String) : (dsCtes env cte cs).2 = (Spec.rdCtes env cte cs).2 := by
  induction cs generalizing cte with
  | nil => simp [dsCtes, Spec.rdCtes]
  | cons c r ih => cases c with | mk name q => simp only [dsCtes, Spec.rdCtes, ih]

mutual
theorem mem_rdExpr_iff (env : Env) (cte : List String) (t : String) :
    (e : Expr) → (t ∈ Spec.rdExpr env cte e ↔ t ∈ (dsExpr env cte e).map prDS)
  | .col _ _ => by simp [Spec.rdExpr, dsExpr]
  | .star _ => by simp [Spec.rdExpr, dsExpr]
  | .lit _ => by simp [Spec.rdExpr, dsExpr]
  | .func _ _ args none => by
    have h1 := mem_rdExprs_iff env cte t args
    simp only [Spec.rdExpr, dsExpr, mem_unionU, List.map_append, List.mem_append, List.map_nil, h1]
  | .func _ _ args (some (.mk p o)) => by
    have h1 := mem_rdExprs_iff env cte t args
    have h2 := mem_rdExprs_iff env cte t p
    have h3 := mem_rdExprs_iff env cte t o
    simp only [Spec.rdExpr, dsExpr, mem_unionU, List.map_append, List.mem_append, h1, h2, h3]
  | .cast e _ => by
    have h1 := mem_rdExpr_iff env cte t e
    simp only [Spec.rdExpr, dsExpr, h1]
  | .case ws none => by
    have h1 := mem_rdWhens_iff env cte t ws
    simp only [Spec.rdExpr, dsExpr, mem_unionU, List.map_append, List.mem_append, List.map_nil, h1]
  | .case ws (some e) => by
    have h1 := mem_rdWhens_iff env cte t ws
    have h2 := mem_rdExpr_iff env cte t e
    simp only [Spec.rdExpr, dsExpr, mem_unionU, List.map_append, List.mem_append, h1, h2]
  | .bin _ a b => by
    have h1 := mem_rdExpr_iff env cte t a
    have h2 := mem_rdExpr_iff env cte t b
    simp only [Spec.rdExpr, dsExpr, mem_unionU, List.map_append, List.mem_append, h1, h2]
  | .paren e => by
    have h1 := mem_rdExpr_iff env cte t e
    simp only [Spec.rdExpr, dsExpr, h1]
  | .subq q => by
    have h1 := mem_rdQuery_iff env cte t q
    simp only [Spec.rdExpr, dsExpr, h1]
  | .inSubq e _ q => by
    have h1 := mem_rdExpr_iff env cte t e
    have h2 := mem_rdQuery_iff env cte t q
    simp only [Spec.rdExpr, dsExpr, mem_unionU, List.map_append, List.mem_append, h1, h2]
  | .exist _ q => by
    have h1 := mem_rdQuery_iff env cte t q
    simp only [Spec.rdExpr, dsExpr, h1]
theorem mem_rdExprs_iff (env : Env) (cte : List String) (t : String) :
    (l : List Expr) → (t ∈ Spec.rdExprs env cte l ↔ t ∈ (dsExprs env cte l).map prDS)
  | [] => by simp [Spec.rdExprs, dsExprs]
  | e :: r => by
    have h1 := mem_rdExpr_iff env cte t e
    have h2 := mem_rdExprs_iff env cte t r
    simp only [Spec.rdExprs, dsExprs, mem_unionU, List.map_append, List.mem_append, h1, h2]
theorem mem_rdOpt_iff (env : Env) (cte : List String) (t : String) :
    (o : Option Expr) → (t ∈ Spec.rdOpt env cte o ↔ t ∈ (dsOpt env cte o).map prDS)
  | none => by simp [Spec.rdOpt, dsOpt]
  | some e => by
    have h1 := mem_rdExpr_iff env cte t e
    simp only [Spec.rdOpt, dsOpt, h1]
theorem mem_rdWhens_iff (env : Env) (cte : List String) (t : String) :
    (l : List When) → (t ∈ Spec.rdWhens env cte l ↔ t ∈ (dsWhens env cte l).map prDS)
  | [] => by simp [Spec.rdWhens, dsWhens]
  | .mk c r :: rest => by
    have h1 := mem_rdExpr_iff env cte t c
    have h2 := mem_rdExpr_iff env cte t r
    have h3 := mem_rdWhens_iff env cte t rest
    simp only [Spec.rdWhens, dsWhens, mem_unionU, List.map_append, List.mem_append, h1, h2, h3]
theorem mem_rdItems_iff (env : Env) (cte : List String) (t : String) :
    (l : List Item) → (t ∈ Spec.rdItems env cte l ↔ t ∈ (dsItems env cte l).map prDS)
  | [] => by simp [Spec.rdItems, dsItems]
  | .mk e _ _ :: r => by
    have h1 := mem_rdExpr_iff env cte t e
    have h2 := mem_rdItems_iff env cte t r
    simp only [Spec.rdItems, dsItems, mem_unionU, List.map_append, List.mem_append, h1, h2]
/-- **the string‑valued specification is the image of the DS‑valued one** (every query, every scope) -/
theorem mem_rdQuery_iff (env : Env) (cte : List String) (t : String) :
    (q : Query) → (t ∈ Spec.rdQuery env cte q ↔ t ∈ (dsQuery env cte q).map prDS)
  | .select _ its frm wh grp hav => by
    have h1 := mem_rdFromExprs_iff env cte t frm
    have h2 := mem_rdItems_iff env cte t its
    have h3 := mem_rdOpt_iff env cte t wh
    have h4 := mem_rdExprs_iff env cte t grp
    have h5 := mem_rdOpt_iff env cte t hav
    simp only [Spec.rdQuery, dsQuery, mem_unionU, List.map_append, List.mem_append, h1, h2, h3, h4, h5]
  | .setop first rest => by
    have h1 := mem_rdBranch_iff env cte t first
    have h2 := mem_rdOpBranches_iff env cte t rest
    simp only [Spec.rdQuery, dsQuery, mem_unionU, List.map_append, List.mem_append, h1, h2]
  | .withq cs body => by
    have h1 := mem_rdCtes_iff env cte t cs
    have h2 := mem_rdQuery_iff env (Spec.rdCtes env cte cs).2 t body
    simp only [Spec.rdQuery, dsQuery, mem_unionU, List.map_append, List.mem_append, h1, h2, dsCtes_snd]
theorem mem_rdBranch_iff (env : Env) (cte : List String) (t : String) :
    (b : Branch) → (t ∈ Spec.rdBranch env cte b ↔ t ∈ (dsBranch env cte b).map prDS)
  | .mk q _ => by
    have h1 := mem_rdQuery_iff env cte t q
    simp only [Spec.rdBranch, dsBranch, h1]
theorem mem_rdOpBranches_iff (env : Env) (cte : List String) (t : String) :
    (l : List OpBranch) → (t ∈ Spec.rdOpBranches env cte l ↔ t ∈ (dsOpBranches env cte l).map prDS)
  | [] => by simp [Spec.rdOpBranches, dsOpBranches]
  | .mk _ b :: r => by
    have h1 := mem_rdBranch_iff env cte t b
    have h2 := mem_rdOpBranches_iff env cte t r
    simp only [Spec.rdOpBranches, dsOpBranches, mem_unionU, List.map_append, List.mem_append, h1, h2]
theorem mem_rdCtes_iff (env : Env) (cte : List String) (t : String) :
    (l : List Cte) → (t ∈ (Spec.rdCtes env cte l).1 ↔ t ∈ (dsCtes env cte l).1.map prDS)
  | [] => by simp [Spec.rdCtes, dsCtes]
  | .mk name q :: r => by
    have h1 := mem_rdQuery_iff env cte t q
    have h2 := mem_rdCtes_iff env (cte ++ [Ident.escapeS name]) t r
    simp only [Spec.rdCtes, dsCtes, mem_unionU, List.map_append, List.mem_append, h1, h2]
theorem mem_rdElem_iff (env : Env) (cte : List String) (t : String) :
    (e : FromElem) → (t ∈ Spec.rdElem env cte e ↔ t ∈ (dsElem env cte e).map prDS)
  | .table [] _ _ => by simp [Spec.rdElem, dsElem, tableName_eq]
  | .table [n] _ _ => by
    simp only [Spec.rdElem, dsElem]
    by_cases h : cte.contains (Ident.escapeS n) = true
    · rw [if_pos h, if_pos h]; simp
    · rw [if_neg h, if_neg h]; simp [tableName_eq]
  | .table (_ :: _ :: _) _ _ => by simp [Spec.rdElem, dsElem, tableName_eq]
  | .derived q _ _ => by
    have h1 := mem_rdQuery_iff env cte t q
    simp only [Spec.rdElem, dsElem, h1]
theorem mem_rdJoins_iff (env : Env) (cte : List String) (t : String) :
    (l : List Join) → (t ∈ Spec.rdJoins env cte l ↔ t ∈ (dsJoins env cte l).map prDS)
  | [] => by simp [Spec.rdJoins, dsJoins]
  | .mk _ e on _ :: r => by
    have h1 := mem_rdElem_iff env cte t e
    have h2 := mem_rdOpt_iff env cte t on
    have h3 := mem_rdJoins_iff env cte t r
    simp only [Spec.rdJoins, dsJoins, mem_unionU, List.map_append, List.mem_append, h1, h2, h3]
theorem mem_rdFromExpr_iff (env : Env) (cte : List String) (t : String) :
    (f : FromExpr) → (t ∈ Spec.rdFromExpr env cte f ↔ t ∈ (dsFromExpr env cte f).map prDS)
  | .mk base js => by
    have h1 := mem_rdElem_iff env cte t base
    have h2 := mem_rdJoins_iff env cte t js
    simp only [Spec.rdFromExpr, dsFromExpr, mem_unionU, List.map_append, List.mem_append, h1, h2]
theorem mem_rdFromExprs_iff (env : Env) (cte : List String) (t : String) :
    (l : List FromExpr) → (t ∈ Spec.rdFromExprs env cte l ↔ t ∈ (dsFromExprs env cte l).map prDS)
  | [] => by simp [Spec.rdFromExprs, dsFromExprs]
  | f :: r => by
    have h1 := mem_rdFromExpr_iff env cte t f
    have h2 := mem_rdFromExprs_iff env cte t r
    simp only [Spec.rdFromExprs, dsFromExprs, mem_unionU, List.map_append, List.mem_append, h1, h2]
end

/-! ### equation lemmas of the walk that Lean cannot generate itself (all by `rfl`) -/

section eqns
variable (env : Env) (g : LGraph)
set_option smartUnfolding false

theorem sqDeep_col (q n) : sqDeep env (.col q n) g = .ok g := rfl
theorem sqDeep_star (q) : sqDeep env (.star q) g = .ok g := rfl
theorem sqDeep_lit (x) : sqDeep env (.lit x) g = .ok g := rfl
theorem sqDeep_func_none (n d args) : sqDeep env (.func n d args none) g =
    (match sqDeepL env args g with | .error x => .error x | .ok g' => .ok g') := rfl
theorem sqDeep_func_some (n d args p o) : sqDeep env (.func n d args (some (.mk p o))) g =
    (match sqDeepL env args g with
      | .error x => .error x
      | .ok g' => (match sqDeepL env p g' with | .error x => .error x | .ok g'' => sqDeepL env o g'')) := rfl
theorem sqDeep_cast (e t) : sqDeep env (.cast e t) g = sqDeep env e g := rfl
theorem sqDeep_case_none (ws) : sqDeep env (.case ws none) g =
    (match sqDeepW env ws g with | .error x => .error x | .ok g' => .ok g') := rfl
theorem sqDeep_case_some (ws e) : sqDeep env (.case ws (some e)) g =
    (match sqDeepW env ws g with | .error x => .error x | .ok g' => sqDeep env e g') := rfl
theorem sqDeep_bin (op a b) : sqDeep env (.bin op a b) g =
    (match sqDeep env a g with | .error x => .error x | .ok g' => sqDeep env b g') := rfl
theorem sqDeep_paren (e) : sqDeep env (.paren e) g = sqDeep env e g := rfl
theorem sqDeepL_nil : sqDeepL env [] g = .ok g := rfl
theorem sqDeepL_cons (e r) : sqDeepL env (e :: r) g =
    (match sqDeep env e g with | .error x => .error x | .ok g' => sqDeepL env r g') := rfl
theorem sqDeepW_nil : sqDeepW env [] g = .ok g := rfl
theorem sqDeepW_cons (c r rest) : sqDeepW env (.mk c r :: rest) g =
    (match sqDeep env c g with
      | .error x => .error x
      | .ok g' => (match sqDeep env r g' with | .error x => .error x | .ok g'' => sqDeepW env rest g'')) := rfl

theorem cjExpr_col (q n) : cjExpr env (.col q n) g = .ok g := rfl
theorem cjExpr_star (q) : cjExpr env (.star q) g = .ok g := rfl
theorem cjExpr_lit (x) : cjExpr env (.lit x) g = .ok g := rfl
theorem cjExpr_func_none (n d args) : cjExpr env (.func n d args none) g =
    (match cjExprs env args g with | .error x => .error x | .ok g' => .ok g') := rfl
theorem cjExpr_func_some (n d args p o) : cjExpr env (.func n d args (some (.mk p o))) g =
    (match cjExprs env args g with
      | .error x => .error x
      | .ok g' => (match cjExprs env p g' with | .error x => .error x | .ok g'' => cjExprs env o g'')) := rfl
theorem cjExpr_cast (e t) : cjExpr env (.cast e t) g = cjExpr env e g := rfl
theorem cjExpr_case_none (ws) : cjExpr env (.case ws none) g =
    (match cjWhens env ws g with | .error x => .error x | .ok g' => .ok g') := rfl
theorem cjExpr_case_some (ws e) : cjExpr env (.case ws (some e)) g =
    (match cjWhens env ws g with | .error x => .error x | .ok g' => cjExpr env e g') := rfl
theorem cjExpr_bin (op a b) : cjExpr env (.bin op a b) g =
    (match cjExpr env a g with | .error x => .error x | .ok g' => cjExpr env b g') := rfl
theorem cjExpr_paren (e) : cjExpr env (.paren e) g = cjExpr env e g := rfl
theorem cjExpr_subq (q) : cjExpr env (.subq q) g = cjQuery env q g := rfl
theorem cjExpr_inSubq (e n q) : cjExpr env (.inSubq e n q) g =
    (match cjExpr env e g with | .error x => .error x | .ok g' => cjQuery env q g') := rfl
theorem cjExpr_exist (n q) : cjExpr env (.exist n q) g = cjQuery env q g := rfl
theorem cjExprs_nil : cjExprs env [] g = .ok g := rfl
theorem cjExprs_cons (e r) : cjExprs env (e :: r) g =
    (match cjExpr env e g with | .error x => .error x | .ok g' => cjExprs env r g') := rfl
theorem cjWhens_nil : cjWhens env [] g = .ok g := rfl
theorem cjWhens_cons (c r rest) : cjWhens env (.mk c r :: rest) g =
    (match cjExpr env c g with
      | .error x => .error x
      | .ok g' => (match cjExpr env r g' with | .error x => .error x | .ok g'' => cjWhens env rest g'')) := rfl
theorem cjOptExpr_none : cjOptExpr env none g = .ok g := rfl
theorem cjOptExpr_some (e) : cjOptExpr env (some e) g = cjExpr env e g := rfl
theorem cjItems_nil : cjItems env [] g = .ok g := rfl
theorem cjItems_cons (e a k r) : cjItems env (.mk e a k :: r) g =
    (match cjExpr env e g with | .error x => .error x | .ok g' => cjItems env r g') := rfl

theorem sqItems_nil : sqItems env [] g = .ok g := rfl
theorem sqItems_col (q n a k r) : sqItems env (.mk (.col q n) a k :: r) g = sqItems env r g := rfl
theorem sqItems_star (q a k r) : sqItems env (.mk (.star q) a k :: r) g = sqItems env r g := rfl
theorem sqItems_lit (x a k r) : sqItems env (.mk (.lit x) a k :: r) g = sqItems env r g := rfl
theorem sqItems_func (n d args over a k r) : sqItems env (.mk (.func n d args over) a k :: r) g =
    (match sqDeep env (.func n d args over) g with | .error x => .error x | .ok g' => sqItems env r g') := by
  cases over with
  | none => rfl
  | some ov => cases ov; rfl
theorem sqItems_cast (e t a k r) : sqItems env (.mk (.cast e t) a k :: r) g =
    (match sqDeep env e g with | .error x => .error x | .ok g' => sqItems env r g') := rfl
theorem sqItems_case (ws els a k r) : sqItems env (.mk (.case ws els) a k :: r) g =
    (match (match sqFirstCase env (.case ws els) a g with | .error x => Except.error x | .ok p => Except.ok p.2) with
      | .error x => .error x | .ok g' => sqItems env r g') := rfl
theorem sqItems_bin (op x y a k r) : sqItems env (.mk (.bin op x y) a k :: r) g =
    (match (match sqFirstCase env (.bin op x y) a g with | .error x => Except.error x | .ok p => Except.ok p.2) with
      | .error x => .error x | .ok g' => sqItems env r g') := rfl
theorem sqItems_paren (x a k r) : sqItems env (.mk (.paren x) a k :: r) g =
    (match (match sqFirstCase env (.paren x) a g with | .error x => Except.error x | .ok p => Except.ok p.2) with
      | .error x => .error x | .ok g' => sqItems env r g') := rfl

end eqns

/-! ## 4. expressions without subqueries: nothing to find -/

mutual
theorem dsExpr_noSub (env : Env) (cte : List String) : (e : Expr) → noSub e = true → dsExpr env cte e = []
  | .col _ _, _ => by simp only [dsExpr, dsExprs, dsWhens]
  | .star _, _ => by simp only [dsExpr, dsExprs, dsWhens]
  | .lit _, _ => by simp only [dsExpr, dsExprs, dsWhens]
  | .func _ _ as none, h => by
    simp only [noSub, Bool.and_true] at h
    simp only [dsExpr, dsExprs, dsWhens, dsExpr_noSubL env cte as h, List.append_nil]
  | .func _ _ as (some (.mk p o)), h => by
    simp only [noSub, Bool.and_eq_true] at h
    simp only [dsExpr, dsExprs, dsWhens, dsExpr_noSubL env cte as h.1, dsExpr_noSubL env cte p h.2.1, dsExpr_noSubL env cte o h.2.2, List.append_nil]
  | .cast e _, h => by
    simp only [noSub] at h
    simp only [dsExpr, dsExprs, dsWhens, dsExpr_noSub env cte e h]
  | .case ws none, h => by
    simp only [noSub, Bool.and_true] at h
    simp only [dsExpr, dsExprs, dsWhens, dsExpr_noSubW env cte ws h, List.append_nil]
  | .case ws (some e), h => by
    simp only [noSub, Bool.and_eq_true] at h
    simp only [dsExpr, dsExprs, dsWhens, dsExpr_noSubW env cte ws h.1, dsExpr_noSub env cte e h.2, List.append_nil]
  | .bin _ a b, h => by
    simp only [noSub, Bool.and_eq_true] at h
    simp only [dsExpr, dsExprs, dsWhens, dsExpr_noSub env cte a h.1, dsExpr_noSub env cte b h.2, List.append_nil]
  | .paren e, h => by
    simp only [noSub] at h
    simp only [dsExpr, dsExprs, dsWhens, dsExpr_noSub env cte e h]
  | .subq _, h => by simp [noSub] at h
  | .inSubq _ _ _, h => by simp [noSub] at h
  | .exist _ _, h => by simp [noSub] at h
theorem dsExpr_noSubL (env : Env) (cte : List String) : (l : List Expr) → noSubL l = true → dsExprs env cte l = []
  | [], _ => by simp only [dsExpr, dsExprs, dsWhens]
  | e :: r, h => by
    simp only [noSubL, Bool.and_eq_true] at h
    simp only [dsExpr, dsExprs, dsWhens, dsExpr_noSub env cte e h.1, dsExpr_noSubL env cte r h.2, List.append_nil]
theorem dsExpr_noSubW (env : Env) (cte : List String) : (l : List When) → noSubW l = true → dsWhens env cte l = []
  | [], _ => by simp only [dsExpr, dsExprs, dsWhens]
  | .mk c r :: rest, h => by
    simp only [noSubW, Bool.and_eq_true] at h
    simp only [dsExpr, dsExprs, dsWhens, dsExpr_noSub env cte c h.1.1, dsExpr_noSub env cte r h.1.2, dsExpr_noSubW env cte rest h.2, List.append_nil]
end

mutual
theorem cdExpr_noSub (env : Env) (g : LGraph) : (e : Expr) → noSub e = true → cdExpr env g e = []
  | .col _ _, _ => by simp only [cdExpr, cdExprs, cdWhens]
  | .star _, _ => by simp only [cdExpr, cdExprs, cdWhens]
  | .lit _, _ => by simp only [cdExpr, cdExprs, cdWhens]
  | .func _ _ as none, h => by
    simp only [noSub, Bool.and_true] at h
    simp only [cdExpr, cdExprs, cdWhens, cdExpr_noSubL env g as h, List.append_nil]
  | .func _ _ as (some (.mk p o)), h => by
    simp only [noSub, Bool.and_eq_true] at h
    simp only [cdExpr, cdExprs, cdWhens, cdExpr_noSubL env g as h.1, cdExpr_noSubL env g p h.2.1, cdExpr_noSubL env g o h.2.2, List.append_nil]
  | .cast e _, h => by
    simp only [noSub] at h
    simp only [cdExpr, cdExprs, cdWhens, cdExpr_noSub env g e h]
  | .case ws none, h => by
    simp only [noSub, Bool.and_true] at h
    simp only [cdExpr, cdExprs, cdWhens, cdExpr_noSubW env g ws h, List.append_nil]
  | .case ws (some e), h => by
    simp only [noSub, Bool.and_eq_true] at h
    simp only [cdExpr, cdExprs, cdWhens, cdExpr_noSubW env g ws h.1, cdExpr_noSub env g e h.2, List.append_nil]
  | .bin _ a b, h => by
    simp only [noSub, Bool.and_eq_true] at h
    simp only [cdExpr, cdExprs, cdWhens, cdExpr_noSub env g a h.1, cdExpr_noSub env g b h.2, List.append_nil]
  | .paren e, h => by
    simp only [noSub] at h
    simp only [cdExpr, cdExprs, cdWhens, cdExpr_noSub env g e h]
  | .subq _, h => by simp [noSub] at h
  | .inSubq _ _ _, h => by simp [noSub] at h
  | .exist _ _, h => by simp [noSub] at h
theorem cdExpr_noSubL (env : Env) (g : LGraph) : (l : List Expr) → noSubL l = true → cdExprs env g l = []
  | [], _ => by simp only [cdExpr, cdExprs, cdWhens]
  | e :: r, h => by
    simp only [noSubL, Bool.and_eq_true] at h
    simp only [cdExpr, cdExprs, cdWhens, cdExpr_noSub env g e h.1, cdExpr_noSubL env g r h.2, List.append_nil]
theorem cdExpr_noSubW (env : Env) (g : LGraph) : (l : List When) → noSubW l = true → cdWhens env g l = []
  | [], _ => by simp only [cdExpr, cdExprs, cdWhens]
  | .mk c r :: rest, h => by
    simp only [noSubW, Bool.and_eq_true] at h
    simp only [cdExpr, cdExprs, cdWhens, cdExpr_noSub env g c h.1.1, cdExpr_noSub env g r h.1.2, cdExpr_noSubW env g rest h.2, List.append_nil]
end

mutual
theorem sqDeep_noSub (env : Env) (g : LGraph) : (e : Expr) → noSub e = true → sqDeep env e g = .ok g
  | .col _ _, _ => by simp only [sqDeep_col, sqDeep_star, sqDeep_lit, sqDeep_func_none, sqDeep_func_some, sqDeep_cast, sqDeep_case_none, sqDeep_case_some, sqDeep_bin, sqDeep_paren, sqDeepL_nil, sqDeepL_cons, sqDeepW_nil, sqDeepW_cons]
  | .star _, _ => by simp only [sqDeep_col, sqDeep_star, sqDeep_lit, sqDeep_func_none, sqDeep_func_some, sqDeep_cast, sqDeep_case_none, sqDeep_case_some, sqDeep_bin, sqDeep_paren, sqDeepL_nil, sqDeepL_cons, sqDeepW_nil, sqDeepW_cons]
  | .lit _, _ => by simp only [sqDeep_col, sqDeep_star, sqDeep_lit, sqDeep_func_none, sqDeep_func_some, sqDeep_cast, sqDeep_case_none, sqDeep_case_some, sqDeep_bin, sqDeep_paren, sqDeepL_nil, sqDeepL_cons, sqDeepW_nil, sqDeepW_cons]
  | .func _ _ as none, h => by
    simp only [noSub, Bool.and_true] at h
    simp only [sqDeep_col, sqDeep_star, sqDeep_lit, sqDeep_func_none, sqDeep_func_some, sqDeep_cast, sqDeep_case_none, sqDeep_case_some, sqDeep_bin, sqDeep_paren, sqDeepL_nil, sqDeepL_cons, sqDeepW_nil, sqDeepW_cons, sqDeep_noSubL env g as h]
  | .func _ _ as (some (.mk p o)), h => by
    simp only [noSub, Bool.and_eq_true] at h
    simp only [sqDeep_col, sqDeep_star, sqDeep_lit, sqDeep_func_none, sqDeep_func_some, sqDeep_cast, sqDeep_case_none, sqDeep_case_some, sqDeep_bin, sqDeep_paren, sqDeepL_nil, sqDeepL_cons, sqDeepW_nil, sqDeepW_cons, sqDeep_noSubL env g as h.1, sqDeep_noSubL env g p h.2.1, sqDeep_noSubL env g o h.2.2]
  | .cast e _, h => by
    simp only [noSub] at h
    simp only [sqDeep_col, sqDeep_star, sqDeep_lit, sqDeep_func_none, sqDeep_func_some, sqDeep_cast, sqDeep_case_none, sqDeep_case_some, sqDeep_bin, sqDeep_paren, sqDeepL_nil, sqDeepL_cons, sqDeepW_nil, sqDeepW_cons, sqDeep_noSub env g e h]
  | .case ws none, h => by
    simp only [noSub, Bool.and_true] at h
    simp only [sqDeep_col, sqDeep_star, sqDeep_lit, sqDeep_func_none, sqDeep_func_some, sqDeep_cast, sqDeep_case_none, sqDeep_case_some, sqDeep_bin, sqDeep_paren, sqDeepL_nil, sqDeepL_cons, sqDeepW_nil, sqDeepW_cons, sqDeep_noSubW env g ws h]
  | .case ws (some e), h => by
    simp only [noSub, Bool.and_eq_true] at h
    simp only [sqDeep_col, sqDeep_star, sqDeep_lit, sqDeep_func_none, sqDeep_func_some, sqDeep_cast, sqDeep_case_none, sqDeep_case_some, sqDeep_bin, sqDeep_paren, sqDeepL_nil, sqDeepL_cons, sqDeepW_nil, sqDeepW_cons, sqDeep_noSubW env g ws h.1, sqDeep_noSub env g e h.2]
  | .bin _ a b, h => by
    simp only [noSub, Bool.and_eq_true] at h
    simp only [sqDeep_col, sqDeep_star, sqDeep_lit, sqDeep_func_none, sqDeep_func_some, sqDeep_cast, sqDeep_case_none, sqDeep_case_some, sqDeep_bin, sqDeep_paren, sqDeepL_nil, sqDeepL_cons, sqDeepW_nil, sqDeepW_cons, sqDeep_noSub env g a h.1, sqDeep_noSub env g b h.2]
  | .paren e, h => by
    simp only [noSub] at h
    simp only [sqDeep_col, sqDeep_star, sqDeep_lit, sqDeep_func_none, sqDeep_func_some, sqDeep_cast, sqDeep_case_none, sqDeep_case_some, sqDeep_bin, sqDeep_paren, sqDeepL_nil, sqDeepL_cons, sqDeepW_nil, sqDeepW_cons, sqDeep_noSub env g e h]
  | .subq _, h => by simp [noSub] at h
  | .inSubq _ _ _, h => by simp [noSub] at h
  | .exist _ _, h => by simp [noSub] at h
theorem sqDeep_noSubL (env : Env) (g : LGraph) : (l : List Expr) → noSubL l = true → sqDeepL env l g = .ok g
  | [], _ => by simp only [sqDeep_col, sqDeep_star, sqDeep_lit, sqDeep_func_none, sqDeep_func_some, sqDeep_cast, sqDeep_case_none, sqDeep_case_some, sqDeep_bin, sqDeep_paren, sqDeepL_nil, sqDeepL_cons, sqDeepW_nil, sqDeepW_cons]
  | e :: r, h => by
    simp only [noSubL, Bool.and_eq_true] at h
    simp only [sqDeep_col, sqDeep_star, sqDeep_lit, sqDeep_func_none, sqDeep_func_some, sqDeep_cast, sqDeep_case_none, sqDeep_case_some, sqDeep_bin, sqDeep_paren, sqDeepL_nil, sqDeepL_cons, sqDeepW_nil, sqDeepW_cons, sqDeep_noSub env g e h.1, sqDeep_noSubL env g r h.2]
theorem sqDeep_noSubW (env : Env) (g : LGraph) : (l : List When) → noSubW l = true → sqDeepW env l g = .ok g
  | [], _ => by simp only [sqDeep_col, sqDeep_star, sqDeep_lit, sqDeep_func_none, sqDeep_func_some, sqDeep_cast, sqDeep_case_none, sqDeep_case_some, sqDeep_bin, sqDeep_paren, sqDeepL_nil, sqDeepL_cons, sqDeepW_nil, sqDeepW_cons]
  | .mk c r :: rest, h => by
    simp only [noSubW, Bool.and_eq_true] at h
    simp only [sqDeep_col, sqDeep_star, sqDeep_lit, sqDeep_func_none, sqDeep_func_some, sqDeep_cast, sqDeep_case_none, sqDeep_case_some, sqDeep_bin, sqDeep_paren, sqDeepL_nil, sqDeepL_cons, sqDeepW_nil, sqDeepW_cons, sqDeep_noSub env g c h.1.1, sqDeep_noSub env g r h.1.2, sqDeep_noSubW env g rest h.2]
end

mutual
theorem cjExpr_noSub (env : Env) (g : LGraph) : (e : Expr) → noSub e = true → cjExpr env e g = .ok g
  | .col _ _, _ => by simp only [cjExpr_col, cjExpr_star, cjExpr_lit, cjExpr_func_none, cjExpr_func_some, cjExpr_cast, cjExpr_case_none, cjExpr_case_some, cjExpr_bin, cjExpr_paren, cjExprs_nil, cjExprs_cons, cjWhens_nil, cjWhens_cons]
  | .star _, _ => by simp only [cjExpr_col, cjExpr_star, cjExpr_lit, cjExpr_func_none, cjExpr_func_some, cjExpr_cast, cjExpr_case_none, cjExpr_case_some, cjExpr_bin, cjExpr_paren, cjExprs_nil, cjExprs_cons, cjWhens_nil, cjWhens_cons]
  | .lit _, _ => by simp only [cjExpr_col, cjExpr_star, cjExpr_lit, cjExpr_func_none, cjExpr_func_some, cjExpr_cast, cjExpr_case_none, cjExpr_case_some, cjExpr_bin, cjExpr_paren, cjExprs_nil, cjExprs_cons, cjWhens_nil, cjWhens_cons]
  | .func _ _ as none, h => by
    simp only [noSub, Bool.and_true] at h
    simp only [cjExpr_col, cjExpr_star, cjExpr_lit, cjExpr_func_none, cjExpr_func_some, cjExpr_cast, cjExpr_case_none, cjExpr_case_some, cjExpr_bin, cjExpr_paren, cjExprs_nil, cjExprs_cons, cjWhens_nil, cjWhens_cons, cjExpr_noSubL env g as h]
  | .func _ _ as (some (.mk p o)), h => by
    simp only [noSub, Bool.and_eq_true] at h
    simp only [cjExpr_col, cjExpr_star, cjExpr_lit, cjExpr_func_none, cjExpr_func_some, cjExpr_cast, cjExpr_case_none, cjExpr_case_some, cjExpr_bin, cjExpr_paren, cjExprs_nil, cjExprs_cons, cjWhens_nil, cjWhens_cons, cjExpr_noSubL env g as h.1, cjExpr_noSubL env g p h.2.1, cjExpr_noSubL env g o h.2.2]
  | .cast e _, h => by
    simp only [noSub] at h
    simp only [cjExpr_col, cjExpr_star, cjExpr_lit, cjExpr_func_none, cjExpr_func_some, cjExpr_cast, cjExpr_case_none, cjExpr_case_some, cjExpr_bin, cjExpr_paren, cjExprs_nil, cjExprs_cons, cjWhens_nil, cjWhens_cons, cjExpr_noSub env g e h]
  | .case ws none, h => by
    simp only [noSub, Bool.and_true] at h
    simp only [cjExpr_col, cjExpr_star, cjExpr_lit, cjExpr_func_none, cjExpr_func_some, cjExpr_cast, cjExpr_case_none, cjExpr_case_some, cjExpr_bin, cjExpr_paren, cjExprs_nil, cjExprs_cons, cjWhens_nil, cjWhens_cons, cjExpr_noSubW env g ws h]
  | .case ws (some e), h => by
    simp only [noSub, Bool.and_eq_true] at h
    simp only [cjExpr_col, cjExpr_star, cjExpr_lit, cjExpr_func_none, cjExpr_func_some, cjExpr_cast, cjExpr_case_none, cjExpr_case_some, cjExpr_bin, cjExpr_paren, cjExprs_nil, cjExprs_cons, cjWhens_nil, cjWhens_cons, cjExpr_noSubW env g ws h.1, cjExpr_noSub env g e h.2]
  | .bin _ a b, h => by
    simp only [noSub, Bool.and_eq_true] at h
    simp only [cjExpr_col, cjExpr_star, cjExpr_lit, cjExpr_func_none, cjExpr_func_some, cjExpr_cast, cjExpr_case_none, cjExpr_case_some, cjExpr_bin, cjExpr_paren, cjExprs_nil, cjExprs_cons, cjWhens_nil, cjWhens_cons, cjExpr_noSub env g a h.1, cjExpr_noSub env g b h.2]
  | .paren e, h => by
    simp only [noSub] at h
    simp only [cjExpr_col, cjExpr_star, cjExpr_lit, cjExpr_func_none, cjExpr_func_some, cjExpr_cast, cjExpr_case_none, cjExpr_case_some, cjExpr_bin, cjExpr_paren, cjExprs_nil, cjExprs_cons, cjWhens_nil, cjWhens_cons, cjExpr_noSub env g e h]
  | .subq _, h => by simp [noSub] at h
  | .inSubq _ _ _, h => by simp [noSub] at h
  | .exist _ _, h => by simp [noSub] at h
theorem cjExpr_noSubL (env : Env) (g : LGraph) : (l : List Expr) → noSubL l = true → cjExprs env l g = .ok g
  | [], _ => by simp only [cjExpr_col, cjExpr_star, cjExpr_lit, cjExpr_func_none, cjExpr_func_some, cjExpr_cast, cjExpr_case_none, cjExpr_case_some, cjExpr_bin, cjExpr_paren, cjExprs_nil, cjExprs_cons, cjWhens_nil, cjWhens_cons]
  | e :: r, h => by
    simp only [noSubL, Bool.and_eq_true] at h
    simp only [cjExpr_col, cjExpr_star, cjExpr_lit, cjExpr_func_none, cjExpr_func_some, cjExpr_cast, cjExpr_case_none, cjExpr_case_some, cjExpr_bin, cjExpr_paren, cjExprs_nil, cjExprs_cons, cjWhens_nil, cjWhens_cons, cjExpr_noSub env g e h.1, cjExpr_noSubL env g r h.2]
theorem cjExpr_noSubW (env : Env) (g : LGraph) : (l : List When) → noSubW l = true → cjWhens env l g = .ok g
  | [], _ => by simp only [cjExpr_col, cjExpr_star, cjExpr_lit, cjExpr_func_none, cjExpr_func_some, cjExpr_cast, cjExpr_case_none, cjExpr_case_some, cjExpr_bin, cjExpr_paren, cjExprs_nil, cjExprs_cons, cjWhens_nil, cjWhens_cons]
  | .mk c r :: rest, h => by
    simp only [noSubW, Bool.and_eq_true] at h
    simp only [cjExpr_col, cjExpr_star, cjExpr_lit, cjExpr_func_none, cjExpr_func_some, cjExpr_cast, cjExpr_case_none, cjExpr_case_some, cjExpr_bin, cjExpr_paren, cjExprs_nil, cjExprs_cons, cjWhens_nil, cjWhens_cons, cjExpr_noSub env g c h.1.1, cjExpr_noSub env g r h.1.2, cjExpr_noSubW env g rest h.2]
end

theorem dsOpt_noSub (env : Env) (cte : List String) (o : Option Expr) (h : noSubOpt o = true) : dsOpt env cte o = [] := by
  cases o with
  | none => simp only [dsOpt]
  | some e => simp only [noSubOpt] at h; simp only [dsOpt, dsExpr_noSub env cte e h]

theorem dsItems_noSub (env : Env) (cte : List String) (its : List Item) (h : noSubI its = true) : dsItems env cte its = [] := by
  induction its with
  | nil => simp only [dsItems]
  | cons it r ih =>
    cases it with
    | mk e a k =>
      simp only [noSubI, Bool.and_eq_true] at h
      simp only [dsItems, dsExpr_noSub env cte e h.1, ih h.2, List.append_nil]

theorem cdItems_noSub (env : Env) (g : LGraph) (its : List Item) (h : noSubI its = true) : cdItems env g its = [] := by
  induction its with
  | nil => simp only [cdItems]
  | cons it r ih =>
    cases it with
    | mk e a k =>
      simp only [noSubI, Bool.and_eq_true] at h
      simp only [cdItems, cdExpr_noSub env g e h.1, ih h.2, List.append_nil]

theorem cjOptExpr_noSub (env : Env) (g : LGraph) (o : Option Expr) (h : noSubOpt o = true) : cjOptExpr env o g = .ok g := by
  cases o with
  | none => simp only [cjOptExpr_none]
  | some e => simp only [noSubOpt] at h; simp only [cjOptExpr_some, cjExpr_noSub env g e h]

theorem cjItems_noSub (env : Env) (its : List Item) (g : LGraph) (h : noSubI its = true) : cjItems env its g = .ok g := by
  induction its with
  | nil => simp only [cjItems_nil]
  | cons it r ih =>
    cases it with
    | mk e a k =>
      simp only [noSubI, Bool.and_eq_true] at h
      simp only [cjItems_cons, cjExpr_noSub env g e h.1, ih h.2]

/-- the CASE branch of `list_subqueries` (`inner = false`) finds nothing -/
theorem sqDirect_false_noSub (env : Env) (alias : Option String) (g : LGraph) :
    (e : Expr) → noSub e = true → sqDirect env false e alias g = .ok g
  | .bin _ a b, h => by
    simp only [noSub, Bool.and_eq_true] at h
    simp only [sqDirect, sqDirect_false_noSub env alias g a h.1, sqDirect_false_noSub env alias g b h.2]
  | .subq _, h => by simp [noSub] at h
  | .inSubq _ _ _, h => by simp [noSub] at h
  | .exist _ _, h => by simp [noSub] at h
  | .paren _, _ => by simp [sqDirect]
  | .col _ _, _ => by simp only [sqDirect]
  | .star _, _ => by simp only [sqDirect]
  | .lit _, _ => by simp only [sqDirect]
  | .func _ _ _ _, _ => by simp only [sqDirect]
  | .cast _ _, _ => by simp only [sqDirect]
  | .case _ _, _ => by simp only [sqDirect]

theorem sqParenChain_noSub (env : Env) (alias : Option String) (g : LGraph) :
    (e : Expr) → noSub e = true → ∃ b, sqParenChain env e alias g = .ok (b, g)
  | .bin _ a b, h => by
    simp only [noSub, Bool.and_eq_true] at h
    obtain ⟨b1, h1⟩ := sqParenChain_noSub env alias g a h.1
    obtain ⟨b2, h2⟩ := sqParenChain_noSub env alias g b h.2
    cases b1
    · exact ⟨b2, by simp only [sqParenChain, h1, h2]⟩
    · exact ⟨true, by simp only [sqParenChain, h1]⟩
  | .subq _, h => by simp [noSub] at h
  | .inSubq _ _ _, h => by simp [noSub] at h
  | .exist _ _, h => by simp [noSub] at h
  | .paren e, h => by
    simp only [noSub] at h
    obtain ⟨b1, h1⟩ := sqParenChain_noSub env alias g e h
    exact ⟨true, by simp only [sqParenChain, h1]⟩
  | .col _ _, _ => ⟨false, by simp only [sqParenChain]⟩
  | .star _, _ => ⟨false, by simp only [sqParenChain]⟩
  | .lit _, _ => ⟨false, by simp only [sqParenChain]⟩
  | .func _ _ _ _, _ => ⟨false, by simp only [sqParenChain]⟩
  | .cast _ _, _ => ⟨false, by simp only [sqParenChain]⟩
  | .case _ _, _ => ⟨false, by simp only [sqParenChain]⟩

/-- the WHERE branch of `list_subqueries` (`inner = true`) finds nothing in an expression without subqueries -/
theorem sqDirect_true_noSub (env : Env) (alias : Option String) (g : LGraph) :
    (e : Expr) → noSub e = true → sqDirect env true e alias g = .ok g
  | .bin _ a b, h => by
    simp only [noSub, Bool.and_eq_true] at h
    simp only [sqDirect, sqDirect_true_noSub env alias g a h.1, sqDirect_true_noSub env alias g b h.2]
  | .subq _, h => by simp [noSub] at h
  | .inSubq _ _ _, h => by simp [noSub] at h
  | .exist _ _, h => by simp [noSub] at h
  | .paren e, h => by
    simp only [noSub] at h
    obtain ⟨b1, h1⟩ := sqParenChain_noSub env alias g e h
    simp [sqDirect, h1]
  | .col _ _, _ => by simp only [sqDirect]
  | .star _, _ => by simp only [sqDirect]
  | .lit _, _ => by simp only [sqDirect]
  | .func _ _ _ _, _ => by simp only [sqDirect]
  | .cast _ _, _ => by simp only [sqDirect]
  | .case _ _, _ => by simp only [sqDirect]

theorem sqWhens_noSub (env : Env) (alias : Option String) (ws : List When) (g : LGraph) (h : noSubW ws = true) :
    sqWhens env ws alias g = .ok g := by
  induction ws with
  | nil => simp only [sqWhens]
  | cons w r ih =>
    cases w with
    | mk c x =>
      simp only [noSubW, Bool.and_eq_true] at h
      simp only [sqWhens, sqDirect_false_noSub env none g c h.1.1, sqDirect_false_noSub env alias g x h.1.2, ih h.2]

theorem sqFirstCase_noSub (env : Env) (alias : Option String) (g : LGraph) :
    (e : Expr) → noSub e = true → ∃ b, sqFirstCase env e alias g = .ok (b, g)
  | .bin _ a b, h => by
    simp only [noSub, Bool.and_eq_true] at h
    obtain ⟨b1, h1⟩ := sqFirstCase_noSub env alias g a h.1
    obtain ⟨b2, h2⟩ := sqFirstCase_noSub env alias g b h.2
    cases b1
    · exact ⟨b2, by simp only [sqFirstCase, h1, h2]⟩
    · exact ⟨true, by simp only [sqFirstCase, h1]⟩
  | .case ws none, h => by
    simp only [noSub, Bool.and_true] at h
    exact ⟨true, by simp only [sqFirstCase, sqWhens_noSub env alias ws g h]⟩
  | .case ws (some _), h => by
    simp only [noSub, Bool.and_eq_true] at h
    exact ⟨true, by simp only [sqFirstCase, sqWhens_noSub env alias ws g h.1]⟩
  | .subq _, _ => ⟨false, by simp only [sqFirstCase]⟩
  | .inSubq _ _ _, _ => ⟨false, by simp only [sqFirstCase]⟩
  | .exist _ _, _ => ⟨false, by simp only [sqFirstCase]⟩
  | .paren _, _ => ⟨false, by simp only [sqFirstCase]⟩
  | .col _ _, _ => ⟨false, by simp only [sqFirstCase]⟩
  | .star _, _ => ⟨false, by simp only [sqFirstCase]⟩
  | .lit _, _ => ⟨false, by simp only [sqFirstCase]⟩
  | .func _ _ _ _, _ => ⟨false, by simp only [sqFirstCase]⟩
  | .cast _ _, _ => ⟨false, by simp only [sqFirstCase]⟩

/-- select items without subqueries: `list_subqueries(select_clause)` finds nothing -/
theorem sqItems_noSub (env : Env) (its : List Item) (g : LGraph) (h : noSubI its = true) : sqItems env its g = .ok g := by
  induction its with
  | nil => rfl
  | cons it r ih =>
    cases it with
    | mk e a k =>
      simp only [noSubI, Bool.and_eq_true] at h
      have h1 := h.1
      cases e with
      | col _ _ => simp only [sqItems_col, ih h.2]
      | star _ => simp only [sqItems_star, ih h.2]
      | lit _ => simp only [sqItems_lit, ih h.2]
      | func n d as over => simp only [sqItems_func, sqDeep_noSub env g _ h1, ih h.2]
      | cast e' _ =>
        simp only [noSub] at h1
        simp only [sqItems_cast, sqDeep_noSub env g e' h1, ih h.2]
      | case ws els =>
        obtain ⟨b, hb⟩ := sqFirstCase_noSub env a g _ h1
        simp only [sqItems_case, hb, ih h.2]
      | bin op x y =>
        obtain ⟨b, hb⟩ := sqFirstCase_noSub env a g _ h1
        simp only [sqItems_bin, hb, ih h.2]
      | paren x =>
        obtain ⟨b, hb⟩ := sqFirstCase_noSub env a g _ h1
        simp only [sqItems_paren, hb, ih h.2]
      | subq _ => simp [noSub] at h1
      | inSubq _ _ _ => simp [noSub] at h1
      | exist _ _ => simp [noSub] at h1

theorem whereOK_func (n : String) (d : Bool) (as : List Expr) (ov : Option Over) :
    whereOK (.func n d as ov) = noSub (.func n d as ov) := by
  cases ov with
  | none => simp only [whereOK, noSub]
  | some o => cases o; simp only [whereOK, noSub]
theorem whereOK_cast (e : Expr) (t : String) : whereOK (.cast e t) = noSub (.cast e t) := by simp only [whereOK, noSub]
theorem whereOK_case (ws : List When) (els : Option Expr) : whereOK (.case ws els) = noSub (.case ws els) := by
  cases els <;> simp only [whereOK, noSub]
theorem whereOK_paren (e : Expr) : whereOK (.paren e) = noSub (.paren e) := by simp only [whereOK, noSub]

/-! ## 5. the crawl `cd*` (`list_join_clause`) only finds what the specification has -/

theorem dsElem_table_nil (env : Env) (parts : List String) (a : Option String) (k : Bool) :
    dsElem env [] (.table parts a k) = [(mkTable env parts none).d] := by
  cases parts with
  | nil => simp [dsElem]
  | cons n r =>
    cases r with
    | nil => simp [dsElem]
    | cons _ _ => simp [dsElem]

/-- the dataset a FROM element denotes, when no CTE is in scope: the table itself (a derived table is a SubQuery) -/
theorem datasetOfElem_sub (env : Env) (g : LGraph) (hc : cteObjs g = []) (o : DObj) (ho : o.d.isDataset = true)
    (e : FromElem) (hm : o ∈ datasetOfElem env g e) : o.d ∈ dsElem env [] e := by
  cases e with
  | table parts a k =>
    rw [datasetOfElem_table env g hc] at hm
    simp only [List.mem_singleton] at hm
    rw [hm, dsElem_table_nil, mkTable_d]
    exact List.mem_singleton.mpr rfl
  | derived q a k =>
    simp only [datasetOfElem, List.mem_singleton] at hm
    rw [hm, mkSubq_isDataset] at ho
    cases ho

mutual
theorem cdWhere_sub (env : Env) (g : LGraph) (hc : cteObjs g = []) (o : DObj) (ho : o.d.isDataset = true) :
    (e : Expr) → whereOK e = true → o ∈ cdExpr env g e → o.d ∈ dsExpr env [] e
  | .bin _ a b, h, hm => by
    simp only [whereOK, Bool.and_eq_true] at h
    simp only [cdExpr, List.mem_append] at hm
    simp only [dsExpr, List.mem_append]
    exact hm.imp (cdWhere_sub env g hc o ho a h.1) (cdWhere_sub env g hc o ho b h.2)
  | .subq q, h, hm => by
    simp only [whereOK] at h
    simp only [cdExpr] at hm
    simp only [dsExpr]
    exact cdQuery_sub env g hc o ho q h hm
  | .inSubq x _ q, h, hm => by
    simp only [whereOK, Bool.and_eq_true] at h
    simp only [cdExpr, cdExpr_noSub env g x h.1, List.nil_append] at hm
    simp only [dsExpr, List.mem_append]
    exact Or.inr (cdQuery_sub env g hc o ho q h.2 hm)
  | .exist _ q, h, hm => by
    simp only [whereOK] at h
    simp only [cdExpr] at hm
    simp only [dsExpr]
    exact cdQuery_sub env g hc o ho q h hm
  | .col _ _, _, hm => by simp [cdExpr] at hm
  | .star _, _, hm => by simp [cdExpr] at hm
  | .lit _, _, hm => by simp [cdExpr] at hm
  | .func n d as ov, h, hm => by
    rw [whereOK_func] at h
    rw [cdExpr_noSub env g _ h] at hm; cases hm
  | .cast e t, h, hm => by
    rw [whereOK_cast] at h
    rw [cdExpr_noSub env g _ h] at hm; cases hm
  | .case ws els, h, hm => by
    rw [whereOK_case] at h
    rw [cdExpr_noSub env g _ h] at hm; cases hm
  | .paren e, h, hm => by
    rw [whereOK_paren] at h
    rw [cdExpr_noSub env g _ h] at hm; cases hm
theorem cdQuery_sub (env : Env) (g : LGraph) (hc : cteObjs g = []) (o : DObj) (ho : o.d.isDataset = true) :
    (q : Query) → fragQ q = true → o ∈ cdQuery env g q → o.d ∈ dsQuery env [] q
  | .select _ its frm none grp hav, h, hm => by
    simp only [fragQ, Bool.and_eq_true] at h
    obtain ⟨⟨⟨⟨hits, hfrm⟩, hwh⟩, hgrp⟩, hhav⟩ := h
    cases hav with
    | none =>
      simp only [cdQuery, cdItems_noSub env g its hits, cdExpr_noSubL env g grp hgrp, List.nil_append, List.append_nil] at hm
      simp only [dsQuery, List.mem_append]
      exact Or.inl (Or.inl (Or.inl (Or.inl (cdFromExprs_sub env g hc o ho frm hfrm hm))))
    | some e' =>
      simp only [noSubOpt] at hhav
      simp only [cdQuery, cdItems_noSub env g its hits, cdExpr_noSubL env g grp hgrp, cdExpr_noSub env g e' hhav,
        List.nil_append, List.append_nil] at hm
      simp only [dsQuery, List.mem_append]
      exact Or.inl (Or.inl (Or.inl (Or.inl (cdFromExprs_sub env g hc o ho frm hfrm hm))))
  | .select _ its frm (some e) grp hav, h, hm => by
    simp only [fragQ, Bool.and_eq_true] at h
    obtain ⟨⟨⟨⟨hits, hfrm⟩, hwh⟩, hgrp⟩, hhav⟩ := h
    have hm' : o ∈ cdFromExprs env g frm ∨ o ∈ cdExpr env g e := by
      cases hav with
      | none =>
        simpa only [cdQuery, cdItems_noSub env g its hits, cdExpr_noSubL env g grp hgrp, List.nil_append, List.append_nil,
          List.mem_append] using hm
      | some e' =>
        simp only [noSubOpt] at hhav
        simpa only [cdQuery, cdItems_noSub env g its hits, cdExpr_noSubL env g grp hgrp, cdExpr_noSub env g e' hhav,
          List.nil_append, List.append_nil, List.mem_append] using hm
    simp only [dsQuery, dsOpt, List.mem_append]
    rcases hm' with hm | hm
    · exact Or.inl (Or.inl (Or.inl (Or.inl (cdFromExprs_sub env g hc o ho frm hfrm hm))))
    · exact Or.inl (Or.inl (Or.inr (cdWhere_sub env g hc o ho e hwh hm)))
  | .setop first rest, h, hm => by
    simp only [fragQ, Bool.and_eq_true] at h
    simp only [cdQuery, List.mem_append] at hm
    simp only [dsQuery, List.mem_append]
    exact hm.imp (cdBranch_sub env g hc o ho first h.1) (cdOpBranches_sub env g hc o ho rest h.2)
  | .withq _ _, h, _ => by simp [fragQ] at h
theorem cdBranch_sub (env : Env) (g : LGraph) (hc : cteObjs g = []) (o : DObj) (ho : o.d.isDataset = true) :
    (b : Branch) → fragB b = true → o ∈ cdBranch env g b → o.d ∈ dsBranch env [] b
  | .mk q _, h, hm => by
    simp only [fragB, Bool.and_eq_true] at h
    simp only [cdBranch] at hm
    simp only [dsBranch]
    exact cdQuery_sub env g hc o ho q h.2 hm
theorem cdOpBranches_sub (env : Env) (g : LGraph) (hc : cteObjs g = []) (o : DObj) (ho : o.d.isDataset = true) :
    (l : List OpBranch) → fragOBs l = true → o ∈ cdOpBranches env g l → o.d ∈ dsOpBranches env [] l
  | [], _, hm => by simp [cdOpBranches] at hm
  | .mk _ b :: r, h, hm => by
    simp only [fragOBs, Bool.and_eq_true] at h
    simp only [cdOpBranches, List.mem_append] at hm
    simp only [dsOpBranches, List.mem_append]
    exact hm.imp (cdBranch_sub env g hc o ho b h.1) (cdOpBranches_sub env g hc o ho r h.2)
theorem cdElem_sub (env : Env) (g : LGraph) (hc : cteObjs g = []) (o : DObj) (ho : o.d.isDataset = true) :
    (e : FromElem) → fragE e = true → o ∈ cdElem env g e → o.d ∈ dsElem env [] e
  | .table _ _ _, _, hm => by simp [cdElem] at hm
  | .derived q _ _, h, hm => by
    simp only [fragE] at h
    simp only [cdElem] at hm
    simp only [dsElem]
    exact cdQuery_sub env g hc o ho q h hm
theorem cdJoins_sub (env : Env) (g : LGraph) (hc : cteObjs g = []) (o : DObj) (ho : o.d.isDataset = true) :
    (l : List Join) → fragJs l = true → o ∈ cdJoins env g l → o.d ∈ dsJoins env [] l
  | [], _, hm => by simp [cdJoins] at hm
  | .mk _ e on _ :: r, h, hm => by
    simp only [fragJs, Bool.and_eq_true] at h
    have hm' : (o ∈ datasetOfElem env g e ∨ o ∈ cdElem env g e) ∨ o ∈ cdJoins env g r := by
      cases on with
      | none => simpa only [cdJoins, List.append_nil, List.mem_append] using hm
      | some c =>
        have hc' := h.1.2
        simp only [noSubOpt] at hc'
        simpa only [cdJoins, cdExpr_noSub env g c hc', List.append_nil, List.mem_append] using hm
    simp only [dsJoins, List.mem_append]
    rcases hm' with (hm | hm) | hm
    · exact Or.inl (Or.inl (datasetOfElem_sub env g hc o ho e hm))
    · exact Or.inl (Or.inl (cdElem_sub env g hc o ho e h.1.1 hm))
    · exact Or.inr (cdJoins_sub env g hc o ho r h.2 hm)
theorem cdFromExpr_sub (env : Env) (g : LGraph) (hc : cteObjs g = []) (o : DObj) (ho : o.d.isDataset = true) :
    (f : FromExpr) → fragF f = true → o ∈ cdFromExpr env g f → o.d ∈ dsFromExpr env [] f
  | .mk base js, h, hm => by
    simp only [fragF, Bool.and_eq_true] at h
    simp only [cdFromExpr, List.mem_append] at hm
    simp only [dsFromExpr, List.mem_append]
    exact hm.imp (cdElem_sub env g hc o ho base h.1) (cdJoins_sub env g hc o ho js h.2)
theorem cdFromExprs_sub (env : Env) (g : LGraph) (hc : cteObjs g = []) (o : DObj) (ho : o.d.isDataset = true) :
    (l : List FromExpr) → fragFs l = true → o ∈ cdFromExprs env g l → o.d ∈ dsFromExprs env [] l
  | [], _, hm => by simp [cdFromExprs] at hm
  | f :: r, h, hm => by
    simp only [fragFs, Bool.and_eq_true] at h
    simp only [cdFromExprs, List.mem_append] at hm
    simp only [dsFromExprs, List.mem_append]
    exact hm.imp (cdFromExpr_sub env g hc o ho f h.1) (cdFromExprs_sub env g hc o ho r h.2)
end

/-! ## 6. splitting the specification along the walk: derived part (subquery extraction) + table part (`tablesOfFrom`) -/

/-- what the extraction of the derived tables of a FROM element contributes -/
def dvElem (env : Env) : FromElem → List DS
  | .table _ _ _ => []
  | .derived q _ _ => dsQuery env [] q
def dvJoins (env : Env) : List Join → List DS
  | [] => []
  | .mk _ e _ _ :: r => dvElem env e ++ dvJoins env r
def dvFromExpr (env : Env) : FromExpr → List DS
  | .mk base js => dvElem env base ++ dvJoins env js
def dvFromExprs (env : Env) : List FromExpr → List DS
  | [] => []
  | f :: r => dvFromExpr env f ++ dvFromExprs env r
/-- what `sqBranch` contributes: derived tables and WHERE subqueries of a SELECT branch -/
def dvBranch (env : Env) : Branch → List DS
  | .mk (.select _ _ frm wh _ _) _ => dvFromExprs env frm ++ dsOpt env [] wh
  | .mk _ _ => []
def dvOpBranches (env : Env) : List OpBranch → List DS
  | [] => []
  | .mk _ b :: r => dvBranch env b ++ dvOpBranches env r

/-- tables one from‑expression contributes to `tablesOfFrom` -/
def perFe (env : Env) (g : LGraph) : FromExpr → List DObj
  | .mk base js => datasetOfElem env g base ++ (if js.isEmpty then [] else cdFromExpr env g (.mk base js))

theorem tablesOfFrom_eq (env : Env) (g : LGraph) (frm : List FromExpr) :
    tablesOfFrom env g frm = frm.flatMap (perFe env g) := by
  match frm with
  | [] => rfl
  | [.mk base js] => simp [tablesOfFrom, perFe]
  | a :: b :: r =>
    simp only [tablesOfFrom]
    congr 1

theorem dvElem_sub (env : Env) (e : FromElem) (d : DS) (h : d ∈ dvElem env e) : d ∈ dsElem env [] e := by
  cases e with
  | table _ _ _ => simp [dvElem] at h
  | derived q _ _ => simpa only [dvElem, dsElem] using h

theorem dvJoins_sub (env : Env) (js : List Join) (d : DS) (h : d ∈ dvJoins env js) : d ∈ dsJoins env [] js := by
  induction js with
  | nil => simp [dvJoins] at h
  | cons j r ih =>
    cases j with
    | mk k e on u =>
      simp only [dvJoins, List.mem_append] at h
      simp only [dsJoins, List.mem_append]
      rcases h with h | h
      · exact Or.inl (Or.inl (dvElem_sub env e d h))
      · exact Or.inr (ih h)

theorem dvFromExpr_sub (env : Env) (fe : FromExpr) (d : DS) (h : d ∈ dvFromExpr env fe) : d ∈ dsFromExpr env [] fe := by
  cases fe with
  | mk base js =>
    simp only [dvFromExpr, List.mem_append] at h
    simp only [dsFromExpr, List.mem_append]
    exact h.imp (dvElem_sub env base d) (dvJoins_sub env js d)

theorem dvFromExprs_sub (env : Env) (frm : List FromExpr) (d : DS) (h : d ∈ dvFromExprs env frm) :
    d ∈ dsFromExprs env [] frm := by
  induction frm with
  | nil => simp [dvFromExprs] at h
  | cons f r ih =>
    simp only [dvFromExprs, List.mem_append] at h
    simp only [dsFromExprs, List.mem_append]
    exact h.imp (dvFromExpr_sub env f d) ih

/-- a FROM element is a derived table (extracted) or a table (listed) -/
theorem elem_split (env : Env) (g : LGraph) (hc : cteObjs g = []) (e : FromElem) (d : DS) (h : d ∈ dsElem env [] e) :
    d ∈ dvElem env e ∨ d ∈ (datasetOfElem env g e).map (·.d) := by
  cases e with
  | table parts a k =>
    rw [dsElem_table_nil] at h
    rw [datasetOfElem_table env g hc]
    right
    simpa only [List.map_cons, List.map_nil, mkTable_d] using h
  | derived q a k => left; simpa only [dvElem, dsElem] using h

theorem joins_split (env : Env) (g : LGraph) (hc : cteObjs g = []) (js : List Join) (hf : fragJs js = true) (d : DS)
    (h : d ∈ dsJoins env [] js) : d ∈ dvJoins env js ∨ d ∈ (cdJoins env g js).map (·.d) := by
  induction js with
  | nil => simp [dsJoins] at h
  | cons j r ih =>
    cases j with
    | mk k e on u =>
      simp only [fragJs, Bool.and_eq_true] at hf
      have h' : d ∈ dsElem env [] e ∨ d ∈ dsJoins env [] r := by
        simpa only [dsJoins, dsOpt_noSub env [] on hf.1.2, List.append_nil, List.mem_append] using h
      have hgoal : (d ∈ dvElem env e ∨ d ∈ dvJoins env r) ∨
          ((d ∈ (datasetOfElem env g e).map (·.d) ∨ d ∈ (cdElem env g e).map (·.d)) ∨ d ∈ (cdJoins env g r).map (·.d)) := by
        rcases h' with h | h
        · rcases elem_split env g hc e d h with x | x
          · exact Or.inl (Or.inl x)
          · exact Or.inr (Or.inl (Or.inl x))
        · rcases ih hf.2 h with x | x
          · exact Or.inl (Or.inr x)
          · exact Or.inr (Or.inr x)
      cases on with
      | none => simpa only [dvJoins, cdJoins, List.append_nil, List.map_append, List.mem_append] using hgoal
      | some c =>
        have hc' := hf.1.2
        simp only [noSubOpt] at hc'
        simpa only [dvJoins, cdJoins, cdExpr_noSub env g c hc', List.append_nil, List.map_append, List.mem_append] using hgoal

theorem fe_split (env : Env) (g : LGraph) (hc : cteObjs g = []) (fe : FromExpr) (hf : fragF fe = true) (d : DS)
    (hd : d.isDataset = true) :
    d ∈ dsFromExpr env [] fe ↔ d ∈ dvFromExpr env fe ∨ d ∈ (perFe env g fe).map (·.d) := by
  cases fe with
  | mk base js =>
    have hf' := hf
    simp only [fragF, Bool.and_eq_true] at hf'
    constructor
    · intro h
      simp only [dsFromExpr, List.mem_append] at h
      simp only [dvFromExpr, perFe, List.map_append, List.mem_append]
      rcases h with h | h
      · rcases elem_split env g hc base d h with x | x
        · exact Or.inl (Or.inl x)
        · exact Or.inr (Or.inl x)
      · rcases joins_split env g hc js hf'.2 d h with x | x
        · exact Or.inl (Or.inr x)
        · right; right
          cases js with
          | nil => simp [cdJoins] at x
          | cons j r =>
            simp only [List.isEmpty_cons, Bool.false_eq_true, if_false, cdFromExpr, List.map_append, List.mem_append]
            exact Or.inr x
    · rintro (h | h)
      · exact dvFromExpr_sub env _ d h
      · simp only [perFe, List.map_append, List.mem_append, List.mem_map] at h
        rcases h with ⟨o, ho, rfl⟩ | ⟨o, ho, rfl⟩
        · simp only [dsFromExpr, List.mem_append]
          exact Or.inl (datasetOfElem_sub env g hc o hd base ho)
        · by_cases hj : js.isEmpty = true
          · rw [if_pos hj] at ho; cases ho
          · rw [if_neg hj] at ho
            exact cdFromExpr_sub env g hc o hd _ hf ho

theorem from_split (env : Env) (g : LGraph) (hc : cteObjs g = []) (frm : List FromExpr) (hf : fragFs frm = true) (d : DS)
    (hd : d.isDataset = true) :
    d ∈ dsFromExprs env [] frm ↔ d ∈ dvFromExprs env frm ∨ d ∈ (tablesOfFrom env g frm).map (·.d) := by
  rw [tablesOfFrom_eq]
  induction frm with
  | nil => simp [dsFromExprs, dvFromExprs]
  | cons f r ih =>
    simp only [fragFs, Bool.and_eq_true] at hf
    simp only [dsFromExprs, dvFromExprs, List.flatMap_cons, List.map_append, List.mem_append,
      fe_split env g hc f hf.1 d hd, ih hf.2]
    constructor
    · rintro ((a | a) | (a | a))
      · exact Or.inl (Or.inl a)
      · exact Or.inr (Or.inl a)
      · exact Or.inl (Or.inr a)
      · exact Or.inr (Or.inr a)
    · rintro ((a | a) | (a | a))
      · exact Or.inl (Or.inl a)
      · exact Or.inr (Or.inl a)
      · exact Or.inl (Or.inr a)
      · exact Or.inr (Or.inr a)

/-- a SELECT block of the fragment: specification = extracted part ∪ listed tables -/
theorem sel_split (env : Env) (g : LGraph) (hc : cteObjs g = []) (dist : Bool) (its : List Item) (frm : List FromExpr)
    (wh : Option Expr) (grp : List Expr) (hav : Option Expr) (hf : fragQ (.select dist its frm wh grp hav) = true)
    (d : DS) (hd : d.isDataset = true) :
    d ∈ dsQuery env [] (.select dist its frm wh grp hav) ↔
      d ∈ dvFromExprs env frm ++ dsOpt env [] wh ∨ d ∈ (tablesOfFrom env g frm).map (·.d) := by
  simp only [fragQ, Bool.and_eq_true] at hf
  obtain ⟨⟨⟨⟨hits, hfrm⟩, hwh⟩, hgrp⟩, hhav⟩ := hf
  simp only [dsQuery, dsItems_noSub env [] its hits, dsExpr_noSubL env [] grp hgrp, dsOpt_noSub env [] hav hhav,
    List.append_nil, List.mem_append, from_split env g hc frm hfrm d hd]
  constructor
  · rintro ((a | a) | a)
    · exact Or.inl (Or.inl a)
    · exact Or.inr a
    · exact Or.inl (Or.inr a)
  · rintro ((a | a) | a)
    · exact Or.inl (Or.inl a)
    · exact Or.inr a
    · exact Or.inl (Or.inr a)

theorem branch_split (env : Env) (g : LGraph) (hc : cteObjs g = []) (b : Branch) (hf : fragB b = true)
    (d : DS) (hd : d.isDataset = true) :
    d ∈ dsBranch env [] b ↔ d ∈ dvBranch env b ∨ d ∈ (tablesOfFrom env g (branchParts b).2).map (·.d) := by
  cases b with
  | mk q br =>
    simp only [fragB, Bool.and_eq_true] at hf
    cases q with
    | select dist its frm wh grp hav =>
      simp only [dsBranch, dvBranch, branchParts]
      exact sel_split env g hc dist its frm wh grp hav hf.2 d hd
    | setop _ _ => simp [isSelect] at hf
    | withq _ _ => simp [isSelect] at hf

theorem opBranches_split (env : Env) (g : LGraph) (hc : cteObjs g = []) (l : List OpBranch) (hf : fragOBs l = true)
    (d : DS) (hd : d.isDataset = true) :
    d ∈ dsOpBranches env [] l ↔ d ∈ dvOpBranches env l ∨ d ∈ (fbTables env g (l.map opBranchParts)).map (·.d) := by
  induction l with
  | nil => simp [dsOpBranches, dvOpBranches, fbTables]
  | cons ob r ih =>
    cases ob with
    | mk op b =>
      simp only [fragOBs, Bool.and_eq_true] at hf
      have ih' := ih hf.2
      unfold fbTables at ih' ⊢
      simp only [dsOpBranches, dvOpBranches, List.map_cons, List.flatMap_cons, List.map_append, List.mem_append,
        branch_split env g hc b hf.1 d hd, ih', opBranchParts]
      constructor
      · rintro ((a | a) | (a | a))
        · exact Or.inl (Or.inl a)
        · exact Or.inr (Or.inl a)
        · exact Or.inl (Or.inr a)
        · exact Or.inr (Or.inr a)
      · rintro ((a | a) | (a | a))
        · exact Or.inl (Or.inl a)
        · exact Or.inr (Or.inl a)
        · exact Or.inl (Or.inr a)
        · exact Or.inr (Or.inr a)

/-! ## 7. the walk -/

/-- what `exQuery` returns for a query of the fragment, started with write set `W` and no CTE in scope -/
structure QRes (env : Env) (W : List DS) (q : Query) (g' : LGraph) : Prop where
  inv : Inv g'
  rd : ∀ d, d.isDataset = true → (RD g' d ↔ d ∈ dsQuery env [] q)
  wr : ∀ d, d.isDataset = true → (WR g' d ↔ d ∈ W)

theorem qres_of_adds (env : Env) (ctx : Ctx) (q : Query) (g' : LGraph) (S : List DS) (hc : ctx.cte = [])
    (A : Adds (initHolder ctx) g' S) (hS : ∀ d, d.isDataset = true → (d ∈ S ↔ d ∈ dsQuery env [] q)) :
    QRes env (ctx.write.map (·.d)) q g' :=
  ⟨A.inv, fun d hd => by rw [A.rd d hd, hS d hd]; simp [initHolder_rd ctx hc d],
   fun d hd => by rw [A.wr d hd, initHolder_wr ctx hc]⟩

/-- `extract_subquery`: a sub‑holder computed for the subquery object `obj` is merged -/
theorem sub_extract (env : Env) (g : LGraph) (q : Query) (obj : DObj) (h : LGraph) (hi : Inv g)
    (hobj : obj.d.isDataset = false) (R : QRes env [obj.d] q h) : Adds g (composeSub g obj h) (dsQuery env [] q) :=
  adds_composeSub g h obj _ hi hobj R.inv R.rd (fun d hd hw => by
    have := (R.wr d hd).mp hw
    simp only [List.mem_singleton] at this
    rw [this, hobj] at hd
    cases hd)

theorem sqDirect_simple (env : Env) (e : Expr) (alias : Option String) (g g' : LGraph) (hn : noSub e = true) (hi : Inv g)
    (h : sqDirect env true e alias g = .ok g') : Adds g g' (dsExpr env [] e) := by
  rw [sqDirect_true_noSub env alias g e hn] at h
  rw [← ok_inj h, dsExpr_noSub env [] e hn]
  exact Adds.refl hi

theorem cjExpr_simple (env : Env) (e : Expr) (g g' : LGraph) (hn : noSub e = true) (hi : Inv g)
    (h : cjExpr env e g = .ok g') : Sub g g' (dsExpr env [] e) := by
  rw [cjExpr_noSub env g e hn] at h
  rw [← ok_inj h, dsExpr_noSub env [] e hn]
  exact Sub.refl hi

mutual
theorem exQuery_ok (env : Env) : (q : Query) → (ctx : Ctx) → (g' : LGraph) → fragQ q = true → ctx.cte = [] →
    exQuery env ctx q = .ok g' → QRes env (ctx.write.map (·.d)) q g'
  | .select dist its frm wh grp hav, ctx, g', hf, hc, h => by
    have hf' := hf
    simp only [fragQ, Bool.and_eq_true] at hf'
    obtain ⟨⟨⟨⟨hits, hfrm⟩, hwh⟩, hgrp⟩, hhav⟩ := hf'
    simp only [exQuery, sqItems_noSub env its _ hits] at h
    split at h
    · cases h
    · rename_i g2 h2
      split at h
      · cases h
      · rename_i g3 h3
        have A2 := sqFrom_ok env _ frm (initHolder ctx) g2 hfrm (initHolder_inv ctx hc) h2
        have A3 := sqWhere_ok env wh g2 g3 hwh A2.inv h3
        have A4 := adds_finishBranches env g3 _ g' A3.inv h
        refine qres_of_adds env ctx _ g' _ hc ((A2.trans A3).trans A4) (fun d hd => ?_)
        rw [sel_split env g3 (cteObjs_nil A3.inv.cte) dist its frm wh grp hav hf d hd]
        simp only [fbTables, List.flatMap_cons, List.flatMap_nil, List.append_nil, List.mem_append]
  | .setop first rest, ctx, g', hf, hc, h => by
    have hf' := hf
    simp only [fragQ, Bool.and_eq_true] at hf'
    simp only [exQuery] at h
    split at h
    · cases h
    · rename_i g1 h1
      split at h
      · cases h
      · rename_i g2 h2
        have A1 := sqBranch_ok env first (initHolder ctx) g1 hf'.1 (initHolder_inv ctx hc) h1
        have A2 := sqOpBranches_ok env rest g1 g2 hf'.2 A1.inv h2
        have A3 := adds_finishBranches env g2 _ g' A2.inv h
        refine qres_of_adds env ctx _ g' _ hc ((A1.trans A2).trans A3) (fun d hd => ?_)
        have hc2 := cteObjs_nil A2.inv.cte
        have e1 := branch_split env g2 hc2 first hf'.1 d hd
        have e2 := opBranches_split env g2 hc2 rest hf'.2 d hd
        unfold fbTables at e2 ⊢
        simp only [dsQuery, List.mem_append, List.map_append, List.flatMap_cons, e1, e2]
        constructor
        · rintro ((a | a) | (a | a))
          · exact Or.inl (Or.inl a)
          · exact Or.inr (Or.inl a)
          · exact Or.inl (Or.inr a)
          · exact Or.inr (Or.inr a)
        · rintro ((a | a) | (a | a))
          · exact Or.inl (Or.inl a)
          · exact Or.inr (Or.inl a)
          · exact Or.inl (Or.inr a)
          · exact Or.inr (Or.inr a)
  | .withq _ _, _, _, hf, _, _ => by simp [fragQ] at hf
theorem sqWhere_ok (env : Env) : (wh : Option Expr) → (g g' : LGraph) → whereOKOpt wh = true → Inv g →
    sqWhere env wh g = .ok g' → Adds g g' (dsOpt env [] wh)
  | none, g, g', _, hi, h => by
    simp only [sqWhere] at h
    rw [← ok_inj h]
    simp only [dsOpt]
    exact Adds.refl hi
  | some e, g, g', hf, hi, h => by
    simp only [whereOKOpt] at hf
    simp only [sqWhere] at h
    simp only [dsOpt]
    exact sqDirect_ok env e none g g' hf hi h
theorem sqBranch_ok (env : Env) : (b : Branch) → (g g' : LGraph) → fragB b = true → Inv g →
    sqBranch env b g = .ok g' → Adds g g' (dvBranch env b)
  | .mk (.select dist its frm wh grp hav) br, g, g', hf, hi, h => by
    simp only [fragB, Bool.and_eq_true] at hf
    have hq := hf.2
    simp only [fragQ, Bool.and_eq_true] at hq
    obtain ⟨⟨⟨⟨hits, hfrm⟩, hwh⟩, hgrp⟩, hhav⟩ := hq
    simp only [sqBranch, sqItems_noSub env its _ hits] at h
    split at h
    · cases h
    · rename_i g2 h2
      have A2 := sqFrom_ok env _ frm g g2 hfrm hi h2
      have A3 := sqWhere_ok env wh g2 g' hwh A2.inv h
      simp only [dvBranch]
      exact A2.trans A3
  | .mk (.setop _ _) _, _, _, hf, _, _ => by simp [fragB, isSelect] at hf
  | .mk (.withq _ _) _, _, _, hf, _, _ => by simp [fragB, isSelect] at hf
theorem sqOpBranches_ok (env : Env) : (l : List OpBranch) → (g g' : LGraph) → fragOBs l = true → Inv g →
    sqOpBranches env l g = .ok g' → Adds g g' (dvOpBranches env l)
  | [], g, g', _, hi, h => by
    simp only [sqOpBranches] at h
    rw [← ok_inj h]
    simp only [dvOpBranches]
    exact Adds.refl hi
  | .mk op b :: r, g, g', hf, hi, h => by
    simp only [fragOBs, Bool.and_eq_true] at hf
    simp only [sqOpBranches] at h
    split at h
    · cases h
    · rename_i g1 h1
      have A1 := sqBranch_ok env b g g1 hf.1 hi h1
      have A2 := sqOpBranches_ok env r g1 g' hf.2 A1.inv h
      simp only [dvOpBranches]
      exact A1.trans A2
theorem sqFrom_ok (env : Env) (multi : Bool) : (frm : List FromExpr) → (g g' : LGraph) → fragFs frm = true → Inv g →
    sqFrom env multi frm g = .ok g' → Adds g g' (dvFromExprs env frm)
  | [], g, g', _, hi, h => by
    simp only [sqFrom] at h
    rw [← ok_inj h]
    simp only [dvFromExprs]
    exact Adds.refl hi
  | .mk base js :: r, g, g', hf, hi, h => by
    simp only [fragFs, fragF, Bool.and_eq_true] at hf
    simp only [sqFrom] at h
    split at h
    · cases h
    · rename_i g1 h1
      have A1 := sqElem_ok env base g g1 hf.1.1 hi h1
      by_cases hj : js.isEmpty = true
      · rw [if_pos hj] at h
        simp only at h
        have A3 := sqFrom_ok env multi r g1 g' hf.2 A1.inv h
        have hjs : js = [] := by simpa using hj
        simp only [dvFromExprs, dvFromExpr, hjs, dvJoins, List.append_nil]
        exact A1.trans A3
      · rw [if_neg hj] at h
        split at h
        · cases h
        · rename_i g2 h2
          split at h2
          · cases h2
          · rename_i g1' h1'
            have B := cjElem_ok env base g1 g1' hf.1.1 A1.inv h1'
            have A1' := A1.absorb B (fun d _ hd => hd)
            have C := cjJoins_ok env js g1' g2 hf.1.2 A1'.inv h2
            have A3 := sqFrom_ok env multi r g2 g' hf.2 C.inv h
            simp only [dvFromExprs, dvFromExpr]
            exact (A1'.trans C).trans A3
theorem sqElem_ok (env : Env) : (e : FromElem) → (g g' : LGraph) → fragE e = true → Inv g →
    sqElem env e g = .ok g' → Adds g g' (dvElem env e)
  | .table _ _ _, g, g', _, hi, h => by
    simp only [sqElem] at h
    rw [← ok_inj h]
    simp only [dvElem]
    exact Adds.refl hi
  | .derived q alias k, g, g', hf, hi, h => by
    simp only [fragE] at hf
    simp only [sqElem] at h
    split at h
    · cases h
    · rename_i hh h1
      have R := exQuery_ok env q _ hh hf (cteObjs_nil hi.cte) h1
      rw [← ok_inj h]
      simp only [dvElem]
      exact sub_extract env g q _ hh hi (mkSubq_isDataset _ _) R
theorem sqDirect_ok (env : Env) : (e : Expr) → (alias : Option String) → (g g' : LGraph) → whereOK e = true → Inv g →
    sqDirect env true e alias g = .ok g' → Adds g g' (dsExpr env [] e)
  | .bin _ a b, alias, g, g', hf, hi, h => by
    simp only [whereOK, Bool.and_eq_true] at hf
    simp only [sqDirect] at h
    split at h
    · cases h
    · rename_i g1 h1
      have A1 := sqDirect_ok env a alias g g1 hf.1 hi h1
      have A2 := sqDirect_ok env b alias g1 g' hf.2 A1.inv h
      simp only [dsExpr]
      exact A1.trans A2
  | .subq q, alias, g, g', hf, hi, h => by
    simp only [whereOK] at hf
    simp only [sqDirect] at h
    split at h
    · cases h
    · rename_i hh h1
      have R := exQuery_ok env q _ hh hf (cteObjs_nil hi.cte) h1
      rw [← ok_inj h]
      simp only [dsExpr]
      exact sub_extract env g q _ hh hi (mkSubq_isDataset _ _) R
  | .inSubq x _ q, alias, g, g', hf, hi, h => by
    simp only [whereOK, Bool.and_eq_true] at hf
    simp only [sqDirect] at h
    split at h
    · cases h
    · rename_i hh h1
      have R := exQuery_ok env q _ hh hf.2 (cteObjs_nil hi.cte) h1
      rw [← ok_inj h]
      simp only [dsExpr, dsExpr_noSub env [] x hf.1, List.nil_append]
      exact sub_extract env g q _ hh hi (mkSubq_isDataset _ _) R
  | .exist _ q, alias, g, g', hf, hi, h => by
    simp only [whereOK] at hf
    simp only [sqDirect] at h
    split at h
    · cases h
    · rename_i hh h1
      have R := exQuery_ok env q _ hh hf (cteObjs_nil hi.cte) h1
      rw [← ok_inj h]
      simp only [dsExpr]
      exact sub_extract env g q _ hh hi (mkSubq_isDataset _ _) R
  | .col q n, alias, g, g', _, hi, h => sqDirect_simple env _ alias g g' (by simp only [noSub]) hi h
  | .star q, alias, g, g', _, hi, h => sqDirect_simple env _ alias g g' (by simp only [noSub]) hi h
  | .lit x, alias, g, g', _, hi, h => sqDirect_simple env _ alias g g' (by simp only [noSub]) hi h
  | .func n d as ov, alias, g, g', hf, hi, h => sqDirect_simple env _ alias g g' (by rw [← whereOK_func]; exact hf) hi h
  | .cast e t, alias, g, g', hf, hi, h => sqDirect_simple env _ alias g g' (by rw [← whereOK_cast]; exact hf) hi h
  | .case ws els, alias, g, g', hf, hi, h => sqDirect_simple env _ alias g g' (by rw [← whereOK_case]; exact hf) hi h
  | .paren e, alias, g, g', hf, hi, h => sqDirect_simple env _ alias g g' (by rw [← whereOK_paren]; exact hf) hi h
theorem cjWhere_ok (env : Env) : (e : Expr) → (g g' : LGraph) → whereOK e = true → Inv g →
    cjExpr env e g = .ok g' → Sub g g' (dsExpr env [] e)
  | .bin _ a b, g, g', hf, hi, h => by
    simp only [whereOK, Bool.and_eq_true] at hf
    simp only [cjExpr_bin] at h
    split at h
    · cases h
    · rename_i g1 h1
      have A1 := cjWhere_ok env a g g1 hf.1 hi h1
      have A2 := cjWhere_ok env b g1 g' hf.2 A1.inv h
      simp only [dsExpr]
      exact A1.trans A2
  | .subq q, g, g', hf, hi, h => by
    simp only [whereOK] at hf
    simp only [cjExpr_subq] at h
    simp only [dsExpr]
    exact cjQuery_ok env q g g' hf hi h
  | .inSubq x _ q, g, g', hf, hi, h => by
    simp only [whereOK, Bool.and_eq_true] at hf
    simp only [cjExpr_inSubq, cjExpr_noSub env g x hf.1] at h
    simp only [dsExpr, dsExpr_noSub env [] x hf.1, List.nil_append]
    exact cjQuery_ok env q g g' hf.2 hi h
  | .exist _ q, g, g', hf, hi, h => by
    simp only [whereOK] at hf
    simp only [cjExpr_exist] at h
    simp only [dsExpr]
    exact cjQuery_ok env q g g' hf hi h
  | .col q n, g, g', _, hi, h => cjExpr_simple env _ g g' (by simp only [noSub]) hi h
  | .star q, g, g', _, hi, h => cjExpr_simple env _ g g' (by simp only [noSub]) hi h
  | .lit x, g, g', _, hi, h => cjExpr_simple env _ g g' (by simp only [noSub]) hi h
  | .func n d as ov, g, g', hf, hi, h => cjExpr_simple env _ g g' (by rw [← whereOK_func]; exact hf) hi h
  | .cast e t, g, g', hf, hi, h => cjExpr_simple env _ g g' (by rw [← whereOK_cast]; exact hf) hi h
  | .case ws els, g, g', hf, hi, h => cjExpr_simple env _ g g' (by rw [← whereOK_case]; exact hf) hi h
  | .paren e, g, g', hf, hi, h => cjExpr_simple env _ g g' (by rw [← whereOK_paren]; exact hf) hi h
theorem cjOptWhere_ok (env : Env) : (wh : Option Expr) → (g g' : LGraph) → whereOKOpt wh = true → Inv g →
    cjOptExpr env wh g = .ok g' → Sub g g' (dsOpt env [] wh)
  | none, g, g', _, hi, h => by
    simp only [cjOptExpr_none] at h
    rw [← ok_inj h]
    simp only [dsOpt]
    exact Sub.refl hi
  | some e, g, g', hf, hi, h => by
    simp only [whereOKOpt] at hf
    simp only [cjOptExpr_some] at h
    simp only [dsOpt]
    exact cjWhere_ok env e g g' hf hi h
theorem cjQuery_ok (env : Env) : (q : Query) → (g g' : LGraph) → fragQ q = true → Inv g →
    cjQuery env q g = .ok g' → Sub g g' (dsQuery env [] q)
  | .select dist its frm wh grp hav, g, g', hf, hi, h => by
    simp only [fragQ, Bool.and_eq_true] at hf
    obtain ⟨⟨⟨⟨hits, hfrm⟩, hwh⟩, hgrp⟩, hhav⟩ := hf
    simp only [cjQuery, cjItems_noSub env its g hits] at h
    split at h
    · cases h
    · rename_i g2 h2
      split at h
      · cases h
      · rename_i g3 h3
        simp only [cjExpr_noSubL env g3 grp hgrp, cjOptExpr_noSub env g3 hav hhav] at h
        have B2 := cjFromExprs_ok env frm g g2 hfrm hi h2
        have B3 := cjOptWhere_ok env wh g2 g3 hwh B2.inv h3
        rw [← ok_inj h]
        refine (B2.trans B3).weaken (fun d _ hm => ?_)
        simp only [dsQuery, List.mem_append] at hm ⊢
        rcases hm with hm | hm
        · exact Or.inl (Or.inl (Or.inl (Or.inl (dvFromExprs_sub env frm d hm))))
        · exact Or.inl (Or.inl (Or.inr hm))
  | .setop first rest, g, g', hf, hi, h => by
    simp only [fragQ, Bool.and_eq_true] at hf
    simp only [cjQuery] at h
    split at h
    · cases h
    · rename_i g1 h1
      have B1 := cjBranch_ok env first g g1 hf.1 hi h1
      have B2 := cjOpBranches_ok env rest g1 g' hf.2 B1.inv h
      simp only [dsQuery]
      exact B1.trans B2
  | .withq _ _, _, _, hf, _, _ => by simp [fragQ] at hf
theorem cjBranch_ok (env : Env) : (b : Branch) → (g g' : LGraph) → fragB b = true → Inv g →
    cjBranch env b g = .ok g' → Sub g g' (dsBranch env [] b)
  | .mk q _, g, g', hf, hi, h => by
    simp only [fragB, Bool.and_eq_true] at hf
    simp only [cjBranch] at h
    simp only [dsBranch]
    exact cjQuery_ok env q g g' hf.2 hi h
theorem cjOpBranches_ok (env : Env) : (l : List OpBranch) → (g g' : LGraph) → fragOBs l = true → Inv g →
    cjOpBranches env l g = .ok g' → Sub g g' (dsOpBranches env [] l)
  | [], g, g', _, hi, h => by
    simp only [cjOpBranches] at h
    rw [← ok_inj h]
    simp only [dsOpBranches]
    exact Sub.refl hi
  | .mk op b :: r, g, g', hf, hi, h => by
    simp only [fragOBs, Bool.and_eq_true] at hf
    simp only [cjOpBranches] at h
    split at h
    · cases h
    · rename_i g1 h1
      have B1 := cjBranch_ok env b g g1 hf.1 hi h1
      have B2 := cjOpBranches_ok env r g1 g' hf.2 B1.inv h
      simp only [dsOpBranches]
      exact B1.trans B2
theorem cjElem_ok (env : Env) : (e : FromElem) → (g g' : LGraph) → fragE e = true → Inv g →
    cjElem env e g = .ok g' → Sub g g' (dvElem env e)
  | .table _ _ _, g, g', _, hi, h => by
    simp only [cjElem] at h
    rw [← ok_inj h]
    simp only [dvElem]
    exact Sub.refl hi
  | .derived q _ _, g, g', hf, hi, h => by
    simp only [fragE] at hf
    simp only [cjElem] at h
    simp only [dvElem]
    exact cjQuery_ok env q g g' hf hi h
theorem cjJoins_ok (env : Env) : (l : List Join) → (g g' : LGraph) → fragJs l = true → Inv g →
    cjJoins env l g = .ok g' → Adds g g' (dvJoins env l)
  | [], g, g', _, hi, h => by
    simp only [cjJoins] at h
    rw [← ok_inj h]
    simp only [dvJoins]
    exact Adds.refl hi
  | .mk k e on u :: r, g, g', hf, hi, h => by
    simp only [fragJs, Bool.and_eq_true] at hf
    simp only [cjJoins] at h
    split at h
    · cases h
    · rename_i g1 h1
      split at h
      · cases h
      · rename_i g2 h2
        simp only [cjOptExpr_noSub env g2 on hf.1.2] at h
        have A1 := sqElem_ok env e g g1 hf.1.1 hi h1
        have B := cjElem_ok env e g1 g2 hf.1.1 A1.inv h2
        have A1' := A1.absorb B (fun d _ hd => hd)
        have A3 := cjJoins_ok env r g2 g' hf.2 A1'.inv h
        simp only [dvJoins]
        exact A1'.trans A3
theorem cjFromExpr_ok (env : Env) : (f : FromExpr) → (g g' : LGraph) → fragF f = true → Inv g →
    cjFromExpr env f g = .ok g' → Sub g g' (dvFromExpr env f)
  | .mk base js, g, g', hf, hi, h => by
    simp only [fragF, Bool.and_eq_true] at hf
    simp only [cjFromExpr] at h
    split at h
    · cases h
    · rename_i g1 h1
      have B1 := cjElem_ok env base g g1 hf.1 hi h1
      have A2 := cjJoins_ok env js g1 g' hf.2 B1.inv h
      simp only [dvFromExpr]
      exact B1.trans A2.toSub
theorem cjFromExprs_ok (env : Env) : (l : List FromExpr) → (g g' : LGraph) → fragFs l = true → Inv g →
    cjFromExprs env l g = .ok g' → Sub g g' (dvFromExprs env l)
  | [], g, g', _, hi, h => by
    simp only [cjFromExprs] at h
    rw [← ok_inj h]
    simp only [dvFromExprs]
    exact Sub.refl hi
  | f :: r, g, g', hf, hi, h => by
    simp only [fragFs, Bool.and_eq_true] at hf
    simp only [cjFromExprs] at h
    split at h
    · cases h
    · rename_i g1 h1
      have B1 := cjFromExpr_ok env f g g1 hf.1 hi h1
      have B2 := cjFromExprs_ok env r g1 g' hf.2 B1.inv h
      simp only [dvFromExprs]
      exact B1.trans B2
end

/-! ## 8. statement level -/

/-- everything the specification lists is a `Table` -/
theorem dsElem_isDataset (env : Env) (cte : List String) (parts : List String) (a : Option String) (k : Bool) (d : DS)
    (h : d ∈ dsElem env cte (.table parts a k)) : d.isDataset = true := by
  have : d = (mkTable env parts none).d := by
    cases parts with
    | nil => simpa [dsElem] using h
    | cons n r =>
      cases r with
      | nil =>
        simp only [dsElem] at h
        split at h
        · cases h
        · simpa using h
      | cons _ _ => simpa [dsElem] using h
  rw [this]; rfl

mutual
theorem dsExpr_isDataset (env : Env) (cte : List String) (d : DS) : (e : Expr) → d ∈ dsExpr env cte e → d.isDataset = true
  | .col _ _, h => by simp [dsExpr] at h
  | .star _, h => by simp [dsExpr] at h
  | .lit _, h => by simp [dsExpr] at h
  | .func _ _ as none, h => by
    simp only [dsExpr, List.append_nil] at h
    exact dsExprs_isDataset env cte d as h
  | .func _ _ as (some (.mk p o)), h => by
    simp only [dsExpr, List.mem_append] at h
    rcases h with h | h | h
    · exact dsExprs_isDataset env cte d as h
    · exact dsExprs_isDataset env cte d p h
    · exact dsExprs_isDataset env cte d o h
  | .cast e _, h => by
    simp only [dsExpr] at h
    exact dsExpr_isDataset env cte d e h
  | .case ws none, h => by
    simp only [dsExpr, List.append_nil] at h
    exact dsWhens_isDataset env cte d ws h
  | .case ws (some e), h => by
    simp only [dsExpr, List.mem_append] at h
    rcases h with h | h
    · exact dsWhens_isDataset env cte d ws h
    · exact dsExpr_isDataset env cte d e h
  | .bin _ a b, h => by
    simp only [dsExpr, List.mem_append] at h
    rcases h with h | h
    · exact dsExpr_isDataset env cte d a h
    · exact dsExpr_isDataset env cte d b h
  | .paren e, h => by
    simp only [dsExpr] at h
    exact dsExpr_isDataset env cte d e h
  | .subq q, h => by
    simp only [dsExpr] at h
    exact dsQuery_isDataset env d q cte h
  | .inSubq e _ q, h => by
    simp only [dsExpr, List.mem_append] at h
    rcases h with h | h
    · exact dsExpr_isDataset env cte d e h
    · exact dsQuery_isDataset env d q cte h
  | .exist _ q, h => by
    simp only [dsExpr] at h
    exact dsQuery_isDataset env d q cte h
theorem dsExprs_isDataset (env : Env) (cte : List String) (d : DS) :
    (l : List Expr) → d ∈ dsExprs env cte l → d.isDataset = true
  | [], h => by simp [dsExprs] at h
  | e :: r, h => by
    simp only [dsExprs, List.mem_append] at h
    rcases h with h | h
    · exact dsExpr_isDataset env cte d e h
    · exact dsExprs_isDataset env cte d r h
theorem dsOpt_isDataset (env : Env) (cte : List String) (d : DS) :
    (o : Option Expr) → d ∈ dsOpt env cte o → d.isDataset = true
  | none, h => by simp [dsOpt] at h
  | some e, h => by
    simp only [dsOpt] at h
    exact dsExpr_isDataset env cte d e h
theorem dsWhens_isDataset (env : Env) (cte : List String) (d : DS) :
    (l : List When) → d ∈ dsWhens env cte l → d.isDataset = true
  | [], h => by simp [dsWhens] at h
  | .mk c r :: rest, h => by
    simp only [dsWhens, List.mem_append] at h
    rcases h with (h | h) | h
    · exact dsExpr_isDataset env cte d c h
    · exact dsExpr_isDataset env cte d r h
    · exact dsWhens_isDataset env cte d rest h
theorem dsItems_isDataset (env : Env) (cte : List String) (d : DS) :
    (l : List Item) → d ∈ dsItems env cte l → d.isDataset = true
  | [], h => by simp [dsItems] at h
  | .mk e _ _ :: r, h => by
    simp only [dsItems, List.mem_append] at h
    rcases h with h | h
    · exact dsExpr_isDataset env cte d e h
    · exact dsItems_isDataset env cte d r h
theorem dsQuery_isDataset (env : Env) (d : DS) : (q : Query) → (cte : List String) → d ∈ dsQuery env cte q → d.isDataset = true
  | .select _ its frm wh grp hav, cte, h => by
    simp only [dsQuery, List.mem_append] at h
    rcases h with (((h | h) | h) | h) | h
    · exact dsFromExprs_isDataset env cte d frm h
    · exact dsItems_isDataset env cte d its h
    · exact dsOpt_isDataset env cte d wh h
    · exact dsExprs_isDataset env cte d grp h
    · exact dsOpt_isDataset env cte d hav h
  | .setop first rest, cte, h => by
    simp only [dsQuery, List.mem_append] at h
    rcases h with h | h
    · exact dsBranch_isDataset env cte d first h
    · exact dsOpBranches_isDataset env cte d rest h
  | .withq cs body, cte, h => by
    simp only [dsQuery, List.mem_append] at h
    rcases h with h | h
    · exact dsCtes_isDataset env d cs cte h
    · exact dsQuery_isDataset env d body _ h
theorem dsBranch_isDataset (env : Env) (cte : List String) (d : DS) :
    (b : Branch) → d ∈ dsBranch env cte b → d.isDataset = true
  | .mk q _, h => by
    simp only [dsBranch] at h
    exact dsQuery_isDataset env d q cte h
theorem dsOpBranches_isDataset (env : Env) (cte : List String) (d : DS) :
    (l : List OpBranch) → d ∈ dsOpBranches env cte l → d.isDataset = true
  | [], h => by simp [dsOpBranches] at h
  | .mk _ b :: r, h => by
    simp only [dsOpBranches, List.mem_append] at h
    rcases h with h | h
    · exact dsBranch_isDataset env cte d b h
    · exact dsOpBranches_isDataset env cte d r h
theorem dsCtes_isDataset (env : Env) (d : DS) :
    (l : List Cte) → (cte : List String) → d ∈ (dsCtes env cte l).1 → d.isDataset = true
  | [], _, h => by simp [dsCtes] at h
  | .mk name q :: r, cte, h => by
    simp only [dsCtes, List.mem_append] at h
    rcases h with h | h
    · exact dsQuery_isDataset env d q cte h
    · exact dsCtes_isDataset env d r _ h
theorem dsElemAny_isDataset (env : Env) (cte : List String) (d : DS) :
    (e : FromElem) → d ∈ dsElem env cte e → d.isDataset = true
  | .table parts a k, h => dsElem_isDataset env cte parts a k d h
  | .derived q _ _, h => by
    simp only [dsElem] at h
    exact dsQuery_isDataset env d q cte h
theorem dsJoins_isDataset (env : Env) (cte : List String) (d : DS) :
    (l : List Join) → d ∈ dsJoins env cte l → d.isDataset = true
  | [], h => by simp [dsJoins] at h
  | .mk _ e on _ :: r, h => by
    simp only [dsJoins, List.mem_append] at h
    rcases h with (h | h) | h
    · exact dsElemAny_isDataset env cte d e h
    · exact dsOpt_isDataset env cte d on h
    · exact dsJoins_isDataset env cte d r h
theorem dsFromExpr_isDataset (env : Env) (cte : List String) (d : DS) :
    (f : FromExpr) → d ∈ dsFromExpr env cte f → d.isDataset = true
  | .mk base js, h => by
    simp only [dsFromExpr, List.mem_append] at h
    rcases h with h | h
    · exact dsElemAny_isDataset env cte d base h
    · exact dsJoins_isDataset env cte d js h
theorem dsFromExprs_isDataset (env : Env) (cte : List String) (d : DS) :
    (l : List FromExpr) → d ∈ dsFromExprs env cte l → d.isDataset = true
  | [], h => by simp [dsFromExprs] at h
  | f :: r, h => by
    simp only [dsFromExprs, List.mem_append] at h
    rcases h with h | h
    · exact dsFromExpr_isDataset env cte d f h
    · exact dsFromExprs_isDataset env cte d r h
end

/-- printed name of a graph node as the runner reports it -/
def printedNode (g : LGraph) : Node → String
  | .ds d => printedDS g d
  | .col p _ => p
  | .str s => s

theorem printedDS_dataset (g : LGraph) (d : DS) (hd : d.isDataset = true) : printedDS g d = prDS d := by
  cases d with
  | table _ _ => rfl
  | path _ => rfl
  | subq _ => cases hd

theorem mem_tagged_ds (g : LGraph) (t : Tag) (n : Node) :
    n ∈ (Assemble.tagged g t).filter Node.isDataset ↔ ∃ d, n = .ds d ∧ d.isDataset = true ∧ g.tag (.ds d) t = some true := by
  simp only [Assemble.tagged, List.mem_filter, beq_iff_eq]
  constructor
  · rintro ⟨⟨_, ht⟩, hd⟩
    cases n with
    | ds d => exact ⟨d, rfl, hd, ht⟩
    | col _ _ => cases hd
    | str _ => cases hd
  · rintro ⟨d, hn, hd, ht⟩
    rw [hn]
    refine ⟨⟨?_, ht⟩, hd⟩
    apply Decidable.byContradiction
    intro hnm
    rw [tag_of_not_mem _ _ _ hnm] at ht
    cases ht

/-- the printed names of the `Table`/`Path` nodes carrying tag `t` are the printed names of `S` -/
theorem names_tagged (g : LGraph) (t : Tag) (S : List DS)
    (hS : ∀ d, d.isDataset = true → (g.tag (.ds d) t = some true ↔ d ∈ S)) (hall : ∀ d ∈ S, d.isDataset = true) (x : String) :
    x ∈ ((Assemble.tagged g t).filter Node.isDataset).map (printedNode g) ↔ x ∈ S.map prDS := by
  simp only [List.mem_map, mem_tagged_ds]
  constructor
  · rintro ⟨n, ⟨d, hn, hd, ht⟩, hx⟩
    rw [hn] at hx
    exact ⟨d, (hS d hd).mp ht, by rw [← hx]; exact (printedDS_dataset g d hd).symm⟩
  · rintro ⟨d, hd, hx⟩
    have hdd := hall d hd
    exact ⟨.ds d, ⟨d, rfl, hdd, (hS d hdd).mpr hd⟩, by rw [← hx]; exact printedDS_dataset g d hdd⟩

/-- plain `compose` of a well‑formed holder onto another -/
theorem compose_rw (g h : LGraph) (hh : Inv h) (d : DS) (hd : d.isDataset = true) :
    (RD (g.compose h) d ↔ RD g d ∨ RD h d) ∧ (WR (g.compose h) d ↔ WR g d ∨ WR h d) := by
  unfold RD WR
  rw [tag_compose, tag_compose]
  have h1 := hh.rd d
  have h2 := hh.wr d hd
  constructor
  · cases hx : h.tag (.ds d) .read with
    | none => simp
    | some b =>
      cases b
      · exact absurd hx h1
      · simp
  · cases hx : h.tag (.ds d) .write with
    | none => simp
    | some b =>
      cases b
      · exact absurd hx h2
      · simp

/-- the holder `CreateInsertExtractor` starts from: the target table (and its columns; with the D8 repair an explicit
    column list replaces the columns taken from the provider) -/
def wq0 (env : Env) (isInsert : Bool) (tgt : List String) (cols : Option (List String)) : LGraph :=
  writeTargetHolder env isInsert tgt cols

theorem exWriteQuery_eq (env : Env) (isInsert : Bool) (tgt : List String) (cols : Option (List String)) (q : Query) :
    exWriteQuery env isInsert tgt cols q =
      (match exQuery env (ctxOf (wq0 env isInsert tgt cols)) q with
        | .ok h => .ok ((wq0 env isInsert tgt cols).compose h)
        | .error e => .error e) := rfl

theorem tag_wq0 (env : Env) (isInsert : Bool) (tgt : List String) (cols : Option (List String)) (d : DS) (t : Tag) :
    (wq0 env isInsert tgt cols).tag (.ds d) t = if d = (mkTable env tgt none).d ∧ t = .write then some true else none := by
  have key : SameDs (addWriteO Graph.empty (mkTable env tgt none)) (wq0 env isInsert tgt cols) := by
    have F := TargetFrame.target_frame (addWriteO Graph.empty (mkTable env tgt none))
      (by simp [addWriteO, addWrite, Graph.setTag, Graph.addNode, Graph.empty])
      (isInsert && env.prov.truthy)
      (provColumns env.prov (mkTable env tgt none).d (mkTable env tgt none).printed)
      (fun cs : List String => cs.map listColumn) cols
    refine ⟨fun d t => ?_⟩
    have h := F.tags (.ds d) t rfl
    unfold wq0 writeTargetHolder removeWriteColumns
    cases cols <;> exact h
  rw [key.eq, tag_addWriteO, tag_empty]
  simp only [Node.ds.injEq]

/-- INSERT … query / CTAS / CREATE VIEW on the fragment: reads = the query's, WRITE exactly on the target -/
theorem exWriteQuery_ok (env : Env) (isInsert : Bool) (tgt : List String) (cols : Option (List String)) (q : Query)
    (hq : fragQ q = true) (g : LGraph) (h : exWriteQuery env isInsert tgt cols q = .ok g) (d : DS) (hd : d.isDataset = true) :
    (RD g d ↔ d ∈ dsQuery env [] q) ∧ (WR g d ↔ d ∈ [(mkTable env tgt none).d]) := by
  rw [exWriteQuery_eq] at h
  split at h
  · rename_i hh h1
    have T := tag_wq0 env isInsert tgt cols
    have hcte : (ctxOf (wq0 env isInsert tgt cols)).cte = [] :=
      cteObjs_nil (fun d' => by rw [T]; split <;> simp_all)
    have R := exQuery_ok env q _ hh hq hcte h1
    rw [← ok_inj h]
    have C := compose_rw (wq0 env isInsert tgt cols) hh R.inv d hd
    rw [C.1, C.2, R.rd d hd, R.wr d hd]
    have hw : (ctxOf (wq0 env isInsert tgt cols)).write.map (·.d) = tagSet (wq0 env isInsert tgt cols) .write :=
      map_d_objsOf _ _
    rw [hw, mem_tagSet]
    unfold RD WR
    rw [T, T]
    constructor
    · simp
    · by_cases hx : d = (mkTable env tgt none).d <;> simp [hx]
  · cases h

end SqlLineage.Proofs.ReadsExact
