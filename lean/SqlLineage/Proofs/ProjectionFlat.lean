/-
The statement holders of the flat write fragment of `Proofs/ColumnsExact.lean` project onto table lineage
(`Projection.HolderOK (analyze s)`), provided every qualifier written in a select item names a relation of the FROM clause
(`itemsScoped`).  Without that proviso the clause fails on the unchanged code: a qualifier that names nothing falls back to
`Table(qualifier)` (models.py:236), a table the statement does not read — findings D32 / K6 are instances, and
`dev_unscoped_qualifier` below is the model's witness.
-/
import SqlLineage.Proofs.ColumnsExact
import SqlLineage.Proofs.Projection

namespace SqlLineage.ProjectionFlat
open SqlLineage Ast Graph Walk Holder Assemble ColumnsExact Projection
open SqlLineage.Proofs.ReadsExact

/-- a qualified reference whose (normalised) qualifier is a name of the FROM clause -/
def refScoped (tabs : List DObj) (r : String × Option String) : Bool :=
  match (normRef r).2 with
  | some q => (amGet (specAliasMap tabs) q).isSome
  | none => true

def itemScoped (tabs : List DObj) : Item → Bool
  | .mk e _ _ => (refs e).all (refScoped tabs)

def itemsScoped (tabs : List DObj) (its : List Item) : Bool := its.all (itemScoped tabs)

theorem colParent_eq' : ∀ n, Paths.colParent n = ColumnsExact.colParent n
  | .ds _ => rfl
  | .col _ _ => rfl
  | .str _ => rfl

/-- the owner recorded in a source key of the specification is a table of the FROM clause -/
theorem srcKeys_owner (imp : String) (tabs : List DObj) (r : String × Option String) (hs : refScoped tabs r = true)
    (x : Node) (hx : x ∈ srcKeys imp tabs (normRef r)) (d : DS) (hd : ColumnsExact.colParent x = some d) :
    d ∈ tabs.map (·.d) := by
  unfold srcKeys at hx
  split at hx
  · obtain ⟨d', hd', rfl⟩ := List.mem_map.mp hx
    unfold denoted at hd'
    obtain ⟨v, hv, rfl⟩ := List.mem_map.mp hd'
    obtain ⟨kk, hkk⟩ := mem_amValues_sub _ v hv
    obtain ⟨_, _, o, ho, hod⟩ := specAliasMap_value _ _ (amGet_mem _ _ _ hkk)
    have : v.1 = d := by
      unfold starKey at hd
      rw [colParent_key] at hd
      simpa [Column.mk1, Column.parent?] using hd
    simp only at hod
    exact List.mem_map.mpr ⟨o, ho, hod.trans this⟩
  · simp only [List.mem_singleton] at hx
    subst hx
    rw [colParent_key] at hd
    unfold refScoped at hs
    generalize normRef r = nr at hs hd
    obtain ⟨rn, rq⟩ := nr
    cases rq with
    | some q =>
      simp only at hs
      cases hq : amGet (specAliasMap tabs) q with
      | none => rw [hq] at hs; cases hs
      | some v =>
        obtain ⟨_, _, o, ho, hod⟩ := specAliasMap_value _ _ (amGet_mem _ _ _ hq)
        have : v.1 = d := by
          simpa [srcCol, resolveQ, hq, Column.mk1, Column.parent?] using hd
        simp only at hod
        exact List.mem_map.mpr ⟨o, ho, hod.trans this⟩
    | none =>
      match tabs, hd with
      | [t], hd =>
        have : t.d = d := by simpa [srcCol, Column.mk1, Column.parent?] using hd
        simp [this]
      | [], hd => simp [srcCol, Column.mk1, Column.parent?] at hd
      | _ :: _ :: _, hd => simp [srcCol, Column.mk1, Column.parent?] at hd

/-! ### tags of the holder the cleanup starts from -/

theorem tag_foldl_addReadO_other (t : Tag) (ht : t ≠ .read) : ∀ (l : List DObj), (∀ o ∈ l, isTabRef o = true) →
    ∀ (g : LGraph) (n : Node), (l.foldl addReadO g).tag n t = g.tag n t
  | [], _, _, _ => rfl
  | o :: r, hl, g, n => by
    obtain ⟨s, nm, a, rfl⟩ := tabRef_cases o (hl o (by simp))
    simp only [List.foldl_cons]
    rw [tag_foldl_addReadO_other t ht r (fun x hx => hl x (by simp [hx])), addReadO_tab, tag_addEdge, tag_setTag]
    rw [if_neg]
    intro h
    exact ht h.2

theorem tagged_nil_of (g : LGraph) (t : Tag) (h : ∀ n, g.tag n t ≠ some true) : tagged g t = [] := by
  simp only [tagged, List.filter_eq_nil_iff]
  intro n _
  simp [h n]

/-- membership in `stmtRead` / `stmtWrite` from the tag -/
theorem mem_tagged_of_tag (g : LGraph) (n : Node) (t : Tag) (h : g.tag n t = some true) : n ∈ tagged g t := by
  simp only [tagged, List.mem_filter]
  refine ⟨?_, by simp [h]⟩
  apply Classical.byContradiction
  intro hn
  rw [tag_of_not_mem g n t hn] at h
  cases h

/-! ### the statement holder -/

/-- everything `HolderOK` needs, from the facts `exWriteQuery_wired`-style theorems provide -/
theorem holderOK_of_wired (T : DObj) (hT : T.d.isTable = true) (tabs : List DObj) (hl : ∀ o ∈ tabs, isTabRef o = true)
    (g2 : LGraph) (K : List (Node × Node))
    (hb : ReadBase (tabs.foldl addReadO (g0 T)) tabs T.d)
    (hw : Wired (tabs.foldl addReadO (g0 T)) g2 K)
    (hE : EdgesExact ((g0 T).compose g2) K tabs [])
    (hK : ∀ u v, (u, v) ∈ K → ColumnsExact.colParent v = some T.d ∧
      ∀ d, ColumnsExact.colParent u = some d → d ∈ tabs.map (·.d)) :
    HolderOK ((g0 T).compose g2) := by
  have htagC : ∀ n t, ((g0 T).compose g2).tag n t =
      match g2.tag n t with | some b => some b | none => (g0 T).tag n t := fun n t => tag_compose _ _ n t
  have hTds : T.d.isDataset = true := by cases hd : T.d <;> simp_all [DS.isTable, DS.isDataset]
  refine ⟨?_, ?_, ?_⟩
  · -- no RENAME edge
    simp only [stmtRename, List.filter_eq_nil_iff]
    intro e he
    have := hE.noRename e.1 e.2 (mem_edgesOrdered _ _ he)
    simpa using this
  · -- projection
    intro u v he d Tt hd
    obtain ⟨hu, hv, hdd, hTT⟩ := hd
    rw [colParent_eq'] at hu hv
    have hucol : u.isCol = true := isCol_of_colParent u d hu
    have he2 : (u, v) ∈ g2.edges := by
      rcases (mem_edges_compose _ _ _).mp he with h0 | h0
      · rw [g0_edges] at h0; cases h0
      · exact h0
    have hk := (hw.lin u v hucol).mp he2
    obtain ⟨hvT, hud⟩ := hK u v hk
    have hTt : Tt = T.d := by rw [hv] at hvT; exact Option.some.inj hvT
    have hdm := hud d hu
    constructor
    · -- read
      have ht : ((g0 T).compose g2).tag (.ds d) .read = some true := by
        rw [htagC, hw.tg, (hb.rd d).mpr hdm]
      simp only [stmtRead, List.mem_filter]
      exact ⟨mem_tagged_of_tag _ _ _ ht, by simpa [Node.isDataset] using hdd⟩
    · -- write
      have ht : ((g0 T).compose g2).tag (.ds T.d) .write = some true := by
        rw [htagC, hw.tg, (hb.wr T.d).mpr rfl]
      simp only [stmtWrite, List.mem_filter]
      rw [hTt]
      exact ⟨mem_tagged_of_tag _ _ _ ht, by simpa [Node.isDataset] using hTds⟩
  · -- no DROP tag at all
    intro hne
    exfalso
    apply hne
    unfold stmtDrop
    apply tagged_nil_of
    intro n
    rw [htagC, hw.tg, tag_foldl_addReadO_other .drop (by decide) tabs hl, g0_tag]
    simp

/-- query level: the holder of `CreateInsertExtractor.extract` on the flat fragment projects -/
theorem exWriteQuery_holderOK (env : Env) (isInsert : Bool) (tgt : List String) (d : Bool) (its : List Item)
    (frm : List FromExpr) (wh : Option Expr) (grp : List Expr) (hav : Option Expr) (hp : env.prov.truthy = false)
    (hfrag : fragSelect env tgt (.select d its frm wh grp hav) = true)
    (hsc : itemsScoped (fromTabs env frm) its = true) :
    ∃ g, exWriteQuery env isInsert tgt none (.select d its frm wh grp hav) = .ok g ∧ HolderOK g ∧
      EdgesExact g (specPairs env tgt its frm) (fromTabs env frm) [] := by
  obtain ⟨g2, hg, hb, _, hw⟩ := exWriteQuery_wired env isInsert tgt d its frm wh grp hav hp hfrag
  obtain ⟨g, hg', hE⟩ := exWriteQuery_exact env isInsert tgt d its frm wh grp hav hp hfrag
  rw [hg] at hg'
  have hgeq : (g0 (mkTable env tgt none)).compose g2 = g := Except.ok.inj hg'
  refine ⟨_, hg, ?_, by rw [hgeq]; exact hE⟩
  apply holderOK_of_wired (mkTable env tgt none) (mkTable_isTable env tgt none) (fromTabs env frm)
    (fromTabs_isTabRef env frm) g2 _ hb hw (by rw [hgeq]; exact hE)
  intro u v huv
  obtain ⟨e, a, k, hit, r, hr, hu, hv⟩ := (mem_specPairs env tgt its frm u v).mp huv
  refine ⟨by rw [hv]; exact tgtCol_parent env tgt _, fun d' hd' => ?_⟩
  have h1 := List.all_eq_true.mp hsc _ hit
  simp only [itemScoped, List.all_eq_true] at h1
  exact srcKeys_owner env.importDefault (fromTabs env frm) r (h1 r hr) u hu d' hd'

def stmtScoped (env : Env) (s : Stmt) : Bool := itemsScoped (fromTabs env (stmtFrom s)) (stmtItems s)

/-- **statement level**: `analyze` on the flat write fragment (INSERT without column list / CTAS / CREATE VIEW over one SELECT
    block of base tables) with every qualifier in scope yields a holder that projects -/
theorem analyze_holderOK (env : Env) (silent : Bool) (s : Stmt) (hp : env.prov.truthy = false) (hs : fragStmt env s = true)
    (hsc : stmtScoped env s = true) :
    ∃ g, analyze env silent s = .ok g ∧ HolderOK g := by
  cases s with
  | insert kd tk tgt cols q br =>
    cases cols with
    | some _ => simp [fragStmt] at hs
    | none =>
      cases q with
      | setop _ _ => simp [fragStmt, fragSelect] at hs
      | withq _ _ => simp [fragStmt, fragSelect] at hs
      | select d its frm wh grp hav =>
        obtain ⟨g, hg, hok, _⟩ := exWriteQuery_holderOK env true tgt d its frm wh grp hav hp (by simpa [fragStmt] using hs)
          (by simpa [stmtScoped, stmtFrom, stmtItems] using hsc)
        unfold analyze
        have hd : dispatch (stmtType (.insert kd tk tgt none (.select d its frm wh grp hav) br)) = some "CreateInsertExtractor" :=
          disp_insert
        rw [hd]
        exact ⟨g, hg, hok⟩
  | ctas tgt orr ine q br =>
    cases q with
    | setop _ _ => simp [fragStmt, fragSelect] at hs
    | withq _ _ => simp [fragStmt, fragSelect] at hs
    | select d its frm wh grp hav =>
      obtain ⟨g, hg, hok, _⟩ := exWriteQuery_holderOK env false tgt d its frm wh grp hav hp (by simpa [fragStmt] using hs)
        (by simpa [stmtScoped, stmtFrom, stmtItems] using hsc)
      unfold analyze
      have hd : dispatch (stmtType (.ctas tgt orr ine (.select d its frm wh grp hav) br)) = some "CreateInsertExtractor" :=
        disp_create_table
      rw [hd]
      exact ⟨g, hg, hok⟩
  | createView tgt orr cols q =>
    cases cols with
    | some _ => simp [fragStmt] at hs
    | none =>
      cases q with
      | setop _ _ => simp [fragStmt, fragSelect] at hs
      | withq _ _ => simp [fragStmt, fragSelect] at hs
      | select d its frm wh grp hav =>
        obtain ⟨g, hg, hok, _⟩ := exWriteQuery_holderOK env false tgt d its frm wh grp hav hp (by simpa [fragStmt] using hs)
          (by simpa [stmtScoped, stmtFrom, stmtItems] using hsc)
        unfold analyze
        have hd : dispatch (stmtType (.createView tgt orr none (.select d its frm wh grp hav))) = some "CreateInsertExtractor" :=
          disp_create_view
        rw [hd]
        exact ⟨g, hg, hok⟩
  | query _ _ => simp [fragStmt] at hs
  | insertValues _ _ _ => simp [fragStmt] at hs
  | createTable _ _ _ => simp [fragStmt] at hs
  | createTableLike _ _ => simp [fragStmt] at hs
  | update _ _ _ _ _ => simp [fragStmt] at hs
  | merge _ _ _ _ _ _ => simp [fragStmt] at hs
  | copy _ _ => simp [fragStmt] at hs
  | drop _ _ _ => simp [fragStmt] at hs
  | alterRename _ _ => simp [fragStmt] at hs
  | renameTable _ => simp [fragStmt] at hs
  | noop _ _ => simp [fragStmt] at hs
  | unsupported _ => simp [fragStmt] at hs

/-! ### from the exact edge description and the tag facts (column list, and any other fragment that provides them) -/

/-- `HolderOK` from `EdgesExact` + `TagFacts`: an edge leaving a column is a LINEAGE edge, hence one of the specified pairs -/
theorem holderOK_of_exact (g : LGraph) (K : List (Node × Node)) (tabs : List DObj) (O0 : List (Node × Node)) (T : DS)
    (hT : T.isDataset = true) (hE : EdgesExact g K tabs O0) (hF : TagFacts g tabs T)
    (hO0 : ∀ p ∈ O0, p.1.isCol = false)
    (hK : ∀ u v, (u, v) ∈ K → ColumnsExact.colParent v = some T ∧
      ∀ d, ColumnsExact.colParent u = some d → d ∈ tabs.map (·.d)) :
    HolderOK g := by
  refine ⟨?_, ?_, ?_⟩
  · simp only [stmtRename, List.filter_eq_nil_iff]
    intro e he
    have := hE.noRename e.1 e.2 (mem_edgesOrdered _ _ he)
    simpa using this
  · intro u v he d Tt hd
    obtain ⟨hu, hv, hdd, hTT⟩ := hd
    rw [colParent_eq'] at hu hv
    have hucol : u.isCol = true := isCol_of_colParent u d hu
    have hety : g.ety u v = some (g.etype u v) := by
      simp only [Graph.ety, (hasEdge_iff g u v).mpr he, if_true]
    have hk : (u, v) ∈ K := by
      cases hty : g.etype u v with
      | lineage => exact (hE.lineage u v).mp ⟨he, by rw [hety, hty]⟩
      | rename => exact absurd (by rw [hety, hty]) (hE.noRename u v he)
      | hasColumn =>
        rcases (hE.hasColumn u v).mp ⟨he, by rw [hety, hty]⟩ with h0 | h0
        · have := hO0 _ h0; simp only at this; rw [this] at hucol; cases hucol
        · obtain ⟨p, _, h1 | h1⟩ := (mem_specOwners K (u, v)).mp h0
          · obtain ⟨d', _, hx⟩ := h1
            have : u = .ds d' := congrArg Prod.fst hx
            rw [this] at hucol; cases hucol
          · obtain ⟨d', _, hx⟩ := h1
            have : u = .ds d' := congrArg Prod.fst hx
            rw [this] at hucol; cases hucol
      | hasAlias =>
        obtain ⟨o, _, a, _, hx, _⟩ := (hE.hasAlias u v).mp ⟨he, by rw [hety, hty]⟩
        rw [hx] at hucol; cases hucol
    obtain ⟨hvT, hud⟩ := hK u v hk
    have hTt : Tt = T := by rw [hv] at hvT; exact Option.some.inj hvT
    constructor
    · simp only [stmtRead, List.mem_filter]
      exact ⟨mem_tagged_of_tag _ _ _ (hF.rd d (hud d hu)), by simpa [Node.isDataset] using hdd⟩
    · simp only [stmtWrite, List.mem_filter]
      rw [hTt]
      exact ⟨mem_tagged_of_tag _ _ _ hF.wr, by simpa [Node.isDataset] using hT⟩
  · intro hne
    exfalso
    apply hne
    unfold stmtDrop
    exact tagged_nil_of _ _ hF.nodrop

/-- query level, column list -/
theorem exWriteQueryCols_holderOK (env : Env) (isInsert : Bool) (tgt : List String) (cs : List String) (d : Bool)
    (its : List Item) (frm : List FromExpr) (wh : Option Expr) (grp : List Expr) (hav : Option Expr)
    (hp : env.prov.truthy = false) (hfrag : fragSelectCols env tgt cs (.select d its frm wh grp hav) = true)
    (hsc : itemsScoped (fromTabs env frm) its = true) :
    ∃ g, exWriteQuery env isInsert tgt (some cs) (.select d its frm wh grp hav) = .ok g ∧ HolderOK g := by
  obtain ⟨g, hg, hE, hF⟩ := exWriteQueryCols_exact' env isInsert tgt cs d its frm wh grp hav hp hfrag
  refine ⟨g, hg, holderOK_of_exact g _ _ _ _ (mkTable_isTable env tgt none ▸ rfl) hE hF ?_ ?_⟩
  · intro p hp'
    unfold listedOwners at hp'
    obtain ⟨c, _, rfl⟩ := List.mem_map.mp hp'
    rfl
  · intro u v huv
    obtain ⟨e, a, k, c, hic, r, hr, hu, hv⟩ := (mem_specPairsPos env tgt cs its frm u v).mp huv
    refine ⟨by rw [hv]; rfl, fun d' hd' => ?_⟩
    have hit : Item.mk e a k ∈ its := (List.of_mem_zip hic).1
    have h1 := List.all_eq_true.mp hsc _ hit
    simp only [itemScoped, List.all_eq_true] at h1
    exact srcKeys_owner env.importDefault (fromTabs env frm) r (h1 r hr) u hu d' hd'

/-- **statement level, column list**: `INSERT INTO T (c1, …, cn) <select>` / `CREATE VIEW T (c1, …, cn) AS <select>` over one
    SELECT block of base tables, qualifiers in scope: the holder projects -/
theorem analyze_holderOK_cols (env : Env) (silent : Bool) (s : Stmt) (hp : env.prov.truthy = false)
    (hs : fragStmtCols env s = true) (hsc : stmtScoped env s = true) :
    ∃ g, analyze env silent s = .ok g ∧ HolderOK g := by
  cases s with
  | insert kd tk tgt cols q br =>
    cases cols with
    | none => simp [fragStmtCols] at hs
    | some cs =>
      cases q with
      | setop _ _ => simp [fragStmtCols, fragSelectCols] at hs
      | withq _ _ => simp [fragStmtCols, fragSelectCols] at hs
      | select d its frm wh grp hav =>
        have := exWriteQueryCols_holderOK env true tgt cs d its frm wh grp hav hp (by simpa [fragStmtCols] using hs)
          (by simpa [stmtScoped, stmtFrom, stmtItems] using hsc)
        unfold analyze
        have hd : dispatch (stmtType (.insert kd tk tgt (some cs) (.select d its frm wh grp hav) br)) =
            some "CreateInsertExtractor" := disp_insert
        rw [hd]
        exact this
  | createView tgt orr cols q =>
    cases cols with
    | none => simp [fragStmtCols] at hs
    | some cs =>
      cases q with
      | setop _ _ => simp [fragStmtCols, fragSelectCols] at hs
      | withq _ _ => simp [fragStmtCols, fragSelectCols] at hs
      | select d its frm wh grp hav =>
        have := exWriteQueryCols_holderOK env false tgt cs d its frm wh grp hav hp (by simpa [fragStmtCols] using hs)
          (by simpa [stmtScoped, stmtFrom, stmtItems] using hsc)
        unfold analyze
        have hd : dispatch (stmtType (.createView tgt orr (some cs) (.select d its frm wh grp hav))) =
            some "CreateInsertExtractor" := disp_create_view
        rw [hd]
        exact this
  | ctas _ _ _ _ _ => simp [fragStmtCols] at hs
  | query _ _ => simp [fragStmtCols] at hs
  | insertValues _ _ _ => simp [fragStmtCols] at hs
  | createTable _ _ _ => simp [fragStmtCols] at hs
  | createTableLike _ _ => simp [fragStmtCols] at hs
  | update _ _ _ _ _ => simp [fragStmtCols] at hs
  | merge _ _ _ _ _ _ => simp [fragStmtCols] at hs
  | copy _ _ => simp [fragStmtCols] at hs
  | drop _ _ _ => simp [fragStmtCols] at hs
  | alterRename _ _ => simp [fragStmtCols] at hs
  | renameTable _ => simp [fragStmtCols] at hs
  | noop _ _ => simp [fragStmtCols] at hs
  | unsupported _ => simp [fragStmtCols] at hs

/-! ### set operations -/

def partsScoped (env : Env) (parts : List (List Item × List FromExpr)) : Bool :=
  parts.all (fun b => itemsScoped (fromTabs env b.2) b.1)

def stmtScopedSetop (env : Env) (s : Stmt) : Bool := partsScoped env (stmtParts s)

/-- query level, set operation of flat branches -/
theorem exWriteQueryUnion_holderOK (env : Env) (isInsert : Bool) (tgt : List String) (first : Branch) (rest : List OpBranch)
    (hp : env.prov.truthy = false) (hfrag : fragSetop env tgt (.setop first rest) = true)
    (hsc : partsScoped env (setopParts first rest) = true) :
    ∃ g, exWriteQuery env isInsert tgt none (.setop first rest) = .ok g ∧ HolderOK g := by
  obtain ⟨g, hg, hE, hF⟩ := exWriteQueryUnion_exact' env isInsert tgt first rest hp hfrag
  refine ⟨g, hg, holderOK_of_exact g _ _ _ _ (mkTable_isTable env tgt none ▸ rfl) hE hF (by intro p hp'; cases hp') ?_⟩
  have hscb : ∀ b ∈ setopParts first rest, itemsScoped (fromTabs env b.2) b.1 = true :=
    fun b hb => List.all_eq_true.mp hsc b hb
  have hsub : ∀ b ∈ setopParts first rest, ∀ d ∈ (fromTabs env b.2).map (·.d),
      d ∈ ((setopParts first rest).flatMap (fun b => fromTabs env b.2)).map (·.d) := by
    intro b hb d hd
    obtain ⟨o, ho, rfl⟩ := List.mem_map.mp hd
    exact List.mem_map.mpr ⟨o, List.mem_flatMap.mpr ⟨b, hb, ho⟩, rfl⟩
  intro u v huv
  generalize hpd : setopParts first rest = parts at *
  cases parts with
  | nil => simp [specPairsUnion] at huv
  | cons b1 restp =>
    simp only [specPairsUnion, List.mem_append, List.mem_flatMap] at huv
    rcases huv with h1 | ⟨b, hbm, h1⟩
    · obtain ⟨e, a, k, hit, r, hr, hu, hv⟩ := (mem_specPairs env tgt b1.1 b1.2 u v).mp h1
      refine ⟨by rw [hv]; exact tgtCol_parent env tgt _, fun d' hd' => ?_⟩
      have h2 := List.all_eq_true.mp (hscb b1 (by simp)) _ hit
      simp only [itemScoped, List.all_eq_true] at h2
      exact hsub b1 (by simp) d' (srcKeys_owner env.importDefault (fromTabs env b1.2) r (h2 r hr) u hu d' hd')
    · obtain ⟨e, a, k, it1, hii, r, hr, hu, hv⟩ := (mem_unionBranchPairs env tgt b1.1 b u v).mp h1
      refine ⟨by rw [hv]; exact tgtCol_parent env tgt _, fun d' hd' => ?_⟩
      have hit : Item.mk e a k ∈ b.1 := (List.of_mem_zip hii).1
      have h2 := List.all_eq_true.mp (hscb b (by simp [hbm])) _ hit
      simp only [itemScoped, List.all_eq_true] at h2
      exact hsub b (by simp [hbm]) d' (srcKeys_owner env.importDefault (fromTabs env b.2) r (h2 r hr) u hu d' hd')

/-- **statement level, set operation**: INSERT / CTAS / CREATE VIEW over a set operation of any number of flat branches, every
    qualifier in scope of its own branch: the holder projects -/
theorem analyze_holderOK_setop (env : Env) (silent : Bool) (s : Stmt) (hp : env.prov.truthy = false)
    (hs : fragStmtSetop env s = true) (hsc : stmtScopedSetop env s = true) :
    ∃ g, analyze env silent s = .ok g ∧ HolderOK g := by
  cases s with
  | insert kd tk tgt cols q br =>
    cases cols with
    | some _ => simp [fragStmtSetop] at hs
    | none =>
      cases q with
      | select _ _ _ _ _ _ => simp [fragStmtSetop, fragSetop] at hs
      | withq _ _ => simp [fragStmtSetop, fragSetop] at hs
      | setop first rest =>
        have := exWriteQueryUnion_holderOK env true tgt first rest hp (by simpa [fragStmtSetop] using hs)
          (by simpa [stmtScopedSetop, stmtParts] using hsc)
        unfold analyze
        have hd : dispatch (stmtType (.insert kd tk tgt none (.setop first rest) br)) = some "CreateInsertExtractor" :=
          disp_insert
        rw [hd]
        exact this
  | ctas tgt orr ine q br =>
    cases q with
    | select _ _ _ _ _ _ => simp [fragStmtSetop, fragSetop] at hs
    | withq _ _ => simp [fragStmtSetop, fragSetop] at hs
    | setop first rest =>
      have := exWriteQueryUnion_holderOK env false tgt first rest hp (by simpa [fragStmtSetop] using hs)
        (by simpa [stmtScopedSetop, stmtParts] using hsc)
      unfold analyze
      have hd : dispatch (stmtType (.ctas tgt orr ine (.setop first rest) br)) = some "CreateInsertExtractor" :=
        disp_create_table
      rw [hd]
      exact this
  | createView tgt orr cols q =>
    cases cols with
    | some _ => simp [fragStmtSetop] at hs
    | none =>
      cases q with
      | select _ _ _ _ _ _ => simp [fragStmtSetop, fragSetop] at hs
      | withq _ _ => simp [fragStmtSetop, fragSetop] at hs
      | setop first rest =>
        have := exWriteQueryUnion_holderOK env false tgt first rest hp (by simpa [fragStmtSetop] using hs)
          (by simpa [stmtScopedSetop, stmtParts] using hsc)
        unfold analyze
        have hd : dispatch (stmtType (.createView tgt orr none (.setop first rest))) = some "CreateInsertExtractor" :=
          disp_create_view
        rw [hd]
        exact this
  | query _ _ => simp [fragStmtSetop] at hs
  | insertValues _ _ _ => simp [fragStmtSetop] at hs
  | createTable _ _ _ => simp [fragStmtSetop] at hs
  | createTableLike _ _ => simp [fragStmtSetop] at hs
  | update _ _ _ _ _ => simp [fragStmtSetop] at hs
  | merge _ _ _ _ _ _ => simp [fragStmtSetop] at hs
  | copy _ _ => simp [fragStmtSetop] at hs
  | drop _ _ _ => simp [fragStmtSetop] at hs
  | alterRename _ _ => simp [fragStmtSetop] at hs
  | renameTable _ => simp [fragStmtSetop] at hs
  | noop _ _ => simp [fragStmtSetop] at hs
  | unsupported _ => simp [fragStmtSetop] at hs

/-! ### statements without column lineage: plain SELECT, DROP, statements that move no data -/

/-- a holder none of whose edges leaves a column, and without RENAME edge, projects trivially -/
theorem holderOK_of_noColSrc (h : LGraph) (hE : ∀ u v, (u, v) ∈ h.edges → u.isCol = false ∧ h.ety u v ≠ some .rename) :
    HolderOK h := by
  refine ⟨?_, ?_, ?_⟩
  · simp only [stmtRename, List.filter_eq_nil_iff]
    intro e he
    have := (hE e.1 e.2 (mem_edgesOrdered _ _ he)).2
    simpa using this
  · intro u v he d T hd
    have h1 := (hE u v he).1
    have h2 := (dsEdge_isCol hd).1
    rw [h1] at h2; cases h2
  · intro _ u v he d T hd
    have h1 := (hE u v he).1
    have h2 := (dsEdge_isCol hd).1
    rw [h1] at h2; cases h2

/-- `add_write_column(*cols)` only adds HAS_COLUMN edges from the written table: every edge of the result either was an edge of
    `g` (same type) or leaves a dataset node and is typed HAS_COLUMN -/
theorem addWriteColumns_edges (g : LGraph) (cols : List Column) (u v : Node)
    (he : (u, v) ∈ (addWriteColumns g cols).edges) :
    (u.isCol = false ∧ (addWriteColumns g cols).ety u v = some .hasColumn) ∨
    ((u, v) ∈ g.edges ∧ (addWriteColumns g cols).ety u v = g.ety u v) := by
  unfold addWriteColumns at he ⊢
  split at he
  · exact Or.inr ⟨he, rfl⟩
  · rename_i t0 _
    have key : ∀ (tp : DS × String) (l : List (Column × Nat)) (g0 : LGraph) (u v : Node),
        (u, v) ∈ (l.foldl (fun g ci => g.addEdge (.ds t0) (ci.1.addParent tp).key .hasColumn (some ci.2) none
          (some (.col (ci.1.addParent tp)))) g0).edges →
        (u.isCol = false ∧ (l.foldl (fun g ci => g.addEdge (.ds t0) (ci.1.addParent tp).key .hasColumn (some ci.2) none
          (some (.col (ci.1.addParent tp)))) g0).ety u v = some .hasColumn) ∨
        ((u, v) ∈ g0.edges ∧ (l.foldl (fun g ci => g.addEdge (.ds t0) (ci.1.addParent tp).key .hasColumn (some ci.2) none
          (some (.col (ci.1.addParent tp)))) g0).ety u v = g0.ety u v) := by
      intro tp l
      induction l with
      | nil => intro g0 u v h; exact Or.inr ⟨h, rfl⟩
      | cons x r ih =>
        intro g0 u v h
        simp only [List.foldl_cons] at h ⊢
        rcases ih _ u v h with h1 | ⟨h1, h2⟩
        · exact Or.inl h1
        · rw [h2, ety_addEdge]
          by_cases hx : u = Node.ds t0 ∧ v = (x.1.addParent tp).key
          · left
            rw [if_pos hx]
            exact ⟨by rw [hx.1]; rfl, rfl⟩
          · right
            rw [if_neg hx]
            refine ⟨?_, rfl⟩
            rcases (mem_edges_addEdge _ _ _ (u, v) _ _ _ _).mp h1 with h3 | h3
            · exact h3
            · exact absurd ⟨congrArg Prod.fst h3, congrArg Prod.snd h3⟩ hx
    exact key _ _ g u v he

/-- the other statement kinds the script-level theorem admits: a plain SELECT over base tables, DROP, a no-op kind -/
def plainStmt : Stmt → Bool
  | .query (.select d its frm wh grp hav) br => fragPlainSelect (.query (.select d its frm wh grp hav) br)
  | .drop _ _ _ => true
  | .noop _ _ => true
  | .createTableLike _ _ => true
  | .createTable _ _ _ => true
  | .insertValues _ _ _ => true
  | _ => false

theorem analyze_holderOK_plain (env : Env) (silent : Bool) (s : Stmt) (hp : env.prov.truthy = false)
    (hs : plainStmt s = true) (g : LGraph)
    (hg : analyze env silent s = .ok g) : HolderOK g ∧ Paths.WF g := by
  cases s with
  | query q br =>
    cases q with
    | setop _ _ => simp [plainStmt] at hs
    | withq _ _ => simp [plainStmt] at hs
    | select d its frm wh grp hav =>
      obtain ⟨d', its', frm', wh', grp', hav', br', heq, hg'⟩ := analyze_plain env silent _ (by simpa [plainStmt] using hs)
      cases heq
      rw [hg] at hg'
      cases hg'
      have hR := reads_edges (fromTabs env frm) (fromTabs_isTabRef env frm)
      refine ⟨holderOK_of_noColSrc _ ?_, (wf_foldl_addReadO _ (fromTabs_isTabRef env frm) _ ExportLemmas.wf_empty).edges⟩
      intro u v he
      obtain ⟨o, _, a, _, hu, _⟩ := (hR u v).1.mp he
      refine ⟨by rw [hu]; rfl, ?_⟩
      rw [(hR u v).2 he]; simp
  | drop vw ie tgt =>
    have hg0 : g = exDrop env tgt ∨ g = Graph.empty := by
      unfold analyze at hg
      split at hg
      · split at hg <;> simp at hg
        exact Or.inr hg.symm
      · simp at hg; exact Or.inl hg.symm
    have hnoE : g.edges = [] := by
      rcases hg0 with rfl | rfl
      · simp [exDrop, addDrop]
      · rfl
    refine ⟨holderOK_of_noColSrc _ (by intro u v he; rw [hnoE] at he; cases he), ?_⟩
    intro e he; rw [hnoE] at he; cases he
  | noop k t =>
    have hg0 : g = Graph.empty := by
      unfold analyze at hg
      split at hg
      · split at hg <;> simp at hg
        exact hg.symm
      · simp at hg; exact hg.symm
    subst hg0
    refine ⟨holderOK_of_noColSrc _ (by intro u v he; cases he), ?_⟩
    intro e he; cases he
  | insert _ _ _ _ _ _ => simp [plainStmt] at hs
  | insertValues tgt cols rows =>
    -- `INSERT INTO tgt [(c1, …)] VALUES …`: the written table, with its listed columns if any
    have hg0 : g = writeTargetHolder env true tgt cols ∨ g = Graph.empty := by
      unfold analyze at hg
      split at hg
      · split at hg <;> simp at hg
        exact Or.inr hg.symm
      · simp at hg; exact Or.inl hg.symm
    rcases hg0 with rfl | rfl
    · cases cols with
      | none =>
        rw [writeTargetHolder_none env true tgt hp]
        refine ⟨holderOK_of_noColSrc _ (by intro u v he; rw [g0_edges] at he; cases he), ?_⟩
        intro e he; rw [g0_edges] at he; cases he
      | some cs =>
        obtain ⟨s', nm, al, hmk⟩ : ∃ s' nm al, mkTable env tgt none = ⟨.table s' nm, al⟩ := ⟨_, _, _, rfl⟩
        rw [writeTargetHolder_some env true tgt cs hp s' nm al hmk]
        refine ⟨holderOK_of_noColSrc _ ?_, (wf_addWriteColumns _ _ (g0_wf _)).edges⟩
        intro u v he
        rcases addWriteColumns_edges _ _ u v he with ⟨h1, h2⟩ | ⟨h1, _⟩
        · exact ⟨h1, by rw [h2]; simp⟩
        · rw [g0_edges] at h1; cases h1
    · refine ⟨holderOK_of_noColSrc _ (by intro u v he; cases he), ?_⟩
      intro e he; cases he
  | ctas _ _ _ _ _ => simp [plainStmt] at hs
  | createView _ _ _ _ => simp [plainStmt] at hs
  | createTable tgt ine cols =>
    -- `CREATE TABLE tgt (c1 …, …)`: the written table and its listed columns, HAS_COLUMN edges only
    have hg0 : g = addWriteColumns (g0 (mkTable env tgt none)) (cols.map (fun c => listColumn c.1)) ∨ g = Graph.empty := by
      unfold analyze at hg
      split at hg
      · split at hg <;> simp at hg
        exact Or.inr hg.symm
      · simp at hg; exact Or.inl hg.symm
    rcases hg0 with rfl | rfl
    · refine ⟨holderOK_of_noColSrc _ ?_, (wf_addWriteColumns _ _ (g0_wf _)).edges⟩
      intro u v he
      rcases addWriteColumns_edges _ _ u v he with ⟨h1, h2⟩ | ⟨h1, _⟩
      · exact ⟨h1, by rw [h2]; simp⟩
      · rw [g0_edges] at h1; cases h1
    · refine ⟨holderOK_of_noColSrc _ (by intro u v he; cases he), ?_⟩
      intro e he; cases he
  | createTableLike tgt src =>
    -- `CREATE TABLE tgt LIKE src`: the holder is g0(tgt) after one read, its only edge is the alias edge of `src`
    have hTR : ∀ o ∈ [mkTable env src none], isTabRef o = true := by
      intro o ho; simp only [List.mem_singleton] at ho; rw [ho]; rfl
    obtain ⟨hb, hbE⟩ := readBase (mkTable env tgt none) (mkTable_isTable env tgt none) [mkTable env src none] hTR
    have hg0 : g = [mkTable env src none].foldl addReadO (g0 (mkTable env tgt none)) ∨ g = Graph.empty := by
      unfold analyze at hg
      split at hg
      · split at hg <;> simp at hg
        exact Or.inr hg.symm
      · simp at hg; exact Or.inl hg.symm
    rcases hg0 with rfl | rfl
    · refine ⟨holderOK_of_noColSrc _ ?_, hb.wf.edges⟩
      intro u v he
      refine ⟨hb.noColSrc u v he, ?_⟩
      obtain ⟨o, _, a, _, hu, hv⟩ := (hbE u v).mp he
      rw [hb.ty u v he, hu, hv]
      simp [ColumnsExact.kind, Node.isCol]
    · refine ⟨holderOK_of_noColSrc _ (by intro u v he; cases he), ?_⟩
      intro e he; cases he
  | update _ _ _ _ _ => simp [plainStmt] at hs
  | merge _ _ _ _ _ _ => simp [plainStmt] at hs
  | copy _ _ => simp [plainStmt] at hs
  | alterRename _ _ => simp [plainStmt] at hs
  | renameTable _ => simp [plainStmt] at hs
  | unsupported _ => simp [plainStmt] at hs

/-! ### the fragment does not look at the provider -/

theorem elemTabs_prov (env : Env) (pv : ProvView) (e : FromElem) : elemTabs { env with prov := pv } e = elemTabs env e := by
  cases e <;> rfl

theorem joinTabs_prov (env : Env) (pv : ProvView) : ∀ js : List Join, joinTabs { env with prov := pv } js = joinTabs env js
  | [] => rfl
  | .mk _ e _ _ :: r => by
    simp only [joinTabs, elemTabs_prov, joinTabs_prov env pv r]

theorem fromTabs_prov (env : Env) (pv : ProvView) (frm : List FromExpr) :
    fromTabs { env with prov := pv } frm = fromTabs env frm := by
  unfold fromTabs
  congr 1
  funext fe
  cases fe with
  | mk b js => simp only [feTabs, elemTabs_prov, joinTabs_prov]

theorem fragStmt_prov (env : Env) (pv : ProvView) (s : Stmt) : fragStmt { env with prov := pv } s = fragStmt env s := by
  have hq : ∀ tgt q, fragSelect { env with prov := pv } tgt q = fragSelect env tgt q := by
    intro tgt q
    cases q with
    | select d its frm wh grp hav => simp only [fragSelect, fromTabs_prov]; rfl
    | setop _ _ => rfl
    | withq _ _ => rfl
  cases s <;> first | rfl | skip
  all_goals (rename_i cols _ _; cases cols <;> simp only [fragStmt, hq])
  all_goals simp only [fragStmt, hq]

theorem fragStmtCols_prov (env : Env) (pv : ProvView) (s : Stmt) :
    fragStmtCols { env with prov := pv } s = fragStmtCols env s := by
  have hq : ∀ tgt cs q, fragSelectCols { env with prov := pv } tgt cs q = fragSelectCols env tgt cs q := by
    intro tgt cs q
    cases q with
    | select d its frm wh grp hav => simp only [fragSelectCols, fromTabs_prov]; rfl
    | setop _ _ => rfl
    | withq _ _ => rfl
  cases s <;> first | rfl | skip
  all_goals (rename_i cols _ _; cases cols <;> simp only [fragStmtCols, hq])
  all_goals simp only [fragStmtCols, hq]

theorem fragStmtSetop_prov (env : Env) (pv : ProvView) (s : Stmt) :
    fragStmtSetop { env with prov := pv } s = fragStmtSetop env s := by
  have hq : ∀ tgt q, fragSetop { env with prov := pv } tgt q = fragSetop env tgt q := by
    intro tgt q
    cases q with
    | select _ _ _ _ _ _ => rfl
    | setop first rest => simp only [fragSetop, fromTabs_prov]; rfl
    | withq _ _ => rfl
  cases s <;> first | rfl | skip
  all_goals (rename_i cols _ _; cases cols <;> simp only [fragStmtSetop, hq])
  all_goals simp only [fragStmtSetop, hq]

theorem stmtScopedSetop_prov (env : Env) (pv : ProvView) (s : Stmt) :
    stmtScopedSetop { env with prov := pv } s = stmtScopedSetop env s := by
  unfold stmtScopedSetop partsScoped
  simp only [fromTabs_prov]

theorem stmtScoped_prov (env : Env) (pv : ProvView) (s : Stmt) : stmtScoped { env with prov := pv } s = stmtScoped env s := by
  unfold stmtScoped
  rw [fromTabs_prov]

end SqlLineage.ProjectionFlat
