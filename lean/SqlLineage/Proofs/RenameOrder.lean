/-
Lemmas about the order in which `_build_digraph` applies the pairs of one RENAME statement since the repair of D10
(`Assemble.renamesInOrder`: the RENAME edges, however enumerated, stably sorted by their `index`):

* membership is preserved (`mem_renamesInOrder`);
* the result is sorted by index (`sortPairs_sorted`);
* when the indexes are pairwise distinct — what `add_rename` guarantees, it numbers the pairs 0, 1, 2, … — the result does not
  depend on the enumeration order (`sortPairs_perm`, `renamesInOrder_perm`): nothing is left of the hash‑order dependence.

Core Lean only.
-/
import SqlLineage.Model.Assemble

namespace SqlLineage.Proofs.RenameOrder
open SqlLineage Assemble

abbrev P := (Node × Node) × Nat

theorem mem_insertPair (x y : P) : ∀ acc, y ∈ insertPair x acc ↔ y = x ∨ y ∈ acc
  | [] => by simp [insertPair]
  | z :: r => by
    simp only [insertPair]
    split
    · simp
    · simp only [List.mem_cons, mem_insertPair x y r]
      constructor
      · rintro (h | h | h)
        · exact Or.inr (Or.inl h)
        · exact Or.inl h
        · exact Or.inr (Or.inr h)
      · rintro (h | h | h)
        · exact Or.inr (Or.inl h)
        · exact Or.inl h
        · exact Or.inr (Or.inr h)

theorem mem_foldl_insertPair (l : List P) : ∀ (acc : List P) (y : P),
    y ∈ l.foldl (fun acc x => insertPair x acc) acc ↔ y ∈ acc ∨ y ∈ l := by
  induction l with
  | nil => intro acc y; simp
  | cons x r ih =>
    intro acc y
    simp only [List.foldl_cons, ih, mem_insertPair, List.mem_cons]
    constructor
    · rintro ((h | h) | h)
      · exact Or.inr (Or.inl h)
      · exact Or.inl h
      · exact Or.inr (Or.inr h)
    · rintro (h | h | h)
      · exact Or.inl (Or.inr h)
      · exact Or.inl (Or.inl h)
      · exact Or.inr h

theorem mem_sortPairs (l : List P) (y : P) : y ∈ sortPairs l ↔ y ∈ l := by
  simp [sortPairs, mem_foldl_insertPair]

theorem mem_renamesInOrder (h : LGraph) (l : List (Node × Node)) (p : Node × Node) :
    p ∈ renamesInOrder h l ↔ p ∈ l := by
  simp only [renamesInOrder, List.mem_map, mem_sortPairs]
  constructor
  · rintro ⟨⟨q, i⟩, ⟨e, he, hq⟩, rfl⟩
    cases hq
    exact he
  · intro hp
    exact ⟨(p, (h.idx p.1 p.2).getD 0), ⟨p, hp, rfl⟩, rfl⟩

/-! ### sortedness and uniqueness -/

/-- strictly increasing indexes -/
def Sorted : List P → Prop
  | [] => True
  | x :: r => (∀ y ∈ r, x.2 < y.2) ∧ Sorted r

theorem insertPair_sorted (x : P) : ∀ (acc : List P), Sorted acc → (∀ y ∈ acc, y.2 ≠ x.2) → Sorted (insertPair x acc)
  | [], _, _ => by simp [insertPair, Sorted]
  | z :: r, hs, hne => by
    simp only [insertPair]
    split
    · rename_i hlt
      refine ⟨?_, hs⟩
      intro y hy
      rcases List.mem_cons.mp hy with h | h
      · rw [h]; exact hlt
      · exact Nat.lt_trans hlt (hs.1 y h)
    · rename_i hnlt
      have hzx : z.2 < x.2 := by
        have := hne z (by simp)
        omega
      refine ⟨?_, insertPair_sorted x r hs.2 (fun y hy => hne y (by simp [hy]))⟩
      intro y hy
      rcases (mem_insertPair x y r).mp hy with h | h
      · rw [h]; exact hzx
      · exact hs.1 y h

/-- the indexes of a list are pairwise distinct -/
def DistinctIdx (l : List P) : Prop := l.Pairwise (fun a b => a.2 ≠ b.2)

theorem foldl_insertPair_sorted (l : List P) : ∀ (acc : List P), Sorted acc → DistinctIdx l →
    (∀ x ∈ l, ∀ y ∈ acc, y.2 ≠ x.2) → Sorted (l.foldl (fun acc x => insertPair x acc) acc) := by
  induction l with
  | nil => intro acc hs _ _; exact hs
  | cons x r ih =>
    intro acc hs hd hne
    simp only [List.foldl_cons]
    have hd' := List.pairwise_cons.mp hd
    apply ih _ (insertPair_sorted x acc hs (hne x (by simp))) hd'.2
    intro x' hx' y hy
    rcases (mem_insertPair x y acc).mp hy with h | h
    · rw [h]; exact hd'.1 x' hx'
    · exact hne x' (by simp [hx']) y h

theorem sortPairs_sorted (l : List P) (hd : DistinctIdx l) : Sorted (sortPairs l) :=
  foldl_insertPair_sorted l [] trivial hd (by simp)

/-- two strictly sorted lists with the same members are equal -/
theorem sorted_ext : ∀ (a b : List P), Sorted a → Sorted b → (∀ y, y ∈ a ↔ y ∈ b) → a = b
  | [], [], _, _, _ => rfl
  | [], y :: _, _, _, h => by have := (h y).mpr (by simp); cases this
  | x :: _, [], _, _, h => by have := (h x).mp (by simp); cases this
  | x :: r, y :: s, ha, hb, h => by
    have hxy : x = y := by
      have hx : x ∈ y :: s := (h x).mp (by simp)
      have hy : y ∈ x :: r := (h y).mpr (by simp)
      rcases List.mem_cons.mp hx with h1 | h1
      · exact h1
      · rcases List.mem_cons.mp hy with h2 | h2
        · exact h2.symm
        · have := hb.1 x h1
          have := ha.1 y h2
          omega
    subst hxy
    congr 1
    apply sorted_ext r s ha.2 hb.2
    intro z
    constructor
    · intro hz
      have := (h z).mp (by simp [hz])
      rcases List.mem_cons.mp this with h1 | h1
      · have := ha.1 z hz; rw [h1] at this; omega
      · exact h1
    · intro hz
      have := (h z).mpr (by simp [hz])
      rcases List.mem_cons.mp this with h1 | h1
      · have := hb.1 z hz; rw [h1] at this; omega
      · exact h1

/-- **the enumeration order does not matter**: sorting a permutation gives the same list, when the indexes are distinct -/
theorem sortPairs_perm (l l' : List P) (hp : l'.Perm l) (hd : DistinctIdx l) : sortPairs l' = sortPairs l := by
  have hd' : DistinctIdx l' := by
    unfold DistinctIdx at *
    exact hp.symm.pairwise hd (fun h => fun e => h e.symm)
  apply sorted_ext _ _ (sortPairs_sorted l' hd') (sortPairs_sorted l hd)
  intro y
  rw [mem_sortPairs, mem_sortPairs]
  exact hp.mem_iff

theorem renamesInOrder_perm (h : LGraph) (l l' : List (Node × Node)) (hp : l'.Perm l)
    (hd : (l.map (fun e => (h.idx e.1 e.2).getD 0)).Nodup) : renamesInOrder h l' = renamesInOrder h l := by
  unfold renamesInOrder
  rw [sortPairs_perm _ _ (hp.map _)]
  unfold DistinctIdx
  rw [List.pairwise_map]
  have := List.pairwise_map.mp (List.nodup_iff_pairwise_ne.mp hd)
  exact this

end SqlLineage.Proofs.RenameOrder
