/-
Lemma library for the shape theorems of C09: every segment type occurring in `Shape.queryShape q` (and in the shapes of all
the other syntactic categories) belongs to the fixed vocabulary `vocab`.  Proved as one `mutual` block of structurally
recursive theorems that follows the mutual definition in `Model/Shape.lean` constructor by constructor (term-mode proofs:
the goals unfold definitionally).
-/
import SqlLineage.Model.Shape
namespace SqlLineage.Proofs.ShapeLemmas
open SqlLineage Ast SqlLineage.Shape SqlLineage.Shape.Shape

/-- every segment type a shape can contain -/
def vocab : List String :=
  ["file", "statement", "bracketed", "select_statement", "set_expression", "with_compound_statement", "insert_statement",
   "create_table_statement", "create_view_statement", "select_clause", "select_clause_modifier", "select_clause_element",
   "from_clause", "from_expression", "from_expression_element", "table_expression", "table_reference", "join_clause",
   "join_on_condition", "where_clause", "groupby_clause", "having_clause", "alias_expression", "alias_operator", "identifier",
   "column_reference", "wildcard_expression", "wildcard_identifier", "literal", "expression", "function", "function_name",
   "function_contents", "data_type", "over_clause", "window_specification", "partitionby_clause", "orderby_clause",
   "case_expression", "when_clause", "else_clause", "comparison_operator", "binary_operator", "set_operator",
   "common_table_expression"]

def Ok (sh : Shape) : Prop := ∀ t ∈ types sh, t ∈ vocab
def OkL (l : List Shape) : Prop := ∀ t ∈ typesL l, t ∈ vocab

theorem ok_node {t : String} {ks : List Shape} (ht : t ∈ vocab) (hk : OkL ks) : Ok (.node t ks) := by
  intro x hx
  simp only [types, List.mem_cons] at hx
  rcases hx with rfl | hx
  · exact ht
  · exact hk x hx

theorem okL_nil : OkL [] := by intro x hx; simp [typesL] at hx

theorem okL_cons {k : Shape} {r : List Shape} (hk : Ok k) (hr : OkL r) : OkL (k :: r) := by
  intro x hx
  simp only [typesL, List.mem_append] at hx
  rcases hx with hx | hx
  · exact hk x hx
  · exact hr x hx

theorem typesL_append (a b : List Shape) : typesL (a ++ b) = typesL a ++ typesL b := by
  induction a with
  | nil => simp [typesL]
  | cons k r ih => simp [typesL, ih]

theorem okL_append {a b : List Shape} (ha : OkL a) (hb : OkL b) : OkL (a ++ b) := by
  intro x hx
  rw [typesL_append, List.mem_append] at hx
  rcases hx with hx | hx
  · exact ha x hx
  · exact hb x hx

theorem ok_leaf {t : String} (ht : t ∈ vocab) : Ok (leaf t) := ok_node ht okL_nil

theorem okL_ids (n : Nat) : OkL (ids n) := by
  induction n with
  | zero => exact okL_nil
  | succ n ih =>
    have : ids (n + 1) = leaf "identifier" :: ids n := by simp [ids, List.replicate_succ]
    rw [this]; exact okL_cons (ok_leaf (by decide)) ih

theorem okL_optNode {name : String} {l : List Shape} (hn : name ∈ vocab) (hl : OkL l) : OkL (optNode name l) := by
  unfold optNode
  split
  · exact okL_nil
  · exact okL_cons (ok_node hn hl) okL_nil


theorem okL_opLeaf (op : String) : OkL (opLeaf op) := by
  unfold opLeaf
  split
  · exact okL_cons (ok_leaf (by decide)) okL_nil
  · split
    · exact okL_cons (ok_leaf (by decide)) okL_nil
    · exact okL_nil

theorem ok_colRef (q : List String) : Ok (colRef q) := ok_node (by decide) (okL_ids _)

theorem okL_alias (a : Option String) (k : Bool) : OkL (aliasShape a k) := by
  unfold aliasShape
  cases a with
  | none => exact okL_nil
  | some _ =>
    refine okL_cons (ok_node (by decide) (okL_append ?_ (okL_cons (ok_leaf (by decide)) okL_nil))) okL_nil
    split
    · exact okL_cons (ok_leaf (by decide)) okL_nil
    · exact okL_nil

theorem ok_wrapOpt (e : Expr) {l : List Shape} (hl : OkL l) : Ok (wrapOpt e l) := by
  have hexp : Ok (.node "expression" l) := ok_node (by decide) hl
  have h1 : ∀ s, l = [s] → Ok s := by
    intro s hs; subst hs
    intro x hx; exact hl x (by simp [typesL, hx])
  unfold wrapOpt
  split
  · exact ok_node (by decide) (okL_cons (ok_node (by decide) (okL_ids _)) okL_nil)
  all_goals first | exact h1 _ rfl | exact hexp

theorem ok_clause {name : String} (hn : name ∈ vocab) (e : Expr) {l : List Shape} (hl : OkL l) : Ok (clauseShape name e l) := by
  unfold clauseShape
  split
  · exact ok_node hn hl
  · exact ok_node hn (okL_cons (ok_node (by decide) hl) okL_nil)


theorem okL_modifier (distinct : Bool) : OkL (if distinct then [leaf "select_clause_modifier"] else []) := by
  split
  · exact okL_cons (ok_leaf (by decide)) okL_nil
  · exact okL_nil

theorem okL_using (ucols : List String) : OkL (if ucols.isEmpty then [] else [node "bracketed" (ids ucols.length)]) := by
  split
  · exact okL_nil
  · exact okL_cons (ok_node (by decide) (okL_ids _)) okL_nil

theorem okL_one {k : Shape} (h : Ok k) : OkL [k] := okL_cons h okL_nil

mutual
theorem ok_elems : (e : Expr) → OkL (elems e)
  | .col quals _ => by simp only [elems]; exact okL_one (ok_colRef _)
  | .star quals => by
    simp only [elems]; split
    · exact okL_nil
    · exact okL_one (ok_node (by decide) (okL_ids _))
  | .lit _ => by simp only [elems]; exact okL_one (ok_leaf (by decide))
  | .func _ _ args none =>
    okL_one (ok_node (by decide) (okL_append
      (okL_cons (ok_leaf (by decide)) (okL_one (ok_node (by decide) (okL_one (ok_node (by decide) (ok_args args)))))) okL_nil))
  | .func _ _ args (some ov) =>
    okL_one (ok_node (by decide) (okL_append
      (okL_cons (ok_leaf (by decide)) (okL_one (ok_node (by decide) (okL_one (ok_node (by decide) (ok_args args))))))
      (okL_one (ok_over ov))))
  | .cast e _ => by
    simp only [elems]
    exact okL_one (ok_node (by decide) (okL_cons (ok_leaf (by decide)) (okL_one (ok_node (by decide)
      (okL_one (ok_node (by decide) (okL_cons (ok_node (by decide) (ok_elems e)) (okL_one (ok_leaf (by decide))))))))))
  | .case ws none => okL_one (ok_node (by decide) (okL_append (ok_whens ws) okL_nil))
  | .case ws (some e) =>
    okL_one (ok_node (by decide) (okL_append (ok_whens ws)
      (okL_one (ok_node (by decide) (okL_one (ok_node (by decide) (ok_elems e)))))))
  | .bin op a b => okL_append (okL_append (ok_elems a) (okL_opLeaf op)) (ok_elems b)
  | .paren e => by
    simp only [elems]
    exact okL_one (ok_node (by decide) (okL_one (ok_node (by decide) (ok_elems e))))
  | .subq q => by
    simp only [elems]
    refine okL_one (ok_node (by decide) (okL_one ?_))
    split
    · exact ok_node (by decide) (okL_one (ok_query _))
    · exact ok_query _
  | .inSubq e _ q => by
    simp only [elems]
    exact okL_append (ok_elems e) (okL_one (ok_node (by decide) (okL_one (ok_query q))))
  | .exist _ q => by
    simp only [elems]
    exact okL_one (ok_node (by decide) (okL_one (ok_query q)))
theorem ok_args : (l : List Expr) → OkL (argShapes l)
  | [] => by simp only [argShapes]; exact okL_nil
  | e :: r => by simp only [argShapes]; exact okL_append (okL_optNode (by decide) (ok_elems e)) (ok_args r)
theorem ok_opts : (l : List Expr) → OkL (optShapes l)
  | [] => by simp only [optShapes]; exact okL_nil
  | e :: r => by simp only [optShapes]; exact okL_cons (ok_wrapOpt e (ok_elems e)) (ok_opts r)
theorem ok_over : (o : Over) → Ok (overShape o)
  | .mk part ord => by
    simp only [overShape]
    exact ok_node (by decide) (okL_one (ok_node (by decide) (okL_optNode (by decide)
      (okL_append (okL_optNode (by decide) (ok_args part)) (okL_optNode (by decide) (ok_opts ord))))))
theorem ok_whens : (l : List When) → OkL (whenShapes l)
  | [] => by simp only [whenShapes]; exact okL_nil
  | .mk c r :: rest => by
    simp only [whenShapes]
    exact okL_cons (ok_node (by decide) (okL_cons (ok_node (by decide) (ok_elems c)) (okL_one (ok_node (by decide) (ok_elems r)))))
      (ok_whens rest)
theorem ok_items : (l : List Item) → OkL (itemShapes l)
  | [] => by simp only [itemShapes]; exact okL_nil
  | .mk e alias asKw :: r => by
    simp only [itemShapes]
    exact okL_cons (ok_node (by decide) (okL_cons (ok_wrapOpt e (ok_elems e)) (okL_alias alias asKw))) (ok_items r)
theorem ok_query : (q : Query) → Ok (queryShape q)
  | .select distinct its frm none grp none =>
    ok_node (by decide) (okL_append (okL_append (okL_append (okL_append
      (okL_one (ok_node (by decide) (okL_append (okL_modifier distinct) (ok_items its)))) (okL_optNode (by decide) (ok_fromExprs frm))) okL_nil)
      (okL_optNode (by decide) (ok_opts grp))) okL_nil)
  | .select distinct its frm none grp (some he) =>
    ok_node (by decide) (okL_append (okL_append (okL_append (okL_append
      (okL_one (ok_node (by decide) (okL_append (okL_modifier distinct) (ok_items its)))) (okL_optNode (by decide) (ok_fromExprs frm))) okL_nil)
      (okL_optNode (by decide) (ok_opts grp))) (okL_one (ok_clause (by decide) he (ok_elems he))))
  | .select distinct its frm (some we) grp none =>
    ok_node (by decide) (okL_append (okL_append (okL_append (okL_append
      (okL_one (ok_node (by decide) (okL_append (okL_modifier distinct) (ok_items its)))) (okL_optNode (by decide) (ok_fromExprs frm))) (okL_one (ok_clause (by decide) we (ok_elems we))))
      (okL_optNode (by decide) (ok_opts grp))) okL_nil)
  | .select distinct its frm (some we) grp (some he) =>
    ok_node (by decide) (okL_append (okL_append (okL_append (okL_append
      (okL_one (ok_node (by decide) (okL_append (okL_modifier distinct) (ok_items its)))) (okL_optNode (by decide) (ok_fromExprs frm))) (okL_one (ok_clause (by decide) we (ok_elems we))))
      (okL_optNode (by decide) (ok_opts grp))) (okL_one (ok_clause (by decide) he (ok_elems he))))
  | .setop first rest => by
    simp only [queryShape]
    exact ok_node (by decide) (okL_cons (ok_branch first) (ok_opBranches rest))
  | .withq cs body => by
    simp only [queryShape]
    exact ok_node (by decide) (okL_append (ok_ctes cs) (okL_one (ok_query body)))
theorem ok_branch : (b : Branch) → Ok (branchShape b)
  | .mk q br => by
    simp only [branchShape]
    split
    · exact ok_node (by decide) (okL_one (ok_query q))
    · exact ok_query q
theorem ok_opBranches : (l : List OpBranch) → OkL (opBranchShapes l)
  | [] => by simp only [opBranchShapes]; exact okL_nil
  | .mk _ b :: r => by
    simp only [opBranchShapes]
    exact okL_cons (ok_leaf (by decide)) (okL_cons (ok_branch b) (ok_opBranches r))
theorem ok_ctes : (l : List Cte) → OkL (cteShapes l)
  | [] => by simp only [cteShapes]; exact okL_nil
  | .mk _ q :: r => by
    simp only [cteShapes]
    exact okL_cons (ok_node (by decide) (okL_cons (ok_leaf (by decide)) (okL_one (ok_node (by decide) (okL_one (ok_query q))))))
      (ok_ctes r)
theorem ok_fromElem : (f : FromElem) → Ok (fromElemShape f)
  | .table parts alias asKw => by
    simp only [fromElemShape]
    exact ok_node (by decide) (okL_cons (ok_node (by decide) (okL_one (ok_node (by decide) (okL_ids _)))) (okL_alias alias asKw))
  | .derived q alias asKw => by
    simp only [fromElemShape]
    exact ok_node (by decide) (okL_cons (ok_node (by decide) (okL_one (ok_node (by decide) (okL_one (ok_query q)))))
      (okL_alias alias asKw))
theorem ok_join : (j : Join) → Ok (joinShape j)
  | .mk _ e none ucols =>
    ok_node (by decide) (okL_append (okL_append (okL_one (ok_fromElem e)) okL_nil) (okL_using ucols))
  | .mk _ e (some c) ucols =>
    ok_node (by decide) (okL_append (okL_append (okL_one (ok_fromElem e)) (okL_one (ok_clause (by decide) c (ok_elems c))))
      (okL_using ucols))
theorem ok_joins : (l : List Join) → OkL (joinShapes l)
  | [] => by simp only [joinShapes]; exact okL_nil
  | j :: r => by simp only [joinShapes]; exact okL_cons (ok_join j) (ok_joins r)
theorem ok_fromExpr : (f : FromExpr) → Ok (fromExprShape f)
  | .mk base js => by
    simp only [fromExprShape]
    exact ok_node (by decide) (okL_cons (ok_fromElem base) (ok_joins js))
theorem ok_fromExprs : (l : List FromExpr) → OkL (fromExprShapes l)
  | [] => by simp only [fromExprShapes]; exact okL_nil
  | f :: r => by simp only [fromExprShapes]; exact okL_cons (ok_fromExpr f) (ok_fromExprs r)
end


theorem ok_bracketIf (b : Bool) {sh : Shape} (h : Ok sh) : Ok (Shape.bracketIf b sh) := by
  unfold Shape.bracketIf; split
  · exact ok_node (by decide) (okL_one h)
  · exact h

theorem okL_colList (cols : Option (List String)) : OkL (colListShape cols) := by
  unfold colListShape
  cases cols with
  | none => exact okL_nil
  | some cs =>
    refine okL_one (ok_node (by decide) ?_)
    induction cs with
    | nil => exact okL_nil
    | cons c r ih => exact okL_cons (ok_colRef []) ih

theorem ok_shapeStmt (s : Stmt) (sh : Shape) (h : shapeStmt s = some sh) : Ok sh := by
  cases s with
  | query q br => simp only [shapeStmt, Option.some.injEq] at h; subst h; exact ok_bracketIf _ (ok_query q)
  | insert k tk t c q b =>
    simp only [shapeStmt, Option.some.injEq] at h; subst h
    exact ok_node (by decide) (okL_append (okL_append (okL_one (ok_node (by decide) (okL_ids _))) (okL_colList c))
      (okL_one (ok_bracketIf _ (ok_query q))))
  | ctas t o i q b =>
    simp only [shapeStmt, Option.some.injEq] at h; subst h
    exact ok_node (by decide) (okL_cons (ok_node (by decide) (okL_ids _)) (okL_one (ok_bracketIf _ (ok_query q))))
  | createView t o c q =>
    simp only [shapeStmt, Option.some.injEq] at h; subst h
    exact ok_node (by decide) (okL_append (okL_append (okL_one (ok_node (by decide) (okL_ids _))) (okL_colList c))
      (okL_one (ok_query q)))
  | _ => simp [shapeStmt] at h

end SqlLineage.Proofs.ShapeLemmas
