/-
Helper lemmas about the naming model for `Props/C16.lean`: `split` / `rsplit`, `join`, dictionary lookup.
Core Lean only.
-/
import SqlLineage.Model.Names
import SqlLineage.Proofs.Ident

namespace SqlLineage.Names
open SqlLineage.Ident

/-! ### `split` and `rsplit` -/

theorem splitOn_ne_nil (c : Char) (l : List Char) : splitOn c l ≠ [] := by
  cases l with
  | nil => simp [splitOn]
  | cons x xs =>
    unfold splitOn
    split
    · simp
    · split <;> simp

/-- `len(s.split(c)) = s.count(c) + 1` -/
theorem splitOn_length (c : Char) (l : List Char) : (splitOn c l).length = l.count c + 1 := by
  induction l with
  | nil => simp [splitOn]
  | cons x xs ih =>
    unfold splitOn
    by_cases h : x = c
    · subst h; simp [ih]
    · rw [if_neg h]
      have hc : (x == c) = false := by simpa using h
      cases hs : splitOn c xs with
      | nil => exact absurd hs (splitOn_ne_nil c xs)
      | cons p ps =>
        rw [hs] at ih
        simp only [List.length_cons] at ih ⊢
        rw [List.count_cons, hc]; simpa using ih

theorem dropWhile_eq_cons {p : Char → Bool} : ∀ {r : List Char} {d : Char} {pre : List Char},
    r.dropWhile p = d :: pre → p d = false ∧ r = r.takeWhile p ++ d :: pre ∧ ∀ c ∈ r.takeWhile p, p c = true := by
  intro r
  induction r with
  | nil => intro d pre h; simp at h
  | cons x xs ih =>
    intro d pre h
    rw [List.dropWhile_cons] at h
    by_cases hx : p x = true
    · rw [if_pos hx] at h
      obtain ⟨h1, h2, h3⟩ := ih h
      refine ⟨h1, ?_, ?_⟩
      · rw [List.takeWhile_cons, if_pos hx, List.cons_append, ← h2]
      · rw [List.takeWhile_cons, if_pos hx]
        intro c hc
        rcases List.mem_cons.mp hc with e | e
        · exact e ▸ hx
        · exact h3 c e
    · rw [if_neg hx] at h
      injection h with e1 e2
      subst e1 e2
      refine ⟨by simpa using hx, ?_, ?_⟩
      · rw [List.takeWhile_cons, if_neg hx]; rfl
      · rw [List.takeWhile_cons, if_neg hx]; simp

theorem dropWhile_eq_nil {p : Char → Bool} : ∀ {r : List Char}, r.dropWhile p = [] → ∀ c ∈ r, p c = true := by
  intro r
  induction r with
  | nil => simp
  | cons x xs ih =>
    intro h c hc
    rw [List.dropWhile_cons] at h
    by_cases hx : p x = true
    · rw [if_pos hx] at h
      rcases List.mem_cons.mp hc with e | e
      · exact e ▸ hx
      · exact ih h c e
    · rw [if_neg hx] at h; simp at h

/-- `rsplit(c, 1)` cuts at the LAST occurrence -/
theorem rsplitLast_eq_some {c : Char} {l a b : List Char} (h : rsplitLast c l = some (a, b)) :
    l = a ++ c :: b ∧ c ∉ b := by
  unfold rsplitLast at h
  split at h
  · simp at h
  · next d pre hd =>
    obtain ⟨h1, h2, h3⟩ := dropWhile_eq_cons hd
    have hdc : d = c := by simpa using h1
    simp only [Option.some.injEq, Prod.mk.injEq] at h
    obtain ⟨ha, hb⟩ := h
    subst ha hb hdc
    constructor
    · have := congrArg List.reverse h2
      simpa using this
    · intro hm
      have := h3 d (List.mem_reverse.mp hm)
      simp at this

theorem rsplitLast_eq_none {c : Char} {l : List Char} : rsplitLast c l = none ↔ c ∉ l := by
  unfold rsplitLast
  constructor
  · intro h
    split at h
    · next hd =>
      intro hm
      have := dropWhile_eq_nil hd c (List.mem_reverse.mpr hm)
      simp at this
    · simp at h
  · intro h
    have : l.reverse.dropWhile (· != c) = [] := by
      cases hd : l.reverse.dropWhile (· != c) with
      | nil => rfl
      | cons d pre =>
        obtain ⟨h1, h2, _⟩ := dropWhile_eq_cons hd
        have hdc : d = c := by simpa using h1
        have : d ∈ l.reverse := by rw [h2]; simp
        exact absurd (hdc ▸ List.mem_reverse.mp this) h
    rw [this]

theorem rsplitLast_append {c : Char} {a b : List Char} (h : c ∉ b) : rsplitLast c (a ++ c :: b) = some (a, b) := by
  have hb : ∀ x ∈ b.reverse, (x != c) = true := by
    intro x hx
    have : x ≠ c := fun e => h (e ▸ List.mem_reverse.mp hx)
    simpa using this
  have hr : (a ++ c :: b).reverse = b.reverse ++ c :: a.reverse := by simp
  unfold rsplitLast
  rw [hr, List.dropWhile_append_of_pos hb, List.takeWhile_append_of_pos hb]
  simp

/-! ### `join` -/

theorem joinWith_concat (sep : List Char) (l : List (List Char)) (x : List Char) (h : l ≠ []) :
    joinWith sep (l ++ [x]) = joinWith sep l ++ sep ++ x := by
  induction l with
  | nil => exact absurd rfl h
  | cons p ps ih =>
    cases ps with
    | nil => simp [joinWith]
    | cons q qs =>
      have := ih (by simp)
      simp only [List.cons_append] at this ⊢
      simp only [joinWith, this, List.append_assoc]

/-! ### dictionary lookup -/

theorem dictGet_const {m : List (Name × Parent)} {k : Name} {v : Parent} (hv : ∀ kv ∈ m, kv.2 = v)
    (hk : ∃ kv ∈ m, kv.1 = k) : dictGet m k = some v := by
  unfold dictGet
  cases hf : m.reverse.find? (·.1 == k) with
  | none =>
    obtain ⟨kv, hm, e⟩ := hk
    have := List.find?_eq_none.mp hf kv (List.mem_reverse.mpr hm)
    simp [e] at this
  | some kv =>
    have hm := List.mem_reverse.mp (List.mem_of_find?_eq_some hf)
    simp [hv kv hm]

theorem Table.eq_refl (t : Table) : t.eq t = true := by simp [Table.eq]

theorem Parent.eq_refl (p : Parent) : p.eq p = true := by
  cases p <;> simp [Parent.eq, Table.eq, Path.eq, SubQuery.eq]

end SqlLineage.Names
